(* AhtRoundTripProofs.v — the C13 round trip `parse (print (auto_head_tail t)) == t` for every tree that is an
   image of the grammar (guard `AhtRoundTrip.rt_ok`), any depth and width.

   Route:  t  --auto_head_tail-->  daht t  --print-->  text  --lexer-->  tokens  --LR driver-->  tree
     A/B  lexer: every token kind re-read in a NEW context (what precedes it, what follows it), from a fact about
          the lexeme standing alone; chains of such tokens built from the right (`CHN`, on the `tchain` / `lift`
          machinery of RespaceProofs.v — the engine of L_respace — so the blanks auto_head_tail inserts are the
          tails of the tokens);
     C    `syn t`: the syntax tree (PrecedenceGeneral.ptree) whose yield is that token list, blanks included;
     D    the printed form of auto_head_tail's result on operations (head / tail filling by index);
     E/F  `CH_all`: print (daht t) followed by any closing context IS the chain of `fl (syn t)` (one structural
          induction, continuation-passing: each sub-expression is followed by a blank, `)`, `^`, `~` or the end);
     G    `WF_all`: `syn t` is well-formed for the documented grammar (level discipline, numerals, no signed
          operand in juxtaposition) and its value (PrecedenceGeneral.val) is t without layout;
     H    `rt_syntax`: the summary used by props/C13r.v, which concludes with C03c_grammar_trees. *)
Require Import Base Decimal Tree GenTree GenVisitors GenChars GenParser Visitor Eq Traverse Print Lexer Actions LR Parser Erase Grammar Respace.
Require Import AutoHeadTail AhtRoundTrip.
Require Import TreeInd EqProofs LexerProofs RespaceProofs AutoHeadTailProofs PrecedenceProofs PrecedenceGeneral.
From Coq Require Import Lia.

Local Arguments is_space : simpl never.
Local Arguments is_udigit : simpl never.
Local Arguments is_numchar : simpl never.
Local Arguments term_follow_char : simpl never.
Local Arguments term_first_char : simpl never.
Local Arguments term_step : simpl never.
Local Arguments lex_term : simpl never.
Local Arguments lex_one : simpl never.

(* ================================================================ A. one token in a new context *)

(* the characters that follow a complete sub-expression in the output of auto_head_tail: a blank,
   `)`, `^`, `~` (or the end of the text) *)
Definition closer (c : char) : bool := is_space c || mem_N c [c_rparen; c_caret; c_tilde].
Definition closes (x : str) : Prop := match x with [] => True | c :: _ => closer c = true end.

Lemma closer_props c : closer c = true ->
  term_follow_char c = false /\ N.eqb c c_bslash = false /\ N.eqb c c_colon = false /\
  is_udigit c = false /\ is_numchar c = false /\ N.eqb c c_eq = false.
Proof.
  unfold closer. intros H. apply orb_true_iff in H. destruct H as [H|H].
  - repeat split.
    + apply space_not_follow; exact H.
    + apply space_neq; [exact H|reflexivity].
    + apply space_neq; [exact H|reflexivity].
    + apply space_not_digit; exact H.
    + destruct (is_numchar c) eqn:E; [|reflexivity]. apply numchar_not_space in E. congruence.
    + apply space_neq; [exact H|reflexivity].
  - simpl in H. repeat (apply orb_true_iff in H; destruct H as [H|H]);
      try discriminate; apply N.eqb_eq in H; subst c; repeat split; reflexivity.
Qed.

Lemma closes_space w x : all_space w = true -> closes x -> closes (w ++ x).
Proof.
  destruct w as [|c w]; [auto|]. simpl. intros H _. apply andb_true_iff in H. destruct H as [H _].
  unfold closer. rewrite H. reflexivity.
Qed.

Lemma term_step_colon_none rp rest :
  tw rp = false \/ two_digits rest = false -> term_step rp (c_colon :: rest) = None.
Proof.
  intros H. unfold term_step.
  replace (term_follow_char c_colon) with false by reflexivity.
  replace (N.eqb c_colon c_bslash) with false by reflexivity.
  replace (N.eqb c_colon c_colon) with true by reflexivity. cbv iota.
  destruct rp as [|d2 [|d1 [|t rp']]]; try reflexivity.
  destruct (is_udigit d2 && is_udigit d1 && N.eqb t c_T) eqn:Ew; [|reflexivity].
  destruct H as [H|H]; [unfold tw in H; congruence|].
  destruct rest as [|m1 [|m2 s2]]; try reflexivity. simpl in H. rewrite H. reflexivity.
Qed.

Lemma term_step_closes rp x : closes x -> term_step rp x = None.
Proof.
  destruct x as [|c x]; [reflexivity|]. simpl. intros H.
  destruct (closer_props c H) as [H1 [H2 [H3 _]]]. unfold term_step. rewrite H1, H2, H3. reflexivity.
Qed.

(* the look-ahead (:\d\d)? of an inner time step does not reach a text that starts like this *)
Definition la_stop (r' : str) : Prop :=
  match r' with
  | [] => True
  | c :: rest => (N.eqb c c_colon = false \/ two_digits rest = false) /\ is_udigit c = false
  end.

Lemma tm2_app_stop r' : la_stop r' -> forall b, tm2 (b ++ r') = true -> tm2 b = true.
Proof.
  intros Hs b H. destruct b as [|x [|y [|z b]]]; cbn [app] in H.
  - exfalso. destruct r' as [|c [|m1 [|m2 s]]]; try discriminate. simpl in Hs, H.
    apply andb_true_iff in H. destruct H as [H H2]. apply andb_true_iff in H. destruct H as [Hc H1].
    destruct Hs as [[Hs|Hs] _]; [congruence|]. rewrite H1, H2 in Hs. discriminate.
  - exfalso. destruct r' as [|c [|m1 s]]; try discriminate. simpl in Hs, H.
    apply andb_true_iff in H. destruct H as [H H2]. apply andb_true_iff in H. destruct H as [Hc H1].
    destruct Hs as [_ Hs]. congruence.
  - exfalso. destruct r' as [|c s]; try discriminate. simpl in Hs, H.
    apply andb_true_iff in H. destruct H as [H H2]. destruct Hs as [_ Hs]. congruence.
  - exact H.
Qed.

Lemma closes_la_stop x : closes x -> la_stop x.
Proof.
  destruct x as [|c x]; [auto|]. simpl. intros H.
  destruct (closer_props c H) as [_ [_ [H3 [H4 _]]]]. auto.
Qed.

Lemma mem_N_app c a b : mem_N c (a ++ b) = mem_N c a || mem_N c b.
Proof. induction a as [|x a IH]; simpl; [reflexivity|]. rewrite IH, orb_assoc. reflexivity. Qed.

(* a step of the TERM loop inside the lexeme, replayed with a text appended *)
Lemma term_step_inside_ctx rpA rpA' cs b1 r' :
  term_step rpA (cs ++ b1) = Some (cs, b1) -> tw rpA = tw rpA' ->
  (mem_N c_colon cs = false \/ forall b, tm2 (b ++ r') = true -> tm2 b = true) ->
  term_step rpA' (cs ++ b1 ++ r') = Some (cs, b1 ++ r').
Proof.
  intros H Hw HA. apply term_step_tstep in H. apply tstep_term_step.
  remember (cs ++ b1) as s eqn:Es. destruct H; cbn [app] in *.
  - constructor. assumption.
  - constructor; assumption.
  - apply ts_t3; try assumption; [congruence|].
    destruct (tm2 (s2 ++ r')) eqn:E; [|reflexivity]. exfalso. destruct HA as [HA|HA].
    + apply N.eqb_eq in H1. subst c. simpl in HA. discriminate.
    + rewrite (HA _ E) in H4. discriminate.
  - apply ts_t6; try assumption. congruence.
Qed.

Lemma term_loop_ctx : forall fuel rpA s racc l,
  term_loop fuel rpA s racc = (l, []) -> length s <= fuel ->
  forall rpA' r' racc' fuel', l = rev racc ++ s ->
  same_window rpA rpA' ->
  (mem_N c_colon s = false \/ forall b, tm2 (b ++ r') = true -> tm2 b = true) ->
  term_step (rev s ++ rpA') r' = None -> length (s ++ r') <= fuel' ->
  term_loop fuel' rpA' (s ++ r') racc' = (rev racc' ++ s, r').
Proof.
  induction fuel as [|f IH]; intros rpA s racc l H Hlen rpA' r' racc' fuel' Hl Hw HA Hstop Hlen'.
  - destruct s; [|simpl in Hlen; lia]. simpl. rewrite app_nil_r. apply term_loop_stop. exact Hstop.
  - simpl in H. destruct (term_step rpA s) as [[cs s1]|] eqn:Hst.
    + destruct (term_step_spec _ _ _ _ Hst) as [Hs1 Hne]. subst s.
      assert (Hst' : term_step rpA' (cs ++ s1 ++ r') = Some (cs, s1 ++ r')).
      { apply term_step_inside_ctx with (rpA := rpA); [exact Hst|exact (Hw [])|].
        destruct HA as [HA|HA]; [left|right; exact HA].
        rewrite mem_N_app in HA. apply orb_false_iff in HA. apply HA. }
      rewrite <- app_assoc in *.
      destruct fuel' as [|f'].
      { destruct cs; [congruence|]. simpl in Hlen'. lia. }
      simpl. rewrite Hst'.
      rewrite (IH _ _ _ _ H) with (rpA' := rev cs ++ rpA') (r' := r').
      * rewrite rev_app_distr, rev_involutive, <- app_assoc. reflexivity.
      * rewrite app_length in Hlen. destruct cs; [congruence|]. simpl in Hlen. lia.
      * rewrite rev_app_distr, rev_involutive, <- app_assoc. exact Hl.
      * apply same_window_app. exact Hw.
      * destruct HA as [HA|HA]; [left|right; exact HA].
        rewrite mem_N_app in HA. apply orb_false_iff in HA. apply HA.
      * rewrite rev_app_distr, <- app_assoc in Hstop. exact Hstop.
      * rewrite app_length in Hlen'. destruct cs; [congruence|]. simpl in Hlen'. lia.
    + injection H as E1 E2. subst s. simpl. rewrite app_nil_r. apply term_loop_stop. exact Hstop.
Qed.

(* a lexeme that the TERM rule reads whole when it stands alone is read whole in front of r' *)
Lemma lex_term_ctx rp' l r' :
  lex_term [] l = Some (l, []) -> safe rp' ->
  (mem_N c_colon l = false \/ forall b, tm2 (b ++ r') = true -> tm2 b = true) ->
  term_step (rev l ++ rp') r' = None ->
  lex_term rp' (l ++ r') = Some (l, r').
Proof.
  intros H Hs HA Hstop. destruct l as [|c l1]; [discriminate|].
  unfold lex_term in *. cbn [app] in *.
  destruct (term_first_char c).
  - injection H as H. f_equal.
    apply (term_loop_ctx _ _ _ _ _ H (Nat.le_refl _)) with (racc' := [c]).
    + reflexivity.
    + apply safe_window; [exact safe_nil|exact Hs].
    + destruct HA as [HA|HA]; [left|right; exact HA]. simpl in HA. apply orb_false_iff in HA. apply HA.
    + simpl in Hstop. rewrite <- app_assoc in Hstop. exact Hstop.
    + apply Nat.le_refl.
  - destruct (N.eqb c c_bslash); [|discriminate].
    destruct l1 as [|d l2]; [discriminate|]. cbn [app] in *.
    destruct (N.eqb d c_nl); [discriminate|]. injection H as H. f_equal.
    apply (term_loop_ctx _ _ _ _ _ H (Nat.le_refl _)) with (racc' := [d; c]).
    + reflexivity.
    + apply safe_window2; [exact safe_nil|exact Hs].
    + destruct HA as [HA|HA]; [left|right; exact HA]. simpl in HA.
      apply orb_false_iff in HA. destruct HA as [_ HA]. apply orb_false_iff in HA. apply HA.
    + simpl in Hstop. rewrite <- !app_assoc in Hstop. exact Hstop.
    + apply Nat.le_refl.
Qed.

Lemma lex_term_nonspace rp c s y : lex_term rp (c :: s) = Some y -> is_space c = false.
Proof.
  unfold lex_term. destruct (term_first_char c) eqn:Hf.
  - intros _. unfold term_first_char in Hf. apply andb_true_iff in Hf. destruct Hf as [Hf _].
    destruct (is_space c); [discriminate|reflexivity].
  - destruct (N.eqb c c_bslash) eqn:E; [|discriminate]. intros _.
    eapply eqb_not_space; [exact E|reflexivity].
Qed.

(* whether the TERM rule matches at all depends on the first two characters only *)
Lemma lex_term_starts l x rp : lex_term [] l = Some (l, []) -> exists y, lex_term rp (l ++ x) = Some y.
Proof.
  destruct l as [|c l1]; [discriminate|]. unfold lex_term. cbn [app].
  destruct (term_first_char c); [eauto|].
  destruct (N.eqb c c_bslash); [|discriminate].
  destruct l1 as [|d l2]; [discriminate|]. cbn [app]. destruct (N.eqb d c_nl); [discriminate|eauto].
Qed.

(* the token type of a lexeme read by the TERM rule *)
Definition rtype (l : str) : tok :=
  match find (fun p => str_eqb l (fst p)) gen_reserved with Some (_, t) => t | None => T_TERM end.

Lemma lex_one_of_term rp l x : l <> [] -> lex_term rp (l ++ x) = Some (l, x) ->
  lex_one rp (l ++ x) = Some (RTok (rtype l), l, x).
Proof.
  intros Hne H. destruct l as [|c l1]; [congruence|]. cbn [app] in *.
  pose proof (lex_term_nonspace _ _ _ _ H) as Hsp.
  unfold lex_one. rewrite Hsp, H. reflexivity.
Qed.

(* K-term: a TERM-rule lexeme in front of a closer *)
Lemma lex_one_term_ctx rp l x : lex_term [] l = Some (l, []) -> safe rp -> closes x ->
  lex_one rp (l ++ x) = Some (RTok (rtype l), l, x).
Proof.
  intros H Hs Hx. apply lex_one_of_term; [intros E; subst l; discriminate H|].
  apply lex_term_ctx; [exact H|exact Hs| |apply term_step_closes; exact Hx].
  right. apply tm2_app_stop. apply closes_la_stop. exact Hx.
Qed.

(* K-name: a field name in front of its colon *)
Lemma lex_one_name_ctx rp n rest : lex_term [] n = Some (n, []) -> safe rp -> name_glue n rest = true ->
  lex_one rp (n ++ c_colon :: rest) = Some (RTok (rtype n), n, c_colon :: rest).
Proof.
  intros H Hs Hg. apply lex_one_of_term; [intros E; subst n; discriminate H|].
  unfold name_glue in Hg. apply orb_true_iff in Hg.
  apply lex_term_ctx; [exact H|exact Hs| |].
  - destruct Hg as [Hg|Hg].
    + right. apply tm2_app_stop. simpl. apply negb_true_iff in Hg. split; [right; exact Hg|reflexivity].
    + left. apply andb_true_iff in Hg. destruct Hg as [Hg _]. apply negb_true_iff in Hg. exact Hg.
  - apply term_step_colon_none. destruct Hg as [Hg|Hg].
    + right. apply negb_true_iff in Hg. exact Hg.
    + left. apply andb_true_iff in Hg. destruct Hg as [_ Hg]. apply negb_true_iff in Hg.
      destruct n as [|c n1]; [discriminate|]. simpl. rewrite <- app_assoc. simpl.
      rewrite (Hs c (rev n1)). exact Hg.
Qed.

(* K-delim: PHRASE and REGEX are self-delimited *)
Lemma lex_one_phrase_ctx rp l x : lex_delimited c_quote l = Some (l, []) ->
  lex_one rp (l ++ x) = Some (RTok T_PHRASE, l, x).
Proof.
  intros H. destruct l as [|c l1]; [discriminate H|].
  rewrite <- (app_nil_r (c :: l1)) in H at 1. apply lex_delimited_respace with (r' := x) in H.
  cbn [app] in *.
  assert (Ec : c = c_quote).
  { unfold lex_delimited in H. destruct (N.eqb c c_quote) eqn:E; [apply N.eqb_eq; exact E|discriminate]. }
  subst c.
  assert (E : forall s, lex_one rp (c_quote :: s) =
                        match lex_delimited c_quote (c_quote :: s) with
                        | Some (l, r) => Some (RTok T_PHRASE, l, r) | None => None end) by reflexivity.
  rewrite E, H. reflexivity.
Qed.

Lemma lex_one_regex_ctx rp l x : lex_delimited c_slash l = Some (l, []) ->
  lex_one rp (l ++ x) = Some (RTok T_REGEX, l, x).
Proof.
  intros H. destruct l as [|c l1]; [discriminate H|].
  rewrite <- (app_nil_r (c :: l1)) in H at 1. apply lex_delimited_respace with (r' := x) in H.
  cbn [app] in *.
  assert (Ec : c = c_slash).
  { unfold lex_delimited in H. destruct (N.eqb c c_slash) eqn:E; [apply N.eqb_eq; exact E|discriminate]. }
  subst c.
  assert (E : forall s, lex_one rp (c_slash :: s) =
                        match lex_delimited c_slash (c_slash :: s) with
                        | Some (l, r) => Some (RTok T_REGEX, l, r) | None => None end) by reflexivity.
  rewrite E, H. reflexivity.
Qed.

(* K-punct: the one-character tokens *)
Definition punct : list (char * tok) :=
  [(c_plus, T_PLUS); (c_minus, T_MINUS); (c_colon, T_COLUMN); (c_lparen, T_LPAREN); (c_rparen, T_RPAREN)].

Lemma lex_one_punct rp c ty s : In (c, ty) punct -> lex_one rp (c :: s) = Some (RTok ty, [c], s).
Proof.
  unfold punct. simpl. intros H.
  repeat (destruct H as [H|H]; [inversion H; subst; reflexivity|]). destruct H.
Qed.

(* K-open: < <= > >= *)
Lemma lex_one_lt rp s : (match s with e :: _ => N.eqb e c_eq = false | [] => True end) ->
  lex_one rp (c_lt :: s) = Some (RTok T_LESSTHAN, [c_lt], s).
Proof.
  destruct s as [|e s]; [reflexivity|]. intros H.
  assert (E : lex_one rp (c_lt :: e :: s) =
              if N.eqb e c_eq then Some (RTok T_LESSTHAN, [c_lt; e], s)
              else Some (RTok T_LESSTHAN, [c_lt], e :: s)) by reflexivity.
  rewrite E, H. reflexivity.
Qed.
Lemma lex_one_gt rp s : (match s with e :: _ => N.eqb e c_eq = false | [] => True end) ->
  lex_one rp (c_gt :: s) = Some (RTok T_GREATERTHAN, [c_gt], s).
Proof.
  destruct s as [|e s]; [reflexivity|]. intros H.
  assert (E : lex_one rp (c_gt :: e :: s) =
              if N.eqb e c_eq then Some (RTok T_GREATERTHAN, [c_gt; e], s)
              else Some (RTok T_GREATERTHAN, [c_gt], e :: s)) by reflexivity.
  rewrite E, H. reflexivity.
Qed.
Lemma lex_one_le rp s : lex_one rp (c_lt :: c_eq :: s) = Some (RTok T_LESSTHAN, [c_lt; c_eq], s).
Proof. reflexivity. Qed.
Lemma lex_one_ge rp s : lex_one rp (c_gt :: c_eq :: s) = Some (RTok T_GREATERTHAN, [c_gt; c_eq], s).
Proof. reflexivity. Qed.

(* K-num: ~digits and ^digits in front of a closer *)
Lemma lex_one_approx_ctx rp ds x : forallb is_numchar ds = true -> closes x ->
  lex_one rp (c_tilde :: ds ++ x) = Some (RTok T_APPROX, c_tilde :: ds, x).
Proof.
  intros Hd Hx.
  assert (E : forall s, lex_one rp (c_tilde :: s) =
                        let '(l, r) := span_while is_numchar s [] in Some (RTok T_APPROX, c_tilde :: l, r))
    by reflexivity.
  rewrite E, span_while_app; [reflexivity| |].
  - rewrite forallb_forall in Hd. exact Hd.
  - destruct x as [|c x]; [exact I|]. simpl in Hx. apply closer_props in Hx. apply Hx.
Qed.
Lemma lex_one_boost_ctx rp ds x : forallb is_numchar ds = true -> closes x ->
  lex_one rp (c_caret :: ds ++ x) = Some (RTok T_BOOST, c_caret :: ds, x).
Proof.
  intros Hd Hx.
  assert (E : forall s, lex_one rp (c_caret :: s) =
                        let '(l, r) := span_while is_numchar s [] in Some (RTok T_BOOST, c_caret :: l, r))
    by reflexivity.
  rewrite E, span_while_app; [reflexivity| |].
  - rewrite forallb_forall in Hd. exact Hd.
  - destruct x as [|c x]; [exact I|]. simpl in Hx. apply closer_props in Hx. apply Hx.
Qed.

(* ================================================================ B. chains of tokens, built from the right *)

(* the text s is the token list ts, each token lexed at its place, whatever precedes s — provided that
   text is invisible to the look-behind when s starts with a TERM-rule token *)
Definition CHN (s : str) (ts : list token) : Prop :=
  forall rp, (forall y, lex_term rp s = Some y -> safe rp) -> tchain rp s ts.

Definition tk (ty : tok) (l w : str) : token := mkTok ty l 0 [] w.

Lemma CHN_nil : CHN [] [].
Proof. intros rp _. constructor. Qed.

Lemma CHN_cons k l w s2 ts :
  (forall rp, (forall y, lex_term rp (l ++ w ++ s2) = Some y -> safe rp) ->
              lex_one rp (l ++ w ++ s2) = Some (RTok k, l, w ++ s2)) ->
  all_space w = true -> CHN s2 ts -> CHN (l ++ w ++ s2) (tk k l w :: ts).
Proof.
  intros Hone Hw Hch rp Hs. unfold tk. apply tc_cons'; [apply Hone; exact Hs|exact Hw|].
  apply Hch. intros y Hy. destruct w as [|c w1].
  - simpl. exact (adjacent_term_safe rp _ l s2 k y (Hone rp Hs) Hy rp).
  - apply safe_rev_space; [discriminate|exact Hw].
Qed.

(* the TERM-rule case of CHN_cons *)
Lemma CHN_term l w s2 ts :
  lex_term [] l = Some (l, []) -> all_space w = true -> closes (w ++ s2) -> CHN s2 ts ->
  CHN (l ++ w ++ s2) (tk (rtype l) l w :: ts).
Proof.
  intros H Hw Hx Hch. apply CHN_cons; [|exact Hw|exact Hch].
  intros rp Hs. destruct (lex_term_starts l (w ++ s2) rp H) as [y Hy].
  apply lex_one_term_ctx; [exact H|exact (Hs y Hy)|exact Hx].
Qed.

Lemma CHN_name n rest ts :
  lex_term [] n = Some (n, []) -> name_glue n rest = true -> CHN (c_colon :: rest) ts ->
  CHN (n ++ c_colon :: rest) (tk (rtype n) n [] :: ts).
Proof.
  intros H Hg Hch. apply (CHN_cons (rtype n) n [] (c_colon :: rest)); [|reflexivity|exact Hch].
  intros rp Hs. destruct (lex_term_starts n ([] ++ c_colon :: rest) rp H) as [y Hy].
  apply lex_one_name_ctx; [exact H|exact (Hs y Hy)|exact Hg].
Qed.

Lemma tchain_text : forall rp s ts, tchain rp s ts -> s = body_text ts.
Proof.
  induction 1 as [rp|rp t s2 ts Hone Hw Hch IH]; [reflexivity|].
  rewrite body_text_cons, <- IH. reflexivity.
Qed.

Lemma resp_body_refl : forall ts, Forall (fun t => all_space (tk_tail t) = true) ts -> resp_body ts ts.
Proof.
  induction 1 as [|t ts Ht _ IH]; simpl; [exact I|]. repeat split; auto.
Qed.

(* a chain is what the lexer returns *)
Theorem CHN_lex s ts : CHN s ts -> ts <> [] ->
  map tok_key (fst (lex s)) = map tok_key ts /\ snd (lex s) = None.
Proof.
  intros H Hne. specialize (H [] (fun _ _ => safe_nil)).
  pose proof (tchain_text _ _ _ H) as Es.
  pose proof (resp_body_refl _ (tchain_tails _ _ _ H)) as Hr.
  destruct (lift _ _ _ H ts [] (S (length s)) 0 Hr) as [raws [Hraw Hk]].
  - intros x _. split; exact safe_nil.
  - rewrite <- Es. lia.
  - unfold lex. rewrite Es at 2 4. rewrite Hraw. simpl. rewrite fold_keys. simpl. auto.
Qed.

Local Arguments lex_delimited : simpl never.
Local Arguments dec_to_fstr : simpl never.
Local Arguments Z_to_str : simpl never.
Local Arguments dec_of_lexeme : simpl never.
Local Arguments int_of_lexeme : simpl never.
Local Arguments dec_normalize : simpl never.

(* ================================================================ C. the syntax tree of a tree *)

Definition SP : str := [c_space].

(* w appended to the tail of the last token *)
Fixpoint ptail (p : ptree) (w : str) : ptree :=
  match p with
  | PAtom t => PAtom (add_tail t w)
  | PApprox t a => PApprox t (add_tail a w)
  | PBoost p b => PBoost p (add_tail b w)
  | PNot n p => PNot n (ptail p w)
  | PField nm col p => PField nm col (ptail p w)
  | PGroup l q r => PGroup l q (add_tail r w)
  | PAnd a o b => PAnd a o (ptail b w)
  | POr a o b => POr a o (ptail b w)
  | PJuxt a b => PJuxt a (ptail b w)
  | PSign sg p => PSign sg (ptail p w)
  | PTo t => PTo (add_tail t w)
  | POpen o v => POpen o (add_tail v w)
  end.

Definition leaf_tok (t : item) : token :=
  match t with
  | Term KWord _ v => tk T_TERM v []
  | Term KPhrase _ v => tk T_PHRASE v []
  | Term KRegex _ v => tk T_REGEX v []
  | _ => tk T_EOF [] []
  end.

(* one more operand: the phrase so far gets a blank, then the operator word and a blank *)
Definition mk_op (k : opk) (a b : ptree) : ptree :=
  match k with
  | KAnd => PAnd (ptail a SP) (tk T_AND_OP (op_str CAndOperation) SP) b
  | KOr => POr (ptail a SP) (tk T_OR_OP (op_str COrOperation) SP) b
  | _ => PJuxt (ptail a SP) b
  end.

Definition syn_fold (f : item -> ptree) (k : opk) := fix go (acc : ptree) (l : list item) : ptree :=
  match l with [] => acc | x :: r => go (mk_op k acc (f x)) r end.

Definition open_tok (k : ork) (incl : bool) : token :=
  tk (match k with KTo => T_LESSTHAN | KFrom => T_GREATERTHAN end)
     (op_str (cls_of_ork k) ++ gen_openrange_char incl) [].

Definition pdummy : ptree := PAtom (tk T_EOF [] []).

(* the syntax tree whose yield is the token list of print (auto_head_tail t), blanks included *)
Fixpoint syn (t : item) : ptree :=
  match t with
  | Term KWord _ v => if str_eqb v s_TO then PTo (tk T_TO v []) else PAtom (tk T_TERM v [])
  | Term _ _ _ => PAtom (leaf_tok t)
  | SearchField _ n e => PField (tk T_TERM n []) (tk T_COLUMN [c_colon] []) (syn e)
  | Grp _ _ e => PGroup (tk T_LPAREN [c_lparen] []) (syn e) (tk T_RPAREN [c_rparen] [])
  | Fuzzy _ x d impl => PApprox (leaf_tok x) (tk T_APPROX (c_tilde :: (if impl then [] else dec_to_fstr d)) [])
  | Proximity _ x z impl => PApprox (leaf_tok x) (tk T_APPROX (c_tilde :: (if impl then [] else Z_to_str z)) [])
  | Boost _ e f impl => PBoost (syn e) (tk T_BOOST (c_caret :: (if impl then [] else dec_to_fstr f)) [])
  | Unary KNot _ a => PNot (tk T_NOT (op_str CNot) SP) (syn a)
  | Unary KPlus _ a => PSign (tk T_PLUS (op_str CPlus) []) (syn a)
  | Unary KProhibit _ a => PSign (tk T_MINUS (op_str CProhibit) []) (syn a)
  | ORange k _ a incl => POpen (open_tok k incl) (leaf_tok a)
  | Op k _ (c :: r) => syn_fold syn k (syn c) r
  | _ => pdummy
  end.

(* ---- ptail changes tails only *)
Lemma ptail_nil : forall p, ptail p [] = p.
Proof. induction p; simpl; rewrite ?add_tail_nil, ?IHp, ?IHp1, ?IHp2; reflexivity. Qed.

Lemma lvl_ptail p w : lvl (ptail p w) = lvl p.
Proof. destruct p; reflexivity. Qed.

Lemma signed_ptail : forall p w, signed (ptail p w) = signed p.
Proof. induction p; intros w; simpl; auto. Qed.

Lemma semof_ptail : forall p w, semof (ptail p w) = semof p.
Proof.
  induction p; intros w; simpl; rewrite ?IHp, ?IHp1, ?IHp2; try reflexivity.
Qed.

Lemma wfb_ptail : forall p w, wfb (ptail p w) = wfb p.
Proof.
  induction p; intros w; simpl; rewrite ?lvl_ptail, ?signed_ptail, ?IHp, ?IHp1, ?IHp2; try reflexivity.
Qed.

Lemma fl_ptail_app : forall p w, exists ts t, fl p = ts ++ [t] /\ fl (ptail p w) = ts ++ [add_tail t w].
Proof.
  induction p; intros w; simpl.
  - exists [], t. auto.
  - exists [t], a. auto.
  - exists (fl p), b. auto.
  - destruct (IHp w) as [ts [t [E1 E2]]]. exists (n :: ts), t. rewrite E1, E2. auto.
  - destruct (IHp w) as [ts [t [E1 E2]]]. exists (name :: col :: ts), t. rewrite E1, E2. auto.
  - exists (l :: fl p), r. auto.
  - destruct (IHp2 w) as [ts [t [E1 E2]]]. exists (fl p1 ++ o :: ts), t. rewrite E1, E2, <- !app_assoc. auto.
  - destruct (IHp2 w) as [ts [t [E1 E2]]]. exists (fl p1 ++ o :: ts), t. rewrite E1, E2, <- !app_assoc. auto.
  - destruct (IHp2 w) as [ts [t [E1 E2]]]. exists (fl p1 ++ ts), t. rewrite E1, E2, <- !app_assoc. auto.
  - destruct (IHp w) as [ts [t [E1 E2]]]. exists (sg :: ts), t. rewrite E1, E2. auto.
  - exists [], t. auto.
  - exists [o], v. auto.
Qed.

Lemma keys_ptail p w : map tok_key (fl (ptail p w)) = map tok_key (fl p).
Proof.
  destruct (fl_ptail_app p w) as [ts [t [E1 E2]]]. rewrite E1, E2, !map_app. reflexivity.
Qed.

(* ================================================================ D. the printed form of auto_head_tail's result *)

Definition nn (x : item) : bool := match x with NoneItem _ => false | _ => true end.
Definition bare (x : item) : Prop := head_of x = [] /\ tail_of x = [] /\ nn x = true.

Lemma wrap_free m s : meta_free m = true -> wrap true (clone_meta m) s = s.
Proof.
  unfold meta_free, wrap. destruct m as [p z h t n]. simpl.
  destruct p; [discriminate|]. destruct z; [discriminate|]. destruct h; [|discriminate]. destruct t; [|discriminate].
  intros _. simpl. apply app_nil_r.
Qed.

Lemma meta_free_ht m : meta_free m = true -> m_head m = [] /\ m_tail m = [].
Proof.
  unfold meta_free. destruct (m_pos m); [discriminate|]. destruct (m_size m); [discriminate|].
  destruct (m_head m); [|discriminate]. destruct (m_tail m); [|discriminate]. auto.
Qed.

Lemma print_set_tail x s : tail_of x = [] -> nn x = true -> print true (Tree.set_tail x s) = print true x ++ s.
Proof.
  unfold tail_of. destruct x; simpl; intros H Hn; try discriminate; unfold wrap; simpl; rewrite H;
    rewrite ?app_nil_r; repeat rewrite <- app_assoc; simpl; repeat rewrite <- app_assoc; reflexivity.
Qed.
Lemma print_set_head x s : head_of x = [] -> nn x = true -> print true (Tree.set_head x s) = s ++ print true x.
Proof.
  unfold head_of. destruct x; simpl; intros H Hn; try discriminate; unfold wrap; simpl; rewrite H; reflexivity.
Qed.

Lemma nn_set_meta x m : nn (set_meta x m) = nn x.
Proof. destruct x; reflexivity. Qed.

Lemma print_add_tail x : tail_of x = [] -> nn x = true -> print true (aht_add_tail x) = print true x ++ SP.
Proof. intros H Hn. unfold aht_add_tail. rewrite H. simpl. apply print_set_tail; assumption. Qed.
Lemma print_add_head x : head_of x = [] -> nn x = true -> print true (aht_add_head x) = SP ++ print true x.
Proof. intros H Hn. unfold aht_add_head. rewrite H. simpl. apply print_set_head; assumption. Qed.
Lemma nn_add_head x : nn (aht_add_head x) = nn x.
Proof. unfold aht_add_head, Tree.set_head. destruct (is_empty (head_of x)); [apply nn_set_meta|reflexivity]. Qed.
Lemma nn_add_tail x : nn (aht_add_tail x) = nn x.
Proof. unfold aht_add_tail, Tree.set_tail. destruct (is_empty (tail_of x)); [apply nn_set_meta|reflexivity]. Qed.

Lemma print_base_at n i x : bare x -> 2 <= n -> i < n ->
  print true (base_at n i x) =
  (if Nat.eqb i 0 then [] else SP) ++ print true x ++ (if Nat.eqb i (n - 1) then [] else SP).
Proof.
  intros [Hh [Ht Hn]] H2 Hi. unfold base_at.
  destruct (Nat.eqb_spec i 0) as [E0|E0]; destruct (Nat.eqb_spec i (n - 1)) as [E1|E1];
    destruct (Nat.leb_spec 1 i) as [E2|E2]; destruct (Nat.ltb_spec i (n - 1)) as [E3|E3];
    simpl andb; cbv iota; try lia.
  - rewrite print_add_tail by assumption. reflexivity.
  - rewrite print_add_head by assumption. rewrite app_nil_r. reflexivity.
  - rewrite print_add_tail; [|rewrite tail_add_head; exact Ht|rewrite nn_add_head; exact Hn].
    rewrite print_add_head by assumption. rewrite <- app_assoc. reflexivity.
Qed.

Lemma print_unknown_at n i x : bare x ->
  print true (unknown_at n i x) = print true x ++ (if Nat.ltb i (n - 1) then SP else []).
Proof.
  intros [Hh [Ht Hn]]. unfold unknown_at. destruct (Nat.ltb i (n - 1)).
  - apply print_add_tail; assumption.
  - rewrite app_nil_r. reflexivity.
Qed.

Lemma join2 sep x y r : join sep (x :: y :: r) = x ++ sep ++ join sep (y :: r).
Proof. reflexivity. Qed.

Lemma join_base OP n : 2 <= n -> forall l i d, Forall bare (d :: l) -> 1 <= i -> i + S (length l) = n ->
  join OP (map (print true) (mapi_from i (base_at n) (d :: l))) =
  SP ++ print true d ++ concat (map (fun c => (SP ++ OP ++ SP) ++ print true c) l).
Proof.
  intros Hn. induction l as [|d2 l IH]; intros i d Hb Hi Hl.
  - pose proof (Forall_inv Hb) as Hd. simpl. rewrite print_base_at by (auto; simpl in Hl; lia).
    destruct (Nat.eqb_spec i 0); [lia|]. destruct (Nat.eqb_spec i (n - 1)); [|simpl in Hl; lia].
    rewrite !app_nil_r. reflexivity.
  - pose proof (Forall_inv Hb) as Hd. pose proof (Forall_inv_tail Hb) as Hb'.
    change (mapi_from i (base_at n) (d :: d2 :: l)) with (base_at n i d :: mapi_from (S i) (base_at n) (d2 :: l)).
    change (map (print true) (base_at n i d :: mapi_from (S i) (base_at n) (d2 :: l)))
      with (print true (base_at n i d) :: map (print true) (mapi_from (S i) (base_at n) (d2 :: l))).
    assert (E : exists y r, map (print true) (mapi_from (S i) (base_at n) (d2 :: l)) = y :: r) by (simpl; eauto).
    destruct E as [y [r E]]. rewrite E, join2, <- E, IH by (auto; simpl in *; lia).
    rewrite print_base_at by (auto; simpl in *; lia).
    destruct (Nat.eqb_spec i 0); [lia|]. destruct (Nat.eqb_spec i (n - 1)); [simpl in Hl; lia|].
    simpl concat. simpl map. rewrite <- !app_assoc. reflexivity.
Qed.

Lemma join_unknown n : forall l i d, Forall bare (d :: l) -> i + S (length l) = n ->
  join [] (map (print true) (mapi_from i (unknown_at n) (d :: l))) =
  print true d ++ concat (map (fun c => SP ++ print true c) l).
Proof.
  induction l as [|d2 l IH]; intros i d Hb Hl.
  - pose proof (Forall_inv Hb) as Hd. simpl. rewrite print_unknown_at by assumption.
    destruct (Nat.ltb_spec i (n - 1)); [simpl in Hl; lia|]. reflexivity.
  - pose proof (Forall_inv Hb) as Hd. pose proof (Forall_inv_tail Hb) as Hb'.
    change (mapi_from i (unknown_at n) (d :: d2 :: l))
      with (unknown_at n i d :: mapi_from (S i) (unknown_at n) (d2 :: l)).
    change (map (print true) (unknown_at n i d :: mapi_from (S i) (unknown_at n) (d2 :: l)))
      with (print true (unknown_at n i d) :: map (print true) (mapi_from (S i) (unknown_at n) (d2 :: l))).
    assert (E : exists y r, map (print true) (mapi_from (S i) (unknown_at n) (d2 :: l)) = y :: r) by (simpl; eauto).
    destruct E as [y [r E]]. rewrite E, join2, <- E, IH by (auto; simpl in *; lia).
    rewrite print_unknown_at by assumption.
    destruct (Nat.ltb_spec i (n - 1)); [|simpl in Hl; lia].
    simpl concat. simpl map. rewrite <- !app_assoc. reflexivity.
Qed.

(* the blank(s) and the operator word between two operands *)
Definition sepstr (k : opk) : str :=
  match k with KUnknown => SP | _ => SP ++ op_str (cls_of_opk k) ++ SP end.

Definition ops_tail (k : opk) (r : list item) : str :=
  concat (map (fun c => sepstr k ++ print true (daht c)) r).

Lemma print_daht_op k m c0 c1 r : meta_free m = true -> Forall (fun c => bare (daht c)) (c0 :: c1 :: r) ->
  print true (daht (Op k m (c0 :: c1 :: r))) = print true (daht c0) ++ ops_tail k (c1 :: r).
Proof.
  intros Hm Hb.
  change (daht (Op k m (c0 :: c1 :: r))) with (Op k (clone_meta m) (fixl (op_h k) (map daht (c0 :: c1 :: r)))).
  change (print true (Op k (clone_meta m) (fixl (op_h k) (map daht (c0 :: c1 :: r)))))
    with (wrap true (clone_meta m) (join (op_str (cls_of_opk k)) (map (print true) (fixl (op_h k) (map daht (c0 :: c1 :: r)))))).
  rewrite (wrap_free _ _ Hm). unfold fixl, mapi.
  set (n := length (map daht (c0 :: c1 :: r))).
  assert (En : n = S (S (length r))) by (unfold n; simpl; rewrite map_length; reflexivity).
  assert (Hb' : Forall bare (map daht (c0 :: c1 :: r))) by (rewrite Forall_map; exact Hb).
  change (map daht (c0 :: c1 :: r)) with (daht c0 :: map daht (c1 :: r)) in *.
  pose proof (Forall_inv Hb') as Hb0. pose proof (Forall_inv_tail Hb') as Hb1.
  unfold ops_tail. rewrite <- (map_map daht (fun d => sepstr k ++ print true d)).
  destruct k; cbn [op_h fix_at].
  1,2,4:
    (change (mapi_from 0 (base_at n) (daht c0 :: map daht (c1 :: r)))
       with (base_at n 0 (daht c0) :: mapi_from 1 (base_at n) (map daht (c1 :: r)));
     change (map (print true) (base_at n 0 (daht c0) :: mapi_from 1 (base_at n) (map daht (c1 :: r))))
       with (print true (base_at n 0 (daht c0)) :: map (print true) (mapi_from 1 (base_at n) (map daht (c1 :: r))));
     assert (E : exists y q, map (print true) (mapi_from 1 (base_at n) (map daht (c1 :: r))) = y :: q) by (simpl; eauto);
     destruct E as [y [q E]]; rewrite E, join2, <- E;
     change (map daht (c1 :: r)) with (daht c1 :: map daht r) in *;
     rewrite (join_base _ n) by (try assumption; try lia; rewrite map_length; lia);
     rewrite print_base_at by (try assumption; lia);
     destruct (Nat.eqb_spec 0 (n - 1)); [lia|];
     cbn [sepstr]; simpl concat; simpl map; simpl Nat.eqb; cbv iota; rewrite <- !app_assoc; reflexivity).
  change (op_str (cls_of_opk KUnknown)) with (@nil char).
  rewrite (join_unknown n) by (try assumption; rewrite map_length; simpl; lia).
  reflexivity.
Qed.

(* ================================================================ E. the guard, unpacked *)

Lemma reserved_to v x : find (fun p => str_eqb v (fst p)) gen_reserved = Some (x, T_TO) -> v = s_TO.
Proof.
  unfold gen_reserved. cbn [find fst].
  repeat match goal with |- context [str_eqb v ?l] =>
    let E := fresh "E" in destruct (str_eqb v l) eqn:E;
      [intros H; inversion H; subst; try discriminate; apply str_eqb_eq in E; exact E|] end.
  discriminate.
Qed.

Lemma word_lexeme_inv b v : word_lexeme b v = true ->
  lex_term [] v = Some (v, []) /\ (rtype v = T_TERM \/ (b = true /\ v = s_TO)).
Proof.
  unfold word_lexeme. destruct (lex_term [] v) as [[l r]|] eqn:El; [|discriminate].
  destruct r; [|discriminate]. intros H. apply andb_true_iff in H. destruct H as [H1 H2].
  apply str_eqb_eq in H1. subst l. split; [reflexivity|]. unfold rtype.
  destruct (find (fun p => str_eqb v (fst p)) gen_reserved) as [[x t]|] eqn:Ef; [|left; reflexivity].
  destruct t; try discriminate. right. split; [exact H2|]. eapply reserved_to. exact Ef.
Qed.

Lemma phrase_lexeme_inv v : phrase_lexeme v = true -> lex_delimited c_quote v = Some (v, []).
Proof.
  unfold phrase_lexeme. destruct (lex_delimited c_quote v) as [[l r]|]; [|discriminate].
  destruct r; [|discriminate]. intros H. apply str_eqb_eq in H. subst. reflexivity.
Qed.
Lemma regex_lexeme_inv v : regex_lexeme v = true -> lex_delimited c_slash v = Some (v, []).
Proof.
  unfold regex_lexeme. destruct (lex_delimited c_slash v) as [[l r]|]; [|discriminate].
  destruct r; [|discriminate]. intros H. apply str_eqb_eq in H. subst. reflexivity.
Qed.

Lemma rtype_TO : rtype s_TO = T_TO. Proof. reflexivity. Qed.

Lemma word_not_to v : rtype v = T_TERM -> str_eqb v s_TO = false.
Proof.
  intros H. destruct (str_eqb v s_TO) eqn:E; [|reflexivity]. apply str_eqb_eq in E. subst v.
  rewrite rtype_TO in H. discriminate.
Qed.

(* ================================================================ F. the chain of a printed tree *)

(* the text P followed by the blank w and the text x is the token chain of the syntax tree p (w on its last
   token) followed by the chain of x, whenever w ++ x starts with a closer or is empty *)
Definition CHp (P : str) (p : ptree) : Prop :=
  forall w x ts2, all_space w = true -> closes (w ++ x) -> CHN x ts2 ->
    CHN (P ++ w ++ x) (fl (ptail p w) ++ ts2).
Definition CH (t : item) : Prop := CHp (print true (daht t)) (syn t).

Lemma closes_SP x : closes (SP ++ x).
Proof. reflexivity. Qed.

Lemma CHp_mk_op k Pa a c : k <> KBool -> CHp Pa a -> CH c ->
  CHp (Pa ++ sepstr k ++ print true (daht c)) (mk_op k a (syn c)).
Proof.
  intros Hk Ha Hc w x ts2 Hw Hx Hch. specialize (Hc w x ts2 Hw Hx Hch).
  destruct k; [| | |congruence]; cbn [mk_op sepstr ptail fl cls_of_opk].
  - replace ((Pa ++ (SP ++ op_str CAndOperation ++ SP) ++ print true (daht c)) ++ w ++ x)
      with (Pa ++ SP ++ (op_str CAndOperation ++ SP ++ (print true (daht c) ++ w ++ x)))
      by (rewrite <- !app_assoc; reflexivity).
    rewrite <- app_assoc. cbn [app].
    apply Ha; [reflexivity|apply closes_SP|].
    exact (CHN_term (op_str CAndOperation) SP _ _ eq_refl eq_refl (closes_SP _) Hc).
  - replace ((Pa ++ (SP ++ op_str COrOperation ++ SP) ++ print true (daht c)) ++ w ++ x)
      with (Pa ++ SP ++ (op_str COrOperation ++ SP ++ (print true (daht c) ++ w ++ x)))
      by (rewrite <- !app_assoc; reflexivity).
    rewrite <- app_assoc. cbn [app].
    apply Ha; [reflexivity|apply closes_SP|].
    exact (CHN_term (op_str COrOperation) SP _ _ eq_refl eq_refl (closes_SP _) Hc).
  - replace ((Pa ++ SP ++ print true (daht c)) ++ w ++ x)
      with (Pa ++ SP ++ (print true (daht c) ++ w ++ x))
      by (rewrite <- !app_assoc; reflexivity).
    rewrite <- app_assoc.
    apply Ha; [reflexivity|apply closes_SP|exact Hc].
Qed.

Lemma CHp_fold k : k <> KBool -> forall r Pa a, CHp Pa a -> Forall CH r ->
  CHp (Pa ++ ops_tail k r) (syn_fold syn k a r).
Proof.
  intros Hk. induction r as [|c r IH]; intros Pa a Ha Hr.
  - unfold ops_tail. simpl. rewrite app_nil_r. exact Ha.
  - pose proof (Forall_inv Hr) as Hc. pose proof (Forall_inv_tail Hr) as Hr'.
    change (syn_fold syn k a (c :: r)) with (syn_fold syn k (mk_op k a (syn c)) r).
    replace (Pa ++ ops_tail k (c :: r)) with ((Pa ++ sepstr k ++ print true (daht c)) ++ ops_tail k r)
      by (unfold ops_tail; simpl; rewrite <- !app_assoc; reflexivity).
    apply IH; [|exact Hr']. apply CHp_mk_op; assumption.
Qed.

(* the guard extended to the FieldGroup that stands directly under a field *)
Definition rtx (lv : nat) (t : item) : bool :=
  match t with Grp KFieldGroup me x => meta_free me && rt_at 0 x | _ => rt_at lv t end.

Lemma rtx_of_rt lv t : rt_at lv t = true -> rtx lv t = true.
Proof.
  destruct t; try (intros H; exact H). destruct k; [intros H; exact H|].
  cbn [rt_at]. rewrite andb_false_r. discriminate.
Qed.

Lemma rtx_meta lv t : rtx lv t = true -> meta_free (meta_of t) = true.
Proof.
  destruct t; cbn [rtx rt_at meta_of]; try (intros H; apply andb_true_iff in H; apply H).
  destruct k; cbn [rt_at meta_of]; intros H; apply andb_true_iff in H; apply H.
Qed.

Lemma rtx_nn lv t : rtx lv t = true -> nn t = true.
Proof. destruct t; try reflexivity. cbn [rtx rt_at]. rewrite andb_false_r. discriminate. Qed.

Lemma nn_daht t : nn (daht t) = nn t.
Proof. destruct t as [| | | |? ? ? []|? ? ? []|? ? ? []| | | |]; reflexivity. Qed.

Lemma rtx_bare lv t : rtx lv t = true -> bare (daht t).
Proof.
  intros H. pose proof (rtx_meta _ _ H) as Hm. apply meta_free_ht in Hm. destruct Hm as [Hh Ht].
  repeat split.
  - rewrite head_daht. exact Hh.
  - rewrite tail_daht. exact Ht.
  - rewrite nn_daht. eapply rtx_nn. exact H.
Qed.

Lemma add_tail_tk ty l w : add_tail (tk ty l []) w = tk ty l w.
Proof. reflexivity. Qed.

Lemma tchain_ne rp s t ts : tchain rp s (t :: ts) -> s <> [].
Proof.
  intros H. inversion H as [|rp0 t0 s2 ts0 Hone Hw Hch]; subst.
  destruct (lex_one_spec _ _ _ _ _ Hone) as [_ [Hne _]]. destruct (tk_lexeme t); [congruence|discriminate].
Qed.

Lemma CHp_nonempty P p : CHp P p -> P <> [].
Proof.
  intros H. specialize (H [] [] [] eq_refl I CHN_nil). specialize (H [] (fun _ _ => safe_nil)).
  rewrite !app_nil_r in H. pose proof (fl_len (ptail p [])) as Hl.
  destruct (fl (ptail p [])) as [|t ts]; [simpl in Hl; lia|]. eapply tchain_ne. exact H.
Qed.

Lemma name_glue_app n s y : name_glue n s = true -> s <> [] -> closes y -> name_glue n (s ++ y) = true.
Proof.
  unfold name_glue. intros H Hs Hy. apply orb_true_iff in H. apply orb_true_iff. destruct H as [H|H]; [left|right; exact H].
  apply negb_true_iff in H. apply negb_true_iff.
  destruct s as [|a [|b s']]; [congruence| |exact H].
  destruct y as [|c y]; [reflexivity|]. simpl in Hy. apply closer_props in Hy.
  destruct Hy as [_ [_ [_ [Hd _]]]]. simpl. rewrite Hd. apply andb_false_r.
Qed.

Lemma leaf_word_inv x : leaf_word x = true ->
  exists m v, x = Term KWord m v /\ meta_free m = true /\ lex_term [] v = Some (v, []) /\ rtype v = T_TERM.
Proof.
  destruct x as [[] m v| | | | | | | | | |]; try discriminate. simpl. intros H. apply andb_true_iff in H.
  destruct H as [Hm H]. destruct (word_lexeme_inv _ _ H) as [Hl [Ht|[Hf _]]]; [|discriminate]. eauto 10.
Qed.
Lemma leaf_phrase_inv x : leaf_phrase x = true ->
  exists m v, x = Term KPhrase m v /\ meta_free m = true /\ lex_delimited c_quote v = Some (v, []).
Proof.
  destruct x as [[] m v| | | | | | | | | |]; try discriminate. simpl. intros H. apply andb_true_iff in H.
  destruct H as [Hm H]. apply phrase_lexeme_inv in H. eauto 10.
Qed.

Lemma deg_ok_inv d : deg_ok d = true ->
  forallb is_numchar (dec_to_fstr d) = true /\ dec_to_fstr d <> [] /\
  exists x, dec_of_lexeme (dec_to_fstr d) = Some x /\ dec_normalize x = d.
Proof.
  unfold deg_ok. intros H. apply andb_true_iff in H. destruct H as [H1 H2].
  destruct (dec_of_lexeme (dec_to_fstr d)) as [x|] eqn:E; [|discriminate].
  apply dec_struct_eqb_iff in H2. split; [exact H1|]. split; [|eauto].
  intros En. rewrite En in E. discriminate.
Qed.
Lemma deg_ok_norm d : deg_ok d = true -> dec_normalize d = d.
Proof.
  intros H. destruct (deg_ok_inv _ H) as [_ [_ [x [_ E]]]]. rewrite <- E. apply dec_normalize_idem.
Qed.
Lemma prox_ok_inv z : prox_ok z = true ->
  forallb is_numchar (Z_to_str z) = true /\ Z_to_str z <> [] /\ int_of_lexeme (Z_to_str z) = Some z.
Proof.
  unfold prox_ok. intros H. apply andb_true_iff in H. destruct H as [H1 H2].
  destruct (int_of_lexeme (Z_to_str z)) as [y|] eqn:E; [|discriminate].
  apply Z.eqb_eq in H2. subst y. split; [exact H1|]. split; [|reflexivity].
  intros En. rewrite En in E. discriminate.
Qed.

Lemma forallb_Forall {A} (f : A -> bool) (P : A -> Prop) l :
  (forall x, f x = true -> P x) -> forallb f l = true -> Forall P l.
Proof.
  intros Hf. induction l as [|x l IH]; simpl; intros H; [constructor|].
  apply andb_true_iff in H. destruct H as [H1 H2]. constructor; auto.
Qed.

Lemma Forall_imp2 {A} (P Q R : A -> Prop) l :
  (forall x, P x -> Q x -> R x) -> Forall P l -> Forall Q l -> Forall R l.
Proof.
  intros H HP. induction HP as [|x l Hx _ IH]; intros HQ; [constructor|].
  inversion HQ; subst. constructor; auto.
Qed.

Lemma length_ge2 {A} (l : list A) : Nat.leb 2 (length l) = true -> exists a b r, l = a :: b :: r.
Proof. destruct l as [|a [|b r]]; try discriminate. eauto. Qed.

(* every tree within the guard prints (after auto_head_tail) to the chain of its syntax tree *)
Theorem CH_all : forall t lv, rtx lv t = true -> CH t.
Proof.
  induction t as [k m v|m n t IHt|k m t IHt|m lo hi il ih IHlo IHhi|m t d i IHt|m t d i IHt|m t f i IHt
                 |k m ops IHops|k m t IHt|k m t i IHt|m] using item_ind';
    intros lv H; pose proof (rtx_meta _ _ H) as Hm; cbn [meta_of] in Hm.
  - (* Term *)
    cbn [rtx rt_at meta_of] in H. apply andb_true_iff in H. destruct H as [_ H].
    unfold CH. change (print true (daht (Term k m v))) with (wrap true (clone_meta m) v). rewrite (wrap_free _ _ Hm).
    intros w x ts2 Hw Hx Hch. destruct k; cbn [syn leaf_tok].
    + destruct (word_lexeme_inv _ _ H) as [Hl [Ht|[_ Ev]]].
      * rewrite (word_not_to _ Ht). cbn [ptail fl app]. rewrite add_tail_tk, <- Ht. apply CHN_term; assumption.
      * subst v. change (str_eqb s_TO s_TO) with true. cbn [ptail fl app]. rewrite add_tail_tk.
        exact (CHN_term s_TO w x ts2 Hl Hw Hx Hch).
    + cbn [ptail fl app]. rewrite add_tail_tk. apply phrase_lexeme_inv in H.
      apply CHN_cons; [intros rp _; apply lex_one_phrase_ctx; exact H|exact Hw|exact Hch].
    + cbn [ptail fl app]. rewrite add_tail_tk. apply regex_lexeme_inv in H.
      apply CHN_cons; [intros rp _; apply lex_one_regex_ctx; exact H|exact Hw|exact Hch].
  - (* SearchField *)
    cbn [rtx rt_at meta_of] in H. apply andb_true_iff in H. destruct H as [_ H].
    apply andb_true_iff in H. destruct H as [H Hg]. apply andb_true_iff in H. destruct H as [Hn He].
    assert (Hex : rtx 3 t = true).
    { destruct t; try exact He. destruct k; [discriminate|exact He]. }
    pose proof (IHt 3 Hex) as IH. clear IHt He.
    destruct (aht t) as [e'|] eqn:Ea; [|discriminate]. apply aht_some in Ea. destruct Ea as [_ Ea]. subst e'.
    destruct (word_lexeme_inv _ _ Hn) as [Hl [Ht|[Hf _]]]; [|discriminate].
    unfold CH. change (print true (daht (SearchField m n t)))
      with (wrap true (clone_meta m) (n ++ [c_colon] ++ print true (daht t))). rewrite (wrap_free _ _ Hm).
    intros w x ts2 Hw Hx Hch. cbn [syn ptail fl].
    replace ((n ++ [c_colon] ++ print true (daht t)) ++ w ++ x)
      with (n ++ c_colon :: (print true (daht t) ++ w ++ x)) by (rewrite <- !app_assoc; reflexivity).
    cbn [app]. rewrite <- Ht. apply CHN_name; [exact Hl| |].
    + apply name_glue_app; [exact Hg|exact (CHp_nonempty _ _ IH)|exact Hx].
    + apply (CHN_cons T_COLUMN [c_colon] [] _ _); [intros rp _; apply lex_one_punct; simpl; tauto|reflexivity|].
      apply IH; assumption.
  - (* Group / FieldGroup *)
    assert (He : rt_at 0 t = true).
    { destruct k; cbn [rtx rt_at meta_of] in H; apply andb_true_iff in H; apply H. }
    pose proof (IHt 0 (rtx_of_rt _ _ He)) as IH. clear IHt.
    unfold CH. change (print true (daht (Grp k m t)))
      with (wrap true (clone_meta m) ([c_lparen] ++ print true (daht t) ++ [c_rparen])). rewrite (wrap_free _ _ Hm).
    intros w x ts2 Hw Hx Hch. cbn [syn ptail fl]. rewrite add_tail_tk.
    replace (([c_lparen] ++ print true (daht t) ++ [c_rparen]) ++ w ++ x)
      with ([c_lparen] ++ [] ++ (print true (daht t) ++ [] ++ ([c_rparen] ++ w ++ x)))
      by (rewrite <- !app_assoc; reflexivity).
    replace ((tk T_LPAREN [c_lparen] [] :: fl (syn t) ++ [tk T_RPAREN [c_rparen] w]) ++ ts2)
      with (tk T_LPAREN [c_lparen] [] :: fl (ptail (syn t) []) ++ (tk T_RPAREN [c_rparen] w :: ts2))
      by (rewrite ptail_nil; cbn [app]; rewrite <- app_assoc; reflexivity).
    apply CHN_cons; [intros rp _; apply lex_one_punct; simpl; tauto|reflexivity|].
    apply IH; [reflexivity|reflexivity|].
    apply CHN_cons; [intros rp _; apply lex_one_punct; simpl; tauto|exact Hw|exact Hch].
  - (* Range *)
    cbn [rtx rt_at] in H. rewrite andb_false_r in H. discriminate.
  - (* Fuzzy *)
    cbn [rtx rt_at meta_of] in H. apply andb_true_iff in H. destruct H as [_ H].
    apply andb_true_iff in H. destruct H as [Hx Hd].
    destruct (leaf_word_inv _ Hx) as [mx [v [-> [Hmx [Hl Ht]]]]]. clear IHt.
    set (ds := if i then [] else dec_to_fstr d).
    assert (Hds : forallb is_numchar ds = true).
    { unfold ds. destruct i; [reflexivity|]. apply deg_ok_inv in Hd. apply Hd. }
    assert (EP : print true (daht (Fuzzy m (Term KWord mx v) d i)) = v ++ [] ++ (c_tilde :: ds) ).
    { unfold ds. destruct i; cbn [daht print]; rewrite (wrap_free _ _ Hm), (wrap_free _ _ Hmx); reflexivity. }
    unfold CH. rewrite EP. intros w x ts2 Hw Hxx Hch. cbn [syn leaf_tok ptail fl]. fold ds. rewrite add_tail_tk.
    rewrite <- !app_assoc. cbn [app]. rewrite <- Ht.
    apply (CHN_term v [] _ _ Hl eq_refl); [reflexivity|].
    change (c_tilde :: ds ++ w ++ x) with ((c_tilde :: ds) ++ w ++ x).
    apply CHN_cons; [intros rp _; apply lex_one_approx_ctx; assumption|exact Hw|exact Hch].
  - (* Proximity *)
    cbn [rtx rt_at meta_of] in H. apply andb_true_iff in H. destruct H as [_ H].
    apply andb_true_iff in H. destruct H as [Hx Hd].
    destruct (leaf_phrase_inv _ Hx) as [mx [v [-> [Hmx Hl]]]]. clear IHt.
    set (ds := if i then [] else Z_to_str d).
    assert (Hds : forallb is_numchar ds = true).
    { unfold ds. destruct i; [reflexivity|]. apply prox_ok_inv in Hd. apply Hd. }
    assert (EP : print true (daht (Proximity m (Term KPhrase mx v) d i)) = v ++ [] ++ (c_tilde :: ds) ).
    { unfold ds. destruct i; cbn [daht print]; rewrite (wrap_free _ _ Hm), (wrap_free _ _ Hmx); reflexivity. }
    unfold CH. rewrite EP. intros w x ts2 Hw Hxx Hch. cbn [syn leaf_tok ptail fl]. fold ds. rewrite add_tail_tk.
    rewrite <- !app_assoc. cbn [app].
    apply (CHN_cons T_PHRASE v [] _ _); [intros rp _; apply lex_one_phrase_ctx; exact Hl|reflexivity|].
    change (c_tilde :: ds ++ w ++ x) with ((c_tilde :: ds) ++ w ++ x).
    apply CHN_cons; [intros rp _; apply lex_one_approx_ctx; assumption|exact Hw|exact Hch].
  - (* Boost *)
    cbn [rtx rt_at meta_of] in H. apply andb_true_iff in H. destruct H as [_ H].
    apply andb_true_iff in H. destruct H as [H Hd]. apply andb_true_iff in H. destruct H as [_ He].
    pose proof (IHt 3 (rtx_of_rt _ _ He)) as IH. clear IHt.
    set (ds := if i then [] else dec_to_fstr f).
    assert (Hds : forallb is_numchar ds = true).
    { unfold ds. destruct i; [reflexivity|]. apply deg_ok_inv in Hd. apply Hd. }
    assert (EP : print true (daht (Boost m t f i)) = print true (daht t) ++ [] ++ (c_caret :: ds)).
    { unfold ds. destruct i; cbn [daht print]; rewrite (wrap_free _ _ Hm); [reflexivity|].
      rewrite (deg_ok_norm _ Hd). reflexivity. }
    unfold CH. rewrite EP. intros w x ts2 Hw Hxx Hch. cbn [syn ptail fl]. fold ds. rewrite add_tail_tk.
    replace ((fl (syn t) ++ [tk T_BOOST (c_caret :: ds) w]) ++ ts2)
      with (fl (ptail (syn t) []) ++ (tk T_BOOST (c_caret :: ds) w :: ts2))
      by (rewrite ptail_nil, <- app_assoc; reflexivity).
    rewrite <- !app_assoc. cbn [app].
    apply (IH [] _ _ eq_refl); [reflexivity|].
    change (c_caret :: ds ++ w ++ x) with ((c_caret :: ds) ++ w ++ x).
    apply CHN_cons; [intros rp _; apply lex_one_boost_ctx; assumption|exact Hw|exact Hch].
  - (* Op *)
    assert (Hk : exists l, k <> KBool /\ Nat.leb 2 (length ops) = true /\ forallb (rt_at l) ops = true).
    { cbn [rtx rt_at meta_of] in H. apply andb_true_iff in H. destruct H as [_ H]. destruct k.
      - exists 3. repeat (apply andb_true_iff in H; destruct H as [H ?]). repeat split; [discriminate|assumption|assumption].
      - exists 2. repeat (apply andb_true_iff in H; destruct H as [H ?]). repeat split; [discriminate|assumption|assumption].
      - exists 1. repeat (apply andb_true_iff in H; destruct H as [H ?]). repeat split; [discriminate|assumption|assumption].
      - discriminate. }
    destruct Hk as [l [Hk [Hlen Hops]]].
    assert (Hrt : Forall (fun c => rtx l c = true) ops).
    { eapply forallb_Forall; [|exact Hops]. intros c Hc. apply rtx_of_rt. exact Hc. }
    assert (HCH : Forall CH ops).
    { eapply Forall_imp2; [|exact IHops|exact Hrt]. intros c Hc Hr. exact (Hc l Hr). }
    assert (Hbare : Forall (fun c => bare (daht c)) ops).
    { eapply Forall_impl; [|exact Hrt]. intros c Hr. eapply rtx_bare. exact Hr. }
    destruct (length_ge2 _ Hlen) as [c0 [c1 [r ->]]].
    unfold CH. rewrite (print_daht_op _ _ _ _ _ Hm Hbare).
    change (syn (Op k m (c0 :: c1 :: r))) with (syn_fold syn k (syn c0) (c1 :: r)).
    apply CHp_fold; [exact Hk|exact (Forall_inv HCH)|exact (Forall_inv_tail HCH)].
  - (* Unary *)
    cbn [rtx rt_at meta_of] in H. apply andb_true_iff in H. destruct H as [_ He].
    pose proof (rtx_of_rt _ _ He) as Hex. pose proof (IHt 3 Hex) as IH. clear IHt.
    destruct (rtx_bare _ _ Hex) as [Hb1 [Hb2 Hb3]].
    unfold CH. intros w x ts2 Hw Hxx Hch. destruct k.
    + change (print true (daht (Unary KPlus m t)))
        with (wrap true (clone_meta m) (op_str CPlus ++ print true (daht t))). rewrite (wrap_free _ _ Hm).
      cbn [syn ptail fl]. rewrite <- !app_assoc.
      apply (CHN_cons T_PLUS (op_str CPlus) [] _ _); [intros rp _; apply lex_one_punct; simpl; tauto|reflexivity|].
      apply IH; assumption.
    + change (print true (daht (Unary KNot m t)))
        with (wrap true (clone_meta m) (op_str CNot ++ print true (aht_add_head (daht t)))). rewrite (wrap_free _ _ Hm).
      rewrite print_add_head by assumption.
      cbn [syn ptail fl]. rewrite <- !app_assoc.
      refine (CHN_term (op_str CNot) SP _ _ eq_refl eq_refl (closes_SP _) _).
      apply IH; assumption.
    + change (print true (daht (Unary KProhibit m t)))
        with (wrap true (clone_meta m) (op_str CProhibit ++ print true (daht t))). rewrite (wrap_free _ _ Hm).
      cbn [syn ptail fl]. rewrite <- !app_assoc.
      apply (CHN_cons T_MINUS (op_str CProhibit) [] _ _); [intros rp _; apply lex_one_punct; simpl; tauto|reflexivity|].
      apply IH; assumption.
  - (* open range *)
    cbn [rtx rt_at meta_of] in H. apply andb_true_iff in H. destruct H as [_ H].
    apply andb_true_iff in H. destruct H as [Ha Hi]. clear IHt.
    assert (Hleaf : exists ma kk v, t = Term kk ma v /\ meta_free ma = true /\
              (forall w x ts2, all_space w = true -> closes (w ++ x) -> CHN x ts2 ->
                 CHN (v ++ w ++ x) (add_tail (leaf_tok t) w :: ts2)) /\
              (i = false -> exists c v', v = c :: v' /\ N.eqb c c_eq = false)).
    { apply orb_true_iff in Ha. destruct Ha as [Ha|Ha].
      - destruct (leaf_word_inv _ Ha) as [ma [v [-> [Hma [Hl Ht]]]]]. exists ma, KWord, v.
        split; [reflexivity|]. split; [exact Hma|]. split.
        + intros w x ts2 Hw Hx Hch. cbn [leaf_tok]. rewrite add_tail_tk, <- Ht. apply CHN_term; assumption.
        + intros ->. simpl in Hi. destruct v as [|c v']; [discriminate Hl|].
          exists c, v'. split; [reflexivity|]. apply negb_true_iff in Hi. exact Hi.
      - destruct (leaf_phrase_inv _ Ha) as [ma [v [-> [Hma Hl]]]]. exists ma, KPhrase, v.
        split; [reflexivity|]. split; [exact Hma|]. split.
        + intros w x ts2 Hw Hx Hch. cbn [leaf_tok]. rewrite add_tail_tk.
          apply CHN_cons; [intros rp _; apply lex_one_phrase_ctx; exact Hl|exact Hw|exact Hch].
        + intros _. destruct v as [|c v']; [discriminate Hl|]. exists c, v'. split; [reflexivity|].
          unfold lex_delimited in Hl. destruct (N.eqb c c_quote) eqn:E; [|discriminate].
          apply N.eqb_eq in E. subst c. reflexivity. }
    destruct Hleaf as [ma [kk [v [-> [Hma [Hv Hne]]]]]].
    unfold CH. change (print true (daht (ORange k m (Term kk ma v) i)))
      with (wrap true (clone_meta m) (op_str (cls_of_ork k) ++ gen_openrange_char i ++ wrap true (clone_meta ma) v)).
    rewrite (wrap_free _ _ Hm), (wrap_free _ _ Hma).
    intros w x ts2 Hw Hxx Hch. cbn [syn ptail fl app]. unfold open_tok.
    specialize (Hv w x ts2 Hw Hxx Hch).
    destruct k, i; cbn [cls_of_ork gen_openrange_char]; rewrite <- ?app_assoc.
    + refine (CHN_cons T_GREATERTHAN [c_gt; c_eq] [] (v ++ w ++ x) _ _ eq_refl Hv).
      intros rp _. apply lex_one_ge.
    + destruct (Hne eq_refl) as [c [v' [-> Hc]]].
      refine (CHN_cons T_GREATERTHAN [c_gt] [] ((c :: v') ++ w ++ x) _ _ eq_refl Hv).
      intros rp _. apply lex_one_gt. exact Hc.
    + refine (CHN_cons T_LESSTHAN [c_lt; c_eq] [] (v ++ w ++ x) _ _ eq_refl Hv).
      intros rp _. apply lex_one_le.
    + destruct (Hne eq_refl) as [c [v' [-> Hc]]].
      refine (CHN_cons T_LESSTHAN [c_lt] [] ((c :: v') ++ w ++ x) _ _ eq_refl Hv).
      intros rp _. apply lex_one_lt. exact Hc.
  - (* NoneItem *)
    cbn [rtx rt_at] in H. rewrite andb_false_r in H. discriminate.
Qed.

(* ================================================================ G. the syntax tree is well-formed and its value is the tree *)

Definition gfix (t : item) : item := match t with Grp KFieldGroup m e => Grp KGroup m e | _ => t end.

Definition WF (lv : nat) (t : item) : Prop :=
  wfb (syn t) = true /\ Nat.min lv 3 <= lvl (syn t) /\ val (syn t) = gfix (erase t) /\
  signed (syn t) = is_sign (leftmost t).

Definition opl (k : opk) : nat := match k with KAnd => 2 | KOr => 1 | _ => 0 end.

Lemma mk_op_wfb k a b : k <> KBool -> wfb a = true -> opl k <= lvl a -> wfb b = true -> S (opl k) <= lvl b ->
  (k = KUnknown -> signed b = false) -> wfb (mk_op k a b) = true /\ lvl (mk_op k a b) = opl k.
Proof.
  intros Hk Wa La Wb Lb Sb. destruct k; [| | |congruence]; cbn [mk_op wfb lvl opl tk_type tk] in *;
    rewrite ?lvl_ptail, ?wfb_ptail, Wa, Wb; split; try reflexivity.
  - apply Nat.leb_le in La. apply Nat.leb_le in Lb. rewrite La, Lb. reflexivity.
  - apply Nat.leb_le in La. apply Nat.leb_le in Lb. rewrite La, Lb. reflexivity.
  - apply Nat.leb_le in Lb. rewrite Lb, (Sb eq_refl). reflexivity.
Qed.

Lemma fold_wfb k : k <> KBool -> forall r a, wfb a = true -> opl k <= lvl a ->
  Forall (fun c => wfb (syn c) = true /\ S (opl k) <= lvl (syn c) /\ (k = KUnknown -> signed (syn c) = false)) r ->
  wfb (syn_fold syn k a r) = true /\ (r <> [] -> lvl (syn_fold syn k a r) = opl k).
Proof.
  intros Hk. induction r as [|c r IH]; intros a Wa La Hr; [split; [exact Wa|congruence]|].
  pose proof (Forall_inv Hr) as [Wc [Lc Sc]]. pose proof (Forall_inv_tail Hr) as Hr'.
  destruct (mk_op_wfb k a (syn c) Hk Wa La Wc Lc Sc) as [W1 L1].
  change (syn_fold syn k a (c :: r)) with (syn_fold syn k (mk_op k a (syn c)) r).
  destruct (IH (mk_op k a (syn c)) W1 ltac:(lia) Hr') as [W2 L2]. split; [exact W2|]. intros _.
  destruct r as [|c2 r2]; [exact L1|]. apply L2. discriminate.
Qed.

Lemma fold_signed k : k <> KBool -> forall r a, signed (syn_fold syn k a r) = signed a.
Proof.
  intros Hk. induction r as [|c r IH]; intros a; [reflexivity|].
  change (syn_fold syn k a (c :: r)) with (syn_fold syn k (mk_op k a (syn c)) r). rewrite IH.
  destruct k; [| | |congruence]; cbn [mk_op signed]; apply signed_ptail.
Qed.

Lemma fold_sem k : k <> KBool -> forall r a,
  match k with KAnd => ops_and | KOr => ops_or | _ => ops_j end (syn_fold syn k a r) =
  match k with KAnd => ops_and | KOr => ops_or | _ => ops_j end a ++ map (fun c => val (syn c)) r.
Proof.
  intros Hk. induction r as [|c r IH]; intros a; [rewrite app_nil_r; reflexivity|].
  change (syn_fold syn k a (c :: r)) with (syn_fold syn k (mk_op k a (syn c)) r). rewrite IH.
  destruct k; [| | |congruence]; unfold ops_and, ops_or, ops_j; cbn [mk_op semof sa so sj];
    rewrite semof_ptail, <- app_assoc; reflexivity.
Qed.

Lemma gfix_rt lv t : rt_at lv t = true -> gfix (erase t) = erase t.
Proof.
  destruct t; try reflexivity. destruct k; [reflexivity|]. cbn [rt_at]. rewrite andb_false_r. discriminate.
Qed.

Lemma degree_of_cons c ds : ds <> [] -> degree_of (c :: ds) = Some ds.
Proof. destruct ds; [congruence|reflexivity]. Qed.

Lemma boostable_lvl e : boostable e = true -> rt_at 3 e = true -> lvl (syn e) = 4.
Proof.
  destruct e as [[] m v| |[]| | | | | | | |]; try discriminate; try reflexivity.
  intros _ _. cbn [syn]. destruct (str_eqb v s_TO); reflexivity.
Qed.

Lemma nary2 k a b r : nary k (a :: b :: r) = Op k meta0 (a :: b :: r).
Proof. reflexivity. Qed.

Theorem WF_all : forall t lv, rtx lv t = true -> WF lv t.
Proof.
  induction t as [k m v|m n t IHt|k m t IHt|m lo hi il ih IHlo IHhi|m t d i IHt|m t d i IHt|m t f i IHt
                 |k m ops IHops|k m t IHt|k m t i IHt|m] using item_ind';
    intros lv H.
  - (* Term *)
    cbn [rtx rt_at meta_of] in H. apply andb_true_iff in H. destruct H as [_ H]. unfold WF.
    destruct k; cbn [syn leaf_tok].
    + destruct (word_lexeme_inv _ _ H) as [Hl [Ht|[_ Ev]]].
      * pose proof (word_not_to _ Ht) as E. rewrite E. cbn [leftmost]. rewrite E.
        repeat split; try reflexivity. simpl. lia.
      * subst v. change (str_eqb s_TO s_TO) with true. cbn [leftmost].
        change (str_eqb s_TO s_TO) with true. repeat split; try reflexivity. simpl. lia.
    + repeat split; try reflexivity. simpl. lia.
    + repeat split; try reflexivity. simpl. lia.
  - (* SearchField *)
    cbn [rtx rt_at meta_of] in H. apply andb_true_iff in H. destruct H as [_ H].
    apply andb_true_iff in H. destruct H as [H _]. apply andb_true_iff in H. destruct H as [_ He].
    assert (Hex : rtx 3 t = true).
    { destruct t; try exact He. destruct k; [discriminate|exact He]. }
    destruct (IHt 3 Hex) as [W [L [V S]]]. unfold WF. cbn [syn].
    split; [|split; [|split]].
    + cbn [wfb tk tk_type tok_eqb]. rewrite W. simpl in L. apply Nat.leb_le in L. rewrite L. reflexivity.
    + simpl. lia.
    + unfold val. cbn [semof sv leaf tk tk_lexeme]. fold (val (syn t)). rewrite V.
      cbn [erase gfix]. f_equal.
      destruct t; try reflexivity. destruct k; [discriminate He|reflexivity].
    + reflexivity.
  - (* Group *)
    assert (He : rt_at 0 t = true).
    { destruct k; cbn [rtx rt_at meta_of] in H; apply andb_true_iff in H; apply H. }
    destruct (IHt 0 (rtx_of_rt _ _ He)) as [W [L [V S]]]. unfold WF. cbn [syn].
    split; [|split; [|split]].
    + cbn [wfb tk tk_type tok_eqb]. rewrite W. reflexivity.
    + simpl. lia.
    + unfold val. cbn [semof sv leaf]. fold (val (syn t)). rewrite V, (gfix_rt _ _ He).
      destruct k; reflexivity.
    + reflexivity.
  - cbn [rtx rt_at] in H. rewrite andb_false_r in H. discriminate.
  - (* Fuzzy *)
    cbn [rtx rt_at meta_of] in H. apply andb_true_iff in H. destruct H as [_ H].
    apply andb_true_iff in H. destruct H as [Hx Hd].
    destruct (leaf_word_inv _ Hx) as [mx [v [-> [Hmx [Hl Ht]]]]]. clear IHt.
    unfold WF. cbn [syn leaf_tok]. pose proof (word_not_to _ Ht) as E.
    destruct i.
    + apply dec_struct_eqb_iff in Hd. subst d.
      repeat split; try reflexivity; [simpl; lia|]. cbn [leftmost]. rewrite E. reflexivity.
    + destruct (deg_ok_inv _ Hd) as [_ [Hne [x0 [Ex En]]]].
      split; [|split; [|split]].
      * cbn [wfb tk tk_type tok_eqb]. unfold dec_ok. cbn [tk tk_lexeme].
        rewrite (degree_of_cons _ _ Hne), Ex. reflexivity.
      * simpl. lia.
      * unfold val. cbn [semof sv leaf]. unfold approx_item. cbn [tk tk_type tk_lexeme].
        rewrite (degree_of_cons _ _ Hne), Ex, En. reflexivity.
      * cbn [leftmost]. rewrite E. reflexivity.
  - (* Proximity *)
    cbn [rtx rt_at meta_of] in H. apply andb_true_iff in H. destruct H as [_ H].
    apply andb_true_iff in H. destruct H as [Hx Hd].
    destruct (leaf_phrase_inv _ Hx) as [mx [v [-> [Hmx Hl]]]]. clear IHt.
    unfold WF. cbn [syn leaf_tok].
    destruct i.
    + apply Z.eqb_eq in Hd. subst d. repeat split; try reflexivity. simpl; lia.
    + destruct (prox_ok_inv _ Hd) as [_ [Hne Ex]].
      split; [|split; [|split]].
      * cbn [wfb tk tk_type tok_eqb]. unfold int_ok. cbn [tk tk_lexeme].
        rewrite (degree_of_cons _ _ Hne), Ex. reflexivity.
      * simpl. lia.
      * unfold val. cbn [semof sv leaf]. unfold approx_item. cbn [tk tk_type tk_lexeme].
        rewrite (degree_of_cons _ _ Hne), Ex. reflexivity.
      * reflexivity.
  - (* Boost *)
    cbn [rtx rt_at meta_of] in H. apply andb_true_iff in H. destruct H as [_ H].
    apply andb_true_iff in H. destruct H as [H Hd]. apply andb_true_iff in H. destruct H as [Hb He].
    destruct (IHt 3 (rtx_of_rt _ _ He)) as [W [L [V S]]]. clear IHt.
    pose proof (boostable_lvl _ Hb He) as L4.
    unfold WF. cbn [syn]. destruct i.
    + apply dec_struct_eqb_iff in Hd. subst f.
      split; [|split; [|split]].
      * cbn [wfb tk tk_type tok_eqb]. rewrite L4, W. reflexivity.
      * simpl. lia.
      * unfold val. cbn [semof sv leaf]. fold (val (syn t)). rewrite V, (gfix_rt _ _ He). reflexivity.
      * cbn [signed leftmost]. exact S.
    + destruct (deg_ok_inv _ Hd) as [_ [Hne [x0 [Ex En]]]].
      split; [|split; [|split]].
      * cbn [wfb tk tk_type tok_eqb]. rewrite L4, W. unfold dec_ok. cbn [tk tk_lexeme].
        rewrite (degree_of_cons _ _ Hne), Ex. reflexivity.
      * simpl. lia.
      * unfold val. cbn [semof sv leaf]. fold (val (syn t)). unfold boost_item. cbn [tk tk_lexeme].
        rewrite (degree_of_cons _ _ Hne), Ex, En, V, (gfix_rt _ _ He). reflexivity.
      * cbn [signed leftmost]. exact S.
  - (* Op *)
    assert (Hk : k <> KBool /\ lv <= opl k /\ Nat.leb 2 (length ops) = true /\
                 forallb (rt_at (S (opl k))) ops = true /\
                 (k = KUnknown -> forallb (fun c => negb (is_sign (leftmost c))) (tl ops) = true)).
    { cbn [rtx rt_at meta_of] in H. apply andb_true_iff in H. destruct H as [_ H]. destruct k; cbn [opl].
      - repeat (apply andb_true_iff in H; destruct H as [H ?]). apply Nat.leb_le in H.
        repeat split; [discriminate|assumption|assumption|assumption|discriminate].
      - repeat (apply andb_true_iff in H; destruct H as [H ?]). apply Nat.leb_le in H.
        repeat split; [discriminate|assumption|assumption|assumption|discriminate].
      - repeat (apply andb_true_iff in H; destruct H as [H ?]). apply Nat.leb_le in H.
        repeat split; [discriminate|assumption|assumption|assumption|intros _; assumption].
      - discriminate. }
    destruct Hk as [Hk [Hlv [Hlen [Hops Hsg]]]].
    assert (Hrt : Forall (fun c => rt_at (S (opl k)) c = true) ops).
    { eapply forallb_Forall; [|exact Hops]. auto. }
    assert (HWF : Forall (WF (S (opl k))) ops).
    { eapply Forall_imp2; [|exact IHops|exact Hrt]. intros c Hc Hr. exact (Hc _ (rtx_of_rt _ _ Hr)). }
    destruct (length_ge2 _ Hlen) as [c0 [c1 [r ->]]].
    pose proof (Forall_inv HWF) as [W0 [L0 [V0 S0]]]. pose proof (Forall_inv_tail HWF) as HWr.
    assert (Lk : forall c, WF (S (opl k)) c -> S (opl k) <= lvl (syn c)).
    { intros c [_ [Lc _]]. destruct k; simpl in *; lia. }
    assert (Hr : Forall (fun c => wfb (syn c) = true /\ S (opl k) <= lvl (syn c) /\
                                 (k = KUnknown -> signed (syn c) = false)) (c1 :: r)).
    { assert (Hs : k = KUnknown -> Forall (fun c => negb (is_sign (leftmost c)) = true) (c1 :: r)).
      { intros Ek. specialize (Hsg Ek). simpl tl in Hsg. eapply forallb_Forall; [|exact Hsg]. auto. }
      clear - HWr Lk Hs. induction HWr as [|c l Hc _ IH]; [constructor|]. constructor.
      - split; [apply Hc|]. split; [apply Lk; exact Hc|]. intros Ek. destruct Hc as [_ [_ [_ Sc]]].
        rewrite Sc. pose proof (Forall_inv (Hs Ek)) as Hn. apply negb_true_iff in Hn. exact Hn.
      - apply IH. intros Ek. exact (Forall_inv_tail (Hs Ek)). }
    unfold WF. change (syn (Op k m (c0 :: c1 :: r))) with (syn_fold syn k (syn c0) (c1 :: r)).
    pose proof (Lk _ (Forall_inv HWF)) as L0'.
    destruct (fold_wfb k Hk (c1 :: r) (syn c0) W0 ltac:(lia) Hr) as [Wf Lf].
    specialize (Lf ltac:(discriminate)).
    split; [exact Wf|]. split; [rewrite Lf; lia|]. split.
    + assert (Ev : forall c, In c (c0 :: c1 :: r) -> val (syn c) = erase c).
      { intros c Hin. rewrite Forall_forall in HWF, Hrt. destruct (HWF c Hin) as [_ [_ [Vc _]]].
        rewrite Vc. eapply gfix_rt. apply Hrt. exact Hin. }
      assert (Em : map (fun c => val (syn c)) (c1 :: r) = map erase (c1 :: r)).
      { apply map_ext_in. intros c Hin. apply Ev. right. exact Hin. }
      pose proof (fold_sem k Hk (c1 :: r) (syn c0)) as Es.
      cbn [erase gfix]. destruct k; [| | |congruence].
      * rewrite <- val_and, Es, single_and by (intros a o b Eq; rewrite Eq in L0'; simpl in L0'; lia).
        rewrite Em, (Ev c0 (or_introl eq_refl)). reflexivity.
      * rewrite <- val_or, Es, single_or by (intros a o b Eq; rewrite Eq in L0'; simpl in L0'; lia).
        rewrite Em, (Ev c0 (or_introl eq_refl)). reflexivity.
      * rewrite <- val_j, Es, single_j by (intros a b Eq; rewrite Eq in L0'; simpl in L0'; lia).
        rewrite Em, (Ev c0 (or_introl eq_refl)). reflexivity.
    + rewrite (fold_signed k Hk). cbn [leftmost]. exact S0.
  - (* Unary *)
    cbn [rtx rt_at meta_of] in H. apply andb_true_iff in H. destruct H as [_ He].
    destruct (IHt 3 (rtx_of_rt _ _ He)) as [W [L [V S]]]. clear IHt. simpl in L.
    apply Nat.leb_le in L. unfold WF.
    destruct k; cbn [syn]; (split; [|split; [|split]]);
      try (cbn [wfb tk tk_type tok_eqb is_sign_tok]; rewrite W, L; reflexivity);
      try (simpl; lia);
      try (unfold val; cbn [semof sv leaf]; fold (val (syn t)); rewrite V, (gfix_rt _ _ He); reflexivity);
      reflexivity.
  - (* open range *)
    cbn [rtx rt_at meta_of] in H. apply andb_true_iff in H. destruct H as [_ H].
    apply andb_true_iff in H. destruct H as [Ha _]. clear IHt. unfold WF.
    apply orb_true_iff in Ha. destruct Ha as [Ha|Ha].
    + destruct (leaf_word_inv _ Ha) as [ma [v [-> _]]].
      destruct k, i; repeat split; try reflexivity; simpl; lia.
    + destruct (leaf_phrase_inv _ Ha) as [ma [v [-> _]]].
      destruct k, i; repeat split; try reflexivity; simpl; lia.
  - cbn [rtx rt_at] in H. rewrite andb_false_r in H. discriminate.
Qed.

(* ================================================================ H. summary for props/C13r.v *)

Lemma rt_defined : forall t lv, rtx lv t = true -> aht_defined t = true.
Proof.
  unfold aht_defined.
  induction t as [k m v|m n t IHt|k m t IHt|m lo hi il ih IHlo IHhi|m t d i IHt|m t d i IHt|m t f i IHt
                 |k m ops IHops|k m t IHt|k m t i IHt|m] using item_ind';
    intros lv H.
  - reflexivity.
  - cbn [rtx rt_at meta_of] in H. apply andb_true_iff in H. destruct H as [_ H].
    apply andb_true_iff in H. destruct H as [H _]. apply andb_true_iff in H. destruct H as [_ He].
    assert (Hex : rtx 3 t = true).
    { destruct t; try exact He. destruct k; [discriminate|exact He]. }
    cbn [every_node]. rewrite (IHt 3 Hex). reflexivity.
  - assert (He : rt_at 0 t = true).
    { destruct k; cbn [rtx rt_at meta_of] in H; apply andb_true_iff in H; apply H. }
    cbn [every_node]. rewrite (IHt 0 (rtx_of_rt _ _ He)). destruct k; reflexivity.
  - cbn [rtx rt_at] in H. rewrite andb_false_r in H. discriminate.
  - cbn [rtx rt_at meta_of] in H. apply andb_true_iff in H. destruct H as [_ H].
    apply andb_true_iff in H. destruct H as [Hx _].
    destruct (leaf_word_inv _ Hx) as [mx [v [-> _]]]. reflexivity.
  - cbn [rtx rt_at meta_of] in H. apply andb_true_iff in H. destruct H as [_ H].
    apply andb_true_iff in H. destruct H as [Hx _].
    destruct (leaf_phrase_inv _ Hx) as [mx [v [-> _]]]. reflexivity.
  - cbn [rtx rt_at meta_of] in H. apply andb_true_iff in H. destruct H as [_ H].
    apply andb_true_iff in H. destruct H as [H _]. apply andb_true_iff in H. destruct H as [_ He].
    cbn [every_node]. rewrite (IHt 3 (rtx_of_rt _ _ He)). reflexivity.
  - assert (Hk : exists l, Nat.leb 2 (length ops) = true /\ forallb (rt_at l) ops = true).
    { cbn [rtx rt_at meta_of] in H. apply andb_true_iff in H. destruct H as [_ H]. destruct k.
      - exists 3. repeat (apply andb_true_iff in H; destruct H as [H ?]). split; assumption.
      - exists 2. repeat (apply andb_true_iff in H; destruct H as [H ?]). split; assumption.
      - exists 1. repeat (apply andb_true_iff in H; destruct H as [H ?]). split; assumption.
      - discriminate. }
    destruct Hk as [l [Hlen Hops]].
    cbn [every_node]. apply andb_true_iff. split.
    + destruct (length_ge2 _ Hlen) as [c0 [c1 [r ->]]]. destruct k; reflexivity.
    + clear Hlen H. induction IHops as [|c r Hc _ IH]; [reflexivity|].
      simpl in Hops. apply andb_true_iff in Hops. destruct Hops as [H1 H2].
      cbn [every_list]. rewrite (Hc l (rtx_of_rt _ _ H1)). exact (IH H2).
  - cbn [rtx rt_at meta_of] in H. apply andb_true_iff in H. destruct H as [_ He].
    cbn [every_node]. rewrite (IHt 3 (rtx_of_rt _ _ He)). destruct k; reflexivity.
  - cbn [rtx rt_at meta_of] in H. apply andb_true_iff in H. destruct H as [_ H].
    apply andb_true_iff in H. destruct H as [Ha _]. apply orb_true_iff in Ha. destruct Ha as [Ha|Ha].
    + destruct (leaf_word_inv _ Ha) as [ma [v [-> _]]]. destruct k; reflexivity.
    + destruct (leaf_phrase_inv _ Ha) as [ma [v [-> _]]]. destruct k; reflexivity.
  - cbn [rtx rt_at] in H. rewrite andb_false_r in H. discriminate.
Qed.

(* For a tree within the guard: auto_head_tail succeeds; its printed result lexes, without error, to the
   yield of the syntax tree `syn t` (blanks aside); that syntax tree is well-formed for the documented grammar
   and its value is t without layout. *)
Theorem rt_syntax t : rt_ok t = true ->
  aht t = Some (daht t) /\
  wfb (syn t) = true /\ val (syn t) = erase t /\
  map tok_key (fst (lex (print true (daht t)))) = map tok_key (fl (syn t)) /\
  snd (lex (print true (daht t))) = None.
Proof.
  unfold rt_ok. intros H. pose proof (rtx_of_rt _ _ H) as Hx.
  split; [rewrite aht_daht, (rt_defined _ _ Hx); reflexivity|].
  destruct (WF_all t 0 Hx) as [W [_ [V _]]]. split; [exact W|]. split; [rewrite V; eapply gfix_rt; exact H|].
  pose proof (CH_all t 0 Hx [] [] [] eq_refl I CHN_nil) as Hc.
  rewrite !app_nil_r, ptail_nil in Hc.
  apply CHN_lex; [exact Hc|]. pose proof (fl_len (syn t)) as Hl. destruct (fl (syn t)); [simpl in Hl; lia|discriminate].
Qed.

(* ================================================================ I. the numeral guard is what the parser itself produces *)
Require Import RespellProofs.

Lemma norm_canon_unsigned x : dsign x = false -> dec_normalize x = dec_canon x.
Proof. unfold dec_normalize, dec_canon. intros H. rewrite H. reflexivity. Qed.

(* every degree / force read from a lexeme [0-9.]+ and normalised (what Fuzzy / Boost hold after parsing, and what
   their constructors compute from a str / int / float argument) is inside `deg_ok` *)
Lemma deg_ok_parsed ds f : dec_of_lexeme ds = Some f -> deg_ok (dec_normalize f) = true.
Proof.
  intros H. destruct (dec_print_roundtrip ds f H) as [_ [Hn [f' [Hf' He]]]].
  unfold deg_ok. rewrite Hn, Hf'. cbn [andb]. apply dec_struct_eqb_iff.
  pose proof (dec_of_lexeme_sign _ _ H) as S1. pose proof (dec_of_lexeme_sign _ _ Hf') as S2.
  apply dec_eqb_iff in He.
  rewrite (norm_canon_unsigned _ S2), (norm_canon_unsigned _ S1). symmetry. exact He.
Qed.
