(* Naming.v — luqum.naming: TreeAutoNamer (next_name, _clear_names, auto_name), element_from_path.
   Executable definitions only. *)
Require Import Base Decimal Tree GenTree GenVisitors GenNaming Visitor.

(* _pos_letter = {l: i for i, l in enumerate(LETTERS)} : the LAST index of a letter *)
Fixpoint pos_letter_from (i : nat) (l : str) (c : char) (acc : option nat) : option nat :=
  match l with
  | [] => acc
  | x :: l' => pos_letter_from (S i) l' c (if N.eqb x c then Some i else acc)
  end.
Definition pos_letter (letters : str) (c : char) : option nat := pos_letter_from 0 letters c None.

(* TreeAutoNamer.next_name; None = KeyError / IndexError *)
Definition next_name (letters : str) (name : option str) : option str :=
  match name with
  | None => match hd_error letters with None => None | Some c => Some [c] end
  | Some nm =>
      match rev nm with
      | [] => None                                   (* name[-1] on "" : IndexError *)
      | lastc :: rinit =>
          match pos_letter letters lastc with
          | None => None                             (* KeyError *)
          | Some p =>
              match nth_error letters (S p) with
              | Some c => Some (rev rinit ++ [c])
              | None => match hd_error letters with None => None | Some c0 => Some (nm ++ [c0]) end
              end
          end
      end
  end.

(* TreeAutoNamer._clear_names: the name attribute is removed from the node (delattr when get_name is not
   None — the model's name field becomes None either way), then from every node below it, through
   `.children` *)
Definition clear_list (f : item -> item) :=
  fix go (l : list item) : list item :=
    match l with
    | [] => []
    | c :: l' => f c :: go l'
    end.

Fixpoint clear_names (t : item) : item :=
  let via (cs : list item) := rebuild (set_name t None) (clear_list clear_names cs) in
  match t with
  | Term _ _ _ | NoneItem _ => via []
  | SearchField _ _ e | Grp _ _ e | Boost _ e _ _ => via [e]
  | Fuzzy _ x _ _ | Proximity _ x _ _ => via [x]
  | Unary _ _ a | ORange _ _ a _ => via [a]
  | Range _ lo hi _ _ => via [lo; hi]
  | Op _ _ ops => via ops
  end.

Section AutoName.
  Variable letters : str.
  (* does the namer's handler for a node of this class put names on the node's children? *)
  Variable handles : cls -> bool.

  Fixpoint gen_names (st : option str) (n : nat) : option (list str * option str) :=
    match n with
    | O => Some ([], st)
    | S n' =>
        match next_name letters st with
        | None => None
        | Some nm =>
            match gen_names (Some nm) n' with
            | None => None
            | Some (l, st') => Some (nm :: l, st')
            end
        end
    end.

  Definition pre_names (t : item) (st : option str) : option (list str * option str) :=
    if handles (cls_of t) then gen_names st (length (children t)) else Some ([], st).

  Definition apply_nm (onm : option str) (c : item) : item :=
    match onm with Some nm => set_name c (Some nm) | None => c end.

  Definition entries (pre : path) (names : list str) : list (str * path) :=
    mapi (fun i nm => (nm, pre ++ [i])) names.

  Definition nres := (item * option str * list (str * path))%type.

  (* visit of the children list (generic_visit of PathTrackingVisitor), threading the global name;
     child number i gets names[i] put on it by its parent when the parent's handler names children *)
  Definition go_list (f : item -> path -> option str -> option nres) (names : list str) (pre : path) :=
    fix go (i : nat) (l : list item) (s : option str)
      : option (list item * option str * list (str * path)) :=
      match l with
      | [] => Some ([], s, [])
      | c :: l' =>
          match f c (pre ++ [i]) s with
          | None => None
          | Some (c', s', mp) =>
              match go (S i) l' s' with
              | None => None
              | Some (cs', s'', mps) => Some (apply_nm (nth_error names i) c' :: cs', s'', mp ++ mps)
              end
          end
      end.

  (* visit of one node: returns the renamed node, the new global name, and the mapping entries
     in insertion order *)
  Fixpoint an_go (t : item) (pre : path) (st : option str) : option nres :=
    match pre_names t st with
    | None => None
    | Some (names, st1) =>
        let ent := entries pre names in
        let via (cs : list item) :=
          match go_list an_go names pre 0 cs st1 with
          | None => None
          | Some (cs', st2, mps) => Some (rebuild t cs', st2, ent ++ mps)
          end in
        match t with
        | Term _ _ _ | NoneItem _ => via []
        | SearchField _ _ e | Grp _ _ e | Boost _ e _ _ => via [e]
        | Fuzzy _ x _ _ | Proximity _ x _ _ => via [x]
        | Unary _ _ a | ORange _ _ a _ => via [a]
        | Range _ lo hi _ _ => via [lo; hi]
        | Op _ _ ops => via ops
        end
    end.

  (* TreeAutoNamer.visit after the names were cleared: the tracked visit, then the root alone when the
     mapping is empty *)
  Definition name_tree (t : item) : option (item * list (str * path)) :=
    match an_go t [] None with
    | None => None
    | Some (t', st, mp) =>
        match mp with
        | [] => match next_name letters st with
                | None => None
                | Some nm => Some (set_name t' (Some nm), [(nm, [])])
                end
        | _ => Some (t', mp)
        end
    end.

  (* TreeAutoNamer.visit: every name of a previous naming is removed first (_clear_names), then the
     tree is named *)
  Definition auto_name_with (t : item) : option (item * list (str * path)) :=
    name_tree (clear_names t).
End AutoName.

(* the namer's only specific handler is visit_base_operation: a class is "handled" when dispatch
   through the generated MRO and method table lands on it *)
Definition namer_handles (c : cls) : bool :=
  match dispatch gen_methods_TreeAutoNamer c with
  | Some CBaseOperation => true
  | _ => false
  end.

Definition auto_name (t : item) : option (item * list (str * path)) :=
  auto_name_with gen_letters namer_handles t.

(* tie obligation: every specific handler of the namer is one the model knows *)
Definition namer_methods_known : bool :=
  forallb (fun c => cls_eqb c CBaseOperation) gen_methods_TreeAutoNamer.
