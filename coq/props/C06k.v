(* C06k — the clause KIND TABLE of C06 as a theorem.  Statements, theorems, witnesses, examples, Print
   Assumptions only.  Table: model/EsKindTable.v (written from the property text and luqum's documentation, see
   its header: no call to the model's leaf_json / leaf_method / mk_word / mk_phrase / mk_range / setters /
   has_wildcard / collapse_ws / strip_ends / range_bound_value, own spelling of every kind and parameter);
   lemmas: proofs/EsKindProofs.v.

   Clause of the property text treated here: "carrying the term's own text: quotes stripped from phrases, range
   bounds under gte/gt/lte/lt according to the bracket kind, * meaning unbounded or exists.  The clause kind follows
   the documented table (term-level on not-analysed fields, match / match_phrase on analysed ones with
   zero_terms_query 'all' only directly under a conjunction, wildcard forms for unescaped * or ?, fuzziness / slop /
   boost from ~ and ^, per-field options merged in)".  In props/C06.v this clause was true by definition: the
   expected clause of a leaf was the model's own rendering (EsSpec.clause = EsBuild.leaf_json) of an E-item built
   with the model's own constructors.  Here:

   (1) C06_kind_table — for every well-formed configuration and every DESCRIBED TERM (EsKindTable.tdesc: the
       word / phrase / range as written, its field, the ~ / ^ above it innermost first, "direct item of a
       conjunction", its name) in the domain desc_ok, the E-item the builder makes for it (EsKindProofs.leaf_of: the
       constructor visit_word / visit_phrase / visit_range calls, zero_terms_query pushed by EMust, then the setters
       of the modifiers) renders (EsBuild.leaf_json) to the clause of the table (EsKindTable.spec_clause).
       Domain: the text of the word — of the phrase, on a not-analysed field — has no run of three backslashes.
       Outside, the statement is FALSE (C06_kind_table_unguarded_refuted): luqum finds wildcards with the regular
       expression ((?<=[^\\])[?*]|\\\\[?*]|^[?*]) (Term.WILDCARDS_PATTERN, "non escaped * and ?"), which reads
       `x\\\*` — x, an escaped backslash, an escaped * — as a wildcard.  C06_wildcard_reading: inside the domain the
       regular expression IS "an unescaped * or ?".
   (2) C06_domain_covers — the E-items of every tree (expected leaves; for a supported tree outside F22 the leaves
       of the E-tree the builder builds) are the E-items of its described terms (EsKindTable.expected_terms, computed
       on the tree like EsSpec.expected_leaves but producing descriptions), all in the domain when the tree's
       texts are (texts_plain).
   (3) C06_leaves_by_table — C06_leaves_partial restated with the table: the multiset of leaf clauses of the
       generated query is  map spec_clause (expected_terms cfg t); C06_eleaves_by_table in document order on the
       E-tree.  No function of the model occurs in the conclusion.  C06_leaves_by_table_guard_needed: the new
       guard cannot be dropped (same witness, on a tree).
   Rows of the table that the documentation leaves open are marked OBSERVED in EsKindTable.v and have an Example
   below, whose JSON literals were produced by the REAL builder (unchanged /repo) for that query and configuration,
   every configuration carrying field options. *)
Require Import Base Decimal Tree GenTree GenVisitors GenEs Visitor Json EsSpecs EsCheck EsBuild EsSpec
               TreeInd EsProofs EsKindTable EsKindProofs.
From Coq Require Import Permutation.

(* ---- (1) the table *)
Definition C06_kind_table_statement : Prop :=
  forall cfg d, wf_config cfg = true -> desc_ok cfg d = true ->
    leaf_json cfg (leaf_of cfg d) = ROk (spec_clause cfg d).

Theorem C06_kind_table : C06_kind_table_statement.
Proof. intros cfg d Hwf Hok. exact (kind_table cfg d Hwf Hok). Qed.

(* the same, read on E-items: every E-item of the domain renders to the table's clause of a description it is
   the E-item of *)
Definition C06_kind_table_items_statement : Prop :=
  forall cfg l, wf_config cfg = true -> leaf_ok cfg l ->
    exists d, l = leaf_of cfg d /\ desc_ok cfg d = true /\ leaf_json cfg l = ROk (spec_clause cfg d).

Theorem C06_kind_table_items : C06_kind_table_items_statement.
Proof.
  intros cfg l Hwf [d [Hok Hl]]. exists d. split; [exact Hl|]. split; [exact Hok|].
  rewrite Hl. exact (kind_table cfg d Hwf Hok).
Qed.

(* "wildcard forms for unescaped * or ?": in the domain, the regular expression of Term.has_wildcard (the model's
   has_wildcard) is the escape-aware reading of the table *)
Definition C06_wildcard_reading_statement : Prop :=
  forall q, no_backslash_run3 q = true -> has_wildcard q = unescaped_wildcard q.

Theorem C06_wildcard_reading : C06_wildcard_reading_statement.
Proof. intros q H. exact (has_wildcard_unescaped q H). Qed.

(* value normalisation: the table's own readings are the ones of the model *)
Definition C06_text_normalisation_statement : Prop :=
  (forall s, between_quotes s = strip_ends s) /\
  (forall s, collapse_blanks s = collapse_ws false s) /\
  (forall b, bound_text b = range_bound_value b).

Theorem C06_text_normalisation : C06_text_normalisation_statement.
Proof.
  split; [exact between_quotes_strip_ends|]. split; [exact collapse_blanks_eq|].
  intros b. symmetry. apply bound_text_eq.
Qed.

(* f:x\\\* : the text is x, an escaped backslash, an escaped * — no unescaped wildcard.
   cfg_k -> {'query_string': {'analyzer': 'std', 'boost': 9, 'analyze_wildcard': False, 'query': 'x\\\\\\*', 'default_field': 'f', 'allow_leading_wildcard': True}} (replayed on the real code) *)
Definition t_escaped_run : item := (SearchField (mkMeta (Some (0)%Z) (Some (7)%Z) [] [] None) [102]%N (Term KWord (mkMeta (Some (2)%Z) (Some (5)%Z) [] [] None) [120;92;92;92;42]%N)).
Definition j_escaped_run : json := (JObj [([113;117;101;114;121;95;115;116;114;105;110;103]%N, (JObj [([97;110;97;108;121;122;101;114]%N, (JStr [115;116;100]%N)); ([98;111;111;115;116]%N, (JNum (mkDec false 9%N 0%Z))); ([97;110;97;108;121;122;101;95;119;105;108;100;99;97;114;100]%N, (JBool false)); ([113;117;101;114;121]%N, (JStr [120;92;92;92;42]%N)); ([100;101;102;97;117;108;116;95;102;105;101;108;100]%N, (JStr [102]%N)); ([97;108;108;111;119;95;108;101;97;100;105;110;103;95;119;105;108;100;99;97;114;100]%N, (JBool true))]))]).
Definition j_escaped_run_table : json := (JObj [([109;97;116;99;104]%N, (JObj [([102]%N, (JObj [([97;110;97;108;121;122;101;114]%N, (JStr [115;116;100]%N)); ([98;111;111;115;116]%N, (JNum (mkDec false 9%N 0%Z))); ([97;110;97;108;121;122;101;95;119;105;108;100;99;97;114;100]%N, (JBool false)); ([113;117;101;114;121]%N, (JStr [120;92;92;92;42]%N)); ([122;101;114;111;95;116;101;114;109;115;95;113;117;101;114;121]%N, (JStr [110;111;110;101]%N))]))]))]).

(* not_analyzed_fields=['n'], field_options={'f': {'analyzer': 'std', 'boost': 9, 'analyze_wildcard': False},
   'n': {'analyzer': 'kw', 'boost': 9, 'value': 'overwritten'},
   'g': {'match_type': 'multi_match', 'type': 'most_fields', 'fields': ['g', 'h']},
   'h': {'type': 'match_phrase_prefix', 'max_expansions': 3}} *)
Definition cfg_k : es_config :=
  (mkEsConfig DShould [116;101;120;116]%N [[110]%N] SNone SNone SNone [([102]%N, [([97;110;97;108;121;122;101;114]%N, (JStr [115;116;100]%N)); ([98;111;111;115;116]%N, (JNum (mkDec false 9%N 0%Z))); ([97;110;97;108;121;122;101;95;119;105;108;100;99;97;114;100]%N, (JBool false))]); ([110]%N, [([97;110;97;108;121;122;101;114]%N, (JStr [107;119]%N)); ([98;111;111;115;116]%N, (JNum (mkDec false 9%N 0%Z))); ([118;97;108;117;101]%N, (JStr [111;118;101;114;119;114;105;116;116;101;110]%N))]); ([103]%N, [([109;97;116;99;104;95;116;121;112;101]%N, (JStr [109;117;108;116;105;95;109;97;116;99;104]%N)); ([116;121;112;101]%N, (JStr [109;111;115;116;95;102;105;101;108;100;115]%N)); ([102;105;101;108;100;115]%N, (JList [(JStr [103]%N); (JStr [104]%N)]))]); ([104]%N, [([116;121;112;101]%N, (JStr [109;97;116;99;104;95;112;104;114;97;115;101;95;112;114;101;102;105;120]%N)); ([109;97;120;95;101;120;112;97;110;115;105;111;110;115]%N, (JNum (mkDec false 3%N 0%Z)))])] false).

(* the described term of the witness: the word x\\\* on the analysed field f *)
Definition d_escaped_run : tdesc := mkT (QWord [120;92;92;92;42]%N) [[102]%N] [] false None.

Example C06k_escaped_run_witness :
  wf_config cfg_k = true /\ desc_ok cfg_k d_escaped_run = false /\
  expected_terms cfg_k t_escaped_run = [d_escaped_run] /\
  unescaped_wildcard [120;92;92;92;42]%N = false /\ has_wildcard [120;92;92;92;42]%N = true /\
  leaf_json cfg_k (leaf_of cfg_k d_escaped_run) = ROk j_escaped_run /\
  spec_clause cfg_k d_escaped_run = j_escaped_run_table /\
  build cfg_k t_escaped_run = ROk j_escaped_run.
Proof. vm_compute. repeat split; reflexivity. Qed.

Definition C06_kind_table_unguarded_statement : Prop :=
  forall cfg d, wf_config cfg = true -> leaf_json cfg (leaf_of cfg d) = ROk (spec_clause cfg d).

Theorem C06_kind_table_unguarded_refuted : ~ C06_kind_table_unguarded_statement.
Proof.
  intros H. specialize (H cfg_k d_escaped_run eq_refl). vm_compute in H. discriminate H.
Qed.

(* "per-field options merged in", parameter by parameter: a generated parameter overwrites the option of the same
   name and every other option stays (`overwrite`, used for boost, fuzziness, _name, query, zero_terms_query,
   default_field, value, slop, lt / lte / gt / gte); for analyze_wildcard and allow_leading_wildcard the option
   wins and the generated value only fills the gap (`unless_given`) *)
Definition C06_merge_semantics_statement : Prop :=
  (forall k o g, obj_get k (overwrite o g) =
                 match last_given k g with Some v => Some v | None => obj_get k o end) /\
  (forall k k' v o, obj_get k (unless_given k' v o) =
                    match obj_get k o with Some v' => Some v' | None => if str_eqb k k' then Some v else None end).

Theorem C06_merge_semantics : C06_merge_semantics_statement.
Proof. split; [exact obj_get_overwrite|exact obj_get_unless_given]. Qed.

(* ---- (2) the domain covers the E-items of every tree *)
Definition C06_domain_covers_statement : Prop :=
  (forall cfg t, expected_leaves cfg t = map (leaf_of cfg) (expected_terms cfg t)) /\
  (forall cfg t, texts_plain t = true -> terms_in_table cfg t = true) /\
  (forall cfg t, terms_in_table cfg t = true -> Forall (leaf_ok cfg) (expected_leaves cfg t)) /\
  (forall cfg t e, supported t = true -> modifier_over_nested cfg t = false -> terms_in_table cfg t = true ->
     build_etree cfg t = ROk e -> Forall (leaf_ok cfg) (eleaves e)).

Theorem C06_domain_covers : C06_domain_covers_statement.
Proof.
  split; [exact expected_leaves_terms|]. split; [exact texts_plain_expected|].
  split; [exact expected_leaves_ok|].
  intros cfg t e Hs Hm Hok Hb. rewrite (build_etree_leaves cfg t e Hs Hm Hb). exact (expected_leaves_ok cfg t Hok).
Qed.

(* ---- (3) the leaf clauses of the generated query, by the table *)
Definition C06_leaves_by_table_statement : Prop :=
  forall cfg t j, supported t = true -> wf_config cfg = true -> options_not_reserved cfg = true ->
    modifier_over_nested cfg t = false -> terms_in_table cfg t = true ->
    build cfg t = ROk j -> Permutation (leaves j) (table_clauses cfg t).

Theorem C06_leaves_by_table : C06_leaves_by_table_statement.
Proof. intros cfg t j Hs Hwf Ho Hm Hok Hb. exact (build_leaves_table cfg t j Hs Hwf Ho Hm Hok Hb). Qed.

(* with the guard read on the tree: no word / phrase has a run of three backslashes *)
Definition C06_leaves_by_table_plain_statement : Prop :=
  forall cfg t j, supported t = true -> wf_config cfg = true -> options_not_reserved cfg = true ->
    modifier_over_nested cfg t = false -> texts_plain t = true ->
    build cfg t = ROk j -> Permutation (leaves j) (table_clauses cfg t).

Theorem C06_leaves_by_table_plain : C06_leaves_by_table_plain_statement.
Proof.
  intros cfg t j Hs Hwf Ho Hm Hp Hb.
  exact (build_leaves_table cfg t j Hs Hwf Ho Hm (texts_plain_expected cfg t Hp) Hb).
Qed.

(* in document order, on the E-tree the JSON is rendered from *)
Definition C06_eleaves_by_table_statement : Prop :=
  forall cfg t e, supported t = true -> wf_config cfg = true -> modifier_over_nested cfg t = false ->
    terms_in_table cfg t = true -> build_etree cfg t = ROk e ->
    map (leaf_json cfg) (eleaves e) = map (fun d => ROk (spec_clause cfg d)) (expected_terms cfg t).

Theorem C06_eleaves_by_table : C06_eleaves_by_table_statement.
Proof. intros cfg t e Hs Hwf Hm Hok Hb. exact (proj2 (build_etree_table cfg t e Hs Hwf Hm Hok Hb)). Qed.

(* the new guard cannot be dropped: a supported tree and a well-formed configuration, inside every other guard,
   on which the generated clause is not the table's *)
Definition C06_leaves_by_table_guard_needed_statement : Prop :=
  exists cfg t j, supported t = true /\ wf_config cfg = true /\ options_not_reserved cfg = true /\
    modifier_over_nested cfg t = false /\ terms_in_table cfg t = false /\ build cfg t = ROk j /\
    ~ Permutation (leaves j) (table_clauses cfg t).

Theorem C06_leaves_by_table_guard_needed : C06_leaves_by_table_guard_needed_statement.
Proof.
  exists cfg_k, t_escaped_run, j_escaped_run. repeat split; try (vm_compute; reflexivity).
  intros H.
  assert (Hl : leaves j_escaped_run = [j_escaped_run]) by (vm_compute; reflexivity).
  assert (He : table_clauses cfg_k t_escaped_run = [j_escaped_run_table]) by (vm_compute; reflexivity).
  rewrite Hl, He in H. apply Permutation_length_1 in H. vm_compute in H. discriminate H.
Qed.

(* ---- non-vacuity: one Example per row of the table.  Every JSON literal below is the output of the real
   ElasticsearchQueryBuilder of the unchanged /repo for the query and configuration of the comment (generated,
   and cross-checked with the independent Python oracle of harness/c06.py); each Example says: the tree is inside the
   guard, the model answers what the code answered, and the table predicts exactly the leaf clauses of that
   answer.  Both configurations carry field options on every field used. *)
(* the same with match_word_as_phrase=True *)
Definition cfg_kp : es_config :=
  mkEsConfig (c_default_operator cfg_k) (c_default_field cfg_k) (c_not_analyzed cfg_k) (c_nested cfg_k)
             (c_object cfg_k) (c_sub cfg_k) (c_field_options cfg_k) true.
(* f:* — word * : exists, only field and _name (no option, OBSERVED)
   cfg_k -> {'exists': {'field': 'f', '_name': 'nm'}} *)
Definition t_exists : item := (SearchField (mkMeta (Some (0)%Z) (Some (3)%Z) [] [] None) [102]%N (Term KWord (mkMeta (Some (2)%Z) (Some (1)%Z) [] [] (Some ([110;109]%N : str))) [42]%N)).
Definition j_exists : json := (JObj [([101;120;105;115;116;115]%N, (JObj [([102;105;101;108;100]%N, (JStr [102]%N)); ([95;110;97;109;101]%N, (JStr [110;109]%N))]))]).
Example C06k_row_exists :
  terms_in_table cfg_k t_exists = true /\ build cfg_k t_exists = ROk j_exists /\
  table_clauses cfg_k t_exists = leaves j_exists /\
  leaves j_exists = [(JObj [([101;120;105;115;116;115]%N, (JObj [([102;105;101;108;100]%N, (JStr [102]%N)); ([95;110;97;109;101]%N, (JStr [110;109]%N))]))])].
Proof. vm_compute. repeat split; reflexivity. Qed.

(* f:*^2 — word * under ^ : the boost is not rendered (OBSERVED)
   cfg_k -> {'exists': {'field': 'f'}} *)
Definition t_exists_boost_dropped : item := (SearchField (mkMeta (Some (0)%Z) (Some (5)%Z) [] [] None) [102]%N (Boost (mkMeta (Some (2)%Z) (Some (3)%Z) [] [] None) (Term KWord (mkMeta (Some (2)%Z) (Some (1)%Z) [] [] None) [42]%N) (mkDec false 2%N (0)%Z) false)).
Definition j_exists_boost_dropped : json := (JObj [([101;120;105;115;116;115]%N, (JObj [([102;105;101;108;100]%N, (JStr [102]%N))]))]).
Example C06k_row_exists_boost_dropped :
  terms_in_table cfg_k t_exists_boost_dropped = true /\ build cfg_k t_exists_boost_dropped = ROk j_exists_boost_dropped /\
  table_clauses cfg_k t_exists_boost_dropped = leaves j_exists_boost_dropped /\
  leaves j_exists_boost_dropped = [(JObj [([101;120;105;115;116;115]%N, (JObj [([102;105;101;108;100]%N, (JStr [102]%N))]))])].
Proof. vm_compute. repeat split; reflexivity. Qed.

(* n:x* — unescaped wildcard, not analysed: wildcard; the option `value` is overwritten
   cfg_k -> {'wildcard': {'n': {'analyzer': 'kw', 'boost': 9, 'value': 'x*'}}} *)
Definition t_wildcard : item := (SearchField (mkMeta (Some (0)%Z) (Some (4)%Z) [] [] None) [110]%N (Term KWord (mkMeta (Some (2)%Z) (Some (2)%Z) [] [] None) [120;42]%N)).
Definition j_wildcard : json := (JObj [([119;105;108;100;99;97;114;100]%N, (JObj [([110]%N, (JObj [([97;110;97;108;121;122;101;114]%N, (JStr [107;119]%N)); ([98;111;111;115;116]%N, (JNum (mkDec false 9%N 0%Z))); ([118;97;108;117;101]%N, (JStr [120;42]%N))]))]))]).
Example C06k_row_wildcard :
  terms_in_table cfg_k t_wildcard = true /\ build cfg_k t_wildcard = ROk j_wildcard /\
  table_clauses cfg_k t_wildcard = leaves j_wildcard /\
  leaves j_wildcard = [(JObj [([119;105;108;100;99;97;114;100]%N, (JObj [([110]%N, (JObj [([97;110;97;108;121;122;101;114]%N, (JStr [107;119]%N)); ([98;111;111;115;116]%N, (JNum (mkDec false 9%N 0%Z))); ([118;97;108;117;101]%N, (JStr [120;42]%N))]))]))])].
Proof. vm_compute. repeat split; reflexivity. Qed.

(* f:x? — unescaped wildcard, analysed: query_string; analyze_wildcard from the options, allow_leading_wildcard defaulted
   cfg_k -> {'query_string': {'analyzer': 'std', 'boost': 9, 'analyze_wildcard': False, 'query': 'x?', 'default_field': 'f', 'allow_leading_wildcard': True}} *)
Definition t_query_string : item := (SearchField (mkMeta (Some (0)%Z) (Some (4)%Z) [] [] None) [102]%N (Term KWord (mkMeta (Some (2)%Z) (Some (2)%Z) [] [] None) [120;63]%N)).
Definition j_query_string : json := (JObj [([113;117;101;114;121;95;115;116;114;105;110;103]%N, (JObj [([97;110;97;108;121;122;101;114]%N, (JStr [115;116;100]%N)); ([98;111;111;115;116]%N, (JNum (mkDec false 9%N 0%Z))); ([97;110;97;108;121;122;101;95;119;105;108;100;99;97;114;100]%N, (JBool false)); ([113;117;101;114;121]%N, (JStr [120;63]%N)); ([100;101;102;97;117;108;116;95;102;105;101;108;100]%N, (JStr [102]%N)); ([97;108;108;111;119;95;108;101;97;100;105;110;103;95;119;105;108;100;99;97;114;100]%N, (JBool true))]))]).
Example C06k_row_query_string :
  terms_in_table cfg_k t_query_string = true /\ build cfg_k t_query_string = ROk j_query_string /\
  table_clauses cfg_k t_query_string = leaves j_query_string /\
  leaves j_query_string = [(JObj [([113;117;101;114;121;95;115;116;114;105;110;103]%N, (JObj [([97;110;97;108;121;122;101;114]%N, (JStr [115;116;100]%N)); ([98;111;111;115;116]%N, (JNum (mkDec false 9%N 0%Z))); ([97;110;97;108;121;122;101;95;119;105;108;100;99;97;114;100]%N, (JBool false)); ([113;117;101;114;121]%N, (JStr [120;63]%N)); ([100;101;102;97;117;108;116;95;102;105;101;108;100]%N, (JStr [102]%N)); ([97;108;108;111;119;95;108;101;97;100;105;110;103;95;119;105;108;100;99;97;114;100]%N, (JBool true))]))])].
Proof. vm_compute. repeat split; reflexivity. Qed.

(* f:x*~1 — wildcard wins over ~ : query_string carrying fuzziness
   cfg_k -> {'query_string': {'analyzer': 'std', 'boost': 9, 'analyze_wildcard': False, 'fuzziness': 1.0, 'query': 'x*', 'default_field': 'f', 'allow_leading_wildcard': True}} *)
Definition t_query_string_fuzzy : item := (SearchField (mkMeta (Some (0)%Z) (Some (6)%Z) [] [] None) [102]%N (Fuzzy (mkMeta (Some (2)%Z) (Some (4)%Z) [] [] None) (Term KWord (mkMeta (Some (2)%Z) (Some (2)%Z) [] [] None) [120;42]%N) (mkDec false 1%N (0)%Z) false)).
Definition j_query_string_fuzzy : json := (JObj [([113;117;101;114;121;95;115;116;114;105;110;103]%N, (JObj [([97;110;97;108;121;122;101;114]%N, (JStr [115;116;100]%N)); ([98;111;111;115;116]%N, (JNum (mkDec false 9%N 0%Z))); ([97;110;97;108;121;122;101;95;119;105;108;100;99;97;114;100]%N, (JBool false)); ([102;117;122;122;105;110;101;115;115]%N, (JNum (mkDec false 1%N (0)%Z))); ([113;117;101;114;121]%N, (JStr [120;42]%N)); ([100;101;102;97;117;108;116;95;102;105;101;108;100]%N, (JStr [102]%N)); ([97;108;108;111;119;95;108;101;97;100;105;110;103;95;119;105;108;100;99;97;114;100]%N, (JBool true))]))]).
Example C06k_row_query_string_fuzzy :
  terms_in_table cfg_k t_query_string_fuzzy = true /\ build cfg_k t_query_string_fuzzy = ROk j_query_string_fuzzy /\
  table_clauses cfg_k t_query_string_fuzzy = leaves j_query_string_fuzzy /\
  leaves j_query_string_fuzzy = [(JObj [([113;117;101;114;121;95;115;116;114;105;110;103]%N, (JObj [([97;110;97;108;121;122;101;114]%N, (JStr [115;116;100]%N)); ([98;111;111;115;116]%N, (JNum (mkDec false 9%N 0%Z))); ([97;110;97;108;121;122;101;95;119;105;108;100;99;97;114;100]%N, (JBool false)); ([102;117;122;122;105;110;101;115;115]%N, (JNum (mkDec false 1%N (0)%Z))); ([113;117;101;114;121]%N, (JStr [120;42]%N)); ([100;101;102;97;117;108;116;95;102;105;101;108;100]%N, (JStr [102]%N)); ([97;108;108;111;119;95;108;101;97;100;105;110;103;95;119;105;108;100;99;97;114;100]%N, (JBool true))]))])].
Proof. vm_compute. repeat split; reflexivity. Qed.

(* f:x\* — an escaped * is no wildcard: match
   cfg_k -> {'match': {'f': {'analyzer': 'std', 'boost': 9, 'analyze_wildcard': False, 'query': 'x\\*', 'zero_terms_query': 'none'}}} *)
Definition t_escaped_wildcard : item := (SearchField (mkMeta (Some (0)%Z) (Some (5)%Z) [] [] None) [102]%N (Term KWord (mkMeta (Some (2)%Z) (Some (3)%Z) [] [] None) [120;92;42]%N)).
Definition j_escaped_wildcard : json := (JObj [([109;97;116;99;104]%N, (JObj [([102]%N, (JObj [([97;110;97;108;121;122;101;114]%N, (JStr [115;116;100]%N)); ([98;111;111;115;116]%N, (JNum (mkDec false 9%N 0%Z))); ([97;110;97;108;121;122;101;95;119;105;108;100;99;97;114;100]%N, (JBool false)); ([113;117;101;114;121]%N, (JStr [120;92;42]%N)); ([122;101;114;111;95;116;101;114;109;115;95;113;117;101;114;121]%N, (JStr [110;111;110;101]%N))]))]))]).
Example C06k_row_escaped_wildcard :
  terms_in_table cfg_k t_escaped_wildcard = true /\ build cfg_k t_escaped_wildcard = ROk j_escaped_wildcard /\
  table_clauses cfg_k t_escaped_wildcard = leaves j_escaped_wildcard /\
  leaves j_escaped_wildcard = [(JObj [([109;97;116;99;104]%N, (JObj [([102]%N, (JObj [([97;110;97;108;121;122;101;114]%N, (JStr [115;116;100]%N)); ([98;111;111;115;116]%N, (JNum (mkDec false 9%N 0%Z))); ([97;110;97;108;121;122;101;95;119;105;108;100;99;97;114;100]%N, (JBool false)); ([113;117;101;114;121]%N, (JStr [120;92;42]%N)); ([122;101;114;111;95;116;101;114;109;115;95;113;117;101;114;121]%N, (JStr [110;111;110;101]%N))]))]))])].
Proof. vm_compute. repeat split; reflexivity. Qed.

(* f:x~1^2 — word under ~ : fuzzy, fuzziness and boost generated (boost overwrites the option)
   cfg_k -> {'fuzzy': {'f': {'analyzer': 'std', 'boost': 2.0, 'analyze_wildcard': False, 'fuzziness': 1.0, 'value': 'x'}}} *)
Definition t_fuzzy : item := (SearchField (mkMeta (Some (0)%Z) (Some (7)%Z) [] [] None) [102]%N (Boost (mkMeta (Some (2)%Z) (Some (5)%Z) [] [] None) (Fuzzy (mkMeta (Some (2)%Z) (Some (3)%Z) [] [] None) (Term KWord (mkMeta (Some (2)%Z) (Some (1)%Z) [] [] None) [120]%N) (mkDec false 1%N (0)%Z) false) (mkDec false 2%N (0)%Z) false)).
Definition j_fuzzy : json := (JObj [([102;117;122;122;121]%N, (JObj [([102]%N, (JObj [([97;110;97;108;121;122;101;114]%N, (JStr [115;116;100]%N)); ([98;111;111;115;116]%N, (JNum (mkDec false 2%N (0)%Z))); ([97;110;97;108;121;122;101;95;119;105;108;100;99;97;114;100]%N, (JBool false)); ([102;117;122;122;105;110;101;115;115]%N, (JNum (mkDec false 1%N (0)%Z))); ([118;97;108;117;101]%N, (JStr [120]%N))]))]))]).
Example C06k_row_fuzzy :
  terms_in_table cfg_k t_fuzzy = true /\ build cfg_k t_fuzzy = ROk j_fuzzy /\
  table_clauses cfg_k t_fuzzy = leaves j_fuzzy /\
  leaves j_fuzzy = [(JObj [([102;117;122;122;121]%N, (JObj [([102]%N, (JObj [([97;110;97;108;121;122;101;114]%N, (JStr [115;116;100]%N)); ([98;111;111;115;116]%N, (JNum (mkDec false 2%N (0)%Z))); ([97;110;97;108;121;122;101;95;119;105;108;100;99;97;114;100]%N, (JBool false)); ([102;117;122;122;105;110;101;115;115]%N, (JNum (mkDec false 1%N (0)%Z))); ([118;97;108;117;101]%N, (JStr [120]%N))]))]))])].
Proof. vm_compute. repeat split; reflexivity. Qed.

(* n:x — word, not analysed: term; options kept, `value` overwritten
   cfg_k -> {'term': {'n': {'analyzer': 'kw', 'boost': 9, 'value': 'x'}}} *)
Definition t_term : item := (SearchField (mkMeta (Some (0)%Z) (Some (3)%Z) [] [] None) [110]%N (Term KWord (mkMeta (Some (2)%Z) (Some (1)%Z) [] [] None) [120]%N)).
Definition j_term : json := (JObj [([116;101;114;109]%N, (JObj [([110]%N, (JObj [([97;110;97;108;121;122;101;114]%N, (JStr [107;119]%N)); ([98;111;111;115;116]%N, (JNum (mkDec false 9%N 0%Z))); ([118;97;108;117;101]%N, (JStr [120]%N))]))]))]).
Example C06k_row_term :
  terms_in_table cfg_k t_term = true /\ build cfg_k t_term = ROk j_term /\
  table_clauses cfg_k t_term = leaves j_term /\
  leaves j_term = [(JObj [([116;101;114;109]%N, (JObj [([110]%N, (JObj [([97;110;97;108;121;122;101;114]%N, (JStr [107;119]%N)); ([98;111;111;115;116]%N, (JNum (mkDec false 9%N 0%Z))); ([118;97;108;117;101]%N, (JStr [120]%N))]))]))])].
Proof. vm_compute. repeat split; reflexivity. Qed.

(* f:x^2 — word, analysed: match, zero_terms_query none, boost overwrites the option
   cfg_k -> {'match': {'f': {'analyzer': 'std', 'boost': 2.0, 'analyze_wildcard': False, 'query': 'x', 'zero_terms_query': 'none'}}} *)
Definition t_match : item := (SearchField (mkMeta (Some (0)%Z) (Some (5)%Z) [] [] None) [102]%N (Boost (mkMeta (Some (2)%Z) (Some (3)%Z) [] [] None) (Term KWord (mkMeta (Some (2)%Z) (Some (1)%Z) [] [] None) [120]%N) (mkDec false 2%N (0)%Z) false)).
Definition j_match : json := (JObj [([109;97;116;99;104]%N, (JObj [([102]%N, (JObj [([97;110;97;108;121;122;101;114]%N, (JStr [115;116;100]%N)); ([98;111;111;115;116]%N, (JNum (mkDec false 2%N (0)%Z))); ([97;110;97;108;121;122;101;95;119;105;108;100;99;97;114;100]%N, (JBool false)); ([113;117;101;114;121]%N, (JStr [120]%N)); ([122;101;114;111;95;116;101;114;109;115;95;113;117;101;114;121]%N, (JStr [110;111;110;101]%N))]))]))]).
Example C06k_row_match :
  terms_in_table cfg_k t_match = true /\ build cfg_k t_match = ROk j_match /\
  table_clauses cfg_k t_match = leaves j_match /\
  leaves j_match = [(JObj [([109;97;116;99;104]%N, (JObj [([102]%N, (JObj [([97;110;97;108;121;122;101;114]%N, (JStr [115;116;100]%N)); ([98;111;111;115;116]%N, (JNum (mkDec false 2%N (0)%Z))); ([97;110;97;108;121;122;101;95;119;105;108;100;99;97;114;100]%N, (JBool false)); ([113;117;101;114;121]%N, (JStr [120]%N)); ([122;101;114;111;95;116;101;114;109;115;95;113;117;101;114;121]%N, (JStr [110;111;110;101]%N))]))]))])].
Proof. vm_compute. repeat split; reflexivity. Qed.

(* f:x AND n:y — direct items of a conjunction: zero_terms_query all on the match clause
   cfg_k -> {'bool': {'must': [{'match': {'f': {'analyzer': 'std', 'boost': 9, 'analyze_wildcard': False, 'query': 'x', 'zero_terms_query': 'all'}}}, {'term': {'n': {'analyzer': 'kw', 'boost': 9, 'value': 'y'}}}]}} *)
Definition t_match_conj : item := (Op KAnd (mkMeta (Some (0)%Z) (Some (11)%Z) [] [] None) [(SearchField (mkMeta (Some (0)%Z) (Some (4)%Z) [] [] None) [102]%N (Term KWord (mkMeta (Some (2)%Z) (Some (1)%Z) [] [32]%N None) [120]%N)); (SearchField (mkMeta (Some (8)%Z) (Some (3)%Z) [32]%N [] None) [110]%N (Term KWord (mkMeta (Some (10)%Z) (Some (1)%Z) [] [] None) [121]%N))]).
Definition j_match_conj : json := (JObj [([98;111;111;108]%N, (JObj [([109;117;115;116]%N, (JList [(JObj [([109;97;116;99;104]%N, (JObj [([102]%N, (JObj [([97;110;97;108;121;122;101;114]%N, (JStr [115;116;100]%N)); ([98;111;111;115;116]%N, (JNum (mkDec false 9%N 0%Z))); ([97;110;97;108;121;122;101;95;119;105;108;100;99;97;114;100]%N, (JBool false)); ([113;117;101;114;121]%N, (JStr [120]%N)); ([122;101;114;111;95;116;101;114;109;115;95;113;117;101;114;121]%N, (JStr [97;108;108]%N))]))]))]); (JObj [([116;101;114;109]%N, (JObj [([110]%N, (JObj [([97;110;97;108;121;122;101;114]%N, (JStr [107;119]%N)); ([98;111;111;115;116]%N, (JNum (mkDec false 9%N 0%Z))); ([118;97;108;117;101]%N, (JStr [121]%N))]))]))])]))]))]).
Example C06k_row_match_conj :
  terms_in_table cfg_k t_match_conj = true /\ build cfg_k t_match_conj = ROk j_match_conj /\
  table_clauses cfg_k t_match_conj = leaves j_match_conj /\
  leaves j_match_conj = [(JObj [([109;97;116;99;104]%N, (JObj [([102]%N, (JObj [([97;110;97;108;121;122;101;114]%N, (JStr [115;116;100]%N)); ([98;111;111;115;116]%N, (JNum (mkDec false 9%N 0%Z))); ([97;110;97;108;121;122;101;95;119;105;108;100;99;97;114;100]%N, (JBool false)); ([113;117;101;114;121]%N, (JStr [120]%N)); ([122;101;114;111;95;116;101;114;109;115;95;113;117;101;114;121]%N, (JStr [97;108;108]%N))]))]))]); (JObj [([116;101;114;109]%N, (JObj [([110]%N, (JObj [([97;110;97;108;121;122;101;114]%N, (JStr [107;119]%N)); ([98;111;111;115;116]%N, (JNum (mkDec false 9%N 0%Z))); ([118;97;108;117;101]%N, (JStr [121]%N))]))]))])].
Proof. vm_compute. repeat split; reflexivity. Qed.

(* NOT f:x — under NOT: zero_terms_query none
   cfg_k -> {'bool': {'must_not': [{'match': {'f': {'analyzer': 'std', 'boost': 9, 'analyze_wildcard': False, 'query': 'x', 'zero_terms_query': 'none'}}}]}} *)
Definition t_match_not : item := (Unary KNot (mkMeta (Some (0)%Z) (Some (7)%Z) [] [] None) (SearchField (mkMeta (Some (4)%Z) (Some (3)%Z) [32]%N [] None) [102]%N (Term KWord (mkMeta (Some (6)%Z) (Some (1)%Z) [] [] None) [120]%N))).
Definition j_match_not : json := (JObj [([98;111;111;108]%N, (JObj [([109;117;115;116;95;110;111;116]%N, (JList [(JObj [([109;97;116;99;104]%N, (JObj [([102]%N, (JObj [([97;110;97;108;121;122;101;114]%N, (JStr [115;116;100]%N)); ([98;111;111;115;116]%N, (JNum (mkDec false 9%N 0%Z))); ([97;110;97;108;121;122;101;95;119;105;108;100;99;97;114;100]%N, (JBool false)); ([113;117;101;114;121]%N, (JStr [120]%N)); ([122;101;114;111;95;116;101;114;109;115;95;113;117;101;114;121]%N, (JStr [110;111;110;101]%N))]))]))])]))]))]).
Example C06k_row_match_not :
  terms_in_table cfg_k t_match_not = true /\ build cfg_k t_match_not = ROk j_match_not /\
  table_clauses cfg_k t_match_not = leaves j_match_not /\
  leaves j_match_not = [(JObj [([109;97;116;99;104]%N, (JObj [([102]%N, (JObj [([97;110;97;108;121;122;101;114]%N, (JStr [115;116;100]%N)); ([98;111;111;115;116]%N, (JNum (mkDec false 9%N 0%Z))); ([97;110;97;108;121;122;101;95;119;105;108;100;99;97;114;100]%N, (JBool false)); ([113;117;101;114;121]%N, (JStr [120]%N)); ([122;101;114;111;95;116;101;114;109;115;95;113;117;101;114;121]%N, (JStr [110;111;110;101]%N))]))]))])].
Proof. vm_compute. repeat split; reflexivity. Qed.

(* f:x — match_word_as_phrase: match_phrase, no zero_terms_query
   cfg_kp -> {'match_phrase': {'f': {'analyzer': 'std', 'boost': 9, 'analyze_wildcard': False, 'query': 'x'}}} *)
Definition t_match_phrase_word : item := (SearchField (mkMeta (Some (0)%Z) (Some (3)%Z) [] [] None) [102]%N (Term KWord (mkMeta (Some (2)%Z) (Some (1)%Z) [] [] None) [120]%N)).
Definition j_match_phrase_word : json := (JObj [([109;97;116;99;104;95;112;104;114;97;115;101]%N, (JObj [([102]%N, (JObj [([97;110;97;108;121;122;101;114]%N, (JStr [115;116;100]%N)); ([98;111;111;115;116]%N, (JNum (mkDec false 9%N 0%Z))); ([97;110;97;108;121;122;101;95;119;105;108;100;99;97;114;100]%N, (JBool false)); ([113;117;101;114;121]%N, (JStr [120]%N))]))]))]).
Example C06k_row_match_phrase_word :
  terms_in_table cfg_kp t_match_phrase_word = true /\ build cfg_kp t_match_phrase_word = ROk j_match_phrase_word /\
  table_clauses cfg_kp t_match_phrase_word = leaves j_match_phrase_word /\
  leaves j_match_phrase_word = [(JObj [([109;97;116;99;104;95;112;104;114;97;115;101]%N, (JObj [([102]%N, (JObj [([97;110;97;108;121;122;101;114]%N, (JStr [115;116;100]%N)); ([98;111;111;115;116]%N, (JNum (mkDec false 9%N 0%Z))); ([97;110;97;108;121;122;101;95;119;105;108;100;99;97;114;100]%N, (JBool false)); ([113;117;101;114;121]%N, (JStr [120]%N))]))]))])].
Proof. vm_compute. repeat split; reflexivity. Qed.

(* g:x — match_type option: multi_match has no field level, `type` kept next to a truthy match_type
   cfg_k -> {'multi_match': {'type': 'most_fields', 'fields': ['g', 'h'], 'query': 'x'}} *)
Definition t_multi_match : item := (SearchField (mkMeta (Some (0)%Z) (Some (3)%Z) [] [] None) [103]%N (Term KWord (mkMeta (Some (2)%Z) (Some (1)%Z) [] [] None) [120]%N)).
Definition j_multi_match : json := (JObj [([109;117;108;116;105;95;109;97;116;99;104]%N, (JObj [([116;121;112;101]%N, (JStr [109;111;115;116;95;102;105;101;108;100;115]%N)); ([102;105;101;108;100;115]%N, (JList [(JStr [103]%N); (JStr [104]%N)])); ([113;117;101;114;121]%N, (JStr [120]%N))]))]).
Example C06k_row_multi_match :
  terms_in_table cfg_k t_multi_match = true /\ build cfg_k t_multi_match = ROk j_multi_match /\
  table_clauses cfg_k t_multi_match = leaves j_multi_match /\
  leaves j_multi_match = [(JObj [([109;117;108;116;105;95;109;97;116;99;104]%N, (JObj [([116;121;112;101]%N, (JStr [109;111;115;116;95;102;105;101;108;100;115]%N)); ([102;105;101;108;100;115]%N, (JList [(JStr [103]%N); (JStr [104]%N)])); ([113;117;101;114;121]%N, (JStr [120]%N))]))])].
Proof. vm_compute. repeat split; reflexivity. Qed.

(* h:x — legacy type option: the kind; it is not a parameter
   cfg_k -> {'match_phrase_prefix': {'h': {'max_expansions': 3, 'query': 'x'}}} *)
Definition t_type_option : item := (SearchField (mkMeta (Some (0)%Z) (Some (3)%Z) [] [] None) [104]%N (Term KWord (mkMeta (Some (2)%Z) (Some (1)%Z) [] [] None) [120]%N)).
Definition j_type_option : json := (JObj [([109;97;116;99;104;95;112;104;114;97;115;101;95;112;114;101;102;105;120]%N, (JObj [([104]%N, (JObj [([109;97;120;95;101;120;112;97;110;115;105;111;110;115]%N, (JNum (mkDec false 3%N 0%Z))); ([113;117;101;114;121]%N, (JStr [120]%N))]))]))]).
Example C06k_row_type_option :
  terms_in_table cfg_k t_type_option = true /\ build cfg_k t_type_option = ROk j_type_option /\
  table_clauses cfg_k t_type_option = leaves j_type_option /\
  leaves j_type_option = [(JObj [([109;97;116;99;104;95;112;104;114;97;115;101;95;112;114;101;102;105;120]%N, (JObj [([104]%N, (JObj [([109;97;120;95;101;120;112;97;110;115;105;111;110;115]%N, (JNum (mkDec false 3%N 0%Z))); ([113;117;101;114;121]%N, (JStr [120]%N))]))]))])].
Proof. vm_compute. repeat split; reflexivity. Qed.

(* h:x~1 — the kind options are not consulted under ~ , but still removed
   cfg_k -> {'fuzzy': {'h': {'max_expansions': 3, 'fuzziness': 1.0, 'value': 'x'}}} *)
Definition t_type_option_fuzzy : item := (SearchField (mkMeta (Some (0)%Z) (Some (5)%Z) [] [] None) [104]%N (Fuzzy (mkMeta (Some (2)%Z) (Some (3)%Z) [] [] None) (Term KWord (mkMeta (Some (2)%Z) (Some (1)%Z) [] [] None) [120]%N) (mkDec false 1%N (0)%Z) false)).
Definition j_type_option_fuzzy : json := (JObj [([102;117;122;122;121]%N, (JObj [([104]%N, (JObj [([109;97;120;95;101;120;112;97;110;115;105;111;110;115]%N, (JNum (mkDec false 3%N 0%Z))); ([102;117;122;122;105;110;101;115;115]%N, (JNum (mkDec false 1%N (0)%Z))); ([118;97;108;117;101]%N, (JStr [120]%N))]))]))]).
Example C06k_row_type_option_fuzzy :
  terms_in_table cfg_k t_type_option_fuzzy = true /\ build cfg_k t_type_option_fuzzy = ROk j_type_option_fuzzy /\
  table_clauses cfg_k t_type_option_fuzzy = leaves j_type_option_fuzzy /\
  leaves j_type_option_fuzzy = [(JObj [([102;117;122;122;121]%N, (JObj [([104]%N, (JObj [([109;97;120;95;101;120;112;97;110;115;105;111;110;115]%N, (JNum (mkDec false 3%N 0%Z))); ([102;117;122;122;105;110;101;115;115]%N, (JNum (mkDec false 1%N (0)%Z))); ([118;97;108;117;101]%N, (JStr [120]%N))]))]))])].
Proof. vm_compute. repeat split; reflexivity. Qed.

(* f:"x  y"~2 — phrase, analysed: match_phrase, quotes stripped, blanks collapsed, slop from ~
   cfg_k -> {'match_phrase': {'f': {'analyzer': 'std', 'boost': 9, 'analyze_wildcard': False, 'query': 'x y', 'slop': 2.0}}} *)
Definition t_phrase : item := (SearchField (mkMeta (Some (0)%Z) (Some (10)%Z) [] [] None) [102]%N (Proximity (mkMeta (Some (2)%Z) (Some (8)%Z) [] [] None) (Term KPhrase (mkMeta (Some (2)%Z) (Some (6)%Z) [] [] None) [34;120;32;32;121;34]%N) (2)%Z false)).
Definition j_phrase : json := (JObj [([109;97;116;99;104;95;112;104;114;97;115;101]%N, (JObj [([102]%N, (JObj [([97;110;97;108;121;122;101;114]%N, (JStr [115;116;100]%N)); ([98;111;111;115;116]%N, (JNum (mkDec false 9%N 0%Z))); ([97;110;97;108;121;122;101;95;119;105;108;100;99;97;114;100]%N, (JBool false)); ([113;117;101;114;121]%N, (JStr [120;32;121]%N)); ([115;108;111;112]%N, (JNum (mkDec false 2%N 0%Z)))]))]))]).
Example C06k_row_phrase :
  terms_in_table cfg_k t_phrase = true /\ build cfg_k t_phrase = ROk j_phrase /\
  table_clauses cfg_k t_phrase = leaves j_phrase /\
  leaves j_phrase = [(JObj [([109;97;116;99;104;95;112;104;114;97;115;101]%N, (JObj [([102]%N, (JObj [([97;110;97;108;121;122;101;114]%N, (JStr [115;116;100]%N)); ([98;111;111;115;116]%N, (JNum (mkDec false 9%N 0%Z))); ([97;110;97;108;121;122;101;95;119;105;108;100;99;97;114;100]%N, (JBool false)); ([113;117;101;114;121]%N, (JStr [120;32;121]%N)); ([115;108;111;112]%N, (JNum (mkDec false 2%N 0%Z)))]))]))])].
Proof. vm_compute. repeat split; reflexivity. Qed.

(* g:"x y" — phrase with a match_type option
   cfg_k -> {'multi_match': {'type': 'most_fields', 'fields': ['g', 'h'], 'query': 'x y'}} *)
Definition t_phrase_multi : item := (SearchField (mkMeta (Some (0)%Z) (Some (7)%Z) [] [] None) [103]%N (Term KPhrase (mkMeta (Some (2)%Z) (Some (5)%Z) [] [] None) [34;120;32;121;34]%N)).
Definition j_phrase_multi : json := (JObj [([109;117;108;116;105;95;109;97;116;99;104]%N, (JObj [([116;121;112;101]%N, (JStr [109;111;115;116;95;102;105;101;108;100;115]%N)); ([102;105;101;108;100;115]%N, (JList [(JStr [103]%N); (JStr [104]%N)])); ([113;117;101;114;121]%N, (JStr [120;32;121]%N))]))]).
Example C06k_row_phrase_multi :
  terms_in_table cfg_k t_phrase_multi = true /\ build cfg_k t_phrase_multi = ROk j_phrase_multi /\
  table_clauses cfg_k t_phrase_multi = leaves j_phrase_multi /\
  leaves j_phrase_multi = [(JObj [([109;117;108;116;105;95;109;97;116;99;104]%N, (JObj [([116;121;112;101]%N, (JStr [109;111;115;116;95;102;105;101;108;100;115]%N)); ([102;105;101;108;100;115]%N, (JList [(JStr [103]%N); (JStr [104]%N)])); ([113;117;101;114;121]%N, (JStr [120;32;121]%N))]))])].
Proof. vm_compute. repeat split; reflexivity. Qed.

(* n:"x  y" — phrase, not analysed: term on the text between the quotes, blanks kept
   cfg_k -> {'term': {'n': {'analyzer': 'kw', 'boost': 9, 'value': 'x  y'}}} *)
Definition t_phrase_term : item := (SearchField (mkMeta (Some (0)%Z) (Some (8)%Z) [] [] None) [110]%N (Term KPhrase (mkMeta (Some (2)%Z) (Some (6)%Z) [] [] None) [34;120;32;32;121;34]%N)).
Definition j_phrase_term : json := (JObj [([116;101;114;109]%N, (JObj [([110]%N, (JObj [([97;110;97;108;121;122;101;114]%N, (JStr [107;119]%N)); ([98;111;111;115;116]%N, (JNum (mkDec false 9%N 0%Z))); ([118;97;108;117;101]%N, (JStr [120;32;32;121]%N))]))]))]).
Example C06k_row_phrase_term :
  terms_in_table cfg_k t_phrase_term = true /\ build cfg_k t_phrase_term = ROk j_phrase_term /\
  table_clauses cfg_k t_phrase_term = leaves j_phrase_term /\
  leaves j_phrase_term = [(JObj [([116;101;114;109]%N, (JObj [([110]%N, (JObj [([97;110;97;108;121;122;101;114]%N, (JStr [107;119]%N)); ([98;111;111;115;116]%N, (JNum (mkDec false 9%N 0%Z))); ([118;97;108;117;101]%N, (JStr [120;32;32;121]%N))]))]))])].
Proof. vm_compute. repeat split; reflexivity. Qed.

(* n:"x*" — phrase, not analysed, with * : wildcard (OBSERVED)
   cfg_k -> {'wildcard': {'n': {'analyzer': 'kw', 'boost': 9, 'value': 'x*'}}} *)
Definition t_phrase_wildcard : item := (SearchField (mkMeta (Some (0)%Z) (Some (6)%Z) [] [] None) [110]%N (Term KPhrase (mkMeta (Some (2)%Z) (Some (4)%Z) [] [] None) [34;120;42;34]%N)).
Definition j_phrase_wildcard : json := (JObj [([119;105;108;100;99;97;114;100]%N, (JObj [([110]%N, (JObj [([97;110;97;108;121;122;101;114]%N, (JStr [107;119]%N)); ([98;111;111;115;116]%N, (JNum (mkDec false 9%N 0%Z))); ([118;97;108;117;101]%N, (JStr [120;42]%N))]))]))]).
Example C06k_row_phrase_wildcard :
  terms_in_table cfg_k t_phrase_wildcard = true /\ build cfg_k t_phrase_wildcard = ROk j_phrase_wildcard /\
  table_clauses cfg_k t_phrase_wildcard = leaves j_phrase_wildcard /\
  leaves j_phrase_wildcard = [(JObj [([119;105;108;100;99;97;114;100]%N, (JObj [([110]%N, (JObj [([97;110;97;108;121;122;101;114]%N, (JStr [107;119]%N)); ([98;111;111;115;116]%N, (JNum (mkDec false 9%N 0%Z))); ([118;97;108;117;101]%N, (JStr [120;42]%N))]))]))])].
Proof. vm_compute. repeat split; reflexivity. Qed.

(* n:"*" — phrase "*", not analysed: exists (OBSERVED)
   cfg_k -> {'exists': {'field': 'n'}} *)
Definition t_phrase_exists : item := (SearchField (mkMeta (Some (0)%Z) (Some (5)%Z) [] [] None) [110]%N (Term KPhrase (mkMeta (Some (2)%Z) (Some (3)%Z) [] [] None) [34;42;34]%N)).
Definition j_phrase_exists : json := (JObj [([101;120;105;115;116;115]%N, (JObj [([102;105;101;108;100]%N, (JStr [110]%N))]))]).
Example C06k_row_phrase_exists :
  terms_in_table cfg_k t_phrase_exists = true /\ build cfg_k t_phrase_exists = ROk j_phrase_exists /\
  table_clauses cfg_k t_phrase_exists = leaves j_phrase_exists /\
  leaves j_phrase_exists = [(JObj [([101;120;105;115;116;115]%N, (JObj [([102;105;101;108;100]%N, (JStr [110]%N))]))])].
Proof. vm_compute. repeat split; reflexivity. Qed.

(* f:"*" — phrase "*", analysed: match_phrase
   cfg_k -> {'match_phrase': {'f': {'analyzer': 'std', 'boost': 9, 'analyze_wildcard': False, 'query': '*'}}} *)
Definition t_phrase_star_analysed : item := (SearchField (mkMeta (Some (0)%Z) (Some (5)%Z) [] [] None) [102]%N (Term KPhrase (mkMeta (Some (2)%Z) (Some (3)%Z) [] [] None) [34;42;34]%N)).
Definition j_phrase_star_analysed : json := (JObj [([109;97;116;99;104;95;112;104;114;97;115;101]%N, (JObj [([102]%N, (JObj [([97;110;97;108;121;122;101;114]%N, (JStr [115;116;100]%N)); ([98;111;111;115;116]%N, (JNum (mkDec false 9%N 0%Z))); ([97;110;97;108;121;122;101;95;119;105;108;100;99;97;114;100]%N, (JBool false)); ([113;117;101;114;121]%N, (JStr [42]%N))]))]))]).
Example C06k_row_phrase_star_analysed :
  terms_in_table cfg_k t_phrase_star_analysed = true /\ build cfg_k t_phrase_star_analysed = ROk j_phrase_star_analysed /\
  table_clauses cfg_k t_phrase_star_analysed = leaves j_phrase_star_analysed /\
  leaves j_phrase_star_analysed = [(JObj [([109;97;116;99;104;95;112;104;114;97;115;101]%N, (JObj [([102]%N, (JObj [([97;110;97;108;121;122;101;114]%N, (JStr [115;116;100]%N)); ([98;111;111;115;116]%N, (JNum (mkDec false 9%N 0%Z))); ([97;110;97;108;121;122;101;95;119;105;108;100;99;97;114;100]%N, (JBool false)); ([113;117;101;114;121]%N, (JStr [42]%N))]))]))])].
Proof. vm_compute. repeat split; reflexivity. Qed.

(* n:"x y"~2 — phrase under ~, not analysed: fuzzy
   cfg_k -> {'fuzzy': {'n': {'analyzer': 'kw', 'boost': 9, 'value': 'x y', 'fuzziness': 2.0}}} *)
Definition t_phrase_fuzzy : item := (SearchField (mkMeta (Some (0)%Z) (Some (9)%Z) [] [] None) [110]%N (Proximity (mkMeta (Some (2)%Z) (Some (7)%Z) [] [] None) (Term KPhrase (mkMeta (Some (2)%Z) (Some (5)%Z) [] [] None) [34;120;32;121;34]%N) (2)%Z false)).
Definition j_phrase_fuzzy : json := (JObj [([102;117;122;122;121]%N, (JObj [([110]%N, (JObj [([97;110;97;108;121;122;101;114]%N, (JStr [107;119]%N)); ([98;111;111;115;116]%N, (JNum (mkDec false 9%N 0%Z))); ([118;97;108;117;101]%N, (JStr [120;32;121]%N)); ([102;117;122;122;105;110;101;115;115]%N, (JNum (mkDec false 2%N 0%Z)))]))]))]).
Example C06k_row_phrase_fuzzy :
  terms_in_table cfg_k t_phrase_fuzzy = true /\ build cfg_k t_phrase_fuzzy = ROk j_phrase_fuzzy /\
  table_clauses cfg_k t_phrase_fuzzy = leaves j_phrase_fuzzy /\
  leaves j_phrase_fuzzy = [(JObj [([102;117;122;122;121]%N, (JObj [([110]%N, (JObj [([97;110;97;108;121;122;101;114]%N, (JStr [107;119]%N)); ([98;111;111;115;116]%N, (JNum (mkDec false 9%N 0%Z))); ([118;97;108;117;101]%N, (JStr [120;32;121]%N)); ([102;117;122;122;105;110;101;115;115]%N, (JNum (mkDec false 2%N 0%Z)))]))]))])].
Proof. vm_compute. repeat split; reflexivity. Qed.

(* f:[1 TO 2} — range: gte / lt by bracket kind; options kept
   cfg_k -> {'range': {'f': {'analyzer': 'std', 'boost': 9, 'analyze_wildcard': False, 'lt': '2', 'gte': '1'}}} *)
Definition t_range : item := (SearchField (mkMeta (Some (0)%Z) (Some (10)%Z) [] [] None) [102]%N (Range (mkMeta (Some (2)%Z) (Some (8)%Z) [] [] None) (Term KWord (mkMeta (Some (3)%Z) (Some (1)%Z) [] [32]%N None) [49]%N) (Term KWord (mkMeta (Some (8)%Z) (Some (1)%Z) [32]%N [] None) [50]%N) true false)).
Definition j_range : json := (JObj [([114;97;110;103;101]%N, (JObj [([102]%N, (JObj [([97;110;97;108;121;122;101;114]%N, (JStr [115;116;100]%N)); ([98;111;111;115;116]%N, (JNum (mkDec false 9%N 0%Z))); ([97;110;97;108;121;122;101;95;119;105;108;100;99;97;114;100]%N, (JBool false)); ([108;116]%N, (JStr [50]%N)); ([103;116;101]%N, (JStr [49]%N))]))]))]).
Example C06k_row_range :
  terms_in_table cfg_k t_range = true /\ build cfg_k t_range = ROk j_range /\
  table_clauses cfg_k t_range = leaves j_range /\
  leaves j_range = [(JObj [([114;97;110;103;101]%N, (JObj [([102]%N, (JObj [([97;110;97;108;121;122;101;114]%N, (JStr [115;116;100]%N)); ([98;111;111;115;116]%N, (JNum (mkDec false 9%N 0%Z))); ([97;110;97;108;121;122;101;95;119;105;108;100;99;97;114;100]%N, (JBool false)); ([108;116]%N, (JStr [50]%N)); ([103;116;101]%N, (JStr [49]%N))]))]))])].
Proof. vm_compute. repeat split; reflexivity. Qed.

(* n:{1 TO *] — * is unbounded
   cfg_k -> {'range': {'n': {'analyzer': 'kw', 'boost': 9, 'value': 'overwritten', 'gt': '1'}}} *)
Definition t_range_open : item := (SearchField (mkMeta (Some (0)%Z) (Some (10)%Z) [] [] None) [110]%N (Range (mkMeta (Some (2)%Z) (Some (8)%Z) [] [] None) (Term KWord (mkMeta (Some (3)%Z) (Some (1)%Z) [] [32]%N None) [49]%N) (Term KWord (mkMeta (Some (8)%Z) (Some (1)%Z) [32]%N [] None) [42]%N) false true)).
Definition j_range_open : json := (JObj [([114;97;110;103;101]%N, (JObj [([110]%N, (JObj [([97;110;97;108;121;122;101;114]%N, (JStr [107;119]%N)); ([98;111;111;115;116]%N, (JNum (mkDec false 9%N 0%Z))); ([118;97;108;117;101]%N, (JStr [111;118;101;114;119;114;105;116;116;101;110]%N)); ([103;116]%N, (JStr [49]%N))]))]))]).
Example C06k_row_range_open :
  terms_in_table cfg_k t_range_open = true /\ build cfg_k t_range_open = ROk j_range_open /\
  table_clauses cfg_k t_range_open = leaves j_range_open /\
  leaves j_range_open = [(JObj [([114;97;110;103;101]%N, (JObj [([110]%N, (JObj [([97;110;97;108;121;122;101;114]%N, (JStr [107;119]%N)); ([98;111;111;115;116]%N, (JNum (mkDec false 9%N 0%Z))); ([118;97;108;117;101]%N, (JStr [111;118;101;114;119;114;105;116;116;101;110]%N)); ([103;116]%N, (JStr [49]%N))]))]))])].
Proof. vm_compute. repeat split; reflexivity. Qed.

(* f:[* TO *] — both bounds open: only the options
   cfg_k -> {'range': {'f': {'analyzer': 'std', 'boost': 9, 'analyze_wildcard': False}}} *)
Definition t_range_all : item := (SearchField (mkMeta (Some (0)%Z) (Some (10)%Z) [] [] None) [102]%N (Range (mkMeta (Some (2)%Z) (Some (8)%Z) [] [] None) (Term KWord (mkMeta (Some (3)%Z) (Some (1)%Z) [] [32]%N None) [42]%N) (Term KWord (mkMeta (Some (8)%Z) (Some (1)%Z) [32]%N [] None) [42]%N) true true)).
Definition j_range_all : json := (JObj [([114;97;110;103;101]%N, (JObj [([102]%N, (JObj [([97;110;97;108;121;122;101;114]%N, (JStr [115;116;100]%N)); ([98;111;111;115;116]%N, (JNum (mkDec false 9%N 0%Z))); ([97;110;97;108;121;122;101;95;119;105;108;100;99;97;114;100]%N, (JBool false))]))]))]).
Example C06k_row_range_all :
  terms_in_table cfg_k t_range_all = true /\ build cfg_k t_range_all = ROk j_range_all /\
  table_clauses cfg_k t_range_all = leaves j_range_all /\
  leaves j_range_all = [(JObj [([114;97;110;103;101]%N, (JObj [([102]%N, (JObj [([97;110;97;108;121;122;101;114]%N, (JStr [115;116;100]%N)); ([98;111;111;115;116]%N, (JNum (mkDec false 9%N 0%Z))); ([97;110;97;108;121;122;101;95;119;105;108;100;99;97;114;100]%N, (JBool false))]))]))])].
Proof. vm_compute. repeat split; reflexivity. Qed.

(* f:{-1 TO "a b"]^3 — -x and phrase bounds; boost
   cfg_k -> {'range': {'f': {'analyzer': 'std', 'boost': 3.0, 'analyze_wildcard': False, 'lte': '"a b"', 'gt': '-1'}}} *)
Definition t_range_bounds : item := (SearchField (mkMeta (Some (0)%Z) (Some (17)%Z) [] [] None) [102]%N (Boost (mkMeta (Some (2)%Z) (Some (15)%Z) [] [] None) (Range (mkMeta (Some (2)%Z) (Some (13)%Z) [] [] None) (Unary KProhibit (mkMeta (Some (3)%Z) (Some (3)%Z) [] [] None) (Term KWord (mkMeta (Some (4)%Z) (Some (1)%Z) [] [32]%N None) [49]%N)) (Term KPhrase (mkMeta (Some (9)%Z) (Some (5)%Z) [32]%N [] None) [34;97;32;98;34]%N) false true) (mkDec false 3%N (0)%Z) false)).
Definition j_range_bounds : json := (JObj [([114;97;110;103;101]%N, (JObj [([102]%N, (JObj [([97;110;97;108;121;122;101;114]%N, (JStr [115;116;100]%N)); ([98;111;111;115;116]%N, (JNum (mkDec false 3%N (0)%Z))); ([97;110;97;108;121;122;101;95;119;105;108;100;99;97;114;100]%N, (JBool false)); ([108;116;101]%N, (JStr [34;97;32;98;34]%N)); ([103;116]%N, (JStr [45;49]%N))]))]))]).
Example C06k_row_range_bounds :
  terms_in_table cfg_k t_range_bounds = true /\ build cfg_k t_range_bounds = ROk j_range_bounds /\
  table_clauses cfg_k t_range_bounds = leaves j_range_bounds /\
  leaves j_range_bounds = [(JObj [([114;97;110;103;101]%N, (JObj [([102]%N, (JObj [([97;110;97;108;121;122;101;114]%N, (JStr [115;116;100]%N)); ([98;111;111;115;116]%N, (JNum (mkDec false 3%N (0)%Z))); ([97;110;97;108;121;122;101;95;119;105;108;100;99;97;114;100]%N, (JBool false)); ([108;116;101]%N, (JStr [34;97;32;98;34]%N)); ([103;116]%N, (JStr [45;49]%N))]))]))])].
Proof. vm_compute. repeat split; reflexivity. Qed.


(* the guards of the tree theorems on a tree with several rows at once *)
Example C06k_leaves_nonvacuous :
  supported t_match_conj = true /\ wf_config cfg_k = true /\ options_not_reserved cfg_k = true /\
  modifier_over_nested cfg_k t_match_conj = false /\ texts_plain t_match_conj = true /\
  terms_in_table cfg_k t_match_conj = true /\
  exists j, build cfg_k t_match_conj = ROk j /\ length (leaves j) = 2 /\ length (table_clauses cfg_k t_match_conj) = 2.
Proof. repeat split; try (vm_compute; reflexivity). eexists. repeat split; vm_compute; reflexivity. Qed.

Print Assumptions C06_kind_table.
Print Assumptions C06_kind_table_items.
Print Assumptions C06_wildcard_reading.
Print Assumptions C06_text_normalisation.
Print Assumptions C06_kind_table_unguarded_refuted.
Print Assumptions C06_merge_semantics.
Print Assumptions C06_domain_covers.
Print Assumptions C06_leaves_by_table.
Print Assumptions C06_leaves_by_table_plain.
Print Assumptions C06_eleaves_by_table.
Print Assumptions C06_leaves_by_table_guard_needed.
