"""C06 — each query term becomes exactly one ES clause: right field, value, kind, name; plain JSON; identical on
every call of the same or of a fresh builder.

Correspondence: the whole builder against `EsBuild.build` on sessions of calls (es_common.run_sessions): one
builder instance translating 1-10 trees in a row, a fresh instance for each tree, the first tree again at the end.
Oracle (independent of the model AND of the builder, written from the documented table): the multiset of leaf
clauses of the implementation's JSON equals the clauses predicted from the tree; the JSON is plain data; the three
results (used instance / fresh instance / repeated call) are equal.  A ~ / ^ is expected on the single leaf below
it (through parentheses and field wrappers) whether or not a field in between gets a nested clause; the builder
drops it in that case: known finding F22, recognised by `modifier_over_nested` (the Python mirror of
EsSpec.modifier_over_nested; the two are compared on every generated case).
The clause KIND TABLE (coq/model/EsKindTable.v, written from the documentation; coq/props/C06k.v proves that the
model's rendering of one leaf IS that table) is additionally evaluated against the implementation's leaf clauses on
every judged case (chk4).  Second known finding F27: luqum finds wildcards with a regular expression that reads an
escaped * / ? after an escaped backslash (x, three backslashes, *) as a wildcard; recognised by `escaped_wildcard_misread`.
"""
import json
import re

import lib
import gentree
import es_common as E
from runner import CorrResult  # noqa: F401


def has_wildcard(v):
    """an unescaped * or ?"""
    i = 0
    while i < len(v):
        if v[i] == "\\":
            i += 2
        elif v[i] in "*?":
            return True
        else:
            i += 1
    return False


# the pattern of luqum.tree.Term.WILDCARDS_PATTERN, COPIED (the recogniser of a finding reads the input only)
WILDCARDS_PATTERN_COPY = re.compile(r"((?<=[^\\])[?*]|\\\\[?*]|^[?*])")


def misread(v):
    """the pattern finds a wildcard where there is no unescaped * or ? (an odd run of >= 3 backslashes before it)"""
    return bool(WILDCARDS_PATTERN_COPY.search(v)) != has_wildcard(v)


def get_name(n):
    return getattr(n, "_luqum_name", None)


class Expect:
    """the leaf clauses the property predicts, computed on the tree"""

    def __init__(self, T, cfg):
        self.T, self.cfg = T, cfg
        self.na = cfg.get("not_analyzed_fields") or []
        self.default_field = cfg.get("default_field", "text")
        self.options = cfg.get("field_options") or {}
        self.must_default = cfg.get("default_operator", "should") != "should"
        nested = E.declared_paths(cfg.get("nested_fields"), True)
        self.nested_parents = set(E.head(p) for p in nested)

    def conj(self, n):
        T = self.T
        return isinstance(n, (T.AndOperation, T.Plus)) or (isinstance(n, T.UnknownOperation) and self.must_default)

    def nested_path(self, prefix, names):
        for k in range(len(names), 0, -1):
            c = ".".join(prefix + names[:k])
            if c in self.nested_parents:
                return c
        return None

    def clause(self, spec):
        f = ".".join(spec["fields"])
        name = spec["name"]
        if spec["kind"] == "word" and spec["q"] == "*":
            d = {"field": f}
            if name is not None:
                d["_name"] = name
            return {"exists": d}
        opts = dict(self.options.get(f, {}))
        mt = opts.pop("match_type", None)
        ty = opts.get("type")
        if not mt:
            opts.pop("type", None)
        analyzed = f not in self.na
        inner = opts
        if spec.get("boost") is not None:
            inner["boost"] = spec["boost"]
        if spec.get("fuzziness") is not None:
            inner["fuzziness"] = spec["fuzziness"]
        if name is not None:
            inner["_name"] = name
        if spec["kind"] == "range":
            method = "fuzzy" if spec.get("fuzziness") is not None else "range"
            inner.update(spec["bounds"])
            return {method: {f: inner}}
        wild = spec["kind"] == "word" and has_wildcard(spec["q"])
        if wild and not analyzed:
            method = "wildcard"
        elif wild:
            method = "query_string"
        elif spec.get("fuzziness") is not None:
            method = "fuzzy"
        elif analyzed and spec["method"].startswith("match"):
            method = mt if mt is not None or "match_type" in self.options.get(f, {}) else \
                (ty if "type" in self.options.get(f, {}) else spec["method"])
        else:
            method = spec["method"]
        if "match" in method:
            inner["query"] = spec["q"]
            if method == "match":
                inner["zero_terms_query"] = spec["ztq"]
        elif method == "query_string":
            inner["query"] = spec["q"]
            inner["default_field"] = f
            inner.setdefault("analyze_wildcard", True)
            inner.setdefault("allow_leading_wildcard", True)
        else:
            inner["value"] = spec["q"]
        if spec.get("slop") is not None and spec["kind"] == "phrase":
            inner["slop"] = spec["slop"]
        if method in ("query_string", "multi_match"):
            return {method: inner}
        return {method: {f: inner}}

    def go(self, n, prefix, analyzed, name):
        """-> ("leaf", spec): one clause that is a DIRECT item of the enclosing bool clause;
        ("wrapped", spec): one clause inside a nested clause (a ~ / ^ above still applies to it, the
        zero_terms_query of an enclosing conjunction does not: it is an item of the nested clause);
        ("other", [spec...]).  name = name of the nearest named enclosing element"""
        T = self.T
        own = get_name(n)
        here = own if own is not None else name          # the element's own name, else inherited
        down = own if own else name                      # what the children inherit
        fields = prefix if prefix is not None else [self.default_field]
        if analyzed is None:
            analyzed = self.default_field not in self.na
        if type(n) is T.Word:
            method = ("match_phrase" if self.cfg.get("match_word_as_phrase") else "match") if analyzed else "term"
            return ("leaf", {"kind": "word", "method": method, "fields": fields, "q": n.value, "name": here,
                             "ztq": "none"})
        if type(n) is T.Phrase:
            if analyzed:
                q = re.sub(r"\s+", " ", n.value)[1:-1]
                return ("leaf", {"kind": "phrase", "method": "match_phrase", "fields": fields, "q": q,
                                 "name": here, "ztq": "none"})
            return ("leaf", {"kind": "word", "method": "term", "fields": fields, "q": n.value[1:-1],
                             "name": here, "ztq": "none"})
        if type(n) is T.Range:
            def text(b):      # a bound under `-` is the negative value
                return "-" + b.a.value if type(b) is T.Prohibit else b.value
            bounds = {}
            if text(n.high) and text(n.high) != "*":
                bounds["lte" if n.include_high else "lt"] = text(n.high)
            if text(n.low) and text(n.low) != "*":
                bounds["gte" if n.include_low else "gt"] = text(n.low)
            return ("leaf", {"kind": "range", "fields": fields, "bounds": bounds, "name": here, "ztq": "none"})
        if type(n) in (T.Group, T.FieldGroup):
            return self.go(n.expr, prefix, analyzed, down)
        if type(n) is T.SearchField:
            names = n.name.split(".")
            p2 = (prefix or []) + names
            r = self.go(n.expr, p2, ".".join(p2) not in self.na, down)
            if self.nested_path(prefix or [], names) is not None and r[0] == "leaf":
                return ("wrapped", r[1])          # wrapped in a nested clause
            return r
        if type(n) in (T.Boost, T.Fuzzy, T.Proximity):
            r = self.go(n.children[0], prefix, analyzed, down)
            if r[0] in ("leaf", "wrapped"):      # the single clause below, nested or not
                s = r[1]
                if type(n) is T.Boost:
                    s["boost"] = float(n.force)
                elif type(n) is T.Fuzzy or not analyzed:
                    s["fuzziness"] = float(n.degree)
                else:
                    s["slop"] = float(n.degree)
            return r
        out = []
        for c in n.children:
            r = self.go(c, prefix, analyzed, down)
            if r[0] == "leaf":
                if self.conj(n):
                    r[1]["ztq"] = "all"
                out.append(r[1])
            elif r[0] == "wrapped":
                out.append(r[1])
            else:
                out += r[1]
        return ("other", out)

    def clauses(self, tree):
        r = self.go(tree, None, None, None)
        specs = [r[1]] if r[0] in ("leaf", "wrapped") else r[1]
        return [self.clause(s) for s in specs]


def json_leaves(j):
    """the leaf clauses of a bool / nested query"""
    (k, v), = j.items()
    if k == "bool":
        out = []
        for lst in v.values():
            for x in lst:
                out += json_leaves(x)
        return out
    if k == "nested":
        return json_leaves(v["query"])
    return [j]


def canon(j):
    # a value that is not plain JSON data (reported by the oracle as such) must not stop the other comparisons
    return json.dumps(j, sort_keys=True, default=lambda o: "<%s %r>" % (type(o).__name__, o))


def named_same_class_operand(T, tree):
    """a named element of the same class as the operation (or +) it is an operand of — the shape on which the
    builder used to lose the name (F16, repaired: simplify_if_same now keeps such an operand).  Only MEASURED
    (distribution); it classifies nothing: every oracle failure is a violation."""
    for _, n in gentree.all_nodes(tree):
        if isinstance(n, (T.BaseOperation, T.Plus)):
            for c in n.children:
                if type(c) is type(n) and get_name(c):
                    return True
    return False


def f16_regression_corpus(T, parser, set_name):
    """the former witnesses of F16 and their neighbours: the name of an operation (or +) nested directly in an
    operation of the same class must reach its elements"""
    def named(n, name):
        set_name(n, name)
        return n
    W = T.Word
    t16 = parser.parse("+ +a")
    set_name(t16.a, "x")
    t16b = T.AndOperation(named(T.AndOperation(W("a"), W("b")), "x"), W("c"))
    out = [t16, t16b,
           T.OrOperation(W("c"), named(T.OrOperation(W("a"), W("b")), "x")),
           T.UnknownOperation(named(T.UnknownOperation(W("a"), W("b")), "x"), W("c")),
           T.BoolOperation(named(T.BoolOperation(W("a"), W("b")), "x"), W("c")),
           # two levels, different names: the nearest one wins
           named(T.AndOperation(named(T.AndOperation(named(T.AndOperation(W("a"), W("b")), "z"), W("c")), "y"),
                                W("d")), "x"),
           # a named operand between two un-named ones of the same class (those are still flattened)
           T.AndOperation(T.AndOperation(W("a"), W("b")), named(T.AndOperation(W("c"), W("d")), "x"),
                          T.AndOperation(W("e"), named(W("f"), "w"))),
           # un-named inner operation below a named one of the same class, and the converse
           named(T.OrOperation(T.OrOperation(W("a"), W("b")), W("c")), "x"),
           # '' is a name for `is None` but is not propagated
           T.AndOperation(named(T.AndOperation(W("a"), W("b")), ""), W("c")),
           T.Plus(named(T.Plus(named(T.Plus(W("a")), "y")), "x")),
           # under a field / group, with a nested field
           T.SearchField("f", T.FieldGroup(T.OrOperation(
               named(T.OrOperation(T.SearchField("g", W("a")), T.SearchField("g", T.Phrase('"b c"'))), "x"),
               T.SearchField("g", W("d"))))),
           ]
    for q in ["a AND b AND c", "a OR b OR c", "a b c", "+ + +a"]:
        t = parser.parse(q)
        # the parser nests or flattens as it likes: name every operation / + below the root
        for i, (_, n) in enumerate(gentree.all_nodes(t)):
            if i and isinstance(n, (T.BaseOperation, T.Plus)):
                set_name(n, "n%d" % i)
        out.append(t)
    return out


def nested_parents(cfg):
    """the parents of the declared nested paths (read from the declaration, not from the builder)"""
    return set(E.head(p) for p in E.declared_paths(cfg.get("nested_fields"), True))


def crosses_nested(parents, pre, names):
    """EsSpec.crosses_nested: pre + (a non-empty initial part of names) is the parent of a declared nested path"""
    return any(".".join(pre + names[:k + 1]) in parents for k in range(len(names)))


def single_leaf(T, n):
    """EsSpec.single_leaf: ONE word / phrase / range under parentheses, field wrappers and modifiers"""
    if type(n) in (T.Word, T.Phrase, T.Range):
        return True
    if type(n) in (T.SearchField, T.Group, T.FieldGroup, T.Boost, T.Fuzzy, T.Proximity):
        return single_leaf(T, n.children[0])
    return False


def chain_crosses(T, parents, pre, n):
    """EsSpec.chain_crosses: on the way down to the single leaf some search field crosses a nested boundary"""
    if type(n) is T.SearchField:
        names = n.name.split(".")
        return crosses_nested(parents, pre, names) or chain_crosses(T, parents, pre + names, n.children[0])
    if type(n) in (T.Group, T.FieldGroup, T.Boost, T.Fuzzy, T.Proximity):
        return chain_crosses(T, parents, pre, n.children[0])
    return False


def modifier_over_nested(T, cfg, tree):
    """Known finding F22 (executable mirror of EsSpec.modifier_over_nested): somewhere in the tree a ^ / ~ (Boost,
    Fuzzy, Proximity) stands above a single leaf from which it is separated by a search field that crosses a
    nested boundary: `(a.b:x)^2`, `(a:(b:x))^2` with a.b nested — not `a.b:x^2`, `a:(b:x)^2`, `a:((b:x)^2)`."""
    parents = nested_parents(cfg)

    def at(pre, n):
        k = type(n)
        if k is T.SearchField:
            return at(pre + n.name.split("."), n.children[0])
        if k in (T.Boost, T.Fuzzy, T.Proximity):
            c = n.children[0]
            return (single_leaf(T, c) and chain_crosses(T, parents, pre, c)) or at(pre, c)
        if k is T.Range or isinstance(n, T.Term) or not n.children:
            return False
        return any(at(pre, c) for c in n.children)
    return at([], tree)


F22_CONFIG = {"nested_fields": {"a": ["b"]}}
F22_CONFIG_DEEP = {"nested_fields": {"a": {"b": ["c"]}}, "default_operator": "must"}


def f22_corpus(T, parser):
    """the witnesses of F22 and their neighbours (which spellings lose the modifier, which keep it), replayed on
    the real code; (configuration, trees)"""
    W, P, SF, G, FG = T.Word, T.Phrase, T.SearchField, T.Group, T.FieldGroup
    lost = ['(a.b:x)^2', '(a:(b:x))^2', '(a.b:(x))^2', '((a.b:x)^2)', '((a.b:x)^2)^3', '(a.b:[1 TO 2])^2',
            '(a.b:x~1)^2', '(a.b:"x y"~2)^3', '(a.b:x)^2 AND c:y', 'NOT (a.b:x)^2', 'c:y OR (a:(b:"p q"))^0.5']
    kept = ['a.b:x^2', '(c:x)^2', '((c:x))^2', 'a:(b:x)^2', 'a:((b:x)^2)', 'a:(b:x^2)', 'a:(b:(x)^2)', 'a.b:(x)^2',
            'a.b:(x^2)', 'a.b:[1 TO 2]^2', 'a.b:"x y"~2^3', '(a.b:x^2)', '(a.b:x c:y)^2']
    hand = [T.Fuzzy(SF("a.b", W("x")), 1), T.Fuzzy(G(SF("a.b", W("x"))), 2),
            T.Proximity(G(SF("a.b", P('"x y"'))), 1), T.Proximity(SF("a", FG(SF("b", P('"x y"')))), 3),
            T.Fuzzy(G(SF("c", W("x"))), 1), SF("a", FG(T.Fuzzy(G(SF("b", W("x"))), 1))),
            T.Boost(G(SF("a.b", T.Boost(W("x"), 2))), 2)]        # the dropped ^2 repeats the leaf's own: nothing lost
    deep_lost = ['a:(b.c:x)^2', 'a:((b.c:x)^2)', '(a.b.c:x)^2', 'a:(b:(c:x))^2']
    deep_kept = ['a:(b:(c:x)^2)', 'a.b:(c:x)^2', 'a:(b:((c:x)^2))', 'a.b.c:x^2']
    return [(F22_CONFIG, [parser.parse(q) for q in lost + kept] + hand),
            (F22_CONFIG_DEEP, [parser.parse(q) for q in deep_lost + deep_kept]),
            ({}, [parser.parse(q) for q in lost[:4] + kept[:4]])]


def escaped_wildcard_misread(T, cfg, tree):
    """Known finding F27 (reads the input only; `tree` must be grammar_like): some word — or phrase on a
    not-analysed field, whose text between the quotes the builder treats as a word — in which luqum's wildcard
    pattern finds a wildcard although every * and ? is escaped: an odd run of >= 3 backslashes before it, as in
    x\\\\\\* (x, an escaped backslash, an escaped *).  The Coq guard terms_in_table (no run of three backslashes
    in such a text) is false on every such input; the two are compared on every judged case."""
    r = Expect(T, cfg).go(tree, None, None, None)
    specs = [r[1]] if r[0] in ("leaf", "wrapped") else r[1]
    return any(s["kind"] == "word" and misread(s["q"]) for s in specs)


def has_backslash_run(T, cfg, tree):
    """some word-like term (word, or phrase on a not-analysed field) has a run of three backslashes"""
    r = Expect(T, cfg).go(tree, None, None, None)
    specs = [r[1]] if r[0] in ("leaf", "wrapped") else r[1]
    return any(s["kind"] == "word" and "\\" * 3 in s["q"] for s in specs)


F27_CONFIG = {"not_analyzed_fields": ["n"], "field_options": {"f": {"analyzer": "std", "analyze_wildcard": False},
                                                              "n": {"boost": 2}}}


def f27_corpus(parser):
    """the witnesses of F27 and their neighbours; (configuration, trees)"""
    b = "\\"
    misread_q = ["f:x" + b * 3 + "*", "x" + b * 3 + "?", "n:y" + b * 5 + "*", 'n:"a' + b * 3 + '*"', "f:" + b * 3 + "*^2",
                 "f:x" + b * 3 + "* AND n:z"]
    fine_q = ["f:x" + b + "*", "f:x" + b * 2 + "*", "f:x" + b * 4 + "*", "n:x" + b * 2 + "?", "f:a*" + b * 3 + "*",
              'f:"a' + b * 3 + '*"', "f:x" + b * 3 + "y", "n:" + b + "*"]
    return [(F27_CONFIG, [parser.parse(q) for q in misread_q + fine_q])]


def grammar_like(T, t):
    """E.supported(strict=True), except that a ~ may also stand above parentheses / field wrappers around its word
    (Fuzzy) or phrase (Proximity): the hand-built shapes of F22 (observation F19 of C05) are judged too"""
    def chain(n, leaf):
        while type(n) in (T.Group, T.FieldGroup, T.SearchField):
            n = n.children[0]
        return type(n) is leaf
    k = type(t)
    if k in (T.Word, T.Phrase):
        return True
    if k in (T.SearchField, T.Group, T.FieldGroup, T.Boost, T.Plus, T.Not, T.Prohibit):
        return grammar_like(T, t.children[0])
    if k is T.Fuzzy:
        return chain(t.term, T.Word)
    if k is T.Proximity:
        return chain(t.term, T.Phrase)
    if k is T.Range:
        return E.supported(T, t, strict=True)
    if k in (T.AndOperation, T.OrOperation, T.UnknownOperation, T.BoolOperation):
        return len(t.children) >= 2 and all(grammar_like(T, c) for c in t.children)
    return False


def judged(T, cfg, tree):
    if not grammar_like(T, tree):
        return False
    for _, n in gentree.all_nodes(tree):
        if isinstance(n, T.Boost) and not n.force == n.force:
            return False
    for o in (cfg.get("field_options") or {}).values():
        for k in ("match_type", "type"):
            if k in o and not isinstance(o[k], str):
                return False
    return True


def correspond(model_ok, res):
    import luqum.tree as T
    from luqum.parser import parser
    from luqum.naming import set_name
    r = lib.rng("C06")
    n = 70 if lib.tier() == "quick" else 700
    f16 = f16_regression_corpus(T, parser, set_name)
    hist = [parser.parse(q) for q in ['"a b"~2', 'f:[1 TO 5]', 'x', '"c d"', 'f:{2 TO *]', '"e f"~3', 'y AND "g h"',
                                      'f:[* TO 3}', 'z OR "i j"~1', 'x']]
    f22 = [(c, ts, "F22-witnesses") for c, ts in f22_corpus(T, parser)]
    f27 = [(c, ts, "F27-witnesses") for c, ts in f27_corpus(parser)]
    sessions = f22 + f27 + [({}, f16[:10], "F16-regression"), ({"default_operator": "must"}, f16[10:] + f16[:2], "F16-regression"),
                ({"nested_fields": {"f": ["g"]}, "not_analyzed_fields": ["f.g"]}, f16[5:], "F16-regression"),
                ({}, hist, "history"),
                ({"not_analyzed_fields": ["text", "f"]}, hist, "history")] + E.builder_sessions(r, T, n)
    # texts with escaped quotes / backslashes / specials at their ends; homonymous fields under different
    # parents with different analysed-ness, one builder reused in both orders
    sessions += E.escaped_sessions(r, T, n // 4) + E.homonym_sessions(r, T, n // 2)
    stats = {"judged": 0, "leaf_clauses": 0, "named_same_class_operand": 0, "kinds": {}, "spec_cases": 0,
             "modifier_over_nested": 0, "modifier_over_nested_judged": 0, "F22_oracle_failures": 0,
             "F22_spec_failures": 0, "modifier_over_nested_but_clauses_as_expected": 0, "predicate_cases": 0,
             "escaped_wildcard_misread_judged": 0, "F27_oracle_failures": 0,
             "table_cases": 0, "table_cases_in_domain": 0}
    spec_cases, spec_payloads, spec_f22, spec_f27 = [], [], [], []
    pred_cases, pred_payloads = [], []

    def oracle(cfg, tree, outcome, info):
        out = []
        payload = {"config": repr(cfg), "tree": info["desc"], "observed": repr(outcome)[:400],
                   "query": str(tree)[:400],
                   # the calls the same builder instance made before this one (replayable history)
                   "earlier_calls_on_this_builder": [str(t)[:300] for t in sessions[info["session"]][1][:info["call"]]]}
        # F22's recogniser, evaluated on EVERY generated case and compared with the Coq predicate below
        in_f22 = modifier_over_nested(T, cfg, tree)
        stats["modifier_over_nested"] += in_f22
        try:
            pred_cases.append("(%s, %s, %s)" % (E.g_config(cfg), lib.g_item(tree), lib.g_bool(in_f22)))
            pred_payloads.append(payload)
        except lib.Unmodelled:
            pass
        # identical on every call of the same or of a fresh builder
        if outcome != info["fresh"]:
            out.append((dict(payload, why="used and fresh builder differ", fresh=repr(info["fresh"])[:400]), None))
        if info["again"] is not None and info["again"][0] != info["again"][1]:
            out.append((dict(payload, why="same tree translated differently later by the same builder"), None))
        if outcome[0] != "ok":
            return out
        if not E.is_plain_json(outcome[1]):
            out.append((dict(payload, why="result is not plain JSON data"), None))
        if not judged(T, cfg, tree):
            return out
        stats["judged"] += 1
        stats["modifier_over_nested_judged"] += in_f22
        in_f27 = escaped_wildcard_misread(T, cfg, tree)
        stats["escaped_wildcard_misread_judged"] += in_f27
        want = sorted(canon(c) for c in Expect(T, cfg).clauses(tree))
        got = sorted(canon(c) for c in json_leaves(outcome[1]))
        stats["leaf_clauses"] += len(got)
        for c in json_leaves(outcome[1]):
            k = next(iter(c))
            stats["kinds"][k] = stats["kinds"].get(k, 0) + 1
        if named_same_class_operand(T, tree):
            stats["named_same_class_operand"] += 1
        # the Coq specification EsSpec.expected_clauses against the implementation's leaf clauses (every judged
        # tree: there is no excluded class any more)
        try:
            spec_cases.append("(%s, %s, %s)" % (
                E.g_config(cfg), lib.g_item(tree),
                lib.g_list([E.g_json(c, E.decimals_of(T, tree)) for c in json_leaves(outcome[1])])))
            spec_payloads.append(payload)
            spec_f22.append(in_f22)
            spec_f27.append(in_f27)
            # measured only: the tree is inside the domain of the table theorem (no word-like text with a run of
            # three backslashes); Coq decides with EsKindTable.terms_in_table
            stats["table_cases_in_domain"] += not has_backslash_run(T, cfg, tree)
        except lib.Unmodelled:
            pass
        if want != got:
            # the known findings of C06: a ~ / ^ above a field that gets a nested clause (F22), an escaped wildcard
            # read as a wildcard (F27); every other failure of the oracle is a violation
            fid = "F22" if in_f22 else ("F27" if in_f27 else None)
            stats["F22_oracle_failures"] += in_f22
            stats["F27_oracle_failures"] += (in_f27 and not in_f22)
            out.append((dict(payload, why="leaf clauses differ from the predicted ones",
                             expected=want[:20], got=got[:20]), fid))
        elif in_f22:
            stats["modifier_over_nested_but_clauses_as_expected"] += 1
        return out

    E.run_sessions("C06", res, model_ok, sessions, T, oracle)
    if model_ok and spec_cases and not res.model_error:
        defs = """Fixpoint remove_one (x : json) (l : list json) : option (list json) :=
  match l with
  | [] => None
  | y :: l' => if json_ceqb x y && json_ceqb y x then Some l' else option_map (cons y) (remove_one x l')
  end.
Fixpoint mseq (a b : list json) : bool :=
  match a with
  | [] => match b with [] => true | _ => false end
  | x :: a' => match remove_one x b with Some b' => mseq a' b' | None => false end
  end.
Definition chk2 (c : es_config * item * list json) : bool :=
  let '(cfg, t, ls) := c in mseq (expected_clauses cfg t) ls."""
        try:
            bad = lib.eval_cases("C06s", E.IMPORTS + " EsSpec", defs, spec_cases, "chk2", shard=40)
        except Exception as e:  # noqa
            res.model_error = str(e)[-3000:]
            bad = []
        for i in bad:
            if spec_f22[i]:
                # the Coq specification is violated by the implementation on an input of F22's class
                stats["F22_spec_failures"] += 1
                res.failures.append((dict(spec_payloads[i], why="EsSpec.expected_clauses differs from the "
                                          "implementation's leaf clauses (modifier above a nested field)"), "F22"))
            else:
                res.disagreements.append(dict(spec_payloads[i], why="EsSpec.expected_clauses differs from the "
                                              "implementation's leaf clauses"))
        stats["spec_cases"] = len(spec_cases)
        res.cases += len(spec_cases)
    if model_ok and spec_cases and not res.model_error:
        # the documented kind table (EsKindTable.table_clauses) against the implementation's leaf clauses, on every
        # judged tree inside the domain of the table theorem; and: the recogniser of F27 implies that the tree is
        # outside that domain (+ a canary: a corrupted clause list must be reported)
        defs4 = defs + """
Definition chk4 (c : es_config * item * list json * bool) : bool :=
  let '(cfg, t, ls, misread) := c in
  (negb misread || negb (terms_in_table cfg t)) &&
  (negb (terms_in_table cfg t) || mseq (table_clauses cfg t) ls).
Definition in_domain (c : es_config * item * list json * bool) : bool :=
  let '(cfg, t, _, _) := c in terms_in_table cfg t."""
        cases4 = ["(%s, %s)" % (c[1:-1], lib.g_bool(m)) for c, m in zip(spec_cases, spec_f27)]
        wrong = E.g_json({"term": {"text": {"value": "x"}}})
        canary4 = "(%s, %s, [%s], false)" % (E.g_config({}), lib.g_item(parser.parse("x")), wrong)
        try:
            bad4 = lib.eval_cases("C06t", E.IMPORTS + " EsSpec EsKindTable", defs4, cases4 + [canary4], "chk4", shard=40)
        except Exception as e:  # noqa
            res.model_error = str(e)[-3000:]
            bad4 = [len(cases4)]
        if len(cases4) not in bad4:
            res.model_error = "canary of the kind-table comparison not reported: the comparison is vacuous"
        for i in bad4:
            if i >= len(cases4):
                continue
            if spec_f22[i]:
                res.failures.append((dict(spec_payloads[i], why="EsKindTable.table_clauses differs from the "
                                          "implementation's leaf clauses (modifier above a nested field)"), "F22"))
            else:
                res.disagreements.append(dict(spec_payloads[i], why="EsKindTable.table_clauses differs from the "
                                              "implementation's leaf clauses inside the table's domain, or the "
                                              "recogniser of F27 accepts a tree inside that domain"))
        stats["table_cases"] = len(cases4)
        res.cases += len(cases4)
    if model_ok and pred_cases and not res.model_error:
        # the Python recogniser of F22 == EsSpec.modifier_over_nested on every generated case (+ a canary: a
        # deliberately wrong verdict on the witness must be reported)
        defs3 = """Definition chk3 (c : es_config * item * bool) : bool :=
  let '(cfg, t, b) := c in Bool.eqb (modifier_over_nested cfg t) b."""
        canary = "(%s, %s, false)" % (E.g_config(F22_CONFIG), lib.g_item(parser.parse("(a.b:x)^2")))
        try:
            bad3 = lib.eval_cases("C06p", E.IMPORTS + " EsSpec", defs3, pred_cases + [canary], "chk3", shard=60)
        except Exception as e:  # noqa
            res.model_error = str(e)[-3000:]
            bad3 = [len(pred_cases)]
        if len(pred_cases) not in bad3:
            res.model_error = "canary of the F22 predicate comparison not reported: the comparison is vacuous"
        for i in bad3:
            if i < len(pred_cases):
                res.disagreements.append(dict(pred_payloads[i], why="harness modifier_over_nested differs from "
                                              "EsSpec.modifier_over_nested"))
        stats["predicate_cases"] = len(pred_cases)
        res.cases += len(pred_cases)
    res.rule = ("sessions of 1-10 calls on one builder instance (each also on a fresh instance, first tree "
                "repeated at the end): the witnesses of F22 and their neighbours (a ^ / ~ above, between and below "
                "the field that gets a nested clause, parsed and hand-built, two nesting depths, and without any "
                "nested field); the regression corpus of the repaired F16 (named operations / + nested "
                "directly in an operation of their own class, at several depths, with '' as a name, under fields "
                "and groups, under three configurations); fixed histories interleaving phrases with slop, ranges of different "
                "shapes and words; parsed corpus x fixed configurations; random supported trees, supported trees "
                "with odd values and trees of every class x random configurations; phrases / words starting or "
                "ending with escaped quotes, backslashes and specials on analysed and not analysed fields; the "
                "same relative field name at top level and under object / nested parents with different "
                "analysed-ness and options, group and dotted spelling, one builder reused in both orders; "
                "non-trivial = distinct (configuration, tree) with more than one node")
    res.distribution["oracle"] = stats
    return res


SPEC = {
    "id": "C06",
    "targets": ["props/C06.vo"],
    "model_targets": ["model/EsBuild.vo", "model/EsSpec.vo"],
    "module": "C06",
    "theorems": ["C06_leaves_partial", "C06_eleaves_partial", "C06_leaves_refuted_F22", "C06_eleaves_refuted_F22",
                 "C06_modifier_guard_needed", "C06_leaf_names",
                 "C06_plain_json", "C06_calls_independent", "C06_class_defaults_untouched",
                 "C06_tie_e_consts_immutable", "C06_tie_builder_eclasses_standard", "C06_tie_methods_known",
                 "C06_tie_ztq"],
    # the clause kind table as a theorem (model/EsKindTable.v: written from the documentation; proofs/EsKindProofs.v)
    "more": [{"module": "C06k", "target": "props/C06k.vo",
              "theorems": ["C06_kind_table", "C06_kind_table_items", "C06_kind_table_unguarded_refuted",
                           "C06_wildcard_reading", "C06_text_normalisation", "C06_merge_semantics",
                           "C06_domain_covers", "C06_leaves_by_table", "C06_leaves_by_table_plain",
                           "C06_eleaves_by_table", "C06_leaves_by_table_guard_needed"]}],
    "correspond": correspond,
    "statement": "multiset of the leaf clauses of the generated query = clauses of the leaves expected from the "
                 "tree (field, value, kind, modifiers, options, zero_terms_query, _name), the expectation being "
                 "computed on the tree and the declared paths alone (a ~ / ^ applies to the single leaf below it "
                 "through parentheses and field wrappers): REFUTED without guard (C06_leaves_refuted_F22, "
                 "C06_eleaves_refuted_F22: `(a.b:x)^2` with a.b nested loses its boost), PROVED for every supported "
                 "tree under the executable guard modifier_over_nested cfg t = false (C06_leaves_partial; in "
                 "document order on the E-tree: C06_eleaves_partial; the guard is needed: "
                 "C06_modifier_guard_needed); the names alone against 'own name, else nearest named enclosing "
                 "element' in full (C06_leaf_names); every produced JSON is plain data (proved in full); results "
                 "independent of earlier calls (pure model + generated immutability facts + call-sequence "
                 "correspondence); the zero_terms_query constants are pinned by C06_tie_ztq.  "
                 "THE CLAUSE KIND TABLE IS A THEOREM (C06k.v): EsKindTable.spec_clause, a declarative table written from "
                 "the property text and luqum's documentation on DESCRIBED TERMS (the word / phrase / range as written, "
                 "its field, the ~ / ^ above it, 'direct item of a conjunction', its name) — word on a not-analysed "
                 "field -> term, with an unescaped * or ? -> wildcard / query_string, lone * -> exists, under ~ -> "
                 "fuzzy, analysed -> match (match_phrase with match_word_as_phrase) or the match_type / type option; "
                 "phrase -> match_phrase with the text between the quotes, blanks collapsed, slop from ~ (a word-like "
                 "term on a not-analysed field); range -> gte/gt/lte/lt by bracket kind, * unbounded; generated "
                 "parameters overwrite the options of the same name, the other options stay, except analyze_wildcard / "
                 "allow_leading_wildcard which the options override; zero_terms_query 'all' exactly for a direct "
                 "item of a conjunction — equals the model's rendering EsBuild.leaf_json of the E-item the builder makes "
                 "for the term, for every well-formed configuration and every term whose text has no run of three "
                 "backslashes (C06_kind_table); REFUTED without that guard (C06_kind_table_unguarded_refuted, F27: "
                 "the word x\\\\\\* — every wildcard escaped — becomes a query_string); C06_leaves_by_table: "
                 "C06_leaves_partial restated with the table (Permutation (leaves j) (map spec_clause (expected_terms "
                 "cfg t)), no function of the model in the conclusion); C06_domain_covers: the E-items of every tree "
                 "are those of its described terms; C06_wildcard_reading / C06_text_normalisation / "
                 "C06_merge_semantics: the table's own readings (escape-aware wildcard scan, s[1:-1], blank collapsing, "
                 "bound texts, overwrite / unless-given) against the model's",
    "trusted_base": [
        "Coq 8.16.1 kernel (vm_compute for witnesses and correspondence; no native_compute)",
        "no axioms (Print Assumptions: closed under the global context)",
        "gen/translate.py: class MROs, method tables of ElasticsearchQueryBuilder and CheckNestedFields, \\s class",
        "hand-written models coq/model/{Json,EsSpecs,EsCheck,EsBuild}.v tied by differential correspondence on "
        "every run, including call sequences on one builder instance and on fresh ones; class-level constants "
        "of luqum/elasticsearch/tree.py come from the generated coq/gen/GenEs.v (tie facts "
        "gen_e_consts_immutable, gen_builder_eclasses_standard)",
        "the rendering of one leaf to its clause: EsBuild.leaf_json is PROVED equal to the declarative table "
        "EsKindTable.spec_clause (C06k.v); what stays trusted is that the table says what the documentation says "
        "(read coq/model/EsKindTable.v: header table and ~150 lines of definitions) and the tie of the model to the "
        "code: the differential correspondence, the independent Python oracle of harness/c06.py, and the direct "
        "evaluation of the table against the implementation's leaf clauses on every judged case (chk4); the JSON "
        "literals of the row Examples of C06k.v were produced by the real builder",
    ],
    "assumptions": [
        "supported trees: the listed constructs, operations with >= 2 operands, range bounds word / phrase "
        "possibly under -; the Python oracle judges grammar shapes (fuzzy on a word, proximity on a phrase)",
        "no match_type / type field option is 'bool' or 'nested' (options_not_reserved)",
        "floats are not modelled: boost / fuzziness / slop are compared as the exact decimals handed to float()",
        "kind table: proved for texts without a run of three backslashes (terms_in_table / texts_plain); outside, "
        "luqum's wildcard pattern can read an escaped * or ? as a wildcard (F27); rows the documentation leaves "
        "open are transcribed from the unchanged code and marked OBSERVED in EsKindTable.v: `f:*` renders only "
        "field and _name (options and ^ dropped), a phrase on a not-analysed field is a word-like term (so "
        "`n:\"x*\"` is a wildcard clause and `n:\"*\"` an exists clause), a wildcard wins over ~ (the wildcard / "
        "query_string clause then carries `fuzziness`), hand-built shapes (Fuzzy on a phrase or range, Proximity on a "
        "word) follow the setters",
        "history clause: the model is a pure function of (configuration, tree); what ties this to the code is the "
        "call-sequence correspondence and the (hard-coded) fact that the class-level defaults are tuples / str",
        "range bounds keep the bound's text as it is (a phrase bound keeps its quotes); a boost / fuzziness / "
        "proximity around something that is not a single leaf clause (an operation, a negation) is ignored by the "
        "builder (observations); around a single leaf it is expected on that leaf, nested or not (F22 when the "
        "builder drops it)",
        "a clause inside a nested clause is an item of the nested clause: the zero_terms_query 'all' of an "
        "enclosing conjunction is not expected on it (which fields get a nested clause is read from the declared "
        "paths: the parents of the declared nested paths)",
    ],
}
