(* NamingProofs.v — lemmas about TreeAutoNamer (model: Naming.v). *)
Require Import Base Decimal Tree GenTree GenVisitors GenNaming Visitor Naming TreeInd.
From Coq Require Import Lia.

(* ---------------------------------------------------------------- pos_letter *)

Lemma plf_some : forall l i c a, exists p, pos_letter_from i l c (Some a) = Some p /\ (p = a \/ i <= p).
Proof.
  induction l as [|x l IH]; intros i c a; simpl.
  - exists a. auto.
  - destruct (N.eqb x c).
    + destruct (IH (S i) c i) as [p [H1 H2]]. exists p. split; [exact H1|]. right. lia.
    + destruct (IH (S i) c a) as [p [H1 H2]]. exists p. split; [exact H1|]. destruct H2; [auto|right; lia].
Qed.

Lemma plf_ge : forall l i c acc q,
  nth_error l q = Some c -> exists p, pos_letter_from i l c acc = Some p /\ i + q <= p.
Proof.
  induction l as [|x l IH]; intros i c acc q Hq.
  - destruct q; discriminate.
  - destruct q as [|q]; simpl in *.
    + inversion Hq; subst. rewrite N.eqb_refl.
      destruct (plf_some l (S i) c i) as [p [H1 H2]]. exists p. split; [exact H1|]. lia.
    + destruct (IH (S i) c (if N.eqb x c then Some i else acc) q Hq) as [p [H1 H2]].
      exists p. split; [exact H1|]. lia.
Qed.

Lemma plf_bound : forall l i c acc p,
  pos_letter_from i l c acc = Some p -> acc = Some p \/ (i <= p < i + length l).
Proof.
  induction l as [|x l IH]; intros i c acc p H; simpl in *.
  - auto.
  - apply IH in H. destruct H as [H|H].
    + destruct (N.eqb x c); [inversion H; subst; right; lia | auto].
    + right. lia.
Qed.

Lemma pos_letter_lt letters c p : pos_letter letters c = Some p -> p < length letters.
Proof. unfold pos_letter. intros H. apply plf_bound in H. destruct H as [H|H]; [discriminate|lia]. Qed.

Lemma pos_letter_nth letters c q :
  nth_error letters q = Some c -> exists p, pos_letter letters c = Some p /\ q <= p.
Proof. intros H. destruct (plf_ge letters 0 c None q H) as [p [H1 H2]]. exists p. split; [exact H1|lia]. Qed.

(* ---------------------------------------------------------------- next_name *)

Section Names.
  Variable letters : str.
  Hypothesis letters_nonempty : letters <> [].

  Definition last_pos (nm : str) : option nat :=
    match rev nm with [] => None | c :: _ => pos_letter letters c end.

  Definition rk (nm : str) : nat :=
    length nm * S (length letters) + match last_pos nm with Some p => p | None => 0 end.

  Definition wf_state (st : option str) : Prop :=
    match st with None => True | Some nm => exists p, last_pos nm = Some p end.

  Lemma last_pos_snoc l c : last_pos (l ++ [c]) = pos_letter letters c.
  Proof. unfold last_pos. rewrite rev_app_distr. reflexivity. Qed.

  Lemma next_name_some nm nm' :
    next_name letters (Some nm) = Some nm' -> rk nm < rk nm' /\ wf_state (Some nm').
  Proof.
    unfold next_name. destruct (rev nm) as [|lastc rinit] eqn:Hrev; [discriminate|].
    assert (Hnm : nm = rev rinit ++ [lastc]).
    { rewrite <- (rev_involutive nm), Hrev. reflexivity. }
    destruct (pos_letter letters lastc) as [p|] eqn:Hp; [|discriminate].
    assert (Hlp : last_pos nm = Some p). { unfold last_pos. rewrite Hrev. exact Hp. }
    destruct (nth_error letters (S p)) as [c|] eqn:Hnth.
    - intros H; inversion H; subst nm'; clear H.
      destruct (pos_letter_nth _ _ _ Hnth) as [p' [Hp' Hle]].
      split.
      + unfold rk. rewrite Hlp, last_pos_snoc, Hp'. rewrite Hnm at 1.
        rewrite !app_length. simpl. lia.
      + simpl. exists p'. rewrite last_pos_snoc. exact Hp'.
    - destruct (hd_error letters) as [c0|] eqn:H0; [|discriminate].
      intros H; inversion H; subst nm'; clear H.
      assert (H0' : nth_error letters 0 = Some c0) by (destruct letters; [discriminate|exact H0]).
      destruct (pos_letter_nth _ _ _ H0') as [p0 [Hp0 _]].
      pose proof (pos_letter_lt _ _ _ Hp) as Hlt.
      split.
      + unfold rk. rewrite Hlp, last_pos_snoc, Hp0. rewrite app_length. simpl length in *. lia.
      + simpl. exists p0. rewrite last_pos_snoc. exact Hp0.
  Qed.

  Lemma next_name_total st :
    wf_state st -> exists nm, next_name letters st = Some nm /\ wf_state (Some nm).
  Proof.
    destruct st as [nm|]; intros Hwf.
    - destruct Hwf as [p Hp]. unfold last_pos in Hp.
      destruct (next_name letters (Some nm)) as [nm'|] eqn:Hn.
      + exists nm'. split; [reflexivity|]. apply (next_name_some _ _ Hn).
      + exfalso. unfold next_name in Hn. destruct (rev nm) as [|lastc rinit]; [discriminate|].
        rewrite Hp in Hn. destruct (nth_error letters (S p)); [discriminate|].
        destruct (hd_error letters) eqn:H0; [discriminate|].
        destruct letters; [congruence|discriminate].
    - simpl. destruct (hd_error letters) as [c0|] eqn:H0;
        [|destruct letters; [congruence|discriminate]].
      exists [c0]. split; [reflexivity|].
      assert (H0' : nth_error letters 0 = Some c0) by (destruct letters; [discriminate|exact H0]).
      destruct (pos_letter_nth _ _ _ H0') as [p0 [Hp0 _]].
      exists p0. unfold last_pos. simpl. exact Hp0.
  Qed.

  (* ---------------------------------------------------------------- gen_names *)

  Lemma gen_names_lt : forall n st l st',
    gen_names letters st n = Some (l, st') ->
    NoDup l /\ (forall nm0, st = Some nm0 -> forall x, In x l -> rk nm0 < rk x).
  Proof.
    induction n as [|n IH]; intros st l st' H; simpl in H.
    - inversion H; subst. split; [constructor|]. intros ? ? ? [].
    - destruct (next_name letters st) as [nm|] eqn:Hn; [|discriminate].
      destruct (gen_names letters (Some nm) n) as [[l1 st1]|] eqn:Hg; [|discriminate].
      inversion H; subst; clear H.
      destruct (IH _ _ _ Hg) as [Hnd Hlt].
      split.
      + constructor; [|exact Hnd]. intros Hin. specialize (Hlt nm eq_refl nm Hin). lia.
      + intros nm0 Hst x [Hx|Hx]; subst.
        * apply (next_name_some _ _ Hn).
        * pose proof (proj1 (next_name_some _ _ Hn)). specialize (Hlt nm eq_refl x Hx). lia.
  Qed.

  Lemma gen_names_length : forall n st l st', gen_names letters st n = Some (l, st') -> length l = n.
  Proof.
    induction n as [|n IH]; intros st l st' H; simpl in H.
    - inversion H; reflexivity.
    - destruct (next_name letters st) as [nm|]; [|discriminate].
      destruct (gen_names letters (Some nm) n) as [[l1 st1]|] eqn:Hg; [|discriminate].
      inversion H; subst. simpl. f_equal. eapply IH; eauto.
  Qed.

  Lemma gen_names_app : forall a b st,
    gen_names letters st (a + b) =
    match gen_names letters st a with
    | None => None
    | Some (l1, st1) =>
        match gen_names letters st1 b with
        | None => None
        | Some (l2, st2) => Some (l1 ++ l2, st2)
        end
    end.
  Proof.
    induction a as [|a IH]; intros b st; simpl.
    - destruct (gen_names letters st b) as [[l2 st2]|]; reflexivity.
    - destruct (next_name letters st) as [nm|]; [|reflexivity].
      rewrite IH. destruct (gen_names letters (Some nm) a) as [[l1 st1]|]; [|reflexivity].
      destruct (gen_names letters st1 b) as [[l2 st2]|]; reflexivity.
  Qed.

  Lemma gen_names_total : forall n st, wf_state st ->
    exists l st', gen_names letters st n = Some (l, st') /\ wf_state st'.
  Proof.
    induction n as [|n IH]; intros st Hwf; simpl.
    - eauto.
    - destruct (next_name_total st Hwf) as [nm [Hn Hwf']]. rewrite Hn.
      destruct (IH _ Hwf') as [l [st' [Hg Hw]]]. rewrite Hg. eauto.
  Qed.

  (* ---------------------------------------------------------------- an_go *)
  Variable handles : cls -> bool.

  Notation an_go := (an_go letters handles).
  Notation go_list := (go_list an_go).

  Lemma an_go_unfold t pre st :
    an_go t pre st =
    match pre_names letters handles t st with
    | None => None
    | Some (names, st1) =>
        match go_list names pre 0 (children t) st1 with
        | None => None
        | Some (cs', st2, mps) => Some (rebuild t cs', st2, entries pre names ++ mps)
        end
    end.
  Proof. destruct t; reflexivity. Qed.

  Lemma entries_fst pre names : map fst (entries pre names) = names.
  Proof.
    unfold entries, mapi. generalize 0. induction names as [|x l IH]; intros i; simpl; [reflexivity|].
    f_equal. apply IH.
  Qed.

  Lemma entries_length pre names : length (entries pre names) = length names.
  Proof. rewrite <- (entries_fst pre names) at 2. rewrite map_length. reflexivity. Qed.

  Lemma pre_names_spec t st names st1 :
    pre_names letters handles t st = Some (names, st1) ->
    gen_names letters st (length names) = Some (names, st1) /\
    (handles (cls_of t) = true -> length names = length (children t)) /\
    (handles (cls_of t) = false -> names = []).
  Proof.
    unfold pre_names. destruct (handles (cls_of t)).
    - intros H. pose proof (gen_names_length _ _ _ _ H) as Hl. rewrite Hl.
      repeat split; auto; discriminate.
    - intros H; inversion H; subst. simpl. repeat split; auto; discriminate.
  Qed.

  (* the names of the mapping are consecutive outputs of next_name *)
  Definition names_consecutive (t : item) : Prop :=
    forall pre st t' st' mp, an_go t pre st = Some (t', st', mp) ->
      gen_names letters st (length mp) = Some (map fst mp, st').

  Lemma go_list_consecutive names pre : forall l i st cs' st' mps,
    Forall names_consecutive l ->
    go_list names pre i l st = Some (cs', st', mps) ->
    gen_names letters st (length mps) = Some (map fst mps, st').
  Proof.
    induction l as [|c l IH]; intros i st cs' st' mps HF H; simpl in H.
    - inversion H; subst. reflexivity.
    - inversion HF as [|? ? Hc HFl]; subst.
      destruct (an_go c (pre ++ [i]) st) as [[[c' s'] mp]|] eqn:Hgo; [|discriminate].
      destruct (go_list names pre (S i) l s') as [[[cs1 s1] mps1]|] eqn:Hgl; [|discriminate].
      inversion H; subst; clear H.
      rewrite app_length, gen_names_app, (Hc _ _ _ _ _ Hgo), (IH _ _ _ _ _ HFl Hgl), map_app.
      reflexivity.
  Qed.

  Lemma an_go_consecutive : forall t, names_consecutive t.
  Proof.
    apply item_children_ind. intros t IH pre st t' st' mp H.
    rewrite an_go_unfold in H.
    destruct (pre_names letters handles t st) as [[names st1]|] eqn:Hpre; [|discriminate].
    destruct (go_list names pre 0 (children t) st1) as [[[cs' st2] mps]|] eqn:Hgl; [|discriminate].
    inversion H; subst; clear H.
    destruct (pre_names_spec _ _ _ _ Hpre) as [Hg _].
    rewrite app_length, entries_length, gen_names_app, Hg.
    rewrite (go_list_consecutive _ _ _ _ _ _ _ _ IH Hgl), map_app, entries_fst. reflexivity.
  Qed.

  Lemma an_go_nodup t pre st t' st' mp :
    an_go t pre st = Some (t', st', mp) -> NoDup (map fst mp).
  Proof. intros H. apply an_go_consecutive in H. apply gen_names_lt in H. apply H. Qed.

  (* ---- totality *)
  Definition total_at (t : item) : Prop :=
    forall pre st, wf_state st -> exists t' st' mp, an_go t pre st = Some (t', st', mp) /\ wf_state st'.

  Lemma go_list_total names pre : forall l i st,
    Forall total_at l -> wf_state st ->
    exists cs' st' mps, go_list names pre i l st = Some (cs', st', mps) /\ wf_state st'.
  Proof.
    induction l as [|c l IH]; intros i st HF Hwf; simpl.
    - eauto.
    - inversion HF as [|? ? Hc HFl]; subst.
      destruct (Hc (pre ++ [i]) st Hwf) as [c' [s' [mp [Hgo Hw]]]]. rewrite Hgo.
      destruct (IH (S i) s' HFl Hw) as [cs1 [s1 [mps1 [Hgl Hw1]]]]. rewrite Hgl. eauto.
  Qed.

  Lemma an_go_total : forall t, total_at t.
  Proof.
    apply item_children_ind. intros t IH pre st Hwf.
    rewrite an_go_unfold.
    assert (Hp : exists names st1, pre_names letters handles t st = Some (names, st1) /\ wf_state st1).
    { unfold pre_names. destruct (handles (cls_of t)); [apply gen_names_total; exact Hwf|eauto]. }
    destruct Hp as [names [st1 [Hpre Hw1]]]. rewrite Hpre.
    destruct (go_list_total names pre _ 0 st1 IH Hw1) as [cs' [st2 [mps [Hgl Hw2]]]].
    rewrite Hgl. eauto.
  Qed.

  (* ---- which paths are in the mapping *)

  (* q (relative to the node) designates a child of a node whose handler names its children *)
  Definition operand_path (t : item) (q : path) : Prop :=
    exists q0 i n, q = q0 ++ [i] /\ subtree_at t q0 = Some n /\ handles (cls_of n) = true
                   /\ i < length (children n).

  Definition paths_spec (t : item) : Prop :=
    forall pre st t' st' mp, an_go t pre st = Some (t', st', mp) ->
      forall p, In p (map snd mp) <-> exists q, p = pre ++ q /\ operand_path t q.

  Lemma entries_snd_in pre names p :
    In p (map snd (entries pre names)) <-> exists i, i < length names /\ p = pre ++ [i].
  Proof.
    unfold entries, mapi.
    assert (G : forall k, In p (map snd (mapi_from k (fun i nm => (nm, pre ++ [i])) names)) <->
                          exists i, k <= i < k + length names /\ p = pre ++ [i]).
    { induction names as [|x l IH]; intros k; simpl.
      - split; [intros []|intros [i [H _]]; lia].
      - rewrite IH. split.
        + intros [H|[i [H1 H2]]]; [exists k; split; [lia|auto]|exists i; split; [lia|auto]].
        + intros [i [H1 H2]]. destruct (Nat.eq_dec i k); [left; subst; reflexivity|right; exists i; split; [lia|auto]]. }
    rewrite G. split; intros [i [H1 H2]]; exists i; split; auto; lia.
  Qed.

  Lemma go_list_paths names pre : forall l i st cs' st' mps,
    Forall paths_spec l ->
    go_list names pre i l st = Some (cs', st', mps) ->
    forall p, In p (map snd mps) <->
      exists j c q, nth_error l j = Some c /\ p = pre ++ (i + j) :: q /\ operand_path c q.
  Proof.
    induction l as [|c l IH]; intros i st cs' st' mps HF H p; simpl in H.
    - inversion H; subst. simpl. split; [intros []|]. intros [j [c [q [Hn _]]]]. destruct j; discriminate.
    - inversion HF as [|? ? Hc HFl]; subst.
      destruct (an_go c (pre ++ [i]) st) as [[[c' s'] mp]|] eqn:Hgo; [|discriminate].
      destruct (go_list names pre (S i) l s') as [[[cs1 s1] mps1]|] eqn:Hgl; [|discriminate].
      inversion H; subst; clear H.
      rewrite map_app, in_app_iff, (Hc _ _ _ _ _ Hgo p), (IH _ _ _ _ _ HFl Hgl p).
      split.
      + intros [[q [Hp Hq]]|[j [c0 [q [Hn [Hp Hq]]]]]].
        * exists 0, c, q. split; [reflexivity|]. split; [|exact Hq].
          rewrite Hp, <- app_assoc, Nat.add_0_r. reflexivity.
        * exists (S j), c0, q. split; [exact Hn|]. split; [|exact Hq].
          rewrite Hp. replace (i + S j) with (S i + j) by lia. reflexivity.
      + intros [j [c0 [q [Hn [Hp Hq]]]]]. destruct j as [|j]; simpl in Hn.
        * inversion Hn; subst c0. left. exists q. split; [|exact Hq].
          rewrite Hp, <- app_assoc, Nat.add_0_r. reflexivity.
        * right. exists j, c0, q. split; [exact Hn|]. split; [|exact Hq].
          rewrite Hp. replace (i + S j) with (S i + j) by lia. reflexivity.
  Qed.

  Lemma operand_path_cases t q :
    operand_path t q <->
    (handles (cls_of t) = true /\ exists i, i < length (children t) /\ q = [i]) \/
    (exists j c q', nth_error (children t) j = Some c /\ q = j :: q' /\ operand_path c q').
  Proof.
    split.
    - intros [q0 [i [n [Hq [Hs [Hh Hi]]]]]]. destruct q0 as [|j q0]; simpl in *.
      + inversion Hs; subst n. left. split; [exact Hh|]. exists i. auto.
      + destruct (nth_error (children t) j) as [c|] eqn:Hn; [|discriminate].
        right. exists j, c, (q0 ++ [i]). split; [exact Hn|]. split; [exact Hq|].
        exists q0, i, n. auto.
    - intros [[Hh [i [Hi Hq]]]|[j [c [q' [Hn [Hq [q0 [i [n [Hq' [Hs [Hh Hi]]]]]]]]]]]].
      + exists [], i, t. subst. auto.
      + exists (j :: q0), i, n. subst. simpl. rewrite Hn. auto.
  Qed.

  Lemma an_go_paths : forall t, paths_spec t.
  Proof.
    apply item_children_ind. intros t IH pre st t' st' mp H p.
    rewrite an_go_unfold in H.
    destruct (pre_names letters handles t st) as [[names st1]|] eqn:Hpre; [|discriminate].
    destruct (go_list names pre 0 (children t) st1) as [[[cs' st2] mps]|] eqn:Hgl; [|discriminate].
    inversion H; subst; clear H.
    destruct (pre_names_spec _ _ _ _ Hpre) as [_ [Hh1 Hh0]].
    rewrite map_app, in_app_iff, entries_snd_in, (go_list_paths _ _ _ _ _ _ _ _ IH Hgl p).
    split.
    - intros [[i [Hi Hp]]|[j [c [q [Hn [Hp Hq]]]]]].
      + exists [i]. split; [exact Hp|]. apply operand_path_cases. left.
        destruct (handles (cls_of t)) eqn:Hh.
        * split; [reflexivity|]. exists i. rewrite <- (Hh1 eq_refl). auto.
        * rewrite (Hh0 eq_refl) in Hi. simpl in Hi. lia.
      + exists (j :: q). split; [exact Hp|]. apply operand_path_cases. right. exists j, c, q. auto.
    - intros [q [Hp Hq]]. apply operand_path_cases in Hq.
      destruct Hq as [[Hh [i [Hi Hq]]]|[j [c [q' [Hn [Hq Hq']]]]]].
      + left. exists i. rewrite (Hh1 Hh). subst. auto.
      + right. exists j, c, q'. subst. auto.
  Qed.

  (* ---- where the names sit in the output tree *)

  Definition name_at (t : item) (q : path) : option str :=
    match subtree_at t q with Some n => name_of n | None => None end.

  Definition unnamed (t : item) : Prop := forall q, name_at t q = None.

  Lemma name_of_apply_nm onm c :
    name_of (apply_nm onm c) = match onm with Some nm => Some nm | None => name_of c end.
  Proof. destruct onm; simpl; [|reflexivity]. unfold name_of, set_name. rewrite meta_set_meta. reflexivity. Qed.

  Lemma children_apply_nm onm c : children (apply_nm onm c) = children c.
  Proof. destruct onm; simpl; [|reflexivity]. unfold set_name. apply children_set_meta. Qed.

  Lemma subtree_apply_nm onm c q : q <> [] -> subtree_at (apply_nm onm c) q = subtree_at c q.
  Proof. destruct q; [congruence|]. intros _. simpl. rewrite children_apply_nm. reflexivity. Qed.

  Definition names_spec (t : item) : Prop :=
    forall pre st t' st' mp, an_go t pre st = Some (t', st', mp) ->
      name_of t' = name_of t /\
      (forall nm p, In (nm, p) mp -> exists q, q <> [] /\ p = pre ++ q /\ name_at t' q = Some nm) /\
      (unnamed t -> forall q nm, q <> [] -> name_at t' q = Some nm -> In (nm, pre ++ q) mp).

  Lemma unnamed_child t j c : unnamed t -> nth_error (children t) j = Some c -> unnamed c.
  Proof. intros Hu Hn q. specialize (Hu (j :: q)). unfold name_at in *. simpl in Hu. rewrite Hn in Hu. exact Hu. Qed.

  Lemma entries_in pre names nm p :
    In (nm, p) (entries pre names) <-> exists i, nth_error names i = Some nm /\ p = pre ++ [i].
  Proof.
    unfold entries, mapi.
    assert (G : forall k, In (nm, p) (mapi_from k (fun i x => (x, pre ++ [i])) names) <->
                          exists i, nth_error names i = Some nm /\ p = pre ++ [k + i]).
    { induction names as [|x l IH]; intros k; simpl.
      - split; [intros []|intros [i [H _]]; destruct i; discriminate].
      - rewrite IH. split.
        + intros [H|[i [H1 H2]]].
          * inversion H; subst. exists 0. rewrite Nat.add_0_r. auto.
          * exists (S i). simpl. split; [exact H1|]. rewrite H2. replace (k + S i) with (S k + i) by lia. reflexivity.
        + intros [i [H1 H2]]. destruct i as [|i]; simpl in H1.
          * left. inversion H1; subst. rewrite Nat.add_0_r. reflexivity.
          * right. exists i. split; [exact H1|]. rewrite H2. replace (k + S i) with (S k + i) by lia. reflexivity. }
    apply G.
  Qed.

  (* children of the rebuilt node, one by one *)
  Lemma go_list_children names pre : forall l i st cs' st' mps,
    go_list names pre i l st = Some (cs', st', mps) ->
    length cs' = length l /\
    forall j c', nth_error cs' j = Some c' ->
      exists c s s' c0 mp, nth_error l j = Some c /\ an_go c (pre ++ [i + j]) s = Some (c0, s', mp)
                           /\ c' = apply_nm (nth_error names (i + j)) c0 /\ incl mp mps.
  Proof.
    induction l as [|c l IH]; intros i st cs' st' mps H; simpl in H.
    - inversion H; subst. split; [reflexivity|]. intros j c' Hn. destruct j; discriminate.
    - destruct (an_go c (pre ++ [i]) st) as [[[c0 s'] mp]|] eqn:Hgo; [|discriminate].
      destruct (go_list names pre (S i) l s') as [[[cs1 s1] mps1]|] eqn:Hgl; [|discriminate].
      inversion H; subst; clear H.
      destruct (IH _ _ _ _ _ Hgl) as [Hlen Hch].
      split; [simpl; f_equal; exact Hlen|].
      intros j c' Hn. destruct j as [|j]; simpl in Hn.
      + inversion Hn; subst c'. exists c, st, s', c0, mp. rewrite Nat.add_0_r.
        repeat split; auto. apply incl_appl, incl_refl.
      + destruct (Hch j c' Hn) as [c1 [s [s2 [c2 [mp2 [H1 [H2 [H3 H4]]]]]]]].
        exists c1, s, s2, c2, mp2. replace (i + S j) with (S i + j) by lia.
        repeat split; auto. apply incl_appr. exact H4.
  Qed.

  Lemma go_list_mps_origin names pre : forall l i st cs' st' mps,
    go_list names pre i l st = Some (cs', st', mps) ->
    forall e, In e mps ->
      exists j c s s' c0 mp, nth_error l j = Some c /\ an_go c (pre ++ [i + j]) s = Some (c0, s', mp)
                             /\ nth_error cs' j = Some (apply_nm (nth_error names (i + j)) c0) /\ In e mp.
  Proof.
    induction l as [|c l IH]; intros i st cs' st' mps H e He; simpl in H.
    - inversion H; subst. destruct He.
    - destruct (an_go c (pre ++ [i]) st) as [[[c0 s'] mp]|] eqn:Hgo; [|discriminate].
      destruct (go_list names pre (S i) l s') as [[[cs1 s1] mps1]|] eqn:Hgl; [|discriminate].
      inversion H; subst; clear H.
      apply in_app_or in He. destruct He as [He|He].
      + exists 0, c, st, s', c0, mp. rewrite Nat.add_0_r. simpl. auto.
      + destruct (IH _ _ _ _ _ Hgl e He) as [j [c1 [s [s2 [c2 [mp2 [H1 [H2 [H3 H4]]]]]]]]].
        exists (S j), c1, s, s2, c2, mp2. replace (i + S j) with (S i + j) by lia. simpl. auto.
  Qed.

  Lemma an_go_names : forall t, names_spec t.
  Proof.
    apply item_children_ind. intros t IH pre st t' st' mp H.
    rewrite an_go_unfold in H.
    destruct (pre_names letters handles t st) as [[names st1]|] eqn:Hpre; [|discriminate].
    destruct (go_list names pre 0 (children t) st1) as [[[cs' st2] mps]|] eqn:Hgl; [|discriminate].
    inversion H; subst; clear H.
    destruct (pre_names_spec _ _ _ _ Hpre) as [_ [Hh1 Hh0]].
    destruct (go_list_children _ _ _ _ _ _ _ _ Hgl) as [Hlen Hch].
    pose proof (children_rebuild t cs' Hlen) as Hcr.
    split; [unfold name_of; rewrite meta_rebuild; reflexivity|].
    split.
    - intros nm p Hin. apply in_app_or in Hin. destruct Hin as [Hin|Hin].
      + apply entries_in in Hin. destruct Hin as [i [Hi Hp]].
        exists [i]. split; [discriminate|]. split; [exact Hp|].
        unfold name_at. simpl. rewrite Hcr.
        assert (Hil : i < length cs').
        { rewrite Hlen. destruct (handles (cls_of t)) eqn:Hh.
          - rewrite <- (Hh1 eq_refl). apply nth_error_Some. congruence.
          - rewrite (Hh0 eq_refl) in Hi. destruct i; discriminate. }
        destruct (nth_error cs' i) as [c'|] eqn:Hn; [|apply nth_error_None in Hn; lia].
        destruct (Hch i c' Hn) as [c [s [s' [c0 [mp0 [_ [_ [Hc' _]]]]]]]].
        simpl in Hc'. rewrite Hc', name_of_apply_nm, Hi. reflexivity.
      + destruct (go_list_mps_origin _ _ _ _ _ _ _ _ Hgl _ Hin)
          as [j [c [s [s' [c0 [mp0 [Hn [Hgo [Hn' Hin0]]]]]]]]].
        rewrite Forall_forall in IH. pose proof (IH c (nth_error_In _ _ Hn)) as IHc.
        destruct (IHc _ _ _ _ _ Hgo) as [_ [Hfw _]].
        destruct (Hfw nm p Hin0) as [q [Hq [Hp Hnm]]].
        exists (j :: q). split; [discriminate|]. split.
        * rewrite Hp, <- app_assoc. reflexivity.
        * unfold name_at in *. simpl. rewrite Hcr, Hn'. simpl in *.
          rewrite subtree_apply_nm by exact Hq. exact Hnm.
    - intros Hu q nm Hq Hnm. destruct q as [|j q]; [congruence|].
      unfold name_at in Hnm. simpl in Hnm. rewrite Hcr in Hnm.
      destruct (nth_error cs' j) as [c'|] eqn:Hn; [|discriminate].
      destruct (Hch j c' Hn) as [c [s [s' [c0 [mp0 [Hnc [Hgo [Hc' Hincl]]]]]]]]. simpl in Hc'.
      rewrite Forall_forall in IH. pose proof (IH c (nth_error_In _ _ Hnc)) as IHc.
      destruct (IHc _ _ _ _ _ Hgo) as [Hroot [_ Hbw]].
      pose proof (unnamed_child _ _ _ Hu Hnc) as Huc.
      destruct q as [|k q].
      + simpl in Hnm. rewrite Hc', name_of_apply_nm in Hnm.
        destruct (nth_error names j) as [nm'|] eqn:Hnj.
        * inversion Hnm; subst nm'. apply in_or_app. left. apply entries_in. exists j. auto.
        * rewrite Hroot in Hnm. specialize (Huc []). unfold name_at in Huc. simpl in Huc. congruence.
      + rewrite Hc', subtree_apply_nm in Hnm by discriminate.
        apply in_or_app. right. apply Hincl.
        replace (pre ++ j :: k :: q) with ((pre ++ [j]) ++ k :: q) by (rewrite <- app_assoc; reflexivity).
        simpl in Hgo. apply (Hbw Huc (k :: q) nm); [discriminate|]. unfold name_at. exact Hnm.
  Qed.

  (* ---- TreeAutoNamer.visit *)

  Lemma subtree_set_name t nm q : q <> [] -> subtree_at (set_name t nm) q = subtree_at t q.
  Proof. destruct q; [congruence|]. intros _. simpl. unfold set_name. rewrite children_set_meta. reflexivity. Qed.

  (* the naming proper (what runs after _clear_names); the exact clause needs a tree without names *)
  Theorem name_tree_spec t t' m :
    name_tree letters handles t = Some (t', m) ->
    NoDup (map fst m) /\
    (unnamed t -> forall nm q, In (nm, q) m <-> name_at t' q = Some nm) /\
    (forall q, In q (map snd m) <->
       (operand_path t q \/ ((forall q', ~ operand_path t q') /\ q = []))) /\
    (forall nm q, In (nm, q) m -> name_at t' q = Some nm).
  Proof.
    unfold name_tree.
    destruct (an_go t [] None) as [[[t0 st] mp]|] eqn:Hgo; [|discriminate].
    pose proof (an_go_nodup _ _ _ _ _ _ Hgo) as Hnd.
    pose proof (an_go_paths t _ _ _ _ _ Hgo) as Hpaths.
    destruct (an_go_names t _ _ _ _ _ Hgo) as [Hroot [Hfw Hbw]].
    destruct mp as [|e mp].
    - destruct (next_name letters st) as [nm|]; [|discriminate].
      intros H; inversion H; subst; clear H.
      assert (Hnone : forall q', ~ operand_path t q').
      { intros q' Hq'. apply (proj2 (Hpaths q')). exists q'. auto. }
      split; [repeat constructor; intros []|]. split.
      + intros Hu nm' q. split.
        * intros [Hin|[]]. inversion Hin; subst. unfold name_at, name_of, set_name. simpl.
          rewrite meta_set_meta. reflexivity.
        * intros Hnm. destruct q as [|j q].
          -- unfold name_at, name_of, set_name in Hnm. simpl in Hnm. rewrite meta_set_meta in Hnm.
             simpl in Hnm. inversion Hnm; subst. left. reflexivity.
          -- exfalso. unfold name_at in Hnm. rewrite subtree_set_name in Hnm by discriminate.
             apply (Hbw Hu (j :: q) nm'); [discriminate|exact Hnm].
      + split.
        * intros q. simpl. split.
          -- intros [Hq|[]]. right. auto.
          -- intros [Hq|[_ Hq]]; [exfalso; apply (Hnone q Hq)|left; auto].
        * intros nm' q [Hin|[]]. inversion Hin; subst. unfold name_at, name_of, set_name. simpl.
          rewrite meta_set_meta. reflexivity.
    - intros H; inversion H; subst; clear H.
      split; [exact Hnd|]. split.
      + intros Hu nm q. split.
        * intros Hin. destruct (Hfw nm q Hin) as [q1 [_ [Hq Hnm]]]. simpl in Hq. subst q1. exact Hnm.
        * intros Hnm. destruct q as [|j q].
          -- exfalso. unfold name_at in Hnm. simpl in Hnm. rewrite Hroot in Hnm.
             specialize (Hu []). unfold name_at in Hu. simpl in Hu. congruence.
          -- apply (Hbw Hu (j :: q) nm); [discriminate|exact Hnm].
      + split.
        * intros q. rewrite (Hpaths q). simpl. split.
          -- intros [q1 [Hq Hop]]. subst. left. exact Hop.
          -- intros [Hop|[Hnone _]]; [exists q; auto|].
             exfalso. destruct e as [nm0 p0].
             destruct (proj1 (Hpaths p0)) as [q1 [_ Hop]]; [left; reflexivity|].
             apply (Hnone q1 Hop).
        * intros nm q Hin. destruct (Hfw nm q Hin) as [q1 [_ [Hq Hnm]]]. simpl in Hq. subst q1. exact Hnm.
  Qed.

  Theorem name_tree_total t : exists t' m, name_tree letters handles t = Some (t', m).
  Proof.
    unfold name_tree.
    destruct (an_go_total t [] None I) as [t0 [st [mp [Hgo Hwf]]]]. rewrite Hgo.
    destruct mp; [|eauto].
    destruct (next_name_total st Hwf) as [nm [Hn _]]. rewrite Hn. eauto.
  Qed.

  (* ---- TreeAutoNamer._clear_names: no name is left anywhere, nothing else changes *)

  Lemma clear_list_map f l : clear_list f l = map f l.
  Proof. induction l as [|c l IH]; simpl; [reflexivity|]. f_equal; try exact IH. Qed.

  Lemma clear_names_unfold t :
    clear_names t = rebuild (set_name t None) (map clear_names (children t)).
  Proof. rewrite <- clear_list_map. destruct t; reflexivity. Qed.

  Lemma children_clear_names t : children (clear_names t) = map clear_names (children t).
  Proof.
    rewrite clear_names_unfold. apply children_rebuild.
    rewrite map_length. unfold set_name. rewrite children_set_meta. reflexivity.
  Qed.

  Lemma name_of_clear_names t : name_of (clear_names t) = None.
  Proof.
    rewrite clear_names_unfold. unfold name_of. rewrite meta_rebuild. unfold set_name.
    rewrite meta_set_meta. reflexivity.
  Qed.

  Lemma cls_clear_names t : cls_of (clear_names t) = cls_of t.
  Proof. rewrite clear_names_unfold, cls_rebuild. unfold set_name. apply cls_set_meta. Qed.

  Lemma nth_error_map_opt {A B} (f : A -> B) : forall l i,
    nth_error (map f l) i = option_map f (nth_error l i).
  Proof. induction l as [|x l IH]; intros [|i]; simpl; auto. Qed.

  Lemma subtree_clear_names : forall q t,
    subtree_at (clear_names t) q = option_map clear_names (subtree_at t q).
  Proof.
    induction q as [|i q IH]; intros t; simpl; [reflexivity|].
    rewrite children_clear_names, nth_error_map_opt.
    destruct (nth_error (children t) i) as [c|]; simpl; [apply IH|reflexivity].
  Qed.

  Lemma clear_names_unnamed t : unnamed (clear_names t).
  Proof.
    intros q. unfold name_at. rewrite subtree_clear_names.
    destruct (subtree_at t q) as [n|]; simpl; [apply name_of_clear_names|reflexivity].
  Qed.

  (* a tree without names is left as it is *)
  Lemma clear_names_id : forall t, unnamed t -> clear_names t = t.
  Proof.
    apply (item_children_ind (fun t => unnamed t -> clear_names t = t)). intros t IH Hu.
    rewrite clear_names_unfold.
    assert (Hm : map clear_names (children t) = children t).
    { assert (Hc : forall j c, nth_error (children t) j = Some c -> unnamed c)
        by (intros j c Hn; exact (unnamed_child t j c Hu Hn)).
      revert IH Hc. generalize (children t) as l.
      induction l as [|c l IHl]; intros HF Hc; simpl; [reflexivity|].
      inversion HF as [|? ? H1 H2]; subst. f_equal.
      - apply H1. exact (Hc 0 c eq_refl).
      - apply IHl; [exact H2|]. intros j c0 Hn. exact (Hc (S j) c0 Hn). }
    rewrite Hm. pose proof (Hu []) as H0. unfold name_at in H0. simpl in H0.
    unfold set_name, name_of in *. destruct t; simpl in *;
      match goal with m : meta |- _ => destruct m; simpl in *; subst; reflexivity end.
  Qed.

  Lemma operand_path_clear_names t q : operand_path (clear_names t) q <-> operand_path t q.
  Proof.
    split.
    - intros [q0 [i [n [Hq [Hs [Hh Hi]]]]]]. rewrite subtree_clear_names in Hs.
      destruct (subtree_at t q0) as [n0|] eqn:E; [|discriminate]. simpl in Hs. inversion Hs; subst n.
      exists q0, i, n0. rewrite cls_clear_names in Hh. rewrite children_clear_names, map_length in Hi.
      auto.
    - intros [q0 [i [n [Hq [Hs [Hh Hi]]]]]]. exists q0, i, (clear_names n).
      rewrite subtree_clear_names, Hs, cls_clear_names, children_clear_names, map_length. auto.
  Qed.

  (* ---- TreeAutoNamer.visit = _clear_names, then the naming: exact for EVERY tree *)

  Theorem auto_name_with_exact t t' m :
    auto_name_with letters handles t = Some (t', m) ->
    NoDup (map fst m) /\
    (forall nm q, In (nm, q) m <-> name_at t' q = Some nm) /\
    (forall q, In q (map snd m) <->
       (operand_path t q \/ ((forall q', ~ operand_path t q') /\ q = []))).
  Proof.
    unfold auto_name_with. intros H.
    destruct (name_tree_spec _ _ _ H) as [Hnd [Hex [Hp _]]].
    split; [exact Hnd|]. split; [exact (Hex (clear_names_unnamed t))|].
    intros q. rewrite (Hp q), operand_path_clear_names.
    split; (intros [Ho|[Hn Hq]]; [left; exact Ho|right; split; [|exact Hq]]);
      intros q' Hq'; apply (Hn q'); apply operand_path_clear_names; exact Hq'.
  Qed.

  (* the former shape (second clause under `unnamed t`, now a consequence of the unguarded one), kept for
     the files that destruct it (PropagateProofs.v, PropagateWideProofs.v, props/C16.v) *)
  Theorem auto_name_with_spec t t' m :
    auto_name_with letters handles t = Some (t', m) ->
    NoDup (map fst m) /\
    (unnamed t -> forall nm q, In (nm, q) m <-> name_at t' q = Some nm) /\
    (forall q, In q (map snd m) <->
       (operand_path t q \/ ((forall q', ~ operand_path t q') /\ q = []))) /\
    (forall nm q, In (nm, q) m -> name_at t' q = Some nm).
  Proof.
    intros H. destruct (auto_name_with_exact t t' m H) as [Hnd [Hex Hp]].
    split; [exact Hnd|]. split; [intros _; exact Hex|]. split; [exact Hp|].
    intros nm q Hin. apply Hex. exact Hin.
  Qed.

  Theorem auto_name_with_total t : exists t' m, auto_name_with letters handles t = Some (t', m).
  Proof. unfold auto_name_with. apply name_tree_total. Qed.

End Names.
