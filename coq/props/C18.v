(* C18 — pretty-printing never changes the query.
   This file holds only statements, `exact`-closed theorems (short glue), non-vacuity examples and
   Print Assumptions.  Model: model/Pretty.v; lemmas: proofs/PrettyProofs.v; parser: model/Parser.v
   (Lexer, LR, Actions) on the generated tables; luqum's __eq__: model/Eq.v.

   Clauses of the property text                         statements here
     "pretty text is accepted and parses to an equal    C18_statement            REFUTED (F11): C18_refuted
      tree, for every parsed query and setting"         C18_plain_guard_statement  (no newline in a chunk) REFUTED
                                                                                 too (F1 + time syntax)
                                                        C18_modulo_lexing        proved: holds whenever the pretty
                                                                                 text lexes to the query's tokens
                                                        C18_respacing(_plain), C18_chunks_*   proved: what the
                                                                                 pretty text is, for every setting
     "the output is deterministic"                      C18_deterministic        proved (trivially: a function)
     (no exception on parsed queries)                   C18_total, C18_total_parsed   proved
     "the input tree is not modified"                   not expressible in the value-based model: snapshots
                                                        in harness/c18.py on every run *)
Require Import Base Decimal Tree GenTree GenParser Visitor Print Eq Lexer Actions LR Parser Erase Pretty.
Require Import TreeInd LayoutProofs PrettyProofs.

(* ---- tie obligations on generated data *)
Lemma pretty_tie_ok : pretty_tie = true.
Proof. vm_compute. reflexivity. Qed.

(* ---- the full statement *)
Definition C18_statement : Prop :=
  forall s t cfg, parse s = Some (Ok t) ->
    exists p t', pretty cfg t = Some p /\ parse p = Some (Ok t') /\ item_eqb t' t = true.

(* witness: "a\nb" AND c  with the default settings *)
Definition wit : str := [34;97;10;98;34;32;65;78;68;32;99]%N.
Definition wit_cfg : pcfg := mkPcfg 4 80 false.
Definition wit_tree : item :=
  Eval vm_compute in match parse wit with Some (Ok t) => t | _ => NoneItem meta0 end.
Definition wit_pretty : str :=
  Eval vm_compute in match pretty wit_cfg wit_tree with Some p => p | None => [] end.
Definition wit_tree2 : item :=
  Eval vm_compute in match parse wit_pretty with Some (Ok t) => t | _ => NoneItem meta0 end.

Lemma wit_parses : parse wit = Some (Ok wit_tree).
Proof. vm_compute. reflexivity. Qed.
Lemma wit_pretty_ok : pretty wit_cfg wit_tree = Some wit_pretty.
Proof. vm_compute. reflexivity. Qed.
Lemma wit_reparse : parse wit_pretty = Some (Ok wit_tree2).
Proof. vm_compute. reflexivity. Qed.
Lemma wit_differs : item_eqb wit_tree2 wit_tree = false.
Proof. vm_compute. reflexivity. Qed.

Theorem C18_refuted : ~ C18_statement.
Proof.
  intros H. destruct (H wit wit_tree wit_cfg wit_parses) as [p [t' [Hp [Hr He]]]].
  rewrite wit_pretty_ok in Hp. inversion Hp; subst p.
  rewrite wit_reparse in Hr. inversion Hr; subst t'.
  rewrite wit_differs in He. discriminate.
Qed.

(* what the witness shows: the newline inside the phrase became a blank — "a b" AND c *)
Example C18_witness_text : wit_pretty = [34;97;32;98;34;32;65;78;68;32;99]%N.
Proof. reflexivity. Qed.

(* ---- the guard the design expected to suffice (no newline inside a chunk) does NOT: second witness
   `-xT12 :30`.  It parses to Prohibit(SearchField(xT12, 30)); str() of that simple element drops the
   blank before the colon (F1) and `-xT12:30` lexes as MINUS + one time-like TERM `xT12:30`. *)
Definition C18_plain_guard_statement : Prop :=
  forall s t cfg, parse s = Some (Ok t) -> no_newline_in_chunks t = true ->
    exists p t', pretty cfg t = Some p /\ parse p = Some (Ok t') /\ item_eqb t' t = true.

Definition wit2 : str := [45;120;84;49;50;32;58;51;48]%N.
Definition wit2_tree : item :=
  Eval vm_compute in match parse wit2 with Some (Ok t) => t | _ => NoneItem meta0 end.
Definition wit2_pretty : str :=
  Eval vm_compute in match pretty wit_cfg wit2_tree with Some p => p | None => [] end.
Definition wit2_tree2 : item :=
  Eval vm_compute in match parse wit2_pretty with Some (Ok t) => t | _ => NoneItem meta0 end.

Lemma wit2_facts :
  parse wit2 = Some (Ok wit2_tree) /\ no_newline_in_chunks wit2_tree = true /\
  pretty wit_cfg wit2_tree = Some wit2_pretty /\ parse wit2_pretty = Some (Ok wit2_tree2) /\
  item_eqb wit2_tree2 wit2_tree = false.
Proof. vm_compute. auto. Qed.

Theorem C18_plain_guard_refuted : ~ C18_plain_guard_statement.
Proof.
  destruct wit2_facts as [H1 [H2 [H3 [H4 H5]]]].
  intros H. destruct (H wit2 wit2_tree wit_cfg H1 H2) as [p [t' [Hp [Hr He]]]].
  rewrite H3 in Hp. inversion Hp; subst p.
  rewrite H4 in Hr. inversion Hr; subst t'.
  rewrite H5 in He. discriminate.
Qed.

(* -xT12:30 : the blank is gone *)
Example C18_witness2_text : wit2_pretty = [45;120;84;49;50;58;51;48]%N.
Proof. reflexivity. Qed.

(* ---- determinism: the output is a function of (settings, tree) *)
Definition C18_deterministic_statement : Prop :=
  forall cfg t r1 r2, pretty_res cfg t = r1 -> pretty_res cfg t = r2 -> r1 = r2.
Theorem C18_deterministic : C18_deterministic_statement.
Proof. intros cfg t r1 r2 H1 H2. congruence. Qed.

(* ---- no exception: on every tree whose operations on the spine (reached through operations, groups
   and fields) have an operand — in particular on every tree the parser returns, for every setting.
   Outside that class the code does raise: see C18_raises_on_empty_operation below. *)
Definition C18_total_statement : Prop :=
  forall cfg t, spine_ops_nonempty t = true -> exists p, pretty cfg t = Some p.
Theorem C18_total : C18_total_statement.
Proof. exact pretty_total. Qed.

Definition C18_total_parsed_statement : Prop :=
  forall cfg s t, parse s = Some (Ok t) -> exists p, pretty cfg t = Some p.
Theorem C18_total_parsed : C18_total_parsed_statement.
Proof. exact pretty_total_parsed. Qed.

(* ---- the chunk sequence is independent of the settings: _get_chains never raises, and the
   strings it yields, in order (markers dropped, nesting flattened), are chunk_texts t — a
   function of the tree alone *)
Definition C18_chunks_setting_independent_statement : Prop :=
  forall inl t, exists l, get_chains inl None t = Some l /\ chunks_of l = chunk_texts t.
Theorem C18_chunks_setting_independent : C18_chunks_setting_independent_statement.
Proof.
  intros inl t. exists (chains inl None t). split.
  - apply get_chains_spec. left. reflexivity.
  - apply chunks_of_chains.
Qed.

(* ---- the chunks, concatenated, are the printed tree without the head/tail layout of its spine
   (operations, groups, fields, and the root of each simple element; the inside of a simple element
   is its verbatim text) *)
Definition C18_chunks_text_statement : Prop :=
  forall t, concat (chunk_texts t) = print false (spine_strip t).
Theorem C18_chunks_text : C18_chunks_text_statement.
Proof. exact chunk_texts_print. Qed.

(* ---- the output, for EVERY setting (any indent, max_len, inline_ops — the width arithmetic only
   chooses between blank and newline+indentation): leading blanks, then the chunks in order, glued
   by separators (one blank or one newline, then blanks), every newline INSIDE a chunk replaced by
   such a separator (that replacement is F11) *)
Definition C18_respacing_statement : Prop :=
  forall cfg t p, pretty cfg t = Some p ->
    exists k p', p = sp k ++ p' /\ spaced (chunk_texts t) p'.
Theorem C18_respacing : C18_respacing_statement.
Proof. exact pretty_spaced. Qed.

(* ... hence, when no chunk contains a newline, the output is exactly the chunks glued by separators *)
Definition C18_respacing_plain_statement : Prop :=
  forall cfg t p, no_newline_in_chunks t = true -> pretty cfg t = Some p ->
    exists k p', p = sp k ++ p' /\ glued (chunk_texts t) p'.
Theorem C18_respacing_plain : C18_respacing_plain_statement.
Proof. intros cfg t p Hn Hp. exact (pretty_glued cfg t p Hn Hp). Qed.

(* ---- the statement's conclusion modulo lexing: if the pretty text lexes to the same (type, lexeme)
   sequence as the query (and neither is cut by a lexical error), it is accepted and parses to an
   equal tree.  Uses the any-table layout independence of the LR driver (proofs/LayoutProofs.v).
   The hypothesis is NOT discharged in general here (a lexer fact about the pretty text — false for the
   F11 and F1 witnesses); the correspondence evaluates the conclusion on every run. *)
Definition same_tokens (p s : str) : Prop :=
  map tok_key (fst (lex s)) = map tok_key (fst (lex p)) /\ (snd (lex s) = None <-> snd (lex p) = None).

Definition C18_modulo_lexing_statement : Prop :=
  forall s t p, parse s = Some (Ok t) -> same_tokens p s ->
    exists t', parse p = Some (Ok t') /\ item_eqb t' t = true.
Theorem C18_modulo_lexing : C18_modulo_lexing_statement.
Proof.
  intros s t p Hp [Hk He].
  pose proof (parse_layout_independent gen_tables s p Hk He) as H.
  unfold parse, parse_full in *. destruct (parse_with gen_tables s) as [r1 e1|]; [|discriminate].
  destruct (parse_with gen_tables p) as [r2 e2|]; [|contradiction]. simpl in H.
  inversion Hp; subst. destruct r2 as [t2|[m|m|n]]; simpl in H; try discriminate.
  exists t2. split; [reflexivity|]. inversion H as [Her].
  apply layout_erase_eqb. exact Her.
Qed.

(* ---- non-vacuity *)
(* a parsed query with a group, a field and two operators: in the class of C18_total, satisfies the
   guard of C18_respacing_plain, and is really laid out on several lines when the width is small *)
Definition ex_query : str :=   (* f:(a OR b) AND NOT "c d"~2 *)
  [102;58;40;97;32;79;82;32;98;41;32;65;78;68;32;78;79;84;32;34;99;32;100;34;126;50]%N.
Definition ex_tree : item :=
  Eval vm_compute in match parse ex_query with Some (Ok t) => t | _ => NoneItem meta0 end.
Example C18_ex_parses : parse ex_query = Some (Ok ex_tree).
Proof. vm_compute. reflexivity. Qed.
Example C18_ex_in_class :
  spine_ops_nonempty ex_tree = true /\ no_newline_in_chunks ex_tree = true /\
  chunk_texts ex_tree = [[102;58]; [40]; [97]; [79;82]; [98]; [41]; [65;78;68];
                         [78;79;84;32;34;99;32;100;34;126;50]]%N.
Proof. vm_compute. auto. Qed.
(* one line with the default settings:  f: ( a OR b ) AND NOT "c d"~2 *)
Example C18_ex_one_line :
  pretty (mkPcfg 4 80 false) ex_tree =
  Some [102;58;32;40;32;97;32;79;82;32;98;32;41;32;65;78;68;32;78;79;84;32;34;99;32;100;34;126;50]%N.
Proof. vm_compute. reflexivity. Qed.
(* several lines with max_len = 5, indent = 2, and the round trip holds *)
Definition ex_multi : str :=
  Eval vm_compute in match pretty (mkPcfg 2 5 false) ex_tree with Some p => p | None => [] end.
Example C18_ex_multi_line :
  pretty (mkPcfg 2 5 false) ex_tree = Some ex_multi /\ mem_N c_nl ex_multi = true /\
  match parse ex_multi with Some (Ok t') => item_eqb t' ex_tree | _ => false end = true.
Proof. vm_compute. auto. Qed.
(* the hypothesis of C18_modulo_lexing holds for it (inline operators, several lines) *)
Definition ex_inline : str :=
  Eval vm_compute in match pretty (mkPcfg 2 5 true) ex_tree with Some p => p | None => [] end.
Example C18_ex_same_tokens :
  pretty (mkPcfg 2 5 true) ex_tree = Some ex_inline /\ same_tokens ex_inline ex_query.
Proof.
  split; [vm_compute; reflexivity|]. split; [vm_compute; reflexivity|].
  split; intros _; vm_compute; reflexivity.
Qed.
(* the F11 witness violates the guard of C18_respacing_plain and the hypothesis of C18_modulo_lexing *)
Example C18_witness_outside_guard : no_newline_in_chunks wit_tree = false.
Proof. vm_compute. reflexivity. Qed.
Example C18_witness_tokens_differ : ~ same_tokens wit_pretty wit /\ ~ same_tokens wit2_pretty wit2.
Proof. split; intros [H _]; vm_compute in H; discriminate. Qed.

(* when the code raises (programmatic trees only): an operation without operand at the root or in a
   group makes the final `yield last` of _apply_stick yield None (AttributeError on None.split); with
   inline_ops an empty operation in first position puts the stick marker first (AssertionError) *)
Example C18_raises_on_empty_operation :
  pretty_res (mkPcfg 4 80 false) (Op KAnd meta0 []) = PNoneSplit /\
  pretty_res (mkPcfg 4 80 false) (Grp KGroup meta0 (Op KOr meta0 [])) = PNoneSplit /\
  pretty_res (mkPcfg 4 80 true) (Op KAnd meta0 [Op KAnd meta0 []; Term KWord meta0 [97]%N]) = PAssert /\
  spine_ops_nonempty (Op KAnd meta0 []) = false.
Proof. vm_compute. auto. Qed.

Print Assumptions C18_refuted.
Print Assumptions C18_plain_guard_refuted.
Print Assumptions C18_deterministic.
Print Assumptions C18_total.
Print Assumptions C18_total_parsed.
Print Assumptions C18_chunks_setting_independent.
Print Assumptions C18_chunks_text.
Print Assumptions C18_respacing.
Print Assumptions C18_respacing_plain.
Print Assumptions C18_modulo_lexing.
