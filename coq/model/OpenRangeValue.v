(* OpenRangeValue.v — specification vocabulary of C12v (hand-written; not a model of luqum code): the VALUE
   semantics `holds_full` of a whole query tree, the hypotheses on the readings of bounds and atoms, the guard
   `shaped`, and `copy_of` (the exact copy of a node).  Executable definitions only; the theorems are in
   proofs/OpenRangeValueProofs.v and props/C12v.v, and harness/c12.py evaluates `shaped` and `holds_full` on the
   implementation's outputs. *)
Require Import Base Decimal Tree Eq OpenRange.
Require Erase EqSpec.


(* the Lucene / Elasticsearch boolean query (Meaning.bool_reading, on items instead of fingerprints):
   `+x` must, `-x` must not, others should; with at least one should clause and no must clause one
   should clause has to match.  `f c` is the value of clause c read as an ordinary operand. *)
Definition is_plus (c : item) : bool := match c with Unary KPlus _ _ => true | _ => false end.
Definition is_prohibit (c : item) : bool := match c with Unary KProhibit _ _ => true | _ => false end.
Definition is_plain (c : item) : bool := negb (is_plus c || is_prohibit c).
Definition bool_reading (f : item -> bool) (ops : list item) : bool :=
  forallb (fun c => if is_plain c then true else f c) ops &&
  (if existsb is_plain ops && negb (existsb is_plus ops)
   then existsb (fun c => is_plain c && f c) ops else true).

Section Value.
  Variable V : Type.                          (* field values and bound values *)
  Variable le : V -> V -> bool.               (* v <= w ; NO law is assumed (see C12v.v) *)
  Variable bv : item -> option V.             (* value of a bound term; None = unbounded *)
  Variable fv : list str -> V.                (* the value of the field addressed by the enclosing field names,
                                                 outermost first; a constant function = "the field value v" *)
  Variable opq : list str -> item -> bool.    (* truth of an opaque atom in its field context *)
  Variable dflt : bool.                       (* the default operator is AND (true) / OR (false) *)

  (* the one-sided conditions (the same as OpenRangeProofs.low_ok / high_ok): v above / below the bound,
     strictly or not; a bound read as None is no condition *)
  Definition low_cond (x : V) (lo : item) (il : bool) : bool :=
    match bv lo with None => true | Some v => if il then le v x else negb (le x v) end.
  Definition high_cond (x : V) (hi : item) (ih : bool) : bool :=
    match bv hi with None => true | Some v => if ih then le x v else negb (le v x) end.

  (* does the document (field values fv, atom truths opq) satisfy the query.
       From x incl   : v > x, v >= x when incl            To x incl : v < x, v <= x when incl
       Range lo hi il ih : both conditions; a bound read as None (the wildcard) is no condition
       And = all, Or = any, Unknown = And / Or per the default operator, Bool = the boolean query,
       Not / Prohibit = complement, Plus / Group / FieldGroup / Boost transparent, SearchField extends
       the field context; Word / Phrase / Regex / Fuzzy / Proximity / NoneItem are opaque atoms. *)
  Fixpoint holds_full (cx : list str) (t : item) {struct t} : bool :=
    match t with
    | SearchField _ n e => holds_full (cx ++ [n]) e
    | Grp _ _ e => holds_full cx e
    | Boost _ e _ _ => holds_full cx e
    | Unary KPlus _ a => holds_full cx a
    | Unary _ _ a => negb (holds_full cx a)
    | Op KAnd _ ops => forallb (holds_full cx) ops
    | Op KOr _ ops => existsb (holds_full cx) ops
    | Op KUnknown _ ops => if dflt then forallb (holds_full cx) ops else existsb (holds_full cx) ops
    | Op KBool _ ops => bool_reading (holds_full cx) ops
    | Range _ lo hi il ih => low_cond (fv cx) lo il && high_cond (fv cx) hi ih
    | ORange KFrom _ a incl => low_cond (fv cx) a incl
    | ORange KTo _ a incl => high_cond (fv cx) a incl
    | Term _ _ _ | Fuzzy _ _ _ _ | Proximity _ _ _ _ | NoneItem _ => opq cx t
    end.
End Value.

(* the wildcard `*` (the code's test: `== Word("*")`) is read as "no bound" *)
Definition wild_unbounded {V : Type} (bv : item -> option V) : Prop :=
  forall b, is_wildcard b = true -> bv b = None.

(* a reading that does not see layout (pos, size, head, tail, attached name), at any depth *)
Definition layout_blind {A : Type} (f : item -> A) : Prop :=
  forall a b, Erase.erase a = Erase.erase b -> f a = f b.

(* the guard of the value theorem.  A bound (of a Range, of a comparison) is a term or a signed term
   (what the grammar allows: phrase_or_possibly_negative_term); an approximate match holds a term and,
   when its degree is implicit, the default degree (EqSpec.wf_node: what the constructors establish).
   Operations, groups, fields, boosts and unary operators nest freely. *)
Definition is_term (t : item) : bool := match t with Term _ _ _ => true | _ => false end.
Definition simple_bound (b : item) : bool :=
  match b with
  | Term _ _ _ => true
  | Unary _ _ (Term _ _ _) => true
  | _ => false
  end.
Fixpoint shaped (t : item) : bool :=
  match t with
  | Term _ _ _ | NoneItem _ => true
  | SearchField _ _ e | Grp _ _ e | Boost _ e _ _ => shaped e
  | Unary _ _ a => shaped a
  | Op _ _ ops => forallb shaped ops
  | Range _ lo hi _ _ => simple_bound lo && simple_bound hi
  | ORange _ _ a _ => simple_bound a
  | Fuzzy _ x _ _ | Proximity _ x _ _ => is_term x && EqSpec.wf_nodeb t
  end.

(* ---------------------------------------------------------------- the exact copy of a node *)

(* the node with its layout cloned (name dropped) over the given children: same constructor, same own
   attributes *)
Definition copy_of (t : item) (cs : list item) : item :=
  rebuild (set_meta t (clone_meta (meta_of t))) cs.

(* a comparison (From / To); an AndOperation *)
Definition is_cmp (t : item) : bool := match t with ORange _ _ _ _ => true | _ => false end.
Definition is_and_node (t : item) : bool := match t with Op KAnd _ _ => true | _ => false end.
