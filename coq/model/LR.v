(* LR.v — PLY's LRParser.parseopt_notrack restricted to what luqum uses (p_error always raises, so
   there is no error recovery; no defaulted states — a generated tie fact), generic in the tables.
   Executable definitions only. *)
Require Import Base Decimal Tree GenParser Lexer Actions.

Record tables := mkTables {
  tb_action : nat -> tok -> act;
  tb_goto : nat -> nonterm -> option nat;
  tb_prods : list (nonterm * list sym * action_name)
}.

(* the value object PLY puts in token.value *)
Definition token_value (t : token) : symval :=
  let m := mkMeta (Some (Z.of_nat (tk_pos t))) (Some (zlen (tk_lexeme t))) (tk_head t) (tk_tail t) None in
  match tk_type t with
  | T_TERM => VItem (Term KWord m (tk_lexeme t))
  | T_PHRASE => VItem (Term KPhrase m (tk_lexeme t))
  | T_REGEX => VItem (Term KRegex m (tk_lexeme t))
  | T_APPROX | T_BOOST =>
      VTok (tk_lexeme t) (match tl (tk_lexeme t) with [] => None | d => Some d end) m
  | _ => VTok (tk_lexeme t) (Some (tk_lexeme t)) m
  end.

(* "%s" % token.value, as p_error prints it *)
Definition token_value_str (t : token) : str :=
  match tk_type t with
  | T_APPROX | T_BOOST => tl (tk_lexeme t)
  | _ => tk_lexeme t
  end.

Definition s_err_prefix : str :=  (* "Syntax error in input : " *)
  [83;121;110;116;97;120;32;101;114;114;111;114;32;105;110;32;105;110;112;117;116;32;58;32]%N.
Definition s_unexpected_end : str :=
  (* "unexpected end of expression (maybe due to unmatched parenthesis) at the end!" *)
  [117;110;101;120;112;101;99;116;101;100;32;101;110;100;32;111;102;32;101;120;112;114;101;115;115;105;111;110;32;40;109;97;121;98;101;32;100;117;101;32;116;111;32;117;110;109;97;116;99;104;101;100;32;112;97;114;101;110;116;104;101;115;105;115;41;32;97;116;32;116;104;101;32;101;110;100;33]%N.
Definition s_unexpected : str := [117;110;101;120;112;101;99;116;101;100;32;32;39]%N.   (* "unexpected  '" *)
Definition s_illegal : str := (* "Illegal character '" *)
  [73;108;108;101;103;97;108;32;99;104;97;114;97;99;116;101;114;32;39]%N.

Definition syntax_error (la : option token) : perr :=
  match la with
  | None => ESyntax (s_err_prefix ++ s_unexpected_end)
  | Some t => ESyntax (s_err_prefix ++ s_unexpected ++ token_value_str t ++ s_at_position
                       ++ Z_to_str (Z.of_nat (tk_pos t)) ++ s_bang)
  end.

Definition illegal_error (e : nat * str) : perr :=
  EIllegal (s_illegal ++ snd e ++ s_at_position ++ Z_to_str (Z.of_nat (fst e))).

Record config := mkCfg {
  c_states : list nat;             (* top first *)
  c_vals : list symval;            (* top first *)
  c_toks : list token;             (* not yet shifted *)
  c_dropped : list gev             (* ghost: events of the actions so far *)
}.

Inductive stepres := Next (c : config) | Final (r : res item) (evs : list gev).

(* ghost: the text of the whole value stack, bottom first *)
Definition stack_text (vals : list symval) : str := concat (map full_text (rev vals)).

Definition do_shift (c : config) (n : nat) : stepres :=
  match c_toks c with
  | t :: rest => Next (mkCfg (n :: c_states c) (token_value t :: c_vals c) rest (c_dropped c))
  | [] => Final (Err (EOther 4)) []                (* shift of $end: never *)
  end.

Definition do_reduce (tb : tables) (c : config) (p : nat) : stepres :=
  match p, nth_error (tb_prods tb) (pred p) with
  | S _, Some (lhs, rhs, a) =>
      let n := length rhs in
      if Nat.ltb (length (c_vals c)) n then Final (Err (EOther 5)) []
      else
        let args := rev (firstn n (c_vals c)) in
        let states' := skipn n (c_states c) in
        match run_action a args with
        | Err e => Final (Err e) []
        | Ok (v, dropped) =>
            match tb_goto tb (hd 0 states') lhs with
            | Some g => Next (mkCfg (g :: states') (v :: skipn n (c_vals c)) (c_toks c)
                                    (c_dropped c ++ dropped))
            | None => Final (Err (EOther 6)) []
            end
        end
  | _, _ => Final (Err (EOther 7)) []
  end.

Definition do_accept (lexerr : option (nat * str)) (c : config) : stepres :=
  match c_vals c with
  | VItem i :: below =>
      (* ghost: whatever is not in the returned tree would be lost (never with PLY's tables:
         acceptance happens on $end with exactly one value on the stack) *)
      Final (Ok i) (drops [stack_text below; render (c_toks c);
                           match lexerr with Some e => snd e | None => [] end])
  | _ => Final (Err (EOther 8)) []
  end.

Definition step (tb : tables) (lexerr : option (nat * str)) (c : config) : stepres :=
  let st := hd 0 (c_states c) in
  match c_toks c, lexerr with
  | [], Some e => Final (Err (illegal_error e)) []     (* get_token() raises before any decision *)
  | _, _ =>
      let la := hd_error (c_toks c) in
      let lat := match la with Some t => tk_type t | None => T_EOF end in
      match tb_action tb st lat with
      | Shift n => do_shift c n
      | Reduce p => do_reduce tb c p
      | Accept => do_accept lexerr c
      | ActErr => Final (Err (syntax_error la)) []
      end
  end.

Inductive outcome := Done (r : res item) (events : list gev) | OutOfFuel.

Fixpoint run (tb : tables) (lexerr : option (nat * str)) (fuel : nat) (c : config) : outcome :=
  match fuel with
  | O => OutOfFuel
  | S f =>
      match step tb lexerr c with
      | Final r evs => Done r (c_dropped c ++ evs)
      | Next c' => run tb lexerr f c'
      end
  end.

Definition init_config (toks : list token) (evs : list gev) : config := mkCfg [0] [] toks evs.
