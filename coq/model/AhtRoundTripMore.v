(* AhtRoundTripMore.v — the executable guard `rt_ok2` of the extended proved C13 round trip (props/C13x.v).
   Executable definitions only.

   `rt_ok2` is `AhtRoundTrip.rt_ok` (an image of the grammar built without layout, see there) with two of its
   exclusions lifted:

     (1) bracketed ranges: a Range node is inside when each bound is what `phrase_or_possibly_negative_term`
         derives and auto_head_tail + the printer write back as such:
           a Word that is one TERM lexeme and no reserved word (a number and `*` are such words; the word TO
           is NOT allowed as a bound: `[TO TO b]` is a syntax error), a Phrase that is one PHRASE lexeme, or a
           Prohibit of one of these (`[-1 TO 5]`, `{-"a b" TO *}`); both bracket kinds on either side.
         Not a bound: Word('-1') (no TERM lexeme: it prints like Prohibit(Word('1')) and parses to that),
         Plus / Not / a doubly prohibited value / a Regex / Fuzzy / any other node (syntax errors).
     (2) operands of an implicit operation that start with `+`, `-` or the word TO: allowed whenever the
         operand just before is not an AND / OR operation, i.e. the only thing excluded is finding F4's own
         pattern `AutoHeadTail.f4_adjacent` (`a AND b -c`), node by node.

   Everything else is as in `rt_at`. *)
Require Import Base Decimal Tree GenTree GenVisitors GenParser Visitor Eq Traverse Lexer Print Respace AutoHeadTail.
Require Import AhtRoundTrip.

(* phrase_or_term: a single-lexeme word (not reserved) or phrase, without layout *)
Definition leaf_val (t : item) : bool := leaf_word t || leaf_phrase t.

(* phrase_or_possibly_negative_term *)
Definition bound2 (t : item) : bool :=
  match t with
  | Unary KProhibit m a => meta_free m && leaf_val a
  | _ => leaf_val t
  end.

(* lv as in rt_at: 0 = anywhere an expression stands, 1 = operand of an implicit operation, 2 = operand of OR,
   3 = operand of AND / NOT / + / - / field / ^ *)
Fixpoint rt2_at (lv : nat) (t : item) : bool :=
  meta_free (meta_of t) &&
  match t with
  | Term KWord _ v => word_lexeme true v
  | Term KPhrase _ v => phrase_lexeme v
  | Term KRegex _ v => regex_lexeme v
  | Fuzzy _ x d impl => leaf_word x && (if impl then dec_struct_eqb d dec_half else deg_ok d)
  | Proximity _ x z impl => leaf_phrase x && (if impl then Z.eqb z 1 else prox_ok z)
  | Boost _ e f impl =>
      boostable e && rt2_at 3 e && (if impl then dec_struct_eqb f dec_one else deg_ok f)
  | Unary _ _ a => rt2_at 3 a
  | Grp KGroup _ e => rt2_at 0 e
  | Grp KFieldGroup _ _ => false                 (* only as the direct expression of a field *)
  | SearchField _ n e =>
      word_lexeme false n &&
      match e with
      | Grp KFieldGroup me x => meta_free me && rt2_at 0 x
      | Grp KGroup _ _ => false
      | _ => rt2_at 3 e
      end &&
      match aht e with Some e' => name_glue n (print true e') | None => false end
  | ORange _ _ a incl => (leaf_word a || leaf_phrase a) && (incl || negb (starts_eq a))
  | Op KUnknown _ ops =>
      Nat.leb lv 0 && Nat.leb 2 (length ops) && forallb (rt2_at 1) ops && negb (f4_adjacent ops)
  | Op KOr _ ops => Nat.leb lv 1 && Nat.leb 2 (length ops) && forallb (rt2_at 2) ops
  | Op KAnd _ ops => Nat.leb lv 2 && Nat.leb 2 (length ops) && forallb (rt2_at 3) ops
  | Op KBool _ _ => false
  | Range _ lo hi _ _ => bound2 lo && bound2 hi
  | NoneItem _ => false
  end.

Definition rt_ok2 (t : item) : bool := rt2_at 0 t.
