(* Schema.v — luqum.elasticsearch.schema.SchemaAnalyzer.  Executable definitions only.

   An index description is {"settings": ..., "mappings": ...}.  Field definitions are dicts of which
   the analyzer reads four keys: "type", "index", "fields" (multi-fields) and "properties".

   * dicts are association lists in INSERTION order (iteration order of the walk, and through it the
     order of every list the analyzer returns and of the keys of nested_fields()).
   * an absent key and an empty dict are not distinguished for "fields" and "properties" (the code
     tests them by truthiness / iterates them; the only place where they differ is the overlay
     dict(subdef, **fdef) of a sub-field that carries an explicit empty "properties"/"type": None —
     the harness never produces such definitions and reports them as unmodelled).
   * "type" / "index" values are str (absent = None).

   The model follows the code as it is, including the re-binding of the loop variables `fname` and
   `fdef` by the inner `for fname, fdef in subfield_defs.items()` of _walk_properties: with
   subfields=True, the properties of a field that has both "fields" and "properties" are walked under
   the name and the (overlaid) definition of its LAST sub-field. *)
Require Import Base Json EsSpecs EsCheck EsBuild.

Inductive fdef :=
| FDef (ty : option str) (idx : option str) (flds : list (str * fdef)) (props : list (str * fdef)).

Definition fd_type (d : fdef) : option str := match d with FDef t _ _ _ => t end.
Definition fd_index (d : fdef) : option str := match d with FDef _ i _ _ => i end.
Definition fd_fields (d : fdef) : list (str * fdef) := match d with FDef _ _ f _ => f end.
Definition fd_props (d : fdef) : list (str * fdef) := match d with FDef _ _ _ p => p end.

Definition fprops := list (str * fdef).

(* schema["mappings"]: the value of its "properties" key if the key is there, and its other keys
   (legacy layout: document type name -> {"properties": ...}, None = that document type has no
   "properties" key) *)
Record mappings := mkMappings {
  mp_properties : option fprops;
  mp_types : list (str * option fprops) }.

Record schema := mkSchema {
  sc_default_field : option str;     (* settings["query"]["default_field"]; None = KeyError *)
  sc_mappings : mappings }.

(* SchemaAnalyzer.__init__: `if mappings.get("properties")` — one document type "_doc" — else every
   key of mappings is a document type (a falsy "properties" entry is then a document type without
   properties).  The properties of the document types, in the order of self.mappings.values() *)
Definition doc_props (s : schema) : list fprops :=
  match mp_properties (sc_mappings s) with
  | Some (x :: p) => [x :: p]
  | _ => map (fun t => match snd t with Some p => p | None => [] end) (mp_types (sc_mappings s))
  end.

(* ---------------------------------------------------------------- string constants *)
Definition k_text : str := [116;101;120;116]%N.                                   (* "text" *)
Definition k_string : str := [115;116;114;105;110;103]%N.                         (* "string" *)
Definition k_object : str := [111;98;106;101;99;116]%N.                           (* "object" *)
Definition k_not_analyzed : str := [110;111;116;95;97;110;97;108;121;122;101;100]%N. (* "not_analyzed" *)

(* ---------------------------------------------------------------- _walk_properties *)
(* what the generator yields: (fname, fdef, parents) *)
Definition entry := (str * fdef * list (str * fdef))%type.
Definition e_name (e : entry) : str := fst (fst e).
Definition e_def (e : entry) : fdef := snd (fst e).
Definition e_parents (e : entry) : list (str * fdef) := snd e.

(* dict(subdef, **fdef): the parent's definition without "fields", overlaid by the sub-field's *)
Definition merge_def (p s : fdef) : fdef :=
  match p, s with
  | FDef pt pi _ pp, FDef st si sf sp =>
      FDef (match st with Some _ => st | None => pt end)
           (match si with Some _ => si | None => pi end)
           sf
           (match sp with [] => pp | _ :: _ => sp end)
  end.

Definition walk_list (f : list (str * fdef) -> str -> fdef -> list entry) (parents : list (str * fdef)) :=
  fix go (l : list (str * fdef)) : list entry :=
    match l with
    | [] => []
    | (n, d) :: l' => f parents n d ++ go l'
    end.

Fixpoint walk_def (sub : bool) (parents : list (str * fdef)) (fname : str) (d : fdef) {struct d}
  : list entry :=
  match d with
  | FDef ty idx flds props =>
      let sp := parents ++ [(fname, d)] in
      let subs := if sub then map (fun sd => (fst sd, merge_def d (snd sd), sp)) flds else [] in
      (* inner_properties = fdef.get("properties", {}) with the CURRENT bindings of fname / fdef *)
      let dflt := walk_list (walk_def sub) sp props in
      let rest :=
        if sub then
          (fix last_cont (l : list (str * fdef)) : list entry :=
             match l with
             | [] => dflt                                 (* no sub-field: nothing was re-bound *)
             | (sn, sd) :: l' =>
                 match l' with
                 | [] =>                                  (* the last sub-field is what fname/fdef are now *)
                     match sd with
                     | FDef _ _ _ sprops =>
                         match sprops with
                         | [] => walk_list (walk_def sub) (parents ++ [(sn, merge_def d sd)]) props
                         | _ :: _ => walk_list (walk_def sub) (parents ++ [(sn, merge_def d sd)]) sprops
                         end
                     end
                 | _ :: _ => last_cont l'
                 end
             end) flds
        else dflt in
      (fname, d, parents) :: subs ++ rest
  end.

Definition walk_properties (sub : bool) (parents : list (str * fdef)) (props : fprops) : list entry :=
  walk_list (walk_def sub) parents props.

(* iter_fields(subfields) *)
Definition iter_fields (s : schema) (sub : bool) : list entry :=
  flat_map (walk_properties sub []) (doc_props s).

(* _dot_name(fname, parents) *)
Definition dot_name (fname : str) (parents : list (str * fdef)) : str :=
  dotted (map fst parents ++ [fname]).
Definition e_dot (e : entry) : str := dot_name (e_name e) (e_parents e).

(* pdef = parents[-1][1] if parents else {} ; pdef.get("type") *)
Definition parent_type (parents : list (str * fdef)) : option str :=
  match rev parents with
  | [] => None
  | (_, d) :: _ => fd_type d
  end.

Definition type_is (t : option str) (s : str) : bool := ostr_eqb t (Some s).

(* ---------------------------------------------------------------- the analyzer's methods *)
(* default_field() *)
Definition default_field (s : schema) : str :=
  match sc_default_field s with Some f => f | None => [c_star] end.

(* the test of not_analyzed_fields *)
Definition not_analyzed_def (d : fdef) : bool :=
  (type_is (fd_type d) k_string &&
   str_eqb (match fd_index d with Some i => i | None => [] end) k_not_analyzed) ||
  negb (type_is (fd_type d) k_text || type_is (fd_type d) k_string ||
        type_is (fd_type d) k_nested || type_is (fd_type d) k_object).

Definition not_analyzed_fields (s : schema) : list str :=
  map e_dot (filter (fun e => not_analyzed_def (e_def e)) (iter_fields s true)).

Definition sd_kv (s : spec) : list (str * spec) := match s with SDict kv => kv | _ => [] end.

(* the body of the loop of nested_fields for one yielded field whose parent is nested:
   `target` is the dict being descended, `cum` the cumulated names, `names` the names of the parents
   still to go through.  The Python code mutates sub-dicts in place; here the updated sub-dict is put
   back at the same key (same position). *)
Fixpoint nf_insert (target : list (str * spec)) (cum names : list str) (fname : str)
  : list (str * spec) :=
  match names with
  | [] =>
      match cum with
      | [] => obj_set fname (SDict []) target
      | _ :: _ =>
          let key := dotted cum in                       (* target.setdefault(key, {}) *)
          let sub := match obj_get key target with Some s => sd_kv s | None => [] end in
          obj_set key (SDict (obj_set fname (SDict []) sub)) target
      end
  | n :: ns =>
      let cum' := cum ++ [n] in
      let key := dotted cum' in
      match obj_get key target with
      | Some s => obj_set key (SDict (nf_insert (sd_kv s) [] ns fname)) target
      | None => nf_insert target cum' ns fname
      end
  end.

Definition nf_step (result : list (str * spec)) (e : entry) : list (str * spec) :=
  if type_is (parent_type (e_parents e)) k_nested
  then nf_insert result [] (map fst (e_parents e)) (e_name e)
  else result.

Definition nested_fields (s : schema) : spec :=
  SDict (fold_left nf_step (iter_fields s false) []).

Definition object_fields (s : schema) : list str :=
  map e_dot
      (filter (fun e => type_is (parent_type (e_parents e)) k_object &&
                        negb (type_is (fd_type (e_def e)) k_object ||
                              type_is (fd_type (e_def e)) k_nested))
              (iter_fields s false)).

Definition sub_fields (s : schema) : list str :=
  flat_map (fun e => map (fun sd => dot_name (fst sd) (e_parents e ++ [(e_name e, e_def e)]))
                         (fd_fields (e_def e)))
           (iter_fields s false).

(* query_builder_options(): the keyword arguments, every other argument of the builder keeps its
   default (default_operator SHOULD, sub_fields None, field_options None, match_word_as_phrase False) *)
Definition options (s : schema) : es_config :=
  mkEsConfig DShould (default_field s) (not_analyzed_fields s) (nested_fields s)
             (SList (object_fields s)) SNone [] false.
