(* SchemaMoreProofs.v — lemmas for C19w: the guards of C19_query_partial that were stated on the analyzer's
   MODELLED WALK (walk_sane, anchor_survives) are derived from predicates on the MAPPING alone; the builder
   reads a nested / object / sub field specification only through its normalised name sets. *)
Require Import Base Decimal Tree GenTree GenVisitors GenChars GenEs Visitor Json EsSpecs EsCheck EsBuild Schema SchemaSpec.
From Coq Require Import Lia.
Require Import TreeInd EsProofs SchemaProofs.

(* ================================================================ mapping-level predicates *)
(* where `resolve` looks for the next component: the properties, or — for a field without properties — the
   multi-fields *)
Definition children_of (d : fdef) : list (str * fdef) :=
  match fd_props d with [] => fd_fields d | _ :: _ => fd_props d end.

(* the two things the analyzer reads from the type of a container *)
Definition kind_eqb (d1 d2 : fdef) : bool :=
  Bool.eqb (type_is (fd_type d1) k_nested) (type_is (fd_type d2) k_nested) &&
  Bool.eqb (type_is (fd_type d1) k_object) (type_is (fd_type d2) k_object).

(* two declarations of the same field (in two document types) agree, at every path declared by both, on
   being nested and on being an explicit object *)
Fixpoint agree_def (d1 d2 : fdef) {struct d1} : bool :=
  kind_eqb d1 d2 &&
  match d1 with
  | FDef _ _ flds props =>
      (fix go (l : list (str * fdef)) : bool :=
         match l with
         | [] => true
         | (n, c1) :: l' =>
             match obj_get n (children_of d2) with Some c2 => agree_def c1 c2 | None => true end && go l'
         end) (match props with [] => flds | _ :: _ => props end)
  end.

Definition root_def (p : fprops) : fdef := FDef (Some k_object) None [] p.
Definition agree_props (p1 p2 : fprops) : bool := agree_def (root_def p1) (root_def p2).

(* every pair of document types agrees (trivially true of a well-formed description with one document type:
   types_agree_single) *)
Definition types_agree (s : schema) : bool :=
  forallb (fun p1 => forallb (fun p2 => agree_props p1 p2) (doc_props s)) (doc_props s).

(* F12c's executable predicate (harness/c19.py `redeclared`): a nested ancestor of the field is declared by
   more than one document type *)
Fixpoint declares (props : fprops) (path : list str) : bool :=
  match path with
  | [] => true
  | c :: cs => match obj_get c props with Some d => declares (fd_props d) cs | None => false end
  end.
Definition declared_count (s : schema) (path : list str) : nat :=
  length (filter (fun p => declares p path) (doc_props s)).
Fixpoint redeclared_from (s : schema) (pre : list str) (anc : list (str * fdef)) : bool :=
  match anc with
  | [] => false
  | (n, d) :: anc' =>
      (type_is (fd_type d) k_nested && Nat.ltb 1 (declared_count s (pre ++ [n]))) ||
      redeclared_from s (pre ++ [n]) anc'
  end.
Definition redeclared (s : schema) (anc : list (str * fdef)) : bool := redeclared_from s [] anc.

(* ================================================================ induction on field definitions *)
Section FdefInd.
  Variable P : fdef -> Prop.
  Hypothesis H : forall ty idx flds props,
      Forall (fun e => P (snd e)) flds -> Forall (fun e => P (snd e)) props -> P (FDef ty idx flds props).
  Fixpoint fdef_ind' (d : fdef) : P d :=
    match d with
    | FDef ty idx flds props =>
        H ty idx flds props
          ((fix go (l : list (str * fdef)) : Forall (fun e => P (snd e)) l :=
              match l with
              | [] => Forall_nil _
              | e :: l' => Forall_cons e (fdef_ind' (snd e)) (go l')
              end) flds)
          ((fix go (l : list (str * fdef)) : Forall (fun e => P (snd e)) l :=
              match l with
              | [] => Forall_nil _
              | e :: l' => Forall_cons e (fdef_ind' (snd e)) (go l')
              end) props)
    end.
End FdefInd.

(* ================================================================ well-formed definitions *)
Lemma wf_sub_wf sd : wf_sub sd = true -> wf_def sd = true.
Proof.
  destruct sd as [ty idx flds props]. unfold wf_sub, is_leaf_def, is_container_type. cbn [fd_type fd_props fd_fields].
  intros H. apply andb_true_iff in H. destruct H as [H Hf]. apply andb_true_iff in H. destruct H as [H Hp].
  apply andb_true_iff in H. destruct H as [Ht Hc].
  destruct props; [|discriminate]. destruct flds; [|discriminate]. destruct ty; [|discriminate].
  cbn [wf_def]. rewrite orb_true_r. reflexivity.
Qed.

Lemma wf_sub_shape sd :
  wf_sub sd = true ->
  fd_props sd = [] /\ fd_fields sd = [] /\ exists ty, fd_type sd = Some ty /\ is_container_type sd = false.
Proof.
  destruct sd as [ty idx flds props]. unfold wf_sub, is_leaf_def. cbn [fd_type fd_props fd_fields].
  intros H. apply andb_true_iff in H. destruct H as [H Hf]. apply andb_true_iff in H. destruct H as [H Hp].
  apply andb_true_iff in H. destruct H as [Ht Hc].
  destruct props; [|discriminate]. destruct flds; [|discriminate]. destruct ty as [ty|]; [|discriminate].
  split; [reflexivity|]. split; [reflexivity|]. exists ty. split; [reflexivity|].
  apply negb_true_iff in Hc. exact Hc.
Qed.

Definition good_name (n : str) : Prop := nonempty_name n = true /\ nodot n = true.

Lemma wf_go_all (l : list (str * fdef)) :
  (fix go (l : list (str * fdef)) : bool :=
     match l with
     | [] => true
     | (n, c) :: l' => nonempty_name n && nodot n && wf_def c && go l'
     end) l = true ->
  forall n c, In (n, c) l -> wf_def c = true /\ good_name n.
Proof.
  induction l as [|[n' c'] l IH]; intros H n c Hin; [destruct Hin|].
  apply andb_true_iff in H. destruct H as [H Hl]. apply andb_true_iff in H. destruct H as [H Hc].
  apply andb_true_iff in H. destruct H as [Hn Hd].
  destruct Hin as [Heq|Hin]; [inversion Heq; subst; repeat split; assumption|]. eapply IH; eassumption.
Qed.

(* what wf_def says about the children of a field, whichever of properties / multi-fields they are *)
Lemma wf_children d :
  wf_def d = true ->
  nodup_keys (map fst (children_of d)) = true /\
  forall n c, In (n, c) (children_of d) -> wf_def c = true /\ good_name n.
Proof.
  destruct d as [ty idx flds props]. unfold children_of. cbn [fd_props fd_fields]. intros H.
  cbn [wf_def] in H.
  apply andb_true_iff in H. destruct H as [H Hgo]. apply andb_true_iff in H. destruct H as [H Hnp].
  apply andb_true_iff in H. destruct H as [H Hfl]. apply andb_true_iff in H. destruct H as [H Hnf].
  destruct props as [|x props].
  - split; [exact Hnf|]. intros n c Hin. rewrite forallb_forall in Hfl. specialize (Hfl _ Hin). cbn [fst snd] in Hfl.
    apply andb_true_iff in Hfl. destruct Hfl as [Hfl Hs]. apply andb_true_iff in Hfl. destruct Hfl as [Hn Hd].
    split; [apply wf_sub_wf; exact Hs|split; assumption].
  - split; [exact Hnp|]. apply wf_go_all. exact Hgo.
Qed.

Lemma wf_props_of d :
  wf_def d = true ->
  nodup_keys (map fst (fd_props d)) = true /\
  forall n c, In (n, c) (fd_props d) -> wf_def c = true /\ good_name n.
Proof.
  intros H. destruct (fd_props d) as [|x l] eqn:E; [split; [reflexivity|intros n c []]|].
  pose proof (wf_children d H) as Hc. unfold children_of in Hc. rewrite E in Hc. exact Hc.
Qed.

(* a field with multi-fields has no properties and is not a container *)
Lemma wf_holder d :
  wf_def d = true -> fd_fields d <> [] ->
  fd_props d = [] /\ type_is (fd_type d) k_nested = false /\ type_is (fd_type d) k_object = false /\
  forall sn sd, In (sn, sd) (fd_fields d) -> wf_sub sd = true.
Proof.
  destruct d as [ty idx flds props]. cbn [fd_props fd_fields fd_type]. intros H Hne. cbn [wf_def] in H.
  apply andb_true_iff in H. destruct H as [H Hgo]. apply andb_true_iff in H. destruct H as [H Hnp].
  apply andb_true_iff in H. destruct H as [H Hfl]. apply andb_true_iff in H. destruct H as [H Hnf].
  apply andb_true_iff in H. destruct H as [H Hty].
  destruct props as [|x props].
  - split; [reflexivity|]. destruct flds as [|f flds]; [congruence|]. rewrite orb_false_r in H.
    apply negb_true_iff, orb_false_iff in H. destruct H as [Ho Hn]. split; [exact Hn|]. split; [exact Ho|].
    intros sn sd Hin. rewrite forallb_forall in Hfl. specialize (Hfl _ Hin). cbn [snd] in Hfl.
    apply andb_true_iff in Hfl. apply Hfl.
  - apply andb_true_iff in H. destruct H as [H _]. destruct flds; [congruence|discriminate H].
Qed.

Lemma wf_root p : wf_props p = true -> wf_def (root_def p) = true.
Proof. intros H. exact H. Qed.

Lemma children_root p : children_of (root_def p) = p.
Proof. unfold children_of, root_def. cbn [fd_props fd_fields]. destruct p; reflexivity. Qed.

Lemma nodup_get {A} (l : list (str * A)) n (x : A) :
  nodup_keys (map fst l) = true -> In (n, x) l -> obj_get n l = Some x.
Proof.
  induction l as [|[k v] l IH]; intros Hn Hin; [destruct Hin|]. cbn [map fst nodup_keys] in Hn.
  apply andb_true_iff in Hn. destruct Hn as [Hk Hn]. cbn [obj_get].
  destruct Hin as [Heq|Hin].
  - inversion Heq; subst. rewrite str_eqb_refl. reflexivity.
  - destruct (str_eqb n k) eqn:E; [|apply IH; assumption].
    apply str_eqb_eq in E. subst k. apply negb_true_iff in Hk.
    assert (Hm : mem_str n (map fst l) = true).
    { apply mem_str_In. apply in_map_iff. exists (n, x). auto. }
    congruence.
Qed.

Lemma nodup_same {A} (l : list (str * A)) n (x y : A) :
  nodup_keys (map fst l) = true -> In (n, x) l -> In (n, y) l -> x = y.
Proof.
  intros Hn Hx Hy. pose proof (nodup_get l n x Hn Hx) as H1. pose proof (nodup_get l n y Hn Hy) as H2. congruence.
Qed.

(* ================================================================ paths in a mapping *)
(* a chain of (name, definition), each found among the children of the one before *)
Fixpoint cpath (top : list (str * fdef)) (ch : list (str * fdef)) : Prop :=
  match ch with
  | [] => True
  | (n, d) :: ch' => In (n, d) top /\ cpath (children_of d) ch'
  end.
(* the same through "properties" only *)
Fixpoint ppath (top : list (str * fdef)) (ch : list (str * fdef)) : Prop :=
  match ch with
  | [] => True
  | (n, d) :: ch' => In (n, d) top /\ ppath (fd_props d) ch'
  end.

Lemma ppath_cpath ch : forall top, ppath top ch -> cpath top ch.
Proof.
  induction ch as [|[n d] ch IH]; intros top H; [exact I|]. destruct H as [Hin H]. split; [exact Hin|].
  destruct ch as [|[n' d'] ch']; [exact I|]. apply IH. unfold children_of.
  destruct (fd_props d) as [|x l] eqn:E; [destruct H as [[] _]|exact H].
Qed.

Lemma ppath_app x : forall top y, ppath top (x ++ y) -> ppath top x.
Proof.
  induction x as [|[n d] x IH]; intros top y H; [exact I|]. destruct H as [Hin H]. split; [exact Hin|].
  eapply IH. exact H.
Qed.
Lemma cpath_app x : forall top y, cpath top (x ++ y) -> cpath top x.
Proof.
  induction x as [|[n d] x IH]; intros top y H; [exact I|]. destruct H as [Hin H]. split; [exact Hin|].
  eapply IH. exact H.
Qed.

Lemma ppath_snoc x : forall top n d m c,
  ppath top (x ++ [(n, d)]) -> In (m, c) (fd_props d) -> ppath top (x ++ [(n, d); (m, c)]).
Proof.
  induction x as [|[n0 d0] x IH]; intros top n d m c H Hin.
  - destruct H as [H _]. cbn. auto.
  - destruct H as [H0 H]. split; [exact H0|]. apply IH; assumption.
Qed.

Lemma ppath_tail x : forall top y, ppath top (x ++ y) ->
  match rev x with [] => ppath top y | (_, d) :: _ => ppath (fd_props d) y end.
Proof.
  induction x as [|[n d] x IH]; intros top y H; [exact H|]. destruct H as [Hin H].
  specialize (IH _ _ H). cbn [rev]. destruct (rev x) as [|[n' d'] r] eqn:E; cbn [app]; [|exact IH].
  assert (x = []) by (rewrite <- (rev_involutive x), E; reflexivity). subst x. exact H.
Qed.

(* names on a path of a well-formed mapping *)
Lemma ppath_names ch : forall top,
  (forall n c, In (n, c) top -> wf_def c = true /\ good_name n) ->
  ppath top ch -> Forall good_name (map fst ch).
Proof.
  induction ch as [|[n d] ch IH]; intros top Hwf H; [constructor|]. destruct H as [Hin H].
  destruct (Hwf _ _ Hin) as [Hd Hn]. cbn [map fst]. constructor; [exact Hn|].
  eapply IH; [|exact H]. apply (wf_props_of d Hd).
Qed.

Lemma good_names_bool l : Forall good_name l -> forallb nodot l = true /\ forallb nonempty_name l = true.
Proof.
  induction 1 as [|x l [Hx1 Hx2] _ [IH1 IH2]]; [split; reflexivity|]. cbn [forallb].
  rewrite Hx1, Hx2, IH1, IH2. split; reflexivity.
Qed.

(* ================================================================ agreement along two paths *)
Lemma agree_def_unfold d1 d2 :
  agree_def d1 d2 =
  kind_eqb d1 d2 &&
  forallb (fun e => match obj_get (fst e) (children_of d2) with Some c2 => agree_def (snd e) c2 | None => true end)
          (children_of d1).
Proof.
  destruct d1 as [ty idx flds props]. cbn [agree_def]. f_equal. unfold children_of. cbn [fd_props fd_fields].
  generalize (match props with [] => flds | _ :: _ => props end). intros l.
  induction l as [|[n c] l IH]; [reflexivity|]. cbn [forallb fst snd]. rewrite IH. reflexivity.
Qed.

Lemma agree_child d1 d2 n c1 c2 :
  agree_def d1 d2 = true -> wf_def d2 = true ->
  In (n, c1) (children_of d1) -> In (n, c2) (children_of d2) -> agree_def c1 c2 = true.
Proof.
  intros Ha Hwf H1 H2. rewrite agree_def_unfold in Ha. apply andb_true_iff in Ha. destruct Ha as [_ Ha].
  rewrite forallb_forall in Ha. specialize (Ha _ H1). cbn [fst snd] in Ha.
  rewrite (nodup_get _ _ _ (proj1 (wf_children d2 Hwf)) H2) in Ha. exact Ha.
Qed.

Lemma agree_kind d1 d2 : agree_def d1 d2 = true -> kind_eqb d1 d2 = true.
Proof. rewrite agree_def_unfold. intros H. apply andb_true_iff in H. apply H. Qed.

(* the definitions found at the end of two paths with the same names are of the same kind *)
Lemma agree_last c1 : forall c2 D1 D2 n x1 n' x2,
  agree_def D1 D2 = true -> wf_def D2 = true ->
  cpath (children_of D1) (c1 ++ [(n, x1)]) -> cpath (children_of D2) (c2 ++ [(n', x2)]) ->
  map fst (c1 ++ [(n, x1)]) = map fst (c2 ++ [(n', x2)]) ->
  kind_eqb x1 x2 = true.
Proof.
  induction c1 as [|[m y1] c1 IH]; intros c2 D1 D2 n x1 n' x2 Ha Hwf H1 H2 Hn.
  - destruct c2 as [|[m' y2] c2]; [|destruct c2; discriminate Hn]. cbn in Hn. injection Hn as <-.
    destruct H1 as [H1 _]. destruct H2 as [H2 _]. apply agree_kind. eapply agree_child; eassumption.
  - destruct c2 as [|[m' y2] c2]; [destruct c1; discriminate Hn|]. cbn [app map fst] in Hn. injection Hn as <- Hn.
    destruct H1 as [H1 H1']. destruct H2 as [H2 H2'].
    eapply IH; [| |exact H1'|exact H2'|exact Hn].
    + eapply agree_child; eassumption.
    + apply (proj2 (wf_children D2 Hwf) _ _ H2).
Qed.

Lemma kind_eqb_type K x1 x2 :
  K = k_nested \/ K = k_object -> kind_eqb x1 x2 = true ->
  type_is (fd_type x1) K = type_is (fd_type x2) K.
Proof.
  unfold kind_eqb. intros HK H. apply andb_true_iff in H. destruct H as [H1 H2].
  apply Bool.eqb_prop in H1. apply Bool.eqb_prop in H2. destruct HK as [->| ->]; assumption.
Qed.

Lemma kind_eqb_refl d : kind_eqb d d = true.
Proof. unfold kind_eqb. rewrite !Bool.eqb_reflx. reflexivity. Qed.

(* a well-formed definition agrees with itself *)
Lemma agree_refl : forall d, wf_def d = true -> agree_def d d = true.
Proof.
  induction d as [ty idx flds props IHf IHp] using fdef_ind'. intros Hwf.
  rewrite agree_def_unfold, kind_eqb_refl. cbn [andb]. apply forallb_forall. intros [n c] Hin. cbn [fst snd].
  destruct (wf_children _ Hwf) as [Hnd Hch].
  rewrite (nodup_get _ _ _ Hnd Hin).
  assert (HP : wf_def c = true -> agree_def c c = true).
  { unfold children_of in Hin. cbn [fd_props fd_fields] in Hin. destruct props as [|x props].
    - rewrite Forall_forall in IHf. apply (IHf _ Hin).
    - rewrite Forall_forall in IHp. apply (IHp _ Hin). }
  apply HP. apply (Hch _ _ Hin).
Qed.

Theorem types_agree_single s :
  wf_schema s = true -> length (doc_props s) <= 1 -> types_agree s = true.
Proof.
  unfold wf_schema, types_agree. intros Hwf Hl. destruct (doc_props s) as [|p [|q l]]; [reflexivity| |cbn in Hl; lia].
  cbn [forallb] in *. rewrite andb_true_r in Hwf. rewrite !andb_true_r. unfold agree_props. apply agree_refl. exact Hwf.
Qed.

(* ================================================================ what the walk yields *)
Definition fullchain (e : entry) : list (str * fdef) := e_parents e ++ [(e_name e, e_def e)].

Lemma in_walk_list f parents l e :
  In e (walk_list f parents l) -> exists n d, In (n, d) l /\ In e (f parents n d).
Proof.
  induction l as [|[n d] l IH]; intros H; [destruct H|]. cbn [walk_list] in H. apply in_app_or in H.
  destruct H as [H|H]; [exists n, d; split; [left; reflexivity|exact H]|].
  destruct (IH H) as [n' [d' [Hin He]]]. exists n', d'. split; [right; exact Hin|exact He].
Qed.

Lemma walk_list_app f parents l1 l2 :
  walk_list f parents (l1 ++ l2) = walk_list f parents l1 ++ walk_list f parents l2.
Proof.
  induction l1 as [|[n d] l1 IH]; [reflexivity|]. cbn [app walk_list]. rewrite IH, app_assoc. reflexivity.
Qed.

Lemma walk_def_false parents n d :
  walk_def false parents n d = (n, d, parents) :: walk_list (walk_def false) (parents ++ [(n, d)]) (fd_props d).
Proof. destruct d. reflexivity. Qed.

(* without sub-fields: every yielded field is at the end of a path through "properties" (any description) *)
Lemma walk_false_chain : forall d parents n e,
  In e (walk_def false parents n d) ->
  exists ps, fullchain e = parents ++ (n, d) :: ps /\ ppath (fd_props d) ps.
Proof.
  induction d as [ty idx flds props _ IHp] using fdef_ind'. intros parents n e H.
  rewrite walk_def_false in H. destruct H as [<-|H].
  - exists []. split; [reflexivity|exact I].
  - apply in_walk_list in H. destruct H as [n' [d' [Hin He]]]. cbn [fd_props] in Hin.
    rewrite Forall_forall in IHp. destruct (IHp _ Hin _ _ _ He) as [ps [Hc Hp]]. cbn [snd] in *.
    exists ((n', d') :: ps). split; [rewrite Hc, <- app_assoc; reflexivity|]. cbn [fd_props]. split; assumption.
Qed.

Lemma walk_list_false_chain parents l e :
  In e (walk_list (walk_def false) parents l) ->
  exists ps, ps <> [] /\ fullchain e = parents ++ ps /\ ppath l ps.
Proof.
  intros H. apply in_walk_list in H. destruct H as [n [d [Hin He]]].
  destruct (walk_false_chain _ _ _ _ He) as [ps [Hc Hp]].
  exists ((n, d) :: ps). split; [discriminate|]. split; [exact Hc|]. split; assumption.
Qed.

(* the continuation of _walk_properties after the loop over the multi-fields, when the field has no properties
   (what the inline fix of Schema.walk_def computes then) *)
Definition last_cont_of (parents : list (str * fdef)) (d : fdef) :=
  fix last_cont (l : list (str * fdef)) : list entry :=
    match l with
    | [] => []
    | (sn, sd) :: l' =>
        match l' with
        | [] => match sd with
                | FDef _ _ _ sprops =>
                    match sprops with
                    | [] => []
                    | _ :: _ => walk_list (walk_def true) (parents ++ [(sn, merge_def d sd)]) sprops
                    end
                end
        | _ :: _ => last_cont l'
        end
    end.

Lemma last_cont_of_nil parents d l :
  (forall sn sd, In (sn, sd) l -> fd_props sd = []) -> last_cont_of parents d l = [].
Proof.
  induction l as [|[sn sd] l IH]; intros Hs; [reflexivity|].
  destruct l as [|x l'].
  - pose proof (Hs sn sd (or_introl eq_refl)) as Hsd. destruct sd as [t i ff pp]. cbn [fd_props] in Hsd. subst pp.
    reflexivity.
  - change (last_cont_of parents d ((sn, sd) :: x :: l')) with (last_cont_of parents d (x :: l')).
    apply IH. intros sn' sd' Hin. apply (Hs sn' sd'). right. exact Hin.
Qed.

(* with sub-fields, for a well-formed definition: the field itself, its multi-fields (overlaid), then what is
   below its properties — nothing is re-bound *)
Lemma walk_def_true_wf parents n d :
  wf_def d = true ->
  walk_def true parents n d =
  (n, d, parents) ::
  map (fun sd => (fst sd, merge_def d (snd sd), parents ++ [(n, d)])) (fd_fields d) ++
  walk_list (walk_def true) (parents ++ [(n, d)]) (fd_props d).
Proof.
  intros Hwf. destruct (fd_fields d) as [|f flds] eqn:Ef.
  - destruct d as [ty idx flds props]. cbn [fd_fields] in Ef. subst flds. rewrite walk_def_container. reflexivity.
  - assert (Hne : fd_fields d <> []) by (rewrite Ef; discriminate).
    destruct (wf_holder d Hwf Hne) as [Hp [_ [_ Hsubs]]]. rewrite Ef in Hsubs.
    destruct d as [ty idx flds0 props]. cbn [fd_fields fd_props] in *. subst flds0 props.
    cbn [walk_def walk_list]. f_equal. f_equal.
    change (last_cont_of parents (FDef ty idx (f :: flds) []) (f :: flds) = []).
    apply last_cont_of_nil. intros sn sd Hin. apply (wf_sub_shape sd (Hsubs _ _ Hin)).
Qed.

Lemma walk_true_chain : forall d parents n e,
  wf_def d = true -> In e (walk_def true parents n d) ->
  exists ch, chain_of e = map ntype parents ++ ntype (n, d) :: map ntype ch /\ cpath (children_of d) ch.
Proof.
  induction d as [ty idx flds props _ IHp] using fdef_ind'. intros parents n e Hwf H.
  rewrite (walk_def_true_wf _ _ _ Hwf) in H. destruct H as [<-|H].
  - exists []. split; [reflexivity|exact I].
  - apply in_app_or in H. destruct H as [H|H].
    + apply in_map_iff in H. destruct H as [[sn sd] [<- Hin]]. cbn [fst snd fd_fields] in *.
      assert (Hne : fd_fields (FDef ty idx flds props) <> []) by (cbn [fd_fields]; intros ->; destruct Hin).
      destruct (wf_holder _ Hwf Hne) as [Hp [_ [_ Hsubs]]]. cbn [fd_props fd_fields] in *. subst props.
      destruct (wf_sub_shape sd (Hsubs _ _ Hin)) as [_ [_ [t [Ht _]]]].
      exists [(sn, sd)]. split.
      * unfold chain_of, e_parents, e_name, e_def. cbn [fst snd]. rewrite map_app. cbn [map]. rewrite <- app_assoc.
        cbn [app]. rewrite (merge_type _ _ _ Ht). unfold ntype. cbn [fst snd]. rewrite Ht. reflexivity.
      * unfold children_of. cbn [fd_props fd_fields]. split; [exact Hin|exact I].
    + apply in_walk_list in H. destruct H as [n' [d' [Hin He]]]. cbn [fd_props] in Hin.
      rewrite Forall_forall in IHp.
      assert (Hc : In (n', d') (children_of (FDef ty idx flds props))).
      { unfold children_of. cbn [fd_props fd_fields]. destruct props; [destruct Hin|exact Hin]. }
      destruct (IHp _ Hin _ _ _ (proj1 (proj2 (wf_children _ Hwf) _ _ Hc)) He) as [ch [Hch Hp]]. cbn [snd] in *.
      exists ((n', d') :: ch). split.
      * rewrite Hch, map_app. cbn [map]. rewrite <- app_assoc. reflexivity.
      * split; assumption.
Qed.

Lemma walk_true_cpath props e :
  wf_props props = true -> In e (walk_properties true [] props) ->
  exists CH, chain_of e = map ntype CH /\ cpath props CH.
Proof.
  intros Hwf H. unfold walk_properties in H. apply in_walk_list in H. destruct H as [n [d [Hin He]]].
  pose proof (wf_children _ (wf_root _ Hwf)) as [_ Hch]. rewrite children_root in Hch.
  destruct (walk_true_chain _ _ _ _ (proj1 (Hch _ _ Hin)) He) as [ch [Hc Hp]].
  exists ((n, d) :: ch). split; [exact Hc|]. split; assumption.
Qed.

Lemma walk_false_ppath props e :
  In e (walk_properties false [] props) -> ppath props (fullchain e).
Proof.
  intros H. destruct (walk_list_false_chain _ _ _ H) as [ps [_ [Hc Hp]]]. rewrite Hc. exact Hp.
Qed.

(* ================================================================ walk_sane from the mapping *)
Lemma lta_inv ns : forall CH ty,
  last_type_along ns (map ntype CH) = Some ty ->
  exists C1 X C2, CH = C1 ++ X :: C2 /\ ns = map fst (C1 ++ [X]) /\ ty = fd_type (snd X).
Proof.
  induction ns as [|n ns IH]; intros CH ty H; [discriminate H|].
  destruct CH as [|[n' d'] CH]; [destruct ns; discriminate H|]. cbn [map] in H. unfold ntype at 1 in H. cbn [fst snd] in H.
  destruct ns as [|m ns'].
  - cbn [last_type_along] in H. destruct (str_eqb n n') eqn:E; [|discriminate H]. injection H as <-.
    apply str_eqb_eq in E. subst n'. exists [], (n, d'), CH. auto.
  - change (last_type_along (n :: m :: ns') ((n', fd_type d') :: map ntype CH))
      with (if str_eqb n n' then last_type_along (m :: ns') (map ntype CH) else None) in H.
    destruct (str_eqb n n') eqn:E; [|discriminate H]. apply str_eqb_eq in E. subst n'.
    destruct (IH _ _ H) as [C1 [X [C2 [-> [Hn ->]]]]]. exists ((n, d') :: C1), X, C2.
    split; [reflexivity|]. split; [cbn [app map fst]; rewrite Hn; reflexivity|reflexivity].
Qed.

Lemma types_agree_at s p1 p2 :
  types_agree s = true -> In p1 (doc_props s) -> In p2 (doc_props s) -> agree_def (root_def p1) (root_def p2) = true.
Proof.
  unfold types_agree. rewrite forallb_forall. intros H H1 H2. specialize (H _ H1). rewrite forallb_forall in H.
  apply (H _ H2).
Qed.

Lemma wf_schema_at s p : wf_schema s = true -> In p (doc_props s) -> wf_props p = true.
Proof. unfold wf_schema. rewrite forallb_forall. intros H Hin. apply H. exact Hin. Qed.

Lemma wf_top p : wf_props p = true ->
  nodup_keys (map fst p) = true /\ forall n c, In (n, c) p -> wf_def c = true /\ good_name n.
Proof. intros H. pose proof (wf_children _ (wf_root _ H)) as Hc. rewrite children_root in Hc. exact Hc. Qed.

Lemma sane_for_derived K s p1 e :
  K = k_nested \/ K = k_object ->
  wf_schema s = true -> types_agree s = true ->
  In p1 (doc_props s) -> In e (walk_properties false [] p1) ->
  type_is (parent_type (e_parents e)) K = true ->
  sane_for K s e = true.
Proof.
  intros HK Hwf Hag Hp1 He Hty.
  pose proof (walk_false_ppath _ _ He) as Hpp.
  pose proof (ppath_names _ _ (proj2 (wf_top _ (wf_schema_at _ _ Hwf Hp1))) Hpp) as Hnames.
  unfold fullchain in Hnames. rewrite map_app in Hnames. apply Forall_app in Hnames. destruct Hnames as [Hnp Hnn].
  unfold sane_for. apply andb_true_iff. split; [apply andb_true_iff; split|].
  - inversion Hnn as [|? ? [_ Hd] _]; subst. exact Hd.
  - apply (good_names_bool _ Hnp).
  - apply forallb_forall. intros e2 He2. unfold iter_fields in He2. apply in_flat_map in He2.
    destruct He2 as [p2 [Hp2 He2]].
    destruct (walk_true_cpath _ _ (wf_schema_at _ _ Hwf Hp2) He2) as [CH [Hch Hcp]]. rewrite Hch.
    destruct (last_type_along _ _) as [ty|] eqn:El; [|reflexivity].
    destruct (lta_inv _ _ _ El) as [C1 [X [C2 [-> [Hn ->]]]]].
    destruct (e_parents e) as [|a l] eqn:Epar; [discriminate Hty|].
    destruct (@exists_last _ (a :: l) ltac:(discriminate)) as [P0 [[pn pd] HP]]. rewrite HP in *.
    unfold parent_type in Hty. rewrite rev_unit in Hty.
    destruct X as [xn xd]. cbn [snd].
    rewrite <- (kind_eqb_type K pd xd HK); [exact Hty|].
    eapply (agree_last P0 C1 (root_def p1) (root_def p2)).
    + apply (types_agree_at s); assumption.
    + apply wf_root. apply (wf_schema_at s); assumption.
    + rewrite children_root. apply ppath_cpath. unfold fullchain in Hpp. rewrite Epar in Hpp.
      eapply ppath_app. exact Hpp.
    + rewrite children_root. replace (C1 ++ (xn, xd) :: C2) with ((C1 ++ [(xn, xd)]) ++ C2) in Hcp
        by (rewrite <- app_assoc; reflexivity).
      eapply cpath_app. exact Hcp.
    + exact Hn.
Qed.

(* walk_sane is not an assumption any more: it follows from conditions on the mapping *)
Theorem walk_sane_derived s : wf_schema s = true -> types_agree s = true -> walk_sane s = true.
Proof.
  intros Hwf Hag. unfold walk_sane. apply forallb_forall. intros e He. unfold iter_fields in He.
  apply in_flat_map in He. destruct He as [p1 [Hp1 He]].
  apply andb_true_iff. split.
  - destruct (relevant e) eqn:Er; [|reflexivity]. cbn [negb orb].
    apply (sane_for_derived k_nested s p1); auto.
  - destruct (obj_parent e) eqn:Er; [|reflexivity]. cbn [negb orb].
    apply (sane_for_derived k_object s p1); auto.
Qed.

(* ================================================================ anchor_survives from the mapping *)
(* ---- names and dotted names *)
Definition names_of (e : entry) : list str := map fst (fullchain e).

Lemma e_dot_names e : e_dot e = dotted (names_of e).
Proof. unfold e_dot, dot_name, names_of, fullchain. rewrite map_app. reflexivity. Qed.

Lemma sprefix_names l1 l2 :
  l1 <> [] -> l2 <> [] -> forallb nodot l1 = true -> forallb nodot l2 = true ->
  sprefix (dotted l1) (dotted l2) -> exists r, r <> [] /\ l2 = l1 ++ r.
Proof.
  intros H1 H2 D1 D2 [c Hc]. exists (split_on c_dot c). split; [apply split_on_nonempty|].
  rewrite <- (split_dotted l2 H2 D2), Hc, split_on_app, (split_dotted l1 H1 D1). reflexivity.
Qed.

Definition diverge (l1 l2 : list str) : Prop :=
  exists p x y r1 r2, l1 = p ++ x :: r1 /\ l2 = p ++ y :: r2 /\ x <> y.

Lemma diverge_not_prefix l1 l2 r : diverge l1 l2 -> l2 <> l1 ++ r /\ l1 <> l2 ++ r.
Proof.
  intros [p [x [y [r1 [r2 [-> [-> Hne]]]]]]]. split; intros H; rewrite <- app_assoc in H; apply app_inv_head in H;
    injection H as H _; congruence.
Qed.

(* neither dotted name is a strict dotted prefix of the other *)
Definition apart (e e' : entry) : Prop :=
  ~ sprefix (e_dot e) (e_dot e') /\ ~ sprefix (e_dot e') (e_dot e).

Lemma names_nonempty e : names_of e <> [].
Proof. unfold names_of, fullchain. rewrite map_app. destruct (map fst (e_parents e)); discriminate. Qed.

Lemma diverge_apart e e' :
  forallb nodot (names_of e) = true -> forallb nodot (names_of e') = true ->
  diverge (names_of e') (names_of e) -> apart e e'.
Proof.
  intros D D' Hdiv. unfold apart. rewrite !e_dot_names. split; intros Hs.
  - destruct (sprefix_names _ _ (names_nonempty e) (names_nonempty e') D D' Hs) as [r [_ Hr]].
    apply (proj2 (diverge_not_prefix _ _ r Hdiv)). exact Hr.
  - destruct (sprefix_names _ _ (names_nonempty e') (names_nonempty e) D' D Hs) as [r [_ Hr]].
    apply (proj1 (diverge_not_prefix _ _ r Hdiv)). exact Hr.
Qed.

(* ---- where a declared field sits in the walk, and what comes after it *)
Lemma nodup_later {A} (l1 : list (str * A)) n c l2 n2 d2 :
  nodup_keys (map fst (l1 ++ (n, c) :: l2)) = true -> In (n2, d2) l2 -> n2 <> n.
Proof.
  induction l1 as [|[k v] l1 IH]; intros Hn Hin.
  - cbn [app map fst nodup_keys] in Hn. apply andb_true_iff in Hn. destruct Hn as [Hk _].
    apply negb_true_iff in Hk. intros ->.
    assert (Hm : mem_str n (map fst l2) = true).
    { apply mem_str_In. apply in_map_iff. exists (n, d2). auto. }
    congruence.
  - cbn [app map fst nodup_keys] in Hn. apply andb_true_iff in Hn. apply IH; [apply Hn|exact Hin].
Qed.

Lemma later_sibling_diverges pre l2 e' n rest :
  (forall n2 d2, In (n2, d2) l2 -> n2 <> n) ->
  In e' (walk_list (walk_def false) pre l2) ->
  diverge (names_of e') (map fst pre ++ n :: rest).
Proof.
  intros Hne He. destruct (walk_list_false_chain _ _ _ He) as [ps [Hps [Hc Hp]]].
  destruct ps as [|[n2 d2] ps']; [congruence|]. destruct Hp as [Hin _].
  exists (map fst pre), n2, n, (map fst ps'), rest. split; [|split; [reflexivity|apply (Hne _ _ Hin)]].
  unfold names_of. rewrite Hc, map_app. reflexivity.
Qed.

Lemma anchor_split a : forall top pre n c,
  nodup_keys (map fst top) = true ->
  (forall m d, In (m, d) top -> wf_def d = true /\ good_name m) ->
  ppath top (a ++ [(n, c)]) ->
  exists A B, walk_list (walk_def false) pre top = A ++ (n, c, pre ++ a) :: B /\
    forall e', In e' B ->
      diverge (names_of e') (map fst (pre ++ a ++ [(n, c)])) \/
      (exists ps, ps <> [] /\ fullchain e' = (pre ++ a ++ [(n, c)]) ++ ps /\ ppath (fd_props c) ps).
Proof.
  induction a as [|[n1 d1] a IH]; intros top pre n c Hnd Hwf Hp.
  - destruct Hp as [Hin _]. destruct (in_split _ _ Hin) as [l1 [l2 ->]].
    exists (walk_list (walk_def false) pre l1),
           (walk_list (walk_def false) (pre ++ [(n, c)]) (fd_props c) ++ walk_list (walk_def false) pre l2).
    split.
    + rewrite walk_list_app. cbn [walk_list]. rewrite walk_def_false, app_nil_r. cbn [app]. reflexivity.
    + intros e' He. apply in_app_or in He. destruct He as [He|He].
      * right. destruct (walk_list_false_chain _ _ _ He) as [ps [Hps [Hc Hpp]]]. exists ps. cbn [app]. auto.
      * left. cbn [app]. rewrite map_app. cbn [map fst]. eapply later_sibling_diverges; [|exact He].
        intros n2 d2 Hin2. eapply nodup_later; eassumption.
  - cbn [app] in Hp. destruct Hp as [Hin Hp]. destruct (in_split _ _ Hin) as [l1 [l2 ->]].
    destruct (Hwf _ _ Hin) as [Hwd _]. destruct (wf_props_of _ Hwd) as [Hnd1 Hwf1].
    destruct (IH (fd_props d1) (pre ++ [(n1, d1)]) n c Hnd1 Hwf1 Hp) as [A' [B' [HW HB]]].
    assert (Hre : forall (x : list (str * fdef)), (pre ++ [(n1, d1)]) ++ x = pre ++ (n1, d1) :: x).
    { intros x. rewrite <- app_assoc. reflexivity. }
    exists (walk_list (walk_def false) pre l1 ++ (n1, d1, pre) :: A'), (B' ++ walk_list (walk_def false) pre l2).
    split.
    + rewrite walk_list_app. cbn [walk_list]. rewrite walk_def_false, HW, Hre. rewrite <- !app_assoc. cbn [app].
      rewrite <- app_assoc. reflexivity.
    + intros e' He. apply in_app_or in He. destruct He as [He|He].
      * specialize (HB _ He). rewrite Hre in HB. cbn [app]. exact HB.
      * left. cbn [app]. rewrite map_app. cbn [map fst]. eapply later_sibling_diverges; [|exact He].
        intros n2 d2 Hin2. eapply nodup_later; eassumption.
Qed.

(* ---- nested containers below a field *)
Lemma hnc_unfold d :
  has_nested_container d =
  (type_is (fd_type d) k_nested && match fd_props d with [] => false | _ => true end) ||
  existsb (fun e => has_nested_container (snd e)) (fd_props d).
Proof.
  destruct d as [ty idx flds props]. cbn [has_nested_container fd_type fd_props]. f_equal.
  induction props as [|[n c] l IH]; [reflexivity|]. cbn [existsb snd]. rewrite IH. reflexivity.
Qed.

Lemma hnc_child c n d : In (n, d) (fd_props c) -> has_nested_container d = true -> has_nested_container c = true.
Proof.
  intros Hin Hd. rewrite hnc_unfold. apply orb_true_iff. right. apply existsb_exists. exists (n, d). auto.
Qed.

Lemma parent_type_app F l : l <> [] -> parent_type (F ++ l) = parent_type l.
Proof.
  intros Hl. destruct (@exists_last _ l Hl) as [l0 [x ->]]. unfold parent_type.
  rewrite app_assoc, !rev_unit. reflexivity.
Qed.

Lemma hnc_path ps0 : forall nc c x,
  ppath (fd_props c) (ps0 ++ [x]) -> type_is (parent_type ((nc, c) :: ps0)) k_nested = true ->
  has_nested_container c = true.
Proof.
  induction ps0 as [|[n1 d1] ps0 IH]; intros nc c x Hp Hty.
  - cbn in Hty. destruct x as [xn xd]. destruct Hp as [Hin _]. rewrite hnc_unfold, Hty.
    destruct (fd_props c); [destruct Hin|reflexivity].
  - destruct Hp as [Hin Hp]. apply (hnc_child c n1 d1 Hin). apply (IH n1 d1 x Hp).
    rewrite <- Hty. f_equal. symmetry. apply (parent_type_app [(nc, c)]). discriminate.
Qed.

(* ---- resolve follows "properties" (the holder of a multi-field included) *)
Lemma resolve_ppath : forall comps props anc0 d anc',
  (forall n c, In (n, c) props -> wf_def c = true /\ good_name n) ->
  resolve props anc0 comps = Some (d, anc') ->
  exists a, anc' = anc0 ++ a /\ ppath props a /\ Forall good_name comps.
Proof.
  induction comps as [|c cs IH]; intros props anc0 d anc' Hwf H; [discriminate H|].
  cbn [resolve] in H. destruct (obj_get c props) as [dd|] eqn:Eg; [|discriminate H].
  apply obj_get_In in Eg. destruct (Hwf _ _ Eg) as [Hdd Hc].
  destruct cs as [|s cs'].
  - injection H as <- <-. exists []. rewrite app_nil_r. split; [reflexivity|]. split; [exact I|]. constructor; [exact Hc|constructor].
  - destruct (fd_props dd) as [|pp pps] eqn:Ep.
    + destruct cs' as [|? ?]; [|discriminate H].
      destruct (obj_get s (fd_fields dd)) as [sd|] eqn:Es; [|discriminate H].
      injection H as <- <-. apply obj_get_In in Es. exists [(c, dd)]. split; [reflexivity|]. split; [split; [exact Eg|exact I]|].
      constructor; [exact Hc|]. constructor; [|constructor].
      pose proof (proj2 (wf_children dd Hdd) s sd) as Hs. unfold children_of in Hs. rewrite Ep in Hs. apply (Hs Es).
    + rewrite <- Ep in H. destruct (IH _ _ _ _ (proj2 (wf_props_of dd Hdd)) H) as [a [Ha [Hp Hn]]].
      exists ((c, dd) :: a). split; [rewrite Ha, <- app_assoc; reflexivity|]. split; [split; assumption|].
      constructor; assumption.
Qed.

(* ---- F12c's predicate *)
Lemma redeclared_from_split s a1 : forall pre n0 d0 a2,
  redeclared_from s pre (a1 ++ (n0, d0) :: a2) = false -> type_is (fd_type d0) k_nested = true ->
  declared_count s (pre ++ map fst a1 ++ [n0]) <= 1.
Proof.
  induction a1 as [|[n d] a1 IH]; intros pre n0 d0 a2 H Hd.
  - cbn [app redeclared_from map] in *. apply orb_false_iff in H. destruct H as [H _]. rewrite Hd in H.
    cbn [andb] in H. apply Nat.ltb_ge in H. exact H.
  - cbn [app redeclared_from map fst] in *. apply orb_false_iff in H. destruct H as [_ H].
    specialize (IH _ _ _ _ H Hd). rewrite <- app_assoc in IH. exact IH.
Qed.

Lemma declares_of_ppath x : forall top y,
  nodup_keys (map fst top) = true -> (forall m d, In (m, d) top -> wf_def d = true /\ good_name m) ->
  ppath top (x ++ y) -> declares top (map fst x) = true.
Proof.
  induction x as [|[n d] x IH]; intros top y Hnd Hwf Hp; [reflexivity|]. destruct Hp as [Hin Hp].
  cbn [map fst declares]. rewrite (nodup_get _ _ _ Hnd Hin).
  destruct (wf_props_of _ (proj1 (Hwf _ _ Hin))) as [Hnd1 Hwf1]. eapply IH; eassumption.
Qed.

Lemma declared_twice s D1 p D2 p' path :
  doc_props s = D1 ++ p :: D2 -> declares p path = true -> In p' D2 -> declares p' path = true ->
  2 <= declared_count s path.
Proof.
  intros Hd Hp Hin Hp'. unfold declared_count. rewrite Hd, filter_app, app_length. cbn [filter]. rewrite Hp.
  cbn [length].
  assert (Hf : In p' (filter (fun p0 => declares p0 path) D2)) by (apply filter_In; auto).
  destruct (filter _ D2); [destruct Hf|]. cbn [length]. lia.
Qed.

(* ---- survives_in, the other way round *)
Lemma survives_in_complete E1 : forall e E2 pstr,
  relevant e = true -> parent_str e = pstr -> nodot (e_name e) = true ->
  (forall e', In e' E2 -> relevant e' = true -> apart e e') ->
  survives_in (E1 ++ e :: E2) pstr = true.
Proof.
  induction E1 as [|x E1 IH]; intros e E2 pstr Hr Hp Hn Hs.
  - cbn [app survives_in]. apply orb_true_iff. left. rewrite Hr, Hn, <- Hp, str_eqb_refl. cbn [andb].
    apply forallb_forall. intros e' Hin. destruct (relevant e') eqn:Er; [|reflexivity]. cbn [negb orb].
    destruct (Hs _ Hin Er) as [H1 H2].
    destruct (sprefixb (e_dot e) (e_dot e')) eqn:E1; [exfalso; apply H1; apply sprefixb_spec; exact E1|].
    destruct (sprefixb (e_dot e') (e_dot e)) eqn:E2'; [exfalso; apply H2; apply sprefixb_spec; exact E2'|].
    reflexivity.
  - cbn [app survives_in]. apply orb_true_iff. right. apply IH; assumption.
Qed.

Lemma innermost_def_none anc : forall acc, Forall nonnested anc -> innermost_def anc acc = acc.
Proof.
  induction anc as [|[n d] anc IH]; intros acc H; [reflexivity|]. inversion H as [|? ? Hd Ht]; subst.
  cbn [innermost_def]. unfold nonnested in Hd. cbn [snd] in Hd. rewrite Hd. apply IH. exact Ht.
Qed.

Lemma innermost_def_split a1 : forall acc n d a2,
  type_is (fd_type d) k_nested = true -> Forall nonnested a2 ->
  innermost_def (a1 ++ (n, d) :: a2) acc = Some d.
Proof.
  induction a1 as [|[n0 d0] a1 IH]; intros acc n d a2 Hd H2.
  - cbn [app innermost_def]. rewrite Hd. apply innermost_def_none. exact H2.
  - cbn [app innermost_def]. apply IH; assumption.
Qed.

Lemma app_eq_prefix {A} (x : list A) : forall y u v, x ++ y = u ++ v -> length x <= length u -> exists w, u = x ++ w.
Proof.
  induction x as [|a x IH]; intros y u v H Hl; [exists u; reflexivity|].
  destruct u as [|b u]; [cbn in Hl; lia|]. injection H as <- H. cbn in Hl.
  destruct (IH _ _ _ H ltac:(lia)) as [w ->]. exists w. reflexivity.
Qed.

Lemma entry_names_good s p e :
  wf_schema s = true -> In p (doc_props s) -> In e (walk_properties false [] p) ->
  Forall good_name (names_of e) /\ ppath p (fullchain e).
Proof.
  intros Hwf Hp He. pose proof (walk_false_ppath _ _ He) as Hpp. split; [|exact Hpp].
  apply (ppath_names _ _ (proj2 (wf_top _ (wf_schema_at _ _ Hwf Hp))) Hpp).
Qed.

(* the guard of C19_query_partial on the modelled walk follows from the negations of F12's and F12c's
   executable predicates on the mapping *)
Theorem anchor_link s props comps d anc :
  wf_schema s = true -> types_agree s = true -> In props (doc_props s) ->
  resolve props [] comps = Some (d, anc) ->
  anchor_registered anc = true -> redeclared s anc = false ->
  anchor_survives s anc = true.
Proof.
  intros Hwf Hag Hin Hr Hreg Hred.
  destruct (wf_top _ (wf_schema_at _ _ Hwf Hin)) as [Hnd Hwfp].
  destruct (resolve_ppath _ _ _ _ _ Hwfp Hr) as [a [Ha [Hpa _]]]. cbn [app] in Ha. subst a.
  unfold anchor_survives, innermost_nested_ancestor.
  destruct (last_nested_split anc) as [Hnone|[a1 [n0 [d0 [a2 [Hsplit [Hd0 H2]]]]]]].
  - rewrite (innermost_from_none _ _ _ Hnone). reflexivity.
  - assert (Hi : innermost_from [] anc None = Some (dotted (map fst a1 ++ [n0]))).
    { rewrite Hsplit. apply (innermost_from_split a1 [] None n0 d0 a2 Hd0 H2). }
    rewrite Hi.
    unfold anchor_registered in Hreg. rewrite Hsplit, (innermost_def_split a1 None n0 d0 a2 Hd0 H2) in Hreg.
    apply existsb_exists in Hreg. destruct Hreg as [[nc c] [Hc Hnc]]. cbn [snd] in Hnc. apply negb_true_iff in Hnc.
    (* the path to the chosen child of the innermost nested ancestor *)
    assert (Hp1 : ppath props (a1 ++ [(n0, d0)])).
    { rewrite Hsplit in Hpa. replace (a1 ++ (n0, d0) :: a2) with ((a1 ++ [(n0, d0)]) ++ a2) in Hpa
        by (rewrite <- app_assoc; reflexivity). eapply ppath_app. exact Hpa. }
    pose proof (ppath_snoc _ _ _ _ _ _ Hp1 Hc) as Hp2.
    replace (a1 ++ [(n0, d0); (nc, c)]) with ((a1 ++ [(n0, d0)]) ++ [(nc, c)]) in Hp2
      by (rewrite <- app_assoc; reflexivity).
    destruct (anchor_split _ _ [] _ _ Hnd Hwfp Hp2) as [A [B [HW HB]]]. cbn [app] in HW, HB.
    set (e := (nc, c, a1 ++ [(n0, d0)]) : entry) in *.
    destruct (in_split _ _ Hin) as [D1 [D2 HD]].
    assert (Hiter : iter_fields s false =
                    (flat_map (walk_properties false []) D1 ++ A) ++ e ::
                    (B ++ flat_map (walk_properties false []) D2)).
    { unfold iter_fields. rewrite HD, flat_map_app. cbn [flat_map]. unfold walk_properties at 2. rewrite HW.
      rewrite <- !app_assoc. reflexivity. }
    rewrite Hiter.
    assert (He_in : In e (walk_properties false [] props)).
    { unfold walk_properties. rewrite HW. apply in_elt. }
    destruct (entry_names_good s props e Hwf Hin He_in) as [Hgood_e _].
    assert (Hnames_e : names_of e = map fst a1 ++ [n0; nc]).
    { unfold names_of, fullchain, e, e_parents, e_name, e_def. cbn [fst snd]. rewrite !map_app. cbn [map fst].
      rewrite <- app_assoc. reflexivity. }
    destruct (good_names_bool _ Hgood_e) as [Hnd_e _].
    apply survives_in_complete.
    + unfold relevant, e, e_parents. cbn [fst snd]. unfold parent_type. rewrite rev_unit. exact Hd0.
    + unfold parent_str, e, e_parents. cbn [fst snd]. rewrite map_app. reflexivity.
    + rewrite Hnames_e in Hgood_e. apply Forall_app in Hgood_e. destruct Hgood_e as [_ Hg].
      inversion Hg as [|? ? _ Hg']; subst. inversion Hg' as [|? ? [_ Hd'] _]; subst. exact Hd'.
    + intros e' He' Hrel. apply in_app_or in He'. destruct He' as [He'|He'].
      * (* later in the same document type *)
        assert (He'_in : In e' (walk_properties false [] props)).
        { unfold walk_properties. rewrite HW. apply in_or_app. right. right. exact He'. }
        destruct (entry_names_good s props e' Hwf Hin He'_in) as [Hgood' _].
        destruct (HB _ He') as [Hdiv|[ps [Hps [Hc' Hpp]]]].
        -- apply diverge_apart; [exact Hnd_e|apply (good_names_bool _ Hgood')|].
           unfold names_of at 2. unfold fullchain, e, e_parents, e_name, e_def. cbn [fst snd]. exact Hdiv.
        -- exfalso. destruct (@exists_last _ ps Hps) as [ps0 [x ->]].
           assert (Hpar : e_parents e' = a1 ++ (n0, d0) :: (nc, c) :: ps0).
           { unfold fullchain in Hc'. rewrite app_assoc in Hc'. apply app_inj_tail in Hc'. destruct Hc' as [Hc' _].
             rewrite Hc', <- !app_assoc. reflexivity. }
           unfold relevant in Hrel. rewrite Hpar in Hrel.
           replace (a1 ++ (n0, d0) :: (nc, c) :: ps0) with ((a1 ++ [(n0, d0)]) ++ (nc, c) :: ps0) in Hrel
             by (rewrite <- app_assoc; reflexivity).
           rewrite parent_type_app in Hrel by discriminate.
           pose proof (hnc_path _ _ _ _ Hpp Hrel). congruence.
      * (* in a later document type *)
        apply in_flat_map in He'. destruct He' as [p' [Hp'D He']].
        assert (Hp' : In p' (doc_props s)) by (rewrite HD; apply in_or_app; right; right; exact Hp'D).
        destruct (entry_names_good s p' e' Hwf Hp' He') as [Hgood' Hpp'].
        destruct (good_names_bool _ Hgood') as [Hnd' _].
        destruct (wf_top _ (wf_schema_at _ _ Hwf Hp')) as [Hndp' Hwfp'].
        unfold apart. rewrite !e_dot_names. split; intros Hs; exfalso.
        -- (* the other document type declares the nested ancestor itself *)
           destruct (sprefix_names _ _ (names_nonempty e) (names_nonempty e') Hnd_e Hnd' Hs) as [r [_ Hrr]].
           rewrite Hnames_e in Hrr.
           replace (map fst a1 ++ [n0; nc]) with ((map fst a1 ++ [n0]) ++ [nc]) in Hrr by (rewrite <- app_assoc; reflexivity).
           rewrite <- app_assoc in Hrr. unfold names_of in Hrr. apply map_eq_app in Hrr.
           destruct Hrr as [X [Y [HXY [HX _]]]].
           rewrite HXY in Hpp'.
           pose proof (declares_of_ppath _ _ _ Hndp' Hwfp' Hpp') as Hdec'. rewrite HX in Hdec'.
           assert (Hdec : declares props (map fst a1 ++ [n0]) = true).
           { replace (map fst a1 ++ [n0]) with (map fst (a1 ++ [(n0, d0)])) by (rewrite map_app; reflexivity).
             apply (declares_of_ppath _ _ [] Hnd Hwfp). rewrite app_nil_r. exact Hp1. }
           pose proof (declared_twice s _ _ _ _ _ HD Hdec Hp'D Hdec') as H2'.
           unfold redeclared in Hred. rewrite Hsplit in Hred.
           pose proof (redeclared_from_split s a1 [] n0 d0 a2 Hred Hd0) as H1'. cbn [app] in H1'. lia.
        -- (* the other document type declares a nested field above it *)
           destruct (sprefix_names _ _ (names_nonempty e') (names_nonempty e) Hnd' Hnd_e Hs) as [r [Hrne Hrr]].
           pose proof (relevant_parents _ Hrel) as HQne.
           destruct (@exists_last _ (e_parents e') HQne) as [Q0 [[qn qd] HQ]].
           assert (Hqd : type_is (fd_type qd) k_nested = true).
           { unfold relevant, parent_type in Hrel. rewrite HQ, rev_unit in Hrel. exact Hrel. }
           rewrite Hnames_e in Hrr. unfold names_of, fullchain in Hrr. rewrite map_app in Hrr. cbn [map fst] in Hrr.
           (* the parents of e' are named like an initial part of a1 *)
           assert (Hlen : length (map fst (e_parents e')) <= length (map fst a1)).
           { apply (f_equal (@length str)) in Hrr. rewrite !app_length in Hrr. cbn [length] in Hrr.
             destruct r; [congruence|]. cbn [length] in Hrr. lia. }
           rewrite <- !app_assoc in Hrr. symmetry in Hrr.
           destruct (app_eq_prefix _ _ _ _ Hrr Hlen) as [w Hw].
           apply map_eq_app in Hw. destruct Hw as [Q' [R' [Ha1 [HQ' _]]]].
           assert (HQ'ne : Q' <> []) by (intros ->; rewrite HQ in HQ'; destruct Q0; discriminate HQ').
           destruct (@exists_last _ Q' HQ'ne) as [b1 [[nq dq] Hb]].
           assert (Hanc : anc = (b1 ++ [(nq, dq)]) ++ (R' ++ (n0, d0) :: a2)).
           { rewrite Hsplit, Ha1, Hb, <- !app_assoc. reflexivity. }
           assert (Hnm : map fst (b1 ++ [(nq, dq)]) = map fst (Q0 ++ [(qn, qd)])).
           { rewrite <- Hb, <- HQ. exact HQ'. }
           assert (Hk : kind_eqb dq qd = true).
           { eapply (agree_last b1 Q0 (root_def props) (root_def p')).
             - apply (types_agree_at s); assumption.
             - apply wf_root. apply (wf_schema_at s); assumption.
             - rewrite children_root. apply ppath_cpath. rewrite Hanc in Hpa. eapply ppath_app. exact Hpa.
             - rewrite children_root. apply ppath_cpath. unfold fullchain in Hpp'. rewrite HQ in Hpp'.
               eapply ppath_app. exact Hpp'.
             - exact Hnm. }
           assert (Hdq : type_is (fd_type dq) k_nested = true).
           { rewrite (kind_eqb_type k_nested dq qd (or_introl eq_refl) Hk). exact Hqd. }
           assert (Hdec : declares props (map fst (b1 ++ [(nq, dq)])) = true).
           { apply (declares_of_ppath _ _ (R' ++ (n0, d0) :: a2) Hnd Hwfp). rewrite <- Hanc. exact Hpa. }
           assert (Hdec' : declares p' (map fst (b1 ++ [(nq, dq)])) = true).
           { rewrite Hnm, <- HQ. apply (declares_of_ppath _ _ [(e_name e', e_def e')] Hndp' Hwfp'). exact Hpp'. }
           pose proof (declared_twice s _ _ _ _ _ HD Hdec Hp'D Hdec') as H2'.
           unfold redeclared in Hred. rewrite Hanc, <- app_assoc in Hred. cbn [app] in Hred.
           pose proof (redeclared_from_split s b1 [] nq dq _ Hred Hdq) as H1'. cbn [app] in H1'.
           rewrite map_app in H2'. cbn [map fst] in H2'. lia.
Qed.

(* ---- the property with guards on the mapping only *)
Theorem query_mapping s comps d anc x t :
  wf_schema s = true -> coherent s = true -> types_agree s = true ->
  mapped_leaf s comps d anc -> subfield_ok anc d = true ->
  anchor_registered anc = true -> redeclared s anc = false ->
  has_wildcard x = false -> spelling comps x t ->
  build (options s) t = ROk (expected_json comps d anc x).
Proof.
  intros Hwf Hc Hag Hm Hsub Hreg Hred Hx Hsp.
  pose proof Hm as [props [Hin [Hr Hl]]].
  destruct (resolve_ppath _ _ _ _ _ (proj2 (wf_top _ (wf_schema_at _ _ Hwf Hin))) Hr) as [a [_ [_ Hn]]].
  destruct (good_names_bool _ Hn) as [Hd Hne].
  apply query_resolved; try assumption.
  - apply walk_sane_derived; assumption.
  - eapply anchor_link; eassumption.
Qed.

Lemma filter_len_le {A} (f : A -> bool) l : length (filter f l) <= length l.
Proof. induction l as [|a l IH]; [reflexivity|]. cbn [filter]. destruct (f a); cbn [length]; lia. Qed.

Lemma redeclared_single s anc : length (doc_props s) <= 1 -> redeclared s anc = false.
Proof.
  intros Hl. unfold redeclared. generalize (@nil str). induction anc as [|[n d] anc IH]; intros pre; [reflexivity|].
  cbn [redeclared_from]. rewrite IH, orb_false_r.
  assert (Hc : declared_count s (pre ++ [n]) <= 1).
  { unfold declared_count. etransitivity; [apply filter_len_le|exact Hl]. }
  apply Nat.ltb_ge in Hc. rewrite Hc. apply andb_false_r.
Qed.

(* one document type (the current layout): no condition on the walk, none across document types *)
Theorem query_single_doctype s comps d anc x t :
  wf_schema s = true -> length (doc_props s) <= 1 -> coherent s = true ->
  mapped_leaf s comps d anc -> subfield_ok anc d = true -> anchor_registered anc = true ->
  has_wildcard x = false -> spelling comps x t ->
  build (options s) t = ROk (expected_json comps d anc x).
Proof.
  intros Hwf Hl Hc Hm Hsub Hreg Hx Hsp.
  apply query_mapping; try assumption; [apply types_agree_single; assumption|apply redeclared_single; exact Hl].
Qed.

(* ================================================================ coherent, for one document type *)
(* the definition the walk (with sub-fields) yields for the field at the end of a path: its own, or — for a
   multi-field — the holder's overlaid by its own *)
Fixpoint eff_def (d : fdef) (ch : list (str * fdef)) : fdef :=
  match ch with
  | [] => d
  | (_, x) :: ch' =>
      match ch' with
      | [] => match fd_props d with [] => merge_def d x | _ :: _ => x end
      | _ :: _ => eff_def x ch'
      end
  end.

Lemma eff_def_cons d n x ch :
  fd_props d <> [] -> eff_def d ((n, x) :: ch) = eff_def x ch.
Proof. intros Hp. destruct ch as [|y ch]; [|reflexivity]. cbn. destruct (fd_props d); [congruence|reflexivity]. Qed.

Lemma walk_true_chain_def : forall d parents n e,
  wf_def d = true -> In e (walk_def true parents n d) ->
  exists ch, cpath (children_of d) ch /\
             names_of e = map fst parents ++ n :: map fst ch /\ e_def e = eff_def d ch.
Proof.
  induction d as [ty idx flds props _ IHp] using fdef_ind'. intros parents n e Hwf H.
  rewrite (walk_def_true_wf _ _ _ Hwf) in H. destruct H as [<-|H].
  - exists []. split; [exact I|]. split; [|reflexivity].
    unfold names_of, fullchain, e_parents, e_name, e_def. cbn [fst snd]. rewrite map_app. reflexivity.
  - apply in_app_or in H. destruct H as [H|H].
    + apply in_map_iff in H. destruct H as [[sn sd] [<- Hin]]. cbn [fst snd fd_fields] in *.
      assert (Hne : fd_fields (FDef ty idx flds props) <> []) by (cbn [fd_fields]; intros ->; destruct Hin).
      destruct (wf_holder _ Hwf Hne) as [Hp _]. cbn [fd_props fd_fields] in *. subst props.
      exists [(sn, sd)]. split; [|split].
      * unfold children_of. cbn [fd_props fd_fields]. split; [exact Hin|exact I].
      * unfold names_of, fullchain, e_parents, e_name, e_def. cbn [fst snd]. rewrite !map_app. cbn [map fst].
        rewrite <- app_assoc. reflexivity.
      * reflexivity.
    + apply in_walk_list in H. destruct H as [n' [d' [Hin He]]]. cbn [fd_props] in Hin.
      rewrite Forall_forall in IHp.
      assert (Hc : In (n', d') (children_of (FDef ty idx flds props))).
      { unfold children_of. cbn [fd_props fd_fields]. destruct props; [destruct Hin|exact Hin]. }
      destruct (IHp _ Hin _ _ _ (proj1 (proj2 (wf_children _ Hwf) _ _ Hc)) He) as [ch [Hcp [Hnm Hdef]]]. cbn [snd] in *.
      exists ((n', d') :: ch). split; [split; assumption|]. split.
      * rewrite Hnm, map_app. cbn [map fst]. rewrite <- app_assoc. reflexivity.
      * rewrite Hdef. symmetry. apply eff_def_cons. cbn [fd_props]. intros ->. destruct Hin.
Qed.

Lemma walk_true_top props e :
  wf_props props = true -> In e (walk_properties true [] props) ->
  exists CH, cpath props CH /\ names_of e = map fst CH /\ e_def e = eff_def (root_def props) CH.
Proof.
  intros Hwf H. unfold walk_properties in H. apply in_walk_list in H. destruct H as [n [d [Hin He]]].
  destruct (wf_top _ Hwf) as [_ Hch].
  destruct (walk_true_chain_def _ _ _ _ (proj1 (Hch _ _ Hin)) He) as [ch [Hc [Hn Hd]]].
  exists ((n, d) :: ch). split; [split; assumption|]. split; [exact Hn|].
  rewrite Hd. symmetry. apply eff_def_cons. cbn [root_def fd_props]. intros ->. destruct Hin.
Qed.

Lemma cpath_det CH1 : forall CH2 D,
  wf_def D = true -> cpath (children_of D) CH1 -> cpath (children_of D) CH2 ->
  map fst CH1 = map fst CH2 -> CH1 = CH2.
Proof.
  induction CH1 as [|[n1 d1] CH1 IH]; intros CH2 D Hwf H1 H2 Hn.
  - destruct CH2; [reflexivity|discriminate Hn].
  - destruct CH2 as [|[n2 d2] CH2]; [discriminate Hn|]. cbn [map fst] in Hn. injection Hn as <- Hn.
    destruct H1 as [Hi1 H1]. destruct H2 as [Hi2 H2]. destruct (wf_children _ Hwf) as [Hnd Hch].
    pose proof (nodup_same _ _ _ _ Hnd Hi1 Hi2) as <-. f_equal.
    apply (IH CH2 d1 (proj1 (Hch _ _ Hi1)) H1 H2 Hn).
Qed.

Lemma cpath_names CH : forall D, wf_def D = true -> cpath (children_of D) CH -> Forall good_name (map fst CH).
Proof.
  induction CH as [|[n d] CH IH]; intros D Hwf H; [constructor|]. destruct H as [Hin H].
  destruct (proj2 (wf_children _ Hwf) _ _ Hin) as [Hd Hn]. cbn [map fst]. constructor; [exact Hn|]. apply (IH d Hd H).
Qed.

(* with one document type, fields with the same dotted name are the same field *)
Theorem coherent_single s : wf_schema s = true -> length (doc_props s) <= 1 -> coherent s = true.
Proof.
  intros Hwf Hl. unfold coherent. apply forallb_forall. intros e He. apply forallb_forall. intros e' He'.
  destruct (str_eqb (e_dot e) (e_dot e')) eqn:Eq; [|reflexivity]. cbn [negb orb]. apply str_eqb_eq in Eq.
  unfold iter_fields in He, He'. apply in_flat_map in He, He'.
  destruct He as [p [Hp He]]. destruct He' as [p' [Hp' He']].
  assert (p' = p).
  { destruct (doc_props s) as [|q [|q' l]]; [destruct Hp| |cbn in Hl; lia].
    destruct Hp as [<-|[]]. destruct Hp' as [<-|[]]. reflexivity. }
  subst p'. pose proof (wf_schema_at _ _ Hwf Hp) as Hwp.
  destruct (walk_true_top _ _ Hwp He) as [CH [Hc [Hn Hd]]].
  destruct (walk_true_top _ _ Hwp He') as [CH' [Hc' [Hn' Hd']]].
  rewrite <- (children_root p) in Hc, Hc'.
  pose proof (cpath_names _ _ (wf_root _ Hwp) Hc) as Hg. pose proof (cpath_names _ _ (wf_root _ Hwp) Hc') as Hg'.
  rewrite !e_dot_names, Hn, Hn' in Eq.
  assert (Hsame : map fst CH = map fst CH').
  { apply dotted_inj; [rewrite <- Hn; apply names_nonempty|rewrite <- Hn'; apply names_nonempty|
                       apply (good_names_bool _ Hg)|apply (good_names_bool _ Hg')|exact Eq]. }
  pose proof (cpath_det _ _ _ (wf_root _ Hwp) Hc Hc' Hsame) as <-.
  unfold na_entry. rewrite Hd, Hd'. apply Bool.eqb_reflx.
Qed.

(* the current layout: guards on the mapping only, none on the walk, none across document types, no `coherent` *)
Theorem query_modern s comps d anc x t :
  wf_schema s = true -> length (doc_props s) <= 1 ->
  mapped_leaf s comps d anc -> subfield_ok anc d = true -> anchor_registered anc = true ->
  has_wildcard x = false -> spelling comps x t ->
  build (options s) t = ROk (expected_json comps d anc x).
Proof.
  intros Hwf Hl Hm Hsub Hreg Hx Hsp. apply query_single_doctype; try assumption. apply coherent_single; assumption.
Qed.

(* ================================================================ spellings: the normalised sets, exactly *)
Lemma falsy_denotes_nothing s p : spec_falsy s = true -> ~ denotes s p.
Proof.
  intros Hf H. destruct s as [|[|k l]|[|e kv]]; try discriminate Hf;
    inversion H as [? ? Hin|? ? ? Hin|? ? ? ? Hin]; destruct Hin.
Qed.

Lemma nonfalsy_denotes : forall s, spec_falsy s = false -> exists p, denotes s p.
Proof.
  induction s as [|l|kv IH] using spec_ind'; intros Hf.
  - discriminate Hf.
  - destruct l as [|k l]; [discriminate Hf|]. exists [k]. constructor. left. reflexivity.
  - destruct kv as [|[k v] kv]; [discriminate Hf|]. inversion IH as [|? ? Hv _]; subst. cbn [snd] in Hv.
    destruct (spec_falsy v) eqn:Ev.
    + exists [k]. eapply den_leaf; [left; reflexivity|exact Ev].
    + destruct (Hv eq_refl) as [p Hp]. exists (k :: p). eapply den_sub; [left; reflexivity|exact Ev|exact Hp].
Qed.

Lemma same_falsy s1 s2 : same_field_set s1 s2 -> spec_falsy s1 = spec_falsy s2.
Proof.
  intros Hs. destruct (spec_falsy s1) eqn:E1, (spec_falsy s2) eqn:E2; try reflexivity; exfalso.
  - destruct (nonfalsy_denotes _ E2) as [p Hp].
    destruct (proj2 (Hs (dotted p)) (ex_intro _ p (conj Hp eq_refl))) as [q [Hq _]].
    exact (falsy_denotes_nothing _ _ E1 Hq).
  - destruct (nonfalsy_denotes _ E1) as [p Hp].
    destruct (proj1 (Hs (dotted p)) (ex_intro _ p (conj Hp eq_refl))) as [q [Hq _]].
    exact (falsy_denotes_nothing _ _ E2 Hq).
Qed.

(* no exception for the empty name: two nested specifications that denote the same names flatten to the same set *)
Lemma nested_names_agree s1 s2 :
  same_field_set s1 s2 -> forall x, mem_str x (nested_names s1) = mem_str x (nested_names s2).
Proof.
  intros Hs x. apply bool_ext. rewrite !mem_nested_names, (same_falsy _ _ Hs). specialize (Hs x). tauto.
Qed.

Lemma prefixes_agree_all l1 l2 :
  (forall x, mem_str x l1 = mem_str x l2) -> forall p, mem_str p (prefixes_of l1) = mem_str p (prefixes_of l2).
Proof.
  intros H p. apply bool_ext. rewrite !mem_prefixes.
  split; intros [x [Hin Hx]]; exists x; (split; [|exact Hx]); apply mem_str_In; apply mem_str_In in Hin;
    [rewrite <- H|rewrite H]; exact Hin.
Qed.

(* object / sub field specifications: None is "no specification", and the empty dict {} flattens to {""}
   where the empty list gives {} — two spellings are alike when they denote the same names and are None /
   the empty dict together *)
Definition spelled_alike (s1 s2 : spec) : Prop :=
  same_field_set s1 s2 /\ (s1 = SNone <-> s2 = SNone) /\ (s1 = SDict [] <-> s2 = SDict []).

Definition opt_equiv (o1 o2 : option (list str)) : Prop :=
  match o1, o2 with
  | None, None => True
  | Some l1, Some l2 => forall x, mem_str x l1 = mem_str x l2
  | _, _ => False
  end.

Lemma normalize_object_some s : s <> SNone -> normalize_object s = Some (object_names s).
Proof. intros H. unfold object_names. destruct s; [congruence| |]; reflexivity. Qed.

Lemma normalize_object_alike s1 s2 :
  spelled_alike s1 s2 -> opt_equiv (normalize_object s1) (normalize_object s2).
Proof.
  intros [Hs [Hn He]]. destruct s1 as [|l1|kv1] eqn:E1.
  - rewrite (proj1 Hn eq_refl). exact I.
  - assert (H2 : s2 <> SNone) by (intros H; apply Hn in H; discriminate H).
    rewrite <- E1 in *. assert (H1 : s1 <> SNone) by (rewrite E1; discriminate).
    rewrite (normalize_object_some _ H1), (normalize_object_some _ H2). cbn [opt_equiv]. intros x.
    apply bool_ext. rewrite (mem_object_names _ _ H1), (mem_object_names _ _ H2). specialize (Hs x). tauto.
  - assert (H2 : s2 <> SNone) by (intros H; apply Hn in H; discriminate H).
    rewrite <- E1 in *. assert (H1 : s1 <> SNone) by (rewrite E1; discriminate).
    rewrite (normalize_object_some _ H1), (normalize_object_some _ H2). cbn [opt_equiv]. intros x.
    apply bool_ext. rewrite (mem_object_names _ _ H1), (mem_object_names _ _ H2). specialize (Hs x). tauto.
Qed.

Lemma normalize_spec_of_set o : normalize_object (spec_of_set o) = option_map dedup o.
Proof. destruct o; reflexivity. Qed.

Lemma opt_equiv_dedup o1 o2 : opt_equiv o1 o2 -> opt_equiv (option_map dedup o1) (option_map dedup o2).
Proof.
  destruct o1, o2; cbn; try tauto. intros H x. rewrite !mem_dedup'. apply H.
Qed.

Definition olist (o : option (list str)) : list str := match o with Some l => l | None => [] end.
Lemma opt_equiv_olist o1 o2 : opt_equiv o1 o2 -> forall x, mem_str x (olist o1) = mem_str x (olist o2).
Proof. destruct o1, o2; cbn; try tauto. Qed.

(* ================================================================ what the builder reads of its environment *)
Record chk_equiv (c1 c2 : chk_env) : Prop := mk_chk_equiv {
  ce_np : forall x, mem_str x (ce_nested_prefixes c1) = mem_str x (ce_nested_prefixes c2);
  ce_op : forall x, mem_str x (ce_object_prefixes c1) = mem_str x (ce_object_prefixes c2);
  ce_nf : forall x, mem_str x (ce_nested_fields c1) = mem_str x (ce_nested_fields c2);
  ce_of : opt_equiv (ce_object_fields c1) (ce_object_fields c2);
  ce_sf : opt_equiv (ce_sub_fields c1) (ce_sub_fields c2) }.

Definition env_equiv (e1 e2 : es_env) : Prop :=
  (forall x, mem_str x (ev_nested_prefixes e1) = mem_str x (ev_nested_prefixes e2)) /\
  chk_equiv (ev_chk e1) (ev_chk e2).

(* the environments of two configurations whose specifications are spelled differently *)
Theorem mk_env_equiv cfg1 cfg2 :
  same_field_set (c_nested cfg1) (c_nested cfg2) ->
  spelled_alike (c_object cfg1) (c_object cfg2) -> spelled_alike (c_sub cfg1) (c_sub cfg2) ->
  env_equiv (mk_env cfg1) (mk_env cfg2).
Proof.
  intros Hn Ho Hs.
  pose proof (nested_names_agree _ _ Hn) as Hnn.
  pose proof (normalize_object_alike _ _ Ho) as Hoo.
  pose proof (normalize_object_alike _ _ Hs) as Hss.
  split; [|constructor].
  - change (forall x, mem_str x (prefixes_of (nested_names (c_nested cfg1))) =
                      mem_str x (prefixes_of (nested_names (c_nested cfg2)))).
    apply prefixes_agree_all. exact Hnn.
  - change (forall x, mem_str x (prefixes_of (nested_names (c_nested cfg1))) =
                      mem_str x (prefixes_of (nested_names (c_nested cfg2)))).
    apply prefixes_agree_all. exact Hnn.
  - change (forall x, mem_str x (prefixes_of (olist (normalize_object (spec_of_set (normalize_object (c_object cfg1)))))) =
                      mem_str x (prefixes_of (olist (normalize_object (spec_of_set (normalize_object (c_object cfg2))))))).
    apply prefixes_agree_all. apply opt_equiv_olist. rewrite !normalize_spec_of_set. apply opt_equiv_dedup. exact Hoo.
  - exact Hnn.
  - change (opt_equiv (normalize_object (spec_of_set (normalize_object (c_object cfg1))))
                      (normalize_object (spec_of_set (normalize_object (c_object cfg2))))).
    rewrite !normalize_spec_of_set. apply opt_equiv_dedup. exact Hoo.
  - exact Hss.
Qed.

(* ---- the nesting checker *)
Lemma check_final_equiv c1 c2 p : chk_equiv c1 c2 -> check_final c1 p = check_final c2 p.
Proof.
  intros [Hnp Hop Hnf Hof Hsf]. unfold check_final. destruct p as [|a p]; [reflexivity|].
  rewrite Hnp, Hop, Hnf.
  destruct (ce_sub_fields c1) as [s1|], (ce_sub_fields c2) as [s2|]; cbn in Hsf; try tauto;
    destruct (ce_object_fields c1) as [o1|], (ce_object_fields c2) as [o2|]; cbn in Hof; try tauto;
    rewrite ?Hsf, ?Hof; reflexivity.
Qed.

Lemma chk_walk_ext f g p l : (forall c, In c l -> f c p = g c p) -> chk_walk f p l = chk_walk g p l.
Proof.
  induction l as [|c l IH]; intros H; [reflexivity|]. cbn [chk_walk]. rewrite (H c (or_introl eq_refl)).
  destruct (g c p); [reflexivity|]. apply IH. intros c' Hin. apply H. right. exact Hin.
Qed.

Lemma chk_go_equiv c1 c2 : chk_equiv c1 c2 -> forall t prefix, chk_go c1 t prefix = chk_go c2 t prefix.
Proof.
  intros Heq t. induction t as [t IH] using item_children_ind. intros prefix.
  rewrite !chk_go_unfold. unfold chk_via. rewrite Forall_forall in IH.
  destruct (chk_handler_of (cls_of t)).
  - apply check_final_equiv. exact Heq.
  - destruct (field_name t); [|reflexivity]. apply chk_walk_ext. intros c Hin. apply IH. exact Hin.
  - apply chk_walk_ext. intros c Hin. apply IH. exact Hin.
Qed.

(* ---- the visitor *)
Lemma try_prefixes_equiv np1 np2 pre names k :
  (forall x, mem_str x np1 = mem_str x np2) -> try_prefixes np1 pre names k = try_prefixes np2 pre names k.
Proof. intros H. induction k as [|k IH]; [reflexivity|]. cbn [try_prefixes]. rewrite H, IH. reflexivity. Qed.

Lemma walk_ext f g par cx l :
  (forall c par cx, In c l -> f c par cx = g c par cx) -> walk f par cx l = walk g par cx l.
Proof.
  induction l as [|c l IH]; intros H; [reflexivity|]. cbn [walk]. rewrite (H c par cx (or_introl eq_refl)).
  destruct (g c par cx); [|reflexivity]. rewrite IH; [reflexivity|]. intros c' p' x' Hin. apply H. right. exact Hin.
Qed.

Section SameCore.
  (* two configurations that differ in nothing but the three field specifications *)
  Variables (dop : defop) (dfl : str) (na : list str) (fo : list (str * list (str * json))) (mp : bool).
  Variables (n1 o1 s1 n2 o2 s2 : spec).
  Let cfg1 := mkEsConfig dop dfl na n1 o1 s1 fo mp.
  Let cfg2 := mkEsConfig dop dfl na n2 o2 s2 fo mp.
  Variables (e1 e2 : es_env).
  Hypothesis Hnp : forall x, mem_str x (ev_nested_prefixes e1) = mem_str x (ev_nested_prefixes e2).

  Lemma split_nested_equiv n cx : split_nested e1 n cx = split_nested e2 n cx.
  Proof. unfold split_nested. apply try_prefixes_equiv. exact Hnp. Qed.

  Lemma visit_via_equiv rec1 rec2 t par cx cs :
    (forall c par cx, In c cs -> rec1 c par cx = rec2 c par cx) ->
    visit_via cfg1 e1 rec1 t par cx cs = visit_via cfg2 e2 rec2 t par cx cs.
  Proof.
    intros Hrec.
    assert (Hw : forall p c, walk rec1 p c cs = walk rec2 p c cs) by (intros p c; apply walk_ext; exact Hrec).
    unfold visit_via. cbv beta zeta.
    change (bhandler_of cfg2 (cls_of t)) with (bhandler_of cfg1 (cls_of t)).
    destruct par as [p|].
    - destruct (flattened t p); [apply Hw|].
      change (mixes cfg2 p (cls_of t)) with (mixes cfg1 p (cls_of t)).
      destruct (mixes cfg1 p (cls_of t)); [reflexivity|].
      destruct (bhandler_of cfg1 (cls_of t)); rewrite ?Hw; try reflexivity.
      destruct (field_name t) as [n|]; [|reflexivity]. rewrite Hw, split_nested_equiv. reflexivity.
    - destruct (bhandler_of cfg1 (cls_of t)); rewrite ?Hw; try reflexivity.
      destruct (field_name t) as [n|]; [|reflexivity]. rewrite Hw, split_nested_equiv. reflexivity.
  Qed.

  Lemma visit_equiv : forall t par cx, visit cfg1 e1 t par cx = visit cfg2 e2 t par cx.
  Proof.
    intros t. induction t as [t IH] using item_children_ind. intros par cx.
    rewrite !visit_unfold. apply visit_via_equiv. rewrite Forall_forall in IH.
    intros c par' cx' Hin. apply IH. exact Hin.
  Qed.

  (* ---- the JSON of the E-tree does not read the specifications at all *)
  Lemma leaf_json_core l : leaf_json cfg1 l = leaf_json cfg2 l.
  Proof. reflexivity. Qed.

  Lemma jmap_ext f g l : Forall (fun x => f x = g x) l -> jmap f l = jmap g l.
  Proof. induction 1 as [|x l Hx _ IH]; [reflexivity|]. cbn [jmap]. rewrite Hx, IH. reflexivity. Qed.

  Lemma jmap_of_op k sub :
    k <> EKBool -> ejson cfg1 (EOp k sub) = ejson cfg2 (EOp k sub) ->
    jmap (ejson cfg1) sub = jmap (ejson cfg2) sub.
  Proof.
    intros Hk H. destruct k; try congruence; cbn [ejson] in H;
      destruct (jmap (ejson cfg1) sub), (jmap (ejson cfg2) sub); try discriminate H; injection H as H; congruence.
  Qed.

  Lemma bool_parts_ext l :
    Forall (fun x => ejson cfg1 x = ejson cfg2 x) l -> bool_parts (ejson cfg1) l = bool_parts (ejson cfg2) l.
  Proof.
    induction 1 as [|x l Hx _ IH]; [reflexivity|]. cbn [bool_parts]. rewrite IH.
    destruct x as [lf|p n it|k sub].
    - rewrite Hx. reflexivity.
    - rewrite Hx. reflexivity.
    - destruct k.
      + rewrite (jmap_of_op EKMust sub ltac:(discriminate) Hx). reflexivity.
      + rewrite Hx. reflexivity.
      + rewrite (jmap_of_op EKMustNot sub ltac:(discriminate) Hx). reflexivity.
      + rewrite Hx. reflexivity.
  Qed.

  Lemma ejson_core : forall e, ejson cfg1 e = ejson cfg2 e.
  Proof.
    induction e as [l|p n it IH|k items IH] using eitem_ind'.
    - apply leaf_json_core.
    - cbn [ejson]. rewrite IH. reflexivity.
    - destruct k; cbn [ejson]; rewrite ?(jmap_ext _ _ _ IH), ?(bool_parts_ext _ IH); reflexivity.
  Qed.

  Hypothesis Hchk : chk_equiv (ev_chk e1) (ev_chk e2).

  Lemma build_etree_env_equiv t : build_etree_env cfg1 e1 t = build_etree_env cfg2 e2 t.
  Proof.
    unfold build_etree_env, check_nested. rewrite (chk_go_equiv _ _ Hchk), visit_equiv. reflexivity.
  Qed.
End SameCore.

Definition same_core (cfg1 cfg2 : es_config) : Prop :=
  c_default_operator cfg1 = c_default_operator cfg2 /\ c_default_field cfg1 = c_default_field cfg2 /\
  c_not_analyzed cfg1 = c_not_analyzed cfg2 /\ c_field_options cfg1 = c_field_options cfg2 /\
  c_match_word_as_phrase cfg1 = c_match_word_as_phrase cfg2.

(* the builder reads its three field specifications only through the normalised name / prefix sets *)
Theorem build_reads_sets cfg1 cfg2 t :
  same_core cfg1 cfg2 -> env_equiv (mk_env cfg1) (mk_env cfg2) -> build cfg1 t = build cfg2 t.
Proof.
  intros Hc [Hnp Hchk]. destruct cfg1 as [a1 b1 c1 n1 o1 s1 d1 m1], cfg2 as [a2 b2 c2 n2 o2 s2 d2 m2].
  destruct Hc as [Ha [Hb [Hc [Hd Hm]]]]. cbn in Ha, Hb, Hc, Hd, Hm. subst a2 b2 c2 d2 m2.
  unfold build, build_etree.
  rewrite (build_etree_env_equiv a1 b1 c1 d1 m1 n1 o1 s1 n2 o2 s2 _ _ Hnp Hchk t).
  destruct (build_etree_env _ _ t) as [e|e]; [|reflexivity]. apply ejson_core.
Qed.

Theorem spellings_behaviour cfg1 cfg2 t :
  same_core cfg1 cfg2 ->
  same_field_set (c_nested cfg1) (c_nested cfg2) ->
  spelled_alike (c_object cfg1) (c_object cfg2) -> spelled_alike (c_sub cfg1) (c_sub cfg2) ->
  build cfg1 t = build cfg2 t.
Proof. intros Hc Hn Ho Hs. apply build_reads_sets; [exact Hc|apply mk_env_equiv; assumption]. Qed.

Lemma spelled_alike_refl s : spelled_alike s s.
Proof. split; [intros x; tauto|split; tauto]. Qed.
Lemma same_field_set_refl s : same_field_set s s.
Proof. intros x. tauto. Qed.

(* ================================================================ {} against [] : up to the empty name *)
(* An object / sub field specification given as the empty dict flattens to {""}, the empty list to {}: the two
   configure the same behaviour on every tree in which no field has the empty name (every parsed tree). *)
Fixpoint fields_named (t : item) : bool :=
  match t with
  | SearchField _ n e => nonempty_name n && fields_named e
  | Term _ _ _ | NoneItem _ => true
  | Grp _ _ e | Boost _ e _ _ => fields_named e
  | Fuzzy _ x _ _ | Proximity _ x _ _ => fields_named x
  | Unary _ _ a | ORange _ _ a _ => fields_named a
  | Range _ lo hi _ _ => fields_named lo && fields_named hi
  | Op _ _ ops => (fix go (l : list item) : bool :=
                     match l with [] => true | c :: l' => fields_named c && go l' end) ops
  end.

Lemma fields_named_unfold t :
  fields_named t = match field_name t with Some n => nonempty_name n | None => true end &&
                   forallb fields_named (children t).
Proof.
  destruct t as [| | | | | | |k m ops| | |]; cbn [fields_named field_name children forallb];
    rewrite ?andb_true_r; reflexivity.
Qed.

Definition opt_equiv_ne (o1 o2 : option (list str)) : Prop :=
  match o1, o2 with
  | None, None => True
  | Some l1, Some l2 => forall x, x <> [] -> mem_str x l1 = mem_str x l2
  | _, _ => False
  end.

Record chk_equiv_ne (c1 c2 : chk_env) : Prop := mk_chk_equiv_ne {
  cn_np : forall x, mem_str x (ce_nested_prefixes c1) = mem_str x (ce_nested_prefixes c2);
  cn_op : forall x, x <> [] -> mem_str x (ce_object_prefixes c1) = mem_str x (ce_object_prefixes c2);
  cn_nf : forall x, mem_str x (ce_nested_fields c1) = mem_str x (ce_nested_fields c2);
  cn_of : opt_equiv_ne (ce_object_fields c1) (ce_object_fields c2);
  cn_sf : opt_equiv_ne (ce_sub_fields c1) (ce_sub_fields c2) }.

Definition same_names_spec (s1 s2 : spec) : Prop := same_field_set s1 s2 /\ (s1 = SNone <-> s2 = SNone).

Lemma normalize_object_alike_ne s1 s2 :
  same_names_spec s1 s2 -> opt_equiv_ne (normalize_object s1) (normalize_object s2).
Proof.
  intros [Hs Hn]. destruct s1 as [|l1|kv1] eqn:E1.
  - rewrite (proj1 Hn eq_refl). exact I.
  - assert (H2 : s2 <> SNone) by (intros H; apply Hn in H; discriminate H).
    rewrite <- E1 in *. assert (H1 : s1 <> SNone) by (rewrite E1; discriminate).
    rewrite (normalize_object_some _ H1), (normalize_object_some _ H2). cbn [opt_equiv_ne]. intros x Hx.
    apply bool_ext. rewrite (mem_object_names _ _ H1), (mem_object_names _ _ H2). specialize (Hs x). tauto.
  - assert (H2 : s2 <> SNone) by (intros H; apply Hn in H; discriminate H).
    rewrite <- E1 in *. assert (H1 : s1 <> SNone) by (rewrite E1; discriminate).
    rewrite (normalize_object_some _ H1), (normalize_object_some _ H2). cbn [opt_equiv_ne]. intros x Hx.
    apply bool_ext. rewrite (mem_object_names _ _ H1), (mem_object_names _ _ H2). specialize (Hs x). tauto.
Qed.

Lemma opt_equiv_ne_dedup o1 o2 : opt_equiv_ne o1 o2 -> opt_equiv_ne (option_map dedup o1) (option_map dedup o2).
Proof. destruct o1, o2; cbn; try tauto. intros H x Hx. rewrite !mem_dedup'. apply H. exact Hx. Qed.

Lemma opt_equiv_ne_olist o1 o2 :
  opt_equiv_ne o1 o2 -> forall x, x <> [] -> mem_str x (olist o1) = mem_str x (olist o2).
Proof. destruct o1, o2; cbn; try tauto. Qed.

Theorem mk_env_equiv_ne cfg1 cfg2 :
  same_field_set (c_nested cfg1) (c_nested cfg2) ->
  same_names_spec (c_object cfg1) (c_object cfg2) -> same_names_spec (c_sub cfg1) (c_sub cfg2) ->
  (forall x, mem_str x (ev_nested_prefixes (mk_env cfg1)) = mem_str x (ev_nested_prefixes (mk_env cfg2))) /\
  chk_equiv_ne (ev_chk (mk_env cfg1)) (ev_chk (mk_env cfg2)).
Proof.
  intros Hn Ho Hs.
  pose proof (nested_names_agree _ _ Hn) as Hnn.
  pose proof (normalize_object_alike_ne _ _ Ho) as Hoo.
  pose proof (normalize_object_alike_ne _ _ Hs) as Hss.
  split; [|constructor].
  - change (forall x, mem_str x (prefixes_of (nested_names (c_nested cfg1))) =
                      mem_str x (prefixes_of (nested_names (c_nested cfg2)))).
    apply prefixes_agree_all. exact Hnn.
  - change (forall x, mem_str x (prefixes_of (nested_names (c_nested cfg1))) =
                      mem_str x (prefixes_of (nested_names (c_nested cfg2)))).
    apply prefixes_agree_all. exact Hnn.
  - change (forall x, x <> [] ->
              mem_str x (prefixes_of (olist (normalize_object (spec_of_set (normalize_object (c_object cfg1)))))) =
              mem_str x (prefixes_of (olist (normalize_object (spec_of_set (normalize_object (c_object cfg2))))))).
    apply prefixes_agree. apply opt_equiv_ne_olist. rewrite !normalize_spec_of_set. apply opt_equiv_ne_dedup. exact Hoo.
  - exact Hnn.
  - change (opt_equiv_ne (normalize_object (spec_of_set (normalize_object (c_object cfg1))))
                         (normalize_object (spec_of_set (normalize_object (c_object cfg2))))).
    rewrite !normalize_spec_of_set. apply opt_equiv_ne_dedup. exact Hoo.
  - exact Hss.
Qed.

(* the prefix handed to the final check is never the empty name *)
Definition ok_prefix (p : list str) : Prop := p = [] \/ dotted p <> [].

Lemma ok_prefix_field pre n : n <> [] -> ok_prefix (pre ++ split_on c_dot n).
Proof.
  intros Hn. right. destruct pre as [|a pre].
  - cbn [app]. unfold dotted. rewrite join_split. exact Hn.
  - rewrite dotted_app; [|discriminate|apply split_on_nonempty]. destruct (dotted (a :: pre)); discriminate.
Qed.

Lemma check_final_equiv_ne c1 c2 p : chk_equiv_ne c1 c2 -> ok_prefix p -> check_final c1 p = check_final c2 p.
Proof.
  intros [Hnp Hop Hnf Hof Hsf] Hok. unfold check_final. destruct p as [|a p]; [reflexivity|].
  destruct Hok as [Hok|Hok]; [discriminate Hok|].
  rewrite Hnp, (Hop _ Hok), Hnf.
  destruct (ce_sub_fields c1) as [s1|], (ce_sub_fields c2) as [s2|]; cbn in Hsf; try tauto;
    destruct (ce_object_fields c1) as [o1|], (ce_object_fields c2) as [o2|]; cbn in Hof; try tauto;
    rewrite ?(Hsf _ Hok), ?(Hof _ Hok); reflexivity.
Qed.

Lemma chk_go_equiv_ne c1 c2 : chk_equiv_ne c1 c2 ->
  forall t prefix, fields_named t = true -> ok_prefix prefix -> chk_go c1 t prefix = chk_go c2 t prefix.
Proof.
  intros Heq t. induction t as [t IH] using item_children_ind. intros prefix Hfn Hok.
  rewrite fields_named_unfold in Hfn. apply andb_true_iff in Hfn. destruct Hfn as [Hname Hch].
  rewrite forallb_forall in Hch.
  rewrite !chk_go_unfold. unfold chk_via. rewrite Forall_forall in IH.
  destruct (chk_handler_of (cls_of t)).
  - apply check_final_equiv_ne; assumption.
  - destruct (field_name t) as [n|]; [|reflexivity]. apply chk_walk_ext. intros c Hin. apply IH; [exact Hin|auto|].
    apply ok_prefix_field. destruct n; [discriminate Hname|discriminate].
  - apply chk_walk_ext. intros c Hin. apply IH; auto.
Qed.

Theorem spellings_behaviour_named cfg1 cfg2 t :
  same_core cfg1 cfg2 ->
  same_field_set (c_nested cfg1) (c_nested cfg2) ->
  same_names_spec (c_object cfg1) (c_object cfg2) -> same_names_spec (c_sub cfg1) (c_sub cfg2) ->
  fields_named t = true ->
  build cfg1 t = build cfg2 t.
Proof.
  intros Hc Hn Ho Hs Hfn. destruct (mk_env_equiv_ne _ _ Hn Ho Hs) as [Hnp Hchk].
  destruct cfg1 as [a1 b1 c1 n1 o1 s1 d1 m1], cfg2 as [a2 b2 c2 n2 o2 s2 d2 m2].
  destruct Hc as [Ha [Hb [Hc [Hd Hm]]]]. cbn in Ha, Hb, Hc, Hd, Hm. subst a2 b2 c2 d2 m2.
  unfold build, build_etree, build_etree_env, check_nested.
  rewrite (chk_go_equiv_ne _ _ Hchk _ [] Hfn (or_introl eq_refl)).
  rewrite (visit_equiv a1 b1 c1 d1 m1 n1 o1 s1 n2 o2 s2 _ _ Hnp).
  destruct (chk_go _ _ _); [reflexivity|].
  destruct (visit _ _ t None ctx0) as [[|e l]|e]; try reflexivity. apply ejson_core.
Qed.

(* ================================================================ an executable test of same_field_set *)
Definition flat_names (s : spec) : list str :=
  if spec_falsy s then [] else map dotted (flatten_paths s).

Lemma names_flat s x : names s x <-> In x (flat_names s).
Proof.
  unfold flat_names, names. destruct (spec_falsy s) eqn:Ef.
  - split; [intros [p [Hp _]]; exfalso; exact (falsy_denotes_nothing _ _ Ef Hp)|intros []].
  - rewrite in_map_iff. split; intros [p [H1 H2]]; exists p.
    + split; [exact H2|]. apply flatten_paths_spec. rewrite Ef. exact H1.
    + split; [|exact H1]. apply flatten_paths_spec in H2. rewrite Ef in H2. exact H2.
Qed.

Definition subset_b (l1 l2 : list str) : bool := forallb (fun x => mem_str x l2) l1.
Definition same_names_b (s1 s2 : spec) : bool :=
  subset_b (flat_names s1) (flat_names s2) && subset_b (flat_names s2) (flat_names s1).

Lemma same_names_b_sound s1 s2 : same_names_b s1 s2 = true -> same_field_set s1 s2.
Proof.
  unfold same_names_b, subset_b. intros H. apply andb_true_iff in H. destruct H as [H1 H2].
  rewrite forallb_forall in H1, H2. intros x. rewrite !names_flat. split; intros Hin.
  - apply mem_str_In. apply H1. exact Hin.
  - apply mem_str_In. apply H2. exact Hin.
Qed.
