(* EsNested.v — the guards of the NESTED part of property C05 (props/C05n.v), written on trees and
   configurations with the vocabulary of the reference semantics EsSem.v (declared nested paths,
   level_of).  Executable definitions only; nothing here uses the builder's visitor.

   Every guard is an executable predicate on the INPUT that recognises one finding:
     nested_have_leaf   not F8  (every declared nested container is the parent of a declared path)
     default_ok         not F17 (no bare term while the default field lies under a nested path)
     nested_plain       not F6  (operands of a BoolOperation), not F18 (a field '' / '.x' while the empty
                                 string is a nested prefix for the code), and not F19: a ~ modifier
                                 (Fuzzy / Proximity) placed ABOVE a field that crosses a nested boundary —
                                 a shape the grammar cannot produce (~ applies to a term) *)
Require Import Base Decimal Tree Json EsSpecs EsCheck EsBuild EsSpec EsSem.

(* the field path pre ++ names crosses a declared nested boundary below pre: its innermost nested
   path is longer than pre *)
Definition crosses (np : list str) (pre names : list str) : bool :=
  Nat.ltb (length pre) (length (level_of np (pre ++ names))).

(* what kind of E-item the builder makes of a tree found under the field path pre: an EMust, an EMustNot, or
   something else.  Parentheses, boosts, ~ and fields that do not cross a nested boundary are transparent;
   a field that crosses one becomes a nested clause. *)
Fixpoint item_kind_n (cfg : es_config) (np : list str) (pre : list str) (t : item) : ikind :=
  match t with
  | Unary KPlus _ _ | Op KAnd _ _ => IMust
  | Unary _ _ _ => IMustNot
  | Op KUnknown _ _ => match c_default_operator cfg with DShould => IOther | _ => IMust end
  | SearchField _ n e =>
      if crosses np pre (split_on c_dot n) then IOther
      else item_kind_n cfg np (pre ++ split_on c_dot n) e
  | Grp _ _ e | Boost _ e _ _ => item_kind_n cfg np pre e
  | Fuzzy _ x _ _ | Proximity _ x _ _ => item_kind_n cfg np pre x
  | _ => IOther
  end.

(* a ~ modifier placed above t reaches the clause(s) of t in the reference reading without going through a
   nested boundary (operations drop the modifier in both readings) *)
Fixpoint reaches (np : list str) (pre : list str) (t : item) : bool :=
  match t with
  | SearchField _ n e =>
      negb (crosses np pre (split_on c_dot n)) && reaches np (pre ++ split_on c_dot n) e
  | Grp _ _ e | Boost _ e _ _ => reaches np pre e
  | Fuzzy _ x _ _ | Proximity _ x _ _ => reaches np pre x
  | _ => true
  end.

(* not F6, with nested fields: every operand of a BoolOperation is +x / -x / NOT x, or something whose
   translation is neither an EMust nor an EMustNot item, and is not itself a BoolOperation *)
Definition bool_operand_ok_n (cfg : es_config) (np : list str) (pre : list str) (c : item) : bool :=
  match c with
  | Unary _ _ _ => true
  | Op KBool _ _ => false
  | _ => match item_kind_n cfg np pre c with IOther => true | _ => false end
  end.

(* ef: the empty string is NOT a nested prefix for the code (then '' / '.x' are ordinary field names) *)
Fixpoint nested_plain (cfg : es_config) (np : list str) (ef : bool) (pre : list str) (t : item) : bool :=
  match t with
  | Term _ _ _ | NoneItem _ => true
  | Range _ lo hi _ _ => nested_plain cfg np ef pre lo && nested_plain cfg np ef pre hi
  | SearchField _ n e =>
      (ef || plain_field_name n) && nested_plain cfg np ef (pre ++ split_on c_dot n) e
  | Grp _ _ e | Boost _ e _ _ => nested_plain cfg np ef pre e
  | Fuzzy _ x _ _ | Proximity _ x _ _ => reaches np pre x && nested_plain cfg np ef pre x
  | Unary _ _ a | ORange _ _ a _ => nested_plain cfg np ef pre a
  | Op k _ ops =>
      forallb (nested_plain cfg np ef pre) ops &&
      match k with KBool => forallb (bool_operand_ok_n cfg np pre) ops | _ => true end
  end.

(* the empty string is not among the parents of the declared nested paths (it is when nothing is
   declared: an empty specification flattens to [""], F18) *)
Definition empty_prefix_free (cfg : es_config) : bool :=
  negb (mem_str [] (map parent_path (declared_nested cfg))).

Definition nested_ok (cfg : es_config) (t : item) : bool :=
  nested_plain cfg (nested_paths cfg) (empty_prefix_free cfg) [] t.

(* not F8: every declared nested container (ancestor of a declared path) is the parent of a declared path *)
Definition nested_have_leaf (cfg : es_config) : bool :=
  forallb (fun p => mem_str p (nested_paths_code cfg)) (nested_paths cfg).

(* not F17: a term outside every field is addressed to the default field *)
Fixpoint has_bare_term (t : item) : bool :=
  match t with
  | Term _ _ _ | Range _ _ _ _ _ => true
  | SearchField _ _ _ | NoneItem _ => false
  | Grp _ _ e | Boost _ e _ _ => has_bare_term e
  | Fuzzy _ x _ _ | Proximity _ x _ _ => has_bare_term x
  | Unary _ _ a | ORange _ _ a _ => has_bare_term a
  | Op _ _ ops => existsb has_bare_term ops
  end.

Definition default_level (cfg : es_config) : level :=
  level_of (nested_paths cfg) (split_on c_dot (c_default_field cfg)).

Definition default_ok (cfg : es_config) (t : item) : bool :=
  negb (has_bare_term t) || level_eqb (default_level cfg) [].

(* the F18 component of nested_plain alone (what the structure of the generated query depends on) *)
Fixpoint names_plain (ef : bool) (t : item) : bool :=
  match t with
  | Term _ _ _ | NoneItem _ => true
  | Range _ lo hi _ _ => names_plain ef lo && names_plain ef hi
  | SearchField _ n e => (ef || plain_field_name n) && names_plain ef e
  | Grp _ _ e | Boost _ e _ _ => names_plain ef e
  | Fuzzy _ x _ _ | Proximity _ x _ _ => names_plain ef x
  | Unary _ _ a | ORange _ _ a _ => names_plain ef a
  | Op _ _ ops => forallb (names_plain ef) ops
  end.
Definition names_ok (cfg : es_config) (t : item) : bool := names_plain (empty_prefix_free cfg) t.

(* ---------------------------------------------------------------- structure of the generated query *)
(* the nested clauses of a bool / nested / leaf query sit on the innermost nested paths: read at the nested
   level lvl, every leaf clause addresses a field whose innermost nested path is lvl (or names no single
   field), and every nested clause has a declared path that properly extends lvl and is read at that path.
   In particular no nested clause lies directly or indirectly in a nested clause of the same path without
   a longer path in between, and the chain of nested paths around a leaf is strictly increasing and ends on
   the innermost nested path of the leaf's field. *)
Fixpoint proper_prefix (a b : list str) : bool :=
  match a, b with
  | [], _ :: _ => true
  | x :: a', y :: b' => str_eqb x y && proper_prefix a' b'
  | _, _ => false
  end.

Fixpoint nest_wf (np : list str) (j : json) (lvl : level) {struct j} : bool :=
  match j with
  | JObj [(k, JObj body)] =>
      if str_eqb k k_bool then
        (fix go (o : list (str * json)) : bool :=
           match o with
           | [] => true
           | (_, JList l) :: o' =>
               (fix gl (l : list json) : bool :=
                  match l with [] => true | x :: l' => nest_wf np x lvl && gl l' end) l && go o'
           | (_, v) :: o' => nest_wf np v lvl && go o'
           end) body
      else if str_eqb k k_nested then
        match obj_get k_path body with
        | Some (JStr p) =>
            let P := split_on c_dot p in
            mem_str p np && proper_prefix lvl P &&
            (fix qr (o : list (str * json)) : bool :=
               match o with
               | [] => false
               | (k', v) :: o' => if str_eqb k_query k' then nest_wf np v P else qr o'
               end) body
        | _ => false
        end
      else match clause_field j with
           | Some f => level_eqb (level_of np (split_on c_dot f)) lvl
           | None => true
           end
  | _ => false
  end.
