"""C18 — pretty-printing never changes the query: parse(Prettifier(...)(tree)) == tree for every parsed
query and every setting; deterministic; the input tree is not modified."""
import copy
import gc
import re

import lib
import gentree
import parsegen as PG
from runner import CorrResult  # noqa: F401

CORPUS = [
    # F11 territory: a newline inside a quoted term
    '"a\nb" AND c', '/a\nb/ OR c', 'f:"x\ny"', '("a\nb")', '[ "a\nb" TO c ]', 'NOT "a\nb"', '"a\nb"~2',
    '"a\nb"^2 d', '"a\n\nb"', '"\n"', 'x AND (y OR "l1\nl2")',
    # F1 territory: the blank between a field name and its colon is lost by str(); inside a simple element
    # (printed verbatim by the prettifier) `...T12:30` then fuses into one time-like word
    "-xT12 :30", "NOT T12 :30", "(xT12 :30)^2", "+f:T12 :30", "[a TO b] -(f:(xT12\t:30))", "-xT12 :٣٠ a",
    "xT12 :30", "f:T12 :30 AND a", "-xT12 : 30", "-xT1 :30",            # harmless neighbours
    # newlines / odd blanks in the layout only (harmless ones)
    "a\n\nAND\n\nb", "[a\nTO\nb]", "[a  TO  b]", "NOT\na", "a\n~2", "a\n^2 b", "f:\na", "(\na\n)", "\na OR b\n",
    "a\u2028OR\u3000b", "f:(\na\nb\n)", "<\n5", "+\na -\nb",
    # simple elements printed verbatim with inner layout
    "(a OR b)^2", "NOT (a AND b)", "-f:(a b)", "+(a b)^3", "f:(a b)", "f:(a AND (b OR c))", "f:(a)^2", "f:[1 TO 5]",
    "f:>=5", "f:-a", "NOT f:(a OR b) c", "a~2 b~ \"c d\"~3", "[-1 TO \"x y\"]",
    # numerals the parser re-spells (GRespell events, nothing dropped): inside the guard of C18_respelled_partial
    'f:(a^1.0 OR  b~.5) AND "x y"~02 c^007', "a^1.0", "b~.5", '"x y"~02', "a~1.0^2.50", "a~00.10 b^10.0 c^0.0",
    "(a^1.0)^02.0 OR f:b~1.", "NOT a~.50 AND -b^007", '"x y"~010^.5 d~1.50', "a\n^1.0 b\n~0.50", "f:(a^01)^1.00 g:[a TO b]^2.0",
    # ... together with a dropped blank (F1's class: outside the guard)
    "f :a^1.0", "xT12 :30~1.0",
    # operations without groups, mixed operators (F4 shapes too)
    "a AND b -c", "a b AND c", "a OR b AND c OR d", "a AND b OR c AND d", "a b c", "a AND b AND c", "a OR b c OR d",
    "a AND b +c", "a OR b TO", "a AND NOT b", "a -b +c",
    # groups
    "(a)", "((a))", "(((a OR b)))", "(a AND b) OR (c AND d)", "((a b) (c d)) e", "( a )", "f:((a))",
    # fields
    "f:a", "f:a g:b", "f:a AND g:(b OR c)", "a.b:c", "f:\"x y\"~2^3", "f:/re/",
    # characters a printer might use as an internal placeholder or drop: legal inside terms, phrases, regexes
    '"foo\x00bar" AND baz', 'foo\x00bar OR baz', 'f\x00g:a b', '/a\x00b/ c', '"a\x01b" "c\x7fd" e',
    '"\ufffe" OR \uffff', 'a\u200bb AND "c\u200bd"', 'x\x1fy (z\x1e)', '"tab\there" AND a\x0bb',
    # a boosted / fuzzy group or field longer than the narrow widths, with forces that normalise to an exponent form
    "(aaaaaaaaaaaaaaaa OR bbbbbbbbbbbbbbbbbbb OR cccccccccccccccc)^10 AND dddddddd",
    "(aaaaaaaaaaaaaaaa OR bbbbbbbbbbbbbbbbbbb)^0.0000005 eeeeeeee", "f:(aaaaaaaaaaaa bbbbbbbbbbbbbb cccccccccc)^200 OR g",
    "T12: 30", "sensorT01: 42 AND status:ok", "xT12 : 30 y",
    # reserved words / escapes as terms
    "\\AND b", "a\\ b c", "TO", "a TO b", "&& ||", "a && b",
    " a ", "\ta AND\tb ", "a",
    # long ones: above every width
    " OR ".join("w%d" % i for i in range(30)), " ".join("t%d" % i for i in range(40)),
    " AND ".join("(x%d OR y%d)" % (i, i) for i in range(12)),
    "f:(" + " OR ".join("v%d" % i for i in range(25)) + ") AND g:[1 TO 5] OR NOT h:\"x y\"~2^3",
    "(" * 8 + "a OR b" + ")" * 8, "a AND (b OR (c AND (d OR (e AND (f OR (g AND h))))))",
    "x" * 130, "x" * 79 + " y", "x" * 80 + " y", "x" * 78 + " y",
]
GRID = [(4, 80, False), (4, 80, True), (0, 1, False), (2, 10, True), (8, 1, False), (0, 120, True), (3, 20, False)]


def quoted_newline(tree):
    """known finding F11 — executable predicate on the input tree: some Phrase or Regex value contains
    a newline (the only tokens of the grammar that may contain one)."""
    import luqum.tree as T
    return any(isinstance(n, (T.Phrase, T.Regex)) and "\n" in n.value for _, n in gentree.all_nodes(tree))


def off_spine_fields(tree):
    """SearchField nodes strictly inside a simple element (one that _get_chains prints with str())"""
    import luqum.tree as T
    out = []

    def walk(n, spine):
        if isinstance(n, T.SearchField) and not spine:
            out.append(n)
        on = spine and isinstance(n, (T.BaseOperation, T.BaseGroup, T.SearchField))
        for c in n.children:
            walk(c, on)
    walk(tree, True)
    return out


def time_fusion(tree):
    """known finding F1 as it shows in C18 — executable predicate on the input tree: a field printed verbatim
    inside a simple element whose name ends with 'T' + two digits and whose printed value starts with two
    digits.  Such a tree can only come from a query with a blank before the colon (`xT12 :30`); str() drops
    that blank (F1) and `xT12:30` is one TERM (the time syntax of the lexer)."""
    return any(re.search(r"T\d{2}$", n.name) and re.match(r"\d{2}", n.expr.__str__(head_tail=True))
               for n in off_spine_fields(tree))


def classify(tree):
    if quoted_newline(tree):
        return "F11"
    if time_fusion(tree):
        return "F1"
    return None


def snapshot(tree):
    return (lib.g_item(tree), tree.__repr__(), tree.__str__(head_tail=True))


def impl_pretty(Prettifier, tree, cfg):
    try:
        return ("ok", Prettifier(*cfg)(tree))
    except AssertionError:
        return ("assert", None)
    except AttributeError as e:
        if "NoneType" in str(e) and "split" in str(e):
            return ("none", None)
        return ("other", repr(e))
    except Exception as e:
        return ("other", repr(e))


def depth(n):
    return 1 + max([depth(c) for c in n.children] or [0])


# ------------------------------------------------------------------ histories on reused instances
# The value model has no instance state and no object identity.  These histories exercise exactly that on the
# implementation: the same Prettifier instances (and the module-level `prettify`) are called again and again,
# on trees that are dropped (so that id() values are reused) and on trees edited in place.

TEMPLATES = ["%s AND %s OR %s", "(%s OR %s) AND f:%s", "f:(%s %s) AND -%s", "%s %s %s",
             "f:\"%s %s\"~2 OR (%s AND (%s OR %s))", "\"%s\n%s\" AND %s", "[%s TO %s] OR g:(%s)",
             "%s AND (%s OR (%s AND (%s OR %s)))", "t:%s^2 %s~1 /%s/", "-xT12 :30 %s"]
EDIT_TEMPLATES = ["%s AND %s OR %s", "(%s OR %s) AND f:%s", "%s %s %s", "f:\"%s %s\"~2 OR (%s AND (%s OR %s))",
                  "\"%s\n%s\" AND %s", "[%s TO %s] OR g:(%s)", "%s AND (%s OR (%s AND (%s OR %s)))",
                  "f:(%s %s) OR %s"]
LOOKALIKES = [("%s:[1 TO 5] %s", "%s:{1 TO 5} %s"), ("%s:[%s TO %s}", "%s:{%s TO %s]"),
              ("%s:>=18 AND %s:<2", "%s:>18 AND %s:<=2"), ("%s~ %s", "%s~0.5 %s"), ("%s^1.0 %s", "%s^1 %s"),
              ('"%s %s"~ %s', '"%s %s"~1 %s'), ("%s  AND %s", "%s AND %s"), ("%s AND %s", "%s AND  %s"),
              ("f:(%s %s)", "f:%s %s"), ("(%s OR %s) AND %s", "%s OR %s AND %s"), ("%s %s", "%s OR %s"),
              ('"%s"', "%s"), ("f:(%s)", "(f:%s)"), ("-%s %s", "NOT %s %s"), ("%s AND %s", "%s and %s")]
LETTERS2 = "abcdefghijklmnopqrstuvwxyz"


def rword(r, n=3):
    # same-sized lower-case words (never a reserved word)
    return "".join(r.choice(LETTERS2) for _ in range(n))


def fill(r, template):
    return template % tuple(rword(r) for _ in range(template.count("%s")))


def reused_instances(Prettifier):
    import luqum.pretty as LP
    inst = [((4, 80, False), LP.prettify, "luqum.pretty.prettify")]
    for cfg in [(2, 10, True), (0, 1, False), (8, 40, True), (3, 25, False)]:
        inst.append((cfg, Prettifier(*cfg), "Prettifier%r" % (cfg,)))
    return inst


def call_instance(inst, tree):
    try:
        return ("ok", inst(tree))
    except AssertionError:
        return ("assert", None)
    except AttributeError as e:
        if "NoneType" in str(e) and "split" in str(e):
            return ("none", None)
        return ("other", repr(e))
    except Exception as e:
        return ("other", repr(e))


def judge(res, parser, Prettifier, tree, cfg, inst, history, cases, payloads, dist):
    """one call on a reused instance: serialise the CURRENT tree, call, compare with a fresh instance,
    apply the round-trip oracle against the current tree, emit the model case"""
    lit = lib.g_item(tree)
    before = (lit, tree.__repr__())
    k1, p1 = call_instance(inst, tree)
    kf, pf = impl_pretty(Prettifier, tree, cfg)
    payload = {"history": list(history), "indent": cfg[0], "max_len": cfg[1], "inline_ops": cfg[2], "pretty": p1}
    if (lib.g_item(tree), tree.__repr__()) != before:
        res.failures.append((dict(payload, why="the input tree was modified"), None))
    if (k1, p1) != (kf, pf):
        res.failures.append((dict(payload, why="a reused instance and a fresh Prettifier give different results",
                                  fresh=[kf, pf]), None))
    rt = False
    if k1 != "ok":
        res.failures.append((dict(payload, why="prettifier raised (%s)" % k1), None))
    else:
        kk, t2 = PG.impl_parse(p1, parser.parse)
        if kk != "ok":
            res.failures.append((dict(payload, why="pretty output rejected by the parser: %s" % (t2,)),
                                 classify(tree)))
        elif not (t2 == tree):
            res.failures.append((dict(payload, why="pretty output parses to a tree different from the current tree",
                                      reparsed=repr(t2)[:600], current=repr(tree)[:600]), classify(tree)))
        else:
            rt = True
    if not rt:
        dist["roundtrip_false"] += 1
    exp = {"ok": "(XOk %s %s)" % (lib.g_str(p1) if k1 == "ok" else "[]", lib.g_bool(rt)),
           "assert": "XAssert", "none": "XNone", "other": "XOther"}[k1]
    cases.append("(%s, (%s, %s, %s), true, %s)" % (lit, lib.g_Z(cfg[0]), lib.g_Z(cfg[1]), lib.g_bool(cfg[2]), exp))
    payloads.append(payload)


def edit_in_place(r, T, parser, tree):
    """one in-place edit that keeps the tree re-parsable as it is; returns a description or None"""
    nodes = [n for _, n in gentree.all_nodes(tree)]
    kinds = ["word", "append", "expr", "phrase"]
    r.shuffle(kinds)
    for kind in kinds:
        if kind == "word":
            ws = [n for n in nodes if type(n) is T.Word]
            if ws:
                n = r.choice(ws)
                old, n.value = n.value, rword(r, r.choice([3, 3, 7]))
                return "Word %r .value = %r" % (old, n.value)
        elif kind == "append":
            ops = [n for n in nodes if isinstance(n, T.BaseOperation)]
            if ops:
                n = r.choice(ops)
                w = T.Word(rword(r), head=" ")
                if r.random() < 0.5:
                    n.operands = tuple(n.operands) + (w,)
                else:
                    n.children = list(n.children) + [w]
                return "%s: operand %r appended" % (type(n).__name__, w.value)
        elif kind == "expr":
            gs = [n for n in nodes if isinstance(n, T.BaseGroup)]
            fs = [n for n in nodes if type(n) is T.SearchField]
            if gs and (not fs or r.random() < 0.6):
                n = r.choice(gs)
                n.expr = parser.parse(fill(r, r.choice(["%s OR %s", "%s %s", "%s"])))
                return "%s.expr = %r" % (type(n).__name__, str(n.expr))
            if fs:
                n = r.choice(fs)
                n.expr = r.choice([T.Word(rword(r)), T.Phrase('"%s %s"' % (rword(r), rword(r)))])
                return "SearchField(%r).expr = %r" % (n.name, str(n.expr))
        elif kind == "phrase":
            ps = [n for n in nodes if type(n) is T.Phrase]
            if ps:
                n = r.choice(ps)
                old, n.value = n.value, r.choice(['"%s\n%s"', '"%s %s"']) % (rword(r), rword(r))
                return "Phrase %r .value = %r" % (old, n.value)
    return None


def histories(res, r, quick, T, parser, Prettifier, cases, payloads, dist):
    insts = reused_instances(Prettifier)
    # (a) REUSE: many freshly parsed same-sized queries, each dropped after its calls
    n_reuse = 220 if quick else 2200
    for i in range(n_reuse):
        s = fill(r, TEMPLATES[i % len(TEMPLATES)] if i % 3 else r.choice(TEMPLATES))
        tree = parser.parse(s)
        cfg, inst, name = insts[i % len(insts)]
        if i % 37 == 5:
            # a call that cannot complete (a tree deeper than the recursion limit), then the history goes on
            import gentree as _gt
            dist["aborted_calls"] = dist.get("aborted_calls", 0) + (_gt.aborted_call(inst, T) != "completed")
        judge(res, parser, Prettifier, tree, cfg, inst, ["reuse #%d on %s" % (i, name), "parse(%r)" % s],
              cases, payloads, dist)
        if i % 7 == 0:            # and a second instance on the same object
            cfg2, inst2, name2 = insts[(i + 1) % len(insts)]
            judge(res, parser, Prettifier, tree, cfg2, inst2,
                  ["reuse #%d on %s (same tree object as the previous call)" % (i, name2), "parse(%r)" % s],
                  cases, payloads, dist)
        del tree
        if i % 25 == 0:
            gc.collect()
    dist["reuse_history_calls"] = n_reuse + (n_reuse + 6) // 7
    # (b) EDIT: the same object prettified, edited in place, prettified again by the same instance
    n_edit = 70 if quick else 700
    n_calls = 0
    for i in range(n_edit):
        s = fill(r, EDIT_TEMPLATES[i % len(EDIT_TEMPLATES)])
        tree = parser.parse(s)
        cfg, inst, name = insts[i % len(insts)]
        history = ["edit history #%d on %s" % (i, name), "parse(%r)" % s, "call"]
        judge(res, parser, Prettifier, tree, cfg, inst, history, cases, payloads, dist)
        n_calls += 1
        for _ in range(r.choice([1, 2, 2, 3])):
            what = edit_in_place(r, T, parser, tree)
            if what is None:
                break
            history = history + ["edit in place: " + what, "call"]
            judge(res, parser, Prettifier, tree, cfg, inst, history, cases, payloads, dist)
            n_calls += 1
        del tree
        if i % 20 == 0:
            gc.collect()
    dist["edit_history_calls"] = n_calls
    # (c) LOOK-ALIKE: two different queries that a lenient key (repr, ==, the words only) takes for the same one,
    # printed one after the other by the same instance
    n_look = 0
    for i in range(40 if quick else 400):
        a, b = LOOKALIKES[i % len(LOOKALIKES)]
        ws = tuple(rword(r) for _ in range(4))
        qa, qb = a % ws[:a.count("%s")], b % ws[:b.count("%s")]
        if i % 2:
            qa, qb = qb, qa
        cfg, inst, name = insts[(i // len(LOOKALIKES)) % len(insts)]
        history = ["look-alike history #%d on %s" % (i, name)]
        for q in (qa, qb, qa):
            history = history + ["parse(%r)" % q, "call"]
            judge(res, parser, Prettifier, parser.parse(q), cfg, inst, history, cases, payloads, dist)
            n_look += 1
    dist["lookalike_history_calls"] = n_look


def correspond(model_ok, res):
    import luqum.tree as T
    from luqum.parser import parser
    from luqum.pretty import Prettifier
    r = lib.rng("C18")
    quick = lib.tier() == "quick"
    g = PG.QGen(r)
    strings = list(CORPUS)
    for _ in range(150 if quick else 1500):
        lex = g.expr(r.randrange(0, 5))
        strings.append(PG.layout(r, lex, p_sep=r.choice([0.1, 0.5, 0.9])))
    for _ in range(25 if quick else 250):      # long flat / nested ones: both width regimes at every level
        lex = g.expr(r.randrange(2, 5))
        for _ in range(r.randrange(1, 6)):
            lex = lex + [r.choice(["AND", "OR"])] + g.expr(r.randrange(0, 4))
        strings.append(PG.layout(r, lex, p_sep=0.9))

    cases, payloads = [], []
    parsed_strings, parsed_results = [], []
    rt_failed = {}                      # input string -> some setting's output did not parse back to an equal tree
    seen = set()
    dist = {"multi_line_outputs": 0, "one_line_outputs": 0, "inline_ops": 0, "tree_depth": {}, "indent": {},
            "max_len_bucket": {}, "output_longer_than_max_len": 0, "rejected_inputs": 0, "programmatic_trees": 0,
            "programmatic_outcomes": {}, "roundtrip_false": 0}
    for si, s in enumerate(strings):
        kind, tree = PG.impl_parse(s, parser.parse)
        if kind != "ok" or tree is None:
            dist["rejected_inputs"] += 1
            continue
        parsed_strings.append(s)
        parsed_results.append((kind, tree))
        settings = list(GRID) if si < len(CORPUS) else []
        for _ in range(2 if si < len(CORPUS) else 3):
            settings.append((r.randrange(0, 9), r.choice([1, 5, 10, 20, 40, 80, 120, r.randrange(1, 121)]),
                             r.random() < 0.5))
        d = depth(tree)
        fid = classify(tree)
        for cfg in settings:
            before = snapshot(tree)
            k1, p1 = impl_pretty(Prettifier, tree, cfg)
            k2, p2 = impl_pretty(Prettifier, tree, cfg)
            after = snapshot(tree)
            payload = {"input": s, "indent": cfg[0], "max_len": cfg[1], "inline_ops": cfg[2], "pretty": p1}
            if before != after:
                res.failures.append((dict(payload, why="the input tree was modified"), None))
            if (k1, p1) != (k2, p2):
                res.failures.append((dict(payload, why="two calls give different results", second=p2), None))
            rt = False
            if k1 != "ok":
                res.failures.append((dict(payload, why="prettifier raised (%s) on a parsed query" % k1), None))
            else:
                kk, t2 = PG.impl_parse(p1, parser.parse)
                if kk != "ok":
                    res.failures.append((dict(payload, why="pretty output rejected by the parser: %s" % (t2,)),
                                         fid))
                elif not (t2 == tree):
                    res.failures.append((dict(payload, why="pretty output parses to a different tree",
                                              reparsed=repr(t2)[:600], original=repr(tree)[:600]),
                                         fid))
                else:
                    rt = True
                if not rt:
                    dist["roundtrip_false"] += 1
                    rt_failed[s] = True
                dist["multi_line_outputs" if "\n" in p1 else "one_line_outputs"] += 1
                if max(map(len, p1.split("\n"))) > cfg[1]:
                    dist["output_longer_than_max_len"] += 1
            dist["inline_ops"] += int(cfg[2])
            dist["tree_depth"][d] = dist["tree_depth"].get(d, 0) + 1
            dist["indent"][cfg[0]] = dist["indent"].get(cfg[0], 0) + 1
            b = cfg[1] // 20 * 20
            dist["max_len_bucket"][b] = dist["max_len_bucket"].get(b, 0) + 1
            exp = {"ok": "(XOk %s %s)" % (lib.g_str(p1) if k1 == "ok" else "[]", lib.g_bool(rt)),
                   "assert": "XAssert", "none": "XNone", "other": "XOther"}[k1]
            cases.append("(%s, (%s, %s, %s), true, %s)" % (before[0], lib.g_Z(cfg[0]), lib.g_Z(cfg[1]),
                                                           lib.g_bool(cfg[2]), exp))
            payloads.append(payload)
            if d > 1:
                seen.add((s, cfg))

    # programmatic trees (outside the property: only to validate the model, including its two
    # exception paths — empty operations make `yield last` give None or put a marker first)
    gt = gentree.Gen(r, T, layout=0.3, odd=0.3)
    prog = [T.AndOperation(), T.Group(T.OrOperation()), T.AndOperation(T.AndOperation(), T.Word("a")),
            T.OrOperation(T.UnknownOperation(), T.Word("a")), T.AndOperation(T.OrOperation(), T.Word("a")),
            T.UnknownOperation(T.UnknownOperation(T.Word("a"), T.Word("b")), T.BoolOperation(T.Word("c"), T.Word("d"))),
            T.SearchField("f", T.AndOperation()), T.AndOperation(T.Word("a")), T.NoneItem(),
            T.Group(T.SearchField("f", T.Group(T.AndOperation(T.Word("a"), T.OrOperation(T.Word("b"), T.Word("c")))))),
            T.Not(T.AndOperation(T.Word("a", tail=" "), T.Word("b", head=" "), head=" "))]
    prog += [gt.tree(r.randrange(1, 5)) for _ in range(80 if quick else 800)]
    for tree in prog:
        cfg = (r.randrange(0, 9), r.choice([1, 10, 40, 80, r.randrange(1, 121)]), r.random() < 0.5)
        try:
            lit = lib.g_item(tree)
        except lib.Unmodelled:
            continue
        k1, p1 = impl_pretty(Prettifier, copy.deepcopy(tree), cfg)
        dist["programmatic_trees"] += 1
        dist["programmatic_outcomes"][k1] = dist["programmatic_outcomes"].get(k1, 0) + 1
        exp = {"ok": "(XOk %s false)" % (lib.g_str(p1) if k1 == "ok" else "[]"),
               "assert": "XAssert", "none": "XNone", "other": "XOther"}[k1]
        cases.append("(%s, (%s, %s, %s), false, %s)" % (lit, lib.g_Z(cfg[0]), lib.g_Z(cfg[1]), lib.g_bool(cfg[2]), exp))
        payloads.append({"programmatic_tree": gentree.describe(tree)[:1500], "indent": cfg[0], "max_len": cfg[1],
                         "inline_ops": cfg[2], "implementation": [k1, p1]})

    n_plain = len(cases)
    histories(res, r, quick, T, parser, Prettifier, cases, payloads, dist)
    for pl in payloads[n_plain:]:
        seen.add((tuple(pl["history"]), pl["indent"], pl["max_len"], pl["inline_ops"]))
    res.cases = len(cases)
    res.nontrivial = len(seen)
    res.rule = ("grammar-directed parsed queries (every production, random Unicode-whitespace layout, long chains "
                "above the width) and a fixed corpus x printer settings (indent 0-8, max_len 1-120, inline_ops); "
                "plus programmatic trees with empty operations for the exception paths of the model; plus REUSE "
                "histories (the module-level prettify and four long-lived Prettifier instances called on hundreds "
                "of freshly parsed same-sized queries that are dropped after the call) and EDIT histories (same "
                "object prettified, edited in place - word value, appended operand, replaced .expr, phrase value - "
                "and prettified again by the same instance), each output compared with the model on the tree as "
                "it is at the call and with a fresh instance, and judged by the round-trip oracle; "
                "non-trivial = distinct (query, settings) whose tree has more than one node, or distinct history step")
    res.samples = [dict(p, pretty=(p.get("pretty") or "")[:200]) for p in payloads[7 * 12:7 * 12 + 6]]
    res.distribution = dist
    if not model_ok:
        res.model_error = "model did not build"
        return res
    defs = ("Inductive pexp := XOk (s : str) (rt : bool) | XAssert | XNone | XOther.\n"
            "Definition roundtrip (p : str) (t : item) : bool :=\n"
            "  match parse p with Some (Ok t') => item_eqb t' t | _ => false end.\n"
            "Definition chk (c : item * (Z * Z * bool) * bool * pexp) : bool :=\n"
            "  let '(t, (i, m, b), do_rt, e) := c in\n"
            "  match pretty_res (mkPcfg i m b) t, e with\n"
            "  | POk p, XOk p' rt => str_eqb p p' && (negb do_rt || Bool.eqb (roundtrip p t) rt)\n"
            "  | PAssert, XAssert => true\n"
            "  | PNoneSplit, XNone => true\n"
            "  | _, _ => false end.")
    canary = "(Term KWord meta0 [97]%N, ((4)%Z, (80)%Z, false), true, XOk [98]%N true)"
    canary2 = "(Term KWord meta0 [97]%N, ((4)%Z, (80)%Z, false), true, XOk [97]%N false)"
    try:
        bad = lib.eval_cases("C18", "Base Decimal Tree TreeEq GenParser Lexer Actions LR Parser Eq Pretty", defs,
                             cases + [canary, canary2], "chk", shard=60)
        assert len(cases) in bad and len(cases) + 1 in bad, "canary not detected"
        for i in bad:
            if i < len(cases):
                res.disagreements.append(payloads[i])
        # the hypothesis side of the statement in the model: the model parser returns the same trees
        for i in PG.run_parse_cases("C18p", parsed_strings, parsed_results):
            res.disagreements.append({"input": parsed_strings[i], "what": "model parser differs on the input query"})
        # theorem C18_respelled_partial (C18r.v) against the implementation: inside its two guards (no text dropped
        # while parsing, no newline inside a token - both evaluated on the MODEL) the implementation's round trip
        # must never have failed for any setting tried, whatever the known-finding classifier says; modes 1 and 2
        # probe the new and the old (C18p: no ghost event at all) guard, to measure what each theorem covers
        gdefs = ("Definition lexemes_ok (s : str) : bool :=\n"
                 "  match parse s with Some (Ok t) => no_newline_in_lexemes s | _ => false end.\n"
                 "Definition in_guard (s : str) : bool :=\n"
                 "  lexemes_ok s && match dropped_texts s with [] => true | _ => false end.\n"
                 "Definition in_old_guard (s : str) : bool :=\n"
                 "  lexemes_ok s && match parse_events s with [] => true | _ => false end.\n"
                 "Definition chk (c : str * bool * nat) : bool :=\n"
                 "  let '(s, failed, mode) := c in\n"
                 "  match mode with\n"
                 "  | O => negb (in_guard s && failed)\n"
                 "  | S O => in_guard s\n"
                 "  | _ => in_old_guard s || negb (in_guard s)      (* false = covered by C18r only *)\n"
                 "  end.")
        gcases = ["(%s, %s, O)" % (lib.g_str(x), lib.g_bool(bool(rt_failed.get(x)))) for x in parsed_strings]
        gcases += ["(%s, false, S O)" % lib.g_str(x) for x in parsed_strings]
        gcases += ["(%s, false, S (S O))" % lib.g_str(x) for x in parsed_strings]
        gcanary = "([97]%N, true, O)"          # `a` is inside the guards: a failed round trip must be reported
        gcanary2 = "([97;94;49;46;48]%N, true, O)"     # `a^1.0` is inside the NEW guard (outside the old one)
        gcanary3 = "([97;94;49;46;48]%N, false, S (S O))"    # ... and must be counted as covered by C18r only
        gbad = lib.eval_cases("C18g", "Base Decimal Tree TreeEq GenParser Lexer Actions LR Parser Eq Pretty PrettyProofs BridgeProofs",
                              gdefs, gcases + [gcanary, gcanary2, gcanary3], "chk", shard=120)
        assert all(len(gcases) + j in gbad for j in range(3)), "guard canary not detected"
        n = len(parsed_strings)
        outside = 0
        new_only = 0
        for i in gbad:
            if i < n:
                res.disagreements.append({"input": parsed_strings[i],
                                          "what": "inside the guards of theorem C18_respelled_partial (model: nothing "
                                                  "dropped, no newline inside a token) but the implementation's pretty "
                                                  "output did not parse back to an equal tree"})
            elif i < 2 * n:
                outside += 1
            elif i < 3 * n:
                new_only += 1
        dist["inputs_inside_guards_of_C18_respelled_partial"] = n - outside
        dist["inputs_outside_guards_of_C18_respelled_partial"] = outside
        dist["inputs_inside_guards_of_C18_partial_lexemes"] = n - outside - new_only
        dist["inputs_covered_by_C18r_only_(re-spelled_numerals)"] = new_only
    except Exception as e:
        res.model_error = "%s: %s" % (type(e).__name__, e)
    return res


SPEC = {
    "id": "C18",
    "targets": ["props/C18.vo"],
    "model_targets": ["model/Pretty.vo", "model/Parser.vo", "model/TreeEq.vo", "model/Eq.vo"],
    "module": "C18",
    "theorems": ["C18_refuted", "C18_plain_guard_refuted", "C18_deterministic", "C18_total", "C18_total_parsed", "C18_respacing",
                 "C18_respacing_plain", "C18_chunks_setting_independent", "C18_chunks_text", "C18_modulo_lexing"],
    # the end-to-end theorem: bridge parser -> token groups (proofs/BridgeProofs.v) + L-respace
    "more": [{"module": "LrespaceC18", "target": "props/LrespaceC18.vo", "theorems": ["C18_from_token_groups"]},
             {"module": "C18p", "target": "props/C18p.vo",
              "theorems": ["C18_partial", "C18_partial_lexemes", "C18_bridge", "C18_bridge_any_tables", "L_respace_glued_trail_thm",
                           "C18_exact_groups_refuted"]},
             # the same under the weaker guard "no text dropped": numerals re-spelled by the parser are covered
             {"module": "C18r", "target": "props/C18r.vo",
              "theorems": ["C18_respelled_partial", "C18r_guard_weaker", "C18r_subsumes_C18p", "C18r_drop_guard_needed",
                           "C18r_newline_guard_needed", "C18_bridge_respelled", "C18_bridge_respelled_any_tables",
                           "C18r_action_cases", "L_respace_respelled_main_thm", "L_respace_respelled_thm",
                           "parse_respelled_same_tree_thm", "C18r_printed_numeral", "C18r_ex_round_trip"]}],
    "correspond": correspond,
    "statement": "for every parsed query t and every setting, parse(pretty cfg t) is a tree equal to t: REFUTED by "
                 "'\"a\\nb\" AND c' (F11), and even without newlines by '-xT12 :30' (F1 + time syntax). Proved: pretty never raises on a parsed query (any LR tables) and is a "
                 "function; for every setting its output is the setting-independent chunk sequence glued by "
                 "non-empty blank/newline separators, each newline inside a chunk being replaced by such a separator; "
                 "and the statement's conclusion holds whenever the pretty text lexes to the query's tokens. "
                 "C18_partial_lexemes (C18p.v): the property's own statement, for every setting, for every parsed query "
                 "without ghost event (C01's guard, excludes F1) and without a newline inside a token (excludes F11). "
                 "C18_respelled_partial (C18r.v): the same under the WEAKER first guard 'no text dropped while parsing' "
                 "(dropped_texts s = [], C01r's guard): queries whose numerals the parser re-spells (a^1.0 -> a^1, "
                 "b~.5 -> b~0.5, \"x y\"~02 -> \"x y\"~2) are covered; the only parsed inputs excluded are F1's class "
                 "(a blank before a field's colon) and F11's class (a newline inside a phrase or regex), and neither "
                 "guard can be removed (C18r_drop_guard_needed, C18r_newline_guard_needed)",
    "level_text": "Coq proof (PARTIAL). Proved: (1) the full statement is refuted by a computed witness (F11), and so is "
                  "its restriction to trees without a newline in any chunk (second witness '-xT12 :30': str() of a "
                  "simple element drops the blank before a colon, F1, and 'T12:30' fuses into one word); "
                  "(2) pretty is deterministic and never raises on a tree whose spine operations all have an operand, "
                  "in particular (for ANY LR tables) on every tree the parser returns; (3) for every setting (any "
                  "indent, max_len, inline_ops: the width arithmetic is irrelevant) the output is: leading blanks, "
                  "then the chunks of the tree (operator words, parentheses, 'name:', verbatim text of simple "
                  "elements - a sequence that does not depend on the setting and whose concatenation is the printed "
                  "tree with the layout of its operation/group/field spine removed) separated by separators that are "
                  "one blank or one newline followed by blanks, each newline inside a chunk replaced by such a "
                  "separator; without a newline in the chunks the output is exactly that re-spacing; (4) using the "
                  "any-table layout independence of the LR driver (C03a): if the pretty text lexes to the same "
                  "(type, lexeme) token sequence as the query, it parses to a tree equal (luqum ==) to the original. "
                  "(5) C18p.v, END TO END: C18_partial_lexemes = the property's statement for every setting under the two "
                  "guards 'no ghost event while parsing' (C01's guard; excludes F1) and 'no newline inside a token' "
                  "(exactly the complement of F11's predicate; newlines in the layout are proved harmless), both shown "
                  "necessary by the two refutations (C18_partial: the same with 'no newline in a chunk'). It stands on the bridge C18_bridge "
                  "(for ANY LR tables: C18_bridge_any_tables), an invariant of the 25 semantic actions threaded through "
                  "the LR driver: the chunk sequence of the parsed tree is, chunk by chunk, blanks ++ text of a group "
                  "of consecutive tokens of the query ++ blanks (a simple element keeps the layout of its inner nodes: "
                  "C18_exact_groups_refuted shows the blanks cannot be dropped), and on the lexer theorem L-respace "
                  "extended with a blank trailer. (6) C18r.v: C18_respelled_partial = the same statement with the first "
                  "guard weakened to 'no text dropped while parsing' (C01r's guard), so that inputs whose numerals the "
                  "parser re-spells are inside; it subsumes (5) (C18r_subsumes_C18p) and both guards are again shown "
                  "necessary. Three new layers: the bridge over the RE-SPELLED token list (C18_bridge_respelled, any "
                  "tables: per action, harmless events are trivial unless the action is an explicit proximity / boost "
                  "/ fuzzy, whose token then carries the printed numeral), L-respace when APPROX/BOOST tokens change "
                  "their digits (L_respace_respelled: no lexer rule looks past a '~' or '^'), and a one-directional "
                  "simulation of the LR driver on token lists that differ by numerals with the same "
                  "Decimal(..).normalize() and int(..) (parse_respelled_same_tree, any tables), fed by the decimal "
                  "lemma that the printed numeral has both (C18r_printed_numeral). The harness checks on every run "
                  "that every generated parsed input inside the two guards (evaluated on the model) round-trips on "
                  "the implementation for every setting tried. Outside the guards the conclusion is validated on every run by "
                  "the correspondence, which evaluates the executable statement parse(pretty cfg t) == t both on the real "
                  "parser/prettifier and on the Coq models (Parser.parse (pretty ...) by vm_compute) and compares "
                  "the verdicts and the pretty strings; non-modification of the input is checked by snapshots.",
    "trusted_base": [
        "Coq 8.16.1 kernel (vm_compute for the witness, table facts and correspondence; no native_compute); no axioms",
        "gen/translate.py: class MROs (isinstance cascade of _get_chains), `op` strings, bracket characters",
        "hand-written model coq/model/Pretty.v of luqum/pretty.py, and the shared models Print.v, Eq.v, Lexer.v, "
        "LR.v, Actions.v, Parser.v — tied by differential correspondence (harness/c18.py) on every run",
        "value-based tree model: non-modification of the input is checked on the implementation by snapshots only",
    ],
    "assumptions": ["trees come from luqum's parser (programmatic trees are outside the property)",
                    "settings are ints / bool as documented (indent, max_len, inline_ops)",
                    "state kept on a Prettifier instance (or on the module-level `prettify`) and object identity "
                    "(id(tree)-keyed caches, in-place edits between calls) are outside the value-based model; they "
                    "are covered on the implementation by the REUSE and EDIT histories of harness/c18.py on every run"],
}
