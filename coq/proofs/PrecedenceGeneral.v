(* PrecedenceGeneral.v — C03 clause (c) as a theorem for (almost) the whole grammar: the LR driver on
   the generated tables and the reference parser of Grammar.v agree on every token list that is the
   yield of a syntax tree `ptree`:

     query   := query orx | orx                 (juxtaposition, left spine; orx not starting with + - TO)
     orx     := orx OR andx | andx
     andx    := andx AND operand | operand
     operand := NOT operand | + operand | - operand | TERM : operand | postfix
     postfix := postfix ^force | TERM | PHRASE | REGEX | TERM~d | PHRASE~n | ( query )
              | TO | < value | <= value | > value | >= value          value := TERM | PHRASE

   with ANY nesting depth and length.  NOT in the class:
     * a phrase that starts with `+`, `-` or the word TO and FOLLOWS another phrase by juxtaposition
       (`a +b`, `+a +b`, `a AND b -c`): there the tables shift instead of reducing; after an AND/OR
       chain that is finding F4, elsewhere the trees still agree but the driver takes another path,
       which this proof does not follow.  Such a phrase is covered at the start of a query or group
       and after AND, OR, NOT, `:`, `+`, `-`;
     * ranges `[a TO b]` / `{a TO b}` (not done);
     * `~` / `^` numerals that are not numbers (both parsers reject them).

   Method: one structural induction per side.  For each level of the grammar a semantic predicate says
   what the LR driver does on the yield of a subtree from every state in which such a phrase may start
   (`LRrun`), and what `Grammar.level` does on it (`SP4`..`SP0`, loops with their accumulator made
   explicit).  States are computed from the tables, table entries are closed facts. *)
Require Import Base Decimal Tree GenTree GenParser Lexer Print Actions LR Parser Erase Grammar.
Require Import TreeInd LayoutProofs LRTermination PrecedenceProofs.
From Coq Require Import Lia.

(* ================================================================ syntax trees and their yield *)
Inductive ptree :=
| PAtom (t : token)
| PApprox (t a : token)
| PBoost (p : ptree) (b : token)
| PNot (n : token) (p : ptree)
| PField (name col : token) (p : ptree)
| PGroup (l : token) (q : ptree) (r : token)
| PAnd (a : ptree) (o : token) (b : ptree)
| POr (a : ptree) (o : token) (b : ptree)
| PJuxt (a b : ptree)
| PSign (sg : token) (p : ptree)            (* + operand / - operand *)
| PTo (t : token)                           (* the word TO outside a range *)
| POpen (o v : token).                      (* <v <=v >v >=v *)

Fixpoint fl (p : ptree) : list token :=
  match p with
  | PAtom t => [t]
  | PApprox t a => [t; a]
  | PBoost p b => fl p ++ [b]
  | PNot n p => n :: fl p
  | PField name col p => name :: col :: fl p
  | PGroup l q r => l :: fl q ++ [r]
  | PAnd a o b => fl a ++ o :: fl b
  | POr a o b => fl a ++ o :: fl b
  | PJuxt a b => fl a ++ fl b
  | PSign sg p => sg :: fl p
  | PTo t => [t]
  | POpen o v => [o; v]
  end.

(* grammar level: 4 postfix, 3 operand, 2 andx, 1 orx, 0 query *)
Definition lvl (p : ptree) : nat :=
  match p with
  | PAtom _ | PApprox _ _ | PBoost _ _ | PGroup _ _ _ | PTo _ | POpen _ _ => 4
  | PNot _ _ | PField _ _ _ | PSign _ _ => 3
  | PAnd _ _ _ => 2
  | POr _ _ _ => 1
  | PJuxt _ _ => 0
  end.

Definition dec_ok (a : token) : bool :=
  match degree_of (tk_lexeme a) with
  | None => true
  | Some d => match dec_of_lexeme d with Some _ => true | None => false end
  end.
Definition int_ok (a : token) : bool :=
  match degree_of (tk_lexeme a) with
  | None => true
  | Some d => match int_of_lexeme d with Some _ => true | None => false end
  end.

Definition is_sign_tok (t : tok) : bool := match t with T_PLUS | T_MINUS => true | _ => false end.
Definition is_open_tok (t : tok) : bool := match t with T_LESSTHAN | T_GREATERTHAN => true | _ => false end.
Definition is_value_tok (t : tok) : bool := match t with T_TERM | T_PHRASE => true | _ => false end.

(* the phrase starts with `+`, `-` or the word TO: it must not follow another one by juxtaposition
   (that is where the LR tables shift instead of reducing: F4 and its harmless relatives) *)
Fixpoint signed (p : ptree) : bool :=
  match p with
  | PSign _ _ | PTo _ => true
  | PBoost p _ => signed p
  | PAnd a _ _ | POr a _ _ | PJuxt a _ => signed a
  | _ => false
  end.

Fixpoint wfb (p : ptree) : bool :=
  match p with
  | PAtom t => is_atom_tok (tk_type t)
  | PApprox t a =>
      tok_eqb (tk_type a) T_APPROX &&
      match tk_type t with T_TERM => dec_ok a | T_PHRASE => int_ok a | _ => false end
  | PBoost p b => Nat.eqb (lvl p) 4 && wfb p && tok_eqb (tk_type b) T_BOOST && dec_ok b
  | PNot n p => tok_eqb (tk_type n) T_NOT && Nat.leb 3 (lvl p) && wfb p
  | PField name col p =>
      tok_eqb (tk_type name) T_TERM && tok_eqb (tk_type col) T_COLUMN && Nat.leb 3 (lvl p) && wfb p
  | PGroup l q r => tok_eqb (tk_type l) T_LPAREN && tok_eqb (tk_type r) T_RPAREN && wfb q
  | PAnd a o b => tok_eqb (tk_type o) T_AND_OP && Nat.leb 2 (lvl a) && Nat.leb 3 (lvl b) && wfb a && wfb b
  | POr a o b => tok_eqb (tk_type o) T_OR_OP && Nat.leb 1 (lvl a) && Nat.leb 2 (lvl b) && wfb a && wfb b
  | PJuxt a b => Nat.leb 1 (lvl b) && wfb a && wfb b && negb (signed b)
  | PSign sg p => is_sign_tok (tk_type sg) && Nat.leb 3 (lvl p) && wfb p
  | PTo t => tok_eqb (tk_type t) T_TO
  | POpen o v => is_open_tok (tk_type o) && is_value_tok (tk_type v)
  end.

Lemma tok_eqb_eq a b : tok_eqb a b = true -> a = b.
Proof. destruct a, b; simpl; intros H; try discriminate; reflexivity. Qed.

Ltac wf_split H :=
  unfold wfb in H; fold wfb in H;
  repeat match type of H with
  | (_ && _)%bool = true => let H' := fresh "W" in apply andb_prop in H; destruct H as [H H']
  end;
  repeat match goal with
  | W : tok_eqb _ _ = true |- _ => apply tok_eqb_eq in W
  | W : Nat.leb _ _ = true |- _ => apply Nat.leb_le in W
  | W : Nat.eqb _ _ = true |- _ => apply Nat.eqb_eq in W
  end.

(* ================================================================ the tree the grammar dictates *)
Definition approx_item (t a : token) : item :=
  match tk_type t with
  | T_PHRASE =>
      match degree_of (tk_lexeme a) with
      | None => Proximity meta0 (Term KPhrase meta0 (tk_lexeme t)) 1%Z true
      | Some d => match int_of_lexeme d with
                  | Some z => Proximity meta0 (Term KPhrase meta0 (tk_lexeme t)) z false
                  | None => NoneItem meta0
                  end
      end
  | _ =>
      match degree_of (tk_lexeme a) with
      | None => Fuzzy meta0 (word (tk_lexeme t)) dec_half true
      | Some d => match dec_of_lexeme d with
                  | Some x => Fuzzy meta0 (word (tk_lexeme t)) (dec_normalize x) false
                  | None => NoneItem meta0
                  end
      end
  end.
Definition boost_item (e : item) (b : token) : item :=
  match degree_of (tk_lexeme b) with
  | None => Boost meta0 e dec_one true
  | Some d => match dec_of_lexeme d with
              | Some x => Boost meta0 e (dec_normalize x) false
              | None => NoneItem meta0
              end
  end.
Definition fieldgroup (x : item) : item :=
  match x with Grp KGroup m e => Grp KFieldGroup m e | _ => x end.

Definition sign_kind (sg : token) : unk := match tk_type sg with T_PLUS => KPlus | _ => KProhibit end.
Definition open_kind (o : token) : ork := match tk_type o with T_LESSTHAN => KTo | _ => KFrom end.

(* value and the operand lists of the three chains, computed together *)
Record sem := mkSem { sv : item; sa : list item; so : list item; sj : list item }.
Definition leaf (v : item) : sem := mkSem v [v] [v] [v].

Fixpoint semof (p : ptree) : sem :=
  match p with
  | PAtom t => leaf (atom_item t)
  | PApprox t a => leaf (approx_item t a)
  | PBoost p b => leaf (boost_item (sv (semof p)) b)
  | PNot _ p => leaf (Unary KNot meta0 (sv (semof p)))
  | PField name _ p => leaf (SearchField meta0 (tk_lexeme name) (fieldgroup (sv (semof p))))
  | PGroup _ q _ => leaf (Grp KGroup meta0 (sv (semof q)))
  | PAnd a _ b => let ops := sa (semof a) ++ [sv (semof b)] in
                  let v := nary KAnd ops in mkSem v ops [v] [v]
  | POr a _ b => let ops := so (semof a) ++ [sv (semof b)] in
                 let v := nary KOr ops in mkSem v [v] ops [v]
  | PJuxt a b => let ops := sj (semof a) ++ [sv (semof b)] in
                 let v := nary KUnknown ops in mkSem v [v] [v] ops
  | PSign sg p => leaf (Unary (sign_kind sg) meta0 (sv (semof p)))
  | PTo t => leaf (word (tk_lexeme t))
  | POpen o v => leaf (ORange (open_kind o) meta0 (atom_item v) (mem_N c_eq (tk_lexeme o)))
  end.
Definition val (p : ptree) : item := sv (semof p).
Definition ops_and (p : ptree) : list item := sa (semof p).
Definition ops_or (p : ptree) : list item := so (semof p).
Definition ops_j (p : ptree) : list item := sj (semof p).

Lemma val_and p : nary KAnd (ops_and p) = val p.
Proof. destruct p; reflexivity. Qed.
Lemma val_or p : nary KOr (ops_or p) = val p.
Proof. destruct p; reflexivity. Qed.
Lemma val_j p : nary KUnknown (ops_j p) = val p.
Proof. destruct p; reflexivity. Qed.

Lemma ops_and_ne p : ops_and p <> [].
Proof. destruct p; try discriminate; apply snoc_nonempty. Qed.
Lemma ops_or_ne p : ops_or p <> [].
Proof. destruct p; try discriminate; apply snoc_nonempty. Qed.
Lemma ops_j_ne p : ops_j p <> [].
Proof. destruct p; try discriminate; apply snoc_nonempty. Qed.

Lemma nary_snoc k l x : l <> [] -> nary k (l ++ [x]) = Op k meta0 (l ++ [x]).
Proof. destruct l as [|a [|b r]]; [congruence|reflexivity|reflexivity]. Qed.

(* the head of the value by level *)
Lemma val_kind p :
  match lvl p with
  | 2 => exists l, val p = Op KAnd meta0 l
  | 1 => exists l, val p = Op KOr meta0 l
  | 0 => exists l, val p = Op KUnknown meta0 l
  | _ => wfb p = true -> forall k, same_op k (val p) = false
  end.
Proof.
  destruct p; simpl lvl; cbv iota.
  - intros _ k. apply same_op_atom.
  - intros _ k. unfold val. simpl. unfold approx_item.
    repeat match goal with |- context [match ?x with _ => _ end] => destruct x end; reflexivity.
  - intros _ k. unfold val. simpl. unfold boost_item.
    repeat match goal with |- context [match ?x with _ => _ end] => destruct x end; reflexivity.
  - intros _ k. reflexivity.
  - intros _ k. reflexivity.
  - intros _ k. reflexivity.
  - eexists. unfold val. simpl. apply nary_snoc. apply ops_and_ne.
  - eexists. unfold val. simpl. apply nary_snoc. apply ops_or_ne.
  - eexists. unfold val. simpl. apply nary_snoc. apply ops_j_ne.
  - intros _ k. reflexivity.
  - intros _ k. reflexivity.
  - intros _ k. reflexivity.
Qed.

Lemma val_notop p k : wfb p = true -> 3 <= lvl p -> same_op k (val p) = false.
Proof.
  intros W H. pose proof (val_kind p) as K. destruct (lvl p) as [|[|[|n]]]; try lia. apply K. exact W.
Qed.
Lemma val_not_or p : wfb p = true -> 2 <= lvl p -> same_op KOr (val p) = false.
Proof.
  intros W H. pose proof (val_kind p) as K. destruct (lvl p) as [|[|[|n]]]; try lia.
  - destruct K as [l ->]. reflexivity.
  - apply K. exact W.
Qed.
Lemma val_not_j p : wfb p = true -> 1 <= lvl p -> same_op KUnknown (val p) = false.
Proof.
  intros W H. pose proof (val_kind p) as K. destruct (lvl p) as [|[|[|n]]]; try lia.
  - destruct K as [l ->]. reflexivity.
  - destruct K as [l ->]. reflexivity.
  - apply K. exact W.
Qed.
Lemma val_not_and_low p : lvl p <= 1 -> same_op KAnd (val p) = false.
Proof.
  intros H. pose proof (val_kind p) as K. destruct (lvl p) as [|[|n]]; try lia; destruct K as [l ->]; reflexivity.
Qed.
Lemma val_not_or_low p : lvl p = 0 -> same_op KOr (val p) = false.
Proof.
  intros H. pose proof (val_kind p) as K. rewrite H in K. destruct K as [l ->]. reflexivity.
Qed.

Lemma single_and p : (forall a o b, p <> PAnd a o b) -> ops_and p = [val p].
Proof. destruct p; intros H; try reflexivity. exfalso. eapply H. reflexivity. Qed.
Lemma single_or p : (forall a o b, p <> POr a o b) -> ops_or p = [val p].
Proof. destruct p; intros H; try reflexivity. exfalso. eapply H. reflexivity. Qed.
Lemma single_j p : (forall a b, p <> PJuxt a b) -> ops_j p = [val p].
Proof. destruct p; intros H; try reflexivity. exfalso. eapply H. reflexivity. Qed.

Lemma ops_and_ok p : wfb p = true -> Forall (fun x => same_op KAnd x = false) (ops_and p).
Proof.
  induction p; intros W;
    try (rewrite single_and by (intros; discriminate); constructor; [|constructor];
         first [apply (val_notop _ KAnd W); simpl; lia | apply val_not_and_low; simpl; lia]).
  wf_split W. unfold ops_and. simpl. apply Forall_snoc; [apply IHp1; assumption|].
  apply val_notop; assumption.
Qed.
Lemma ops_or_ok p : wfb p = true -> Forall (fun x => same_op KOr x = false) (ops_or p).
Proof.
  induction p; intros W;
    try (rewrite single_or by (intros; discriminate); constructor; [|constructor];
         first [apply (val_not_or _ W); simpl; lia | apply val_not_or_low; reflexivity]).
  wf_split W. unfold ops_or. simpl. apply Forall_snoc; [apply IHp1; assumption|].
  apply val_not_or; assumption.
Qed.
Lemma ops_j_ok p : wfb p = true -> Forall (fun x => same_op KUnknown x = false) (ops_j p).
Proof.
  induction p; intros W;
    try (rewrite single_j by (intros; discriminate); constructor; [|constructor];
         apply (val_not_j _ W); simpl; lia).
  wf_split W. unfold ops_j. simpl. apply Forall_snoc; [apply IHp1; assumption|].
  apply val_not_j; assumption.
Qed.

(* ================================================================ lookahead sets *)
Definition OPSTART : list tok :=
  [T_TERM; T_PHRASE; T_REGEX; T_NOT; T_LPAREN; T_LESSTHAN; T_GREATERTHAN].
Definition L1 : list tok := OPSTART ++ [T_EOF; T_RPAREN].     (* after an orx *)
Definition L2 : list tok := T_OR_OP :: L1.                     (* after an andx *)
Definition L3 : list tok := T_AND_OP :: L2.                    (* after an operand *)
Definition L3B : list tok := T_BOOST :: L3.                    (* after a postfix *)

Lemma l1_l2 r : la_in L1 r -> la_in L2 r. Proof. unfold la_in. simpl. tauto. Qed.
Lemma l2_l3 r : la_in L2 r -> la_in L3 r. Proof. unfold la_in. simpl. tauto. Qed.
Lemma l3_l3b r : la_in L3 r -> la_in L3B r. Proof. unfold la_in. simpl. tauto. Qed.

Definition starts (ts : list token) : Prop := exists t r, ts = t :: r /\ In (tk_type t) OPSTART.

Lemma starts_app ts r : starts ts -> starts (ts ++ r).
Proof. intros [t [r0 [-> H]]]. exists t, (r0 ++ r). split; [reflexivity|exact H]. Qed.

Lemma fl_starts p : wfb p = true -> signed p = false -> starts (fl p).
Proof.
  induction p; intros W Hs; wf_split W; simpl fl; simpl in Hs; try discriminate;
    try (apply starts_app; auto; fail).
  - exists t, []. split; [reflexivity|]. destruct (tk_type t); try discriminate; simpl; auto.
  - exists t, [a]. split; [reflexivity|]. destruct (tk_type t); try discriminate; simpl; auto.
  - exists n, (fl p). split; [reflexivity|]. rewrite W. simpl; tauto.
  - exists name, (col :: fl p). split; [reflexivity|]. rewrite W. simpl; tauto.
  - exists l, (fl p ++ [r]). split; [reflexivity|]. rewrite W. simpl; tauto.
  - exists o, [v]. split; [reflexivity|]. destruct (tk_type o); try discriminate; simpl; tauto.
Qed.

Lemma fl_len p : 1 <= length (fl p).
Proof. induction p; simpl; rewrite ?app_length; simpl; lia. Qed.

Lemma la_starts L ts r : starts ts -> incl OPSTART L -> la_in L (ts ++ r).
Proof. intros [t [r0 [-> H]]] HL. unfold la_in. simpl. apply HL. exact H. Qed.
Lemma la_tok L t r : In (tk_type t) L -> la_in L (t :: r).
Proof. intros H. exact H. Qed.

Lemma opstart_l1 : incl OPSTART L1.
Proof. intros x H. unfold L1. apply in_or_app. left. exact H. Qed.

(* ================================================================ states and table facts *)
Definition gotoU (s : nat) : nat := match gen_goto s N_unary_expression with Some g => g | None => 0 end.
Definition SLP : nat := shift_on 0 T_LPAREN.                   (* ( .                   *)
Definition SJP : nat := gotoE SLP.                             (* ( expression .        *)
Definition SNOT : nat := shift_on 0 T_NOT.                     (* NOT .                 *)
Definition STERM : nat := shift_on 0 T_TERM.                   (* TERM .                *)
Definition SCOL : nat := shift_on STERM T_COLUMN.              (* TERM : .              *)

Definition SPLUS : nat := shift_on 0 T_PLUS.                   (* + .                   *)
Definition SMINUS : nat := shift_on 0 T_MINUS.                 (* - .                   *)
Definition SLT : nat := shift_on 0 T_LESSTHAN.                 (* < .                   *)
Definition SGT : nat := shift_on 0 T_GREATERTHAN.              (* > .                   *)

Definition UC : list nat := [S0; SLP; SJ; SJP; SOR; SAND; SNOT; SCOL; SPLUS; SMINUS].   (* an operand may start *)
Definition XC : list nat := [S0; SLP; SJ; SJP; SOR; SAND].               (* an expression may start *)
Definition XCA : list nat := [S0; SLP; SJ; SJP; SOR].                    (* an andx may start *)
Definition XCO : list nat := [S0; SLP; SJ; SJP].                         (* an orx may start *)
Definition XCJ : list nat := [S0; SLP].                                  (* a query may start *)

Definition U := N_unary_expression.
Definition E := N_expression.

Ltac each_state := let s := fresh "s" in let H := fresh "H" in
  intros s H; simpl in H; decompose [or] H; subst; try contradiction.
Ltac red_fact := eexists; split; reflexivity.

Lemma T_gotoU : forall s, In s UC -> gen_goto s U = Some (gotoU s).
Proof. each_state; reflexivity. Qed.

Lemma T_atom : forall s, In s UC -> forall a, is_atom_tok a = true ->
  exists n, gen_action s a = Shift n /\
  forall la, In la L3B -> exists p act, gen_action n la = Reduce (S p) /\
    nth_error gen_prods p = Some (U, [ST a], act) /\ unit_action act.
Proof.
  each_state; intros a Ha; destruct a; try discriminate Ha; (eexists; split; [reflexivity|]);
    each_la; eexists; eexists; (split; [reflexivity|]); (split; [reflexivity|]); intros v; reflexivity.
Qed.

Lemma T_fuzzy : forall s, In s UC ->
  exists n m, gen_action s T_TERM = Shift n /\ gen_action n T_APPROX = Shift m /\
  forall la, In la L3B -> exists p, gen_action m la = Reduce (S p) /\
    nth_error gen_prods p = Some (U, [ST T_TERM; ST T_APPROX], A_fuzzy).
Proof. each_state; eexists; eexists; (split; [reflexivity|]); (split; [reflexivity|]); each_la; red_fact. Qed.

Lemma T_prox : forall s, In s UC ->
  exists n m, gen_action s T_PHRASE = Shift n /\ gen_action n T_APPROX = Shift m /\
  forall la, In la L3B -> exists p, gen_action m la = Reduce (S p) /\
    nth_error gen_prods p = Some (U, [ST T_PHRASE; ST T_APPROX], A_proximity).
Proof. each_state; eexists; eexists; (split; [reflexivity|]); (split; [reflexivity|]); each_la; red_fact. Qed.

Lemma T_boost : forall s, In s UC ->
  exists nb, gen_action (gotoU s) T_BOOST = Shift nb /\
  forall la, In la L3B -> exists p, gen_action nb la = Reduce (S p) /\
    nth_error gen_prods p = Some (U, [SN U; ST T_BOOST], A_boosting).
Proof. each_state; eexists; (split; [reflexivity|]); each_la; red_fact. Qed.

Lemma T_not : forall s, In s UC ->
  gen_action s T_NOT = Shift SNOT /\
  forall la, In la L3 -> exists p, gen_action (gotoU SNOT) la = Reduce (S p) /\
    nth_error gen_prods p = Some (U, [ST T_NOT; SN U], A_expression_not).
Proof. each_state; (split; [reflexivity|]); each_la; red_fact. Qed.

Lemma T_field : forall s, In s UC ->
  gen_action s T_TERM = Shift STERM /\ gen_action STERM T_COLUMN = Shift SCOL /\
  forall la, In la L3 -> exists p, gen_action (gotoU SCOL) la = Reduce (S p) /\
    nth_error gen_prods p = Some (U, [ST T_TERM; ST T_COLUMN; SN U], A_field_search).
Proof. each_state; (split; [reflexivity|]); (split; [reflexivity|]); each_la; red_fact. Qed.

Lemma T_group : forall s, In s UC ->
  gen_action s T_LPAREN = Shift SLP /\
  exists nr, gen_action (gotoE SLP) T_RPAREN = Shift nr /\
  forall la, In la L3B -> exists p, gen_action nr la = Reduce (S p) /\
    nth_error gen_prods p = Some (U, [ST T_LPAREN; SN E; ST T_RPAREN], A_grouping).
Proof. each_state; (split; [reflexivity|]); eexists; (split; [reflexivity|]); each_la; red_fact. Qed.

Lemma T_sign : forall s, In s UC ->
  gen_action s T_PLUS = Shift SPLUS /\ gen_action s T_MINUS = Shift SMINUS /\
  forall la, In la L3 ->
    (exists p, gen_action (gotoU SPLUS) la = Reduce (S p) /\
       nth_error gen_prods p = Some (U, [ST T_PLUS; SN U], A_expression_plus)) /\
    (exists p, gen_action (gotoU SMINUS) la = Reduce (S p) /\
       nth_error gen_prods p = Some (U, [ST T_MINUS; SN U], A_expression_minus)).
Proof. each_state; (split; [reflexivity|]); (split; [reflexivity|]); each_la; split; red_fact. Qed.

Lemma T_to : forall s, In s UC ->
  exists n, gen_action s T_TO = Shift n /\
  forall la, In la L3B -> exists p, gen_action n la = Reduce (S p) /\
    nth_error gen_prods p = Some (U, [ST T_TO], A_to_as_term).
Proof. each_state; eexists; (split; [reflexivity|]); each_la; red_fact. Qed.

Definition POT := N_phrase_or_term.
Lemma T_open : forall s, In s UC ->
  gen_action s T_LESSTHAN = Shift SLT /\ gen_action s T_GREATERTHAN = Shift SGT /\
  forall a, is_value_tok a = true ->
    (exists n g, gen_action SLT a = Shift n /\ gen_goto SLT POT = Some g /\
       forall la, In la L3B ->
         (exists p, gen_action n la = Reduce (S p) /\
            nth_error gen_prods p = Some (POT, [ST a], A_phrase_or_term)) /\
         (exists p, gen_action g la = Reduce (S p) /\
            nth_error gen_prods p = Some (U, [ST T_LESSTHAN; SN POT], A_lessthan))) /\
    (exists n g, gen_action SGT a = Shift n /\ gen_goto SGT POT = Some g /\
       forall la, In la L3B ->
         (exists p, gen_action n la = Reduce (S p) /\
            nth_error gen_prods p = Some (POT, [ST a], A_phrase_or_term)) /\
         (exists p, gen_action g la = Reduce (S p) /\
            nth_error gen_prods p = Some (U, [ST T_GREATERTHAN; SN POT], A_greaterthan))).
Proof.
  each_state; (split; [reflexivity|]); (split; [reflexivity|]);
    intros a Ha; destruct a; try discriminate Ha;
    (split; eexists; eexists; (split; [reflexivity|]); (split; [reflexivity|]); each_la; split; red_fact).
Qed.

Lemma T_expr : forall s, In s XC ->
  gen_goto s E = Some (gotoE s) /\
  forall la, In la L3 -> exists p, gen_action (gotoU s) la = Reduce (S p) /\
    nth_error gen_prods p = Some (E, [SN U], A_expression_unary).
Proof. each_state; (split; [reflexivity|]); each_la; red_fact. Qed.

Lemma T_and : forall s, In s XCA ->
  gen_action (gotoE s) T_AND_OP = Shift SAND /\
  forall la, In la L3 -> exists p, gen_action (gotoE SAND) la = Reduce (S p) /\
    nth_error gen_prods p = Some (E, [SN E; ST T_AND_OP; SN E], A_expression_and).
Proof. each_state; (split; [reflexivity|]); each_la; red_fact. Qed.

Lemma T_or : forall s, In s XCO ->
  gen_action (gotoE s) T_OR_OP = Shift SOR /\
  forall la, In la L2 -> exists p, gen_action (gotoE SOR) la = Reduce (S p) /\
    nth_error gen_prods p = Some (E, [SN E; ST T_OR_OP; SN E], A_expression_or).
Proof. each_state; (split; [reflexivity|]); each_la; red_fact. Qed.

Lemma T_j : forall s, In s XCJ ->
  In (gotoE s) XCO /\
  forall la, In la L1 -> exists p, gen_action (gotoE (gotoE s)) la = Reduce (S p) /\
    nth_error gen_prods p = Some (E, [SN E; SN E], A_expression_implicit).
Proof.
  each_state; (split; [simpl; auto 6|]); each_la; red_fact.
Qed.

Lemma T_accept : gen_action (gotoE S0) T_EOF = Accept.
Proof. reflexivity. Qed.

Global Opaque SLP SJP SNOT STERM SCOL SPLUS SMINUS SLT SGT gotoU.

Lemma incl_XC_UC : incl XC UC. Proof. intros x H. simpl in *. tauto. Qed.
Lemma incl_XCA_XC : incl XCA XC. Proof. intros x H. simpl in *. tauto. Qed.
Lemma incl_XCO_XCA : incl XCO XCA. Proof. intros x H. simpl in *. tauto. Qed.
Lemma incl_XCJ_XCO : incl XCJ XCO. Proof. intros x H. simpl in *. tauto. Qed.
Lemma in_SAND_XC : In SAND XC. Proof. simpl. tauto. Qed.
Lemma in_SOR_XCA : In SOR XCA. Proof. simpl. tauto. Qed.
Lemma in_SNOT_UC : In SNOT UC. Proof. simpl. tauto. Qed.
Lemma in_SCOL_UC : In SCOL UC. Proof. simpl. tauto. Qed.
Lemma in_SLP_XCJ : In SLP XCJ. Proof. simpl. tauto. Qed.
Lemma in_SPLUS_UC : In SPLUS UC. Proof. simpl. tauto. Qed.
Lemma in_SMINUS_UC : In SMINUS UC. Proof. simpl. tauto. Qed.
Lemma in_S0_XCJ : In S0 XCJ. Proof. simpl. tauto. Qed.

(* ================================================================ the LR driver, level by level *)
Definition LRrun (C : list nat) (tgt : nat -> nat) (L : list tok) (ts : list token) (v : item) : Prop :=
  forall s ss vals rest d, In s C -> la_in L rest ->
  exists i d', reach (mkCfg (s :: ss) vals (ts ++ rest) d) (mkCfg (tgt s :: s :: ss) (VItem i :: vals) rest d') /\
               erase i = v.
Definition LR4 := LRrun UC gotoU L3B.
Definition LR3 := LRrun UC gotoU L3.
Definition LRX := LRrun XC gotoE L3.
Definition LR2 := LRrun XCA gotoE L3.
Definition LR1 := LRrun XCO gotoE L2.
Definition LR0 := LRrun XCJ gotoE L1.

Lemma LRrun_weaken C C' tgt L L' ts v :
  incl C' C -> (forall r, la_in L' r -> la_in L r) -> LRrun C tgt L ts v -> LRrun C' tgt L' ts v.
Proof. intros HC HL H s ss vals rest d Hs Hla. apply H; auto. Qed.

Lemma LR4_3 ts v : LR4 ts v -> LR3 ts v.
Proof. apply LRrun_weaken; [apply incl_refl|exact l3_l3b]. Qed.

(* an operand where an expression may start: one more unit reduction *)
Lemma LR3_X ts v : LR3 ts v -> LRX ts v.
Proof.
  intros H s ss vals rest d Hs Hla.
  destruct (H s ss vals rest d (incl_XC_UC _ Hs) Hla) as [i [d1 [Hrun Hi]]].
  destruct (T_expr s Hs) as [Hg Hred]. destruct (Hred _ Hla) as [p [Hp Hprod]].
  exists i. eexists. split; [|exact Hi].
  eapply reach_trans; [exact Hrun|]. apply reach_step.
  eapply step_reduce1; [exact Hp|exact Hprod|reflexivity|exact Hg].
Qed.
Lemma LRX_2 ts v : LRX ts v -> LR2 ts v.
Proof. apply LRrun_weaken; [exact incl_XCA_XC|auto]. Qed.
Lemma LR2_1 ts v : LR2 ts v -> LR1 ts v.
Proof. apply LRrun_weaken; [exact incl_XCO_XCA|exact l2_l3]. Qed.
Lemma LR1_0 ts v : LR1 ts v -> LR0 ts v.
Proof. apply LRrun_weaken; [exact incl_XCJ_XCO|exact l1_l2]. Qed.

(* ---- postfix level *)
Lemma lr_atom t : is_atom t -> LR4 [t] (atom_item t).
Proof.
  intros Ht s ss vals rest d Hs Hla.
  destruct (T_atom s Hs _ Ht) as [n [Hn Hnr]]. destruct (Hnr _ Hla) as [p [act [Hp [Hprod Hact]]]].
  destruct (atom_value t Ht) as [i [Ei Hi]].
  exists i. eexists. split; [|exact Hi]. rewrite <- Ei.
  eapply reach_trans; [apply reach_step, step_shift; exact Hn|].
  apply reach_step. eapply step_reduce1; [exact Hp|exact Hprod|apply Hact|apply T_gotoU; exact Hs].
Qed.

Lemma approx_value a : tk_type a = T_APPROX ->
  exists m, token_value a = VTok (tk_lexeme a) (degree_of (tk_lexeme a)) m.
Proof. unfold token_value, degree_of. intros ->. eexists. reflexivity. Qed.
Lemma boost_value a : tk_type a = T_BOOST ->
  exists m, token_value a = VTok (tk_lexeme a) (degree_of (tk_lexeme a)) m.
Proof. unfold token_value, degree_of. intros ->. eexists. reflexivity. Qed.

Lemma lr_fuzzy t a : tk_type t = T_TERM -> tk_type a = T_APPROX -> dec_ok a = true ->
  LR4 [t; a] (approx_item t a).
Proof.
  intros Ht Ha Hok s ss vals rest d Hs Hla.
  destruct (T_fuzzy s Hs) as [n [m [Hn [Hm Hred]]]]. destruct (Hred _ Hla) as [p [Hp Hprod]].
  destruct (approx_value a Ha) as [ma Ea].
  assert (Ev : exists i evs, run_action A_fuzzy [token_value t; token_value a] = Ok (VItem i, evs) /\
                             erase i = approx_item t a).
  { unfold approx_item, dec_ok in *. rewrite Ea. unfold token_value at 1. rewrite Ht. simpl.
    destruct (degree_of (tk_lexeme a)) as [ds|].
    - destruct (dec_of_lexeme ds); [|discriminate]. eexists _, _. split; reflexivity.
    - eexists _, _. split; reflexivity. }
  destruct Ev as [i [evs [Hact Hi]]]. exists i. eexists. split; [|exact Hi].
  eapply reach_trans; [apply reach_step, step_shift; rewrite Ht; exact Hn|].
  eapply reach_trans; [apply reach_step, step_shift; rewrite Ha; exact Hm|].
  apply reach_step. eapply step_reduce2; [exact Hp|exact Hprod|exact Hact|apply T_gotoU; exact Hs].
Qed.

Lemma lr_prox t a : tk_type t = T_PHRASE -> tk_type a = T_APPROX -> int_ok a = true ->
  LR4 [t; a] (approx_item t a).
Proof.
  intros Ht Ha Hok s ss vals rest d Hs Hla.
  destruct (T_prox s Hs) as [n [m [Hn [Hm Hred]]]]. destruct (Hred _ Hla) as [p [Hp Hprod]].
  destruct (approx_value a Ha) as [ma Ea].
  assert (Ev : exists i evs, run_action A_proximity [token_value t; token_value a] = Ok (VItem i, evs) /\
                             erase i = approx_item t a).
  { unfold approx_item, int_ok in *. rewrite Ea. unfold token_value at 1. rewrite Ht. simpl.
    destruct (degree_of (tk_lexeme a)) as [ds|].
    - destruct (int_of_lexeme ds); [|discriminate]. eexists _, _. split; reflexivity.
    - eexists _, _. split; reflexivity. }
  destruct Ev as [i [evs [Hact Hi]]]. exists i. eexists. split; [|exact Hi].
  eapply reach_trans; [apply reach_step, step_shift; rewrite Ht; exact Hn|].
  eapply reach_trans; [apply reach_step, step_shift; rewrite Ha; exact Hm|].
  apply reach_step. eapply step_reduce2; [exact Hp|exact Hprod|exact Hact|apply T_gotoU; exact Hs].
Qed.

Lemma lr_boost ts v b : LR4 ts v -> tk_type b = T_BOOST -> dec_ok b = true ->
  LR4 (ts ++ [b]) (boost_item v b).
Proof.
  intros H Hb Hok s ss vals rest d Hs Hla. rewrite <- app_assoc. simpl app.
  destruct (H s ss vals (b :: rest) d Hs) as [x [d1 [Hrun Hx]]]; [apply la_tok; rewrite Hb; simpl; auto|].
  destruct (T_boost s Hs) as [nb [Hnb Hred]]. destruct (Hred _ Hla) as [p [Hp Hprod]].
  destruct (boost_value b Hb) as [mb Eb].
  assert (Ev : exists i evs, run_action A_boosting [VItem x; token_value b] = Ok (VItem i, evs) /\
                             erase i = boost_item v b).
  { unfold boost_item, dec_ok in *. rewrite Eb. simpl.
    destruct (degree_of (tk_lexeme b)) as [ds|].
    - destruct (dec_of_lexeme ds); [|discriminate]. eexists _, _. split; [reflexivity|].
      simpl. rewrite erase_add_tail, Hx. reflexivity.
    - eexists _, _. split; [reflexivity|]. simpl. rewrite erase_add_tail, Hx. reflexivity. }
  destruct Ev as [i [evs [Hact Hi]]]. exists i. eexists. split; [|exact Hi].
  eapply reach_trans; [exact Hrun|].
  eapply reach_trans; [apply reach_step, step_shift; rewrite Hb; exact Hnb|].
  apply reach_step. eapply step_reduce2; [exact Hp|exact Hprod|exact Hact|apply T_gotoU; exact Hs].
Qed.

Lemma plain_value o : tk_type o <> T_TERM -> tk_type o <> T_PHRASE -> tk_type o <> T_REGEX ->
  exists l v m, token_value o = VTok l v m.
Proof.
  unfold token_value. intros H1 H2 H3. destruct (tk_type o); try congruence; eexists _, _, _; reflexivity.
Qed.

Lemma lr_group l ts v r : LR0 ts v -> tk_type l = T_LPAREN -> tk_type r = T_RPAREN ->
  LR4 (l :: ts ++ [r]) (Grp KGroup meta0 v).
Proof.
  intros H Hl Hr s ss vals rest d Hs Hla. simpl app. rewrite <- app_assoc. simpl app.
  destruct (T_group s Hs) as [Hsh [nr [Hnr Hred]]]. destruct (Hred _ Hla) as [p [Hp Hprod]].
  destruct (H SLP (s :: ss) (token_value l :: vals) (r :: rest) d in_SLP_XCJ) as [x [d1 [Hrun Hx]]];
    [apply la_tok; rewrite Hr; simpl; tauto|].
  destruct (plain_value l) as [ll [lv [lm El]]]; try (rewrite Hl; discriminate).
  destruct (plain_value r) as [rl [rv [rm Er]]]; try (rewrite Hr; discriminate).
  eexists. eexists. split.
  - eapply reach_trans; [apply reach_step, step_shift; rewrite Hl; exact Hsh|].
    eapply reach_trans; [exact Hrun|].
    eapply reach_trans; [apply reach_step, step_shift; rewrite Hr; exact Hnr|].
    apply reach_step. eapply step_reduce3; [exact Hp|exact Hprod| |apply T_gotoU; exact Hs].
    rewrite El, Er. reflexivity.
  - simpl. rewrite erase_add_tail, erase_add_head, Hx. reflexivity.
Qed.

(* ---- operand level *)
Lemma lr_not n ts v : LR3 ts v -> tk_type n = T_NOT -> LR3 (n :: ts) (Unary KNot meta0 v).
Proof.
  intros H Hn s ss vals rest d Hs Hla. simpl app.
  destruct (T_not s Hs) as [Hsh Hred]. destruct (Hred _ Hla) as [p [Hp Hprod]].
  destruct (H SNOT (s :: ss) (token_value n :: vals) rest d in_SNOT_UC Hla) as [x [d1 [Hrun Hx]]].
  destruct (plain_value n) as [nl [nv [nm En]]]; try (rewrite Hn; discriminate).
  eexists. eexists. split.
  - eapply reach_trans; [apply reach_step, step_shift; rewrite Hn; exact Hsh|].
    eapply reach_trans; [exact Hrun|].
    apply reach_step. eapply step_reduce2; [exact Hp|exact Hprod| |apply T_gotoU; exact Hs].
    rewrite En. reflexivity.
  - simpl. rewrite erase_add_head, Hx. reflexivity.
Qed.

Lemma erase_fg e : erase (match e with Grp KGroup m x => Grp KFieldGroup (clone_meta_nameless m) x | _ => e end)
                   = fieldgroup (erase e).
Proof. destruct e; try reflexivity. destruct k; reflexivity. Qed.

Lemma lr_field name col ts v : LR3 ts v -> tk_type name = T_TERM -> tk_type col = T_COLUMN ->
  LR3 (name :: col :: ts) (SearchField meta0 (tk_lexeme name) (fieldgroup v)).
Proof.
  intros H Hn Hc s ss vals rest d Hs Hla. simpl app.
  destruct (T_field s Hs) as [Hsh [Hsc Hred]]. destruct (Hred _ Hla) as [p [Hp Hprod]].
  destruct (H SCOL (STERM :: s :: ss) (token_value col :: token_value name :: vals) rest d in_SCOL_UC Hla)
    as [x [d1 [Hrun Hx]]].
  destruct (plain_value col) as [cl [cv [cm Ec]]]; try (rewrite Hc; discriminate).
  eexists. eexists. split.
  - eapply reach_trans; [apply reach_step, step_shift; rewrite Hn; exact Hsh|].
    eapply reach_trans; [apply reach_step, step_shift; rewrite Hc; exact Hsc|].
    eapply reach_trans; [exact Hrun|].
    apply reach_step. eapply step_reduce3; [exact Hp|exact Hprod| |apply T_gotoU; exact Hs].
    rewrite Ec. unfold token_value. rewrite Hn. reflexivity.
  - simpl. rewrite erase_add_head, erase_fg, Hx. reflexivity.
Qed.

Lemma lr_sign sg ts v : LR3 ts v -> is_sign_tok (tk_type sg) = true ->
  LR3 (sg :: ts) (Unary (sign_kind sg) meta0 v).
Proof.
  intros H Hsg s ss vals rest d Hs Hla. simpl app.
  destruct (T_sign s Hs) as [Hp [Hm Hred]]. destruct (Hred _ Hla) as [[p1 [Hp1 Hprod1]] [p2 [Hp2 Hprod2]]].
  destruct (plain_value sg) as [nl [nv [nm En]]];
    try (intros E; rewrite E in Hsg; discriminate).
  unfold sign_kind. destruct (tk_type sg) eqn:Et; try discriminate.
  - destruct (H SMINUS (s :: ss) (token_value sg :: vals) rest d in_SMINUS_UC Hla) as [x [d1 [Hrun Hx]]].
    eexists. eexists. split.
    + eapply reach_trans; [apply reach_step, step_shift; rewrite Et; exact Hm|].
      eapply reach_trans; [exact Hrun|].
      apply reach_step. eapply step_reduce2; [exact Hp2|exact Hprod2| |apply T_gotoU; exact Hs].
      rewrite En. reflexivity.
    + simpl. rewrite erase_add_head, Hx. reflexivity.
  - destruct (H SPLUS (s :: ss) (token_value sg :: vals) rest d in_SPLUS_UC Hla) as [x [d1 [Hrun Hx]]].
    eexists. eexists. split.
    + eapply reach_trans; [apply reach_step, step_shift; rewrite Et; exact Hp|].
      eapply reach_trans; [exact Hrun|].
      apply reach_step. eapply step_reduce2; [exact Hp1|exact Hprod1| |apply T_gotoU; exact Hs].
      rewrite En. reflexivity.
    + simpl. rewrite erase_add_head, Hx. reflexivity.
Qed.

Lemma lr_to t : tk_type t = T_TO -> LR4 [t] (word (tk_lexeme t)).
Proof.
  intros Ht s ss vals rest d Hs Hla.
  destruct (T_to s Hs) as [n [Hn Hred]]. destruct (Hred _ Hla) as [p [Hp Hprod]].
  eexists. eexists. split.
  - eapply reach_trans; [apply reach_step, step_shift; rewrite Ht; exact Hn|].
    apply reach_step. eapply step_reduce1; [exact Hp|exact Hprod| |apply T_gotoU; exact Hs].
    unfold token_value. rewrite Ht. reflexivity.
  - reflexivity.
Qed.

Lemma lr_open o v : is_open_tok (tk_type o) = true -> is_value_tok (tk_type v) = true ->
  LR4 [o; v] (ORange (open_kind o) meta0 (atom_item v) (mem_N c_eq (tk_lexeme o))).
Proof.
  intros Ho Hv s ss vals rest d Hs Hla.
  destruct (T_open s Hs) as [Hlt [Hgt Hrest]]. destruct (Hrest _ Hv) as [[n1 [g1 [Hn1 [Hg1 Hr1]]]] [n2 [g2 [Hn2 [Hg2 Hr2]]]]].
  destruct (Hr1 _ Hla) as [[p1 [Hp1 Hprod1]] [q1 [Hq1 Hqprod1]]].
  destruct (Hr2 _ Hla) as [[p2 [Hp2 Hprod2]] [q2 [Hq2 Hqprod2]]].
  assert (Ev : exists i, token_value v = VItem i /\ erase i = atom_item v).
  { unfold token_value, atom_item. destruct (tk_type v); try discriminate; eexists; split; reflexivity. }
  destruct Ev as [x [Ex Hx]].
  assert (Eo : exists m, token_value o = VTok (tk_lexeme o) (Some (tk_lexeme o)) m).
  { unfold token_value. destruct (tk_type o); try discriminate; eexists; reflexivity. }
  destruct Eo as [mo Eo].
  unfold open_kind. destruct (tk_type o) eqn:Et; try discriminate.
  - eexists. eexists. split.
    + eapply reach_trans; [apply reach_step, step_shift; rewrite Et; exact Hlt|].
      eapply reach_trans; [apply reach_step, step_shift; exact Hn1|].
      eapply reach_trans; [apply reach_step; eapply step_reduce1; [exact Hp1|exact Hprod1|reflexivity|exact Hg1]|].
      apply reach_step. eapply step_reduce2; [exact Hq1|exact Hqprod1| |apply T_gotoU; exact Hs].
      rewrite Eo, Ex. reflexivity.
    + simpl. rewrite erase_add_head, Hx. reflexivity.
  - eexists. eexists. split.
    + eapply reach_trans; [apply reach_step, step_shift; rewrite Et; exact Hgt|].
      eapply reach_trans; [apply reach_step, step_shift; exact Hn2|].
      eapply reach_trans; [apply reach_step; eapply step_reduce1; [exact Hp2|exact Hprod2|reflexivity|exact Hg2]|].
      apply reach_step. eapply step_reduce2; [exact Hq2|exact Hqprod2| |apply T_gotoU; exact Hs].
      rewrite Eo, Ex. reflexivity.
    + simpl. rewrite erase_add_head, Hx. reflexivity.
Qed.

(* ---- the three chains *)
Lemma lr_and ta tb o acc vb :
  LR2 ta (nary KAnd acc) -> LR3 tb vb -> tk_type o = T_AND_OP ->
  acc <> [] -> Forall (fun x => same_op KAnd x = false) acc -> same_op KAnd vb = false ->
  LR2 (ta ++ o :: tb) (nary KAnd (acc ++ [vb])).
Proof.
  intros Ha Hb Ho Hne Hacc Hvb s ss vals rest d Hs Hla. rewrite <- app_assoc. simpl app.
  destruct (Ha s ss vals (o :: tb ++ rest) d Hs) as [a [d1 [Hrun1 Ea]]];
    [apply la_tok; rewrite Ho; simpl; auto|].
  destruct (T_and s Hs) as [Hsh Hred]. destruct (Hred _ Hla) as [p [Hp Hprod]].
  destruct (LR3_X _ _ Hb SAND (gotoE s :: s :: ss) (token_value o :: VItem a :: vals) rest d1 in_SAND_XC Hla)
    as [b [d2 [Hrun2 Eb]]].
  destruct (plain_value o) as [l [v [m Eo]]]; try (rewrite Ho; discriminate).
  destruct (binary_nary KAnd a (Some (VTok l v m)) b acc eq_refl Hne Ea Hacc) as [a' [evs [Hbin Ea']]].
  { eapply same_op_of_erase; [exact Eb|exact Hvb]. }
  exists a'. eexists. split; [|rewrite Ea', Eb; reflexivity].
  eapply reach_trans; [exact Hrun1|].
  eapply reach_trans; [apply reach_step, step_shift; rewrite Ho; exact Hsh|].
  eapply reach_trans; [exact Hrun2|].
  apply reach_step. eapply step_reduce3; [exact Hp|exact Hprod| |apply (T_expr s (incl_XCA_XC _ Hs))].
  rewrite Eo. exact Hbin.
Qed.

Lemma lr_or ta tb o acc vb :
  LR1 ta (nary KOr acc) -> LR2 tb vb -> tk_type o = T_OR_OP ->
  acc <> [] -> Forall (fun x => same_op KOr x = false) acc -> same_op KOr vb = false ->
  LR1 (ta ++ o :: tb) (nary KOr (acc ++ [vb])).
Proof.
  intros Ha Hb Ho Hne Hacc Hvb s ss vals rest d Hs Hla. rewrite <- app_assoc. simpl app.
  destruct (Ha s ss vals (o :: tb ++ rest) d Hs) as [a [d1 [Hrun1 Ea]]];
    [apply la_tok; rewrite Ho; simpl; auto|].
  destruct (T_or s Hs) as [Hsh Hred]. destruct (Hred _ Hla) as [p [Hp Hprod]].
  destruct (Hb SOR (gotoE s :: s :: ss) (token_value o :: VItem a :: vals) rest d1 in_SOR_XCA (l2_l3 _ Hla))
    as [b [d2 [Hrun2 Eb]]].
  destruct (plain_value o) as [l [v [m Eo]]]; try (rewrite Ho; discriminate).
  destruct (binary_nary KOr a (Some (VTok l v m)) b acc eq_refl Hne Ea Hacc) as [a' [evs [Hbin Ea']]].
  { eapply same_op_of_erase; [exact Eb|exact Hvb]. }
  exists a'. eexists. split; [|rewrite Ea', Eb; reflexivity].
  eapply reach_trans; [exact Hrun1|].
  eapply reach_trans; [apply reach_step, step_shift; rewrite Ho; exact Hsh|].
  eapply reach_trans; [exact Hrun2|].
  apply reach_step. eapply step_reduce3; [exact Hp|exact Hprod| |
    apply (T_expr s (incl_XCA_XC _ (incl_XCO_XCA _ Hs)))].
  rewrite Eo. exact Hbin.
Qed.

Lemma lr_j ta tb acc vb :
  LR0 ta (nary KUnknown acc) -> LR1 tb vb -> starts tb ->
  acc <> [] -> Forall (fun x => same_op KUnknown x = false) acc -> same_op KUnknown vb = false ->
  LR0 (ta ++ tb) (nary KUnknown (acc ++ [vb])).
Proof.
  intros Ha Hb Hst Hne Hacc Hvb s ss vals rest d Hs Hla. rewrite <- app_assoc.
  destruct (Ha s ss vals (tb ++ rest) d Hs) as [a [d1 [Hrun1 Ea]]];
    [apply la_starts; [exact Hst|exact opstart_l1]|].
  destruct (T_j s Hs) as [Hin Hred]. destruct (Hred _ Hla) as [p [Hp Hprod]].
  destruct (Hb (gotoE s) (s :: ss) (VItem a :: vals) rest d1 Hin (l1_l2 _ Hla)) as [b [d2 [Hrun2 Eb]]].
  destruct (binary_nary KUnknown a None b acc eq_refl Hne Ea Hacc) as [a' [evs [Hbin Ea']]].
  { eapply same_op_of_erase; [exact Eb|exact Hvb]. }
  exists a'. eexists. split; [|rewrite Ea', Eb; reflexivity].
  eapply reach_trans; [exact Hrun1|].
  eapply reach_trans; [exact Hrun2|].
  apply reach_step. eapply step_reduce2; [exact Hp|exact Hprod|exact Hbin|
    apply (T_expr s (incl_XCA_XC _ (incl_XCO_XCA _ (incl_XCJ_XCO _ Hs))))].
Qed.

(* ---- the induction *)
Definition LR_all (p : ptree) : Prop :=
  (lvl p = 4 -> LR4 (fl p) (val p)) /\ (3 <= lvl p -> LR3 (fl p) (val p)) /\
  (2 <= lvl p -> LR2 (fl p) (val p)) /\ (1 <= lvl p -> LR1 (fl p) (val p)) /\ LR0 (fl p) (val p).

Lemma lr_from4 p : LR4 (fl p) (val p) -> LR_all p.
Proof.
  intros H. pose proof (LR4_3 _ _ H) as H3. pose proof (LRX_2 _ _ (LR3_X _ _ H3)) as H2.
  pose proof (LR2_1 _ _ H2) as H1. pose proof (LR1_0 _ _ H1) as H0. repeat split; auto.
Qed.
Lemma lr_from3 p : lvl p = 3 -> LR3 (fl p) (val p) -> LR_all p.
Proof.
  intros Hl H3. pose proof (LRX_2 _ _ (LR3_X _ _ H3)) as H2.
  pose proof (LR2_1 _ _ H2) as H1. pose proof (LR1_0 _ _ H1) as H0. repeat split; auto. intros; lia.
Qed.
Lemma lr_from2 p : lvl p = 2 -> LR2 (fl p) (val p) -> LR_all p.
Proof.
  intros Hl H2. pose proof (LR2_1 _ _ H2) as H1. pose proof (LR1_0 _ _ H1) as H0.
  repeat split; auto; intros; lia.
Qed.
Lemma lr_from1 p : lvl p = 1 -> LR1 (fl p) (val p) -> LR_all p.
Proof. intros Hl H1. pose proof (LR1_0 _ _ H1) as H0. repeat split; auto; intros; lia. Qed.
Lemma lr_from0 p : lvl p = 0 -> LR0 (fl p) (val p) -> LR_all p.
Proof. intros Hl H0. repeat split; auto; intros; lia. Qed.

Theorem lr_sound p : wfb p = true -> LR_all p.
Proof.
  induction p; intros W; wf_split W.
  - apply lr_from4. apply lr_atom. exact W.
  - apply lr_from4. simpl fl. change (val (PApprox t a)) with (approx_item t a).
    destruct (tk_type t) eqn:Et; try discriminate; [apply lr_fuzzy|apply lr_prox]; assumption.
  - apply lr_from4. destruct (IHp W2) as [H4 _]. apply lr_boost; auto.
  - apply lr_from3; [reflexivity|]. destruct (IHp W0) as [_ [H3 _]]. apply lr_not; auto.
  - apply lr_from3; [reflexivity|]. destruct (IHp W0) as [_ [H3 _]]. apply lr_field; auto.
  - apply lr_from4. destruct (IHp W0) as [_ [_ [_ [_ H0]]]]. apply lr_group; auto.
  - apply lr_from2; [reflexivity|]. destruct (IHp1 W1) as [_ [_ [H2 _]]]. destruct (IHp2 W0) as [_ [H3 _]].
    change (val (PAnd p1 o p2)) with (nary KAnd (ops_and p1 ++ [val p2])).
    apply lr_and; auto; [rewrite val_and; auto|apply ops_and_ne|apply ops_and_ok; assumption|
                         apply val_notop; assumption].
  - apply lr_from1; [reflexivity|]. destruct (IHp1 W1) as [_ [_ [_ [H1 _]]]]. destruct (IHp2 W0) as [_ [_ [H2 _]]].
    change (val (POr p1 o p2)) with (nary KOr (ops_or p1 ++ [val p2])).
    apply lr_or; auto; [rewrite val_or; auto|apply ops_or_ne|apply ops_or_ok; assumption|
                        apply val_not_or; assumption].
  - apply lr_from0; [reflexivity|]. destruct (IHp1 W2) as [_ [_ [_ [_ H0]]]]. destruct (IHp2 W1) as [_ [_ [_ [H1 _]]]].
    change (val (PJuxt p1 p2)) with (nary KUnknown (ops_j p1 ++ [val p2])).
    apply Bool.negb_true_iff in W0.
    apply lr_j; auto; [rewrite val_j; auto|apply fl_starts; assumption|apply ops_j_ne|
                       apply ops_j_ok; assumption|apply val_not_j; assumption].
  - apply lr_from3; [reflexivity|]. destruct (IHp W0) as [_ [H3 _]]. apply lr_sign; auto.
  - apply lr_from4. apply lr_to. exact W.
  - apply lr_from4. apply lr_open; assumption.
Qed.

(* the whole input: accepted, with the dictated tree up to layout *)
Theorem lr_query p ev0 : wfb p = true ->
  exists n t evs, (forall fuel, run gen_tables None (S n + fuel) (init_config (fl p) ev0) = Done (Ok t) evs) /\
                  erase t = val p.
Proof.
  intros W. destruct (lr_sound p W) as [_ [_ [_ [_ H0]]]].
  destruct (H0 S0 [] [] [] ev0 in_S0_XCJ) as [t [d' [[n Hn] Ht]]]; [unfold la_in; simpl; tauto|].
  rewrite app_nil_r in Hn. change (mkCfg [S0] [] (fl p) ev0) with (init_config (fl p) ev0) in Hn.
  destruct (step_accept (gotoE S0) [S0] t [] d' T_accept) as [evs Hst].
  exists n, t, (d' ++ evs). split; [|exact Ht].
  intros fuel. replace (S n + fuel) with (n + S fuel) by lia. rewrite Hn. simpl. rewrite Hst. reflexivity.
Qed.

(* ================================================================ the reference parser, level by level *)
Definition SP4 (ts : list token) (v : item) : Prop :=
  forall f rest, la_in L3B rest -> 4 * length ts <= f ->
  exists g, f <= g + length ts /\
            level (S f) 3 (keys_of (ts ++ rest)) = boosts g v (keys_of rest).
Definition SP3 (ts : list token) (v : item) : Prop :=
  forall f rest, la_in L3 rest -> 4 * length ts <= f ->
  level (S f) 3 (keys_of (ts ++ rest)) = Some (v, keys_of rest).
Definition SP2 (ts : list token) (ops : list item) : Prop :=
  forall f rest, la_in L3 rest -> 4 * length ts <= f ->
  exists g, f <= g + length ts /\
            level (S (S f)) 2 (keys_of (ts ++ rest)) = more_and (level (S f)) g ops (keys_of rest).
Definition SP1 (ts : list token) (ops : list item) : Prop :=
  forall f rest, la_in L2 rest -> 4 * length ts <= f ->
  exists g, f <= g + length ts /\
            level (S (S (S f))) 1 (keys_of (ts ++ rest)) = more_or (level (S (S f))) g ops (keys_of rest).
Definition SP0 (ts : list token) (ops : list item) : Prop :=
  forall f rest, la_in L1 rest -> 4 * length ts <= f ->
  exists g, f <= g + length ts /\
            level (S (S (S (S f)))) 0 (keys_of (ts ++ rest)) =
            more_j (level (S (S (S f)))) g ops (keys_of rest).

Lemma keys_app a b : keys_of (a ++ b) = keys_of a ++ keys_of b.
Proof. apply map_app. Qed.

Lemma boosts_stop g e ks : next_is T_BOOST ks = false -> boosts (S g) e ks = Some (e, ks).
Proof. destruct ks as [|[[] ?] ?]; simpl; intros H; try reflexivity; discriminate. Qed.
Lemma boosts_go g e lx ks : boosts (S g) e ((T_BOOST, lx) :: ks) =
  match degree_of lx with
  | None => boosts g (Boost meta0 e dec_one true) ks
  | Some d => match dec_of_lexeme d with
              | Some x => boosts g (Boost meta0 e (dec_normalize x) false) ks
              | None => None
              end
  end.
Proof. reflexivity. Qed.
Lemma more_j_stop' lev g acc ks : starts_unary ks = false ->
  more_j lev (S g) acc ks = Some (nary KUnknown acc, ks).
Proof. intros H. simpl. rewrite H. reflexivity. Qed.

Lemma not_in_l3 t : t = T_BOOST \/ t = T_APPROX \/ t = T_COLUMN -> ~ In t L3.
Proof. intros [->|[->| ->]] H; simpl in H; intuition discriminate. Qed.

(* ---- ends of chains *)
Lemma sp2_stop ts ops f rest : SP2 ts ops -> 1 <= length ts -> la_in L2 rest -> 4 * length ts <= f ->
  level (S (S f)) 2 (keys_of (ts ++ rest)) = Some (nary KAnd ops, keys_of rest).
Proof.
  intros H Hn Hla Hf. destruct (H f rest (l2_l3 _ Hla) Hf) as [g [Hg E]]. rewrite E.
  destruct g as [|g]; [lia|]. apply more_and_stop. apply (next_is_la _ _ _ Hla). simpl. intuition discriminate.
Qed.
Lemma sp1_stop ts ops f rest : SP1 ts ops -> 1 <= length ts -> la_in L1 rest -> 4 * length ts <= f ->
  level (S (S (S f))) 1 (keys_of (ts ++ rest)) = Some (nary KOr ops, keys_of rest).
Proof.
  intros H Hn Hla Hf. destruct (H f rest (l1_l2 _ Hla) Hf) as [g [Hg E]]. rewrite E.
  destruct g as [|g]; [lia|]. apply more_or_stop. apply (next_is_la _ _ _ Hla). simpl. intuition discriminate.
Qed.
Lemma starts_unary_end rest : la_in [T_EOF; T_RPAREN] rest -> starts_unary (keys_of rest) = false.
Proof.
  unfold la_in. destruct rest as [|t r]; [reflexivity|]. simpl. intros [H|[H|[]]]; rewrite <- H; reflexivity.
Qed.
Lemma sp0_stop ts ops f rest : SP0 ts ops -> 1 <= length ts -> la_in [T_EOF; T_RPAREN] rest ->
  4 * length ts <= f ->
  level (S (S (S (S f)))) 0 (keys_of (ts ++ rest)) = Some (nary KUnknown ops, keys_of rest).
Proof.
  intros H Hn Hla Hf.
  destruct (H f rest) as [g [Hg E]]; [unfold la_in in *; simpl in *; tauto|exact Hf|]. rewrite E.
  destruct g as [|g]; [lia|]. apply more_j_stop'. apply starts_unary_end. exact Hla.
Qed.

(* ---- lifting *)
Lemma sp4_3 ts v : SP4 ts v -> 1 <= length ts -> SP3 ts v.
Proof.
  intros H Hn f rest Hla Hf. destruct (H f rest (l3_l3b _ Hla) Hf) as [g [Hg E]]. rewrite E.
  destruct g as [|g]; [lia|]. apply boosts_stop. apply (next_is_la _ _ _ Hla). apply not_in_l3. auto.
Qed.
Lemma sp3_2 ts v : SP3 ts v -> SP2 ts [v].
Proof.
  intros H f rest Hla Hf. exists (S f). split; [lia|]. rewrite level_2, (H f rest Hla Hf). reflexivity.
Qed.
Lemma sp2_1 ts ops : SP2 ts ops -> 1 <= length ts -> SP1 ts [nary KAnd ops].
Proof.
  intros H Hn f rest Hla Hf. exists (S (S f)). split; [lia|].
  rewrite level_1, (sp2_stop _ _ _ _ H Hn Hla Hf). reflexivity.
Qed.
Lemma sp1_0 ts ops : SP1 ts ops -> 1 <= length ts -> SP0 ts [nary KOr ops].
Proof.
  intros H Hn f rest Hla Hf. exists (S (S (S f))). split; [lia|].
  rewrite level_0, (sp1_stop _ _ _ _ H Hn Hla Hf). reflexivity.
Qed.

(* ---- postfix level *)
Lemma sp_atom t : is_atom t -> SP4 [t] (atom_item t).
Proof.
  unfold is_atom, atom_item. intros Ht f rest Hla Hf. exists f. split; [lia|].
  destruct t as [ty lx po hd tl]. simpl in *.
  destruct rest as [|[ty2 lx2 po2 hd2 tl2] r].
  - destruct ty; try discriminate; reflexivity.
  - la_cases Hla; simpl in Hla; subst ty2; destruct ty; try discriminate; reflexivity.
Qed.

Lemma sp_fuzzy t a : tk_type t = T_TERM -> tk_type a = T_APPROX -> dec_ok a = true ->
  SP4 [t; a] (approx_item t a).
Proof.
  intros Ht Ha Hok f rest Hla Hf. exists f. split; [lia|].
  unfold approx_item, dec_ok in *. simpl app. unfold keys_of. simpl map. unfold tok_key at 1 2.
  rewrite Ht, Ha. simpl.
  destruct (degree_of (tk_lexeme a)) as [ds|]; [|reflexivity].
  destruct (dec_of_lexeme ds); [reflexivity|discriminate].
Qed.
Lemma sp_prox t a : tk_type t = T_PHRASE -> tk_type a = T_APPROX -> int_ok a = true ->
  SP4 [t; a] (approx_item t a).
Proof.
  intros Ht Ha Hok f rest Hla Hf. exists f. split; [lia|].
  unfold approx_item, int_ok in *. simpl app. unfold keys_of. simpl map. unfold tok_key at 1 2.
  rewrite Ht, Ha. simpl.
  destruct (degree_of (tk_lexeme a)) as [ds|]; [|reflexivity].
  destruct (int_of_lexeme ds); [reflexivity|discriminate].
Qed.

Lemma sp_boost ts v b : SP4 ts v -> tk_type b = T_BOOST -> dec_ok b = true -> SP4 (ts ++ [b]) (boost_item v b).
Proof.
  intros H Hb Hok f rest Hla Hf. rewrite app_length in Hf. simpl in Hf.
  rewrite <- app_assoc. simpl app.
  destruct (H f (b :: rest)) as [g [Hg E]]; [apply la_tok; rewrite Hb; simpl; auto|lia|].
  destruct g as [|g]; [lia|]. exists g. split; [rewrite app_length; simpl; lia|].
  rewrite E. change (keys_of (b :: rest)) with (tok_key b :: keys_of rest). unfold tok_key at 1.
  rewrite Hb, boosts_go. unfold boost_item, dec_ok in *.
  destruct (degree_of (tk_lexeme b)) as [ds|]; [|reflexivity].
  destruct (dec_of_lexeme ds); [reflexivity|discriminate].
Qed.

Lemma sp_group l ts ops r : SP0 ts ops -> 1 <= length ts -> tk_type l = T_LPAREN -> tk_type r = T_RPAREN ->
  SP4 (l :: ts ++ [r]) (Grp KGroup meta0 (nary KUnknown ops)).
Proof.
  intros H Hn Hl Hr f rest Hla Hf. simpl length in Hf. rewrite app_length in Hf. simpl in Hf.
  exists f. split; [lia|].
  simpl app. rewrite <- app_assoc. simpl app.
  change (keys_of (l :: ts ++ r :: rest)) with (tok_key l :: keys_of (ts ++ r :: rest)).
  unfold tok_key at 1. rewrite Hl.
  do 4 (destruct f as [|f]; [lia|]).
  assert (E : level (S (S (S (S f)))) 0 (keys_of (ts ++ r :: rest)) =
              Some (nary KUnknown ops, keys_of (r :: rest))).
  { apply sp0_stop; auto; [apply la_tok; rewrite Hr; simpl; auto|lia]. }
  change (level (S (S (S (S (S f))))) 3 ((T_LPAREN, tk_lexeme l) :: keys_of (ts ++ r :: rest)))
    with (match level (S (S (S (S f)))) 0 (keys_of (ts ++ r :: rest)) with
          | Some (e, (T_RPAREN, _) :: r0) => boosts (S (S (S (S f)))) (Grp KGroup meta0 e) r0
          | _ => None
          end).
  rewrite E. change (keys_of (r :: rest)) with (tok_key r :: keys_of rest). unfold tok_key at 1. rewrite Hr.
  reflexivity.
Qed.

(* ---- operand level *)
Lemma sp_not n ts v : SP3 ts v -> tk_type n = T_NOT -> SP3 (n :: ts) (Unary KNot meta0 v).
Proof.
  intros H Hn f rest Hla Hf. simpl length in Hf. destruct f as [|f]; [lia|].
  simpl app. change (keys_of (n :: ts ++ rest)) with (tok_key n :: keys_of (ts ++ rest)).
  unfold tok_key at 1. rewrite Hn.
  change (level (S (S f)) 3 ((T_NOT, tk_lexeme n) :: keys_of (ts ++ rest)))
    with (match level (S f) 3 (keys_of (ts ++ rest)) with
          | Some (x, r) => Some (Unary KNot meta0 x, r) | None => None end).
  rewrite (H f rest Hla) by lia. reflexivity.
Qed.

Lemma sp_field name col ts v : SP3 ts v -> tk_type name = T_TERM -> tk_type col = T_COLUMN ->
  SP3 (name :: col :: ts) (SearchField meta0 (tk_lexeme name) (fieldgroup v)).
Proof.
  intros H Hn Hc f rest Hla Hf. simpl length in Hf. destruct f as [|f]; [lia|].
  simpl app. change (keys_of (name :: col :: ts ++ rest))
    with (tok_key name :: tok_key col :: keys_of (ts ++ rest)).
  unfold tok_key at 1 2. rewrite Hn, Hc.
  change (level (S (S f)) 3 ((T_TERM, tk_lexeme name) :: (T_COLUMN, tk_lexeme col) :: keys_of (ts ++ rest)))
    with (match level (S f) 3 (keys_of (ts ++ rest)) with
          | Some (x, r) => Some (SearchField meta0 (tk_lexeme name) (fieldgroup x), r) | None => None end).
  rewrite (H f rest Hla) by lia. reflexivity.
Qed.

Lemma sp_sign sg ts v : SP3 ts v -> is_sign_tok (tk_type sg) = true ->
  SP3 (sg :: ts) (Unary (sign_kind sg) meta0 v).
Proof.
  intros H Hsg f rest Hla Hf. simpl length in Hf. destruct f as [|f]; [lia|].
  simpl app. change (keys_of (sg :: ts ++ rest)) with (tok_key sg :: keys_of (ts ++ rest)).
  unfold tok_key at 1. unfold sign_kind. destruct (tk_type sg) eqn:Et; try discriminate.
  - change (level (S (S f)) 3 ((T_MINUS, tk_lexeme sg) :: keys_of (ts ++ rest)))
      with (match level (S f) 3 (keys_of (ts ++ rest)) with
            | Some (x, r) => Some (Unary KProhibit meta0 x, r) | None => None end).
    rewrite (H f rest Hla) by lia. reflexivity.
  - change (level (S (S f)) 3 ((T_PLUS, tk_lexeme sg) :: keys_of (ts ++ rest)))
      with (match level (S f) 3 (keys_of (ts ++ rest)) with
            | Some (x, r) => Some (Unary KPlus meta0 x, r) | None => None end).
    rewrite (H f rest Hla) by lia. reflexivity.
Qed.

Lemma sp_to t : tk_type t = T_TO -> SP4 [t] (word (tk_lexeme t)).
Proof.
  intros Ht f rest Hla Hf. exists f. split; [lia|].
  simpl app. change (keys_of (t :: rest)) with (tok_key t :: keys_of rest). unfold tok_key at 1. rewrite Ht.
  reflexivity.
Qed.

Lemma sp_open o v : is_open_tok (tk_type o) = true -> is_value_tok (tk_type v) = true ->
  SP4 [o; v] (ORange (open_kind o) meta0 (atom_item v) (mem_N c_eq (tk_lexeme o))).
Proof.
  intros Ho Hv f rest Hla Hf. exists f. split; [lia|].
  simpl app. change (keys_of (o :: v :: rest)) with (tok_key o :: tok_key v :: keys_of rest).
  unfold tok_key at 1 2. unfold open_kind, atom_item.
  destruct (tk_type o); try discriminate; destruct (tk_type v); try discriminate; reflexivity.
Qed.

(* ---- the three chains *)
Lemma sp_and ta tb o acc vb : SP2 ta acc -> SP3 tb vb -> tk_type o = T_AND_OP -> SP2 (ta ++ o :: tb) (acc ++ [vb]).
Proof.
  intros Ha Hb Ho f rest Hla Hf. rewrite app_length in Hf. simpl length in Hf.
  rewrite <- app_assoc. simpl app.
  destruct (Ha f (o :: tb ++ rest)) as [g [Hg E]]; [apply la_tok; rewrite Ho; simpl; auto|lia|].
  destruct g as [|g]; [lia|]. exists g. split; [rewrite app_length; simpl; lia|].
  rewrite E. change (keys_of (o :: tb ++ rest)) with (tok_key o :: keys_of (tb ++ rest)).
  unfold tok_key at 1. rewrite Ho, more_and_go, (Hb f rest Hla) by lia. reflexivity.
Qed.

Lemma sp_or ta tb o acc opsb : SP1 ta acc -> SP2 tb opsb -> 1 <= length tb -> tk_type o = T_OR_OP ->
  SP1 (ta ++ o :: tb) (acc ++ [nary KAnd opsb]).
Proof.
  intros Ha Hb Hnb Ho f rest Hla Hf. rewrite app_length in Hf. simpl length in Hf.
  rewrite <- app_assoc. simpl app.
  destruct (Ha f (o :: tb ++ rest)) as [g [Hg E]]; [apply la_tok; rewrite Ho; simpl; auto|lia|].
  destruct g as [|g]; [lia|]. exists g. split; [rewrite app_length; simpl; lia|].
  rewrite E. change (keys_of (o :: tb ++ rest)) with (tok_key o :: keys_of (tb ++ rest)).
  unfold tok_key at 1. rewrite Ho, more_or_go, (sp2_stop _ _ _ _ Hb Hnb Hla) by lia. reflexivity.
Qed.

Lemma starts_unary_starts ts rest : starts ts -> starts_unary (keys_of (ts ++ rest)) = true.
Proof.
  intros [t [r [-> H]]]. simpl. simpl in H. decompose [or] H; try contradiction;
    match goal with E : _ = tk_type t |- _ => rewrite <- E end; reflexivity.
Qed.

Lemma sp_j ta tb acc opsb : SP0 ta acc -> SP1 tb opsb -> starts tb ->
  SP0 (ta ++ tb) (acc ++ [nary KOr opsb]).
Proof.
  intros Ha Hb Hst f rest Hla Hf. rewrite app_length in Hf.
  assert (Hnb : 1 <= length tb) by (destruct Hst as [t [r [-> _]]]; simpl; lia).
  rewrite <- app_assoc.
  destruct (Ha f (tb ++ rest)) as [g [Hg E]]; [apply la_starts; [exact Hst|exact opstart_l1]|lia|].
  destruct g as [|g]; [lia|]. exists g. split; [rewrite app_length; lia|].
  rewrite E, more_j_go by (apply starts_unary_starts; exact Hst).
  rewrite (sp1_stop _ _ _ _ Hb Hnb Hla) by lia. reflexivity.
Qed.

(* ---- the induction *)
Definition SP_all (p : ptree) : Prop :=
  (lvl p = 4 -> SP4 (fl p) (val p)) /\ (3 <= lvl p -> SP3 (fl p) (val p)) /\
  (2 <= lvl p -> SP2 (fl p) (ops_and p)) /\ (1 <= lvl p -> SP1 (fl p) (ops_or p)) /\ SP0 (fl p) (ops_j p).

Lemma sp_from3 p : wfb p = true -> 3 <= lvl p -> SP3 (fl p) (val p) ->
  SP2 (fl p) (ops_and p) /\ SP1 (fl p) (ops_or p) /\ SP0 (fl p) (ops_j p).
Proof.
  intros W Hl H3. pose proof (fl_len p) as Hn.
  assert (Ea : ops_and p = [val p]) by (destruct p; simpl in Hl; try lia; reflexivity).
  assert (Eo : ops_or p = [val p]) by (destruct p; simpl in Hl; try lia; reflexivity).
  assert (Ej : ops_j p = [val p]) by (destruct p; simpl in Hl; try lia; reflexivity).
  pose proof (sp3_2 _ _ H3) as H2. pose proof (sp2_1 _ _ H2 Hn) as H1. pose proof (sp1_0 _ _ H1 Hn) as H0.
  rewrite Ea, Eo, Ej. simpl nary in *. auto.
Qed.

Lemma sp_from4 p : wfb p = true -> lvl p = 4 -> SP4 (fl p) (val p) -> SP_all p.
Proof.
  intros W Hl H4. pose proof (sp4_3 _ _ H4 (fl_len p)) as H3.
  destruct (sp_from3 p W ltac:(lia) H3) as [H2 [H1 H0]]. repeat split; auto.
Qed.
Lemma sp_from3' p : wfb p = true -> lvl p = 3 -> SP3 (fl p) (val p) -> SP_all p.
Proof.
  intros W Hl H3. destruct (sp_from3 p W ltac:(lia) H3) as [H2 [H1 H0]]. repeat split; auto. intros; lia.
Qed.

Theorem sp_sound p : wfb p = true -> SP_all p.
Proof.
  induction p; intros W; pose proof W as W'; wf_split W.
  - apply sp_from4; auto. apply sp_atom. exact W.
  - apply sp_from4; auto. simpl fl. change (val (PApprox t a)) with (approx_item t a).
    destruct (tk_type t) eqn:Et; try discriminate; [apply sp_fuzzy|apply sp_prox]; assumption.
  - apply sp_from4; auto. destruct (IHp W2) as [H4 _]. apply sp_boost; auto.
  - apply sp_from3'; auto. destruct (IHp W0) as [_ [H3 _]]. apply sp_not; auto.
  - apply sp_from3'; auto. destruct (IHp W0) as [_ [H3 _]]. apply sp_field; auto.
  - apply sp_from4; auto. destruct (IHp W0) as [_ [_ [_ [_ H0]]]].
    change (val (PGroup l p r)) with (Grp KGroup meta0 (val p)). rewrite <- val_j.
    apply sp_group; auto. apply fl_len.
  - destruct (IHp1 W1) as [_ [_ [H2a _]]]. destruct (IHp2 W0) as [_ [H3b _]].
    assert (H2 : SP2 (fl (PAnd p1 o p2)) (ops_and (PAnd p1 o p2))) by (apply sp_and; auto).
    pose proof (fl_len (PAnd p1 o p2)) as Hn.
    pose proof (sp2_1 _ _ H2 Hn) as H1. pose proof (sp1_0 _ _ H1 Hn) as H0.
    repeat split; auto; simpl; intros; lia.
  - destruct (IHp1 W1) as [_ [_ [_ [H1a _]]]]. destruct (IHp2 W0) as [_ [_ [H2b _]]].
    assert (H1 : SP1 (fl (POr p1 o p2)) (ops_or (POr p1 o p2))).
    { change (ops_or (POr p1 o p2)) with (ops_or p1 ++ [val p2]). rewrite <- val_and.
      apply sp_or; auto. apply fl_len. }
    pose proof (fl_len (POr p1 o p2)) as Hn. pose proof (sp1_0 _ _ H1 Hn) as H0.
    repeat split; auto; simpl; intros; lia.
  - destruct (IHp1 W2) as [_ [_ [_ [_ H0a]]]]. destruct (IHp2 W1) as [_ [_ [_ [H1b _]]]].
    assert (H0 : SP0 (fl (PJuxt p1 p2)) (ops_j (PJuxt p1 p2))).
    { change (ops_j (PJuxt p1 p2)) with (ops_j p1 ++ [val p2]). rewrite <- val_or.
      apply Bool.negb_true_iff in W0. apply sp_j; auto. apply fl_starts; assumption. }
    repeat split; auto; simpl; intros; lia.
  - apply sp_from3'; auto. destruct (IHp W0) as [_ [H3 _]]. apply sp_sign; auto.
  - apply sp_from4; auto. apply sp_to. exact W.
  - apply sp_from4; auto. apply sp_open; assumption.
Qed.

Theorem sp_query p : wfb p = true -> spec_parse (keys_of (fl p)) = Some (val p).
Proof.
  intros W. destruct (sp_sound p W) as [_ [_ [_ [_ H0]]]]. pose proof (fl_len p) as Hn.
  assert (El : length (keys_of (fl p)) = length (fl p)) by apply map_length.
  unfold spec_parse. rewrite El.
  replace (4 * length (fl p) + 8) with (S (S (S (S (4 * length (fl p) + 4))))) by lia.
  pose proof (sp0_stop _ _ (4 * length (fl p) + 4) [] H0 Hn) as E. rewrite app_nil_r in E.
  rewrite E; [rewrite val_j; reflexivity|unfold la_in; simpl; auto|lia].
Qed.

(* ================================================================ the theorem on token lists *)
Theorem general_core p ev0 : wfb p = true ->
  exists t evs, run gen_tables None (parse_fuel (fl p)) (init_config (fl p) ev0) = Done (Ok t) evs /\
                spec_parse (map tok_key (fl p)) = Some (erase t).
Proof.
  intros W. destruct (lr_query p ev0 W) as [n [t [evs [Hrun Ht]]]].
  exists t, evs. split; [|rewrite Ht; apply sp_query; exact W].
  pose proof (run_terminates None (parse_fuel (fl p)) (init_config (fl p) ev0)) as Hterm.
  destruct (run gen_tables None (parse_fuel (fl p)) (init_config (fl p) ev0)) as [r e|] eqn:Hr.
  - pose proof (run_mono _ _ _ _ _ _ Hr (S n + parse_fuel (fl p)) ltac:(lia)) as H1.
    rewrite Hrun in H1. symmetry. exact H1.
  - exfalso. apply Hterm; [reflexivity| |reflexivity].
    unfold phi, parse_fuel, init_config, rank_of, K. simpl. lia.
Qed.

(* any token list with the same (type, lexeme) sequence as the yield of a tree, whatever its layout *)
Theorem general_core_keys toks ev0 p : wfb p = true -> map tok_key toks = map tok_key (fl p) ->
  exists t evs, run gen_tables None (parse_fuel toks) (init_config toks ev0) = Done (Ok t) evs /\
                spec_parse (map tok_key toks) = Some (erase t).
Proof.
  intros W Hk. destruct (general_core p ev0 W) as [t0 [evs0 [Hr0 Hs0]]].
  assert (Hf : parse_fuel toks = parse_fuel (fl p)).
  { unfold parse_fuel. rewrite <- (map_length tok_key toks), Hk, map_length. reflexivity. }
  assert (Hsim : outcome_sim (run gen_tables None (parse_fuel toks) (init_config toks ev0))
                             (run gen_tables None (parse_fuel toks) (init_config (fl p) ev0))).
  { apply run_simulation; [tauto|]. unfold cfg_sim, init_config. simpl.
    split; [reflexivity|]. split; [constructor|exact Hk]. }
  rewrite Hf in Hsim at 2. rewrite Hr0 in Hsim.
  destruct (run gen_tables None (parse_fuel toks) (init_config toks ev0)) as [r e|]; [|contradiction].
  simpl in Hsim. destruct r as [t|[m|m|k]]; simpl in Hsim; try discriminate.
  exists t, e. split; [reflexivity|]. rewrite Hk, Hs0. inversion Hsim as [E]. rewrite E. reflexivity.
Qed.
