(* SpanTokenProofs.v — C02, the TOKEN-LEVEL slice clause: for every node of a parsed tree the slice of the input
   designated by pos / size (and the one widened by head / tail) is, lexically, the node's own text.

   1. LEXER LOCALITY (lex_segment): a contiguous run `seg` of the tokens of s, re-read in isolation between two
      arbitrary blanks H and T (the text H ++ group_text seg ++ T), lexes to the same tokens: same types, lexemes
      and inner separators, head H, last tail T.  Built on RespaceProofs (lex_one_respace: what lex_one returns
      depends on the text after the token only through its non-blank prefix, and on the text before it only
      through a look-behind window that a token START never exposes).  The TIME_RE look-behind (?<=T\d{2})
      therefore cannot break locality at a token boundary: the character before a TERM that starts with a digit is
      never `T` nor `T` + digit, because a TERM is maximal and every other token ends in a character that is
      neither (adjacent_term_safe / nonterm_end_safe).  It DOES break it for a substring that starts inside a
      token (props/C02t.v, C02t_context_free_lexing_refuted: `12:30` inside `T12:30`).
   2. token lists: trimming a run to a head / tail, re-spelling relation on runs.
   3. the node predicate: nodeR d = "pos / size of d designate, in s, the text of a contiguous non-empty token run
      between blanks, and print false d is that text with numerals re-spelled"; blankP d = "head and tail of d
      are blank".  Both only depend on pos, size, the printed inner text (nodeR) or are re-established from the
      blank token heads / tails (blankP), so every semantic action keeps them for every node below its result
      (run_action_allsub: the children of a result are its arguments, or their children, with heads / tails moved).
   4. heads / tails of results: empty, or those of the first / last argument (run_action_ht).
   5. the driver invariant, ANY tables (AInv: the invariants of RespellProofs.TInv and SpanRespellProofs.OInv on
      ONE list of (value, token run, original text) plus: original text with head and tail = rendering of the run).
   6. node by node: located_t.   7. parse_with_located_t (any tables), parse_located_t (generated tables, guard
      dropped_texts s = []). *)
Require Import Base Decimal Tree GenTree GenParser Lexer Print Actions LR Parser Spans Erase Respace.
Require Import TreeInd LexerProofs ActionProofs LRProofs SpanProofs C01 RespellProofs SpanRespellProofs.
Require Import RespaceProofs RespaceParse BridgeProofs.
From Coq Require Import Lia.

Local Arguments is_space : simpl never.
Local Arguments lex_one : simpl never.
Local Arguments lex_term : simpl never.

(* ================================================================ 1. lexer locality *)

(* the raw tokens of a token list (heads ignored) whose first lexeme sits at offset pos *)
Fixpoint raws_of (pos : nat) (ts : list token) : list rawtok :=
  match ts with
  | [] => []
  | t :: r =>
      mkRaw (RTok (tk_type t)) (tk_lexeme t) pos ::
      match tk_tail t with
      | [] => raws_of (pos + length (tk_lexeme t)) r
      | _ => mkRaw RSep (tk_tail t) (pos + length (tk_lexeme t))
             :: raws_of (pos + length (tk_lexeme t) + length (tk_tail t)) r
      end
  end.

Lemma retail_cons t r w :
  retail (t :: r) w =
  mkTok (tk_type t) (tk_lexeme t) (tk_pos t) [] (match r with [] => w | _ => tk_tail t end) :: retail r w.
Proof. reflexivity. Qed.

Lemma chain_la_pre : forall rp s ts, tchain rp s ts -> forall seg post T, ts = seg ++ post ->
  all_space T = true -> la s (body_text (retail seg T)) = true.
Proof.
  induction 1 as [rp|rp t s2 ts Hone Hw Hch IH]; intros seg post T E HT.
  - destruct seg; [apply la_nil_r|discriminate].
  - destruct seg as [|t0 seg']; [apply la_nil_r|].
    simpl in E. injection E as E1 E2. subst t0.
    rewrite retail_cons, body_text_cons. cbn [tk_lexeme tk_tail]. apply la_app.
    destruct seg' as [|t1 seg''].
    + simpl. unfold body_text. simpl. apply la_gap; [apply la_nil_r|auto|exact HT].
    + apply la_app. eapply IH; eassumption.
Qed.

Lemma body_nostart_pre rp s seg post T : tchain rp s (seg ++ post) -> seg <> [] ->
  starts_with_space (body_text (retail seg T)) = false.
Proof.
  intros Hch Hne. destruct seg as [|t seg']; [congruence|]. simpl in Hch.
  inversion Hch as [|rp0 t0 s2 ts Hone Hw Hch2]; subst.
  rewrite retail_cons, body_text_cons. cbn [tk_lexeme].
  destruct (lex_one_spec _ _ _ _ _ Hone) as [_ [Hl [_ Hns]]].
  destruct (tk_lexeme t) as [|c l1]; [congruence|]. apply Hns. discriminate.
Qed.

Lemma loc_lift : forall rp s ts, tchain rp s ts -> forall seg post T rp' fuel pos,
  ts = seg ++ post -> all_space T = true ->
  (forall x, lex_term rp s = Some x -> safe rp /\ safe rp') ->
  length (body_text (retail seg T)) < fuel ->
  lex_raw fuel rp' pos (body_text (retail seg T)) = (raws_of pos (retail seg T), None).
Proof.
  induction 1 as [rp|rp t s2 ts Hone Hw Hch IH]; intros seg post T rp' fuel pos E HT Hsafe Hlen.
  - destruct seg; [|discriminate]. destruct fuel; reflexivity.
  - destruct seg as [|t0 seg']; [destruct fuel; reflexivity|].
    simpl in E. injection E as E1 E2. subst t0.
    pose proof (chain_la_pre _ _ _ Hch seg' post T E2 HT) as Hla0.
    rewrite retail_cons in *. rewrite body_text_cons in *. cbn [tk_lexeme tk_tail tk_type] in *.
    destruct t as [k l p h w]. cbn [tk_lexeme tk_tail tk_type] in *.
    set (w' := match seg' with [] => T | _ :: _ => w end) in *.
    assert (Hw' : all_space w' = true) by (subst w'; destruct seg'; assumption).
    assert (Hgap : w' = [] -> w = [] \/ body_text (retail seg' T) = []).
    { subst w'. destruct seg'; [right; reflexivity|left; assumption]. }
    destruct fuel as [|f]; [lia|].
    assert (Hlne : l <> []) by (destruct (lex_one_spec _ _ _ _ _ Hone) as [_ [Hne _]]; exact Hne).
    assert (Hla : la (w ++ s2) (w' ++ body_text (retail seg' T)) = true).
    { apply la_gap; assumption. }
    assert (Hesc : esc_ok (w ++ s2) = true).
    { destruct w as [|c w1].
      - simpl. inversion Hch; [reflexivity|]. eapply lex_one_esc_ok; eassumption.
      - simpl. simpl in Hw. apply andb_true_iff in Hw. destruct Hw as [Hc _].
        rewrite (space_neq _ _ Hc bslash_not_space). reflexivity. }
    assert (Hone' : lex_one rp' (l ++ w' ++ body_text (retail seg' T)) = Some (RTok k, l, w' ++ body_text (retail seg' T))).
    { apply lex_one_respace with (rp := rp) (r := w ++ s2); auto.
      intros Hnn. destruct (lex_term rp (l ++ w ++ s2)) as [x|] eqn:Ex; [|congruence].
      apply (Hsafe x). reflexivity. }
    rewrite (lex_raw_step _ _ _ _ _ _ _ Hone').
    assert (Hl1 : 0 < length l) by (destruct l; [congruence|simpl; lia]).
    rewrite !app_length in Hlen.
    assert (Hs1 : forall x, lex_term (rev w ++ rev l ++ rp) s2 = Some x -> safe (rev w ++ rev l ++ rp)).
    { intros x Hx. destruct w as [|c w1].
      - simpl in *. exact (adjacent_term_safe rp _ l s2 k x Hone Hx rp).
      - apply safe_rev_space; [discriminate|exact Hw]. }
    cbn [raws_of tk_type tk_lexeme tk_tail].
    destruct seg' as [|t1 seg''].
    + (* the last token of the segment *)
      subst w'. cbn [retail raws_of]. unfold body_text at 1. cbn [map concat]. rewrite app_nil_r.
      destruct T as [|c' T1].
      * destruct f; reflexivity.
      * destruct f as [|f1]; [simpl in Hlen; lia|].
        rewrite (lex_raw_step f1 _ _ _ RSep (c' :: T1) []).
        2:{ rewrite <- (app_nil_r (c' :: T1)) at 1. apply lex_one_sep; [discriminate|exact HT|reflexivity]. }
        destruct f1; reflexivity.
    + subst w'. destruct w as [|c' w1'].
      * (* the next token follows directly *)
        cbn [app] in *.
        rewrite (IH (t1 :: seg'') post T (rev l ++ rp') f (pos + length l) E2 HT).
        -- reflexivity.
        -- intros x Hx. split; [exact (Hs1 x Hx)|].
           simpl in Hx. exact (adjacent_term_safe rp _ l s2 k x Hone Hx rp').
        -- cbn [length] in Hlen; lia.
      * destruct f as [|f1]; [simpl in Hlen; lia|].
        rewrite (lex_raw_step f1 _ _ _ RSep (c' :: w1') (body_text (retail (t1 :: seg'') T))).
        2:{ apply lex_one_sep; [discriminate|exact Hw|].
            eapply body_nostart_pre; [rewrite <- E2; exact Hch|discriminate]. }
        rewrite (IH (t1 :: seg'') post T (rev (c' :: w1') ++ rev l ++ rp') f1
                    (pos + length l + length (c' :: w1')) E2 HT).
        -- reflexivity.
        -- intros x Hx. split; [exact (Hs1 x Hx)|]. apply safe_rev_space; [discriminate|exact Hw].
        -- cbn [length] in Hlen |- *; lia.
Qed.

(* the chain of a suffix of the token list, with the look-behind invariant at its start *)
Lemma chain_split : forall pre rp s rest, tchain rp s (pre ++ rest) ->
  (forall x, lex_term rp s = Some x -> safe rp) ->
  exists rp2 s2, tchain rp2 s2 rest /\ (forall x, lex_term rp2 s2 = Some x -> safe rp2).
Proof.
  induction pre as [|t pre IH]; intros rp s rest Hch Hs.
  - exists rp, s. auto.
  - simpl in Hch. inversion Hch as [|rp0 t0 s2 ts Hone Hw Hch2]; subst.
    apply (IH _ _ _ Hch2). intros x Hx.
    destruct (tk_tail t) as [|c w1] eqn:Ew.
    + simpl in *. exact (adjacent_term_safe rp _ _ s2 _ x Hone Hx rp).
    + apply safe_rev_space; [discriminate|exact Hw].
Qed.

(* ---- through HeadTailLexer *)
Fixpoint repos (pos : nat) (ts : list token) : list token :=
  match ts with
  | [] => []
  | t :: r => mkTok (tk_type t) (tk_lexeme t) pos (tk_head t) (tk_tail t)
              :: repos (pos + length (tk_lexeme t) + length (tk_tail t)) r
  end.

Definition oh (p : option str) : str := match p with Some h => h | None => [] end.

Lemma fold_raws_of : forall ts pos pend racc,
  Forall (fun t => tk_lexeme t <> [] /\ tk_head t = []) ts -> ts <> [] ->
  head_tail_fold (raws_of pos ts) pend racc = rev racc ++ repos pos (set_head (oh pend) ts).
Proof.
  induction ts as [|t r IH]; intros pos pend racc HF Hne; [congruence|].
  inversion HF as [|? ? [Hl Hh] HFr]; subst.
  cbn [raws_of]. cbn [head_tail_fold rk_kind rk_lexeme rk_pos].
  assert (Hrest : forall pos' tl', r <> [] ->
            head_tail_fold (raws_of pos' r) None (mkTok (tk_type t) (tk_lexeme t) pos (oh pend) tl' :: racc)
            = rev racc ++ mkTok (tk_type t) (tk_lexeme t) pos (oh pend) tl' :: repos pos' r).
  { intros pos' tl' Hr. rewrite (IH pos' None _ HFr Hr). simpl rev. rewrite <- app_assoc. simpl. f_equal. f_equal.
    destruct r as [|t2 r2]; [congruence|]. inversion HFr as [|? ? [_ Hh2] _]; subst.
    simpl. rewrite Hh2. reflexivity. }
  assert (Epend : match pend with Some h => h | None => [] end = oh pend) by reflexivity. rewrite Epend.
  destruct (tk_tail t) as [|c w1] eqn:Et.
  - destruct r as [|t2 r2].
    + simpl. rewrite Et. rewrite ?Nat.add_0_r. reflexivity.
    + rewrite Hrest by discriminate. simpl. rewrite Et. simpl. rewrite ?Nat.add_0_r. reflexivity.
  - cbn [head_tail_fold rk_kind rk_lexeme rk_pos].
    assert (E0 : Nat.eqb (pos + length (tk_lexeme t)) 0 = false).
    { apply Nat.eqb_neq. destruct (tk_lexeme t); [congruence|simpl; lia]. }
    rewrite E0. unfold add_tail. cbn [tk_type tk_lexeme tk_pos tk_head tk_tail app].
    destruct r as [|t2 r2].
    + simpl. rewrite Et. reflexivity.
    + rewrite Hrest by discriminate. simpl. rewrite Et. reflexivity.
Qed.

(* same token up to its position *)
Definition same_text (u v : token) : Prop :=
  tk_type u = tk_type v /\ tk_lexeme u = tk_lexeme v /\ tk_head u = tk_head v /\ tk_tail u = tk_tail v.

Lemma repos_same_text : forall ts pos, Forall2 same_text (repos pos ts) ts.
Proof. induction ts as [|t r IH]; intros pos; simpl; constructor; [repeat split|apply IH]. Qed.

Lemma retail_wf : forall g w, Forall tok_wf g ->
  Forall (fun t => tk_lexeme t <> [] /\ tk_head t = []) (retail g w).
Proof.
  induction g as [|t r IH]; intros w H; [constructor|]. inversion H as [|? ? Ht Hr]; subst.
  rewrite retail_cons. constructor; [|apply IH; exact Hr]. simpl. split; [|reflexivity].
  eapply lexeme_ok_nonempty. exact Ht.
Qed.

Lemma set_head_wf h ts : Forall (fun t => tk_lexeme t <> [] /\ tk_head t = []) ts ->
  Forall (fun t => tk_lexeme t <> []) (set_head h ts).
Proof.
  intros H. destruct ts as [|t r]; [constructor|]. inversion H as [|? ? [H1 _] Hr]; subst. simpl.
  constructor; [exact H1|]. eapply Forall_impl; [|exact Hr]. intros a [Ha _]. exact Ha.
Qed.

Lemma retail_nonempty g w : g <> [] -> retail g w <> [].
Proof. destruct g; [congruence|discriminate]. Qed.

(* THE LOCALITY THEOREM: a contiguous segment of the tokens of s, re-read in isolation between arbitrary
   blanks H and T, lexes to the same tokens (type, lexeme, separators between them), with head H and last
   tail T.  The look-behind of TIME_RE cannot interfere: a token start never exposes `T\d\d`
   (RespaceProofs.safe / adjacent_term_safe). *)
Theorem lex_segment s pre seg post H T :
  lex s = (pre ++ seg ++ post, None) -> seg <> [] -> all_space H = true -> all_space T = true ->
  exists toksN, lex (H ++ group_text seg ++ T) = (toksN, None) /\
                Forall2 same_text toksN (set_head H (retail seg T)).
Proof.
  intros Hlex Hne HH HT.
  assert (Hne0 : pre ++ seg ++ post <> []).
  { intros E. apply app_eq_nil in E. destruct E as [_ E]. apply app_eq_nil in E. destruct E; congruence. }
  destruct (lex_tchain _ _ Hlex Hne0) as [h [s1 [Hh Hch]]].
  destruct (chain_split pre _ _ _ Hch) as [rp2 [s2 [Hch2 Hs2]]].
  { intros x _. apply safe_rev_space'. exact Hh. }
  pose proof (lex_tokens_wf _ _ _ Hlex) as Hwf. apply Forall_app in Hwf. destruct Hwf as [_ Hwf].
  apply Forall_app in Hwf. destruct Hwf as [Hwf _].
  pose proof (retail_wf seg T Hwf) as Hrw.
  rewrite <- (retail_text seg T Hne). unfold lex.
  destruct H as [|c hh].
  - simpl app.
    rewrite (loc_lift _ _ _ Hch2 seg post T [] (S (length (body_text (retail seg T)))) 0 eq_refl HT).
    + rewrite fold_raws_of by (try exact Hrw; apply retail_nonempty; exact Hne). simpl rev. simpl app.
      eexists. split; [reflexivity|]. apply repos_same_text.
    + intros x Hx. split; [exact (Hs2 x Hx)|exact safe_nil].
    + lia.
  - rewrite (lex_raw_step _ _ _ _ RSep (c :: hh) (body_text (retail seg T))).
    2:{ apply lex_one_sep; [discriminate|exact HH|]. eapply body_nostart_pre; eassumption. }
    rewrite (loc_lift _ _ _ Hch2 seg post T (rev (c :: hh) ++ []) (length ((c :: hh) ++ body_text (retail seg T)))
               (0 + length (c :: hh)) eq_refl HT).
    + cbn [head_tail_fold rk_kind rk_pos rk_lexeme]. simpl Nat.eqb.
      rewrite fold_raws_of by (try exact Hrw; apply retail_nonempty; exact Hne). simpl rev. simpl app.
      eexists. split; [reflexivity|]. apply repos_same_text.
    + intros x Hx. split; [exact (Hs2 x Hx)|]. apply safe_rev_space; [discriminate|exact HH].
    + rewrite app_length. simpl. lia.
Qed.

(* ================================================================ 2. token lists: trimming, re-spelling *)

(* the segment with its first head replaced by h and its last tail by t *)
Definition trim (h t : str) (seg : list token) : list token := set_head h (retail seg t).

Lemma render_retail : forall g w, render (retail g w) = body_text (retail g w).
Proof.
  induction g as [|x r IH]; intros w; [reflexivity|].
  rewrite retail_cons, render_cons, body_text_cons, IH. unfold tok_text. simpl. rewrite <- app_assoc. reflexivity.
Qed.

Lemma render_trim h t seg : seg <> [] -> render (trim h t seg) = h ++ group_text seg ++ t.
Proof.
  intros Hne. rewrite <- (retail_text seg t Hne). unfold trim.
  destruct seg as [|x r]; [congruence|]. rewrite retail_cons. simpl set_head.
  rewrite render_cons, body_text_cons, render_retail. unfold tok_text. simpl. rewrite <- ?app_assoc. reflexivity.
Qed.

Lemma trim_keys h t seg : map tok_key (trim h t seg) = map tok_key seg.
Proof.
  unfold trim. rewrite <- (retail_keys seg t). destruct (retail seg t); reflexivity.
Qed.

Lemma same_text_keys : forall a b, Forall2 same_text a b -> map tok_key a = map tok_key b.
Proof.
  induction 1 as [|x y a b [H1 [H2 _]] _ IH]; [reflexivity|]. simpl. unfold tok_key at 1 3. rewrite H1, H2, IH. reflexivity.
Qed.

Lemma sbn_fhead seg seg' : Forall2 same_but_numeral seg seg' -> fhead seg' = fhead seg.
Proof. intros H. destruct H as [|x y a b [_ [Hh _]] _]; [reflexivity|]. simpl. symmetry. exact Hh. Qed.

Lemma sbn_ltail : forall seg seg', Forall2 same_but_numeral seg seg' -> ltail seg' = ltail seg.
Proof.
  induction 1 as [|x y a b [_ [_ [Ht _]]] Hab IH]; [reflexivity|].
  destruct Hab as [|x2 y2 a2 b2 Hxy Hab2]; [simpl; symmetry; exact Ht|].
  rewrite !ltail_cons by discriminate. exact IH.
Qed.

Lemma sbn_heads_ok seg seg' : Forall2 same_but_numeral seg seg' -> heads_ok seg -> heads_ok seg'.
Proof.
  intros H. destruct H as [|x y a b _ Hab]; [auto|]. unfold heads_ok. simpl.
  induction Hab as [|x2 y2 a2 b2 [_ [Hh _]] _ IH]; intros HF; [constructor|].
  inversion HF as [|? ? H1 H2]; subst. constructor; [unfold hn in *; congruence|apply IH; exact H2].
Qed.

Lemma sbn_nonempty seg seg' : Forall2 same_but_numeral seg seg' -> seg <> [] -> seg' <> [].
Proof. intros H Hne. destruct H; [congruence|discriminate]. Qed.

Lemma sbn_retail : forall seg seg' w, Forall2 same_but_numeral seg seg' ->
  Forall2 same_but_numeral (retail seg w) (retail seg' w).
Proof.
  induction 1 as [|x y a b Hxy Hab IH]; [constructor|]. rewrite !retail_cons. constructor; [|exact IH].
  destruct Hxy as [H1 [H2 [H3 H4]]]. unfold same_but_numeral. simpl.
  split; [exact H1|]. split; [reflexivity|]. split; [|exact H4].
  destruct Hab; [reflexivity|exact H3].
Qed.

Lemma sbn_trim h t seg seg' : Forall2 same_but_numeral seg seg' ->
  Forall2 same_but_numeral (trim h t seg) (trim h t seg').
Proof.
  intros H. unfold trim. pose proof (sbn_retail _ _ t H) as Hr.
  destruct Hr as [|x y a b [H1 [H2 [H3 H4]]] Hab]; [constructor|]. simpl. constructor; [|exact Hab].
  unfold same_but_numeral. simpl. auto.
Qed.

Lemma same_text_sbn : forall a b c, Forall2 same_text a b -> Forall2 same_but_numeral b c ->
  Forall2 same_but_numeral a c.
Proof.
  intros a b c H. revert c. induction H as [|x y a b [E1 [E2 [E3 E4]]] _ IH]; intros c Hc; inversion Hc; subst; constructor.
  - match goal with Hs : same_but_numeral y _ |- _ => destruct Hs as [S1 [S2 [S3 S4]]] end.
    unfold same_but_numeral. rewrite E1, E2, E3, E4. auto.
  - apply IH. assumption.
Qed.

Lemma toks_pos_at : forall pre b t rest, toks_pos_ok b (pre ++ t :: rest) ->
  tk_pos t = b + length (render pre) + length (tk_head t).
Proof.
  induction pre as [|x pre IH]; intros b t rest H; simpl in H.
  - destruct H as [H _]. simpl. lia.
  - destruct H as [_ H]. rewrite (IH _ _ _ H), render_cons, app_length. lia.
Qed.

Definition fpos (seg : list token) : nat := match seg with t :: _ => tk_pos t | [] => 0 end.

(* ================================================================ 3. the node predicate *)

Definition allsub (P : item -> Prop) (n : item) : Prop := forall q d, subtree_at n q = Some d -> P d.

Lemma allsub_intro (P : item -> Prop) n : P n -> Forall (allsub P) (children n) -> allsub P n.
Proof.
  intros Hn Hc q d Hs. destruct q as [|i q]; simpl in Hs; [inversion Hs; subst; exact Hn|].
  destruct (nth_error (children n) i) as [c|] eqn:Hi; [|discriminate].
  apply nth_error_In in Hi. rewrite Forall_forall in Hc. exact (Hc c Hi q d Hs).
Qed.

Lemma allsub_here (P : item -> Prop) n : allsub P n -> P n.
Proof. intros H. exact (H [] n eq_refl). Qed.

Lemma allsub_children (P : item -> Prop) n : allsub P n -> Forall (allsub P) (children n).
Proof.
  intros H. apply Forall_forall. intros c Hc q d Hs. destruct (In_nth_error _ _ Hc) as [i Hi].
  apply (H (i :: q) d). simpl. rewrite Hi. exact Hs.
Qed.

Lemma allsub_set_meta (P : item -> Prop) x m : P (set_meta x m) -> allsub P x -> allsub P (set_meta x m).
Proof.
  intros Hp Hx. apply allsub_intro; [exact Hp|]. rewrite children_set_meta. apply allsub_children. exact Hx.
Qed.

Section NodePredicate.
  Variable s : str.
  Variable toks0 : list token.

  (* o, a text occurring at offset p, is the text of a run of tokens between two pieces of blank; P is that
     text with numerals re-spelled *)
  Definition aligned (p : Z) (o P : str) : Prop :=
    exists pre seg post seg' h1 h2 t1 t2,
      toks0 = pre ++ seg ++ post /\ seg <> [] /\ Forall2 same_but_numeral seg seg' /\
      fhead seg = h1 ++ h2 /\ ltail seg = t1 ++ t2 /\
      p = (zlen (render pre) + zlen h1)%Z /\
      o = h2 ++ group_text seg ++ t1 /\ P = h2 ++ group_text seg' ++ t1.

  Definition nodeR (d : item) : Prop :=
    exists p o, m_pos (meta_of d) = Some p /\ m_size (meta_of d) = Some (zlen o) /\ at_off s p o /\
                aligned p o (print false d).

  Definition blankP (d : item) : Prop := all_space (head_of d) = true /\ all_space (tail_of d) = true.
  Definition both (d : item) : Prop := nodeR d /\ blankP d.

  Lemma nodeR_set_meta x m :
    m_pos m = m_pos (meta_of x) -> m_size m = m_size (meta_of x) -> nodeR x -> nodeR (set_meta x m).
  Proof.
    intros Hp Hs [p [o [H1 [H2 [H3 H4]]]]]. exists p, o. rewrite meta_set_meta, print_false_set_meta, Hp, Hs. auto.
  Qed.

  Lemma both_add_head x w : all_space w = true -> allsub both x -> allsub both (add_head x w).
  Proof.
    intros Hw Hx. unfold add_head, set_head. apply allsub_set_meta; [|exact Hx].
    destruct (allsub_here _ _ Hx) as [Hn [Hb1 Hb2]]. split.
    - apply nodeR_set_meta; auto.
    - unfold blankP, head_of, tail_of. rewrite meta_set_meta. simpl. rewrite all_space_app, Hw. auto.
  Qed.

  Lemma both_add_tail x w : all_space w = true -> allsub both x -> allsub both (add_tail_i x w).
  Proof.
    intros Hw Hx. unfold add_tail_i, set_tail. apply allsub_set_meta; [|exact Hx].
    destruct (allsub_here _ _ Hx) as [Hn [Hb1 Hb2]]. split.
    - apply nodeR_set_meta; auto.
    - unfold blankP, head_of, tail_of. rewrite meta_set_meta. simpl. rewrite all_space_app, Hw, andb_true_r. auto.
  Qed.

  Lemma both_fieldgroup e : allsub both e ->
    allsub both (match e with Grp KGroup m x => Grp KFieldGroup (clone_meta_nameless m) x | _ => e end).
  Proof.
    intros H. destruct e; try exact H. destruct k; try exact H.
    apply allsub_intro; [|exact (allsub_children _ _ H)].
    destruct (allsub_here _ _ H) as [[p [o [H1 [H2 [H3 H4]]]]] [Hb1 Hb2]]. split.
    - exists p, o. auto.
    - split; assumption.
  Qed.

  Definition blankm (m : meta) : Prop := all_space (m_head m) = true /\ all_space (m_tail m) = true.
  Definition argP (v : symval) : Prop :=
    match v with VItem i => allsub both i | VTok _ _ m => blankm m end.
  Definition resP (v : symval) : Prop :=
    match v with VItem r => nodeR r -> allsub both r | VTok _ _ m => blankm m end.

  Local Opaque htm_pos.

  Lemma binary_allsub k a opv b v evs :
    binary k a opv b = Ok (v, evs) -> allsub both a -> allsub both b ->
    match opv with Some o => all_space (sv_tail o) = true | None => True end -> resP v.
  Proof.
    unfold binary. intros H Ha Hb Ho.
    set (a_same := match a with Op k' _ _ => opk_eqb k k' | _ => false end) in *.
    set (b_same := match b with Op k' _ _ => opk_eqb k k' | _ => false end) in *.
    destruct (if b_same then children b else [b]) as [|b0 brest] eqn:HopsB; [discriminate|].
    destruct (htm_pos _ false false) as [pos size]. inversion H; subst v evs; clear H.
    simpl. intros HR. apply allsub_intro; [split; [exact HR|split; reflexivity]|].
    simpl children. apply Forall_app. split.
    - destruct a_same; [apply allsub_children; exact Ha|constructor; [exact Ha|constructor]].
    - assert (Hall : Forall (allsub both) (b0 :: brest)).
      { rewrite <- HopsB. destruct b_same; [apply allsub_children; exact Hb|constructor; [exact Hb|constructor]]. }
      inversion Hall; subst. constructor; [|assumption]. apply both_add_head; [|assumption].
      destruct opv; [exact Ho|reflexivity].
  Qed.

  Theorem run_action_allsub a args v evs :
    run_action a args = Ok (v, evs) -> Forall argP args -> resP v.
  Proof.
    intros H Hargs.
    assert (Hunit : forall x, args = [x] -> v = x -> resP v).
    { intros x E1 E2. subst. inversion Hargs as [|? ? Hx _]; subst. destruct x; simpl in *; auto. }
    destruct a; simpl in H;
      repeat match type of H with
      | match ?l with [] => _ | _ :: _ => _ end = _ => destruct l as [|? ?]; try discriminate
      | match ?x with VItem _ => _ | VTok _ _ _ => _ end = _ => destruct x; try discriminate
      | match ?o with Some _ => _ | None => _ end = _ => destruct o eqn:?; try discriminate
      | match ?i with Term _ _ _ => _ | _ => _ end = _ => destruct i; try discriminate
      end;
      try (inv_ok H; eapply Hunit; reflexivity); clear Hunit.
    all: repeat match goal with
         | Hx : Forall argP (_ :: _) |- _ => apply Forall_cons_iff in Hx; destruct Hx as [? Hx]
         end.
    all: simpl argP in *; unfold blankm in *.
    all: repeat match goal with Hx : _ /\ _ |- _ => destruct Hx end.
    all: try (eapply binary_allsub; [exact H|assumption|assumption|simpl; auto]; fail).
    all: try (destruct (int_of_lexeme s0); [|discriminate]).
    all: try (destruct (dec_of_lexeme s0); [|discriminate]).
    all: unfold unary_ht, post_unary_ht in H; inv_ok H; simpl resP; intros HR.
    all: repeat match goal with Hx : allsub both _ |- _ =>
           let Hy := fresh "Hb" in pose proof (proj2 (allsub_here _ _ Hx)) as Hy; destruct Hy; revert Hx end; intros.
    all: unfold sv_head, sv_tail in *; simpl sv_meta in *.
    all: apply allsub_intro; [split; [exact HR|split; unfold head_of, tail_of in *; simpl in *; auto]|].
    all: simpl children;
         repeat match goal with |- Forall _ (_ :: _) => apply Forall_cons | |- Forall _ [] => apply Forall_nil end.
    all: auto 6 using both_add_head, both_add_tail, both_fieldgroup.
  Qed.
End NodePredicate.

(* ================================================================ 4. heads and tails of action results *)

Local Opaque htm_pos.

(* every action has at least one argument; the head of its result is empty or the head of its first argument,
   the tail empty or the tail of its last argument *)
Lemma run_action_ht a args v evs :
  run_action a args = Ok (v, evs) ->
  args <> [] /\ (sv_head v = [] \/ sv_head v = sv_head (hd v args)) /\
  (sv_tail v = [] \/ sv_tail v = sv_tail (last args v)).
Proof.
  intros H.
  destruct a; simpl in H;
    repeat match type of H with
    | match ?l with [] => _ | _ :: _ => _ end = _ => destruct l as [|? ?]; try discriminate
    | match ?x with VItem _ => _ | VTok _ _ _ => _ end = _ => destruct x; try discriminate
    | match ?o with Some _ => _ | None => _ end = _ => destruct o eqn:?; try discriminate
    | match ?i with Term _ _ _ => _ | _ => _ end = _ => destruct i; try discriminate
    end;
    try (inv_ok H; split; [discriminate|split; right; reflexivity]).
  all: try (unfold binary in H;
            match type of H with context [if ?b then children ?y else [?y]] =>
              destruct (if b then children y else [y]) as [|b0 brest]; [discriminate|] end;
            destruct (htm_pos _ false false) as [pos size]; inv_ok H;
            split; [discriminate|split; left; reflexivity]).
  all: try (destruct (int_of_lexeme s); [|discriminate]).
  all: try (destruct (dec_of_lexeme s); [|discriminate]).
  all: unfold unary_ht, post_unary_ht in H; inv_ok H; (split; [discriminate|]);
       unfold sv_head, sv_tail; simpl; auto.
Qed.

(* ================================================================ 5. the driver invariant *)

Lemma at_off_unique s b x y : at_off s b x -> at_off s b y -> length x = length y -> x = y.
Proof.
  intros [p1 [q1 [E1 L1]]] [p2 [q2 [E2 L2]]] Hl. subst s.
  assert (Hp : length p1 = length p2) by (unfold zlen in *; lia).
  assert (E : p1 = p2 /\ x ++ q1 = y ++ q2).
  { clear - E2 Hp. revert p2 E2 Hp. induction p1 as [|c p1 IH]; intros [|d p2] E Hp; try discriminate; simpl in *.
    - auto.
    - injection E as E0 E. injection Hp as Hp. destruct (IH _ E Hp) as [-> H]. subst. auto. }
  destruct E as [_ E]. clear - E Hl. revert y E Hl.
  induction x as [|c x IH]; intros [|d y] E Hl; try discriminate; [reflexivity|].
  simpl in *. injection E as E0 E. injection Hl as Hl. rewrite (IH _ E Hl). subst. reflexivity.
Qed.

Section AnyTablesA.
  Variable tb : tables.
  Variable s : str.
  Variable toks0 : list token.
  Hypothesis Hheads : heads_ok toks0.
  Hypothesis Hblank : Forall blank_ht toks0.

  Notation both := (both s toks0).
  Notation nodeR := (nodeR s toks0).
  Notation argP := (argP s toks0).

  (* a stack value, the tokens it was built from, its original text *)
  Definition tr : Type := (symval * list token * str)%type.
  Definition tv (x : tr) : symval := fst (fst x).
  Definition tseg (x : tr) : list token := snd (fst x).
  Definition tor (x : tr) : str := snd x.

  Definition vrel (x : tr) : Prop :=
    link (tv x) (tseg x) /\ tseg x <> [] /\ ofull_sv (tv x) (tor x) = render (tseg x) /\
    (exists h2, fhead (tseg x) = sv_head (tv x) ++ h2) /\
    (exists t1, ltail (tseg x) = t1 ++ sv_tail (tv x)) /\
    argP (tv x).

  Definition AInv (lexerr : option (nat * str)) (c : config) : Prop :=
    exists trs, map tv trs = c_vals c /\ Forall vrel trs /\
      concat (rev (map tseg trs)) ++ c_toks c = toks0 /\
      oargs_ok 0 (rev (c_vals c)) (rev (map tor trs)) /\
      otexts (rev (c_vals c)) (rev (map tor trs)) ++ render (c_toks c) ++ err_rest lexerr = s /\
      toks_pos_ok (length (otexts (rev (c_vals c)) (rev (map tor trs)))) (c_toks c) /\
      Forall val_ok (c_vals c) /\ Forall children_ok (c_vals c) /\ Forall tok_wf (c_toks c).

  Lemma otexts_render : forall l, Forall vrel l ->
    otexts (map tv l) (map tor l) = render (concat (map tseg l)).
  Proof.
    induction 1 as [|x l [_ [_ [E _]]] _ IH]; [reflexivity|].
    simpl. rewrite render_app, IH, E. reflexivity.
  Qed.

  Lemma links_of : forall l, Forall vrel l -> Forall2 link (map tv l) (map tseg l).
  Proof. induction 1 as [|x l [L _] _ IH]; simpl; constructor; assumption. Qed.

  Lemma argPs_of : forall l, Forall vrel l -> Forall argP (map tv l).
  Proof. induction 1 as [|x l [_ [_ [_ [_ [_ A]]]]] _ IH]; simpl; constructor; assumption. Qed.

  Lemma concat_segs_nonempty l : Forall vrel l -> l <> [] -> concat (map tseg l) <> [].
  Proof.
    intros H Hne. destruct H as [|x l [_ [Hx _]] _]; [congruence|]. simpl.
    intros E. apply app_eq_nil in E. destruct E; congruence.
  Qed.

  Lemma tok_in_blank t pre post : toks0 = pre ++ t :: post -> blank_ht t.
  Proof.
    intros E. rewrite Forall_forall in Hblank. apply Hblank. rewrite E. apply in_or_app. right. left. reflexivity.
  Qed.

  (* the node predicate of a value that covers the token run seg *)
  Lemma value_nodeR r o seg pre post b :
    toks0 = pre ++ seg ++ post -> seg <> [] ->
    not_none r -> link (VItem r) seg ->
    head_of r ++ o ++ tail_of r = render seg ->
    (exists h2, fhead seg = head_of r ++ h2) -> (exists t1, ltail seg = t1 ++ tail_of r) ->
    m_pos (meta_of r) = Some (b + zlen (head_of r))%Z -> m_size (meta_of r) = Some (zlen o) ->
    at_off s b (head_of r ++ o ++ tail_of r) -> b = zlen (render pre) ->
    nodeR r.
  Proof.
    intros Et Hne Hnn [[seg' [Hf Hp]] _] E1 [h2 Eh] [t1 Etl] Hpos Hsize Hat Hb.
    exists (b + zlen (head_of r))%Z, o. split; [exact Hpos|]. split; [exact Hsize|].
    split; [eapply at_off_inner; exact Hat|].
    assert (Hh : heads_ok seg).
    { pose proof Hheads as Hx. rewrite Et in Hx. apply heads_ok_app_r in Hx. apply heads_ok_app_l in Hx. exact Hx. }
    exists pre, seg, post, seg', (head_of r), h2, t1, (tail_of r).
    split; [exact Et|]. split; [exact Hne|]. split; [exact Hf|]. split; [exact Eh|]. split; [exact Etl|].
    split; [lia|]. split.
    - rewrite (render_decomp seg Hh Hne), Eh, Etl, <- !app_assoc in E1.
      apply app_inv_head in E1.
      assert (E2 : o ++ tail_of r = (h2 ++ group_text seg ++ t1) ++ tail_of r) by (rewrite E1, <- !app_assoc; reflexivity).
      apply app_inv_tail in E2. exact E2.
    - simpl full_text in Hp. rewrite (print_true_split r Hnn) in Hp.
      rewrite (render_decomp seg' (sbn_heads_ok _ _ Hf Hh) (sbn_nonempty _ _ Hf Hne)) in Hp.
      rewrite (sbn_fhead _ _ Hf), (sbn_ltail _ _ Hf), Eh, Etl, <- !app_assoc in Hp.
      apply app_inv_head in Hp.
      assert (E2 : print false r ++ tail_of r = (h2 ++ group_text seg' ++ t1) ++ tail_of r)
        by (rewrite Hp, <- !app_assoc; reflexivity).
      apply app_inv_tail in E2. exact E2.
  Qed.

  Lemma token_value_head t : sv_head (token_value t) = tk_head t /\ sv_tail (token_value t) = tk_tail t.
  Proof. unfold token_value. destruct (tk_type t); split; reflexivity. Qed.

  Lemma token_value_item t r : token_value t = VItem r ->
    exists k, r = Term k (mkMeta (Some (Z.of_nat (tk_pos t))) (Some (zlen (tk_lexeme t))) (tk_head t) (tk_tail t) None)
                       (tk_lexeme t).
  Proof. unfold token_value. destruct (tk_type t); intros H; inversion H; eexists; reflexivity. Qed.

  Lemma token_value_vtok t l x m : token_value t = VTok l x m -> m_head m = tk_head t /\ m_tail m = tk_tail t.
  Proof. unfold token_value. destruct (tk_type t); intros H; inversion H; split; reflexivity. Qed.

  Lemma astep_next lexerr c c' :
    step tb lexerr c = Next c' -> AInv lexerr c -> rflat_step tb lexerr c = false ->
    exists evs, c_dropped c' = c_dropped c ++ evs /\ (Forall ev_ok evs -> AInv lexerr c').
  Proof.
    intros Hs [trs [Hv [Hrel [Ht [HA [HT [HP [Hok [Hch Hwf]]]]]]]]] Hrf.
    destruct (step_cases _ _ _ _ Hs) as [[t [rest [n [Htoks [Hact Hc']]]]]|
                                         [p [lhs [rhs [a [v [evs [g [Hact [Hnth [Hlen [Hnr [Hrun [Hg Hc']]]]]]]]]]]]]].
    - (* shift *)
      subst c'. simpl. exists []. split; [rewrite app_nil_r; reflexivity|]. intros _.
      rewrite Htoks in *. simpl in HP. destruct HP as [HP1 HP2].
      inversion Hwf as [|? ? Hwt Hwr]; subst.
      destruct (token_value_ospans t _ HP1) as [Hov Htx].
      assert (Hl : length (rev (c_vals c)) = length (rev (map tor trs))).
      { rewrite !rev_length, <- Hv, !map_length. reflexivity. }
      assert (Hrev : otexts (rev (c_vals c)) (rev (map tor trs)) = render (concat (rev (map tseg trs)))).
      { rewrite <- Hv, <- !map_rev. apply otexts_render. apply Forall_rev. exact Hrel. }
      pose proof (token_value_head t) as [Hth Htt].
      assert (Hbl : blank_ht t) by (eapply tok_in_blank; symmetry; exact Ht).
      exists ((token_value t, [t], tk_lexeme t) :: trs). simpl.
      split; [rewrite Hv; reflexivity|]. split; [|split; [|split; [|split; [|split; [|split; [|split]]]]]].
      + constructor; [|exact Hrel]. unfold vrel, tv, tseg, tor. simpl.
        split; [apply link_token; exact Hwt|]. split; [discriminate|].
        split; [rewrite Htx; unfold render; simpl; rewrite app_nil_r; reflexivity|].
        split; [exists []; rewrite Hth, app_nil_r; reflexivity|].
        split; [exists []; rewrite Htt; reflexivity|].
        destruct (token_value t) as [r|l x m] eqn:Etv; simpl.
        * destruct (token_value_item _ _ Etv) as [k Er].
          apply allsub_intro; [|subst r; constructor]. split.
          -- apply (value_nodeR r (tk_lexeme t) [t] (concat (rev (map tseg trs))) rest
                      (zlen (otexts (rev (c_vals c)) (rev (map tor trs))))).
             ++ rewrite <- Ht. reflexivity.
             ++ discriminate.
             ++ subst r. exact I.
             ++ rewrite <- Etv. apply link_token. exact Hwt.
             ++ subst r. unfold render, tok_text. simpl. rewrite app_nil_r. reflexivity.
             ++ exists []. subst r. simpl. rewrite app_nil_r. reflexivity.
             ++ exists []. subst r. reflexivity.
             ++ subst r. simpl. unfold head_of. simpl. rewrite HP1. unfold zlen. f_equal. lia.
             ++ subst r. reflexivity.
             ++ exists (otexts (rev (c_vals c)) (rev (map tor trs))), (render rest ++ err_rest lexerr).
                split; [|reflexivity]. rewrite <- HT. subst r. unfold head_of, tail_of. simpl.
                rewrite render_cons. unfold tok_text. rewrite <- !app_assoc. reflexivity.
             ++ rewrite Hrev. reflexivity.
          -- subst r. exact Hbl.
        * destruct (token_value_vtok _ _ _ _ Etv) as [E1 E2]. unfold blankm. rewrite E1, E2. exact Hbl.
      + rewrite <- Ht. rewrite concat_app. simpl. rewrite <- !app_assoc. reflexivity.
      + apply oargs_ok_app; [exact Hl|]. split; [exact HA|]. simpl. split; [|exact I].
        exact Hov.
      + rewrite otexts_app by exact Hl. simpl. rewrite Htx, app_nil_r, <- HT.
        rewrite render_cons. rewrite <- !app_assoc. reflexivity.
      + rewrite otexts_app by exact Hl. simpl. rewrite Htx, app_nil_r, app_length. exact HP2.
      + constructor; [apply token_value_ok|exact Hok].
      + constructor; [apply token_value_ok|exact Hch].
      + exact Hwr.
    - (* reduce *)
      subst c'. simpl. exists evs. split; [reflexivity|]. intros Hev.
      unfold rflat_step in Hrf. rewrite Hnr in Hrf.
      set (n := length rhs) in *.
      set (trsA := firstn n trs). set (trsB := skipn n trs).
      assert (Etrs : trs = trsA ++ trsB) by (symmetry; apply firstn_skipn).
      assert (HvA : firstn n (c_vals c) = map tv trsA) by (rewrite <- Hv; apply firstn_map).
      assert (HvB : skipn n (c_vals c) = map tv trsB) by (rewrite <- Hv; apply skipn_map).
      assert (HrA : Forall vrel (rev trsA)) by (apply Forall_rev, Forall_firstn, Hrel).
      assert (HrB : Forall vrel (rev trsB)) by (apply Forall_rev, Forall_skipn, Hrel).
      remember (rev trsA) as A eqn:EA. remember (rev trsB) as B eqn:EB.
      assert (Eargs : rev (firstn n (c_vals c)) = map tv A) by (rewrite HvA, EA, map_rev; reflexivity).
      assert (Evals : rev (c_vals c) = map tv B ++ map tv A).
      { rewrite <- (firstn_skipn n (c_vals c)), rev_app_distr, HvA, HvB, EA, EB, !map_rev. reflexivity. }
      assert (Eos : rev (map tor trs) = map tor B ++ map tor A).
      { rewrite Etrs, map_app, rev_app_distr, EA, EB, !map_rev. reflexivity. }
      assert (Esegs : concat (rev (map tseg trs)) = concat (map tseg B) ++ concat (map tseg A)).
      { rewrite Etrs, map_app, rev_app_distr, concat_app, EA, EB, !map_rev. reflexivity. }
      rewrite Eargs in Hrun, Hrf. rewrite Evals, Eos in HA, HT, HP. rewrite Esegs in Ht.
      assert (HlB : length (map tv B) = length (map tor B)) by (rewrite !map_length; reflexivity).
      apply (oargs_ok_app _ _ _ _ _ HlB) in HA. destruct HA as [HA1 HA2].
      destruct (run_action_ospans _ _ _ _ _ _ Hrun Hev Hrf HA2) as [o [Hov Htx]].
      assert (HokA : Forall val_ok (map tv A)) by (rewrite <- Eargs; apply Forall_rev, Forall_firstn, Hok).
      assert (HchA : Forall children_ok (map tv A)) by (rewrite <- Eargs; apply Forall_rev, Forall_firstn, Hch).
      destruct (run_action_respell _ _ _ _ Hrun Hev HokA HchA) as [[args' [Hrelr Htxt]] [H2 [H3 H4]]].
      destruct (run_action_ht _ _ _ _ Hrun) as [Hane [Hhd Htl]].
      assert (HAne : A <> []) by (intros E; apply Hane; rewrite E; reflexivity).
      pose proof (links_of _ HrA) as Hla.
      set (segA := concat (map tseg A)) in *.
      assert (Hlink : link v segA).
      { destruct H4 as [[i Hi]|Hargs].
        - subst v. split; [|split; [|exact I]].
          + rewrite Htxt. eapply links_args_rel; eassumption.
          + apply Forall_concat. eapply links_wf. exact Hla.
        - rewrite Hargs in Hla. destruct A as [|x [|y A']]; simpl in Hla, Hargs; try discriminate.
          inversion Hla as [|? sg ? ? Hlv Hnil]. injection Hargs as Hargs.
          unfold segA. simpl. rewrite app_nil_r. exact Hlv. }
      assert (HsegA : segA <> []) by (apply concat_segs_nonempty; assumption).
      assert (HE1 : ofull_sv v o = render segA) by (rewrite Htx; apply otexts_render; exact HrA).
      assert (HtextB : otexts (map tv B) (map tor B) = render (concat (map tseg B))) by (apply otexts_render; exact HrB).
      assert (Hhp : exists h2, fhead segA = sv_head v ++ h2).
      { destruct Hhd as [E|E]; [rewrite E; eexists; reflexivity|]. rewrite E.
        destruct A as [|x A']; [congruence|]. simpl hd. inversion HrA as [|? ? [_ [Hx [_ [[h2 Eh] _]]]] _].
        exists h2. unfold segA. simpl. rewrite fhead_app by exact Hx. exact Eh. }
      assert (Htp : exists t1, ltail segA = t1 ++ sv_tail v).
      { destruct Htl as [E|E]; [rewrite E; exists (ltail segA); rewrite app_nil_r; reflexivity|]. rewrite E.
        destruct (exists_last HAne) as [A' [y Ey]]. rewrite Ey, map_app. simpl map. rewrite last_last.
        rewrite Ey in HrA. apply Forall_app in HrA. destruct HrA as [_ HrA].
        inversion HrA as [|? ? [_ [Hy [_ [_ [[t1 Et1] _]]]]] _].
        exists t1. unfold segA. rewrite Ey, map_app, concat_app. simpl. rewrite app_nil_r.
        rewrite ltail_app by exact Hy. exact Et1. }
      assert (HargP : argP v).
      { pose proof (run_action_allsub s toks0 _ _ _ _ Hrun (argPs_of _ HrA)) as Hres.
        destruct v as [r|l x m]; [|exact Hres]. simpl in Hres |- *. apply Hres.
        unfold osv_ok in Hov. simpl osv_node_ok in Hov. unfold sv_head in *. simpl sv_meta in *.
        destruct (proj1 (onode_ok_unfold _ _ _) Hov) as [Hnn [Hpos [Hsize _]]].
        apply (value_nodeR r o segA (concat (map tseg B)) (c_toks c)
                 (0 + zlen (otexts (map tv B) (map tor B)))%Z).
        - rewrite <- Ht. rewrite <- app_assoc. reflexivity.
        - exact HsegA.
        - exact Hnn.
        - exact Hlink.
        - exact HE1.
        - exact Hhp.
        - exact Htp.
        - exact Hpos.
        - exact Hsize.
        - exists (otexts (map tv B) (map tor B)), (render (c_toks c) ++ err_rest lexerr).
          split; [|lia]. rewrite <- HT. rewrite otexts_app by exact HlB.
          change (head_of r ++ o ++ tail_of r) with (ofull_sv (VItem r) o). rewrite Htx, <- !app_assoc. reflexivity.
        - rewrite HtextB. lia. }
      exists ((v, segA, o) :: trsB). simpl.
      split; [rewrite HvB; reflexivity|]. split; [|split; [|split; [|split; [|split; [|split; [|split]]]]]].
      + constructor; [|apply Forall_skipn; exact Hrel]. unfold vrel, tv, tseg, tor. simpl. auto 8.
      + rewrite <- Ht. rewrite concat_app. simpl. rewrite <- map_rev, <- EB.
        rewrite app_nil_r, <- !app_assoc. reflexivity.
      + rewrite HvB. rewrite <- !map_rev, <- EB.
        apply oargs_ok_app; [exact HlB|]. split; [exact HA1|]. simpl. split; [exact Hov|exact I].
      + rewrite HvB. rewrite <- !map_rev, <- EB.
        rewrite otexts_app by exact HlB. simpl. rewrite app_nil_r, Htx. rewrite otexts_app in HT by exact HlB. exact HT.
      + rewrite HvB. rewrite <- !map_rev, <- EB.
        rewrite otexts_app by exact HlB. simpl. rewrite app_nil_r, Htx. rewrite otexts_app in HP by exact HlB. exact HP.
      + constructor; [exact H2|apply Forall_skipn; exact Hok].
      + constructor; [exact H3|apply Forall_skipn; exact Hch].
      + exact Hwf.
  Qed.

  Lemma arun lexerr : forall fuel c t evs,
    run tb lexerr fuel c = Done (Ok t) evs -> AInv lexerr c -> rflat_run tb lexerr fuel c = false ->
    (forall evs', evs = c_dropped c ++ evs' -> Forall ev_ok evs') ->
    allsub both t.
  Proof.
    induction fuel as [|f IH]; intros c t evs H HI Hrf Hev; simpl in H; [discriminate|].
    simpl in Hrf. apply Bool.orb_false_iff in Hrf. destruct Hrf as [Hrf1 Hrf2].
    destruct (step tb lexerr c) as [c'|r evs1] eqn:Hs.
    - destruct (astep_next _ _ _ Hs HI Hrf1) as [evs2 [Hd HI']].
      destruct (run_dropped_prefix _ _ _ _ _ _ H) as [rest Hrest].
      assert (Ha : Forall ev_ok (evs2 ++ rest)) by (apply Hev; rewrite Hrest, Hd, <- app_assoc; reflexivity).
      apply Forall_app in Ha. eapply IH; [exact H|apply HI'; apply Ha|exact Hrf2|].
      intros evs' He. specialize (Hev (evs2 ++ evs')).
      assert (Hb : Forall ev_ok (evs2 ++ evs')) by (apply Hev; rewrite He, Hd, <- app_assoc; reflexivity).
      apply Forall_app in Hb. apply Hb.
    - inversion H; subst; clear H. destruct (step_final _ _ _ _ _ Hs) as [below [Hv _]].
      destruct HI as [trs [Hm [Hrel _]]]. rewrite Hv in Hm.
      destruct trs as [|x trs']; [discriminate|]. simpl in Hm. injection Hm as Hx _.
      inversion Hrel as [|? ? [_ [_ [_ [_ [_ HA]]]]] _]; subst. rewrite Hx in HA. exact HA.
  Qed.
End AnyTablesA.

(* ================================================================ 6. the parsed tree, node by node *)

Local Open Scope Z_scope.

Lemma onode_everywhere s : forall q n p o d,
  onode_ok p n o -> at_off s (p - zlen (head_of n)) (ofull n o) -> subtree_at n q = Some d ->
  exists pd od, onode_ok pd d od /\ at_off s (pd - zlen (head_of d)) (ofull d od).
Proof.
  induction q as [|i q IH]; intros n p o d Hn Hat Hsub; simpl in Hsub.
  - inversion Hsub; subst. eauto.
  - destruct (nth_error (children n) i) as [c|] eqn:Hc; [|discriminate].
    destruct (onode_child _ _ _ _ _ _ Hn Hat Hc) as [pc [oc [H1 H2]]]. eapply IH; eauto.
Qed.

(* THE TOKEN-LEVEL CLAUSE for one node: its two spans lie in the input; the inner slice is exactly the text of a
   contiguous non-empty run `seg` of the tokens of s between two pieces of blank (and starts |h2| characters
   before the first lexeme of the run); the widened slice adds the node's (blank) head and tail; each slice,
   lexed in isolation, gives the (type, lexeme) sequence of that run; and the printed forms are the slices'
   tokens rendered with APPROX / BOOST numerals possibly re-spelled (C01.respelled). *)
Definition located_t (s : str) (n : item) : Prop :=
  exists a b a' b' pre seg post h2 t1,
    span false n = Some (a, b) /\ span true n = Some (a', b') /\
    (0 <= a' /\ a' <= a /\ a <= b /\ b <= b' /\ b' <= zlen s) /\
    fst (lex s) = pre ++ seg ++ post /\ seg <> [] /\
    all_space h2 = true /\ all_space t1 = true /\
    slice s a b = h2 ++ group_text seg ++ t1 /\
    a + zlen h2 = Z.of_nat (fpos seg) /\
    slice s a' b' = head_of n ++ slice s a b ++ tail_of n /\
    all_space (head_of n) = true /\ all_space (tail_of n) = true /\
    map tok_key (fst (lex (slice s a b))) = map tok_key seg /\
    map tok_key (fst (lex (slice s a' b'))) = map tok_key seg /\
    respelled (slice s a b) (print false n) /\ respelled (slice s a' b') (print true n).

Lemma segment_respelled s pre seg post seg' H T :
  lex s = (pre ++ seg ++ post, None) -> seg <> [] -> all_space H = true -> all_space T = true ->
  Forall2 same_but_numeral seg seg' ->
  map tok_key (fst (lex (H ++ group_text seg ++ T))) = map tok_key seg /\
  respelled (H ++ group_text seg ++ T) (H ++ group_text seg' ++ T).
Proof.
  intros Hlex Hne HH HT Hf.
  destruct (lex_segment _ _ _ _ _ _ Hlex Hne HH HT) as [toksN [HlexN HsameN]].
  split.
  - rewrite HlexN. simpl. rewrite (same_text_keys _ _ HsameN). apply trim_keys.
  - exists toksN, (trim H T seg'). split; [exact HlexN|]. split.
    + eapply same_text_sbn; [exact HsameN|]. apply sbn_trim. exact Hf.
    + symmetry. apply render_trim. eapply sbn_nonempty; eassumption.
Qed.

Theorem node_located_t s toks t o :
  lex s = (toks, None) -> allsub (both s toks) t ->
  onode_ok (zlen (head_of t)) t o -> ofull t o = s ->
  forall q d, subtree_at t q = Some d -> located_t s d.
Proof.
  intros Hlex Hall Hroot Hfull q d Hsub.
  destruct (Hall q d Hsub) as [[p [od [Hpos [Hsize [Hat Hal]]]]] [Hb1 Hb2]].
  assert (Hat0 : at_off s (zlen (head_of t) - zlen (head_of t)) (ofull t o)).
  { exists [], []. rewrite app_nil_r. simpl. split; [symmetry; exact Hfull|]. unfold zlen; simpl; lia. }
  destruct (onode_everywhere s q t _ o d Hroot Hat0 Hsub) as [pd [od' [Hnd Hatd]]].
  pose proof (onode_ok_not_none _ _ _ Hnd) as Hnn.
  destruct (proj1 (onode_ok_unfold _ _ _) Hnd) as [_ [Hpos' [Hsize' _]]].
  rewrite Hpos in Hpos'. injection Hpos' as Ep. subst pd.
  rewrite Hsize in Hsize'. injection Hsize' as Esz.
  assert (Eod : od' = od).
  { unfold ofull in Hatd. pose proof (at_off_inner _ _ _ _ _ Hatd) as Hx.
    replace (p - zlen (head_of d) + zlen (head_of d)) with p in Hx by lia.
    eapply at_off_unique; [exact Hx|exact Hat|]. unfold zlen in Esz. lia. }
  subst od'.
  destruct (onode_span _ _ _ Hnd) as [Hsf Hst].
  destruct (at_off_slice _ _ _ Hat) as [Hs1 [Hlo1 Hhi1]].
  destruct (at_off_slice _ _ _ Hatd) as [Hs2 [Hlo2 Hhi2]].
  rewrite ofull_len in Hs2, Hhi2.
  destruct Hal as [pre [seg [post [seg' [h1 [h2 [t1 [t2 [Et [Hne [Hf [Eh [Etl [Epos [Eo EP]]]]]]]]]]]]]]].
  assert (Hbl : Forall blank_ht toks).
  { apply (lex_blank s); [exact Hlex|]. rewrite Et. intros E. apply app_eq_nil in E. destruct E as [_ E].
    apply app_eq_nil in E. destruct E; congruence. }
  assert (Hbseg : Forall blank_ht seg).
  { rewrite Et in Hbl. apply Forall_app in Hbl. destruct Hbl as [_ Hbl]. apply Forall_app in Hbl. apply Hbl. }
  pose proof (blank_fhead _ Hbseg) as Hbh. rewrite Eh in Hbh. apply all_space_app_inv in Hbh. destruct Hbh as [_ Hh2].
  pose proof (blank_ltail _ Hbseg) as Hbt. rewrite Etl in Hbt. apply all_space_app_inv in Hbt. destruct Hbt as [Ht1 _].
  rewrite Et in Hlex.
  destruct (segment_respelled _ _ _ _ _ _ _ Hlex Hne Hh2 Ht1 Hf) as [Hk1 Hr1].
  assert (HH : all_space (head_of d ++ h2) = true) by (rewrite all_space_app, Hb1, Hh2; reflexivity).
  assert (HT : all_space (t1 ++ tail_of d) = true) by (rewrite all_space_app, Ht1, Hb2; reflexivity).
  destruct (segment_respelled _ _ _ _ _ _ _ Hlex Hne HH HT Hf) as [Hk2 Hr2].
  assert (Ew : forall g, (head_of d ++ h2) ++ g ++ t1 ++ tail_of d = head_of d ++ (h2 ++ g ++ t1) ++ tail_of d).
  { intros g. rewrite <- !app_assoc. reflexivity. }
  rewrite (Ew (group_text seg)) in Hk2, Hr2. rewrite (Ew (group_text seg')) in Hr2. rewrite <- Eo in Hk1, Hr1, Hk2, Hr2. rewrite <- EP in Hr1, Hr2.
  rewrite <- (print_true_split d Hnn) in Hr2.
  assert (Esl2 : slice s (p - zlen (head_of d)) (p + zlen od + zlen (tail_of d)) = head_of d ++ od ++ tail_of d).
  { etransitivity; [|exact Hs2]. f_equal; lia. }
  pose proof (zlen_nonneg (head_of d)). pose proof (zlen_nonneg (tail_of d)). pose proof (zlen_nonneg od).
  exists p, (p + zlen od), (p - zlen (head_of d)), (p + zlen od + zlen (tail_of d)), pre, seg, post, h2, t1.
  split; [exact Hsf|]. split; [exact Hst|]. split; [lia|].
  split; [rewrite Hlex; reflexivity|]. split; [exact Hne|]. split; [exact Hh2|]. split; [exact Ht1|].
  rewrite Hs1, Esl2.
  split; [exact Eo|]. split.
  { destruct seg as [|t0 seg0]; [congruence|]. simpl fpos.
    pose proof (lex_pos _ _ _ Hlex) as Hpp. change (pre ++ (t0 :: seg0) ++ post) with (pre ++ t0 :: seg0 ++ post) in Hpp.
    rewrite (toks_pos_at _ _ _ _ Hpp). simpl in Eh. rewrite Eh, app_length. unfold zlen in *. lia. }
  split; [reflexivity|]. split; [exact Hb1|]. split; [exact Hb2|].
  split; [exact Hk1|]. split; [exact Hk2|]. split; [exact Hr1|exact Hr2].
Qed.

Local Close Scope Z_scope.

(* ================================================================ 7. the driver, any tables *)

Theorem parse_with_located_t tb s t evs :
  parse_with tb s = Done (Ok t) evs -> Forall ev_ok evs -> parse_rflat tb s = false ->
  forall q d, subtree_at t q = Some d -> located_t s d.
Proof.
  intros H Hev Hrf.
  destruct (parse_with_respelled _ _ _ _ H Hev) as [toks [_ [Hlex _]]].
  unfold parse_with in H. unfold parse_rflat in Hrf. rewrite Hlex in H, Hrf.
  destruct (run_dropped_prefix _ _ _ _ _ _ H) as [rest Hrest]. simpl in Hrest.
  assert (Htext : render toks ++ err_rest None = s).
  { destruct toks as [|t0 toks'].
    - subst evs. apply Forall_cons_iff in Hev. destruct Hev as [E _]. simpl in E. subst s. reflexivity.
    - apply (lex_lossless s (t0 :: toks') None Hlex). discriminate. }
  assert (Hevs : forall evs', evs = c_dropped (init_config toks match toks with [] => [GDrop s] | _ :: _ => [] end) ++ evs' ->
                 Forall ev_ok evs').
  { intros evs' He. simpl in He. subst evs. apply app_inv_head in He. subst evs'. apply Forall_app in Hev. apply Hev. }
  assert (Hbl : Forall blank_ht toks).
  { destruct toks as [|t0 toks']; [constructor|]. apply (lex_blank s); [exact Hlex|discriminate]. }
  destruct (lex_heads _ _ Hlex) as [Hh _].
  assert (Hall : allsub (both s toks) t).
  { eapply (arun tb s toks Hh Hbl None); [exact H| |exact Hrf|exact Hevs].
    exists []. unfold init_config. simpl. split; [reflexivity|]. split; [constructor|]. split; [reflexivity|].
    split; [exact I|]. split; [exact Htext|]. split; [eapply lex_pos; exact Hlex|].
    split; [constructor|]. split; [constructor|]. eapply lex_tokens_wf. exact Hlex. }
  destruct (orun tb s None _ _ _ _ H) as [o [Hn Ho]]; [|exact Hrf|exact Hevs|].
  - exists []. unfold init_config. simpl. split; [exact I|]. split; [exact Htext|]. eapply lex_pos. exact Hlex.
  - exact (node_located_t s toks t o Hlex Hall Hn Ho).
Qed.

(* generated tables: the only guard is "no text was dropped" *)
Theorem parse_located_t s t :
  parse s = Some (Ok t) -> dropped_texts s = [] ->
  forall q d, subtree_at t q = Some d -> located_t s d.
Proof.
  unfold parse. destruct (parse_full s) as [r evs|] eqn:Hp; [|discriminate]. intros E Hd. inversion E; subst.
  eapply parse_with_located_t; [exact Hp| |apply gen_no_rflat].
  apply ev_ok_of_respell_ok; [eapply parse_full_respell_ok; exact Hp|eapply dropped_texts_nil; eassumption].
Qed.
