(* C16 — Match propagation marks a sub-expression as matching exactly when it is true.
   Only statements, `exact`-closed theorems, non-vacuity examples and Print Assumptions.
   Model of the code: model/Propagate.v (class tests through the generated OR_NODES /
   NEGATION_NODES / NO_CHILDREN_PROPAGATE tuples and MROs).  Vocabulary of the property
   (sub-expressions, boolean evaluation `ev`, the premise `reported`): model/PropagateSpec.v.
   Lemmas: proofs/PropagateProofs.v.

   Property text                                          statement
   ---------------------------------------------------    ------------------------------------------
   "classifies every sub-expression of the query (other   C16_classified_once   (no premise needed)
    than range bounds and the term inside a
    fuzzy/proximity) exactly once"
   "as matching precisely when it evaluates to true       C16_matching_iff_true  — in full (no guard:
    under boolean semantics: AND all, OR any, implicit     since /repo 831a694 an operation with zero
    operation the configured default, NOT and -            operands is any([]) / all([]) like any other;
    negation, every other construct the value of its       regression: C16_empty_operations_boolean and
    operand"                                               the examples on the former witnesses)
   "Given, for each named element, whether the term it    premise `reported sigma t matching other`
    covers matched ... whenever no negation lies           (PropagateSpec.v)
    strictly between a named element and the term it
    covers"
   "all trees x all truth assignments x both default      forall t, sigma, and any default_operation
    operations"                                            class d (only `d is OrOperation` matters)
   mechanism "names to matching / other path sets"        C16_matching_from_names, C16_named_elements
   all of it together with the C15 names                  C16_end_to_end
   results of earlier calls stay valid (one instance,     C16_calls_independent (pure model) + the
    many calls)                                            call-history oracle of harness/c16.py
   (C16_matching_iff_true_partial: the former guarded statement, now a corollary, kept so that
    references to it stay valid.  The same conclusion under the wider premise: props/C16w.v) *)
Require Import Base Decimal Tree GenTree GenVisitors GenNaming Visitor Naming TreeInd
               NamingProofs Propagate PropagateSpec PropagateProofs.

(* the configured default operation is OrOperation *)
Definition dflt_or (d : cls) : bool := cls_eqb d COrOperation.

(* ---- statements *)

(* every sub-expression (every path of the tree not strictly below a Range / Fuzzy / Proximity,
   see C16_subexpressions_are_paths) is put in exactly one of the two result sets, exactly once;
   nothing else is.  Holds for any matching / other whatsoever. *)
Definition C16_classified_once_statement : Prop :=
  forall d t matching other ok ko,
    propagate d matching other t = (ok, ko) ->
    NoDup (ok ++ ko) /\ (forall p, In p (ok ++ ko) <-> classified t p).

Definition C16_subexpressions_are_paths_statement : Prop :=
  forall t p n,
    subexpr_at t p = Some n <->
    subtree_at t p = Some n /\
    (forall q r x, p = q ++ r -> r <> [] -> subtree_at t q = Some x -> atomic x = false).

(* a sub-expression is classified as matching iff it evaluates to true, as non matching iff it
   evaluates to false *)
Definition matching_iff_true (d : cls) (sigma : path -> bool) (t : item) (ok ko : list path) : Prop :=
  (forall p, In p ok <-> exists n, subexpr_at t p = Some n /\ ev (dflt_or d) sigma n p = true) /\
  (forall p, In p ko <-> exists n, subexpr_at t p = Some n /\ ev (dflt_or d) sigma n p = false).

Definition C16_matching_iff_true_statement : Prop :=
  forall d sigma t matching other ok ko,
    reported sigma t matching other ->
    propagate d matching other t = (ok, ko) ->
    matching_iff_true d sigma t ok ko.

(* the former guarded statement (guard: no operation evaluated with `all` has zero operands).
   Before /repo 831a694 such a node — `all([]) = True` under boolean semantics — had no operand
   status to combine, fell back to _status_from_parent and was classified as non matching.  Now a
   corollary of C16_matching_iff_true. *)
Definition C16_matching_iff_true_partial_statement : Prop :=
  forall d sigma t matching other ok ko,
    no_empty_all (dflt_or d) t ->
    reported sigma t matching other ->
    propagate d matching other t = (ok, ko) ->
    matching_iff_true d sigma t ok ko.

(* matching_from_names: `matching` are the paths of the reported names, `other` the remaining
   paths of the name -> path mapping (so matching ∪ other = all named paths) *)
Definition C16_matching_from_names_statement : Prop :=
  forall names m matching other,
    matching_from_names names m = Some (matching, other) ->
    (forall p, In p matching <-> exists nm, In nm names /\ lookup_name m nm = Some p) /\
    (forall p, In p other <-> In p (map snd m) /\ ~ In p matching).

(* with the names of auto_name (C15), the elements whose path is in matching ∪ other — the
   "named elements" of the premise `reported` — are exactly the elements carrying a name *)
Definition C16_named_elements_statement : Prop :=
  forall t t' m names matching other,
    unnamed t -> auto_name t = Some (t', m) ->
    matching_from_names names m = Some (matching, other) ->
    forall q, In q (matching ++ other) <-> exists nm, name_at t' q = Some nm.

(* regression clause for the repaired defect: an operation with ZERO operands is classified from
   its own kind alone — matching iff it is an all-operation (AndOperation, BoolOperation, an
   implicit operation when the default is not OrOperation), i.e. iff all([]) / any([]) is true —
   whatever matching / other say about the elements around it (no premise at all).  Only its own
   path being in `matching` overrides this (then it is matching, like any node). *)
Definition C16_empty_operations_boolean_statement : Prop :=
  forall d t matching other ok ko r k m,
    propagate d matching other t = (ok, ko) ->
    subexpr_at t r = Some (Op k m []) ->
    (In r ok <-> In r matching \/ or_like (dflt_or d) k = false) /\
    (In r ko <-> ~ In r matching /\ or_like (dflt_or d) k = true) /\
    (forall sigma, ev (dflt_or d) sigma (Op k m []) r = negb (or_like (dflt_or d) k)).

(* end to end with the names of auto_name (C15): when the engine reports exactly the named
   elements whose covered term is true (`report`, PropagateSpec.v), propagation computes the truth
   value of every sub-expression — provided every named element is a sub-expression (no
   operation inside a range / fuzzy / proximity) and no negation lies strictly between a reported
   element and its term *)
Definition C16_end_to_end_statement : Prop :=
  forall d sigma t t' m ok ko,
    auto_name t = Some (t', m) ->
    (forall q, In q (map snd m) -> classified t q) ->
    (forall q n, In q (map snd m) -> subexpr_at t q = Some n -> elem_true sigma t q = true ->
                 neg_between n = false) ->
    propagate d (fst (report sigma t (map snd m))) (snd (report sigma t (map snd m))) t = (ok, ko) ->
    matching_iff_true d sigma t ok ko.

(* history clause: call number k of one propagator instance returns what a fresh propagator returns
   for those arguments (trivial in the pure model: the code keeps nothing on the instance between
   calls).  What ties it to the code: the call-history oracle of harness/c16.py — one instance per
   default operation reused for 5 calls in a row, every returned pair kept and re-checked after the
   history against a copy taken right after its own call and against boolean evaluation, and
   compared with a fresh instance on every call. *)
Definition C16_calls_independent_statement : Prop :=
  forall d calls k t mt ot, nth_error calls k = Some (t, mt, ot) ->
    nth_error (propagate_calls d calls) k = Some (propagate d mt ot t).

(* ---- theorems *)

Theorem C16_calls_independent : C16_calls_independent_statement.
Proof.
  intros d calls k t mt ot H. unfold propagate_calls.
  rewrite (map_nth_error _ _ _ H). reflexivity.
Qed.

Theorem C16_classified_once : C16_classified_once_statement.
Proof. intros d t M O ok ko H. exact (propagate_partition d M O t ok ko H). Qed.

Theorem C16_subexpressions_are_paths : C16_subexpressions_are_paths_statement.
Proof. intros t p n. exact (subexpr_at_subtree p t n). Qed.

Theorem C16_matching_iff_true : C16_matching_iff_true_statement.
Proof.
  intros d sigma t M O ok ko Hrep H.
  pose proof (reported_good d M O sigma t Hrep) as Hg. split.
  - exact (propagate_status d M O sigma t ok ko Hg H).
  - exact (propagate_status_ko d M O sigma t ok ko Hg H).
Qed.

Theorem C16_matching_iff_true_partial : C16_matching_iff_true_partial_statement.
Proof. intros d sigma t M O ok ko _ Hrep H. exact (C16_matching_iff_true d sigma t M O ok ko Hrep H). Qed.

Theorem C16_empty_operations_boolean : C16_empty_operations_boolean_statement.
Proof.
  intros d t M O ok ko r k m H Hs.
  destruct (propagate_empty_operation d M O t ok ko r k m H Hs) as [Hok Hko].
  split; [exact Hok|]. split; [exact Hko|].
  intros sigma. simpl. destruct (or_like (dflt_or d) k); reflexivity.
Qed.

Theorem C16_matching_from_names : C16_matching_from_names_statement.
Proof. intros names m mt ot H. exact (matching_from_names_spec names m mt ot H). Qed.

Lemma gen_letters_nonempty : gen_letters <> [].
Proof. vm_compute. discriminate. Qed.

Theorem C16_named_elements : C16_named_elements_statement.
Proof.
  intros t t' m names mt ot Hu Ha H q.
  rewrite (matching_from_names_union names m mt ot H q), in_map_iff.
  pose proof (proj1 (proj2 (auto_name_with_spec gen_letters gen_letters_nonempty namer_handles t t' m Ha)) Hu)
    as Hex.
  split.
  - intros [[nm q'] [Hq Hin]]. simpl in Hq. subst q'. exists nm. apply Hex. exact Hin.
  - intros [nm Hnm]. exists (nm, q). split; [reflexivity|]. apply Hex. exact Hnm.
Qed.

Theorem C16_end_to_end : C16_end_to_end_statement.
Proof.
  intros d sigma t t' m ok ko Ha Hcl Hneg H.
  exact (C16_matching_iff_true d sigma t _ _ ok ko
           (auto_name_reported sigma t t' m Ha Hcl Hneg) H).
Qed.

(* ---- regression on the former witnesses of the defect repaired in /repo 831a694 (they refuted
   the unguarded statement of the model of the old code: C16_matching_iff_true_refuted, and in
   props/C16w.v C16w_old_guard_refuted / C16w_guard_necessary).  On each the classification is now
   the boolean evaluation, computed here independently by `ev` over all sub-expressions. *)
Definition empty_and : item := Op KAnd meta0 [].

(* the two result sets according to boolean evaluation (pre-order) *)
Definition ev_sets (d : cls) (sigma : path -> bool) (t : item) : list path * list path :=
  (map fst (filter (fun qn => ev (dflt_or d) sigma (snd qn) (fst qn)) (cnodes t [])),
   map fst (filter (fun qn => negb (ev (dflt_or d) sigma (snd qn) (fst qn))) (cnodes t []))).
Definition same_set (a b : list path) : bool :=
  forallb (fun p => mem_path p b) a && forallb (fun p => mem_path p a) b.
Definition same_sets (x y : list path * list path) : bool :=
  same_set (fst x) (fst y) && same_set (snd x) (snd y).

(* AndOperation() — all([]) = True.  Old code: MatchingPropagator(OrOperation)(AndOperation(), set(),
   set()) == (set(), {()}) (likewise with other = {()}, the name of auto_name not reported).
   Replayed on the repaired code: == ({()}, set()) for both. *)
Example C16_regression_empty_and :
  reported (fun _ => true) empty_and [] [[]] /\
  propagate COrOperation [] [] empty_and = ([[]], []) /\
  propagate COrOperation [] [[]] empty_and = ([[]], []) /\
  propagate CAndOperation [] [[]] empty_and = ([[]], []) /\
  ev_sets COrOperation (fun _ => true) empty_and = ([[]], []).
Proof.
  split; [apply reported_b_sound; vm_compute; reflexivity|].
  repeat split; vm_compute; reflexivity.
Qed.

(* every kind of zero-operand operation at the root, both defaults, named and not reported *)
Example C16_regression_empty_kinds :
  propagate COrOperation [] [[]] (Op KOr meta0 []) = ([], [[]]) /\
  propagate COrOperation [] [[]] (Op KUnknown meta0 []) = ([], [[]]) /\
  propagate CAndOperation [] [[]] (Op KUnknown meta0 []) = ([[]], []) /\
  propagate COrOperation [] [[]] (Op KBool meta0 []) = ([[]], []) /\
  propagate CAndOperation [] [[]] (Op KOr meta0 []) = ([], [[]]).
Proof. repeat split; vm_compute; reflexivity. Qed.

(* a AND (AndOperation()), names of auto_name a -> [0], b -> [1] (the group); a matches: everything
   is true.  Old code: paths_ok == {(0,)} only.
   Replayed on the repaired code:  MatchingPropagator(OrOperation)(AndOperation(Word('a'),
     Group(AndOperation())), {(0,)}, {(1,)}) == ({(0,), (1, 0), (1,), ()}, set()) *)
Definition and_group_empty_and : item :=
  Op KAnd meta0 [Term KWord meta0 [97%N]; Grp KGroup meta0 (Op KAnd meta0 [])].

Example C16_regression_and_group_empty_and :
  (exists t' m, auto_name and_group_empty_and = Some (t', m) /\
     report (fun _ => true) and_group_empty_and (map snd m) = ([[0]], [[1]])) /\
  reported (fun _ => true) and_group_empty_and [[0]] [[1]] /\
  ~ no_empty_all true and_group_empty_and /\
  propagate COrOperation [[0]] [[1]] and_group_empty_and = ([[0]; [1; 0]; [1]; []], []) /\
  same_sets (propagate COrOperation [[0]] [[1]] and_group_empty_and)
            (ev_sets COrOperation (fun _ => true) and_group_empty_and) = true.
Proof.
  split; [eexists; eexists; split; vm_compute; reflexivity|].
  split; [apply reported_b_sound; vm_compute; reflexivity|].
  split; [intros H; specialize (H [1; 0] KAnd meta0 eq_refl); discriminate|].
  split; vm_compute; reflexivity.
Qed.

(* NOT NOT OrOperation(), the root reported as matching (matching = {()}: outside the narrow premise,
   inside the wide one, see props/C16w.v).  Old code: ({(0, 0)}, {(0,), ()}) — the empty OR inherited
   True from the root.  Repaired code: any([]) = False, so (0,) is true and () false:
     MatchingPropagator(OrOperation)(Not(Not(OrOperation())), {()}, set()) == ({(0,)}, {(0, 0), ()}) *)
Definition not_not_or : item := Unary KNot meta0 (Unary KNot meta0 (Op KOr meta0 [])).

Example C16_regression_not_not_or :
  propagate COrOperation [[]] [] not_not_or = ([[0]], [[0; 0]; []]) /\
  same_sets (propagate COrOperation [[]] [] not_not_or)
            (ev_sets COrOperation (fun _ => true) not_not_or) = true.
Proof. split; vm_compute; reflexivity. Qed.

(* a OR OrOperation(), the root and `a` reported as matching.  Old code: ({(0,), (1,), ()}, set()).
   Repaired code:  MatchingPropagator(OrOperation)(OrOperation(Word('a'), OrOperation()),
     {(), (0,)}, set()) == ({(0,), ()}, {(1,)}) *)
Definition or_empty : item := Op KOr meta0 [Term KWord meta0 [97%N]; Op KOr meta0 []].

Example C16_regression_or_empty :
  propagate COrOperation [[]; [0]] [] or_empty = ([[0]; []], [[1]]) /\
  same_sets (propagate COrOperation [[]; [0]] [] or_empty)
            (ev_sets COrOperation (fun _ => true) or_empty) = true.
Proof. split; vm_compute; reflexivity. Qed.

(* ---- non-vacuity.  The query  (a AND (b OR -c)) f:(x y)  named by the C15 model of auto_name;
   a, c, x match; the names reported are those of a, -c and x. *)
Definition w (c : N) : item := Term KWord meta0 [c].
Definition ex_tree : item :=
  Op KUnknown meta0
    [Op KAnd meta0 [w 97%N; Grp KGroup meta0 (Op KOr meta0 [w 98%N; Unary KProhibit meta0 (w 99%N)])];
     SearchField meta0 [102%N] (Grp KFieldGroup meta0 (Op KUnknown meta0 [w 120%N; w 121%N]))].
Definition ex_sigma (p : path) : bool := mem_path p [[0;0]; [0;1;0;1;0]; [1;0;0;0]].
Definition ex_matching : list path := [[0; 0]; [0; 1; 0; 1]; [1; 0; 0; 0]].
Definition ex_other : list path := [[0]; [1]; [0; 1]; [0; 1; 0; 0]; [1; 0; 0; 1]].

Example C16_nonvacuous :
  (exists t' m, auto_name ex_tree = Some (t', m) /\
     matching_from_names [[99%N]; [102%N]; [103%N]] m = Some (ex_matching, ex_other)) /\
  reported ex_sigma ex_tree ex_matching ex_other /\
  no_empty_all true ex_tree /\ no_empty_all false ex_tree /\
  (* default OrOperation: x y is true, so is the whole query *)
  propagate COrOperation ex_matching ex_other ex_tree =
    ([[0; 0]; [0; 1; 0; 1; 0]; [1; 0; 0; 0]; [1; 0; 0]; [1; 0]; [1]; []],
     [[0; 1; 0; 0]; [0; 1; 0; 1]; [0; 1; 0]; [0; 1]; [0]; [1; 0; 0; 1]]) /\
  (* default AndOperation: nothing above the three true leaves is true *)
  propagate CAndOperation ex_matching ex_other ex_tree =
    ([[0; 0]; [0; 1; 0; 1; 0]; [1; 0; 0; 0]],
     [[0; 1; 0; 0]; [0; 1; 0; 1]; [0; 1; 0]; [0; 1]; [0]; [1; 0; 0; 1]; [1; 0; 0]; [1; 0]; [1]; []]).
Proof.
  split; [eexists; eexists; split; vm_compute; reflexivity|].
  split; [apply reported_b_sound; vm_compute; reflexivity|].
  split; [apply no_empty_all_b_sound; vm_compute; reflexivity|].
  split; [apply no_empty_all_b_sound; vm_compute; reflexivity|].
  split; vm_compute; reflexivity.
Qed.

(* the premise is also satisfiable with a negation *below* a reported element being avoided:
   an element whose covered term is false may have a negation beneath it (NOT inside a group) *)
Example C16_nonvacuous_negation_below_unreported :
  let t := Op KAnd meta0 [w 97%N; Grp KGroup meta0 (Unary KNot meta0 (w 98%N))] in
  reported (fun p => mem_path p [[0]]) t [[0]] [[1]] /\
  propagate CAndOperation [[0]] [[1]] t = ([[0]; [1; 0]; [1]; []], [[1; 0; 0]]).
Proof. split; [apply reported_b_sound; vm_compute; reflexivity|vm_compute; reflexivity]. Qed.

(* the hypotheses of the end-to-end statement hold on the same example *)
Example C16_end_to_end_nonvacuous :
  exists t' m, auto_name ex_tree = Some (t', m) /\
    (forall q, In q (map snd m) -> classified ex_tree q) /\
    (forall q n, In q (map snd m) -> subexpr_at ex_tree q = Some n ->
                 elem_true ex_sigma ex_tree q = true -> neg_between n = false) /\
    report ex_sigma ex_tree (map snd m) = (ex_matching, ex_other).
Proof.
  eexists. eexists. split; [vm_compute; reflexivity|]. split; [|split].
  - intros q Hin. simpl in Hin.
    repeat (destruct Hin as [<-|Hin]; [eexists; reflexivity|]). contradiction.
  - intros q n Hin Hs _. simpl in Hin.
    repeat (destruct Hin as [<-|Hin]; [vm_compute in Hs; inversion Hs; reflexivity|]). contradiction.
  - vm_compute. reflexivity.
Qed.

Print Assumptions C16_classified_once.
Print Assumptions C16_subexpressions_are_paths.
Print Assumptions C16_matching_iff_true.
Print Assumptions C16_matching_iff_true_partial.
Print Assumptions C16_empty_operations_boolean.
Print Assumptions C16_matching_from_names.
Print Assumptions C16_named_elements.
Print Assumptions C16_end_to_end.
Print Assumptions C16_calls_independent.
