(* C12 — Open ranges convert to equivalent ranges; merging preserves the conjunction.
   Only statements, `exact`-closed theorems, non-vacuity examples and Print Assumptions.
   Model: model/OpenRange.v (OpenRangeTransformer over TreeTransformer.generic_visit, Eq.clone_item,
   Eq.item_eqb for `== WILDCARD_WORD`); vocabulary (Conv, merge_step, fully_merged, conj, wf_node) and
   lemmas: proofs/OpenRangeProofs.v.  The class MROs, `_equality_attrs` and the transformer's method
   table are the generated ones, so the theorems are re-checked against what the code says now.

   Clauses of the property text -> statements
     "replaces every <,<=,>,>= by a bracketed range with the same bound and inclusiveness and * on
      the other side ... and changes nothing else"            C12_conversion (+ C12_copy_drops_name_only)
     "leaves no comparison behind"                              C12_no_comparison_left
     (no exception)                                             C12_total
     "only one-sided ranges that are direct operands of the same AND are combined"
                                                                C12_merge_structure, C12_and_node
     "for every value of the field the conjunction holds before exactly when it holds after"
                                                                C12_and_node, C12_merge_steps_preserve_conjunction
     "ranges under OR or implicit operations, under different parents, or wrapped in a boost or field
      are never merged"                                         C12_plain_node, C12_and_node (non-range operands kept)
     "the input tree is not modified"                           not expressible in the value model: checked
                                                                by snapshot in harness/c12.py
   Value type: ANY type V with ANY relation `le` (total orders are a special case: no order law is
   needed); bounds are valued by any `bv : item -> option V` that makes `*` unbounded; operands that are
   not ranges are opaque atoms with any truth value `opq : item -> bool`. *)
Require Import Base Decimal Tree GenTree GenVisitors Visitor Eq Print OpenRange TreeInd OpenRangeProofs.

(* ---- tie obligation on generated data *)
Lemma open_range_methods_known_ok : open_range_methods_known = true.
Proof. vm_compute. reflexivity. Qed.

(* ---- statements *)

(* the transformer never raises *)
Definition C12_total_statement : Prop :=
  forall merge ah t, exists t', open_range merge ah t = Some t'.

(* no From/To anywhere in the output, with or without merging *)
Definition C12_no_comparison_left_statement : Prop :=
  forall merge ah t t', open_range merge ah t = Some t' -> has_openrange t' = false.

(* without merging the output is the input where exactly the comparisons became ranges (rules
   CV_from / CV_to of Conv) and every other node is its default copy over the converted children *)
Definition C12_conversion_statement : Prop :=
  forall ah t t', open_range false ah t = Some t' -> Conv false ah t t'.

(* what the default copy (clone_item) changes on a node as luqum's constructors build it: only the
   attached name is dropped; class, attributes (implicit degree / force included), pos, size, head
   and tail are the same *)
Definition C12_copy_drops_name_only_statement : Prop :=
  forall t, wf_node t -> clone_item t = Some (stripped t).

(* with merging: same relation, where the converted operands of each AND additionally go through
   merge steps (two one-sided Range operands of that very list, of opposite sides) until none applies *)
Definition C12_merge_structure_statement : Prop :=
  forall ah t t', open_range true ah t = Some t' -> Conv true ah t t'.

(* every AND node: its output operands come from its converted operands by merge steps only, nothing
   is left to merge, operands that are not ranges (boosted or fielded ranges, groups, ...) are all
   kept in order, and the conjunction has the same truth for every field value *)
Definition C12_and_node_statement : Prop :=
  forall ah m ops t', Conv true ah (Op KAnd m ops) t' ->
  exists ops1 ops',
    t' = Op KAnd (clone_meta m) ops' /\
    Forall2 (Conv true ah) ops ops1 /\
    merge_steps ops1 ops' /\ fully_merged ops' /\
    filter (fun c => negb (is_range c)) ops' = filter (fun c => negb (is_range c)) ops1 /\
    forall (V : Type) (le : V -> V -> bool) (bv : item -> option V) (opq : item -> bool),
      (forall b, is_wildcard b = true -> bv b = None) ->
      forall x, conj V le bv opq x ops1 = conj V le bv opq x ops'.

(* every node that is neither a comparison nor an AND (Or, Unknown, Bool operations, Boost,
   SearchField, groups, ...): same class, same layout, one output child per input child, in order *)
Definition C12_plain_node_statement : Prop :=
  forall merge ah t t', Conv merge ah t t' ->
    (forall k m a i, t <> ORange k m a i) ->
    (merge = false \/ forall m ops, t <> Op KAnd m ops) ->
    cls_of t' = cls_of t /\ meta_of t' = clone_meta (meta_of t) /\
    Forall2 (Conv merge ah) (children t) (children t').

(* any sequence of merge steps preserves the conjunction, for every value *)
Definition C12_merge_steps_preserve_conjunction_statement : Prop :=
  forall (V : Type) (le : V -> V -> bool) (bv : item -> option V) (opq : item -> bool),
    (forall b, is_wildcard b = true -> bv b = None) ->
    forall x l l', merge_steps l l' -> conj V le bv opq x l = conj V le bv opq x l'.

(* the wildcard test of the code (`== Word("*")` with luqum's __eq__) *)
Definition C12_wildcard_statement : Prop :=
  forall t, is_wildcard t = true <-> exists m, t = Term KWord m [42%N].

(* ---- proofs (lemmas live in proofs/OpenRangeProofs.v) *)
Theorem C12_total : C12_total_statement.
Proof. intros merge ah t. destruct (open_range_conv merge ah t) as [t' [H _]]. eauto. Qed.

Theorem C12_no_comparison_left : C12_no_comparison_left_statement.
Proof.
  intros merge ah t t' H. destruct (open_range_conv merge ah t) as [t1 [H1 [_ H2]]]. congruence.
Qed.

Theorem C12_conversion : C12_conversion_statement.
Proof.
  intros ah t t' H. destruct (open_range_conv false ah t) as [t1 [H1 [H2 _]]].
  rewrite H in H1. inversion H1; subst. exact H2.
Qed.

Theorem C12_copy_drops_name_only : C12_copy_drops_name_only_statement.
Proof. exact clone_item_wf. Qed.

Theorem C12_merge_structure : C12_merge_structure_statement.
Proof.
  intros ah t t' H. destruct (open_range_conv true ah t) as [t1 [H1 [H2 _]]].
  rewrite H in H1. inversion H1; subst. exact H2.
Qed.

Theorem C12_and_node : C12_and_node_statement.
Proof. exact conv_and_node. Qed.

Theorem C12_plain_node : C12_plain_node_statement.
Proof. exact conv_plain_node. Qed.

Theorem C12_merge_steps_preserve_conjunction : C12_merge_steps_preserve_conjunction_statement.
Proof. intros V le bv opq Hw x l l' H. exact (merge_steps_conj V le bv opq Hw x l l' H). Qed.

Theorem C12_wildcard : C12_wildcard_statement.
Proof. exact is_wildcard_spec. Qed.

(* ---- non-vacuity *)
Definition w (c : N) : item := Term KWord meta0 [c].
Definition wst : item := Term KWord meta0 [42%N].
Definition rg (lo hi : item) (il ih : bool) : item := Range meta0 lo hi il ih.
Definition sp : str := [32%N].

(* the docstring example: first-in first-out pairing, [a TO *] [b TO *] [* TO y] [* TO z] *)
Example C12_fifo :
  open_range true [] (Op KAnd meta0 [rg (w 97) wst true true; rg (w 98) wst false true;
                                     rg wst (w 121) true false; rg wst (w 122) true true])
  = Some (Op KAnd meta0 [rg (w 97) (w 121) true false; rg (w 98) (w 122) false true]).
Proof. vm_compute. reflexivity. Qed.

(* >=a AND <z  ->  one range; inclusiveness travels with its bound; add_head " " is put after the
   low bound and before the high bound *)
Example C12_comparisons_merged :
  option_map (print true)
    (open_range true sp (Op KAnd meta0 [ORange KFrom meta0 (w 97) true; ORange KTo meta0 (w 122) false]))
  = Some [91; 97; 32; 84; 79; 32; 122; 125]%N.     (* "[a TO z}" *)
Proof. vm_compute. reflexivity. Qed.

(* boosted / fielded ranges, ranges under OR, and [* TO *] are left alone *)
Example C12_not_merged :
  let l := [Boost meta0 (rg (w 97) wst true true) dec_one true;
            SearchField meta0 [102%N] (rg wst (w 122) true true); rg wst wst true true] in
  open_range true [] (Op KAnd meta0 l) = Some (Op KAnd meta0 l) /\
  open_range true [] (Op KOr meta0 [rg (w 97) wst true true; rg wst (w 122) true true])
  = Some (Op KOr meta0 [rg (w 97) wst true true; rg wst (w 122) true true]).
Proof. split; vm_compute; reflexivity. Qed.

(* the range merged away disappears WITH its head and tail text (here " " and "T"): only layout is
   lost, the property does not speak about it (see C11/C13) *)
Example C12_merged_away_layout_dropped :
  option_map (print true)
    (open_range true [] (Op KAnd meta0 [rg (w 97) wst true true;
                                        Range (mkMeta None None sp [84%N] None) wst (w 122) true true]))
  = Some [91; 97; 84; 79; 122; 93]%N.              (* "[aTOz]" *)
Proof. vm_compute. reflexivity. Qed.

(* the hypothesis on bv is satisfiable and the semantics discriminates: values are code points *)
Definition ex_bv (b : item) : option N :=
  if is_wildcard b then None else match b with Term _ _ (c :: _) => Some c | _ => Some 0%N end.
Example C12_semantics_nonvacuous :
  (forall b, is_wildcard b = true -> ex_bv b = None) /\
  let l := [rg (w 97) wst false true; w 120; rg wst (w 122) true true] in
  merge_steps l (merge_children l) /\ merge_children l = [rg (w 97) (w 122) false true; w 120] /\
  conj N N.leb ex_bv (fun _ => true) 100%N l = true /\
  conj N N.leb ex_bv (fun _ => true) 97%N l = false /\
  conj N N.leb ex_bv (fun _ => true) 97%N (merge_children l) = false /\
  conj N N.leb ex_bv (fun _ => false) 100%N l = false.
Proof.
  split; [intros b H; unfold ex_bv; rewrite H; reflexivity|].
  split; [apply merge_children_spec|]. repeat split; vm_compute; reflexivity.
Qed.

(* wf_node holds of constructor-built nodes, implicit degree included *)
Example C12_wf_nonvacuous :
  wf_node (Fuzzy meta0 (w 97) dec_half true) /\ wf_node (Boost meta0 (w 97) dec_one true) /\
  wf_node (Boost meta0 (w 97) (mkDec false 2%N 0%Z) false).
Proof. repeat split; vm_compute; reflexivity. Qed.

Print Assumptions C12_total.
Print Assumptions C12_no_comparison_left.
Print Assumptions C12_conversion.
Print Assumptions C12_copy_drops_name_only.
Print Assumptions C12_merge_structure.
Print Assumptions C12_and_node.
Print Assumptions C12_plain_node.
Print Assumptions C12_merge_steps_preserve_conjunction.
Print Assumptions C12_wildcard.
