(* SpanDropProofs.v — C02 WITHOUT GUARD.

   F1 (`foo :bar` prints `foo:bar`) never disturbs a position: pos and size always describe the ORIGINAL
   text, and the SearchField's size counts the blank its printed form lacks.  So the property holds, for
   every node of every parsed query, of the GHOST TREE t' = t with the dropped blank runs put back at the end
   of the field names (Drops.nrel t t'): same classes, same pos / size / head / tail everywhere.

   1. nrel: basic facts; HeadTailManager.pos reads the metas only; every semantic action maps related
      arguments to related results with the same events (run_action_nrel, table-free).
   2. the ghost of a stack value is located on the tokens it was built from (ghost_ok, in terms of
      SpanRespellProofs.onode_ok); kept by every action with harmless events (ghost_prod_generic, through
      SpanRespellProofs.run_action_ospans run on the ghosts) and by search_field when the name token is
      replaced by the token that keeps its tail in its lexeme (ghost_field_search).
   3. generated tables: every action but search_field has harmless events (prod_evs_ok).
   4. the driver: DropProofs' cell invariant with the ghost alongside (cellg), the stack typing, and
      SpanProofs.gen_no_rflat carried along the run.
   5. parse_ghost / parse_located_f. *)
Require Import Base Decimal Tree GenTree GenParser Lexer Print Actions LR Parser Drops TreeInd Respace Spans.
Require Import LexerProofs ActionProofs LRProofs SpanProofs LRTermination LRTyping C01 RespellProofs.
Require Import SpanRespellProofs RespaceProofs BridgeProofs DropProofs.
From Coq Require Import Lia.

(* ================================================================ 1. the relation *)

Definition vrel (v v' : symval) : Prop :=
  match v, v' with
  | VItem i, VItem j => nrel i j
  | VTok l x m, VTok l' x' m' => l = l' /\ x = x' /\ m = m'
  | _, _ => False
  end.

Lemma nrel_sf_same m name e e' : nrel e e' -> nrel (SearchField m name e) (SearchField m name e').
Proof. intros H. eapply nr_sf with (w := []); [symmetry; apply app_nil_r|reflexivity|exact H]. Qed.

Lemma nrel_meta i j : nrel i j -> meta_of i = meta_of j.
Proof. destruct 1; reflexivity. Qed.

Lemma nrel_set_meta i j m : nrel i j -> nrel (set_meta i m) (set_meta j m).
Proof. destruct 1; simpl; econstructor; eauto. Qed.

Lemma nrel_add_head i j s : nrel i j -> nrel (add_head i s) (add_head j s).
Proof.
  destruct 1; unfold add_head, set_head, head_of; simpl; econstructor; eauto.
Qed.
Lemma nrel_add_tail i j s : nrel i j -> nrel (add_tail_i i s) (add_tail_i j s).
Proof.
  destruct 1; unfold add_tail_i, set_tail, tail_of; simpl; econstructor; eauto.
Qed.

Lemma nrel_children i j : nrel i j -> Forall2 nrel (children i) (children j).
Proof. destruct 1; simpl; auto. Qed.

Lemma nrel_same k i j : nrel i j ->
  match i with Op k' _ _ => opk_eqb k k' | _ => false end = match j with Op k' _ _ => opk_eqb k k' | _ => false end.
Proof. destruct 1; reflexivity. Qed.

Lemma nrel_head i j : nrel i j -> head_of i = head_of j.
Proof. intros H. unfold head_of. rewrite (nrel_meta _ _ H). reflexivity. Qed.
Lemma nrel_tail i j : nrel i j -> tail_of i = tail_of j.
Proof. intros H. unfold tail_of. rewrite (nrel_meta _ _ H). reflexivity. Qed.

Lemma vrel_meta v v' : vrel v v' -> sv_meta v = sv_meta v'.
Proof.
  destruct v, v'; simpl; try tauto. apply nrel_meta.
Qed.

Lemma vrels_metas args args' : Forall2 vrel args args' -> map sv_meta args = map sv_meta args'.
Proof. induction 1 as [|v v' l l' H _ IH]; simpl; [reflexivity|]. rewrite (vrel_meta _ _ H), IH. reflexivity. Qed.

(* HeadTailManager.pos reads the metas only *)
Lemma htm_pos_metas args args' ht tt : map sv_meta args = map sv_meta args' -> htm_pos args ht tt = htm_pos args' ht tt.
Proof.
  intros E. unfold htm_pos. destruct args as [|p1 r], args' as [|p1' r']; try discriminate; [reflexivity|].
  simpl in E. injection E as E1 E2. unfold sv_head, sv_tail. rewrite E1.
  assert (F : forall l l' acc, map sv_meta l = map sv_meta l' ->
            fold_left (fun acc v => (acc + oz (m_size (sv_meta v)) + zlen (m_head (sv_meta v)) + zlen (m_tail (sv_meta v)))%Z) l acc =
            fold_left (fun acc v => (acc + oz (m_size (sv_meta v)) + zlen (m_head (sv_meta v)) + zlen (m_tail (sv_meta v)))%Z) l' acc).
  { induction l as [|x l IH]; intros [|x' l'] acc H; try discriminate; [reflexivity|].
    simpl in H. injection H as H1 H2. simpl. rewrite H1. apply IH. exact H2. }
  assert (L : forall l l' d d', map sv_meta l = map sv_meta l' -> sv_meta d = sv_meta d' ->
            sv_meta (last l d) = sv_meta (last l' d')).
  { induction l as [|x l IH]; intros [|x' l'] d d' H Hd; try discriminate; [exact Hd|].
    simpl in H. injection H as H1 H2. destruct l as [|y l], l' as [|y' l']; try discriminate; [exact H1|].
    change (last (x :: y :: l) d) with (last (y :: l) d). change (last (x' :: y' :: l') d') with (last (y' :: l') d').
    apply IH; assumption. }
  rewrite (F (p1 :: r) (p1' :: r') 0%Z) by (simpl; rewrite E1, E2; reflexivity).
  rewrite (L (p1 :: r) (p1' :: r') p1 p1') by (try (simpl; rewrite E1, E2; reflexivity); exact E1).
  reflexivity.
Qed.

Lemma F2_app_inv_nil {A B} (R : A -> B -> Prop) l l' : Forall2 R l l' -> (l = [] <-> l' = []).
Proof. destruct 1; split; congruence. Qed.

Lemma binary_nrel k a a' opv b b' v evs :
  nrel a a' -> nrel b b' -> binary k a opv b = Ok (v, evs) ->
  exists v', binary k a' opv b' = Ok (v', evs) /\ vrel v v'.
Proof.
  intros Ha Hb. unfold binary.
  rewrite <- (nrel_same k _ _ Ha), <- (nrel_same k _ _ Hb).
  set (a_same := match a with Op k' _ _ => opk_eqb k k' | _ => false end).
  set (b_same := match b with Op k' _ _ => opk_eqb k k' | _ => false end).
  assert (HA : Forall2 nrel (if a_same then children a else [a]) (if a_same then children a' else [a']))
    by (destruct a_same; [apply nrel_children; exact Ha|constructor; [exact Ha|constructor]]).
  assert (HB : Forall2 nrel (if b_same then children b else [b]) (if b_same then children b' else [b']))
    by (destruct b_same; [apply nrel_children; exact Hb|constructor; [exact Hb|constructor]]).
  destruct (if b_same then children b else [b]) as [|b0 brest]; [discriminate|].
  inversion HB as [|? b0' ? brest' Hb0 Hbr]; subst.
  rewrite <- (nrel_head _ _ Ha), <- (nrel_tail _ _ Ha), <- (nrel_head _ _ Hb), <- (nrel_tail _ _ Hb).
  set (op_tail := match opv with Some v0 => sv_tail v0 | None => [] end).
  assert (Hba : nrel (if b_same then b else add_head b op_tail) (if b_same then b' else add_head b' op_tail))
    by (destruct b_same; [exact Hb|apply nrel_add_head; exact Hb]).
  assert (Hpos : htm_pos match opv with
                         | Some v0 => [VItem a; v0; VItem (if b_same then b else add_head b op_tail)]
                         | None => [VItem a; VItem (if b_same then b else add_head b op_tail)] end false false =
                 htm_pos match opv with
                         | Some v0 => [VItem a'; v0; VItem (if b_same then b' else add_head b' op_tail)]
                         | None => [VItem a'; VItem (if b_same then b' else add_head b' op_tail)] end false false).
  { apply htm_pos_metas. destruct opv; simpl; rewrite (nrel_meta _ _ Ha), (nrel_meta _ _ Hba); reflexivity. }
  rewrite <- Hpos. destruct (htm_pos _ false false) as [pos size].
  intros H. inversion H; subst; clear H.
  eexists. split.
  - f_equal. f_equal. f_equal. f_equal. f_equal. f_equal. f_equal.
    destruct (F2_app_inv_nil _ _ _ HA) as [E1 E2].
    destruct (if a_same then children a else [a]), (if a_same then children a' else [a']); try reflexivity;
      [exfalso; specialize (E1 eq_refl); discriminate|exfalso; specialize (E2 eq_refl); discriminate].
  - simpl. constructor. apply Forall2_app; [exact HA|]. constructor; [apply nrel_add_head; exact Hb0|exact Hbr].
Qed.

Local Opaque htm_pos.

Lemma unary_nrel (mk : meta -> item -> item) o x x' p v evs :
  nrel x x' -> unary_ht mk o x p = (v, evs) ->
  (forall m a a', nrel a a' -> nrel (mk m a) (mk m a')) ->
  exists v', unary_ht mk o x' p = (v', evs) /\ vrel v v'.
Proof.
  intros Hx H Hmk. revert H. unfold unary_ht. intros H. inversion H; subst; clear H. eexists. split; [reflexivity|].
  rewrite (htm_pos_metas [o; VItem x] [o; VItem x']) by (simpl; rewrite (nrel_meta _ _ Hx); reflexivity).
  apply Hmk. apply nrel_add_head. exact Hx.
Qed.

Lemma post_unary_nrel (mk : meta -> item -> item) o x x' e v evs :
  nrel x x' -> post_unary_ht mk x o e = (v, evs) ->
  (forall m a a', nrel a a' -> nrel (mk m a) (mk m a')) ->
  exists v', post_unary_ht mk x' o e = (v', evs) /\ vrel v v'.
Proof.
  intros Hx H Hmk. revert H. unfold post_unary_ht. intros H. inversion H; subst; clear H. eexists. split; [reflexivity|].
  rewrite (htm_pos_metas [VItem x; o] [VItem x'; o]) by (simpl; rewrite (nrel_meta _ _ Hx); reflexivity).
  apply Hmk. apply nrel_add_tail. exact Hx.
Qed.

Ltac un_nrel H Hx :=
  match type of H with Ok (unary_ht ?mk ?o ?x ?p) = Ok (?v, ?evs) =>
    let Hu := fresh "Hu" in let Hmk := fresh "Hmk" in
    assert (Hu : unary_ht mk o x p = (v, evs)) by congruence;
    assert (Hmk : forall m a a', nrel a a' -> nrel (mk m a) (mk m a')) by (intros; cbv beta; first [apply nr_unary | apply nr_orange | apply nr_fuzzy | apply nr_prox | apply nr_boost]; assumption);
    destruct (unary_nrel _ _ _ _ _ _ _ Hx Hu Hmk) as [v' [E R]];
    exists v'; split; [simpl in E |- *; rewrite E; reflexivity|exact R]
  end.
Ltac po_nrel H Hx :=
  match type of H with Ok (post_unary_ht ?mk ?x ?o ?e) = Ok (?v, ?evs) =>
    let Hu := fresh "Hu" in let Hmk := fresh "Hmk" in
    assert (Hu : post_unary_ht mk x o e = (v, evs)) by congruence;
    assert (Hmk : forall m a a', nrel a a' -> nrel (mk m a) (mk m a')) by (intros; cbv beta; first [apply nr_unary | apply nr_orange | apply nr_fuzzy | apply nr_prox | apply nr_boost]; assumption);
    destruct (post_unary_nrel _ _ _ _ _ _ _ Hx Hu Hmk) as [v' [E R]];
    exists v'; split; [simpl in E |- *; repeat match goal with Hq : _ = Some _ |- _ => rewrite Hq end; rewrite E; reflexivity|exact R]
  end.

Ltac pos_tac :=
  match goal with
  | |- nrel ?L ?R =>
     match L with context [htm_pos ?l1 ?a ?b] =>
       match R with context [htm_pos ?l2 a b] =>
         rewrite (htm_pos_metas l1 l2 a b)
           by (simpl; repeat match goal with Hn : nrel _ _ |- _ => rewrite (nrel_meta _ _ Hn) end; reflexivity)
       end end end.

Ltac inv_f2v := repeat match goal with
  | H : Forall2 vrel (_ :: _) _ |- _ => inversion H; subst; clear H
  | H : Forall2 vrel [] _ |- _ => inversion H; subst; clear H
  end.
Ltac vrels := repeat match goal with
  | H : vrel (VItem _) ?y |- _ => destruct y; [|destruct H]; simpl in H
  | H : vrel (VTok _ _ _) ?y |- _ => destruct y; [destruct H|]; simpl in H; destruct H as [? [? ?]]; subst
  end.

Lemma nrel_fieldgroup e e' : nrel e e' ->
  nrel (match e with Grp KGroup m x => Grp KFieldGroup (clone_meta_nameless m) x | _ => e end)
       (match e' with Grp KGroup m x => Grp KFieldGroup (clone_meta_nameless m) x | _ => e' end).
Proof. intros H. destruct H; try (econstructor; eauto; fail). destruct k; constructor; assumption. Qed.

(* every semantic action maps related arguments to related results, with the same events *)
Theorem run_action_nrel a args args' v evs :
  Forall2 vrel args args' -> run_action a args = Ok (v, evs) ->
  exists v', run_action a args' = Ok (v', evs) /\ vrel v v'.
Proof.
  intros Hrel H.
  destruct a; simpl in H;
    repeat match type of H with
    | match ?l with [] => _ | _ :: _ => _ end = _ => destruct l as [|? ?]; try discriminate
    | match ?x with VItem _ => _ | VTok _ _ _ => _ end = _ => destruct x; try discriminate
    | match ?o with Some _ => _ | None => _ end = _ => destruct o eqn:?; try discriminate
    | match ?i with Term _ _ _ => _ | _ => _ end = _ => destruct i; try discriminate
    end; inv_f2v; vrels.
  all: try (inversion H; subst; clear H; eexists; split; [reflexivity|]; simpl; auto; fail).
  - (* or *) destruct (binary_nrel _ _ _ _ _ _ _ _ H2 H4 H) as [v' [E R]]. exists v'. split; [exact E|exact R].
  - (* and *) destruct (binary_nrel _ _ _ _ _ _ _ _ H2 H4 H) as [v' [E R]]. exists v'. split; [exact E|exact R].
  - (* implicit *) destruct (binary_nrel _ _ _ _ _ _ _ _ H2 H3 H) as [v' [E R]]. exists v'. split; [exact E|exact R].
  - un_nrel H H3.
  - un_nrel H H3.
  - un_nrel H H3.
  - (* grouping *)
    inversion H; subst; clear H. eexists. split; [reflexivity|]. simpl. pos_tac.
    constructor. apply nrel_add_tail, nrel_add_head. assumption.
  - (* range *)
    inversion H; subst; clear H. eexists. split; [reflexivity|]. simpl. pos_tac.
    constructor; apply nrel_add_tail, nrel_add_head; assumption.
  - un_nrel H H3.
  - un_nrel H H3.
  - un_nrel H H3.
  - (* field search *)
    inversion H2; subst. inversion H; subst; clear H. eexists. split; [reflexivity|]. simpl. pos_tac.
    apply nrel_sf_same. apply nrel_add_head. apply nrel_fieldgroup. assumption.
  - po_nrel H H2.
  - po_nrel H H2.
  - po_nrel H H2.
  - po_nrel H H2.
  - po_nrel H H2.
  - po_nrel H H2.
  - inversion H; subst; clear H. eexists. split; [reflexivity|]. simpl. constructor.
Qed.

(* ================================================================ 2. ghosts *)

Local Transparent htm_pos.

(* the size of a name token and its tail can be moved into the lexeme: HeadTailManager.pos only sees the sum *)
Lemma htm_pos_merge k p z h w n x x' c e e' :
  meta_of e = meta_of e' ->
  htm_pos [VItem (Term k (mkMeta p (Some z) h w n) x); c; VItem e] true false =
  htm_pos [VItem (Term k (mkMeta p (Some (z + zlen w)%Z) h [] n) x'); c; VItem e'] true false.
Proof.
  intros E. unfold htm_pos. simpl. unfold sv_head, sv_tail. simpl. rewrite E.
  f_equal. f_equal. unfold zlen. simpl. lia.
Qed.

Local Opaque htm_pos.

Lemma vrel_refl_tv t : vrel (token_value t) (token_value t).
Proof. unfold token_value. destruct (tk_type t); simpl; auto; constructor. Qed.

Lemma rflat_args_vrel a args args' : Forall2 vrel args args' -> rflat_args a args = rflat_args a args'.
Proof.
  intros H. destruct a; try reflexivity;
    (destruct H as [|x x' ? ? Hx H]; [reflexivity|]; destruct x, x'; simpl in Hx; try tauto;
     destruct H as [|y y' ? ? Hy H]; [reflexivity|]; destruct y, y'; simpl in Hy; try tauto;
     destruct H as [|z z' ? ? Hz H]; [reflexivity|]; destruct z, z'; simpl in Hz; try tauto;
     destruct Hy as [_ [_ ->]];
     destruct H; [|destruct Hz; reflexivity]; destruct Hz; try reflexivity).
Qed.

(* ---- the ghost of a stack value: related to it, and located on the tokens it was built from *)
Definition ghost_ok (seg : list token) (v' : symval) : Prop :=
  forall b, toks_pos_ok b seg -> exists o, osv_ok (Z.of_nat b) v' o /\ ofull_sv v' o = render seg.

Lemma toks_pos_ok_app : forall x y b,
  toks_pos_ok b (x ++ y) <-> toks_pos_ok b x /\ toks_pos_ok (b + length (render x)) y.
Proof.
  induction x as [|t x IH]; intros y b; simpl.
  - rewrite Nat.add_0_r. tauto.
  - rewrite IH. change (render (t :: x)) with (tok_text t ++ render x). rewrite app_length, Nat.add_assoc. tauto.
Qed.

Lemma ghost_token t : ghost_ok [t] (token_value t).
Proof.
  intros b [Hp _]. destruct (token_value_ospans t b Hp) as [H1 H2]. exists (tk_lexeme t).
  split; [exact H1|]. rewrite H2. unfold render. simpl. rewrite app_nil_r. reflexivity.
Qed.

Lemma ghosts_oargs : forall segs args', Forall2 ghost_ok segs args' ->
  forall b, toks_pos_ok b (concat segs) ->
  exists os, oargs_ok (Z.of_nat b) args' os /\ otexts args' os = render (concat segs).
Proof.
  induction 1 as [|seg v' segs args' Hg _ IH]; intros b Hpos.
  - exists []. simpl. auto.
  - simpl in Hpos. apply toks_pos_ok_app in Hpos. destruct Hpos as [Hp1 Hp2].
    destruct (Hg b Hp1) as [o [Ho Et]]. destruct (IH _ Hp2) as [os [Hos Ets]].
    exists (o :: os). simpl. split; [split; [exact Ho|]|].
    + eapply oargs_ok_cast; [exact Hos|]. rewrite Et. unfold zlen. lia.
    + rewrite Et, Ets, render_app. reflexivity.
Qed.

(* any action whose events are harmless: the ghost of the result is the result on the ghosts *)
Lemma ghost_prod_generic a args args' segs v evs :
  Forall2 vrel args args' -> Forall2 ghost_ok segs args' ->
  run_action a args = Ok (v, evs) -> Forall ev_ok evs -> rflat_args a args = false ->
  exists v', vrel v v' /\ ghost_ok (concat segs) v'.
Proof.
  intros Hrel Hg Hrun Hev Hrf.
  destruct (run_action_nrel _ _ _ _ _ Hrel Hrun) as [v' [Hrun' Hv]].
  exists v'. split; [exact Hv|]. intros b Hpos.
  destruct (ghosts_oargs _ _ Hg b Hpos) as [os [Hos Et]].
  rewrite (rflat_args_vrel _ _ _ Hrel) in Hrf.
  destruct (run_action_ospans _ _ _ _ _ _ Hrun' Hev Hrf Hos) as [o [Ho Eo]].
  exists o. split; [exact Ho|]. rewrite Eo. exact Et.
Qed.

(* F1: the ghost of a SearchField keeps the dropped blank in its name *)
Definition merged (t : token) : token :=
  mkTok (tk_type t) (tk_lexeme t ++ tk_tail t) (tk_pos t) (tk_head t) [].

Lemma ghost_field_search t1 t2 e e' seg v evs :
  tk_type t1 = T_TERM -> tk_type t2 = T_COLUMN -> tk_lexeme t2 = [c_colon] -> tk_head t2 = [] ->
  all_space (tk_tail t1) = true -> nrel e e' -> ghost_ok seg (VItem e') ->
  run_action A_field_search [token_value t1; token_value t2; VItem e] = Ok (v, evs) ->
  exists v', vrel v v' /\ ghost_ok (t1 :: t2 :: seg) v'.
Proof.
  intros Ht1 Ht2 Hl2 Hh2 Hsp He Hg Hrun.
  assert (Hrun' : exists v' evs', run_action A_field_search [token_value (merged t1); token_value t2; VItem e'] = Ok (v', evs')
                                  /\ vrel v v' /\ Forall ev_ok evs').
  { revert Hrun. unfold token_value, merged. simpl tk_type. rewrite Ht1, Ht2. simpl.
    intros H. inversion H; subst; clear H. eexists. eexists. split; [reflexivity|]. split.
    - simpl.
      rewrite (htm_pos_merge KWord _ (zlen (tk_lexeme t1)) (tk_head t1) (tk_tail t1) None (tk_lexeme t1)
                 (tk_lexeme t1 ++ tk_tail t1) _ e e' (nrel_meta _ _ He)).
      replace (zlen (tk_lexeme t1) + zlen (tk_tail t1))%Z with (zlen (tk_lexeme t1 ++ tk_tail t1))
        by (unfold zlen; rewrite app_length; lia).
      eapply nr_sf; [reflexivity|exact Hsp|]. apply nrel_add_head. apply nrel_fieldgroup. exact He.
    - unfold head_of, tail_of, sv_head. simpl. rewrite Hh2, Hl2.
      constructor; [reflexivity|]. constructor; [reflexivity|]. constructor; [left; reflexivity|constructor]. }
  destruct Hrun' as [v' [evs' [Hrun' [Hv Hev]]]]. exists v'. split; [exact Hv|].
  intros b Hpos.
  change (t1 :: t2 :: seg) with ([t1] ++ [t2] ++ seg) in Hpos.
  apply toks_pos_ok_app in Hpos. destruct Hpos as [Hp1 Hpos]. apply toks_pos_ok_app in Hpos. destruct Hpos as [Hp2 Hp3].
  assert (Htx : tok_text (merged t1) = tok_text t1)
    by (unfold tok_text, merged; simpl; rewrite <- !app_assoc, app_nil_r; reflexivity).
  assert (Hg1 : ghost_ok [merged t1] (token_value (merged t1))) by apply ghost_token.
  assert (Hg2 : ghost_ok [t2] (token_value t2)) by apply ghost_token.
  assert (Hpos' : toks_pos_ok b (concat [[merged t1]; [t2]; seg])).
  { unfold render in Hp2, Hp3. simpl in Hp1, Hp2, Hp3. rewrite !app_nil_r in Hp2, Hp3.
    simpl. rewrite app_nil_r, Htx. destruct Hp1 as [Hp1 _]. destruct Hp2 as [Hp2 _].
    rewrite app_nil_r in Hp3. split; [exact Hp1|]. split; [exact Hp2|exact Hp3]. }
  destruct (ghosts_oargs [[merged t1]; [t2]; seg] [token_value (merged t1); token_value t2; VItem e']
              ltac:(repeat constructor; assumption) b Hpos') as [os [Hos Et]].
  destruct (run_action_ospans _ _ _ _ _ _ Hrun' Hev eq_refl Hos) as [o [Ho Eo]].
  exists o. split; [exact Ho|]. rewrite Eo, Et. simpl concat. rewrite app_nil_r.
  unfold render. simpl. rewrite Htx. reflexivity.
Qed.

(* ================================================================ 3. events on the generated tables *)

Definition drops_empty (evs : list gev) : Prop :=
  Forall (fun e => match e with GDrop x => x = [] | GRespell _ _ => True end) evs.

Lemma all_trivial_drops_empty evs : all_trivial evs -> drops_empty evs.
Proof. unfold all_trivial, drops_empty. apply Forall_impl. intros [x|a b]; simpl; auto. Qed.

Local Opaque htm_pos.

Definition is_bin (a : action_name) : bool :=
  match a with A_expression_or | A_expression_and | A_expression_implicit => true | _ => false end.

(* only create_operation and search_field drop anything *)
Lemma no_drops_other a args v evs :
  run_action a args = Ok (v, evs) -> is_bin a = false -> a <> A_field_search -> drops_empty evs.
Proof.
  intros H Hb Hf.
  destruct a; try discriminate Hb; try (exfalso; apply Hf; reflexivity); simpl in H;
    repeat match type of H with
    | match ?l with [] => _ | _ :: _ => _ end = _ => destruct l as [|? ?]; try discriminate
    | match ?x with VItem _ => _ | VTok _ _ _ => _ end = _ => destruct x; try discriminate
    | match ?o with Some _ => _ | None => _ end = _ => destruct o eqn:?; try discriminate
    | match ?i with Term _ _ _ => _ | _ => _ end = _ => destruct i; try discriminate
    end;
    unfold unary_ht, post_unary_ht in H; inversion H; subst; repeat constructor.
Qed.

Definition prod_drops_ok (pr : nonterm * list sym * action_name) : Prop :=
  forall ps v evs, Forall2 cellp (snd (fst pr)) ps -> heads_ok (concat (map snd ps)) ->
    run_action (snd pr) (map fst ps) = Ok (v, evs) -> snd pr <> A_field_search -> drops_empty evs.

Lemma all_drops_ok : Forall prod_drops_ok gen_prods.
Proof.
  unfold gen_prods.
  repeat (apply Forall_cons; [|]); [..|apply Forall_nil]; intros ps v evs HF Hh Hrun Hne; cbn [snd fst] in *;
    try (eapply no_drops_other; [exact Hrun|reflexivity|exact Hne]; fail);
    try (exfalso; apply Hne; reflexivity; fail);
    start HF Hh Hrun.
  - wf_facts. simpl in Hrun.
    match goal with Ha : head_safe ?a, Hh : heads_ok (?a ++ ?t :: _) |- _ => pose proof (hn_after _ _ _ Ha Hh) as Hhd end.
    destruct (binary_cell _ _ _ _ _ _ Hrun) as [i [_ [_ [_ [_ [_ Ht]]]]]]; auto. apply all_trivial_drops_empty, Ht.
  - wf_facts. simpl in Hrun.
    match goal with Ha : head_safe ?a, Hh : heads_ok (?a ++ ?t :: _) |- _ => pose proof (hn_after _ _ _ Ha Hh) as Hhd end.
    destruct (binary_cell _ _ _ _ _ _ Hrun) as [i [_ [_ [_ [_ [_ Ht]]]]]]; auto. apply all_trivial_drops_empty, Ht.
  - simpl in Hrun.
    destruct (binary_cell _ _ _ _ _ _ Hrun) as [i [_ [_ [_ [_ [_ Ht]]]]]]; auto. apply all_trivial_drops_empty, Ht.
Qed.

Lemma cellp_kind2 : forall rhs ps, Forall2 cellp rhs ps -> Forall2 kind_ok2 rhs (map fst ps).
Proof.
  induction 1 as [|X p rhs ps Hc _ IH]; simpl; constructor; [|exact IH].
  destruct p as [v seg]. unfold cellp in Hc. simpl in Hc. destruct X as [ty|n]; simpl.
  - destruct Hc as [t [_ [-> [<- Hwf]]]]. apply token_value_kind2. exact Hwf.
  - destruct Hc as [i [-> [Hi _]]]. split; [exact Hi|exact I].
Qed.

(* generated tables: every action but search_field has harmless events *)
Lemma prod_evs_ok p lhs rhs a ps v evs :
  prod_of p = Some (lhs, rhs, a) -> Forall2 cellp rhs ps -> heads_ok (concat (map snd ps)) ->
  run_action a (map fst ps) = Ok (v, evs) -> a <> A_field_search -> Forall ev_ok evs.
Proof.
  intros Hp HF Hh Hrun Hne.
  apply ev_ok_of_respell_ok.
  - eapply prod_respell_ok_of; [exact Hp|apply cellp_kind2; exact HF|exact Hrun].
  - destruct p as [|p']; [discriminate|]. simpl in Hp. apply nth_error_In in Hp.
    pose proof all_drops_ok as F. rewrite Forall_forall in F. exact (F _ Hp ps v evs HF Hh Hrun Hne).
Qed.

(* ================================================================ 4. the driver *)

(* a cell of the C01f invariant together with the ghost of its value *)
Definition cellg (X : sym) (p : symval * list token) : Prop :=
  cellp X p /\ exists v', vrel (fst p) v' /\ ghost_ok (snd p) v'.

Lemma cellg_cellp : forall rhs ps, Forall2 cellg rhs ps -> Forall2 cellp rhs ps.
Proof. induction 1 as [|X p rhs ps [H _] _ IH]; constructor; assumption. Qed.

Lemma cellg_ghosts : forall rhs ps, Forall2 cellg rhs ps ->
  exists args', Forall2 vrel (map fst ps) args' /\ Forall2 ghost_ok (map snd ps) args'.
Proof.
  induction 1 as [|X p rhs ps [_ [v' [Hv Hg]]] _ [args' [H1 H2]]]; [exists []; split; constructor|].
  exists (v' :: args'). simpl. split; constructor; assumption.
Qed.

Lemma cellg_token t : tok_wf t -> cellg (ST (tk_type t)) (token_value t, [t]).
Proof.
  intros Hwf. split; [unfold cellp; simpl; exists t; auto|].
  exists (token_value t). simpl. split; [apply vrel_refl_tv|apply ghost_token].
Qed.

Lemma action_eq_fs a : a = A_field_search \/ a <> A_field_search.
Proof. destruct a; (left; reflexivity) || (right; discriminate). Qed.

Lemma prod_field_search p lhs rhs :
  prod_of p = Some (lhs, rhs, A_field_search) ->
  lhs = N_unary_expression /\ rhs = [ST T_TERM; ST T_COLUMN; SN N_unary_expression].
Proof.
  intros H. destruct p as [|p']; [discriminate|]. simpl in H. apply nth_error_In in H.
  unfold gen_prods in H. simpl in H.
  repeat (destruct H as [H|H]; [inversion H; subst; auto; fail|]). destruct H.
Qed.

Lemma cellg_prod p lhs rhs a ps v evs :
  prod_of p = Some (lhs, rhs, a) -> Forall2 cellg rhs ps ->
  heads_ok (concat (map snd ps)) -> Forall blank_ht (concat (map snd ps)) ->
  rflat_args a (map fst ps) = false ->
  run_action a (map fst ps) = Ok (v, evs) -> cellg (SN lhs) (v, concat (map snd ps)).
Proof.
  intros Hp HF Hh Hbl Hrf Hrun. pose proof (cellg_cellp _ _ HF) as HFp.
  split; [exact (prod_cell_ok_of p lhs rhs a Hp _ _ _ HFp Hh Hrun)|]. simpl fst. simpl snd.
  destruct (action_eq_fs a) as [Ea|Ea].
  - subst a. destruct (prod_field_search _ _ _ Hp) as [-> ->].
    inversion HF as [|X1 p1 r1 ps1 [Hc1 _] HF1]; subst.
    inversion HF1 as [|X2 p2 r2 ps2 [Hc2 _] HF2]; subst.
    inversion HF2 as [|X3 p3 r3 ps3 [Hc3 [v3 [Hv3 Hg3]]] HF3]; subst. inversion HF3; subst.
    destruct p1 as [v1 s1], p2 as [v2 s2], p3 as [v3' s3]. unfold cellp in Hc1, Hc2, Hc3. simpl in *.
    destruct Hc1 as [t1 [-> [-> [Ht1 Hw1]]]]. destruct Hc2 as [t2 [-> [-> [Ht2 Hw2]]]].
    destruct Hc3 as [e [-> _]]. destruct v3 as [e'|]; [|destruct Hv3]. simpl in Hv3.
    rewrite app_nil_r in *. simpl in Hh, Hbl.
    unfold tok_wf in Hw2. rewrite Ht2 in Hw2. simpl in Hw2.
    assert (Hh2 : tk_head t2 = []) by (unfold heads_ok in Hh; simpl in Hh; inversion Hh; assumption).
    assert (Hsp : all_space (tk_tail t1) = true) by (inversion Hbl as [|? ? [_ Hx] _]; exact Hx).
    exact (ghost_field_search _ _ _ _ _ _ _ Ht1 Ht2 Hw2 Hh2 Hsp Hv3 Hg3 Hrun).
  - destruct (cellg_ghosts _ _ HF) as [args' [Hrel Hg]].
    eapply ghost_prod_generic; [exact Hrel|exact Hg|exact Hrun| |exact Hrf].
    eapply prod_evs_ok; eassumption.
Qed.

Inductive stack_okg : list nat -> list (symval * list token) -> Prop :=
| sg_nil : stack_okg [0] []
| sg_cons s t X p ss ps :
    stack_okg (t :: ss) ps -> trans t X = Some s -> cellg X p -> stack_okg (s :: t :: ss) (p :: ps).

Local Opaque incoming.

Lemma path_soundg lhs : forall rrhs s ss ps,
  stack_okg (s :: ss) ps -> path_check lhs rrhs s = true ->
  length rrhs <= length ps /\
  Forall2 cellg rrhs (firstn (length rrhs) ps) /\
  exists t ss' g, skipn (length rrhs) (s :: ss) = t :: ss' /\
                  stack_okg (t :: ss') (skipn (length rrhs) ps) /\ gen_goto t lhs = Some g.
Proof.
  induction rrhs as [|X rest IH]; intros s ss ps Hst Hpc.
  - simpl in *. split; [lia|]. split; [constructor|].
    destruct (gen_goto s lhs) as [g|] eqn:Hg; [|discriminate]. exists s, ss, g. auto.
  - rewrite path_check_cons in Hpc. inversion Hst as [|s0 t X' v ss0 vs0 Hst' Htr Hk]; subst.
    + rewrite incoming_0 in Hpc. discriminate.
    + destruct (incoming s) as [|e inc] eqn:Hinc; [discriminate|]. rewrite <- Hinc in Hpc.
      rewrite forallb_forall in Hpc. specialize (Hpc _ (in_incoming _ _ _ Htr)). simpl in Hpc.
      apply andb_true_iff in Hpc. destruct Hpc as [Hx Hrest]. apply sym_eqb_eq in Hx. subst X'.
      destruct (IH _ _ _ Hst' Hrest) as [Hlen [Hf2 [t' [ss' [g [Hsk [Hst'' Hg]]]]]]].
      split; [simpl; lia|]. split; [simpl; constructor; assumption|].
      exists t', ss', g. simpl. auto.
Qed.

Lemma stack_okg_bottom ss ps : stack_okg (0 :: ss) ps -> ss = [] /\ ps = [].
Proof.
  intros H. inversion H as [|s t X p ss0 ps0 _ Htr _]; subst; [auto|].
  apply in_incoming in Htr. rewrite incoming_0 in Htr. destruct Htr.
Qed.

Section DriverG.
  Variable toks0 : list token.
  Hypothesis Hheads : heads_ok toks0.
  Hypothesis Hblank : Forall blank_ht toks0.

  Definition GInv (c : config) : Prop :=
    exists ps, c_vals c = map fst ps /\ stack_okg (c_states c) ps /\
               concat (rev (map snd ps)) ++ c_toks c = toks0 /\ Forall tok_wf (c_toks c).

  Definition stepres_okg (lexerr : option (nat * str)) (r : stepres) : Prop :=
    match r with
    | Next c' => GInv c'
    | Final (Ok i) _ => lexerr = None /\ cellg (SN N_expression) (VItem i, toks0)
    | Final (Err _) _ => True
    end.

  Definition inner_okg (c : config) (r : stepres) : Prop :=
    match r with
    | Next c' => GInv c'
    | Final (Ok i) _ => c_toks c = [] /\ cellg (SN N_expression) (VItem i, toks0)
    | Final (Err _) _ => True
    end.

  Lemma step_ginv lexerr c :
    GInv c -> rflat_step gen_tables lexerr c = false -> stepres_okg lexerr (step gen_tables lexerr c).
  Proof.
    intros [ps [Hv [Hst [Hcat Hwf]]]] Hrf. rewrite step_eq. simpl tb_action.
    assert (Hmain : match c_toks c, lexerr with [], Some _ => False | _, _ => True end ->
              inner_okg c
              match gen_action (hd 0 (c_states c)) (la_of (c_toks c)) with
              | Shift n => do_shift c n
              | Reduce p => do_reduce gen_tables c p
              | Accept => do_accept lexerr c
              | ActErr => Final (Err (syntax_error (hd_error (c_toks c)))) []
              end).
    { intros Hcase.
      assert (Htop : exists s ss, c_states c = s :: ss) by (inversion Hst; eauto).
      destruct Htop as [s [ss Hs]]. rewrite Hs. simpl hd.
      destruct (gen_action s (la_of (c_toks c))) as [n|p| |] eqn:Ha.
      - (* shift *)
        unfold do_shift. destruct (c_toks c) as [|t rest] eqn:Htoks; [exact I|].
        simpl. inversion Hwf as [|? ? Hwt Hwr]; subst.
        exists ((token_value t, [t]) :: ps). simpl. split; [rewrite Hv; reflexivity|]. split; [|split].
        + rewrite Hs in *. simpl in Ha.
          eapply sg_cons with (X := ST (tk_type t)); [exact Hst| |apply cellg_token; exact Hwt].
          simpl. rewrite Ha. reflexivity.
        + rewrite concat_app. simpl. rewrite <- !app_assoc. exact Hcat.
        + exact Hwr.
      - (* reduce *)
        pose proof (cells_ok s (la_of (c_toks c))) as Hc. unfold cell_ok in Hc. rewrite Ha in Hc.
        destruct (prod_of p) as [[[lhs rhs] a]|] eqn:Hp; [|discriminate].
        rewrite Hs in Hst.
        destruct (path_soundg lhs _ _ _ _ Hst Hc) as [Hlen [Hf2 [t [ss' [g [Hsk [Hst' Hg]]]]]]].
        rewrite rev_length in *.
        (* the reduction is not of the latent-defect shape *)
        assert (Hnr : next_reduction gen_tables lexerr c = Some (a, rev (firstn (length rhs) (c_vals c)))).
        { unfold next_reduction. simpl tb_action. simpl tb_prods.
          replace (match hd_error (c_toks c) with Some t0 => tk_type t0 | None => T_EOF end) with (la_of (c_toks c))
            by (unfold la_of; destruct (c_toks c); reflexivity).
          rewrite Hs. simpl hd. rewrite Ha. destruct p as [|p']; [discriminate|]. simpl in Hp. simpl pred. rewrite Hp.
          destruct (c_toks c); [destruct lexerr; [destruct Hcase|reflexivity]|reflexivity]. }
        unfold rflat_step in Hrf. rewrite Hnr in Hrf.
        unfold do_reduce. destruct p as [|p']; [discriminate|]. simpl pred. simpl tb_prods. simpl tb_goto.
        simpl in Hp. rewrite Hp. cbv zeta.
        assert (Hl : Nat.ltb (length (c_vals c)) (length rhs) = false).
        { apply Nat.ltb_ge. rewrite Hv, map_length. exact Hlen. }
        rewrite Hl.
        apply F2_rev in Hf2. rewrite rev_involutive in Hf2.
        set (n := length rhs) in *.
        assert (Hargs : rev (firstn n (c_vals c)) = map fst (rev (firstn n ps))).
        { rewrite Hv, firstn_map, map_rev. reflexivity. }
        rewrite Hargs in *.
        assert (Hsegs : concat (rev (map snd ps)) =
                        concat (rev (map snd (skipn n ps))) ++ concat (map snd (rev (firstn n ps)))).
        { rewrite <- (firstn_skipn n ps) at 1. rewrite map_app, rev_app_distr, concat_app, map_rev. reflexivity. }
        assert (Hhm : heads_ok (concat (map snd (rev (firstn n ps))))).
        { pose proof Hheads as Hx. rewrite <- Hcat, Hsegs, <- app_assoc in Hx.
          apply heads_ok_app_r in Hx. apply heads_ok_app_l in Hx. exact Hx. }
        assert (Hbm : Forall blank_ht (concat (map snd (rev (firstn n ps))))).
        { pose proof Hblank as Hx. rewrite <- Hcat, Hsegs, <- app_assoc in Hx.
          apply Forall_app in Hx. destruct Hx as [_ Hx]. apply Forall_app in Hx. apply Hx. }
        destruct (run_action a (map fst (rev (firstn n ps)))) as [[v d]|e] eqn:Hrun; [|exact I].
        pose proof (cellg_prod (S p') lhs rhs a _ _ _ Hp Hf2 Hhm Hbm Hrf Hrun) as Hcell.
        rewrite Hs, Hsk. simpl hd. rewrite Hg. simpl.
        exists ((v, concat (map snd (rev (firstn n ps)))) :: skipn n ps). simpl.
        split; [rewrite Hv, skipn_map; reflexivity|]. split; [|split].
        + eapply sg_cons with (X := SN lhs); [exact Hst'|exact Hg|exact Hcell].
        + rewrite concat_app. simpl. rewrite app_nil_r. rewrite <- Hsegs. exact Hcat.
        + exact Hwf.
      - (* accept *)
        assert (Hnil : c_toks c = []).
        { apply accept_only_at_end in Ha. destruct (c_toks c) as [|t rest]; [reflexivity|].
          inversion Hwf as [|? ? Hwt _]; subst. unfold tok_wf in Hwt. simpl in Ha. rewrite Ha in Hwt. destruct Hwt. }
        unfold do_accept. rewrite Hs in Hst.
        inversion Hst as [|s0 t X p ss0 ps0 Hst' Htr Hk]; subst.
        + rewrite Hv. exact I.
        + destruct (accept_entry _ _ _ _ Ha Htr) as [Et EX]. subst t X.
          destruct (stack_okg_bottom _ _ Hst') as [_ Eps]. subst ps0.
          destruct p as [pv pseg]. pose proof Hk as Hk'. destruct Hk as [Hkp _]. unfold cellp in Hkp. simpl in Hkp.
          destruct Hkp as [i [Ei _]]. subst pv.
          rewrite Hv. simpl. split; [exact Hnil|].
          rewrite <- Hcat, Hnil. simpl. rewrite !app_nil_r. exact Hk'.
      - exact I. }
    destruct (c_toks c) as [|t rest] eqn:Htoks.
    - destruct lexerr as [e|]; [exact I|]. specialize (Hmain I).
      destruct (match gen_action (hd 0 (c_states c)) (la_of []) with
                | Shift n => do_shift c n | Reduce p => do_reduce gen_tables c p
                | Accept => do_accept None c | ActErr => Final (Err (syntax_error (hd_error []))) [] end)
        as [c'|[i|e] evs]; simpl in *; [exact Hmain| |exact I]. destruct Hmain as [_ H]. auto.
    - specialize (Hmain I).
      destruct (match gen_action (hd 0 (c_states c)) (la_of (t :: rest)) with
                | Shift n => do_shift c n | Reduce p => do_reduce gen_tables c p
                | Accept => do_accept lexerr c | ActErr => Final (Err (syntax_error (hd_error (t :: rest)))) [] end)
        as [c'|[i|e] evs]; simpl in *; [exact Hmain| |exact I]. destruct Hmain as [E _]. congruence.
  Qed.

  Lemma run_ginv lexerr : forall fuel c i evs, GInv c ->
    rflat_run gen_tables lexerr fuel c = false ->
    run gen_tables lexerr fuel c = Done (Ok i) evs ->
    lexerr = None /\ cellg (SN N_expression) (VItem i, toks0).
  Proof.
    induction fuel as [|f IH]; intros c i evs HI Hrf H; simpl in H; [discriminate|].
    simpl in Hrf. apply Bool.orb_false_iff in Hrf. destruct Hrf as [Hrf1 Hrf2].
    pose proof (step_ginv lexerr c HI Hrf1) as Hs.
    destruct (step gen_tables lexerr c) as [c'|r' e'].
    - eapply IH; [exact Hs|exact Hrf2|exact H].
    - inversion H; subst. exact Hs.
  Qed.
End DriverG.

(* ================================================================ 5. C02 without guard *)

(* ---- transfer along nrel *)
Lemma F2_nth {A B} (R : A -> B -> Prop) : forall l l' i x, Forall2 R l l' -> nth_error l i = Some x ->
  exists y, nth_error l' i = Some y /\ R x y.
Proof.
  induction l as [|a l IH]; intros l' i x H Hn; [destruct i; discriminate|].
  inversion H as [|? b ? l2 Hab Hl]; subst. destruct i as [|i]; simpl in *.
  - inversion Hn; subst. eauto.
  - eapply IH; eauto.
Qed.

Lemma nrel_subtree : forall q t t' d, nrel t t' -> subtree_at t q = Some d ->
  exists d', subtree_at t' q = Some d' /\ nrel d d'.
Proof.
  induction q as [|i q IH]; intros t t' d H Hs; simpl in Hs.
  - inversion Hs; subst. exists t'. split; [reflexivity|exact H].
  - destruct (nth_error (children t) i) as [c|] eqn:Hc; [|discriminate].
    destruct (F2_nth _ _ _ _ _ (nrel_children _ _ H) Hc) as [c' [Hc' Hcc]].
    simpl. rewrite Hc'. eapply IH; eauto.
Qed.

Lemma nrel_span ht d d' : nrel d d' -> span ht d = span ht d'.
Proof.
  intros H. unfold span, head_of, tail_of. rewrite (nrel_meta _ _ H). reflexivity.
Qed.

Lemma nrel_tiled d d' : nrel d d' -> tiled d' -> tiled d.
Proof.
  intros H [a [b [cs [Hs [Hm Ho]]]]]. exists a, b, cs. split; [rewrite (nrel_span false _ _ H); exact Hs|].
  split; [|exact Ho]. rewrite <- Hm. clear -H.
  pose proof (nrel_children _ _ H) as Hc. induction Hc as [|x y l l' Hxy _ IH]; simpl; [reflexivity|].
  rewrite (nrel_span true _ _ Hxy), IH. reflexivity.
Qed.

(* ---- C02 without guard *)

(* d's spans designate, in s, the text of d' = d with blank runs put back after field names, up to numeral
   re-spelling *)
Definition located_f (s : str) (d : item) : Prop :=
  exists d' a b a' b',
    nrel d d' /\ span false d = Some (a, b) /\ span true d = Some (a', b') /\
    (0 <= a' /\ a' <= a /\ a <= b /\ b <= b' /\ b' <= zlen s)%Z /\
    resp (slice s a b) (print false d') /\ resp (slice s a' b') (print true d').

Theorem parse_ghost s t : parse s = Some (Ok t) ->
  exists t', nrel t t' /\
    (forall q d', subtree_at t' q = Some d' -> located_r s d' /\ tiled d') /\
    span true t' = Some (0%Z, zlen s).
Proof.
  intros Hp. destruct (parse_ok_lex _ _ Hp) as [toks [Hlex [Hne _]]].
  pose proof (gen_no_rflat s) as Hrf. unfold parse_rflat in Hrf.
  unfold parse, parse_full, parse_with in Hp. rewrite Hlex in Hp, Hrf.
  destruct (run gen_tables None (parse_fuel toks) _) as [r evs|] eqn:Hrun; [|discriminate].
  inversion Hp; subst r; clear Hp.
  assert (HI : GInv toks (init_config toks match toks with [] => [GDrop s] | _ :: _ => [] end)).
  { exists []. simpl. split; [reflexivity|]. split; [exact sg_nil|]. split; [reflexivity|].
    exact (lex_tokens_wf _ _ _ Hlex). }
  destruct (run_ginv toks (lex_heads_any _ _ _ Hlex) (lex_blank _ _ Hlex Hne) None _ _ _ _ HI Hrf Hrun)
    as [_ [_ [v' [Hv Hg]]]].
  simpl in Hv, Hg. destruct v' as [t'|]; [|destruct Hv]. simpl in Hv.
  destruct (Hg 0 (lex_pos _ _ _ Hlex)) as [o [Ho Eo]].
  pose proof (lex_lossless _ _ _ Hlex Hne) as Hl. simpl in Hl. rewrite app_nil_r in Hl. rewrite Hl in Eo.
  exists t'. split; [exact Hv|].
  apply (ospans_root s t' o); [|exact Eo].
  unfold osv_ok in Ho. simpl in Ho. exact Ho.
Qed.

Theorem parse_located_f s t : parse s = Some (Ok t) ->
  (forall q d, subtree_at t q = Some d -> located_f s d /\ tiled d) /\ span true t = Some (0%Z, zlen s).
Proof.
  intros Hp. destruct (parse_ghost _ _ Hp) as [t' [Hn [Hall Hroot]]]. split.
  - intros q d Hs. destruct (nrel_subtree _ _ _ _ Hn Hs) as [d' [Hs' Hd]].
    destruct (Hall _ _ Hs') as [[a [b [a' [b' [H1 [H2 [H3 [H4 H5]]]]]]]] Ht].
    split; [|exact (nrel_tiled _ _ Hd Ht)].
    exists d', a, b, a', b'. rewrite (nrel_span false _ _ Hd), (nrel_span true _ _ Hd). auto 10.
  - rewrite (nrel_span true _ _ Hn). exact Hroot.
Qed.

(* ---- below the last field name nothing is put back: the ghost of a sub-tree without SearchField is the
   sub-tree itself, so such nodes (the operand of a field, every term, ...) are located exactly *)
Definition no_field (d : item) : Prop :=
  forall q n, subtree_at d q = Some n -> match n with SearchField _ _ _ => False | _ => True end.

Lemma no_field_child d i c : no_field d -> nth_error (children d) i = Some c -> no_field c.
Proof. intros H Hc q n Hs. apply (H (i :: q) n). simpl. rewrite Hc. exact Hs. Qed.

Lemma nrel_no_field : forall d, no_field d -> forall d', nrel d d' -> d' = d.
Proof.
  apply (item_children_ind (fun d => no_field d -> forall d', nrel d d' -> d' = d)).
  intros d IH Hnf d' H.
  assert (Hcs : forall cs', Forall2 nrel (children d) cs' -> cs' = children d).
  { assert (Hc : forall i c, nth_error (children d) i = Some c -> no_field c)
      by (intros i c Hc; eapply no_field_child; eauto).
    clear H. revert IH Hc. generalize (children d). intros l IH Hc cs' HF.
    induction HF as [|x y l l' Hxy _ IHl]; [reflexivity|].
    inversion IH as [|? ? Hx Hl]; subst. f_equal.
    - apply Hx; [apply (Hc 0 x eq_refl)|exact Hxy].
    - apply IHl; [exact Hl|]. intros i c Hi. apply (Hc (S i) c Hi). }
  destruct H; simpl in Hcs.
  - reflexivity.
  - exfalso. exact (Hnf [] _ eq_refl).
  - specialize (Hcs [e'] ltac:(constructor; [assumption|constructor])). inversion Hcs. reflexivity.
  - specialize (Hcs [lo'; hi'] ltac:(repeat constructor; assumption)). inversion Hcs. reflexivity.
  - specialize (Hcs [x'] ltac:(constructor; [assumption|constructor])). inversion Hcs. reflexivity.
  - specialize (Hcs [x'] ltac:(constructor; [assumption|constructor])). inversion Hcs. reflexivity.
  - specialize (Hcs [x'] ltac:(constructor; [assumption|constructor])). inversion Hcs. reflexivity.
  - rewrite (Hcs ops' H). reflexivity.
  - specialize (Hcs [a'] ltac:(constructor; [assumption|constructor])). inversion Hcs. reflexivity.
  - specialize (Hcs [a'] ltac:(constructor; [assumption|constructor])). inversion Hcs. reflexivity.
  - reflexivity.
Qed.

Theorem parse_located_no_field s t q d :
  parse s = Some (Ok t) -> subtree_at t q = Some d -> no_field d -> located_r s d /\ tiled d.
Proof.
  intros Hp Hs Hnf. destruct (parse_located_f _ _ Hp) as [Hall _]. destruct (Hall _ _ Hs) as [Hl Ht].
  split; [|exact Ht]. destruct Hl as [d' [a [b [a' [b' [Hn [H1 [H2 [H3 [H4 H5]]]]]]]]]].
  rewrite (nrel_no_field _ Hnf _ Hn) in H4, H5. exists a, b, a', b'. auto.
Qed.
