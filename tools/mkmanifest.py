#!/venv/bin/python
"""regenerate MANIFEST.json from harness/cXX.py SPECs (claimed) and NOT_CLAIMED reasons below"""
import importlib
import json
import os
import sys

HERE = os.path.dirname(os.path.dirname(os.path.abspath(__file__)))
sys.path.insert(0, os.path.join(HERE, "harness"))
props = [json.loads(l) for l in open(os.path.join(HERE, "properties.jsonl"))]
BASELINE = ("cd /repo && /venv/bin/python -m pytest -ra -q -p no:cacheprovider --timeout=900 "
            "--continue-on-collection-errors")
# properties whose check has been run to completion on the unchanged tree by the coordinator
READY = {"C01", "C02", "C03", "C04", "C05", "C11", "C13", "C14", "C18", "C19", "C06", "C07", "C08", "C09", "C10", "C12", "C15", "C16", "C17", "C20"}
checks, na, served = [], [], []
for p in props:
    pid = p["id"]
    try:
        if not os.path.exists(os.path.join(HERE, "coq", "props", pid + ".v")):
            raise ImportError("no theorem file yet")
        mod = importlib.import_module(pid.lower())
        if mod.SPEC.get("wip") or pid not in READY:
            raise ImportError("work in progress")
    except ImportError:
        na.append({"property_id": pid,
                   "reason": "not built yet in this round (planned, see DESIGN.md section 5); no claim is made"})
        continue
    S = mod.SPEC
    served.append(pid)
    checks.append({
        "property_id": pid,
        "quick_cmd": "cd /verif && ./check %s --tier quick" % pid,
        "thorough_cmd": "cd /verif && ./check %s --tier thorough" % pid,
        "evidence_file": "/verif/evidence/%s.json" % pid,
        "replay_cmd_template": "cd /verif && ./check %s --replay {path}" % pid,
        "engine": "coq-model",
        "level_claimed": {
            "category": "proof",
            "text": S.get("level_text", S["statement"]),
            "design_ref": "DESIGN.md section 5, " + pid,
        },
        "level_note": S.get("level_note", "; ".join(S.get("trusted_base", []))),
        "technique": S.get("technique", "Coq 8.16 theorems over an executable model; generated data + "
                                         "differential correspondence (vm_compute) tie the model to /repo"),
    })
m = {
    "version": 1,
    "setup_cmd": "cd /verif && ./check --setup",
    "hooks": {
        "guard": "LUQUM_VERIF",
        "enable": "no source hooks: checks import a scratch copy of /repo/luqum and wrap callables at run "
                  "time; LUQUM_VERIF=1 is exported for the record",
        "baseline_off_cmd": BASELINE,
        "source_commits": [],
        "add_only": True,
    },
    "engines": [{
        "name": "coq-model", "path": "/verif/coq", "serves_properties": served,
        "kind_free_text": "Coq 8.16.1 development: data generated from /repo on every run "
                          "(gen/translate.py) + hand-written executable Gallina model + theorems; "
                          "correspondence by vm_compute on generated cases; Python oracles search for "
                          "failing inputs when an obligation breaks",
    }],
    "checks": checks,
    "notes": "see DESIGN.md; known findings in known_findings/*.json (one file per property that has findings; repaired defects are recorded in that file or in fixed.json)",
    "not_applicable": na,
}
json.dump(m, open(os.path.join(HERE, "MANIFEST.json"), "w"), indent=1)
print("claimed:", served)
