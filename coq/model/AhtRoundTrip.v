(* AhtRoundTrip.v — the executable guard `rt_ok` of the proved C13 round trip (props/C13r.v).
   Executable definitions only.

   `rt_ok t` says that t is an IMAGE OF THE GRAMMAR built without layout:
     * no head, tail, pos, size anywhere (names are allowed: they are never printed nor compared);
     * an operation has >= 2 operands and is nested the way the parser nests: under an implicit operation
       only OR / AND / operands, under OR only AND / operands, under AND, NOT, +, -, `field:` and ^ only
       operands; anything lower must be wrapped in a Group (FieldGroup directly under a field);
     * a Word value is one TERM lexeme and not AND / OR / NOT (the word TO is allowed where a plain word is,
       but not as a field name, under ~ or after < >); Phrase / Regex values are one PHRASE / REGEX lexeme;
       a field name is one TERM lexeme that is not a reserved word;
     * ~ applies to a Word (Fuzzy) or a Phrase (Proximity); ^ to a term, a ~ or ^ expression, a group or an
       open range (what `unary_expression BOOST` reduces as a whole);
     * degrees and forces: implicit ones have their default value; explicit ones print as a numeral made of
       [0-9.] that reads back to the very same decimal / integer (`deg_ok`, `prox_ok`: canonical numerals);
     * no F4 shape, in the wider form the LR proof covers: in an implicit operation no operand but the
       first starts with `+`, `-` or the word TO;
     * no F15 fusion: `<` / `>` is not followed by a word starting with `=`; a field name does not fuse
       with the text after its colon (`name_glue`: that text does not start with two digits, or the name
       has no colon and does not end in T + two digits);
     * no bracketed Range, BoolOperation, NoneItem (outside the proved class: still validated only). *)
Require Import Base Decimal Tree GenTree GenVisitors GenParser Visitor Eq Traverse Lexer Print Respace AutoHeadTail.

Definition two_digits (s : str) : bool :=
  match s with a :: b :: _ => is_udigit a && is_udigit b | _ => false end.

(* the TERM rule started on `n:rest` stops in front of the colon: the time syntax (?<=T\d{2}):\d{2}(:\d{2})?
   needs two digits after the colon, a colon already consumed by it inside n, or T\d\d at the end of n *)
Definition name_glue (n rest : str) : bool :=
  negb (two_digits rest) || (negb (mem_N c_colon n) && negb (tw (rev n))).

(* an explicit degree / force: printed with [0-9.] only and read back as the same decimal *)
Definition deg_ok (d : dec) : bool :=
  forallb is_numchar (dec_to_fstr d) &&
  match dec_of_lexeme (dec_to_fstr d) with
  | Some x => dec_struct_eqb (dec_normalize x) d
  | None => false
  end.
Definition prox_ok (z : Z) : bool :=
  forallb is_numchar (Z_to_str z) &&
  match int_of_lexeme (Z_to_str z) with Some y => Z.eqb y z | None => false end.

Definition leaf_word (t : item) : bool :=
  match t with Term KWord m v => meta_free m && word_lexeme false v | _ => false end.
Definition leaf_phrase (t : item) : bool :=
  match t with Term KPhrase m v => meta_free m && phrase_lexeme v | _ => false end.
Definition starts_eq (t : item) : bool :=
  match t with Term KWord _ (c :: _) => N.eqb c c_eq | _ => false end.

(* lv: 0 = anywhere an expression stands, 1 = operand of an implicit operation, 2 = operand of OR,
   3 = operand of AND / NOT / + / - / field / ^ *)
Fixpoint rt_at (lv : nat) (t : item) : bool :=
  meta_free (meta_of t) &&
  match t with
  | Term KWord _ v => word_lexeme true v
  | Term KPhrase _ v => phrase_lexeme v
  | Term KRegex _ v => regex_lexeme v
  | Fuzzy _ x d impl => leaf_word x && (if impl then dec_struct_eqb d dec_half else deg_ok d)
  | Proximity _ x z impl => leaf_phrase x && (if impl then Z.eqb z 1 else prox_ok z)
  | Boost _ e f impl =>
      boostable e && rt_at 3 e && (if impl then dec_struct_eqb f dec_one else deg_ok f)
  | Unary _ _ a => rt_at 3 a
  | Grp KGroup _ e => rt_at 0 e
  | Grp KFieldGroup _ _ => false                 (* only as the direct expression of a field *)
  | SearchField _ n e =>
      word_lexeme false n &&
      match e with
      | Grp KFieldGroup me x => meta_free me && rt_at 0 x
      | Grp KGroup _ _ => false
      | _ => rt_at 3 e
      end &&
      match aht e with Some e' => name_glue n (print true e') | None => false end
  | ORange _ _ a incl => (leaf_word a || leaf_phrase a) && (incl || negb (starts_eq a))
  | Op KUnknown _ ops =>
      Nat.leb lv 0 && Nat.leb 2 (length ops) && forallb (rt_at 1) ops &&
      forallb (fun c => negb (is_sign (leftmost c))) (tl ops)
  | Op KOr _ ops => Nat.leb lv 1 && Nat.leb 2 (length ops) && forallb (rt_at 2) ops
  | Op KAnd _ ops => Nat.leb lv 2 && Nat.leb 2 (length ops) && forallb (rt_at 3) ops
  | Op KBool _ _ => false
  | Range _ _ _ _ _ => false
  | NoneItem _ => false
  end.

Definition rt_ok (t : item) : bool := rt_at 0 t.
