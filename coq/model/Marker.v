(* Marker.v — luqum.naming: ExpressionMarker / HTMLMarker on top of visitor.PathTrackingTransformer.
   Executable definitions only.

   Python side modelled:
     HTMLMarker(ok_class, ko_class, element)(tree, paths_ok, paths_ko, parcimonious)
       = ExpressionMarker.__call__ -> PathTrackingMixin.visit (context["path"] = ())
         -> TreeTransformer.visit -> visit_iter -> (no visit_* method: generic_visit)
     ExpressionMarker.generic_visit(node, ctx):
         new_node, = TreeTransformer.generic_visit(node, ctx)
                     (new_node = node.clone_item(); new_node.children = [visited children],
                      child number i visited with path + (i,))
         yield self.mark_node(new_node, ctx["path"], paths_ok, paths_ko, parcimonious)
     HTMLMarker.css_class / mark_node: see below.
     result: new_tree.__str__(head_tail=True)
   None = an exception (TypeError of clone_item, ValueError of the generic children setter).

   Besides the faithful tree-level model (`mark`, `html`) the file defines the segment-level
   semantics the property is stated on (`seg`, `mark_segs`, `flatten`, `texts`, `balanced`,
   `classes_per_char`) and the independent specification `owner_class`. *)
Require Import Base Decimal Tree GenTree GenVisitors Visitor Print Eq.

(* ---------------------------------------------------------------- dispatch *)

(* HTMLMarker defines no visit_<class> method: every node goes to generic_visit.  Tie obligation
   on the generated method tables (checked in props/C17.v). *)
Definition marker_all_generic : bool :=
  forallb (fun c => match dispatch gen_methods_HTMLMarker c with None => true | Some _ => false end)
          concrete_classes
  && match gen_methods_ExpressionMarker with [] => true | _ => false end
  && match gen_methods_PathTrackingTransformer with [] => true | _ => false end.

(* ---------------------------------------------------------------- css_class, mark_node *)

Section Marker.
  Variables okc koc elem : str.        (* ok_class, ko_class, element *)
  Variable parci : bool.               (* parcimonious *)
  Variables ok ko : list path.         (* paths_ok, paths_ko (sets / lists of tuples) *)

  (* css_class: ok_class if path in paths_ok else ko_class if path in paths_ko else None *)
  Definition css (p : path) : option str :=
    if mem_path p ok then Some okc else if mem_path p ko then Some koc else None.

  (* the loop of mark_node, on the reversed path:
       parent_class = None; parent_path = path
       while parent_class is None and parent_path:
           parent_path = parent_path[:-1]; parent_class = css_class(parent_path)          *)
  Fixpoint parent_class_rev (rp : list nat) : option str :=
    match rp with
    | [] => None
    | _ :: rp' =>
        match css (rev rp') with
        | Some c => Some c
        | None => parent_class_rev rp'
        end
    end.
  Definition parent_class (p : path) : option str := parent_class_rev (rev p).

  (* the class of the element that mark_node puts around the node at path p; None = no element:
       add_class = node_class is not None
       if add_class and parcimonious: add_class = node_class != parent_class                *)
  Definition tag_class (p : path) : option str :=
    match css p with
    | None => None
    | Some c =>
        if parci then (if ostr_eqb (Some c) (parent_class p) then None else Some c)
        else Some c
    end.

  (* f'<{element} class="{node_class}">' and f'</{element}>' *)
  Definition open_tag (c : str) : str :=
    [60]%N ++ elem ++ [32;99;108;97;115;115;61;34]%N ++ c ++ [34;62]%N.
  Definition close_tag : str := [60;47]%N ++ elem ++ [62]%N.

  (* node.head = open + node.head ; node.tail = node.tail + close *)
  Definition mark_node (n : item) (tc : option str) : item :=
    match tc with
    | None => n
    | Some c =>
        let n1 := set_head n (open_tag c ++ head_of n) in
        set_tail n1 (tail_of n1 ++ close_tag)
    end.

  (* ---------------------------------------------------------------- the transformer *)

  Definition mark_list (f : item -> path -> option item) (pre : path) :=
    fix go (i : nat) (l : list item) : option (list item) :=
      match l with
      | [] => Some []
      | c :: l' =>
          match f c (pre ++ [i]) with
          | None => None
          | Some c' => match go (S i) l' with None => None | Some cs => Some (c' :: cs) end
          end
      end.

  Fixpoint mark_go (t : item) (pre : path) : option item :=
    let via (cs : list item) :=
      match clone_item t with
      | None => None
      | Some n =>
          match mark_list mark_go pre 0 cs with
          | None => None
          | Some cs' =>
              match set_children n cs' with
              | None => None
              | Some n' => Some (mark_node n' (tag_class pre))
              end
          end
      end in
    match t with
    | Term _ _ _ | NoneItem _ => via []
    | SearchField _ _ e | Grp _ _ e | Boost _ e _ _ => via [e]
    | Fuzzy _ x _ _ | Proximity _ x _ _ => via [x]
    | Unary _ _ a | ORange _ _ a _ => via [a]
    | Range _ lo hi _ _ => via [lo; hi]
    | Op _ _ ops => via ops
    end.
End Marker.

(* ExpressionMarker.__call__: the transformed tree whose heads / tails carry the elements *)
Definition mark (okc koc elem : str) (parci : bool) (t : item) (ok ko : list path) : option item :=
  mark_go okc koc elem parci ok ko t [].

(* HTMLMarker.__call__ *)
Definition html (okc koc elem : str) (parci : bool) (t : item) (ok ko : list path) : option str :=
  match mark okc koc elem parci t ok ko with
  | Some t' => Some (print true t')
  | None => None
  end.

(* ---------------------------------------------------------------- the default copy *)

(* TreeTransformer.generic_visit on every node (what PathTrackingTransformer().visit computes):
   new = node.clone_item(); new.children = [copies of the children].  (Same function as
   Traverse.copy; repeated here so that this file depends on the shared models only.) *)
Definition tcopy_list (f : item -> option item) :=
  fix go (l : list item) : option (list item) :=
    match l with
    | [] => Some []
    | c :: l' =>
        match f c with
        | None => None
        | Some c' => match go l' with None => None | Some cs => Some (c' :: cs) end
        end
    end.

Fixpoint tcopy (t : item) : option item :=
  let via (cs : list item) :=
    match clone_item t with
    | None => None
    | Some n =>
        match tcopy_list tcopy cs with
        | None => None
        | Some cs' => set_children n cs'
        end
    end in
  match t with
  | Term _ _ _ | NoneItem _ => via []
  | SearchField _ _ e | Grp _ _ e | Boost _ e _ _ => via [e]
  | Fuzzy _ x _ _ | Proximity _ x _ _ => via [x]
  | Unary _ _ a | ORange _ _ a _ => via [a]
  | Range _ lo hi _ _ => via [lo; hi]
  | Op _ _ ops => via ops
  end.

(* ---------------------------------------------------------------- the layout of a printed node *)

(* Item.__str__(head_tail=True) of a node that is not a NoneItem is
       head ++ first ++ child_0 ++ follower_0 ++ child_1 ++ follower_1 ++ ... ++ tail
   where `first` and the followers are the node's own text (value, field name, brackets, operator
   words, ~degree, ^force).  Lemma print_parts (proofs/MarkerProofs.v) ties this to Print.print. *)
Definition is_none (t : item) : bool := match t with NoneItem _ => true | _ => false end.

Definition first_piece (t : item) : str :=
  match t with
  | Term _ _ v => v
  | SearchField _ n _ => n ++ [c_colon]
  | Grp _ _ _ => [c_lparen]
  | Range _ _ _ il _ => gen_low_char il
  | Fuzzy _ _ _ _ | Proximity _ _ _ _ | Boost _ _ _ _ | Op _ _ _ | NoneItem _ => []
  | Unary k _ _ => op_str (cls_of_unk k)
  | ORange k _ _ incl => op_str (cls_of_ork k) ++ gen_openrange_char incl
  end.

(* sep.join over n operands: sep after every operand but the last *)
Fixpoint op_followers (sep : str) (n : nat) : list str :=
  match n with
  | O => []
  | S O => [[]]
  | S n' => sep :: op_followers sep n'
  end.

(* the text that follows each child *)
Definition followers (t : item) : list str :=
  match t with
  | Term _ _ _ | NoneItem _ => []
  | SearchField _ _ _ => [[]]
  | Grp _ _ _ => [[c_rparen]]
  | Range _ _ _ _ ih => [s_TO; gen_high_char ih]
  | Fuzzy _ _ d impl => [[c_tilde] ++ (if impl then [] else dec_to_fstr d)]
  | Proximity _ _ d impl => [[c_tilde] ++ (if impl then [] else Z_to_str d)]
  | Boost _ _ f impl => [[c_caret] ++ (if impl then [] else dec_to_fstr f)]
  | Op k _ ops => op_followers (op_str (cls_of_opk k)) (length ops)
  | Unary _ _ _ | ORange _ _ _ _ => [[]]
  end.

(* ---------------------------------------------------------------- segments *)

Inductive seg := Text (s : str) | Open (c : str) | Close.

(* children and followers interleaved; child number i sits at path pre ++ [i] *)
Definition seg_list (f : item -> path -> list seg) (pre : path) :=
  fix go (i : nat) (l : list item) (fs : list str) : list seg :=
    match l, fs with
    | c :: l', s :: fs' => f c (pre ++ [i]) ++ [Text s] ++ go (S i) l' fs'
    | _, _ => []
    end.

Section Segs.
  (* which element, if any, is put around the node at a path *)
  Variable tagc : path -> option str.

  Definition open_segs (p : path) : list seg := match tagc p with Some c => [Open c] | None => [] end.
  Definition close_segs (p : path) : list seg := match tagc p with Some _ => [Close] | None => [] end.

  (* the printed text of a tree, cut into the pieces it is made of (heads, own text, tails), with
     Open / Close where mark_node puts the elements: before the head and after the tail.  A
     NoneItem prints nothing (its head and tail, hence its elements, are never printed). *)
  Fixpoint msegs (t : item) (pre : path) : list seg :=
    let via (cs : list item) :=
      if is_none t then []
      else open_segs pre ++ [Text (head_of t)] ++ [Text (first_piece t)]
           ++ seg_list msegs pre 0 cs (followers t)
           ++ [Text (tail_of t)] ++ close_segs pre in
    match t with
    | Term _ _ _ | NoneItem _ => via []
    | SearchField _ _ e | Grp _ _ e | Boost _ e _ _ => via [e]
    | Fuzzy _ x _ _ | Proximity _ x _ _ => via [x]
    | Unary _ _ a | ORange _ _ a _ => via [a]
    | Range _ lo hi _ _ => via [lo; hi]
    | Op _ _ ops => via ops
    end.
End Segs.

(* the segments of the marker's output: those of the copied tree, with the elements decided by
   mark_node's rule *)
Definition mark_segs (okc koc : str) (parci : bool) (t : item) (ok ko : list path)
  : option (list seg) :=
  match tcopy t with
  | Some t' => Some (msegs (tag_class okc koc parci ok ko) t' [])
  | None => None
  end.

Section Flat.
  Variable elem : str.
  Fixpoint flatten (l : list seg) : str :=
    match l with
    | [] => []
    | Text s :: l' => s ++ flatten l'
    | Open c :: l' => open_tag elem c ++ flatten l'
    | Close :: l' => close_tag elem ++ flatten l'
    end.
End Flat.

(* removing the inserted elements *)
Fixpoint texts (l : list seg) : str :=
  match l with
  | [] => []
  | Text s :: l' => s ++ texts l'
  | _ :: l' => texts l'
  end.

(* properly nested: the usual stack discipline (all elements have the same name, so only the depth
   matters); `bal d l` = l is well nested when read at depth d and ends at depth 0 *)
Fixpoint bal (d : nat) (l : list seg) : bool :=
  match l with
  | [] => Nat.eqb d 0
  | Text _ :: l' => bal d l'
  | Open _ :: l' => bal (S d) l'
  | Close :: l' => match d with O => false | S d' => bal d' l' end
  end.
Definition balanced (l : list seg) : Prop := bal 0 l = true.

(* for every character of the text, the class of the innermost element open at that character *)
Fixpoint cpc (stack : list str) (l : list seg) : list (option str) :=
  match l with
  | [] => []
  | Text s :: l' => map (fun _ => hd_error stack) s ++ cpc stack l'
  | Open c :: l' => cpc (c :: stack) l'
  | Close :: l' => cpc (tl stack) l'
  end.
Definition classes_per_char (l : list seg) : list (option str) := cpc [] l.

(* ---------------------------------------------------------------- independent specification *)

(* n copies of a class *)
Definition paint (c : option str) (s : str) : list (option str) := map (fun _ => c) s.

Definition own_list (f : item -> path -> option str -> list (option str))
                    (pre : path) (c : option str) :=
  fix go (i : nat) (l : list item) (fs : list str) : list (option str) :=
    match l, fs with
    | x :: l', s :: fs' => f x (pre ++ [i]) c ++ paint c s ++ go (S i) l' fs'
    | _, _ => []
    end.

Section Owner.
  Variables okc koc : str.
  Variables ok ko : list path.

  (* for each character of print true t: the class of the innermost marked node whose widened text
     (head and tail included) contains the character.  The characters of the head, of the own
     text and of the tail of a node belong to that node; a node's class is its own css class when
     its path is marked (ok wins over ko), else the class inherited from its nearest marked
     ancestor (`inh`), else none. *)
  Fixpoint owner_go (t : item) (pre : path) (inh : option str) : list (option str) :=
    let c := match css okc koc ok ko pre with Some k => Some k | None => inh end in
    let via (cs : list item) :=
      if is_none t then []
      else paint c (head_of t) ++ paint c (first_piece t)
           ++ own_list owner_go pre c 0 cs (followers t)
           ++ paint c (tail_of t) in
    match t with
    | Term _ _ _ | NoneItem _ => via []
    | SearchField _ _ e | Grp _ _ e | Boost _ e _ _ => via [e]
    | Fuzzy _ x _ _ | Proximity _ x _ _ => via [x]
    | Unary _ _ a | ORange _ _ a _ => via [a]
    | Range _ lo hi _ _ => via [lo; hi]
    | Op _ _ ops => via ops
    end.

  Definition owner_class (t : item) : list (option str) := owner_go t [] None.
End Owner.

(* The same specification in two steps (DESIGN §5 C17): who owns each character — the path of the
   deepest node whose widened text contains it — and which class a path is rendered with — the css
   class of its longest marked prefix (itself included). *)
Definition here (p : path) (s : str) : list path := map (fun _ => p) s.

Definition owners_list (f : item -> path -> list path) (pre : path) :=
  fix go (i : nat) (l : list item) (fs : list str) : list path :=
    match l, fs with
    | x :: l', s :: fs' => f x (pre ++ [i]) ++ here pre s ++ go (S i) l' fs'
    | _, _ => []
    end.

Fixpoint owners_go (t : item) (pre : path) : list path :=
  let via (cs : list item) :=
    if is_none t then []
    else here pre (head_of t) ++ here pre (first_piece t)
         ++ owners_list owners_go pre 0 cs (followers t)
         ++ here pre (tail_of t) in
  match t with
  | Term _ _ _ | NoneItem _ => via []
  | SearchField _ _ e | Grp _ _ e | Boost _ e _ _ => via [e]
  | Fuzzy _ x _ _ | Proximity _ x _ _ => via [x]
  | Unary _ _ a | ORange _ _ a _ => via [a]
  | Range _ lo hi _ _ => via [lo; hi]
  | Op _ _ ops => via ops
  end.

Definition char_owners (t : item) : list path := owners_go t [].

Section Innermost.
  Variables okc koc : str.
  Variables ok ko : list path.
  (* on the reversed path: the path itself if it is marked, else its parent, and so on up to the root *)
  Fixpoint innermost_rev (rp : list nat) : option str :=
    match css okc koc ok ko (rev rp) with
    | Some c => Some c
    | None => match rp with [] => None | _ :: rp' => innermost_rev rp' end
    end.
  Definition innermost_marked (p : path) : option str := innermost_rev (rev p).
End Innermost.

(* ---------------------------------------------------------------- guard for "copy prints alike" *)

(* clone_item re-normalises an explicit Boost force (Boost.__init__ does); a Boost built by the
   constructor or the parser already holds a normalised force, so its text does not change.  This
   is the narrowest condition: the normalised force prints like the stored one. *)
Definition force_stable_node (t : item) : bool :=
  match t with
  | Boost _ _ f false => str_eqb (dec_to_fstr (dec_normalize f)) (dec_to_fstr f)
  | _ => true
  end.

Fixpoint force_stable (t : item) : bool :=
  let via (cs : list item) := force_stable_node t && forallb force_stable cs in
  match t with
  | Term _ _ _ | NoneItem _ => via []
  | SearchField _ _ e | Grp _ _ e | Boost _ e _ _ => via [e]
  | Fuzzy _ x _ _ | Proximity _ x _ _ => via [x]
  | Unary _ _ a | ORange _ _ a _ => via [a]
  | Range _ lo hi _ _ => via [lo; hi]
  | Op _ _ ops => via ops
  end.
