(* TreeInd.v — nested induction principle for [item] and basic facts. *)
Require Import Base Decimal Tree.
From Coq Require Import Lia.

Section ItemInd.
  Variable P : item -> Prop.
  Hypothesis HTerm : forall k m v, P (Term k m v).
  Hypothesis HSF : forall m n e, P e -> P (SearchField m n e).
  Hypothesis HGrp : forall k m e, P e -> P (Grp k m e).
  Hypothesis HRange : forall m lo hi il ih, P lo -> P hi -> P (Range m lo hi il ih).
  Hypothesis HFuzzy : forall m t d i, P t -> P (Fuzzy m t d i).
  Hypothesis HProx : forall m t d i, P t -> P (Proximity m t d i).
  Hypothesis HBoost : forall m e f i, P e -> P (Boost m e f i).
  Hypothesis HOp : forall k m ops, Forall P ops -> P (Op k m ops).
  Hypothesis HUnary : forall k m a, P a -> P (Unary k m a).
  Hypothesis HORange : forall k m a i, P a -> P (ORange k m a i).
  Hypothesis HNone : forall m, P (NoneItem m).

  Fixpoint item_ind' (t : item) : P t :=
    match t with
    | Term k m v => HTerm k m v
    | SearchField m n e => HSF m n e (item_ind' e)
    | Grp k m e => HGrp k m e (item_ind' e)
    | Range m lo hi il ih => HRange m lo hi il ih (item_ind' lo) (item_ind' hi)
    | Fuzzy m t d i => HFuzzy m t d i (item_ind' t)
    | Proximity m t d i => HProx m t d i (item_ind' t)
    | Boost m e f i => HBoost m e f i (item_ind' e)
    | Op k m ops =>
        HOp k m ops
          ((fix go (l : list item) : Forall P l :=
              match l with
              | [] => Forall_nil P
              | c :: l' => Forall_cons c (item_ind' c) (go l')
              end) ops)
    | Unary k m a => HUnary k m a (item_ind' a)
    | ORange k m a i => HORange k m a i (item_ind' a)
    | NoneItem m => HNone m
    end.
End ItemInd.

(* basic equalities on strings / paths *)
Lemma str_eqb_refl : forall s, str_eqb s s = true.
Proof. induction s as [|c s IH]; simpl; [reflexivity|]. rewrite N.eqb_refl, IH. reflexivity. Qed.

Lemma str_eqb_eq : forall a b, str_eqb a b = true <-> a = b.
Proof.
  induction a as [|x a IH]; intros [|y b]; simpl; split; intro H; try reflexivity; try discriminate.
  - apply andb_prop in H as [H1 H2]. apply N.eqb_eq in H1. apply IH in H2. congruence.
  - inversion H; subst. rewrite N.eqb_refl. simpl. apply IH. reflexivity.
Qed.

Lemma list_eqb_eq {A} (eqb : A -> A -> bool) :
  (forall x y, eqb x y = true <-> x = y) ->
  forall a b, list_eqb eqb a b = true <-> a = b.
Proof.
  intros Heq. induction a as [|x a IH]; intros [|y b]; simpl; split; intro H;
    try reflexivity; try discriminate.
  - apply andb_prop in H as [H1 H2]. apply Heq in H1. apply IH in H2. congruence.
  - inversion H; subst. apply andb_true_intro. split; [apply Heq|apply IH]; reflexivity.
Qed.

Lemma path_eqb_eq : forall a b, path_eqb a b = true <-> a = b.
Proof. apply list_eqb_eq. intros x y. apply Nat.eqb_eq. Qed.

Lemma mem_path_In : forall p l, mem_path p l = true <-> In p l.
Proof.
  induction l as [|x l IH]; simpl; [split; [discriminate|tauto]|].
  rewrite orb_true_iff, IH, path_eqb_eq. split; intros [H|H]; auto.
Qed.

Lemma mem_str_In : forall s l, mem_str s l = true <-> In s l.
Proof.
  induction l as [|x l IH]; simpl; [split; [discriminate|tauto]|].
  rewrite orb_true_iff, IH, str_eqb_eq. split; intros [H|H]; auto.
Qed.

(* ---------------------------------------------------------------- generic tree facts *)

Lemma item_children_ind (P : item -> Prop) :
  (forall t, Forall P (children t) -> P t) -> forall t, P t.
Proof.
  intros H. induction t using item_ind'; apply H; simpl; repeat constructor; assumption.
Qed.

Lemma children_rebuild t cs :
  length cs = length (children t) -> children (rebuild t cs) = cs.
Proof.
  unfold rebuild. destruct t; simpl; intros Hl;
    repeat (destruct cs as [|? cs]; simpl in Hl; try discriminate; try reflexivity).
Qed.

Lemma meta_rebuild t cs : meta_of (rebuild t cs) = meta_of t.
Proof.
  unfold rebuild. destruct t; simpl;
    repeat (destruct cs as [|? cs]; simpl; try reflexivity).
Qed.

Lemma cls_rebuild t cs : cls_of (rebuild t cs) = cls_of t.
Proof.
  unfold rebuild. destruct t; simpl;
    repeat (destruct cs as [|? cs]; simpl; try reflexivity).
Qed.

Lemma meta_set_meta t m : meta_of (set_meta t m) = m.
Proof. destruct t; reflexivity. Qed.

Lemma children_set_meta t m : children (set_meta t m) = children t.
Proof. destruct t; reflexivity. Qed.

Lemma cls_set_meta t m : cls_of (set_meta t m) = cls_of t.
Proof. destruct t; reflexivity. Qed.

