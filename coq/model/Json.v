(* Json.v — the JSON-compatible Python values the Elasticsearch query builder produces and accepts
   (field_options): None, bool, numbers, str, list, dict.  Executable definitions only.

   * dicts are association lists in INSERTION order (Python 3.7+ dict semantics): `obj_set` keeps
     the position of an existing key and replaces its value, appends otherwise; `obj_pop` removes.
     A Python dict never has two equal keys: `obj_wf`.
   * numbers: the builder calls float(node.force) / float(node.degree).  Floats are NOT modelled:
     a number carries the exact decimal (Decimal.dec) that float() is applied to.  The correspondence
     harness converts the implementation's floats back (see harness/es_common.py) and numbers are
     compared numerically (dec_eqb).
   * canonical comparison `json_ceqb`: dict key order ignored, list order kept. *)
Require Import Base Decimal.

Inductive json :=
| JNull
| JBool (b : bool)
| JNum (d : dec)
| JStr (s : str)
| JList (l : list json)
| JObj (kv : list (str * json)).

Definition jobj := list (str * json).

(* ---- dict operations (insertion ordered) *)
Fixpoint obj_get {A} (k : str) (o : list (str * A)) : option A :=
  match o with
  | [] => None
  | (k', v) :: o' => if str_eqb k k' then Some v else obj_get k o'
  end.

Definition obj_has {A} (k : str) (o : list (str * A)) : bool :=
  match obj_get k o with Some _ => true | None => false end.

(* d[k] = v *)
Fixpoint obj_set {A} (k : str) (v : A) (o : list (str * A)) : list (str * A) :=
  match o with
  | [] => [(k, v)]
  | (k', v') :: o' => if str_eqb k k' then (k', v) :: o' else (k', v') :: obj_set k v o'
  end.

(* d.pop(k, None): the dict without k (first binding; a wf dict has at most one) *)
Fixpoint obj_remove {A} (k : str) (o : list (str * A)) : list (str * A) :=
  match o with
  | [] => []
  | (k', v') :: o' => if str_eqb k k' then o' else (k', v') :: obj_remove k o'
  end.

Definition obj_keys {A} (o : list (str * A)) : list str := map fst o.

Fixpoint nodup_keys (l : list str) : bool :=
  match l with [] => true | k :: l' => negb (mem_str k l') && nodup_keys l' end.

(* ---- Python truthiness of a JSON value: `if not result` *)
Definition json_truthy (j : json) : bool :=
  match j with
  | JNull => false
  | JBool b => b
  | JNum d => negb (N.eqb (dcoef d) 0)
  | JStr s => match s with [] => false | _ => true end
  | JList l => match l with [] => false | _ => true end
  | JObj o => match o with [] => false | _ => true end
  end.

(* ---- well-formedness: every dict has pairwise distinct keys ("plain JSON data") *)
Fixpoint json_wf (j : json) : bool :=
  match j with
  | JNull | JBool _ | JNum _ | JStr _ => true
  | JList l => (fix go (l : list json) : bool :=
                  match l with [] => true | x :: l' => json_wf x && go l' end) l
  | JObj o => nodup_keys (map fst o) &&
              (fix go (o : list (str * json)) : bool :=
                 match o with [] => true | (_, v) :: o' => json_wf v && go o' end) o
  end.

(* ---- canonical equality: dict key order ignored, list order kept, numbers numerically.
   On wf values this is equality of the Python values (dict == dict, list == list).
   bool and number are kept apart (Python's True == 1 is not used). *)
Fixpoint json_ceqb (a b : json) : bool :=
  match a, b with
  | JNull, JNull => true
  | JBool x, JBool y => Bool.eqb x y
  | JNum x, JNum y => dec_eqb x y
  | JStr x, JStr y => str_eqb x y
  | JList la, JList lb =>
      (fix go (la lb : list json) : bool :=
         match la, lb with
         | [], [] => true
         | x :: la', y :: lb' => json_ceqb x y && go la' lb'
         | _, _ => false
         end) la lb
  | JObj oa, JObj ob =>
      Nat.eqb (length oa) (length ob) &&
      (fix go (oa : list (str * json)) : bool :=
         match oa with
         | [] => true
         | (k, v) :: oa' =>
             match obj_get k ob with
             | Some v' => json_ceqb v v' && go oa'
             | None => false
             end
         end) oa
  | _, _ => false
  end.

(* structural equality (key order significant) *)
Fixpoint json_eqb (a b : json) : bool :=
  match a, b with
  | JNull, JNull => true
  | JBool x, JBool y => Bool.eqb x y
  | JNum x, JNum y => dec_struct_eqb x y
  | JStr x, JStr y => str_eqb x y
  | JList la, JList lb =>
      (fix go (la lb : list json) : bool :=
         match la, lb with
         | [], [] => true
         | x :: la', y :: lb' => json_eqb x y && go la' lb'
         | _, _ => false
         end) la lb
  | JObj oa, JObj ob =>
      (fix go (oa ob : list (str * json)) : bool :=
         match oa, ob with
         | [], [] => true
         | (k, v) :: oa', (k', v') :: ob' => str_eqb k k' && json_eqb v v' && go oa' ob'
         | _, _ => false
         end) oa ob
  | _, _ => false
  end.

(* ---- string helpers used by the builder model *)
Fixpoint starts_with (p s : str) : bool :=
  match p, s with
  | [], _ => true
  | x :: p', y :: s' => N.eqb x y && starts_with p' s'
  | _ :: _, [] => false
  end.

(* `p in s` for str (substring) *)
Fixpoint contains (p s : str) : bool :=
  starts_with p s || match s with [] => false | _ :: s' => contains p s' end.

(* s.split(c): never empty; "" -> [""] *)
Fixpoint split_on (c : char) (s : str) : list str :=
  match s with
  | [] => [[]]
  | x :: s' =>
      match split_on c s' with
      | [] => [[]]                                  (* unreachable *)
      | w :: ws => if N.eqb x c then [] :: w :: ws else (x :: w) :: ws
      end
  end.

(* s.rsplit(c, 1)[0]: what precedes the LAST c, or s itself when there is none *)
Definition rsplit1_head (c : char) (s : str) : str :=
  match rev (split_on c s) with
  | [] => s
  | [_] => s
  | _ :: rinit => join [c] (rev rinit)
  end.

Definition in_ranges (ranges : list (N * N)) (c : char) : bool :=
  existsb (fun r => (fst r <=? c)%N && (c <=? snd r)%N) ranges.
