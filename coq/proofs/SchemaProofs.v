(* SchemaProofs.v — lemmas for property C19: the builder on the two spellings of a field query (for ANY
   options without field_options), the schema analyzer's lists, spellings of field specifications. *)
Require Import Base Decimal Tree GenTree GenVisitors GenChars GenEs Visitor Json EsSpecs EsCheck EsBuild Schema SchemaSpec.
From Coq Require Import Lia.
Require Import TreeInd.



Definition word_clause (cfg : es_config) (comps : list str) (x : str) : json :=
  clause (dotted comps) (mem_str (dotted comps) (c_not_analyzed cfg)) x.

Lemma chk_handler_field : chk_handler_of CSearchField = HField. Proof. reflexivity. Qed.
Lemma chk_handler_word : chk_handler_of CWord = HFinal. Proof. reflexivity. Qed.
Lemma bhandler_field cfg : bhandler_of cfg CSearchField = BField. Proof. reflexivity. Qed.
Lemma bhandler_word cfg : bhandler_of cfg CWord = BWord. Proof. reflexivity. Qed.

Lemma check_dotted env mf mw f x :
  check_nested env (SearchField mf f (Term KWord mw x)) = check_final env (split_on c_dot f).
Proof.
  unfold check_nested. cbn [chk_go]. unfold chk_via at 1. cbn [cls_of]. rewrite chk_handler_field.
  cbn [field_name app chk_walk]. cbn [chk_go]. unfold chk_via. cbn [cls_of cls_of_termk].
  rewrite chk_handler_word. destruct (check_final env (split_on c_dot f)); reflexivity.
Qed.

Lemma word_json cfg comps x :
  c_field_options cfg = [] -> has_wildcard x = false ->
  leaf_json cfg (mk_word x (if negb (mem_str (dotted comps) (c_not_analyzed cfg)) then k_match else k_term)
                         comps None) = ROk (word_clause cfg comps x).
Proof.
  intros Hfo Hw. unfold leaf_json, word_clause, clause, mk_word, leaf_field. cbn [l_kind l_q l_fields l_name l_method l_addkeys].
  assert (Hstar : str_eqb x k_star = false).
  { destruct x as [|c [|c' x']]; [reflexivity| |].
    - cbn. destruct (N.eqb c c_star) eqn:E; [|reflexivity].
      apply N.eqb_eq in E. subst c. discriminate Hw.
    - cbn. apply andb_false_r. }
  rewrite Hstar. unfold leaf_method, leaf_field, leaf_has_wildcard, base_options, field_opts.
  cbn [l_kind l_q l_fields l_name l_method l_addkeys]. rewrite Hw, Hfo. cbn [obj_get obj_remove].
  destruct (mem_str (dotted comps) (c_not_analyzed cfg)); cbn [negb andb]; reflexivity.
Qed.

Lemma visit_word cfg env mw x cx :
  m_name mw = None ->
  visit cfg env (Term KWord mw x) None cx =
  ROk [ELeaf (mk_word x (if ctx_is_analyzed cfg cx
                         then (if c_match_word_as_phrase cfg then k_match_phrase else k_match)
                         else k_term) (ctx_fields cfg cx) (x_name cx))].
Proof.
  intros Hn. cbn [visit]. unfold visit_via. cbn [cls_of cls_of_termk]. rewrite bhandler_word.
  cbn [value_of]. unfold get_name, name_of. cbn [meta_of]. rewrite Hn. reflexivity.
Qed.

Definition dotted_leaf (cfg : es_config) (comps : list str) (x : str) : eitem :=
  ELeaf (mk_word x (if negb (mem_str (dotted comps) (c_not_analyzed cfg)) then k_match else k_term) comps None).

Lemma visit_dotted cfg env mf mw f x :
  m_name mf = None -> m_name mw = None -> c_match_word_as_phrase cfg = false ->
  visit cfg env (SearchField mf f (Term KWord mw x)) None ctx0 =
  ROk [match split_nested env f ctx0 with
       | Some p => ENested p None (dotted_leaf cfg (split_on c_dot f) x)
       | None => dotted_leaf cfg (split_on c_dot f) x
       end].
Proof.
  intros Hf Hw Hp. cbn [visit]. unfold visit_via at 1. cbn [cls_of]. rewrite bhandler_field.
  cbn [field_name]. unfold propagate_name, name_of, get_name, name_of. cbn [meta_of]. rewrite Hf.
  unfold field_prefix at 1. cbn [ctx0 x_prefix x_name app].
  cbn [walk]. rewrite visit_word by exact Hw.
  unfold ctx_is_analyzed, ctx_fields. cbn [x_analyzed x_prefix x_name app single]. rewrite Hp.
  fold (dotted_leaf cfg (split_on c_dot f) x).
  destruct (split_nested env f ctx0); reflexivity.
Qed.

Theorem build_dotted cfg mf mw f x :
  c_field_options cfg = [] -> c_match_word_as_phrase cfg = false ->
  m_name mf = None -> m_name mw = None -> has_wildcard x = false ->
  build cfg (SearchField mf f (Term KWord mw x)) =
  match check_final (ev_chk (mk_env cfg)) (split_on c_dot f) with
  | Some e => RExc e
  | None => ROk (wrap_nested (split_nested (mk_env cfg) f ctx0) (word_clause cfg (split_on c_dot f) x))
  end.
Proof.
  intros Hfo Hp Hf Hw Hx. unfold build, build_etree, build_etree_env.
  rewrite check_dotted. destruct (check_final _ _); [reflexivity|].
  rewrite visit_dotted by assumption.
  unfold dotted_leaf.
  destruct (split_nested (mk_env cfg) f ctx0) as [p|]; cbn [ejson wrap_nested];
    rewrite word_json by assumption; reflexivity.
Qed.

(* ---------------------------------------------------------------- split / join *)

Lemma split_nodot s : nodot s = true -> split_on c_dot s = [s].
Proof.
  unfold nodot. induction s as [|x s IH]; [reflexivity|]. cbn [mem_N]. intros H.
  apply negb_true_iff in H. apply orb_false_iff in H. destruct H as [H1 H2].
  cbn [split_on]. rewrite IH by (apply negb_true_iff; exact H2).
  rewrite N.eqb_sym in H1. rewrite H1. reflexivity.
Qed.

Lemma split_app a rest : nodot a = true -> split_on c_dot (a ++ c_dot :: rest) = a :: split_on c_dot rest.
Proof.
  unfold nodot. induction a as [|y a IH]; intros H.
  - cbn [app split_on]. rewrite N.eqb_refl. destruct (split_on c_dot rest); reflexivity.
  - cbn [mem_N] in H. apply negb_true_iff in H. apply orb_false_iff in H. destruct H as [H1 H2].
    cbn [app split_on]. rewrite IH by (apply negb_true_iff; exact H2).
    rewrite N.eqb_sym in H1. rewrite H1. reflexivity.
Qed.

Lemma split_dotted cs : cs <> [] -> forallb nodot cs = true -> split_on c_dot (dotted cs) = cs.
Proof.
  unfold dotted. induction cs as [|a [|b l] IH]; intros Hne H; [congruence| |].
  - cbn [join]. cbn in H. apply andb_true_iff in H. apply split_nodot. apply H.
  - cbn [forallb] in H. apply andb_true_iff in H. destruct H as [Ha H].
    change (join [c_dot] (a :: b :: l)) with (a ++ c_dot :: join [c_dot] (b :: l)).
    rewrite split_app by exact Ha. f_equal. apply IH; [discriminate|exact H].
Qed.

(* ---------------------------------------------------------------- the chain spelling *)

Lemma chk_handler_fgroup : chk_handler_of CFieldGroup = HGeneric. Proof. reflexivity. Qed.
Lemma bhandler_fgroup cfg : bhandler_of cfg CFieldGroup = BGeneric. Proof. reflexivity. Qed.

Lemma chk_chain env cs x t :
  chain cs x t -> forallb nodot cs = true -> forall pre, chk_go env t pre = check_final env (pre ++ cs).
Proof.
  induction 1 as [c x mf mw Hf Hw | c cs x mf mg t Hf Hg Hne Hc IH]; intros Hd pre.
  - cbn in Hd. apply andb_true_iff in Hd. destruct Hd as [Hd _].
    cbn [chk_go]. unfold chk_via at 1. cbn [cls_of]. rewrite chk_handler_field.
    cbn [field_name chk_walk]. rewrite (split_nodot _ Hd). cbn [chk_go]. unfold chk_via. cbn [cls_of cls_of_termk].
    rewrite chk_handler_word. destruct (check_final env (pre ++ [c])); reflexivity.
  - cbn [forallb] in Hd. apply andb_true_iff in Hd. destruct Hd as [Hd Hds].
    cbn [chk_go]. unfold chk_via at 1. cbn [cls_of]. rewrite chk_handler_field.
    cbn [field_name chk_walk]. rewrite (split_nodot _ Hd). cbn [chk_go]. unfold chk_via at 1.
    cbn [cls_of cls_of_groupk]. rewrite chk_handler_fgroup. cbn [chk_walk].
    rewrite (IH Hds). rewrite <- app_assoc. cbn [app].
    destruct (check_final env (pre ++ c :: cs)); reflexivity.
Qed.

Fixpoint chain_etree (cfg : es_config) (np : list str) (pre cs : list str) (x : str) : eitem :=
  match cs with
  | [] => dotted_leaf cfg pre x
  | c :: cs' =>
      let inner := chain_etree cfg np (pre ++ [c]) cs' x in
      match try_prefixes np pre [c] 1 with
      | Some p => if is_enested inner then inner else mk_nested p None inner
      | None => inner
      end
  end.

Lemma visit_chain cfg env cs x t :
  c_match_word_as_phrase cfg = false ->
  chain cs x t -> forallb nodot cs = true ->
  forall pfx an, visit cfg env t None (mkECtx pfx an None) =
                 ROk [chain_etree cfg (ev_nested_prefixes env)
                                  (match pfx with Some p => p | None => [] end) cs x].
Proof.
  intros Hp. induction 1 as [c x mf mw Hf Hw | c cs x mf mg t Hf Hg Hne Hc IH]; intros Hd pfx an.
  - cbn in Hd. apply andb_true_iff in Hd. destruct Hd as [Hd _].
    cbn [visit]. unfold visit_via at 1. cbn [cls_of]. rewrite bhandler_field.
    cbn [field_name]. unfold propagate_name, name_of, get_name, name_of. cbn [meta_of]. rewrite Hf.
    unfold field_prefix at 1. cbn [x_prefix x_name]. rewrite (split_nodot _ Hd).
    cbn [walk]. rewrite visit_word by exact Hw.
    unfold ctx_is_analyzed, ctx_fields. cbn [x_analyzed x_prefix x_name app single]. rewrite Hp.
    unfold split_nested. rewrite (split_nodot _ Hd). unfold field_prefix. cbn [x_prefix length].
    cbn [chain_etree]. fold (dotted_leaf cfg ((match pfx with Some p => p | None => [] end) ++ [c]) x).
    destruct (try_prefixes _ _ _ _); reflexivity.
  - cbn [forallb] in Hd. apply andb_true_iff in Hd. destruct Hd as [Hd Hds].
    cbn [visit]. unfold visit_via at 1. cbn [cls_of]. rewrite bhandler_field.
    cbn [field_name]. unfold propagate_name at 1, name_of, get_name, name_of. cbn [meta_of]. rewrite Hf.
    unfold field_prefix at 1. cbn [x_prefix x_name]. rewrite (split_nodot _ Hd).
    cbn [walk]. cbn [visit]. unfold visit_via at 1. cbn [cls_of cls_of_groupk]. rewrite bhandler_fgroup.
    unfold propagate_name, name_of. cbn [meta_of]. rewrite Hg. cbn [walk].
    rewrite (IH Hds). cbn [app single].
    unfold split_nested. rewrite (split_nodot _ Hd). unfold field_prefix. cbn [x_prefix length].
    cbn [chain_etree].
    destruct (try_prefixes _ _ _ _); [|reflexivity].
    destruct (is_enested _); reflexivity.
Qed.

Lemma try_prefixes_cons np pre c cs k :
  try_prefixes np pre (c :: cs) (S k) =
  match try_prefixes np (pre ++ [c]) cs k with
  | Some p => Some p
  | None => try_prefixes np pre [c] 1
  end.
Proof.
  induction k as [|k IH].
  - reflexivity.
  - change (try_prefixes np pre (c :: cs) (S (S k))) with
      (if mem_str (dotted (pre ++ firstn (S (S k)) (c :: cs))) np
       then Some (dotted (pre ++ firstn (S (S k)) (c :: cs)))
       else try_prefixes np pre (c :: cs) (S k)).
    change (try_prefixes np (pre ++ [c]) cs (S k)) with
      (if mem_str (dotted ((pre ++ [c]) ++ firstn (S k) cs)) np
       then Some (dotted ((pre ++ [c]) ++ firstn (S k) cs))
       else try_prefixes np (pre ++ [c]) cs k).
    change (firstn (S (S k)) (c :: cs)) with (c :: firstn (S k) cs).
    rewrite <- app_assoc. cbn [app].
    destruct (mem_str _ np); [reflexivity|exact IH].
Qed.

Lemma chain_etree_longest cfg np x cs : forall pre,
  chain_etree cfg np pre cs x =
  match try_prefixes np pre cs (length cs) with
  | Some p => ENested p None (dotted_leaf cfg (pre ++ cs) x)
  | None => dotted_leaf cfg (pre ++ cs) x
  end.
Proof.
  induction cs as [|c cs IH]; intros pre.
  - cbn. rewrite app_nil_r. reflexivity.
  - cbn [chain_etree length]. rewrite (try_prefixes_cons np pre c cs (length cs)). rewrite IH. rewrite <- app_assoc. cbn [app].
    destruct (try_prefixes np (pre ++ [c]) cs (length cs)) as [p'|].
    + cbn [is_enested]. destruct (try_prefixes np pre [c] 1); reflexivity.
    + destruct (try_prefixes np pre [c] 1); reflexivity.
Qed.

Theorem build_chain cfg cs x t :
  c_field_options cfg = [] -> c_match_word_as_phrase cfg = false -> has_wildcard x = false ->
  chain cs x t -> forallb nodot cs = true ->
  build cfg t =
  match check_final (ev_chk (mk_env cfg)) cs with
  | Some e => RExc e
  | None => ROk (wrap_nested (try_prefixes (ev_nested_prefixes (mk_env cfg)) [] cs (length cs))
                             (word_clause cfg cs x))
  end.
Proof.
  intros Hfo Hp Hx Hc Hd. unfold build, build_etree, build_etree_env, check_nested.
  rewrite (chk_chain _ _ _ _ Hc Hd []). cbn [app]. destruct (check_final _ _); [reflexivity|].
  unfold ctx0. rewrite (visit_chain _ _ _ _ _ Hp Hc Hd None None). rewrite chain_etree_longest. cbn [app].
  unfold dotted_leaf.
  destruct (try_prefixes _ _ _ _) as [p|]; cbn [ejson wrap_nested];
    rewrite word_json by assumption; reflexivity.
Qed.

(* both spellings of the same dot-free path give the same outcome, for ANY options without field_options *)
Theorem spellings_agree cfg cs x t mf mw :
  c_field_options cfg = [] -> c_match_word_as_phrase cfg = false -> has_wildcard x = false ->
  m_name mf = None -> m_name mw = None ->
  cs <> [] -> forallb nodot cs = true -> chain cs x t ->
  build cfg t = build cfg (SearchField mf (dotted cs) (Term KWord mw x)).
Proof.
  intros Hfo Hp Hx Hf Hw Hne Hd Hc.
  rewrite (build_chain _ _ _ _ Hfo Hp Hx Hc Hd).
  rewrite (build_dotted _ _ _ _ _ Hfo Hp Hf Hw Hx).
  unfold split_nested. rewrite (split_dotted _ Hne Hd). reflexivity.
Qed.

(* ================================================================ schema side *)
Definition na_entry (e : entry) : bool := not_analyzed_def (e_def e).

(* entries of the walk with the same dotted name agree on "not analysed" *)
Definition coherent (s : schema) : bool :=
  let es := iter_fields s true in
  forallb (fun e => forallb (fun e' => negb (str_eqb (e_dot e) (e_dot e')) ||
                                      Bool.eqb (na_entry e) (na_entry e')) es) es.

Lemma not_analyzed_fields_spec s f :
  mem_str f (not_analyzed_fields s) = true <->
  exists e, In e (iter_fields s true) /\ e_dot e = f /\ not_analyzed_def (e_def e) = true.
Proof.
  unfold not_analyzed_fields. rewrite mem_str_In, in_map_iff. split.
  - intros [e [Hd Hin]]. apply filter_In in Hin. destruct Hin as [Hin Hna]. exists e. auto.
  - intros [e [Hin [Hd Hna]]]. exists e. split; [exact Hd|]. apply filter_In. auto.
Qed.

Lemma object_fields_spec s f :
  mem_str f (object_fields s) = true <->
  exists e, In e (iter_fields s false) /\ e_dot e = f /\
            type_is (parent_type (e_parents e)) k_object = true /\
            type_is (fd_type (e_def e)) k_object = false /\ type_is (fd_type (e_def e)) k_nested = false.
Proof.
  unfold object_fields. rewrite mem_str_In, in_map_iff. split.
  - intros [e [Hd Hin]]. apply filter_In in Hin. destruct Hin as [Hin H].
    apply andb_true_iff in H. destruct H as [H1 H2]. apply negb_true_iff, orb_false_iff in H2.
    exists e. tauto.
  - intros [e [Hin [Hd [H1 [H2 H3]]]]]. exists e. split; [exact Hd|]. apply filter_In. split; [exact Hin|].
    rewrite H1, H2, H3. reflexivity.
Qed.

(* each mapped field is listed in not_analyzed_fields iff its (overlaid) definition is "not analysed" *)
Lemma not_analyzed_iff s e :
  coherent s = true -> In e (iter_fields s true) ->
  mem_str (e_dot e) (not_analyzed_fields s) = not_analyzed_def (e_def e).
Proof.
  intros Hc Hin. destruct (not_analyzed_def (e_def e)) eqn:Hna.
  - apply not_analyzed_fields_spec. exists e. auto.
  - destruct (mem_str (e_dot e) (not_analyzed_fields s)) eqn:Hm; [|reflexivity].
    apply not_analyzed_fields_spec in Hm. destruct Hm as [e' [Hin' [Hd' Hna']]].
    unfold coherent in Hc. rewrite forallb_forall in Hc. specialize (Hc e Hin).
    rewrite forallb_forall in Hc. specialize (Hc e' Hin').
    rewrite <- Hd' in Hc. rewrite str_eqb_refl in Hc. cbn in Hc. unfold na_entry in Hc.
    rewrite Hna, Hna' in Hc. discriminate Hc.
Qed.


Lemma leaf_not_analyzed d :
  is_container_type d = false -> not_analyzed_def d = negb (analysed_text d).
Proof.
  unfold is_container_type, not_analyzed_def, analysed_text. intros H. apply orb_false_iff in H.
  destruct H as [Ho Hn]. rewrite Ho, Hn.
  destruct (fd_type d) as [ty|]; [|reflexivity].
  unfold type_is. cbn [ostr_eqb].
  destruct (str_eqb ty k_text) eqn:Et; destruct (str_eqb ty k_string) eqn:Es;
    destruct (str_eqb _ k_not_analyzed); try reflexivity.
  all: apply str_eqb_eq in Et; apply str_eqb_eq in Es; subst ty; discriminate Es.
Qed.

(* a sub-field's overlaid definition analyses like its own one as soon as it does not inherit the index
   of a legacy string parent (negation = finding F12b) *)

Lemma merge_not_analyzed p sd :
  sub_self_described p sd = true -> not_analyzed_def (merge_def p sd) = not_analyzed_def sd.
Proof.
  destruct p as [pt pi pf pp], sd as [st si sf sp]. unfold sub_self_described, not_analyzed_def.
  cbn [merge_def fd_type fd_index]. destruct st as [ty|]; [|discriminate].
  intros H. apply orb_true_iff in H. destruct H as [H|H].
  - apply negb_true_iff in H. unfold type_is. cbn [ostr_eqb]. rewrite H. reflexivity.
  - destruct si as [i|]; [reflexivity|]. destruct pi; [discriminate|reflexivity].
Qed.

(* ================================================================ spellings of field specifications *)
Section SpecInd.
  Variable P : spec -> Prop.
  Hypothesis HN : P SNone.
  Hypothesis HL : forall l, P (SList l).
  Hypothesis HD : forall kv, Forall (fun e => P (snd e)) kv -> P (SDict kv).
  Fixpoint spec_ind' (s : spec) : P s :=
    match s with
    | SNone => HN
    | SList l => HL l
    | SDict kv =>
        HD kv ((fix go (kv : list (str * spec)) : Forall (fun e => P (snd e)) kv :=
                  match kv with
                  | [] => Forall_nil _
                  | e :: kv' => Forall_cons e (spec_ind' (snd e)) (go kv')
                  end) kv)
    end.
End SpecInd.

(* the component paths a specification denotes, written from the documentation of the specs:
   a list denotes its names; a dict denotes its keys whose value is empty (None, {}, []) and, for the
   other keys, the key followed by what the value denotes *)
Inductive denotes : spec -> list str -> Prop :=
| den_list l k : In k l -> denotes (SList l) [k]
| den_leaf kv k v : In (k, v) kv -> spec_falsy v = true -> denotes (SDict kv) [k]
| den_sub kv k v p : In (k, v) kv -> spec_falsy v = false -> denotes v p -> denotes (SDict kv) (k :: p).

Definition names (s : spec) (x : str) : Prop := exists p, denotes s p /\ dotted p = x.
Definition same_field_set (s1 s2 : spec) : Prop := forall x, names s1 x <-> names s2 x.

Lemma flatten_dict_go kv :
  (fix go (kv : list (str * spec)) : list (list str) :=
     match kv with
     | [] => []
     | (k, v) :: kv' => map (fun p => k :: p) (flatten_paths v) ++ go kv'
     end) kv = flat_map (fun e => map (fun p => fst e :: p) (flatten_paths (snd e))) kv.
Proof. induction kv as [|[k v] kv IH]; [reflexivity|]. cbn [flat_map fst snd]. rewrite IH. reflexivity. Qed.

Lemma flatten_paths_spec : forall s p,
  In p (flatten_paths s) <-> (if spec_falsy s then p = [] else denotes s p).
Proof.
  induction s as [|l|kv IH] using spec_ind'; intros p.
  - cbn. split; [intros [H|[]]; auto|intros ->; auto].
  - destruct l as [|k l].
    + cbn. split; [intros [H|[]]; auto|intros ->; auto].
    + change (flatten_paths (SList (k :: l))) with (map (fun k => [k]) (k :: l)).
      cbn [spec_falsy]. rewrite in_map_iff. split.
      * intros [k' [<- Hin]]. constructor. exact Hin.
      * intros H. inversion H; subst. eexists; split; [reflexivity|assumption].
  - destruct kv as [|e kv].
    + cbn. split; [intros [H|[]]; auto|intros ->; auto].
    + remember (e :: kv) as kv0 eqn:Ekv.
      assert (Hf : spec_falsy (SDict kv0) = false) by (subst; reflexivity). rewrite Hf.
      assert (Hfl : flatten_paths (SDict kv0) =
                    flat_map (fun e => map (fun p => fst e :: p) (flatten_paths (snd e))) kv0).
      { subst kv0. cbn [flatten_paths]. rewrite <- flatten_dict_go. reflexivity. }
      rewrite Hfl, in_flat_map. clear Hfl Hf Ekv. rewrite Forall_forall in IH. split.
      * intros [[k v] [Hin Hp]]. cbn [fst snd] in Hp. apply in_map_iff in Hp. destruct Hp as [q [<- Hq]].
        apply (IH _ Hin) in Hq. cbn [snd] in Hq. destruct (spec_falsy v) eqn:Ev.
        -- subst q. eapply den_leaf; eauto.
        -- eapply den_sub; eauto.
      * intros H. inversion H as [ | kv' k v Hin Hfa | kv' k v q Hin Hfa Hden]; subst.
        -- exists (k, v). split; [assumption|]. cbn [fst snd]. apply in_map_iff. exists []. split; [reflexivity|].
           apply (IH _ Hin). cbn [snd]. rewrite Hfa. reflexivity.
        -- exists (k, v). split; [assumption|]. cbn [fst snd]. apply in_map_iff. exists q. split; [reflexivity|].
           apply (IH _ Hin). cbn [snd]. rewrite Hfa. assumption.
Qed.

Lemma normalize_dict_go kv :
  (fix go (kv : list (str * spec)) : list (str * spec) :=
     match kv with
     | [] => []
     | (k, v) :: kv' => (k, normalize_nested v) :: go kv'
     end) kv = map (fun e => (fst e, normalize_nested (snd e))) kv.
Proof. induction kv as [|[k v] kv IH]; [reflexivity|]. cbn [map fst snd]. rewrite IH. reflexivity. Qed.

Lemma normalize_nested_dict kv :
  normalize_nested (SDict kv) = SDict (map (fun e => (fst e, normalize_nested (snd e))) kv).
Proof. cbn [normalize_nested]. rewrite normalize_dict_go. reflexivity. Qed.

Lemma mem_dedup' x l : mem_str x (dedup l) = mem_str x l.
Proof.
  induction l as [|y l IH]; [reflexivity|]. cbn [dedup mem_str]. destruct (str_eqb x y) eqn:E; [reflexivity|].
  cbn [orb]. rewrite <- IH. clear IH. induction (dedup l) as [|z l' IH']; [reflexivity|].
  cbn [filter]. destruct (str_eqb y z) eqn:Eyz; cbn [negb].
  - cbn [mem_str]. apply str_eqb_eq in Eyz. subst z. rewrite E. exact IH'.
  - cbn [mem_str]. rewrite IH'. reflexivity.
Qed.

Lemma falsy_normalize s : spec_falsy (normalize_nested s) = spec_falsy s.
Proof.
  destruct s as [|[|k l]|[|[k v] kv]]; try reflexivity.
Qed.

Lemma denotes_normalize : forall s p, denotes (normalize_nested s) p <-> denotes s p.
Proof.
  induction s as [|l|kv IH] using spec_ind'; intros p.
  - cbn. split; intros H; inversion H as [ | ? ? ? Hin | ? ? ? ? Hin]; destruct Hin.
  - cbn [normalize_nested]. split; intros H.
    + inversion H as [ | kv' k v Hin Hfa | kv' k v q Hin Hfa Hden]; subst.
      * apply in_map_iff in Hin. destruct Hin as [k' [Heq Hin]]. inversion Heq; subst.
        constructor. apply mem_str_In. rewrite <- mem_dedup'. apply mem_str_In. exact Hin.
      * apply in_map_iff in Hin. destruct Hin as [k' [Heq Hin]]. inversion Heq; subst. discriminate Hfa.
    + inversion H as [l' k Hin | | ]; subst. eapply den_leaf with (v := SDict []); [|reflexivity].
      apply in_map_iff. exists k. split; [reflexivity|]. apply mem_str_In. rewrite mem_dedup'. apply mem_str_In. exact Hin.
  - rewrite normalize_nested_dict. rewrite Forall_forall in IH. split; intros H.
    + inversion H as [ | kv' k v Hin Hfa | kv' k v q Hin Hfa Hden]; subst.
      * apply in_map_iff in Hin. destruct Hin as [[k' v'] [Heq Hin]]. cbn [fst snd] in Heq. inversion Heq; subst.
        rewrite falsy_normalize in Hfa. eapply den_leaf; eauto.
      * apply in_map_iff in Hin. destruct Hin as [[k' v'] [Heq Hin]]. cbn [fst snd] in Heq. inversion Heq; subst.
        rewrite falsy_normalize in Hfa. eapply den_sub; eauto. apply (IH _ Hin). exact Hden.
    + inversion H as [ | kv' k v Hin Hfa | kv' k v q Hin Hfa Hden]; subst.
      * eapply den_leaf with (v := normalize_nested v); [|rewrite falsy_normalize; exact Hfa].
        apply in_map_iff. exists (k, v). auto.
      * eapply den_sub with (v := normalize_nested v); [|rewrite falsy_normalize; exact Hfa|apply (IH _ Hin); exact Hden].
        apply in_map_iff. exists (k, v). auto.
Qed.

(* membership in the flattened set of a dict specification *)
Lemma mem_flat_dict kv x :
  mem_str x (dedup (map dotted (flatten_paths (SDict kv)))) = true <->
  (names (SDict kv) x \/ (kv = [] /\ x = [])).
Proof.
  rewrite mem_dedup', mem_str_In, in_map_iff. split.
  - intros [p [Hd Hin]]. apply flatten_paths_spec in Hin. destruct kv as [|e kv].
    + cbn in Hin. subst p. right. split; [reflexivity|]. symmetry. exact Hd.
    + left. exists p. split; [exact Hin|exact Hd].
  - intros [[p [Hden Hd]]|[-> ->]].
    + exists p. split; [exact Hd|]. apply flatten_paths_spec. destruct kv as [|e kv]; [|exact Hden].
      inversion Hden as [ | ? ? ? Hin | ? ? ? ? Hin]; destruct Hin.
    + exists []. split; [reflexivity|]. left. reflexivity.
Qed.

Lemma names_list l x : names (SList l) x <-> In x l.
Proof.
  split.
  - intros [p [Hden Hd]]. inversion Hden as [l' k Hin | | ]; subst. exact Hin.
  - intros Hin. exists [x]. split; [constructor; exact Hin|reflexivity].
Qed.

(* ---- nested specifications *)
Definition nested_names (s : spec) : list str := flatten_nested (normalize_nested s).

Lemma mem_nested_names s x :
  mem_str x (nested_names s) = true <-> (names s x \/ (spec_falsy s = true /\ x = [])).
Proof.
  unfold nested_names.
  assert (Hshape : exists kv, normalize_nested s = SDict kv /\ (kv = [] <-> spec_falsy s = true)).
  { destruct s as [|l|kv].
    - exists []. split; [reflexivity|]. split; reflexivity.
    - eexists. split; [reflexivity|]. destruct l; cbn; split; intros H; try reflexivity; discriminate.
    - rewrite normalize_nested_dict. eexists. split; [reflexivity|]. destruct kv; cbn; split; intros H;
        try reflexivity; discriminate. }
  destruct Hshape as [kv [Hn Hempty]].
  assert (Hnames : names (SDict kv) x <-> names s x).
  { rewrite <- Hn. unfold names. split; intros [p [Hden Hd]]; exists p; split; try exact Hd;
      apply denotes_normalize; exact Hden. }
  rewrite Hn. unfold flatten_nested. rewrite mem_flat_dict, Hnames, Hempty. reflexivity.
Qed.

(* ---- object (and sub field) specifications; None means "no specification" and is kept apart *)
Definition object_names (s : spec) : list str :=
  match normalize_object s with Some l => l | None => [] end.

Lemma mem_object_names s x :
  s <> SNone ->
  mem_str x (object_names s) = true <-> (names s x \/ (s = SDict [] /\ x = [])).
Proof.
  intros Hs. destruct s as [|l|kv]; [congruence| |].
  - unfold object_names. cbn [normalize_object]. rewrite mem_dedup', mem_str_In, names_list.
    split; [auto|]. intros [H|[H _]]; [exact H|discriminate H].
  - unfold object_names. cbn [normalize_object]. rewrite mem_flat_dict. split; intros [H|[H1 H2]]; auto.
    + right. split; [subst; reflexivity|exact H2].
    + right. split; [congruence|exact H2].
Qed.

Lemma rsplit1_head_nil : rsplit1_head c_dot [] = []. Proof. reflexivity. Qed.

Lemma mem_prefixes p l :
  mem_str p (prefixes_of l) = true <-> exists x, In x l /\ rsplit1_head c_dot x = p.
Proof.
  unfold prefixes_of. rewrite mem_dedup', mem_str_In, in_map_iff. split; intros [x [H1 H2]]; exists x; auto.
Qed.

Lemma bool_ext (a b : bool) : (a = true <-> b = true) -> a = b.
Proof. destruct a, b; intros [H1 H2]; try reflexivity; [symmetry; apply H1|apply H2]; reflexivity. Qed.

Lemma prefixes_agree l1 l2 :
  (forall x, x <> [] -> mem_str x l1 = mem_str x l2) ->
  forall p, p <> [] -> mem_str p (prefixes_of l1) = mem_str p (prefixes_of l2).
Proof.
  intros H p Hp. apply bool_ext. rewrite !mem_prefixes.
  split; intros [x [Hin Hx]]; exists x; (split; [|exact Hx]);
    assert (Hne : x <> []) by (intros ->; rewrite rsplit1_head_nil in Hx; congruence);
    apply mem_str_In; apply mem_str_In in Hin; [rewrite <- (H x Hne)|rewrite (H x Hne)]; exact Hin.
Qed.

Theorem nested_spellings s1 s2 :
  same_field_set s1 s2 ->
  (forall x, x <> [] -> mem_str x (nested_names s1) = mem_str x (nested_names s2)) /\
  (forall p, p <> [] -> mem_str p (prefixes_of (nested_names s1)) = mem_str p (prefixes_of (nested_names s2))).
Proof.
  intros Hs.
  assert (H : forall x, x <> [] -> mem_str x (nested_names s1) = mem_str x (nested_names s2)).
  { intros x Hx. apply bool_ext. rewrite !mem_nested_names. specialize (Hs x). tauto. }
  split; [exact H|apply prefixes_agree; exact H].
Qed.

Theorem object_spellings s1 s2 :
  same_field_set s1 s2 -> s1 <> SNone -> s2 <> SNone ->
  (forall x, x <> [] -> mem_str x (object_names s1) = mem_str x (object_names s2)) /\
  (forall p, p <> [] -> mem_str p (prefixes_of (object_names s1)) = mem_str p (prefixes_of (object_names s2))).
Proof.
  intros Hs H1 H2.
  assert (H : forall x, x <> [] -> mem_str x (object_names s1) = mem_str x (object_names s2)).
  { intros x Hx. apply bool_ext. rewrite (mem_object_names _ _ H1), (mem_object_names _ _ H2).
    specialize (Hs x). tauto. }
  split; [exact H|apply prefixes_agree; exact H].
Qed.

(* ================================================================ options m fed to the builder *)
(* what the nesting checker and the builder derive from query_builder_options() *)
Definition refused (s : schema) (comps : list str) : bool :=
  mem_str (dotted comps) (ce_nested_prefixes (ev_chk (mk_env (options s)))) ||
  mem_str (dotted comps) (ce_object_prefixes (ev_chk (mk_env (options s)))).
Definition nested_anchor (s : schema) (comps : list str) : option str :=
  try_prefixes (ev_nested_prefixes (mk_env (options s))) [] comps (length comps).

Lemma check_final_options s comps :
  comps <> [] ->
  check_final (ev_chk (mk_env (options s))) comps = if refused s comps then Some XNested else None.
Proof.
  intros Hne. destruct comps as [|c cs]; [congruence|]. unfold check_final, refused.
  destruct (mem_str _ (ce_nested_prefixes _)); [reflexivity|].
  destruct (mem_str _ (ce_object_prefixes _)); [reflexivity|]. cbn [orb].
  change (ce_sub_fields (ev_chk (mk_env (options s)))) with (@None (list str)).
  destruct (Nat.ltb 1 (length (c :: cs))); reflexivity.
Qed.

Theorem build_options s comps x t :
  comps <> [] -> forallb nodot comps = true -> has_wildcard x = false -> spelling comps x t ->
  build (options s) t =
  if refused s comps then RExc XNested
  else ROk (wrap_nested (nested_anchor s comps)
                        (clause (dotted comps) (mem_str (dotted comps) (not_analyzed_fields s)) x)).
Proof.
  intros Hne Hd Hx [[mf [mw [Hf [Hw ->]]]]|Hc].
  - rewrite (build_dotted (options s) mf mw (dotted comps) x eq_refl eq_refl Hf Hw Hx).
    unfold split_nested. rewrite (split_dotted _ Hne Hd). rewrite (check_final_options _ _ Hne).
    destruct (refused s comps); reflexivity.
  - rewrite (build_chain (options s) comps x t eq_refl eq_refl Hx Hc Hd).
    rewrite (check_final_options _ _ Hne). destruct (refused s comps); reflexivity.
Qed.

(* ---- the object specification as the builder and its checker see it *)
Lemma prefixes_dedup p l : mem_str p (prefixes_of (dedup l)) = mem_str p (prefixes_of l).
Proof.
  apply bool_ext. rewrite !mem_prefixes. split; intros [x [Hin Hx]]; exists x; (split; [|exact Hx]);
    apply mem_str_In; apply mem_str_In in Hin; [rewrite <- mem_dedup'|rewrite mem_dedup']; exact Hin.
Qed.

Lemma env_object cfg :
  c_object cfg <> SNone ->
  ev_object (mk_env cfg) = Some (object_names (c_object cfg)) /\
  ce_object_fields (ev_chk (mk_env cfg)) = Some (dedup (object_names (c_object cfg))) /\
  ce_object_prefixes (ev_chk (mk_env cfg)) = prefixes_of (dedup (object_names (c_object cfg))).
Proof.
  intros H. unfold mk_env, mk_chk_env, object_names. cbn [ev_object ev_chk ce_object_fields ce_object_prefixes].
  destruct (c_object cfg) as [|l|kv]; [congruence| |]; cbn [normalize_object spec_of_set]; auto.
Qed.

Theorem object_spellings_env cfg1 cfg2 :
  same_field_set (c_object cfg1) (c_object cfg2) -> c_object cfg1 <> SNone -> c_object cfg2 <> SNone ->
  (forall x, x <> [] -> omem x (ev_object (mk_env cfg1)) = omem x (ev_object (mk_env cfg2))) /\
  (forall x, x <> [] -> omem x (ce_object_fields (ev_chk (mk_env cfg1))) =
                        omem x (ce_object_fields (ev_chk (mk_env cfg2)))) /\
  (forall p, p <> [] -> mem_str p (ce_object_prefixes (ev_chk (mk_env cfg1))) =
                        mem_str p (ce_object_prefixes (ev_chk (mk_env cfg2)))).
Proof.
  intros Hs H1 H2. destruct (object_spellings _ _ Hs H1 H2) as [Hn Hp].
  destruct (env_object cfg1 H1) as [A1 [B1 C1]]. destruct (env_object cfg2 H2) as [A2 [B2 C2]].
  rewrite A1, A2, B1, B2, C1, C2. cbn [omem]. split; [exact Hn|]. split.
  - intros x Hx. rewrite !mem_dedup'. apply Hn. exact Hx.
  - intros p Hp'. rewrite !prefixes_dedup. apply Hp. exact Hp'.
Qed.

(* ================================================================ resolve finds what the walk yields *)
Lemma obj_get_In {A} k (o : list (str * A)) v : obj_get k o = Some v -> In (k, v) o.
Proof.
  induction o as [|[k' v'] o IH]; [discriminate|]. cbn [obj_get].
  destruct (str_eqb k k') eqn:E.
  - intros H. injection H as <-. apply str_eqb_eq in E. subst k'. left. reflexivity.
  - intros H. right. apply IH. exact H.
Qed.

Lemma walk_list_in f parents l n d e :
  In (n, d) l -> In e (f parents n d) -> In e (walk_list f parents l).
Proof.
  induction l as [|[n' d'] l IH]; intros Hin He; [destruct Hin|].
  cbn [walk_list]. apply in_or_app. destruct Hin as [Heq|Hin].
  - inversion Heq; subst. left. exact He.
  - right. apply IH; assumption.
Qed.

Lemma walk_def_head sub parents n d : In (n, d, parents) (walk_def sub parents n d).
Proof. destruct d. left. reflexivity. Qed.

Lemma walk_def_subs parents n d sn sd :
  In (sn, sd) (fd_fields d) -> In (sn, merge_def d sd, parents ++ [(n, d)]) (walk_def true parents n d).
Proof.
  destruct d as [ty idx flds props]. cbn [fd_fields]. intros Hin. cbn [walk_def]. right.
  apply in_or_app. left. apply in_map_iff. exists (sn, sd). split; [reflexivity|exact Hin].
Qed.

Lemma walk_def_container sub parents n ty idx props :
  walk_def sub parents n (FDef ty idx [] props) =
  (n, FDef ty idx [] props, parents) ::
  walk_list (walk_def sub) (parents ++ [(n, FDef ty idx [] props)]) props.
Proof. cbn [walk_def]. destruct sub; reflexivity. Qed.

(* what wf_def says about a field with properties *)
Lemma wf_def_props_go (l : list (str * fdef)) :
  (fix go (l : list (str * fdef)) : bool :=
     match l with
     | [] => true
     | (n, c) :: l' => nonempty_name n && nodot n && wf_def c && go l'
     end) l = true ->
  forall n c, In (n, c) l -> wf_def c = true.
Proof.
  induction l as [|[n' c'] l IH]; intros H n c Hin; [destruct Hin|].
  apply andb_true_iff in H. destruct H as [H Hl]. apply andb_true_iff in H. destruct H as [_ Hc].
  destruct Hin as [Heq|Hin]; [inversion Heq; subst; exact Hc|]. eapply IH; eassumption.
Qed.

Lemma wf_def_container d :
  wf_def d = true -> fd_props d <> [] ->
  fd_fields d = [] /\ forall n c, In (n, c) (fd_props d) -> wf_def c = true.
Proof.
  destruct d as [ty idx flds props]. cbn [fd_props fd_fields]. intros H Hne.
  destruct props as [|x props]; [congruence|]. cbn [wf_def] in H.
  repeat (apply andb_true_iff in H; destruct H as [H ?]).
  split.
  - destruct flds; [reflexivity|discriminate H].
  - apply wf_def_props_go. assumption.
Qed.

Definition last_name (comps : list str) : str := last comps [].

(* the field found by `resolve` is yielded by the walk (with sub-fields), under its own definition — or,
   for a sub-field, under the holder's definition overlaid by its own — and with the same ancestors *)
Lemma resolve_walk : forall comps props anc d anc',
  (forall n c, In (n, c) props -> wf_def c = true) ->
  resolve props anc comps = Some (d, anc') ->
  map fst anc' ++ [last_name comps] = map fst anc ++ comps /\
  (In (last_name comps, d, anc') (walk_properties true anc props) \/
   exists anc0 c p, anc' = anc0 ++ [(c, p)] /\ fd_props p = [] /\
                    In (last_name comps, merge_def p d, anc') (walk_properties true anc props)).
Proof.
  induction comps as [|c cs IH]; intros props anc d anc' Hwf H; [discriminate H|].
  cbn [resolve] in H. destruct (obj_get c props) as [dd|] eqn:Eg; [|discriminate H].
  apply obj_get_In in Eg. pose proof (Hwf _ _ Eg) as Hdd.
  destruct cs as [|s cs'].
  - injection H as <- <-. split; [reflexivity|]. left.
    unfold walk_properties. eapply walk_list_in; [exact Eg|apply walk_def_head].
  - destruct (fd_props dd) as [|pp pps] eqn:Ep.
    + destruct cs' as [|? ?]; [|discriminate H].
      destruct (obj_get s (fd_fields dd)) as [sd|] eqn:Es; [|discriminate H].
      injection H as <- <-. apply obj_get_In in Es. split.
      * rewrite map_app. cbn [map fst]. rewrite <- app_assoc. reflexivity.
      * right. exists anc, c, dd. split; [reflexivity|]. split; [exact Ep|].
        unfold walk_properties. eapply walk_list_in; [exact Eg|]. apply walk_def_subs. exact Es.
    + assert (Hne : fd_props dd <> []) by (rewrite Ep; discriminate).
      destruct (wf_def_container dd Hdd Hne) as [Hf Hsub].
      rewrite <- Ep in H. apply (IH _ _ _ _ Hsub) in H. destruct H as [Hn Hin].
      assert (Hl : last_name (c :: s :: cs') = last_name (s :: cs')) by reflexivity.
      rewrite Hl. split.
      * rewrite Hn. rewrite map_app. cbn [map fst]. rewrite <- app_assoc. reflexivity.
      * assert (Hincl : forall e, In e (walk_properties true (anc ++ [(c, dd)]) (fd_props dd)) ->
                                  In e (walk_properties true anc props)).
        { intros e He. unfold walk_properties. eapply walk_list_in; [exact Eg|].
          destruct dd as [ty idx flds props']. cbn [fd_fields fd_props] in *. subst flds.
          rewrite walk_def_container. right. exact He. }
        destruct Hin as [Hin|[anc0 [c0 [p [Ha [Hp Hin]]]]]].
        -- left. apply Hincl. exact Hin.
        -- right. exists anc0, c0, p. split; [exact Ha|]. split; [exact Hp|]. apply Hincl. exact Hin.
Qed.

Lemma wf_schema_props s props :
  wf_schema s = true -> In props (doc_props s) -> forall n c, In (n, c) props -> wf_def c = true.
Proof.
  unfold wf_schema. rewrite forallb_forall. intros H Hin. specialize (H _ Hin). unfold wf_props in H.
  destruct props as [|x props]; [intros n c []|].
  apply (wf_def_container _ H). cbn [fd_props]. discriminate.
Qed.

Lemma leaf_not_container d : is_leaf_def d = true -> is_container_type d = false.
Proof.
  unfold is_leaf_def. intros H. apply andb_true_iff in H. destruct H as [H _].
  apply andb_true_iff in H. destruct H as [_ H]. apply negb_true_iff in H. exact H.
Qed.

Theorem typing_resolved s comps d anc x t j :
  wf_schema s = true -> coherent s = true -> mapped_leaf s comps d anc -> subfield_ok anc d = true ->
  forallb nodot comps = true -> has_wildcard x = false -> spelling comps x t ->
  build (options s) t = ROk j ->
  exists p, j = wrap_nested p (clause (dotted comps) (negb (analysed_text d)) x).
Proof.
  intros Hwf Hc [props [Hin [Hr Hl]]] Hg Hd Hx Hsp Hb.
  assert (Hne : comps <> []) by (destruct comps; [discriminate Hr|discriminate]).
  rewrite (build_options s _ x t Hne Hd Hx Hsp) in Hb.
  destruct (refused s comps); [discriminate Hb|]. injection Hb as <-.
  exists (nested_anchor s comps). f_equal. f_equal.
  destruct (resolve_walk _ _ _ _ _ (wf_schema_props _ _ Hwf Hin) Hr) as [Hn Hw]. cbn [map app] in Hn.
  assert (Hiter : forall e, In e (walk_properties true [] props) -> In e (iter_fields s true)).
  { intros e He. unfold iter_fields. apply in_flat_map. exists props. split; assumption. }
  destruct Hw as [Hw|[anc0 [c [p [Ha [Hp Hw]]]]]].
  - pose proof (not_analyzed_iff s _ Hc (Hiter _ Hw)) as Hna.
    unfold e_dot, e_name, e_parents, e_def, dot_name in Hna. cbn [fst snd] in Hna.
    rewrite Hn in Hna. rewrite Hna. apply leaf_not_analyzed. apply leaf_not_container. exact Hl.
  - pose proof (not_analyzed_iff s _ Hc (Hiter _ Hw)) as Hna.
    unfold e_dot, e_name, e_parents, e_def, dot_name in Hna. cbn [fst snd] in Hna.
    rewrite Hn in Hna. rewrite Hna.
    assert (Hg' : sub_self_described p d = true).
    { unfold subfield_ok, subfield_holder in Hg. rewrite Ha, rev_unit, Hp in Hg. exact Hg. }
    rewrite (merge_not_analyzed _ _ Hg'). apply leaf_not_analyzed. apply leaf_not_container. exact Hl.
Qed.
