"""lib.py — shared machinery of the /verif checks.

  * scratch copy of /repo/luqum (PLY rewrites parsetab.py beside the module; /repo must not be touched)
  * translator run + incremental Coq build (under a file lock, shell timeouts everywhere)
  * Gallina literal printers for strings, trees, paths
  * evaluation of generated cases files with coqc (`vm_compute`), result parsing
  * evidence / replay / VIOLATION / KNOWN-FINDING reporting
"""
import atexit
import fcntl
import hashlib
import json
import os
import random
import re
import shutil
import subprocess
import sys
import tempfile
import time

VERIF = os.path.dirname(os.path.dirname(os.path.abspath(__file__)))
REPO = os.environ.get("VERIF_REPO", "/repo")
COQ = os.path.join(VERIF, "coq")
GEN = os.path.join(COQ, "gen")
CORR = os.path.join(COQ, "corr")
EVID = os.path.join(VERIF, "evidence")
REPLAYS = os.path.join(VERIF, "replays")
COQ_FLAGS = ["-R", "model", "LV", "-R", "gen", "LV", "-R", "proofs", "LV", "-R", "props", "LV",
             "-R", "corr", "LV"]

ALLOWED_AXIOMS = set()   # the development is axiom-free; anything printed is a failure

_scratch = None
T0 = time.time()


def seed():
    try:
        return int(os.environ.get("VERIF_SEED", "0"))
    except ValueError:
        return 0


def tier():
    return os.environ.get("VERIF_TIER", "quick")


# ------------------------------------------------------------------ scratch copy of luqum

def scratch_dir():
    """copy /repo/luqum to a private directory outside /repo and /verif; removed at exit"""
    global _scratch
    if _scratch is None:
        _scratch = tempfile.mkdtemp(prefix="luqum-verif-")
        shutil.copytree(os.path.join(REPO, "luqum"), os.path.join(_scratch, "luqum"),
                        ignore=shutil.ignore_patterns("__pycache__"))
        atexit.register(shutil.rmtree, _scratch, True)
        os.environ["LUQUM_VERIF"] = "1"
    return _scratch


def import_luqum():
    """import luqum from the scratch copy (never from /repo directly)"""
    s = scratch_dir()
    if sys.path[0] != s:
        sys.path.insert(0, s)
    for m in list(sys.modules):
        if m == "luqum" or m.startswith("luqum."):
            del sys.modules[m]
    import luqum
    import luqum.tree
    assert os.path.realpath(luqum.__file__).startswith(os.path.realpath(s)), luqum.__file__
    return luqum


# ------------------------------------------------------------------ translator + build

class BuildResult:
    def __init__(self):
        self.tie_errors = []      # [(group, message)]
        self.changed = []
        self.ok = True
        self.log = ""
        self.failed_file = None
        self.error_text = ""


def run(cmd, cwd=None, timeout=600, env=None):
    try:
        p = subprocess.run(cmd, cwd=cwd, stdout=subprocess.PIPE, stderr=subprocess.STDOUT,
                           timeout=timeout, env=env, text=True, errors="replace")
        return p.returncode, p.stdout
    except subprocess.TimeoutExpired as e:
        out = e.stdout if isinstance(e.stdout, str) else (e.stdout or b"").decode("utf8", "replace")
        return 124, (out or "") + "\nTIMEOUT after %ss: %s" % (timeout, " ".join(cmd))


class _Lock:
    """one lock file shared by every check process: EXCLUSIVE while coq/gen is rewritten and `make` runs,
    then kept SHARED until the process exits, so that nobody rebuilds (possibly from another source tree)
    while this process evaluates cases against the compiled files"""
    f = None

    @classmethod
    def exclusive(cls):
        if cls.f is None:
            cls.f = open(os.path.join(VERIF, ".build.lock"), "w")
        else:
            fcntl.flock(cls.f, fcntl.LOCK_UN)      # never upgrade in place: two upgraders would deadlock
        fcntl.flock(cls.f, fcntl.LOCK_EX)

    @classmethod
    def shared(cls):
        if cls.f is not None:
            fcntl.flock(cls.f, fcntl.LOCK_SH)


class BuildLock:
    def __enter__(self):
        _Lock.exclusive()
        return self

    def __exit__(self, *a):
        _Lock.shared()


def translate():
    sys.path.insert(0, os.path.join(VERIF, "gen"))
    env = dict(os.environ, PYTHONHASHSEED="0", PYTHONPATH=scratch_dir())
    rc, out = run([sys.executable, os.path.join(VERIF, "gen", "translate.py"), scratch_dir(), GEN],
                  timeout=300, env=env)
    errs, changed = [], []
    for line in out.splitlines():
        if line.startswith("TIE-ERROR "):
            _, g, m = line.split(" ", 2)
            errs.append((g, m))
        elif line.startswith("changed "):
            changed.append(line.split(" ", 1)[1])
    if rc != 0 and not errs:
        errs.append(("translate.py", out[-2000:]))
    return changed, errs


def coq_project_files():
    files = []
    for d in ("model", "gen", "proofs", "props"):
        p = os.path.join(COQ, d)
        for f in sorted(os.listdir(p)) if os.path.isdir(p) else []:
            if f.endswith(".v"):
                files.append("%s/%s" % (d, f))
    return files


def write_coqproject():
    text = "-R model LV\n-R gen LV\n-R proofs LV\n-R props LV\n" + "\n".join(coq_project_files()) + "\n"
    p = os.path.join(COQ, "_CoqProject")
    old = open(p).read() if os.path.exists(p) else None
    if old != text or not os.path.exists(os.path.join(COQ, "Makefile")):
        with open(p, "w") as f:
            f.write(text)
        run(["coq_makefile", "-f", "_CoqProject", "-o", "Makefile"], cwd=COQ, timeout=120)


def build(targets=None, timeout=2400):
    """translate + make (incremental).  targets: list like ['props/C15.vo'] or None = all"""
    res = BuildResult()
    with BuildLock():
        res.changed, res.tie_errors = translate()
        write_coqproject()
        cmd = ["make", "-j16", "-k"] + (targets or [])
        rc, out = run(cmd, cwd=COQ, timeout=timeout)
        res.log = out
        if rc != 0:
            res.ok = False
            m = re.search(r'File "\./([^"]+)", line (\d+)', out)
            if m:
                res.failed_file = m.group(1)
            res.error_text = out[-4000:]
    return res


def print_assumptions(module, theorems, timeout=300):
    """returns {theorem: [axiom names]} ; 'Closed under the global context' -> []"""
    os.makedirs(CORR, exist_ok=True)
    name = "Assume_%s_%d" % (module, os.getpid())
    path = os.path.join(CORR, name + ".v")
    with open(path, "w") as f:
        f.write("Require Import LV.%s.\n" % module)
        for t in theorems:
            f.write('Print Assumptions %s.\n' % t)
    rc, out = run(["coqc"] + COQ_FLAGS + [path], cwd=COQ, timeout=timeout)
    for ext in (".v", ".vo", ".vok", ".vos", ".glob"):
        try:
            os.remove(os.path.join(CORR, name + ext))
        except OSError:
            pass
    try:
        os.remove(os.path.join(CORR, "." + name + ".aux"))
    except OSError:
        pass
    if rc != 0:
        return None, out
    chunks = re.split(r"(?=Closed under the global context|Axioms:)", out)
    res = {}
    chunks = [c for c in chunks if c.strip()]
    if len(chunks) != len(theorems):
        return None, out
    for t, c in zip(theorems, chunks):
        if c.startswith("Closed under"):
            res[t] = []
        else:
            res[t] = re.findall(r"^([A-Za-z_][\w.']*)\s*:", c, re.M)
    return res, out


def coqchk(module, timeout=2400):
    """independent re-check of the compiled property module and everything it depends on; returns
    (ok, summary) where ok means: exit 0, 'Axioms: <none>', nothing relying on type-in-type / unsafe
    fixpoints / assumed positivity"""
    with BuildLock():
        rc, out = run(["coqchk", "-silent", "-o", "-R", "model", "LV", "-R", "gen", "LV", "-R", "proofs", "LV",
                       "-R", "props", "LV", "LV." + module], cwd=COQ, timeout=timeout)
    tail = out[out.find("CONTEXT SUMMARY"):] if "CONTEXT SUMMARY" in out else out[-1500:]
    ok = (rc == 0 and re.search(r"Axioms:\s*<none>", tail) is not None
          and re.search(r"type-in-type:\s*<none>", tail) is not None
          and re.search(r"unsafe \(co\)fixpoints:\s*<none>", tail) is not None
          and re.search(r"positivity is assumed:\s*<none>", tail) is not None)
    return ok, " ".join(tail.split())[:600]


def dependency_closure(targets):
    """the .v files the given .vo targets depend on (from coq_makefile's .Makefile.d); None if unknown"""
    depfile = os.path.join(COQ, ".Makefile.d")
    if not os.path.exists(depfile):
        return None
    deps = {}
    with open(depfile) as f:
        for line in f:
            if ":" not in line:
                continue
            lhs, rhs = line.split(":", 1)
            outs = [x for x in lhs.split() if x.endswith(".vo")]
            ins = [x for x in rhs.split() if x.endswith(".vo")]
            for o in outs:
                deps.setdefault(o, set()).update(ins)
    seen, todo = set(), list(targets)
    while todo:
        t = todo.pop()
        if t in seen:
            continue
        seen.add(t)
        todo += list(deps.get(t, ()))
    files = sorted(x[:-1] for x in seen if os.path.exists(os.path.join(COQ, x[:-1])))
    return files or None


def forbidden_tokens(targets=None):
    """grep the development (the dependency closure of `targets`, or everything) for anything that would
    declare an axiom or weaken the kernel"""
    bad = []
    pat = re.compile(r"\b(Admitted|admit|Axiom|Axioms|Parameter|Parameters|Conjecture|"
                     r"Admit Obligations|Unset Guard Checking|bypass_check|"
                     r"Unset Positivity Checking|Unset Universe Checking|type-in-type)\b")
    files = (dependency_closure(targets) if targets else None) or coq_project_files()
    for rel in files:
        with open(os.path.join(COQ, rel)) as f:
            txt = re.sub(r"\(\*.*?\*\)", "", f.read(), flags=re.S)
        for i, line in enumerate(txt.splitlines(), 1):
            if pat.search(line):
                bad.append("%s:%d: %s" % (rel, i, line.strip()))
        # Variable/Hypothesis outside a section
        depth = 0
        for i, line in enumerate(txt.splitlines(), 1):
            if re.match(r"\s*Section\b", line):
                depth += 1
            elif re.match(r"\s*End\b", line) and depth:
                depth -= 1
            elif depth == 0 and re.match(r"\s*(Variable|Variables|Hypothesis|Hypotheses|Context)\b", line):
                bad.append("%s:%d: %s (outside a section)" % (rel, i, line.strip()))
    return bad


# ------------------------------------------------------------------ Gallina literals

def g_str(s):
    if s is None:
        raise ValueError("None where a str is expected")
    if s == "":
        return "[]"
    return "[" + ";".join(str(ord(c)) for c in s) + "]%N"


def g_ostr(s):
    return "None" if s is None else "(Some (%s : str))" % g_str(s)


def g_Z(n):
    if isinstance(n, int) and n.bit_length() > 13000:
        # beyond CPython's int -> decimal string limit (4300 digits): hexadecimal has no limit
        return "(%s0x%x)%%Z" % ("-" if n < 0 else "", abs(n))
    return "(%d)%%Z" % n


def g_oZ(n):
    return "None" if n is None else "(Some %s)" % g_Z(n)


def g_bool(b):
    return "true" if b else "false"


def g_path(p):
    return "[" + ";".join(str(i) for i in p) + "]%nat"


def g_list(items):
    return "[" + "; ".join(items) + "]"


class Unmodelled(Exception):
    """the Python value has no counterpart in the model (reported, never silently dropped)"""


def g_dec(d):
    """decimal.Decimal or int -> dec literal"""
    from decimal import Decimal
    if isinstance(d, bool):
        raise Unmodelled("bool degree")
    if isinstance(d, int):
        return "(mkDec %s %d%%N 0%%Z)" % (g_bool(d < 0), abs(d))
    if isinstance(d, Decimal):
        sign, digits, exp = d.as_tuple()
        if not isinstance(exp, int):
            raise Unmodelled("special Decimal %r" % d)
        coef = int("".join(map(str, digits))) if digits else 0
        return "(mkDec %s %d%%N (%d)%%Z)" % (g_bool(bool(sign)), coef, exp)
    raise Unmodelled("degree of type %s" % type(d).__name__)


def g_meta(node, with_name=True):
    name = getattr(node, "_luqum_name", None) if with_name else None
    for a in ("pos", "size"):
        v = getattr(node, a)
        if v is not None and (isinstance(v, bool) or not isinstance(v, int)):
            raise Unmodelled("%s of type %s" % (a, type(v).__name__))
    if not isinstance(node.head, str) or not isinstance(node.tail, str):
        raise Unmodelled("head/tail not str")
    if name is not None and not isinstance(name, str):
        raise Unmodelled("name not str")
    return "(mkMeta %s %s %s %s %s)" % (g_oZ(node.pos), g_oZ(node.size), g_str(node.head),
                                        g_str(node.tail), g_ostr(name))


def g_item(node, with_name=True):
    """luqum.tree item -> Gallina `item` literal (exact class match; subclasses are unmodelled)"""
    import luqum.tree as T
    k = type(node)
    m = g_meta(node, with_name)
    rec = lambda c: g_item(c, with_name)  # noqa
    if k is T.Word:
        return "(Term KWord %s %s)" % (m, g_str(node.value))
    if k is T.Phrase:
        return "(Term KPhrase %s %s)" % (m, g_str(node.value))
    if k is T.Regex:
        return "(Term KRegex %s %s)" % (m, g_str(node.value))
    if k is T.SearchField:
        return "(SearchField %s %s %s)" % (m, g_str(node.name), rec(node.expr))
    if k is T.Group:
        return "(Grp KGroup %s %s)" % (m, rec(node.expr))
    if k is T.FieldGroup:
        return "(Grp KFieldGroup %s %s)" % (m, rec(node.expr))
    if k is T.Range:
        if not isinstance(node.include_low, bool) or not isinstance(node.include_high, bool):
            raise Unmodelled("non-bool include flag")
        return "(Range %s %s %s %s %s)" % (m, rec(node.low), rec(node.high),
                                           g_bool(node.include_low), g_bool(node.include_high))
    if k is T.Fuzzy:
        return "(Fuzzy %s %s %s %s)" % (m, rec(node.term), g_dec(node.degree),
                                        g_bool(node._implicit_degree))
    if k is T.Proximity:
        if isinstance(node.degree, bool) or not isinstance(node.degree, int):
            raise Unmodelled("proximity degree")
        return "(Proximity %s %s %s %s)" % (m, rec(node.term), g_Z(node.degree),
                                            g_bool(node._implicit_degree))
    if k is T.Boost:
        return "(Boost %s %s %s %s)" % (m, rec(node.expr), g_dec(node.force),
                                        g_bool(node.implicit_force))
    for kk, tag in ((T.AndOperation, "KAnd"), (T.OrOperation, "KOr"),
                    (T.UnknownOperation, "KUnknown"), (T.BoolOperation, "KBool")):
        if k is kk:
            return "(Op %s %s %s)" % (tag, m, g_list([rec(c) for c in node.operands]))
    for kk, tag in ((T.Plus, "KPlus"), (T.Not, "KNot"), (T.Prohibit, "KProhibit")):
        if k is kk:
            return "(Unary %s %s %s)" % (tag, m, rec(node.a))
    for kk, tag in ((T.From, "KFrom"), (T.To, "KTo")):
        if k is kk:
            if not isinstance(node.include, bool):
                raise Unmodelled("non-bool include flag")
            return "(ORange %s %s %s %s)" % (tag, m, rec(node.a), g_bool(node.include))
    if k is T.NoneItem:
        return "(NoneItem %s)" % m
    raise Unmodelled("item class %s" % k.__name__)


# ------------------------------------------------------------------ cases evaluation

CASES_HEADER = """From Coq Require Import List NArith ZArith Bool.
Import ListNotations.
Require Import %(imports)s.
Local Open Scope N_scope.
"""


def eval_cases(prop, imports, defs, cases, check_fn, shard=300, timeout=900):
    """cases: list of Gallina terms (one per case) of the argument type of `check_fn`
    (a Gallina function returning bool: true = agree/holds).  Writes shards, runs coqc on each in
    parallel, returns the sorted list of failing case indices (or raises on a coqc error).

    Each shard prints exactly one line:  RESULT <shard> [i; j; ...]  — indices where check_fn is false.
    """
    os.makedirs(CORR, exist_ok=True)
    tag = "%s_%d" % (prop, os.getpid())
    files = []
    for si, start in enumerate(range(0, len(cases), shard)):
        chunk = cases[start:start + shard]
        name = "Cases_%s_%d" % (tag, si)
        path = os.path.join(CORR, name + ".v")
        with open(path, "w") as f:
            f.write(CASES_HEADER % {"imports": imports})
            f.write(defs + "\n")
            # the element type comes from the checker's argument type, so a shard made only of `[]`/`None`
            # literals still type-checks
            f.write("Definition typed_as {A : Type} (f : A -> bool) (l : list A) : list A := l.\n")
            f.write("Definition cases := typed_as %s [\n  " % check_fn + ";\n  ".join(chunk) + "\n].\n")
            f.write("Fixpoint failing (i : nat) (l : list _) : list nat :=\n"
                    "  match l with [] => [] | c :: l' => "
                    "if %s c then failing (S i) l' else i :: failing (S i) l' end.\n" % check_fn)
            f.write("Definition result := Eval vm_compute in failing 0 cases.\n")
            f.write("Print result.\n")
        files.append((si, start, name, path))
    procs = []
    failing = []
    errors = []
    maxpar = 14
    pending = list(files)
    running = []
    while pending or running:
        while pending and len(running) < maxpar:
            si, start, name, path = pending.pop(0)
            p = subprocess.Popen(["timeout", str(timeout), "coqc"] + COQ_FLAGS + [path], cwd=COQ,
                                 stdout=subprocess.PIPE, stderr=subprocess.STDOUT, text=True)
            running.append((p, si, start, name))
        p, si, start, name = running.pop(0)
        out, _ = p.communicate()
        if p.returncode != 0:
            errors.append((si, out[-3000:]))
        else:
            m = re.search(r"result\s*=\s*(\[[^\]]*\])", out.replace("\n", " "))
            if not m:
                errors.append((si, out[-3000:]))
            else:
                body = m.group(1).strip("[]").strip()
                if body:
                    failing += [start + int(x) for x in re.findall(r"\d+", body)]
        for ext in (".v", ".vo", ".vok", ".vos", ".glob"):
            try:
                os.remove(os.path.join(CORR, name + ext))
            except OSError:
                pass
        try:
            os.remove(os.path.join(CORR, "." + name + ".aux"))
        except OSError:
            pass
    if errors:
        raise RuntimeError("coqc failed on cases shard %s:\n%s" % (errors[0][0], errors[0][1]))
    return sorted(failing)


# ------------------------------------------------------------------ reporting

def load_known_findings():
    """merge known_findings/*.json (committed; never written at run time)"""
    d = os.path.join(VERIF, "known_findings")
    out = {"known": [], "fixed": []}
    for f in sorted(os.listdir(d)) if os.path.isdir(d) else []:
        if f.endswith(".json"):
            with open(os.path.join(d, f)) as fh:
                j = json.load(fh)
            out["known"] += j.get("known", [])
            out["fixed"] += j.get("fixed", [])
    return out


def write_replay(prop, payload):
    os.makedirs(REPLAYS, exist_ok=True)
    blob = json.dumps(payload, sort_keys=True, ensure_ascii=True, default=repr)
    h = hashlib.sha1(blob.encode()).hexdigest()[:12]
    path = os.path.join(REPLAYS, "%s-%s.json" % (prop, h))
    with open(path, "w") as f:
        json.dump(payload, f, indent=1, sort_keys=True, default=repr)
    return path


def write_evidence(prop, level, coverage, assumptions, violations, extra=None):
    os.makedirs(EVID, exist_ok=True)
    ev = {
        "property_id": prop,
        "tier": tier() if tier() in ("quick", "thorough") else "quick",
        "seed": seed(),
        "level": level,
        "coverage": coverage,
        "assumptions": assumptions,
        "wall_s": round(time.time() - T0, 2),
        "violations": violations,
    }
    if extra:
        ev.update(extra)
    with open(os.path.join(EVID, prop + ".json"), "w") as f:
        json.dump(ev, f, indent=1, sort_keys=True, default=repr)
        f.write("\n")
    return ev


def rng(salt=""):
    return random.Random("%d/%s" % (seed(), salt))
