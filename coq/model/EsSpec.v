(* EsSpec.v — the vocabulary of properties C06 / C07 (and C05), written on trees and configurations.
   Definitions only.

   What is shared with the model, and what is not:
   * nothing here calls the builder's visitor (EsBuild.visit), its nesting decision (EsBuild.split_nested /
     the derived environment es_env) or the nesting checker (EsCheck): which clause a modifier applies to, which
     field gets a nested clause, what is flattened, what raises, are all decided here on the tree and on the
     DECLARED paths alone (`declared_nested`, `nested_parents`, `crosses_nested`, `single_leaf`);
   * shared with the model: the normalisation of field specifications (EsSpecs.v: "what is declared" is the
     set of dotted paths the specification denotes), the record type of a leaf item with its constructors and
     setters (EsBuild.mk_word / mk_phrase / mk_range and the leaf_set_ setters), the rendering of ONE leaf record to its
     clause (EsBuild.leaf_json), and the small context record `ectx` with its accessors (field prefix,
     analysed flag, inherited name).
   History: until the audit that found F22 the predicate deciding "this modifier reaches a single leaf clause"
   called EsBuild.split_nested, so the expected leaves followed the builder exactly where it deviates
   (a ^ / ~ above a field that gets a nested clause is dropped).  It no longer does: see `single_leaf`,
   `direct_leaf`, `modifier_over_nested`. *)
Require Import Base Decimal Tree Json EsSpecs EsCheck EsBuild.

(* ---------------------------------------------------------------- supported trees *)
(* words, phrases, ranges, fuzzy, proximity, boost, groups, fields, AND, OR, implicit and boolean
   operations, NOT, +, -.  Operations have at least two operands and range bounds are what the
   grammar produces: a word, a phrase, or one of them under `-`.  Regex, From, To and NoneItem are not
   supported constructs. *)
Definition plain_term (t : item) : bool :=
  match t with Term KWord _ _ | Term KPhrase _ _ => true | _ => false end.

Definition range_bound (b : item) : bool :=
  plain_term b || match b with Unary KProhibit _ a => plain_term a | _ => false end.

Fixpoint supported (t : item) : bool :=
  match t with
  | Term k _ _ => match k with KRegex => false | _ => true end
  | SearchField _ _ e | Grp _ _ e | Boost _ e _ _ => supported e
  | Fuzzy _ x _ _ | Proximity _ x _ _ => supported x
  | Unary _ _ a => supported a
  | Range _ lo hi _ _ => range_bound lo && range_bound hi
  | Op _ _ ops =>
      Nat.leb 2 (length ops) &&
      (fix go (l : list item) : bool :=
         match l with [] => true | c :: l' => supported c && go l' end) ops
  | ORange _ _ _ _ | NoneItem _ => false
  end.

(* every range has a word or a phrase on both sides (its negation on supported trees is F7:
   a bound under `-`) *)
Fixpoint range_bounds_plain (t : item) : bool :=
  match t with
  | Term _ _ _ | NoneItem _ => true
  | SearchField _ _ e | Grp _ _ e | Boost _ e _ _ => range_bounds_plain e
  | Fuzzy _ x _ _ | Proximity _ x _ _ => range_bounds_plain x
  | Unary _ _ a | ORange _ _ a _ => range_bounds_plain a
  | Range _ lo hi _ _ => plain_term lo && plain_term hi
  | Op _ _ ops =>
      (fix go (l : list item) : bool :=
         match l with [] => true | c :: l' => range_bounds_plain c && go l' end) ops
  end.

(* ---------------------------------------------------------------- AND / OR mixes *)
(* implicit operations count as the configured default *)
Definition and_like (cfg : es_config) (k : opk) : bool :=
  match k with
  | KAnd => true
  | KUnknown => match c_default_operator cfg with DMust => true | _ => false end
  | _ => false
  end.
Definition or_like (cfg : es_config) (k : opk) : bool :=
  match k with
  | KOr => true
  | KUnknown => match c_default_operator cfg with DShould => true | _ => false end
  | _ => false
  end.
Definition opposite (cfg : es_config) (k k' : opk) : bool :=
  (and_like cfg k && or_like cfg k') || (or_like cfg k && and_like cfg k').

(* some AND-like operation has an OR-like operation as a DIRECT operand (no parentheses in
   between), or vice versa *)
Definition mix (cfg : es_config) (t : item) : Prop :=
  exists q k m ops i k' m' ops',
    subtree_at t q = Some (Op k m ops) /\ nth_error ops i = Some (Op k' m' ops') /\
    opposite cfg k k' = true.

(* ---------------------------------------------------------------- container misuse *)
(* the name components of the search fields enclosing the node at path q *)
Definition fname_comps (t : item) : list str :=
  match t with SearchField _ n _ => split_on c_dot n | _ => [] end.

Fixpoint field_path (t : item) (q : path) : list str :=
  match q with
  | [] => []
  | i :: q' =>
      fname_comps t ++ match nth_error (children t) i with
                       | Some c => field_path c q'
                       | None => []
                       end
  end.

(* what the configuration declares *)
Definition declared_nested (cfg : es_config) : list str :=
  flatten_nested (normalize_nested (c_nested cfg)).
Definition declared_object (cfg : es_config) : option (list str) := normalize_object (c_object cfg).
Definition declared_sub (cfg : es_config) : option (list str) := normalize_object (c_sub cfg).

Definition parent_path (p : str) : str := rsplit1_head c_dot p.   (* "a.b.c" -> "a.b"; "a" -> "a" *)

(* every ancestor of a declared path: parent, grand-parent, ... (a dot-less declared path, i.e. a
   childless top-level key, is its own parent) *)
Fixpoint ancestors_fuel (n : nat) (p : str) : list str :=
  match n with
  | O => []
  | S n' => parent_path p :: ancestors_fuel n' (parent_path p)
  end.
Definition ancestors (p : str) : list str := ancestors_fuel (S (length p)) p.

Definition olist (o : option (list str)) : list str := match o with Some l => l | None => [] end.

(* the declared containers, as the property means them: every ancestor of a declared path *)
Definition containers (cfg : es_config) : list str :=
  flat_map ancestors (declared_nested cfg) ++ flat_map ancestors (olist (declared_object cfg)).

(* the containers the code recognises: the parents of the declared paths only *)
Definition parent_containers (cfg : es_config) : list str :=
  map parent_path (declared_nested cfg) ++ map parent_path (olist (declared_object cfg)).

(* is a term attached to the dotted field `fp` (components) misplaced ? *)
Definition bad_field (cfg : es_config) (conts : list str) (fp : list str) : bool :=
  match fp with
  | [] => false
  | _ =>
      let full := dotted fp in
      mem_str full conts ||
      (Nat.ltb 1 (length fp) &&
       match declared_sub cfg, declared_object cfg with
       | Some subs, Some objs =>
           negb (mem_str full subs) && negb (mem_str full objs) &&
           negb (mem_str full (declared_nested cfg))
       | _, _ => false
       end)
  end.

Definition misuse_with (cfg : es_config) (conts : list str) (t : item) : Prop :=
  exists q k m v, subtree_at t q = Some (Term k m v) /\ bad_field cfg conts (field_path t q) = true.

(* a term is attached directly to a declared nested or object container, or to an undeclared dotted
   field while object and sub fields are both declared *)
Definition container_misuse (cfg : es_config) (t : item) : Prop := misuse_with cfg (containers cfg) t.

(* every declared container is the parent of a declared path (its negation is F8) *)
Definition containers_have_leaf (cfg : es_config) : bool :=
  forallb (fun c => mem_str c (parent_containers cfg)) (containers cfg).

(* ---------------------------------------------------------------- outcomes *)
Definition is_nested_exc {A} (r : eres A) : Prop := r = RExc XNested \/ r = RExc XObject.
Definition is_mix_exc {A} (r : eres A) : Prop := r = RExc XMix.

(* ---------------------------------------------------------------- C06: leaves and their names *)
(* the leaf items of an E-tree, in document order *)
Fixpoint eleaves (e : eitem) : list leaf :=
  match e with
  | ELeaf l => [l]
  | ENested _ _ it => eleaves it
  | EOp _ items => (fix go (l : list eitem) : list leaf :=
                      match l with [] => [] | x :: l' => eleaves x ++ go l' end) items
  end.

(* the name each word / phrase / range of the tree should carry, in document order: its own name,
   else the name of the nearest named enclosing element (`inh`); range bounds are not clauses *)
Definition own_or (t : item) (inh : option str) : option str :=
  match name_of t with Some n => Some n | None => inh end.
Definition pass_down (t : item) (inh : option str) : option str :=
  match name_of t with Some (c :: n) => Some (c :: n) | _ => inh end.

Fixpoint expected_names (t : item) (inh : option str) : list (option str) :=
  match t with
  | Term _ _ _ => [own_or t inh]
  | Range _ _ _ _ _ => [own_or t inh]
  | NoneItem _ => []
  | SearchField _ _ e | Grp _ _ e | Boost _ e _ _ => expected_names e (pass_down t inh)
  | Fuzzy _ x _ _ | Proximity _ x _ _ => expected_names x (pass_down t inh)
  | Unary _ _ a | ORange _ _ a _ => expected_names a (pass_down t inh)
  | Op _ _ ops =>
      (fix go (l : list item) : list (option str) :=
         match l with [] => [] | c :: l' => expected_names c (pass_down t inh) ++ go l' end) ops
  end.

(* no named element is an operand of an operation (or +) of its own class — before the repair of F16 such
   an element was spliced into its parent by simplify_if_same and its name was never looked at.  The
   repaired code keeps it; the predicate is only used by the corollaries C06_*_partial (the statements of
   earlier rounds) and by the regression examples. *)
Definition named (t : item) : bool := match name_of t with Some (_ :: _) => true | _ => false end.
Fixpoint no_named_flattened (t : item) : bool :=
  match t with
  | Term _ _ _ | NoneItem _ => true
  | SearchField _ _ e | Grp _ _ e | Boost _ e _ _ => no_named_flattened e
  | Fuzzy _ x _ _ | Proximity _ x _ _ => no_named_flattened x
  | Unary k _ a =>
      no_named_flattened a &&
      match k, a with KPlus, Unary KPlus _ _ => negb (named a) | _, _ => true end
  | ORange _ _ a _ => no_named_flattened a
  | Range _ lo hi _ _ => no_named_flattened lo && no_named_flattened hi
  | Op k _ ops =>
      (fix go (l : list item) : bool :=
         match l with
         | [] => true
         | c :: l' =>
             no_named_flattened c &&
             match c with
             | Op k' _ _ => negb (Tree.cls_eqb (cls_of_opk k') (cls_of_opk k) && named c)
             | _ => true
             end && go l'
         end) ops
  end.

(* ---------------------------------------------------------------- C06: the expected leaves *)
(* The leaf items a tree should give, in document order, computed directly on the tree: one per
   word / phrase / range, addressed to the enclosing field names joined by dots (the default field when
   there is none), with the term's text, the kind chosen from the analysed / not analysed table, the
   modifiers of the enclosing ~ and ^ when they apply to a single clause (`single_leaf`), the name of the
   nearest named enclosing element, and zero_terms_query 'all' exactly on the clauses that are direct items of
   a conjunction (`direct_leaf`: a clause inside a nested clause is an item of the nested clause, not of the
   conjunction).  No flattening, no exceptions, no E-tree structure, no call to the builder.  (Records are built with the E-item
   constructors mk_word / mk_phrase / mk_range of EsBuild.v; their JSON is EsBuild.leaf_json.) *)
Definition word_leaf (cfg : es_config) (t : item) (v : str) (cx : ectx) : leaf :=
  mk_word v (if ctx_is_analyzed cfg cx
             then (if c_match_word_as_phrase cfg then k_match_phrase else k_match)
             else k_term)
          (ctx_fields cfg cx) (get_name t cx).

Definition phrase_leaf (cfg : es_config) (t : item) (v : str) (cx : ectx) : leaf :=
  if ctx_is_analyzed cfg cx
  then mk_phrase v (ctx_fields cfg cx) (get_name t cx)
  else mk_word (strip_ends v) k_term (ctx_fields cfg cx) (get_name t cx).

(* the context below a search field *)
Definition field_ctx (cfg : es_config) (t : item) (n : str) (cx : ectx) : ectx :=
  propagate_name t
    (mkECtx (Some (field_prefix cx ++ split_on c_dot n))
            (Some (negb (mem_str (dotted (field_prefix cx ++ split_on c_dot n)) (c_not_analyzed cfg))))
            (x_name cx)).

(* ---- nested boundaries, read from the declaration alone *)
(* the parents of the declared nested paths: the paths that get a `nested` clause *)
Definition nested_parents (cfg : es_config) : list str := map parent_path (declared_nested cfg).

(* a search field whose name has the components `names`, met under the field path `pre`, crosses a nested
   boundary (its expression is wrapped in a nested clause): pre ++ (some non-empty initial part of names) is
   the parent of a declared nested path *)
Definition crosses_nested (cfg : es_config) (pre names : list str) : bool :=
  existsb (fun k => mem_str (dotted (pre ++ firstn (S k) names)) (nested_parents cfg))
          (seq 0 (length names)).

(* the element is ONE word / phrase / range, possibly under parentheses, field wrappers and modifiers: a ~ or ^
   placed above it applies to that single clause.  Purely syntactic: no configuration, no nesting. *)
Fixpoint single_leaf (t : item) : bool :=
  match t with
  | Term KRegex _ _ => false
  | Term _ _ _ => true
  | Range _ _ _ _ _ => true
  | SearchField _ _ e | Grp _ _ e | Boost _ e _ _ => single_leaf e
  | Fuzzy _ x _ _ | Proximity _ x _ _ => single_leaf x
  | _ => false
  end.

(* on the way from the element down to its single leaf (through parentheses, field wrappers, modifiers) some
   search field crosses a nested boundary; `pre` = the enclosing field path *)
Fixpoint chain_crosses (cfg : es_config) (pre : list str) (t : item) : bool :=
  match t with
  | SearchField _ n e =>
      crosses_nested cfg pre (split_on c_dot n) || chain_crosses cfg (pre ++ split_on c_dot n) e
  | Grp _ _ e | Boost _ e _ _ => chain_crosses cfg pre e
  | Fuzzy _ x _ _ | Proximity _ x _ _ => chain_crosses cfg pre x
  | _ => false
  end.

(* the clause of the element is a DIRECT item of the enclosing bool clause (so that the zero_terms_query of an
   enclosing conjunction is its): a single leaf with no nested clause in between *)
Definition direct_leaf (cfg : es_config) (pre : list str) (t : item) : bool :=
  single_leaf t && negb (chain_crosses cfg pre t).

(* F22's class: somewhere in the tree a ^ / ~ (Boost, Fuzzy, Proximity) stands above a single leaf from which
   it is separated by a search field that crosses a nested boundary — `(a.b:x)^2`, `(a:(b:x))^2` with a.b
   declared nested; NOT `a.b:x^2`, `a.b:(x)^2`, `a:(b:x)^2`, `a:((b:x)^2)` (the modifier is below the field
   that crosses).  On exactly these trees the builder drops the modifier. *)
Fixpoint mod_over_nested_at (cfg : es_config) (pre : list str) (t : item) : bool :=
  match t with
  | Term _ _ _ | NoneItem _ | Range _ _ _ _ _ => false
  | SearchField _ n e => mod_over_nested_at cfg (pre ++ split_on c_dot n) e
  | Grp _ _ e => mod_over_nested_at cfg pre e
  | Boost _ e _ _ => (single_leaf e && chain_crosses cfg pre e) || mod_over_nested_at cfg pre e
  | Fuzzy _ x _ _ | Proximity _ x _ _ =>
      (single_leaf x && chain_crosses cfg pre x) || mod_over_nested_at cfg pre x
  | Unary _ _ a | ORange _ _ a _ => mod_over_nested_at cfg pre a
  | Op _ _ ops => existsb (mod_over_nested_at cfg pre) ops
  end.
Definition modifier_over_nested (cfg : es_config) (t : item) : bool := mod_over_nested_at cfg [] t.

(* the kind of bool clause an operation / unary operator becomes *)
Definition ekind (cfg : es_config) (t : item) : eopk :=
  match t with
  | Op KAnd _ _ => EKMust
  | Op KOr _ _ => EKShould
  | Op KUnknown _ _ => match c_default_operator cfg with DShould => EKShould | _ => EKMust end
  | Op KBool _ _ => EKBool
  | Unary KPlus _ _ => EKMust
  | _ => EKMustNot
  end.

Definition tagz (z : option str) (lf : bool) (ls : list leaf) : list leaf :=
  match z with Some s => if lf then map (leaf_set_ztq s) ls else ls | None => ls end.

(* a ~ / ^ applies to the single leaf below it (through parentheses, field wrappers and other modifiers),
   whether or not a field in between crosses a nested boundary; around anything else (an operation, a negation)
   it is ignored (stated assumption of the property: "around something that is not a single leaf clause") *)
Fixpoint xl (cfg : es_config) (t : item) (cx : ectx) : list leaf :=
  let cx' := propagate_name t cx in
  let sub (c : item) :=
    tagz (ztq_of_op (ekind cfg t)) (direct_leaf cfg (field_prefix cx') c) (xl cfg c cx') in
  match t with
  | Term KWord _ v => [word_leaf cfg t v cx]
  | Term KPhrase _ v => [phrase_leaf cfg t v cx]
  | Term KRegex _ _ => []
  | Range _ lo hi il ih =>
      match range_bound_value lo, range_bound_value hi with
      | Some vlo, Some vhi =>
          [mk_range (if il then k_gte else k_gt) vlo (if ih then k_lte else k_lt) vhi
                    (ctx_fields cfg cx) (get_name t cx)]
      | _, _ => []
      end
  | SearchField _ n e => xl cfg e (field_ctx cfg t n cx)
  | Grp _ _ e => xl cfg e cx'
  | Boost _ e f _ =>
      if single_leaf e then map (leaf_set_boost f) (xl cfg e cx') else xl cfg e cx'
  | Fuzzy _ x d _ =>
      if single_leaf x then map (leaf_set_fuzziness d) (xl cfg x cx') else xl cfg x cx'
  | Proximity _ x z _ =>
      if single_leaf x
      then map (if ctx_is_analyzed cfg cx then leaf_set_slop (dec_of_Z z)
                else leaf_set_fuzziness (dec_of_Z z)) (xl cfg x cx')
      else xl cfg x cx'
  | Op _ _ ops => (fix go (l : list item) : list leaf :=
                     match l with [] => [] | c :: l' => sub c ++ go l' end) ops
  | Unary _ _ a => sub a
  | ORange _ _ a _ => xl cfg a cx'
  | NoneItem _ => []
  end.

Definition expected_leaves (cfg : es_config) (t : item) : list leaf := xl cfg t ctx0.

(* the leaf clauses of a bool / nested query, in document order *)
Fixpoint leaves (j : json) : list json :=
  match j with
  | JObj [(k, JObj body)] =>
      if str_eqb k k_bool then
        (fix go (o : list (str * json)) : list json :=
           match o with
           | [] => []
           | (_, JList l) :: o' =>
               (fix gl (l : list json) : list json :=
                  match l with [] => [] | x :: l' => leaves x ++ gl l' end) l ++ go o'
           | _ :: o' => go o'
           end) body
      else if str_eqb k k_nested then
        (fix go (o : list (str * json)) : list json :=
           match o with
           | [] => []
           | (k', v) :: o' => if str_eqb k' k_query then leaves v else go o'
           end) body
      else [j]
  | _ => [j]
  end.

(* the clause a leaf item is rendered to (EsBuild.leaf_json is the documented table: kind from
   leaf_method, field, value under query / value, generated keys over the field options) *)
Definition clause (cfg : es_config) (l : leaf) : json :=
  match leaf_json cfg l with ROk j => j | RExc _ => JNull end.

Definition expected_clauses (cfg : es_config) (t : item) : list json :=
  map (clause cfg) (expected_leaves cfg t).

(* no clause kind is called "bool" or "nested" (a match_type / type option could say so; then the
   clause could not be told from a compound clause) *)
Definition kind_not_reserved (cfg : es_config) (l : leaf) : bool :=
  match leaf_method cfg l with
  | JStr m => negb (str_eqb m k_bool) && negb (str_eqb m k_nested)
  | _ => true
  end.
Definition kinds_not_reserved (cfg : es_config) (t : item) : bool :=
  forallb (kind_not_reserved cfg) (expected_leaves cfg t).

(* a condition on the configuration alone that implies kinds_not_reserved for every tree: no
   match_type / type option is "bool" or "nested" *)
Definition not_reserved_value (o : option json) : bool :=
  match o with
  | Some (JStr m) => negb (str_eqb m k_bool) && negb (str_eqb m k_nested)
  | _ => true
  end.
Definition options_not_reserved (cfg : es_config) : bool :=
  forallb (fun fo => not_reserved_value (obj_get k_match_type (snd fo)) &&
                     not_reserved_value (obj_get k_type (snd fo))) (c_field_options cfg).
