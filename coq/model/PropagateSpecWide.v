(* PropagateSpecWide.v — the WIDER premise of property C16 (specification side; nothing here
   follows the code and nothing here reads the generated class tables).  Definitions only.

   PropagateSpec.reported never lets a named element that covers SEVERAL terms (an operation, or a
   group / field / boost / unary operator around an operation) be reported as matching.  That is not
   what a search engine does with named compound queries, and auto_name does produce names for such
   elements.  The wide premise lets them be reported too, consistently: such an element may be in
   `matching` only if its value is true — the value taken BEFORE the negation when the element is
   itself a NOT / `-` (the same convention as for an element covering one term, where the name
   tells whether the TERM matched, not whether `NOT term` did).

   This is, clause by clause, the function `reported` of harness/c16.py (the premise under which the
   implementation is judged); harness/c16.py compares the two on every generated case. *)
Require Import Base Decimal Tree PropagateSpec.

Section Wide.
  (* true when the configured default operation is OrOperation *)
  Variable dflt_or : bool.
  (* truth assignment: does the leaf located at this (absolute) path match *)
  Variable sigma : path -> bool.

  (* what a reported name says about an element covering several terms: its value, taken before
     the negation when the element is itself a Not / Prohibit   (harness: pre_neg) *)
  Definition pre_neg (n : item) (q : path) : bool :=
    match n with
    | Unary KNot _ e | Unary KProhibit _ e => ev dflt_or sigma e (q ++ [0])
    | _ => ev dflt_or sigma n q
    end.

  Definition reported_wide (t : item) (matching other : list path) : Prop :=
    (* for each named element (= element whose path is in matching ∪ other) ... *)
    (forall q n, subexpr_at t q = Some n -> In q (matching ++ other) ->
       match covered n q with
       | Some a =>
           (* (1) ... covering one term: exactly as in PropagateSpec.reported *)
           (In q matching <-> sigma a = true) /\
           (In q matching -> neg_between n = false)
       | None =>
           (* (2) ... covering several terms: reported as matching only if true before its own
              negation (it may also be left in `other`: its status is then computed) *)
           In q matching -> pre_neg n q = true
       end) /\
    (* (3) every term is covered by a named element that covers just this term *)
    (forall a l, subexpr_at t a = Some l -> is_leaf l = true ->
       exists q n, In q (matching ++ other) /\ subexpr_at t q = Some n /\ covered n q = Some a).

  (* executable version (mirrors harness/c16.py `reported` line by line) *)
  Definition reported_wide_b (t : item) (matching other : list path) : bool :=
    let cn := cnodes t [] in
    forallb (fun qn =>
      let '(q, n) := qn in
      if mem_path q (matching ++ other) then
        match covered n q with
        | Some a => Bool.eqb (mem_path q matching) (sigma a)
                    && (negb (mem_path q matching) || negb (neg_between n))
        | None => negb (mem_path q matching) || pre_neg n q
        end
      else true) cn
    &&
    forallb (fun al =>
      let '(a, l) := al in
      if is_leaf l then
        existsb (fun qn => let '(q, n) := qn in
                   mem_path q (matching ++ other) &&
                   match covered n q with Some a' => path_eqb a' a | None => false end) cn
      else true) cn.

  (* the OTHER reading of clause (2), used only to show that the convention "before the negation"
     is necessary: a named element covering several terms is reported by its value, negation
     included *)
  Definition reported_after (t : item) (matching other : list path) : Prop :=
    (forall q n, subexpr_at t q = Some n -> In q (matching ++ other) ->
       match covered n q with
       | Some a => (In q matching <-> sigma a = true) /\ (In q matching -> neg_between n = false)
       | None => In q matching -> ev dflt_or sigma n q = true
       end) /\
    (forall a l, subexpr_at t a = Some l -> is_leaf l = true ->
       exists q n, In q (matching ++ other) /\ subexpr_at t q = Some n /\ covered n q = Some a).
  Definition reported_after_b (t : item) (matching other : list path) : bool :=
    let cn := cnodes t [] in
    forallb (fun qn =>
      let '(q, n) := qn in
      if mem_path q (matching ++ other) then
        match covered n q with
        | Some a => Bool.eqb (mem_path q matching) (sigma a)
                    && (negb (mem_path q matching) || negb (neg_between n))
        | None => negb (mem_path q matching) || ev dflt_or sigma n q
        end
      else true) cn
    &&
    forallb (fun al =>
      let '(a, l) := al in
      if is_leaf l then
        existsb (fun qn => let '(q, n) := qn in
                   mem_path q (matching ++ other) &&
                   match covered n q with Some a' => path_eqb a' a | None => false end) cn
      else true) cn.
End Wide.

(* ---- the status inherited from the nearest named element at or above a path (what the code gives
   to a LEAF; see PropagateWideProofs.propagate_leaf_status).

   Until /repo 831a694 an operation with zero operands inherited that status too, whereas boolean
   semantics gives any([]) = False / all([]) = True; the theorem then needed the guard
   `empty_ops_inherit_value` below (the inherited status of every zero-operand operation is its
   boolean value).  The repaired code evaluates such an operation as any([]) / all([]) and
   C16w_matching_iff_true has no guard; the definition is kept for the corollary
   C16w_matching_iff_true_partial only. *)

(* walk from the root down to r, remembering the status of the last named element met *)
Fixpoint inherit_walk (matching other : list path) (pre rest : path) (cur : bool) : bool :=
  let cur' := if mem_path pre matching then true
              else if mem_path pre other then false else cur in
  match rest with
  | [] => cur'
  | i :: rest' => inherit_walk matching other (pre ++ [i]) rest' cur'
  end.

Definition inherited (matching other : list path) (r : path) : bool :=
  inherit_walk matching other [] r false.

Definition empty_ops_inherit_value (dflt_or : bool) (t : item) (matching other : list path) : Prop :=
  forall r k m, subexpr_at t r = Some (Op k m []) ->
    inherited matching other r = negb (or_like dflt_or k).

(* no operation with zero operands at all (used by C16w_negation_convention_necessary: the other
   reading of the premise fails even on such trees) *)
Definition no_empty_op (t : item) : Prop :=
  forall p k m, subexpr_at t p <> Some (Op k m []).

Definition no_empty_op_b (t : item) : bool :=
  forallb (fun qn => match snd qn with Op _ _ [] => false | _ => true end) (cnodes t []).

(* ---- what a search engine reports for the named elements `named` when elements covering several
   terms are reported too: a named element is reported exactly when the term it covers is true /
   when its value before its own negation is true *)
Definition elem_true_wide (dflt_or : bool) (sigma : path -> bool) (t : item) (q : path) : bool :=
  match subexpr_at t q with
  | Some n => match covered n q with
              | Some a => sigma a
              | None => pre_neg dflt_or sigma n q
              end
  | None => false
  end.

Definition report_wide (dflt_or : bool) (sigma : path -> bool) (t : item) (named : list path)
  : list path * list path :=
  (filter (elem_true_wide dflt_or sigma t) named,
   filter (fun q => negb (elem_true_wide dflt_or sigma t q)) named).
