(* F4Proofs.v — finding F4 (C03 clause (c)) is not only refuted by a witness: it is DESCRIBED.

   PART A (an invariant of the LR driver, any input).  The generated tables never reduce one of the
   three binary productions (E OR E, E AND E, E E) when the lookahead is `+`, `-` or the word TO
   (`no_bin_on_sign`, a closed table fact re-computed at each build: there they SHIFT).  An LR-stack
   invariant in the style of LRTyping.v / GrammarMoreProofs.v (`accepted_derivable`) carries this
   through a run: every accepted input has a derivation in the PLY grammar in which every binary
   node is followed by a token other than + - TO (`lrd`), and the returned tree is its semantic value.
   By induction on such derivations the value NEVER contains F4's pattern

       an implicit operation with an AND/OR operand directly followed by an operand that starts
       with + / - / the word TO                                   (`Grammar.has_f4`),

   whereas inside F4's class the dictated tree contains it by definition (`Grammar.f4_input`).  So
   on EVERY accepted input of F4's class the returned tree differs from the dictated one
   (`f4_always_differs`, `f4_never_agrees`): the guard of C03d excludes nothing it need not.

   PART B (what the driver does instead, for EVERY query of the documented grammar, guard or not).
   The driver evaluates the operand sequence like an operator-precedence machine (`semp` / `valp`,
   executable) that, before a juxtaposed operand starting with + - TO, collapses nothing: the
   operand is attached to the innermost open operand.  `lrp_sound` is the simulation (one structural
   induction over syntax trees; three more states than GrammarMoreProofs.v: a signed operand may
   also start in `E AND E .` and `E OR E .`).  Consequences: every query of the documented grammar
   is accepted, F4's class included (`query_accepted`, `accepted_iff_query`: the two parsers have
   the same language); the returned tree is the dictated one exactly outside F4's class
   (`agrees_iff_outside_f4`); under C03d's guard the machine's tree is the dictated one
   (`valp_f4free`). *)
Require Import Base Decimal Tree GenTree GenParser Lexer Print Actions LR Parser Erase Grammar.
Require Import TreeEq TreeInd LayoutProofs LRTermination LRTyping PrecedenceProofs PrecedenceGeneral GrammarMoreProofs.
From Coq Require Import Lia.

(* ================================================================ the table fact *)
Definition is_bin (a : action_name) : bool :=
  match a with A_expression_or | A_expression_and | A_expression_implicit => true | _ => false end.

Definition no_bin_on_sign : bool :=
  forallb (fun s => forallb (fun la =>
    match gen_action s la with
    | Reduce p => match prod_of p with Some (_, _, a) => negb (is_bin a) | None => true end
    | _ => true
    end) SG) all_states.
Lemma no_bin_on_sign_ok : no_bin_on_sign = true.
Proof. vm_compute. reflexivity. Qed.

Lemma bin_not_on_sign s la p lhs rhs a :
  gen_action s la = Reduce p -> prod_of p = Some (lhs, rhs, a) -> In la SG -> is_bin a = false.
Proof.
  intros Ha Hp Hla.
  destruct (le_lt_dec gen_nstates s) as [Hs|Hs]; [rewrite gen_action_oob in Ha by exact Hs; discriminate|].
  pose proof no_bin_on_sign_ok as F. unfold no_bin_on_sign in F.
  rewrite forallb_forall in F. specialize (F s (all_states_complete s Hs)).
  rewrite forallb_forall in F. specialize (F la Hla). rewrite Ha, Hp in F.
  destruct (is_bin a); [discriminate|reflexivity].
Qed.

(* ================================================================ derivations the driver can build:
   `lrd X seg rest v` = X derives the segment `seg`, `rest` is what follows it in the input, `v` is the
   semantic value, and no binary production is applied in front of + - TO *)
Inductive lrd : sym -> list token -> list token -> symval -> Prop :=
| ld_tok t rest : lrd (ST (tk_type t)) [t] rest (token_value t)
| ld_prod p lhs rhs a ts rest args v evs :
    nth_error gen_prods p = Some (lhs, rhs, a) ->
    lrds rhs ts rest args -> run_action a args = Ok (v, evs) ->
    (is_bin a = true -> ~ In (la_of rest) SG) ->
    lrd (SN lhs) ts rest v
with lrds : list sym -> list token -> list token -> list symval -> Prop :=
| lds_nil rest : lrds [] [] rest []
| lds_cons X Xs seg more rest v vs :
    lrd X seg (more ++ rest) v -> lrds Xs more rest vs -> lrds (X :: Xs) (seg ++ more) rest (v :: vs).

Scheme lrd_ind2 := Minimality for lrd Sort Prop
  with lrds_ind2 := Minimality for lrds Sort Prop.
Combined Scheme lrd_mutind from lrd_ind2, lrds_ind2.

Lemma lrds_app A B s1 s2 rest a1 a2 :
  lrds A s1 (s2 ++ rest) a1 -> lrds B s2 rest a2 -> lrds (A ++ B) (s1 ++ s2) rest (a1 ++ a2).
Proof.
  intros HA. remember (s2 ++ rest) as r eqn:Er. revert Er.
  induction HA as [r|X Xs seg more r v vs Hd Hds IH]; intros Er HB; subst r; [exact HB|].
  simpl. rewrite <- app_assoc. constructor; [rewrite <- app_assoc; exact Hd|apply IH; [reflexivity|exact HB]].
Qed.

(* the stack: every cell carries such a derivation of a segment of the consumed input *)
Inductive stack_l : list nat -> list symval -> list token -> list token -> Prop :=
| sl_nil suf : stack_l [0] [] [] suf
| sl_cons s t X v ss vs pre seg suf :
    stack_l (t :: ss) vs pre (seg ++ suf) -> trans t X = Some s -> lrd X seg suf v ->
    stack_l (s :: t :: ss) (v :: vs) (pre ++ seg) suf.

Local Opaque incoming.

Lemma path_sound_l lhs : forall rrhs s ss vs pre suf,
  stack_l (s :: ss) vs pre suf -> path_check lhs rrhs s = true ->
  length rrhs <= length vs /\
  exists pre' seg t ss' g,
    pre = pre' ++ seg /\ lrds (rev rrhs) seg suf (rev (firstn (length rrhs) vs)) /\
    skipn (length rrhs) (s :: ss) = t :: ss' /\
    stack_l (t :: ss') (skipn (length rrhs) vs) pre' (seg ++ suf) /\ gen_goto t lhs = Some g.
Proof.
  induction rrhs as [|X rest IH]; intros s ss vs pre suf Hst Hpc.
  - simpl in *. split; [lia|].
    destruct (gen_goto s lhs) as [g|] eqn:Hg; [|discriminate].
    exists pre, [], s, ss, g. rewrite app_nil_r. repeat split; auto. constructor.
  - rewrite path_check_cons in Hpc. inversion Hst as [|s0 t X' v ss0 vs0 pre0 seg0 suf0 Hst' Htr Hd]; subst.
    + rewrite incoming_0 in Hpc. discriminate.
    + destruct (incoming s) as [|e inc] eqn:Hinc; [discriminate|]. rewrite <- Hinc in Hpc.
      rewrite forallb_forall in Hpc. specialize (Hpc _ (in_incoming _ _ _ Htr)). simpl in Hpc.
      apply andb_true_iff in Hpc. destruct Hpc as [Hx Hrest]. apply sym_eqb_eq in Hx. subst X'.
      destruct (IH _ _ _ _ _ Hst' Hrest) as [Hlen [pre' [seg' [t' [ss' [g [Hpre [Hds [Hsk [Hst'' Hg]]]]]]]]]].
      split; [simpl; lia|].
      exists pre', (seg' ++ seg0), t', ss', g. split; [rewrite Hpre, app_assoc; reflexivity|].
      split; [|split; [simpl; exact Hsk|split; [simpl; rewrite <- app_assoc; exact Hst''|exact Hg]]].
      simpl. apply lrds_app; [exact Hds|].
      rewrite <- (app_nil_r seg0). constructor; [exact Hd|constructor].
Qed.

Lemma stack_l_bottom ss vs pre suf : stack_l (0 :: ss) vs pre suf -> ss = [] /\ vs = [] /\ pre = [].
Proof.
  intros H. inversion H as [|s t X v ss0 vs0 pre0 seg0 suf0 Hst Htr Hd]; subst; [auto|].
  pose proof (in_incoming _ _ _ Htr) as Hin. rewrite incoming_0 in Hin. destruct Hin.
Qed.

Definition inv_l (toks : list token) (c : config) : Prop :=
  exists pre, stack_l (c_states c) (c_vals c) pre (c_toks c) /\ pre ++ c_toks c = toks.

Definition stepres_l (toks : list token) (r : stepres) : Prop :=
  match r with
  | Next c' => inv_l toks c'
  | Final (Ok i) _ => lrd (SN N_expression) toks [] (VItem i)
  | Final (Err _) _ => True
  end.

Lemma step_inv_l toks c : no_eof toks -> inv_l toks c -> stepres_l toks (step gen_tables None c).
Proof.
  intros Hne [pre [Hst Hpre]].
  assert (Htop : exists s ss, c_states c = s :: ss) by (inversion Hst; eauto).
  destruct Htop as [s [ss Hs]].
  rewrite step_eq. simpl tb_action. rewrite Hs. simpl hd.
  assert (Hmain : stepres_l toks
            match gen_action s (la_of (c_toks c)) with
            | Shift n => do_shift c n
            | Reduce p => do_reduce gen_tables c p
            | Accept => do_accept None c
            | ActErr => Final (Err (syntax_error (hd_error (c_toks c)))) []
            end).
  { destruct (gen_action s (la_of (c_toks c))) as [n|p| |] eqn:Ha; [| | |exact I].
    - (* shift *)
      unfold do_shift. destruct (c_toks c) as [|t rest] eqn:Htoks; [exact I|].
      simpl. exists (pre ++ [t]). simpl. split; [|rewrite <- app_assoc; exact Hpre].
      rewrite Hs in *. eapply sl_cons with (X := ST (tk_type t)); [exact Hst| |constructor].
      simpl. simpl in Ha. rewrite Ha. reflexivity.
    - (* reduce *)
      pose proof (cells_ok s (la_of (c_toks c))) as Hc. unfold cell_ok in Hc. rewrite Ha in Hc.
      destruct (prod_of p) as [[[lhs rhs] a]|] eqn:Hp; [|discriminate].
      rewrite Hs in Hst.
      destruct (path_sound_l lhs _ _ _ _ _ _ Hst Hc) as [Hlen [pre' [seg [t [ss' [g [Epre [Hds [Hsk [Hst' Hg]]]]]]]]]].
      rewrite rev_length in *. rewrite rev_involutive in Hds.
      pose proof (bin_not_on_sign _ _ _ _ _ _ Ha Hp) as Hbin.
      unfold do_reduce. destruct p as [|p']; [discriminate|]. simpl pred. simpl tb_prods. simpl tb_goto.
      simpl in Hp. rewrite Hp. cbv zeta.
      assert (Hl : Nat.ltb (length (c_vals c)) (length rhs) = false) by (apply Nat.ltb_ge; exact Hlen).
      rewrite Hl.
      destruct (run_action a (rev (firstn (length rhs) (c_vals c)))) as [[v d]|e] eqn:Hact; [|exact I].
      rewrite Hs, Hsk. simpl hd. rewrite Hg. simpl.
      exists (pre' ++ seg). simpl. split; [|rewrite <- Epre; exact Hpre].
      eapply sl_cons with (X := SN lhs); [exact Hst'|exact Hg|].
      eapply ld_prod; [exact Hp|exact Hds|exact Hact|].
      intros Hb Hin. rewrite (Hbin Hin) in Hb. discriminate.
    - (* accept *)
      pose proof (accept_only_at_end _ _ Ha) as Hla.
      assert (Hnil : c_toks c = []).
      { destruct (c_toks c) as [|t rest] eqn:Htoks; [reflexivity|]. exfalso. simpl in Hla.
        rewrite <- Hpre in Hne. unfold no_eof in Hne. rewrite Forall_app in Hne. destruct Hne as [_ Hne].
        inversion Hne; subst. contradiction. }
      pose proof (cells_ok s (la_of (c_toks c))) as Hc. unfold cell_ok in Hc. rewrite Ha in Hc.
      apply andb_true_iff in Hc. destruct Hc as [_ Hc]. unfold accept_state_ok in Hc.
      rewrite Hs in Hst. rewrite Hnil in Hst.
      inversion Hst as [|s0 t X v ss0 vs0 pre0 seg0 suf0 Hst' Htr Hd Es Ev Ep]; subst.
      + rewrite incoming_0 in Hc. discriminate.
      + destruct (incoming s) as [|e inc] eqn:Hinc; [discriminate|]. rewrite <- Hinc in Hc.
        rewrite forallb_forall in Hc. specialize (Hc _ (in_incoming _ _ _ Htr)). simpl in Hc.
        apply sym_eqb_eq in Hc. subst X.
        pose proof (accept_pred _ _ _ _ Ha Htr) as Et. subst t.
        destruct (stack_l_bottom _ _ _ _ Hst') as [-> [-> ->]].
        unfold do_accept. rewrite <- Ev. rewrite Hnil, app_nil_r in *. simpl in *.
        destruct v as [i|]; [exact Hd|exact I]. }
  destruct (c_toks c); exact Hmain.
Qed.

Lemma run_inv_l toks : no_eof toks -> forall fuel c, inv_l toks c ->
  match run gen_tables None fuel c with
  | Done (Ok i) _ => lrd (SN N_expression) toks [] (VItem i)
  | _ => True
  end.
Proof.
  intros Hne. induction fuel as [|f IH]; intros c Hi; simpl; [exact I|].
  pose proof (step_inv_l toks c Hne Hi) as Hs.
  destruct (step gen_tables None c) as [c'|r evs]; [apply IH; exact Hs|].
  destruct r; [exact Hs|exact I].
Qed.

Theorem accepted_lrd toks ev0 fuel t evs : no_eof toks ->
  run gen_tables None fuel (init_config toks ev0) = Done (Ok t) evs ->
  lrd (SN N_expression) toks [] (VItem t).
Proof.
  intros Hne Hr.
  pose proof (run_inv_l toks Hne fuel (init_config toks ev0)) as H.
  rewrite Hr in H. apply H. exists []. split; [constructor|reflexivity].
Qed.

(* ================================================================ such derivations never build F4's pattern *)
Definition is_opi (i : item) : bool := match i with Op _ _ _ => true | _ => false end.
Definition kids (k : opk) (x : item) : list item := if same_op k x then children x else [x].

Lemma is_opi_erase i : is_opi (erase i) = is_opi i.
Proof. destruct i; reflexivity. Qed.
Lemma kids_notop k x : is_opi x = false -> kids k x = [x].
Proof. destruct x; try reflexivity. discriminate. Qed.
Lemma is_andor_notop x : is_opi x = false -> is_andor x = false.
Proof. destruct x; try reflexivity. discriminate. Qed.

Lemma binary_erase k a o b v evs : binary k a o b = Ok (v, evs) ->
  exists i, v = VItem i /\ erase i = Op k meta0 (kids k (erase a) ++ kids k (erase b)) /\
            kids k (erase b) <> [].
Proof.
  unfold binary. cbv zeta. fold (same_op k a). fold (same_op k b). unfold kids. rewrite !same_op_erase.
  assert (Ha : map erase (if same_op k a then children a else [a]) =
               (if same_op k a then children (erase a) else [erase a])).
  { destruct (same_op k a) eqn:Sa; [|reflexivity]. destruct a; try discriminate. reflexivity. }
  destruct (same_op k b) eqn:Sb.
  - destruct b as [| | | | | | |kb mb lb| | |]; try discriminate. simpl children.
    destruct lb as [|b0 brest]; [discriminate|].
    destruct (htm_pos _ false false) as [ps sz]. intros H. inversion H; subst; clear H.
    eexists. split; [reflexivity|]. split; [|discriminate].
    simpl erase. rewrite map_app, Ha. simpl map. rewrite erase_add_head. reflexivity.
  - destruct (htm_pos _ false false) as [ps sz]. intros H. inversion H; subst; clear H.
    eexists. split; [reflexivity|]. split; [|discriminate].
    simpl erase. rewrite map_app, Ha. simpl map. rewrite erase_add_head. reflexivity.
Qed.

Lemma EF_app a b : EF (a ++ b) = EF a || EF b.
Proof. unfold EF. apply existsb_app. Qed.
Lemma EF_kids k x : has_f4 x = false -> EF (kids k x) = false.
Proof.
  intros H. unfold kids. destruct (same_op k x) eqn:S.
  - destruct x; try discriminate. simpl children. rewrite has_f4_op in H.
    apply Bool.orb_false_elim in H. tauto.
  - unfold EF. simpl. rewrite H. reflexivity.
Qed.
Lemma adj_kids x : has_f4 x = false -> adjacent_f4 (kids KUnknown x) = false.
Proof.
  intros H. unfold kids. destruct (same_op KUnknown x) eqn:S; [|reflexivity].
  destruct x as [| | | | | | |k m l| | |]; try discriminate. simpl children. simpl in S. destruct k; try discriminate.
  rewrite has_f4_op in H. apply Bool.orb_false_elim in H. tauto.
Qed.
Lemma ss_op k m l : starts_signed (Op k m l) = hdv l.
Proof. destruct l; reflexivity. Qed.
Lemma hdv_kids k x : kids k x <> [] -> hdv (kids k x) = starts_signed x.
Proof.
  unfold kids. destruct (same_op k x) eqn:S; [|reflexivity].
  destruct x; try discriminate. simpl children. intros _. rewrite ss_op. reflexivity.
Qed.
Lemma adj_app_nosign A B : hdv B = false -> adjacent_f4 (A ++ B) = adjacent_f4 A || adjacent_f4 B.
Proof.
  intros HB. induction A as [|x A IH]; [reflexivity|].
  destruct A as [|y A'].
  - destruct B as [|z B']; [reflexivity|]. simpl in HB. simpl. rewrite HB, Bool.andb_false_r. reflexivity.
  - change ((x :: y :: A') ++ B) with (x :: (y :: A') ++ B).
    change (adjacent_f4 (x :: (y :: A') ++ B))
      with ((is_andor x && starts_signed y) || adjacent_f4 ((y :: A') ++ B)).
    rewrite IH. change (adjacent_f4 (x :: y :: A')) with ((is_andor x && starts_signed y) || adjacent_f4 (y :: A')).
    rewrite Bool.orb_assoc. reflexivity.
Qed.
Lemma adj_single x B : is_andor x = false -> adjacent_f4 (x :: B) = adjacent_f4 B.
Proof. intros H. destruct B; simpl; rewrite ?H; reflexivity. Qed.

Lemma sg_not_eof : ~ In T_EOF SG.
Proof. simpl. intuition discriminate. Qed.
Lemma la_of_app ta r : In (la_of ta) SG -> la_of (ta ++ r) = la_of ta.
Proof. destruct ta; [intros H; destruct (sg_not_eof H)|reflexivity]. Qed.

(* the segment starts with + - or the word TO *)
Definition sgn (ts : list token) : Prop := In (la_of ts) SG.
Arguments sgn : simpl never.

(* what is known of a value that stands for the segment ts *)
Definition good (i : item) (ts : list token) : Prop :=
  has_f4 (erase i) = false /\
  (starts_signed (erase i) = true -> sgn ts) /\
  (forall k, kids k (erase i) <> []).

Lemma good_notop i ts : is_opi i = false -> has_f4 (erase i) = false ->
  (starts_signed (erase i) = true -> sgn ts) -> good i ts.
Proof.
  intros Ho H1 H2. split; [exact H1|split; [exact H2|]]. intros k. rewrite kids_notop; [discriminate|].
  rewrite is_opi_erase. exact Ho.
Qed.

Lemma binary_good k a o b v evs ta mid tb :
  binary k a o b = Ok (v, evs) -> good a ta -> good b tb ->
  (k = KUnknown -> starts_signed (erase b) = true -> is_opi a = false) ->
  exists i, v = VItem i /\ good i (ta ++ mid ++ tb).
Proof.
  intros Hb [A1 [A2 A3]] [B1 [B2 B3]] Hj.
  destruct (binary_erase _ _ _ _ _ _ Hb) as [i [-> [E Bne]]]. exists i. split; [reflexivity|].
  split; [|split].
  - rewrite E, has_f4_op, EF_app, (EF_kids _ _ A1), (EF_kids _ _ B1). rewrite Bool.orb_false_r.
    destruct k; try reflexivity.
    destruct (starts_signed (erase b)) eqn:Sb.
    + rewrite (kids_notop _ (erase a)) by (rewrite is_opi_erase; apply Hj; reflexivity).
      simpl app. rewrite adj_single; [apply adj_kids; exact B1|].
      apply is_andor_notop. rewrite is_opi_erase. apply Hj; reflexivity.
    + rewrite adj_app_nosign by (rewrite hdv_kids; assumption).
      rewrite (adj_kids _ A1), (adj_kids _ B1). reflexivity.
  - rewrite E, ss_op, hdv_app by apply A3. rewrite hdv_kids by apply A3. intros S.
    unfold sgn. rewrite la_of_app; apply A2; exact S.
  - intros k'. rewrite E. unfold kids at 1. destruct (same_op k' _); [|discriminate].
    simpl children. intros H. apply app_eq_nil in H. destruct H as [_ H]. exact (Bne H).
Qed.

Definition tokp (t : token) : Prop := tokok t = true.

Definition PLF (X : sym) (ts rest : list token) (v : symval) : Prop :=
  match X with
  | ST ty => exists t, ts = [t] /\ tk_type t = ty /\ v = token_value t /\ tokok t = true
  | SN N_expression =>
      exists i, v = VItem i /\ good i ts /\ (sgn rest -> is_opi i = false)
  | SN N_unary_expression => exists i, v = VItem i /\ good i ts /\ is_opi i = false
  | SN _ => exists i, v = VItem i /\ has_f4 (erase i) = false
  end.

Inductive plds : list sym -> list token -> list token -> list symval -> Prop :=
| pl_nil rest : plds [] [] rest []
| pl_cons X Xs seg more rest v vs :
    PLF X seg (more ++ rest) v -> plds Xs more rest vs -> plds (X :: Xs) (seg ++ more) rest (v :: vs).

Ltac inv_pl :=
  repeat match goal with
  | H : plds (_ :: _) _ _ _ |- _ => inversion H; subst; clear H
  | H : plds [] _ _ _ |- _ => inversion H; subst; clear H
  end;
  repeat match goal with
  | H : PLF _ _ _ _ |- _ => simpl in H
  end;
  repeat match goal with
  | H : exists _, _ |- _ => destruct H
  | H : _ /\ _ |- _ => destruct H
  end; subst.

Lemma tv_plain t : tk_type t <> T_TERM -> tk_type t <> T_PHRASE -> tk_type t <> T_REGEX ->
  tk_type t <> T_APPROX -> tk_type t <> T_BOOST ->
  token_value t = VTok (tk_lexeme t) (Some (tk_lexeme t))
    (mkMeta (Some (Z.of_nat (tk_pos t))) (Some (zlen (tk_lexeme t))) (tk_head t) (tk_tail t) None).
Proof. unfold token_value. intros. destruct (tk_type t); try congruence; reflexivity. Qed.

Lemma has_f4_fieldgroup x : has_f4 (fieldgroup x) = has_f4 x.
Proof. unfold fieldgroup. destruct x; try reflexivity. destruct k; reflexivity. Qed.

Lemma tv_term t : tk_type t = T_TERM -> token_value t = VItem (Term KWord
    (mkMeta (Some (Z.of_nat (tk_pos t))) (Some (zlen (tk_lexeme t))) (tk_head t) (tk_tail t) None) (tk_lexeme t)).
Proof. unfold token_value. intros ->. reflexivity. Qed.
Lemma tv_phrase t : tk_type t = T_PHRASE -> token_value t = VItem (Term KPhrase
    (mkMeta (Some (Z.of_nat (tk_pos t))) (Some (zlen (tk_lexeme t))) (tk_head t) (tk_tail t) None) (tk_lexeme t)).
Proof. unfold token_value. intros ->. reflexivity. Qed.
Lemma tv_regex t : tk_type t = T_REGEX -> token_value t = VItem (Term KRegex
    (mkMeta (Some (Z.of_nat (tk_pos t))) (Some (zlen (tk_lexeme t))) (tk_head t) (tk_tail t) None) (tk_lexeme t)).
Proof. unfold token_value. intros ->. reflexivity. Qed.

Lemma term_not_to t : tk_type t = T_TERM -> tokok t = true -> str_eqb (tk_lexeme t) s_TO = false.
Proof. unfold tokok. intros ->. destruct (str_eqb (tk_lexeme t) s_TO); [discriminate|reflexivity]. Qed.

(* ---- what each semantic action returns, up to layout *)
Ltac act_inv := simpl; intros H; inversion H; subst; clear H; eexists; (split; [reflexivity|]);
  simpl erase; rewrite ?erase_add_tail, ?erase_add_head; reflexivity.

Lemma act_plus l x m e v evs : run_action A_expression_plus [VTok l x m; VItem e] = Ok (v, evs) ->
  exists i, v = VItem i /\ erase i = Unary KPlus meta0 (erase e).
Proof. act_inv. Qed.
Lemma act_minus l x m e v evs : run_action A_expression_minus [VTok l x m; VItem e] = Ok (v, evs) ->
  exists i, v = VItem i /\ erase i = Unary KProhibit meta0 (erase e).
Proof. act_inv. Qed.
Lemma act_not l x m e v evs : run_action A_expression_not [VTok l x m; VItem e] = Ok (v, evs) ->
  exists i, v = VItem i /\ erase i = Unary KNot meta0 (erase e).
Proof. act_inv. Qed.
Lemma act_group l x m e l2 x2 m2 v evs : run_action A_grouping [VTok l x m; VItem e; VTok l2 x2 m2] = Ok (v, evs) ->
  exists i, v = VItem i /\ erase i = Grp KGroup meta0 (erase e).
Proof. act_inv. Qed.
Lemma act_range l x m lo l2 x2 m2 hi l3 x3 m3 v evs :
  run_action A_range [VTok l x m; VItem lo; VTok l2 x2 m2; VItem hi; VTok l3 x3 m3] = Ok (v, evs) ->
  exists i il ih, v = VItem i /\ erase i = Range meta0 (erase lo) (erase hi) il ih.
Proof. simpl; intros H; inversion H; subst; clear H. eexists _, _, _. split; [reflexivity|].
  simpl erase. rewrite ?erase_add_tail, ?erase_add_head. reflexivity. Qed.
Lemma act_pnt l x m e v evs : run_action A_possibly_negative_term [VTok l x m; VItem e] = Ok (v, evs) ->
  exists i, v = VItem i /\ erase i = Unary KProhibit meta0 (erase e).
Proof. act_inv. Qed.
Lemma act_lt l x m e v evs : run_action A_lessthan [VTok l (Some x) m; VItem e] = Ok (v, evs) ->
  exists i b, v = VItem i /\ erase i = ORange KTo meta0 (erase e) b.
Proof. simpl; intros H; inversion H; subst; clear H. eexists _, _. split; [reflexivity|].
  simpl erase. rewrite ?erase_add_tail, ?erase_add_head. reflexivity. Qed.
Lemma act_gt l x m e v evs : run_action A_greaterthan [VTok l (Some x) m; VItem e] = Ok (v, evs) ->
  exists i b, v = VItem i /\ erase i = ORange KFrom meta0 (erase e) b.
Proof. simpl; intros H; inversion H; subst; clear H. eexists _, _. split; [reflexivity|].
  simpl erase. rewrite ?erase_add_tail, ?erase_add_head. reflexivity. Qed.
Lemma act_field k m name l x mm e v evs :
  run_action A_field_search [VItem (Term k m name); VTok l x mm; VItem e] = Ok (v, evs) ->
  exists i, v = VItem i /\ erase i = SearchField meta0 name (fieldgroup (erase e)).
Proof.
  simpl. intros H. inversion H; subst; clear H. eexists. split; [reflexivity|].
  simpl erase. rewrite erase_add_head, erase_fg. reflexivity.
Qed.
Lemma act_prox e l d m v evs : run_action A_proximity [VItem e; VTok l d m] = Ok (v, evs) ->
  exists i z b, v = VItem i /\ erase i = Proximity meta0 (erase e) z b.
Proof.
  simpl. destruct d as [ds|]; [destruct (int_of_lexeme ds); [|discriminate]|];
  intros H; inversion H; subst; clear H; eexists _, _, _; (split; [reflexivity|]);
  simpl erase; rewrite ?erase_add_tail; reflexivity.
Qed.
Lemma act_boost e l d m v evs : run_action A_boosting [VItem e; VTok l d m] = Ok (v, evs) ->
  exists i z b, v = VItem i /\ erase i = Boost meta0 (erase e) z b.
Proof.
  simpl. destruct d as [ds|]; [destruct (dec_of_lexeme ds); [|discriminate]|];
  intros H; inversion H; subst; clear H; eexists _, _, _; (split; [reflexivity|]);
  simpl erase; rewrite ?erase_add_tail; reflexivity.
Qed.
Lemma act_fuzzy e l d m v evs : run_action A_fuzzy [VItem e; VTok l d m] = Ok (v, evs) ->
  exists i z b, v = VItem i /\ erase i = Fuzzy meta0 (erase e) z b.
Proof.
  simpl. destruct d as [ds|]; [destruct (dec_of_lexeme ds); [|discriminate]|];
  intros H; inversion H; subst; clear H; eexists _, _, _; (split; [reflexivity|]);
  simpl erase; rewrite ?erase_add_tail; reflexivity.
Qed.
Lemma act_to l x m v evs : run_action A_to_as_term [VTok l (Some x) m] = Ok (v, evs) ->
  exists i, v = VItem i /\ erase i = Term KWord meta0 x.
Proof. act_inv. Qed.

Lemma act_or x l v m y : run_action A_expression_or [VItem x; VTok l v m; VItem y] = binary KOr x (Some (VTok l v m)) y.
Proof. reflexivity. Qed.
Lemma act_and x l v m y : run_action A_expression_and [VItem x; VTok l v m; VItem y] = binary KAnd x (Some (VTok l v m)) y.
Proof. reflexivity. Qed.
Lemma act_j x y : run_action A_expression_implicit [VItem x; VItem y] = binary KUnknown x None y.
Proof. reflexivity. Qed.
Lemma act_id a v w evs : unit_action a -> run_action a [v] = Ok (w, evs) -> w = v.
Proof. intros U H. rewrite U in H. inversion H. reflexivity. Qed.

Lemma sgn_app ta r : sgn ta -> sgn (ta ++ r).
Proof. unfold sgn. intros H. rewrite la_of_app; exact H. Qed.
Lemma sgn_cons t r : In (tk_type t) SG -> sgn (t :: r).
Proof. intros H. exact H. Qed.

Lemma good_of_erase i ts e : erase i = e -> is_opi e = false -> has_f4 e = false ->
  (starts_signed e = true -> sgn ts) -> good i ts /\ is_opi i = false.
Proof.
  intros <- Ho H1 H2. rewrite is_opi_erase in Ho. split; [apply good_notop; assumption|exact Ho].
Qed.

Ltac tv_rw Hact :=
  repeat match goal with
  | H : tk_type ?t = _ |- _ =>
      first [rewrite (tv_plain t) in Hact by (rewrite H; discriminate)
            | rewrite (tv_term t H) in Hact | rewrite (tv_phrase t H) in Hact
            | rewrite (tv_regex t H) in Hact
            | let m := fresh "m" in let E := fresh "E" in
              destruct (approx_value t H) as [m E]; rewrite E in Hact; clear E
            | let m := fresh "m" in let E := fresh "E" in
              destruct (boost_value t H) as [m E]; rewrite E in Hact; clear E]
  end.

Ltac gd := repeat match goal with H : good _ _ |- _ => destruct H as [? [? ?]] end.
Ltac f4_goal :=
  simpl has_f4; rewrite ?has_f4_fieldgroup;
  repeat match goal with H : has_f4 _ = false |- _ => rewrite H end; reflexivity.

Ltac act_case Hact i E :=
  first
  [ destruct (act_plus _ _ _ _ _ _ Hact) as [i [-> E]]
  | destruct (act_minus _ _ _ _ _ _ Hact) as [i [-> E]]
  | destruct (act_not _ _ _ _ _ _ Hact) as [i [-> E]]
  | destruct (act_group _ _ _ _ _ _ _ _ _ Hact) as [i [-> E]]
  | destruct (act_pnt _ _ _ _ _ _ Hact) as [i [-> E]]
  | destruct (act_field _ _ _ _ _ _ _ _ _ Hact) as [i [-> E]]
  | destruct (act_to _ _ _ _ _ Hact) as [i [-> E]]
  | destruct (act_range _ _ _ _ _ _ _ _ _ _ _ _ _ Hact) as [i [? [? [-> E]]]]
  | destruct (act_lt _ _ _ _ _ _ Hact) as [i [? [-> E]]]
  | destruct (act_gt _ _ _ _ _ _ Hact) as [i [? [-> E]]]
  | destruct (act_prox _ _ _ _ _ _ Hact) as [i [? [? [-> E]]]]
  | destruct (act_boost _ _ _ _ _ _ Hact) as [i [? [? [-> E]]]]
  | destruct (act_fuzzy _ _ _ _ _ _ Hact) as [i [? [? [-> E]]]] ].

Ltac id_case Hact :=
  match type of Hact with run_action ?a [?v] = Ok (?w, _) =>
    assert (w = v) by (apply (act_id a v w _ (fun x => eq_refl) Hact)); subst w; clear Hact
  end.

Lemma prod_good p lhs rhs a ts rest args v evs :
  nth_error gen_prods p = Some (lhs, rhs, a) -> plds rhs ts rest args -> run_action a args = Ok (v, evs) ->
  (is_bin a = true -> ~ In (la_of rest) SG) ->
  PLF (SN lhs) ts rest v.
Proof.
  intros Hp Hd Hact Hbin.
  apply nth_error_In in Hp. unfold gen_prods in Hp. simpl in Hp.
  repeat (destruct Hp as [Hp|Hp]; [inversion Hp; subst; clear Hp; inv_pl; simpl app; rewrite ?app_nil_r in *; simpl PLF|]);
    [..|destruct Hp].
  all: tv_rw Hact.
  all: try (let i := fresh "i" in let E := fresh "E" in
            act_case Hact i E; gd; exists i; (split; [reflexivity|]);
            first [apply (good_of_erase _ _ _ E); [reflexivity|f4_goal|]
                  |rewrite E; f4_goal]).
  all: try (id_case Hact; gd; eexists; (split; [reflexivity|])).
  all: try f4_goal.
  all: try (apply (good_of_erase _ _ _ eq_refl); [reflexivity|f4_goal|]).
  all: try (intros S; simpl in S; try discriminate S).
  all: try (apply sgn_cons; match goal with H : tk_type _ = _ |- _ => rewrite H end; simpl; tauto).
  - (* E OR E *) rewrite act_or in Hact.
    match goal with Ha : good ?a ?ta, Hb : good ?b ?tb, Ht : tk_type ?o = T_OR_OP |- _ =>
      destruct (binary_good _ _ _ _ _ _ ta [o] tb Hact Ha Hb) as [i [-> Hg]]; [discriminate|] end.
    exists i. split; [reflexivity|]. split; [exact Hg|]. intros Hs. exfalso. exact (Hbin eq_refl Hs).
  - (* E AND E *) rewrite act_and in Hact.
    match goal with Ha : good ?a ?ta, Hb : good ?b ?tb, Ht : tk_type ?o = T_AND_OP |- _ =>
      destruct (binary_good _ _ _ _ _ _ ta [o] tb Hact Ha Hb) as [i [-> Hg]]; [discriminate|] end.
    exists i. split; [reflexivity|]. split; [exact Hg|]. intros Hs. exfalso. exact (Hbin eq_refl Hs).
  - (* E E: the junction *) rewrite act_j in Hact.
    match goal with Ha : good ?a ?ta, Hb : good ?b ?tb, Hf : sgn (?tb ++ rest) -> is_opi ?a = false |- _ =>
      destruct (binary_good _ _ _ _ _ _ ta [] tb Hact Ha Hb) as [i [-> Hg]];
        [intros _ Sb; apply Hf, sgn_app; destruct Hb as [_ [Hb2 _]]; exact (Hb2 Sb)|] end.
    exists i. split; [reflexivity|]. split; [exact Hg|]. intros Hs. exfalso. exact (Hbin eq_refl Hs).
  - (* E -> U *) split; [split; [|split]; assumption|intros _; assumption].
  - (* bound -> value *) simpl in Hact. inversion Hact; subst. eexists. split; [reflexivity|assumption].
  - (* U ^ *) match goal with H : starts_signed _ = true -> sgn ?s |- sgn (?s ++ _) => apply sgn_app, H; exact S end.
  - (* TERM: the lexer never makes a TERM of the word TO *)
    match goal with H : tk_type ?t = T_TERM, H' : tokok ?t = true |- _ => rewrite (term_not_to t H H') in S end.
    discriminate S.
Qed.

Lemma lrd_good :
  (forall X ts rest v, lrd X ts rest v -> Forall tokp ts -> PLF X ts rest v) /\
  (forall Xs ts rest vs, lrds Xs ts rest vs -> Forall tokp ts -> plds Xs ts rest vs).
Proof.
  apply lrd_mutind.
  - intros t rest F. simpl. exists t. inversion F; subst. auto.
  - intros p lhs rhs a ts rest args v evs Hp _ IH Hact Hb F. eapply prod_good; eauto.
  - constructor.
  - intros X Xs seg more rest v vs _ IH1 _ IH2 F. apply Forall_app in F. destruct F. constructor; auto.
Qed.

(* THE invariant: whatever the driver accepts, the returned tree does not contain F4's pattern *)
Theorem accepted_no_f4 toks ev0 fuel t evs : no_eof toks -> forallb tokok toks = true ->
  run gen_tables None fuel (init_config toks ev0) = Done (Ok t) evs -> has_f4 (erase t) = false.
Proof.
  intros Hne Hok Hr. pose proof (accepted_lrd _ _ _ _ _ Hne Hr) as Hd.
  assert (F : Forall tokp toks) by (apply Forall_forall; apply forallb_forall; exact Hok).
  destruct (proj1 lrd_good _ _ _ _ Hd F) as [i [E [[G _] _]]]. inversion E; subst. exact G.
Qed.

Theorem parse_no_f4 s t : snd (lex s) = None -> parse s = Some (Ok t) -> has_f4 (erase t) = false.
Proof.
  intros He Hp. pose proof (lex_no_eof s) as Hne. pose proof (lex_tokok s) as Hok.
  unfold parse, parse_full, parse_with in Hp. destruct (lex s) as [toks le]. simpl in *. subst le.
  destruct (run gen_tables None (parse_fuel toks) _) as [r evs|] eqn:Hr; [|discriminate].
  inversion Hp; subst. exact (accepted_no_f4 _ _ _ _ _ Hne Hok Hr).
Qed.

(* inside F4's class the dictated tree contains the pattern, by definition of the class *)
Lemma f4_input_spec ks : f4_input ks = true -> exists t0, spec_parse ks = Some t0 /\ has_f4 t0 = true.
Proof. unfold f4_input. destruct (spec_parse ks) as [t0|]; [eauto|discriminate]. Qed.

Theorem f4_always_differs s t t0 : snd (lex s) = None -> f4_input (map tok_key (fst (lex s))) = true ->
  parse s = Some (Ok t) -> spec_parse (map tok_key (fst (lex s))) = Some t0 -> erase t <> t0.
Proof.
  intros He Hf Hp Hs E. destruct (f4_input_spec _ Hf) as [t1 [Hs1 H1]]. rewrite Hs in Hs1. inversion Hs1; subst t1.
  rewrite <- E, (parse_no_f4 s t He Hp) in H1. discriminate.
Qed.


(* ================================================================================================
   PART B — what the driver DOES, for every query of the documented grammar, guard or not.

   The yield of a syntax tree is a sequence of OPERANDS (level-3 phrases) joined by AND, OR or
   nothing.  The driver on the generated tables evaluates it like an operator-precedence machine
   whose frames are (value, operator) pairs: before the next operator it collapses the frames of
   higher-or-equal precedence (AND before AND; AND, OR before OR; everything before a juxtaposed
   operand or the end) — EXCEPT that before a juxtaposed operand that starts with + - TO it
   collapses NOTHING: the operand is attached to the innermost open operand.  That machine is
   `semp` / `valp` below (executable); `lrp_sound` shows the driver follows it on every well-formed
   tree.  Outside F4's class this is the dictated tree, inside it never is. *)
Inductive jop := JAnd | JOr | JJ.
Definition jk (o : jop) : opk := match o with JAnd => KAnd | JOr => KOr | JJ => KUnknown end.
Definition bin (k : opk) (a b : item) : item := Op k meta0 (kids k a ++ kids k b).
Definition frames := list (item * jop).
Definition can_red (f inc : jop) (sg : bool) : bool :=
  match inc with
  | JAnd => match f with JAnd => true | _ => false end
  | JOr => match f with JJ => false | _ => true end
  | JJ => negb sg
  end.
Fixpoint collapse (fs : frames) (v : item) (inc : jop) (sg : bool) : frames * item :=
  match fs with
  | (v', f) :: r => if can_red f inc sg then collapse r (bin (jk f) v' v) inc sg else (fs, v)
  | [] => ([], v)
  end.
Definition mst := option (frames * item).
Definition push (inc : option jop) (sg : bool) (u : item) (st : mst) : mst :=
  match inc, st with
  | Some op, Some (fs, v) => let '(fs', v') := collapse fs v op sg in Some ((v', op) :: fs', u)
  | _, _ => Some ([], u)
  end.
Definition finish (st : mst) : item :=
  match st with Some (fs, v) => snd (collapse fs v JJ false) | None => NoneItem meta0 end.
Record psem := mkP { pv : item; pf : option jop -> mst -> mst }.
Definition leafp (sg : bool) (v : item) : psem := mkP v (fun inc st => push inc sg v st).
Definition chainp (a : psem) (op : jop) (b : psem) : psem :=
  let f := fun inc st => pf b (Some op) (pf a inc st) in mkP (finish (f None None)) f.
Fixpoint semp (p : qtree) : psem :=
  match p with
  | QAtom t => leafp false (atom_item t)
  | QApprox t a => leafp false (approx_item t a)
  | QBoost p b => leafp (sgq p) (boost_item (pv (semp p)) b)
  | QNot _ p => leafp false (Unary KNot meta0 (pv (semp p)))
  | QField name _ p => leafp false (SearchField meta0 (tk_lexeme name) (fieldgroup (pv (semp p))))
  | QGroup _ q _ => leafp false (Grp KGroup meta0 (pv (semp q)))
  | QAnd a _ b => chainp (semp a) JAnd (semp b)
  | QOr a _ b => chainp (semp a) JOr (semp b)
  | QJuxt a b => chainp (semp a) JJ (semp b)
  | QSign sg p => leafp true (Unary (sign_kind sg) meta0 (pv (semp p)))
  | QTo t => leafp true (word (tk_lexeme t))
  | QOpen o v => leafp false (ORange (open_kind o) meta0 (atom_item v) (mem_N c_eq (tk_lexeme o)))
  | QRange l lo _ hi r => leafp false (range_item l lo hi r)
  end.
Definition valp (p : qtree) : item := pv (semp p).


(* ---- values *)
Definition nek (v : item) : Prop := forall k, kids k v <> [].
Definition vok (i v : item) : Prop := erase i = v /\ nek v.

Lemma nek_notop v : is_opi v = false -> nek v.
Proof. intros H k. rewrite kids_notop by exact H. discriminate. Qed.
Lemma nek_bin k a b : nek b -> nek (bin k a b).
Proof.
  intros Hb k'. unfold bin, kids at 1. destruct (same_op k' _); [|discriminate].
  simpl children. intros H. apply app_eq_nil in H. destruct H as [_ H]. exact (Hb k H).
Qed.

Lemma binary_total k a o b : nek (erase b) ->
  exists i evs, binary k a o b = Ok (VItem i, evs) /\ erase i = bin k (erase a) (erase b).
Proof.
  intros Hb. specialize (Hb k). unfold binary. cbv zeta. fold (same_op k a). fold (same_op k b).
  unfold bin, kids in *. rewrite !same_op_erase in *.
  assert (Ha : map erase (if same_op k a then children a else [a]) =
               (if same_op k a then children (erase a) else [erase a])).
  { destruct (same_op k a) eqn:Sa; [|reflexivity]. destruct a; try discriminate. reflexivity. }
  destruct (same_op k b) eqn:Sb.
  - destruct b as [| | | | | | |kb mb lb| | |]; try discriminate. simpl children in *.
    destruct lb as [|b0 brest]; [simpl in Hb; congruence|].
    destruct (htm_pos _ false false) as [ps sz]. eexists _, _. split; [reflexivity|].
    simpl erase. rewrite map_app, Ha. simpl map. rewrite erase_add_head. reflexivity.
  - destruct (htm_pos _ false false) as [ps sz]. eexists _, _. split; [reflexivity|].
    simpl erase. rewrite map_app, Ha. simpl map. rewrite erase_add_head. reflexivity.
Qed.

(* ---- states and table facts: besides `E E .` (S14) a signed operand may start in `E AND E .`
   and `E OR E .` *)
Definition G_AND : nat := gotoE SAND.
Definition G_OR : nat := gotoE SOR.
Definition GS : list nat := [S14; G_AND; G_OR].
Definition UCg : list nat := UC ++ GS.
Definition XCg : list nat := XC ++ GS.
Definition ES : list nat := [SJ; SJP; S14; G_AND; G_OR].     (* the states on top of an `expression` *)

Transparent S0 SJ SOR SAND gotoE SLP SJP SNOT STERM SCOL SPLUS SMINUS SLT SGT gotoU S14.

Lemma Qg_gotoU : forall s, In s UCg -> gen_goto s U = Some (gotoU s).
Proof. each_state; reflexivity. Qed.
Lemma Qg_sign : forall s, In s UCg -> gen_action s T_PLUS = Shift SPLUS /\ gen_action s T_MINUS = Shift SMINUS.
Proof. each_state; split; reflexivity. Qed.
Lemma Qg_to : forall s, In s UCg ->
  exists n, gen_action s T_TO = Shift n /\
  forall la, In la M3B -> exists p, gen_action n la = Reduce (S p) /\
    nth_error gen_prods p = Some (U, [ST T_TO], A_to_as_term).
Proof. each_state; eexists; (split; [reflexivity|]); each_la; red_fact. Qed.
Lemma Qg_boost : forall s, In s UCg ->
  exists nb, gen_action (gotoU s) T_BOOST = Shift nb /\
  forall la, In la M3B -> exists p, gen_action nb la = Reduce (S p) /\
    nth_error gen_prods p = Some (U, [SN U; ST T_BOOST], A_boosting).
Proof. each_state; eexists; (split; [reflexivity|]); each_la; red_fact. Qed.
Lemma Qg_expr : forall s, In s XCg ->
  gen_goto s E = Some (gotoE s) /\
  forall la, In la M3 -> exists p, gen_action (gotoU s) la = Reduce (S p) /\
    nth_error gen_prods p = Some (E, [SN U], A_expression_unary).
Proof. each_state; (split; [reflexivity|]); each_la; red_fact. Qed.
Lemma Qg_es : forall e, In e ES -> gen_goto e E = Some S14 /\ gotoE e = S14.
Proof. each_state; split; reflexivity. Qed.
Lemma Qg_and_shift : forall e, In e [SJ; SJP; S14; G_OR] -> gen_action e T_AND_OP = Shift SAND.
Proof. each_state; reflexivity. Qed.
Lemma Qg_or_shift : forall e, In e [SJ; SJP; S14] -> gen_action e T_OR_OP = Shift SOR.
Proof. each_state; reflexivity. Qed.
Lemma Qg_base : forall b, In b XCJ -> In (gotoE b) [SJ; SJP] /\ gen_goto b E = Some (gotoE b).
Proof. each_state; split; simpl; auto. Qed.
Lemma Qg_ops : gen_goto SAND E = Some G_AND /\ gen_goto SOR E = Some G_OR.
Proof. split; reflexivity. Qed.

Lemma G_AND_eq : G_AND = gotoE SAND. Proof. reflexivity. Qed.
Lemma G_OR_eq : G_OR = gotoE SOR. Proof. reflexivity. Qed.
Global Opaque G_AND G_OR.
Global Opaque S0 SJ SOR SAND gotoE SLP SJP SNOT STERM SCOL SPLUS SMINUS SLT SGT gotoU S14.

Lemma in_UC_UCg s : In s UC -> In s UCg. Proof. intros H. unfold UCg. apply in_or_app. auto. Qed.

Definition clg (C : list nat) (p : qtree) : list nat := if sgq p then C ++ GS else C.
Lemma clg_base C p : incl C (clg C p).
Proof. unfold clg. destruct (sgq p); [apply incl_appl|]; apply incl_refl. Qed.
Lemma clg_incl C C' p : incl C C' -> incl (clg C p) (clg C' p).
Proof. unfold clg. intros H. destruct (sgq p); [apply incl_app_app; [exact H|apply incl_refl]|exact H]. Qed.
Lemma clg_s C p : incl (clg C p) (C ++ GS).
Proof. unfold clg. destruct (sgq p); [apply incl_refl|apply incl_appl, incl_refl]. Qed.

(* ---- the operand-level lemmas of GrammarMoreProofs.v, from the larger classes *)
Lemma q_3Xg C ts v : incl C XCg -> LRrun C gotoU M3 ts v -> LRrun C gotoE M3 ts v.
Proof.
  intros HC H s ss vals rest d Hs Hla.
  destruct (H s ss vals rest d Hs Hla) as [i [d1 [Hrun Hi]]].
  destruct (Qg_expr s (HC _ Hs)) as [Hg Hred]. destruct (Hred _ Hla) as [p [Hp Hprod]].
  exists i. eexists. split; [|exact Hi].
  eapply reach_trans; [exact Hrun|]. apply reach_step.
  eapply step_reduce1; [exact Hp|exact Hprod|reflexivity|exact Hg].
Qed.

Lemma q_boostg C ts v b : incl C UCg -> LRrun C gotoU M3B ts v -> tk_type b = T_BOOST -> dec_ok b = true ->
  LRrun C gotoU M3B (ts ++ [b]) (boost_item v b).
Proof.
  intros HC H Hb Hok s ss vals rest d Hs Hla. rewrite <- app_assoc. simpl app.
  destruct (H s ss vals (b :: rest) d Hs) as [x [d1 [Hrun Hx]]]; [apply la_tok; rewrite Hb; simpl; auto|].
  destruct (Qg_boost s (HC _ Hs)) as [nb [Hnb Hred]]. destruct (Hred _ Hla) as [p [Hp Hprod]].
  destruct (boost_value b Hb) as [mb Eb].
  assert (Ev : exists i evs, run_action A_boosting [VItem x; token_value b] = Ok (VItem i, evs) /\
                             erase i = boost_item v b).
  { unfold boost_item, dec_ok in *. rewrite Eb. simpl.
    destruct (degree_of (tk_lexeme b)) as [ds|].
    - destruct (dec_of_lexeme ds); [|discriminate]. eexists _, _. split; [reflexivity|].
      simpl. rewrite erase_add_tail, Hx. reflexivity.
    - eexists _, _. split; [reflexivity|]. simpl. rewrite erase_add_tail, Hx. reflexivity. }
  destruct Ev as [i [evs [Hact Hi]]]. exists i. eexists. split; [|exact Hi].
  eapply reach_trans; [exact Hrun|].
  eapply reach_trans; [apply reach_step, step_shift; rewrite Hb; exact Hnb|].
  apply reach_step. eapply step_reduce2; [exact Hp|exact Hprod|exact Hact|apply Qg_gotoU; exact (HC _ Hs)].
Qed.

Lemma q_signg sg ts v : LRrun UC gotoU M3 ts v -> is_sign_tok (tk_type sg) = true ->
  LRrun UCg gotoU M3 (sg :: ts) (Unary (sign_kind sg) meta0 v).
Proof.
  intros H Hsg s ss vals rest d Hs Hla. simpl app.
  destruct (Qg_sign s Hs) as [Hp Hm].
  destruct (Q_sign S14 in_S14_UCs) as [_ [_ Hred]].
  destruct (Hred _ Hla) as [[p1 [Hp1 Hprod1]] [p2 [Hp2 Hprod2]]].
  destruct (plain_value sg) as [nl [nv [nm En]]];
    try (intros E; rewrite E in Hsg; discriminate).
  unfold sign_kind. destruct (tk_type sg) eqn:Et; try discriminate.
  - destruct (H SMINUS (s :: ss) (token_value sg :: vals) rest d in_SMINUS_UC Hla) as [x [d1 [Hrun Hx]]].
    eexists. eexists. split.
    + eapply reach_trans; [apply reach_step, step_shift; rewrite Et; exact Hm|].
      eapply reach_trans; [exact Hrun|].
      apply reach_step. eapply step_reduce2; [exact Hp2|exact Hprod2| |apply Qg_gotoU; exact Hs].
      rewrite En. reflexivity.
    + simpl. rewrite erase_add_head, Hx. reflexivity.
  - destruct (H SPLUS (s :: ss) (token_value sg :: vals) rest d in_SPLUS_UC Hla) as [x [d1 [Hrun Hx]]].
    eexists. eexists. split.
    + eapply reach_trans; [apply reach_step, step_shift; rewrite Et; exact Hp|].
      eapply reach_trans; [exact Hrun|].
      apply reach_step. eapply step_reduce2; [exact Hp1|exact Hprod1| |apply Qg_gotoU; exact Hs].
      rewrite En. reflexivity.
    + simpl. rewrite erase_add_head, Hx. reflexivity.
Qed.

Lemma q_tog t : tk_type t = T_TO -> LRrun UCg gotoU M3B [t] (word (tk_lexeme t)).
Proof.
  intros Ht s ss vals rest d Hs Hla.
  destruct (Qg_to s Hs) as [n [Hn Hred]]. destruct (Hred _ Hla) as [p [Hp Hprod]].
  eexists. eexists. split.
  - eapply reach_trans; [apply reach_step, step_shift; rewrite Ht; exact Hn|].
    apply reach_step. eapply step_reduce1; [exact Hp|exact Hprod| |apply Qg_gotoU; exact Hs].
    unfold token_value. rewrite Ht. reflexivity.
  - reflexivity.
Qed.

Definition KE : list tok := [T_EOF; T_RPAREN].                   (* after a whole query *)

Lemma q_groupg l ts v r : LRrun XCJ gotoE KE ts v -> tk_type l = T_LPAREN -> tk_type r = T_RPAREN ->
  LRrun UC gotoU M3B (l :: ts ++ [r]) (Grp KGroup meta0 v).
Proof.
  intros H Hl Hr s ss vals rest d Hs Hla. simpl app. rewrite <- app_assoc. simpl app.
  destruct (Q_group s Hs) as [Hsh [nr [Hnr Hred]]]. destruct (Hred _ Hla) as [p [Hp Hprod]].
  destruct (H SLP (s :: ss) (token_value l :: vals) (r :: rest) d in_SLP_XCJ) as [x [d1 [Hrun Hx]]];
    [apply la_tok; rewrite Hr; simpl; tauto|].
  destruct (plain_value l) as [ll [lv [lm El]]]; try (rewrite Hl; discriminate).
  destruct (plain_value r) as [rl [rv [rm Er]]]; try (rewrite Hr; discriminate).
  eexists. eexists. split.
  - eapply reach_trans; [apply reach_step, step_shift; rewrite Hl; exact Hsh|].
    eapply reach_trans; [exact Hrun|].
    eapply reach_trans; [apply reach_step, step_shift; rewrite Hr; exact Hnr|].
    apply reach_step. eapply step_reduce3; [exact Hp|exact Hprod| |apply Q_gotoU, in_UC_UCs; exact Hs].
    rewrite El, Er. reflexivity.
  - simpl. rewrite erase_add_tail, erase_add_head, Hx. reflexivity.
Qed.

(* ---- the machine's state on the LR stack *)
Fixpoint stk (b : nat) (fs : frames) : list nat :=
  match fs with
  | [] => [gotoE b; b]
  | (_, JAnd) :: r => G_AND :: SAND :: stk b r
  | (_, JOr) :: r => G_OR :: SOR :: stk b r
  | (_, JJ) :: r => S14 :: stk b r
  end.

Inductive brel : frames -> list symval -> Prop :=
| br_nil : brel [] []
| br_and v i fs l x m r : vok i v -> brel fs r -> brel ((v, JAnd) :: fs) (VTok l x m :: VItem i :: r)
| br_or v i fs l x m r : vok i v -> brel fs r -> brel ((v, JOr) :: fs) (VTok l x m :: VItem i :: r)
| br_j v i fs r : vok i v -> brel fs r -> brel ((v, JJ) :: fs) (VItem i :: r).

Lemma stk_top b fs : In b XCJ -> exists e X r, stk b fs = e :: X :: r /\ In e ES /\ gen_goto X E = Some e.
Proof.
  intros Hb. induction fs as [|[v [| |]] fs IH].
  - destruct (Qg_base b Hb) as [Hin Hg]. exists (gotoE b), b, []. split; [reflexivity|]. split; [|exact Hg].
    simpl in Hin. simpl. tauto.
  - exists G_AND, SAND, (stk b fs). split; [reflexivity|]. split; [simpl; tauto|apply Qg_ops].
  - exists G_OR, SOR, (stk b fs). split; [reflexivity|]. split; [simpl; tauto|apply Qg_ops].
  - destruct IH as [e [X [r [E1 [He Hg]]]]]. exists S14, e, (X :: r). split; [simpl; rewrite E1; reflexivity|].
    split; [simpl; tauto|apply Qg_es; exact He].
Qed.

Definition la_for (inc : jop) (sg : bool) (toks : list token) : Prop :=
  match inc with
  | JAnd => la_of toks = T_AND_OP
  | JOr => la_of toks = T_OR_OP
  | JJ => if sg then In (la_of toks) SG else In (la_of toks) K1
  end.

Lemma la_for_k3 f inc sg toks : la_for inc sg toks -> can_red f inc sg = true ->
  In (la_of toks) K1 \/ (la_of toks = T_OR_OP /\ f <> JJ) \/ (la_of toks = T_AND_OP /\ f = JAnd).
Proof.
  destruct inc; simpl; intros H C.
  - right. right. split; [exact H|]. destruct f; try discriminate; reflexivity.
  - right. left. split; [exact H|]. destruct f; try discriminate; intros E; discriminate.
  - left. destruct sg; [discriminate|exact H].
Qed.

Lemma k1_in_k2 la : In la K1 -> In la K2. Proof. simpl. tauto. Qed.
Lemma k2_in_k3 la : In la K2 -> In la K3. Proof. simpl. tauto. Qed.

(* collapsing the frames = the driver's reductions before it shifts the next operator/operand *)
Lemma collapse_run b ss vals toks inc sg : In b XCJ -> la_for inc sg toks ->
  forall fs v i bs d, vok i v -> brel fs bs ->
  exists i' bs' d',
    reach (mkCfg (stk b fs ++ ss) (VItem i :: bs ++ vals) toks d)
          (mkCfg (stk b (fst (collapse fs v inc sg)) ++ ss) (VItem i' :: bs' ++ vals) toks d') /\
    vok i' (snd (collapse fs v inc sg)) /\ brel (fst (collapse fs v inc sg)) bs'.
Proof.
  intros Hb Hla. induction fs as [|[v' f] fs IH]; intros v i bs d Hv Hbr.
  - exists i, bs, d. simpl. split; [apply reach_refl|]. split; assumption.
  - simpl collapse. destruct (can_red f inc sg) eqn:Hc.
    2:{ exists i, bs, d. simpl. split; [apply reach_refl|]. split; assumption. }
    destruct (stk_top b fs Hb) as [e [X [r [Es [He Hg]]]]].
    destruct Hv as [Ei Ni].
    pose proof (la_for_k3 f inc sg toks Hla Hc) as Hk.
    inversion Hbr as [|v0 i0 fs0 l x m r0 [Ei0 Ni0] Hbr0|v0 i0 fs0 l x m r0 [Ei0 Ni0] Hbr0|v0 i0 fs0 r0 [Ei0 Ni0] Hbr0];
      subst.
    + (* E AND E . *)
      assert (Hin : In (la_of toks) K3).
      { destruct Hk as [H|[[H _]|[H _]]]; [apply k2_in_k3, k1_in_k2; exact H|rewrite H; simpl; tauto|rewrite H; simpl; tauto]. }
      destruct (Q_and S0) as [_ Hred]; [unfold XCAs, XCA; simpl; auto|]. destruct (Hred _ Hin) as [p [Hp Hprod]].
      destruct (binary_total KAnd i0 (Some (VTok l x m)) i) as [i1 [evs [Hbin Ei1]]]; [exact Ni|].
      destruct (IH (bin KAnd (erase i0) (erase i)) i1 r0 (d ++ evs)) as [i' [bs' [d' [Hrun [Hv' Hb']]]]];
        [split; [exact Ei1|apply nek_bin; exact Ni]|exact Hbr0|].
      exists i', bs', d'. split; [|split; assumption].
      eapply reach_trans; [|exact Hrun]. apply reach_step. simpl stk. rewrite Es. simpl app.
      eapply step_reduce3; [exact Hp|exact Hprod|exact Hbin|exact Hg].
    + (* E OR E . *)
      assert (Hin : In (la_of toks) K2).
      { destruct Hk as [H|[[H _]|[_ H]]]; [apply k1_in_k2; exact H|rewrite H; simpl; tauto|discriminate]. }
      destruct (Q_or S0) as [_ Hred]; [unfold XCOs, XCO; simpl; auto|]. destruct (Hred _ Hin) as [p [Hp Hprod]].
      destruct (binary_total KOr i0 (Some (VTok l x m)) i) as [i1 [evs [Hbin Ei1]]]; [exact Ni|].
      destruct (IH (bin KOr (erase i0) (erase i)) i1 r0 (d ++ evs)) as [i' [bs' [d' [Hrun [Hv' Hb']]]]];
        [split; [exact Ei1|apply nek_bin; exact Ni]|exact Hbr0|].
      exists i', bs', d'. split; [|split; assumption].
      eapply reach_trans; [|exact Hrun]. apply reach_step. simpl stk. rewrite Es. simpl app.
      eapply step_reduce3; [exact Hp|exact Hprod|exact Hbin|exact Hg].
    + (* E E . *)
      assert (Hin : In (la_of toks) K1).
      { destruct Hk as [H|[[_ H]|[_ H]]]; [exact H|congruence|discriminate]. }
      destruct (Q_j S0) as [_ [_ [_ Hred]]]; [unfold RC, XCO; simpl; auto|]. destruct (Hred _ Hin) as [p [Hp Hprod]].
      destruct (binary_total KUnknown i0 None i) as [i1 [evs [Hbin Ei1]]]; [exact Ni|].
      destruct (IH (bin KUnknown (erase i0) (erase i)) i1 r0 (d ++ evs)) as [i' [bs' [d' [Hrun [Hv' Hb']]]]];
        [split; [exact Ei1|apply nek_bin; exact Ni]|exact Hbr0|].
      exists i', bs', d'. split; [|split; assumption].
      eapply reach_trans; [|exact Hrun]. apply reach_step. simpl stk. rewrite Es. simpl app.
      eapply step_reduce2; [exact Hp|exact Hprod|exact Hbin|exact Hg].
Qed.

Lemma collapse_and_top fs v sg :
  match fst (collapse fs v JAnd sg) with (_, JAnd) :: _ => False | _ => True end.
Proof.
  revert v. induction fs as [|[v' f] fs IH]; intros v; simpl; [exact I|].
  destruct f; simpl; try exact I. apply IH.
Qed.
Lemma collapse_or_top fs v sg :
  match fst (collapse fs v JOr sg) with (_, JAnd) :: _ | (_, JOr) :: _ => False | _ => True end.
Proof.
  revert v. induction fs as [|[v' f] fs IH]; intros v; simpl; [exact I|].
  destruct f; simpl; try exact I; apply IH.
Qed.
Lemma collapse_all fs v : fst (collapse fs v JJ false) = [].
Proof. revert v. induction fs as [|[v' f] fs IH]; intros v; simpl; [reflexivity|]. destruct f; apply IH. Qed.
Lemma collapse_none fs v : collapse fs v JJ true = (fs, v).
Proof. destruct fs as [|[v' f] fs]; [reflexivity|]. simpl. destruct f; reflexivity. Qed.

Lemma stk_hd_and b fs : In b XCJ -> match fs with (_, JAnd) :: _ => False | _ => True end ->
  exists e r, stk b fs = e :: r /\ In e [SJ; SJP; S14; G_OR].
Proof.
  intros Hb H. destruct fs as [|[v [| |]] fs]; try contradiction.
  - destruct (Qg_base b Hb) as [Hin _]. exists (gotoE b), [b]. split; [reflexivity|]. simpl in *. tauto.
  - eexists _, _. split; [reflexivity|]. simpl. tauto.
  - eexists _, _. split; [reflexivity|]. simpl. tauto.
Qed.
Lemma stk_hd_or b fs : In b XCJ -> match fs with (_, JAnd) :: _ | (_, JOr) :: _ => False | _ => True end ->
  exists e r, stk b fs = e :: r /\ In e [SJ; SJP; S14].
Proof.
  intros Hb H. destruct fs as [|[v [| |]] fs]; try contradiction.
  - destruct (Qg_base b Hb) as [Hin _]. exists (gotoE b), [b]. split; [reflexivity|]. simpl in *. tauto.
  - eexists _, _. split; [reflexivity|]. simpl. tauto.
Qed.

Inductive optok : jop -> list token -> Prop :=
| ot_and o : tk_type o = T_AND_OP -> optok JAnd [o]
| ot_or o : tk_type o = T_OR_OP -> optok JOr [o]
| ot_j : optok JJ [].

Definition xcl (sg : bool) : list nat := if sg then XCg else XC.
Lemma in_XC_xcl sg s : In s XC -> In s (xcl sg).
Proof. unfold xcl, XCg. destruct sg; [intros H; apply in_or_app; auto|auto]. Qed.
Lemma in_ES_xcl e : In e ES -> In e (xcl true).
Proof. unfold xcl, XCg, XC, GS, ES. simpl. tauto. Qed.

Lemma la_of_hd L ts r : hd_in L ts -> In (la_of (ts ++ r)) L.
Proof. intros [t [r0 [-> H]]]. exact H. Qed.

(* the first operand of a query *)
Lemma push0_run b ss vals sg tsu vu rest d : In b XCJ -> LRrun (xcl sg) gotoE M3 tsu vu -> nek vu ->
  la_in M3 rest ->
  exists i d', reach (mkCfg (b :: ss) vals (tsu ++ rest) d) (mkCfg (stk b [] ++ ss) (VItem i :: [] ++ vals) rest d') /\
               vok i vu /\ brel [] [].
Proof.
  intros Hb Hx Hn Hla.
  destruct (Hx b ss vals rest d) as [i [d' [Hrun Ei]]]; [apply in_XC_xcl; simpl in Hb; simpl; tauto|exact Hla|].
  exists i, d'. split; [exact Hrun|]. split; [split; assumption|constructor].
Qed.

(* an operator (or nothing) and the next operand *)
Lemma push_run b ss vals sg tsu vu : In b XCJ -> LRrun (xcl sg) gotoE M3 tsu vu -> nek vu ->
  hd_in (if sg then SG else OPS) tsu ->
  forall op opt fs v i bs rest d, optok op opt -> vok i v -> brel fs bs -> la_in M3 rest ->
  exists fs' i' bs' d',
    push (Some op) sg vu (Some (fs, v)) = Some (fs', vu) /\
    reach (mkCfg (stk b fs ++ ss) (VItem i :: bs ++ vals) (opt ++ tsu ++ rest) d)
          (mkCfg (stk b fs' ++ ss) (VItem i' :: bs' ++ vals) rest d') /\
    vok i' vu /\ brel fs' bs'.
Proof.
  intros Hb Hx Hn Hhd op opt fs v i bs rest d Hop Hv Hbr Hla.
  assert (Hlf : la_for op sg (opt ++ tsu ++ rest)).
  { destruct Hop as [o Ho|o Ho|]; simpl; [exact Ho|exact Ho|].
    pose proof (la_of_hd _ _ rest Hhd) as H. destruct sg; [exact H|apply ops_k1; exact H]. }
  destruct (collapse_run b ss vals _ op sg Hb Hlf fs v i bs d Hv Hbr) as [i1 [bs1 [d1 [Hrun1 [Hv1 Hb1]]]]].
  unfold push. destruct (collapse fs v op sg) as [fs1 v1] eqn:Ec. simpl fst in *. simpl snd in *.
  destruct Hop as [o Ho|o Ho|].
  - (* AND operand *)
    pose proof (collapse_and_top fs v sg) as Ht. rewrite Ec in Ht. simpl in Ht.
    destruct (stk_hd_and b fs1 Hb Ht) as [e [r [Es He]]].
    destruct (plain_value o) as [l [x [m Eo]]]; try (rewrite Ho; discriminate).
    destruct (Hx SAND (stk b fs1 ++ ss) (token_value o :: VItem i1 :: bs1 ++ vals) rest d1) as [iu [d2 [Hrun2 Eu]]];
      [apply in_XC_xcl, in_SAND_XC|exact Hla|].
    exists ((v1, JAnd) :: fs1), iu, (VTok l x m :: VItem i1 :: bs1), d2.
    split; [reflexivity|]. split; [|split; [split; assumption|constructor; assumption]].
    simpl stk. rewrite G_AND_eq. rewrite Es in *. simpl app in *.
    eapply reach_trans; [exact Hrun1|].
    eapply reach_trans; [apply reach_step, step_shift; rewrite Ho; apply Qg_and_shift; exact He|].
    rewrite <- Eo. exact Hrun2.
  - (* OR operand *)
    pose proof (collapse_or_top fs v sg) as Ht. rewrite Ec in Ht. simpl in Ht.
    destruct (stk_hd_or b fs1 Hb Ht) as [e [r [Es He]]].
    destruct (plain_value o) as [l [x [m Eo]]]; try (rewrite Ho; discriminate).
    destruct (Hx SOR (stk b fs1 ++ ss) (token_value o :: VItem i1 :: bs1 ++ vals) rest d1) as [iu [d2 [Hrun2 Eu]]];
      [apply in_XC_xcl; simpl; tauto|exact Hla|].
    exists ((v1, JOr) :: fs1), iu, (VTok l x m :: VItem i1 :: bs1), d2.
    split; [reflexivity|]. split; [|split; [split; assumption|constructor; assumption]].
    simpl stk. rewrite G_OR_eq. rewrite Es in *. simpl app in *.
    eapply reach_trans; [exact Hrun1|].
    eapply reach_trans; [apply reach_step, step_shift; rewrite Ho; apply Qg_or_shift; exact He|].
    rewrite <- Eo. exact Hrun2.
  - (* juxtaposed operand *)
    destruct (stk_top b fs1 Hb) as [e [X [r [Es [He Hg]]]]].
    assert (Hin : In e (xcl sg)).
    { destruct sg; [apply in_ES_xcl; exact He|].
      pose proof (collapse_all fs v) as Ha. rewrite Ec in Ha. simpl in Ha. subst fs1. simpl in Es.
      injection Es as <- _ _. destruct (Qg_base b Hb) as [Hin _]. unfold xcl, XC. simpl in *. tauto. }
    simpl app in *. rewrite Es in Hrun1.
    destruct (Hx e (X :: r ++ ss) (VItem i1 :: bs1 ++ vals) rest d1 Hin Hla) as [iu [d2 [Hrun2 Eu]]].
    destruct (Qg_es e He) as [_ E14]. rewrite E14 in Hrun2.
    exists ((v1, JJ) :: fs1), iu, (VItem i1 :: bs1), d2.
    split; [reflexivity|]. split; [|split; [split; assumption|constructor; assumption]].
    eapply reach_trans; [exact Hrun1|]. simpl stk. rewrite Es. exact Hrun2.
Qed.

(* ---- the induction over syntax trees *)
Definition OP4 (p : qtree) : Prop := LRrun (clg UC p) gotoU M3B (flq p) (valp p).
Definition OP3 (p : qtree) : Prop := LRrun (clg UC p) gotoU M3 (flq p) (valp p).
Definition FEED0 (p : qtree) : Prop := forall b ss vals rest d, In b XCJ -> la_in M3 rest ->
  exists fs v i bs d', pf (semp p) None None = Some (fs, v) /\
    reach (mkCfg (b :: ss) vals (flq p ++ rest) d) (mkCfg (stk b fs ++ ss) (VItem i :: bs ++ vals) rest d') /\
    vok i v /\ brel fs bs.
Definition FEED1 (p : qtree) : Prop := forall b ss vals op opt fs v i bs rest d, In b XCJ -> la_in M3 rest ->
  optok op opt -> vok i v -> brel fs bs ->
  exists fs' v' i' bs' d', pf (semp p) (Some op) (Some (fs, v)) = Some (fs', v') /\
    reach (mkCfg (stk b fs ++ ss) (VItem i :: bs ++ vals) (opt ++ flq p ++ rest) d)
          (mkCfg (stk b fs' ++ ss) (VItem i' :: bs' ++ vals) rest d') /\ vok i' v' /\ brel fs' bs'.
Definition ALLP (p : qtree) : Prop := (lvq p = 4 -> OP4 p) /\ (3 <= lvq p -> OP3 p) /\ FEED0 p /\ FEED1 p.

Lemma semp_leaf p : 3 <= lvq p -> semp p = leafp (sgq p) (valp p).
Proof. destruct p; simpl; intros H; try lia; reflexivity. Qed.

Lemma valp_notop p : 3 <= lvq p -> is_opi (valp p) = false.
Proof.
  destruct p; simpl lvq; intros H; try lia; unfold valp; simpl; try reflexivity.
  - unfold atom_item. destruct (tk_type t); reflexivity.
  - unfold approx_item. repeat match goal with |- context [match ?x with _ => _ end] => destruct x end; reflexivity.
  - unfold boost_item. repeat match goal with |- context [match ?x with _ => _ end] => destruct x end; reflexivity.
Qed.

Lemma valp_finish p : valp p = finish (pf (semp p) None None).
Proof. destruct p; reflexivity. Qed.

Lemma xcl_sub p : incl (xcl (sgq p)) (clg UC p) /\ incl (xcl (sgq p)) XCg.
Proof.
  unfold xcl, clg, XCg. destruct (sgq p).
  - split; [apply incl_app_app; [exact incl_XC_UC|apply incl_refl]|apply incl_refl].
  - split; [exact incl_XC_UC|apply incl_appl, incl_refl].
Qed.

Lemma leaf_feed p : wfs p = true -> 3 <= lvq p -> OP3 p -> FEED0 p /\ FEED1 p.
Proof.
  intros W Hl H3. destruct (xcl_sub p) as [I1 I2].
  assert (Hx : LRrun (xcl (sgq p)) gotoE M3 (flq p) (valp p)).
  { apply q_3Xg; [exact I2|]. exact (LRw _ _ _ _ _ _ _ I1 (fun r H => H) H3). }
  pose proof (nek_notop _ (valp_notop p Hl)) as Hn.
  split.
  - intros b ss vals rest d Hb Hla. rewrite (semp_leaf p Hl). simpl pf. unfold push.
    destruct (push0_run b ss vals _ _ _ rest d Hb Hx Hn Hla) as [i [d' [Hrun [Hv Hb']]]].
    exists [], (valp p), i, [], d'. auto.
  - intros b ss vals op opt fs v i bs rest d Hb Hla Hop Hv Hbr. rewrite (semp_leaf p Hl). simpl pf.
    destruct (push_run b ss vals _ _ _ Hb Hx Hn (flq_hd p W) op opt fs v i bs rest d Hop Hv Hbr Hla)
      as [fs' [i' [bs' [d' [Hp [Hrun [Hv' Hb']]]]]]].
    exists fs', (valp p), i', bs', d'. auto.
Qed.

Lemma chain_feed p a op b opt :
  semp p = chainp (semp a) op (semp b) -> flq p = flq a ++ opt ++ flq b -> optok op opt ->
  (forall rest, la_in M3 (opt ++ flq b ++ rest)) ->
  FEED0 a -> FEED1 a -> FEED1 b -> FEED0 p /\ FEED1 p.
Proof.
  intros Es Ef Hop Hla0 F0a F1a F1b. split.
  - intros b0 ss vals rest d Hb Hla. rewrite Es, Ef. simpl pf. rewrite <- !app_assoc.
    destruct (F0a b0 ss vals (opt ++ flq b ++ rest) d Hb (Hla0 rest)) as [fs [v [i [bs [d1 [E1 [Hrun1 [Hv Hbr]]]]]]]].
    rewrite E1.
    destruct (F1b b0 ss vals op opt fs v i bs rest d1 Hb Hla Hop Hv Hbr) as [fs' [v' [i' [bs' [d' [E2 [Hrun2 [Hv' Hbr']]]]]]]].
    exists fs', v', i', bs', d'. split; [exact E2|]. split; [eapply reach_trans; eassumption|auto].
  - intros b0 ss vals op0 opt0 fs0 v0 i0 bs0 rest d Hb Hla Hop0 Hv0 Hbr0. rewrite Es, Ef. simpl pf.
    rewrite <- !app_assoc.
    destruct (F1a b0 ss vals op0 opt0 fs0 v0 i0 bs0 (opt ++ flq b ++ rest) d Hb (Hla0 rest) Hop0 Hv0 Hbr0)
      as [fs [v [i [bs [d1 [E1 [Hrun1 [Hv Hbr]]]]]]]].
    rewrite E1.
    destruct (F1b b0 ss vals op opt fs v i bs rest d1 Hb Hla Hop Hv Hbr) as [fs' [v' [i' [bs' [d' [E2 [Hrun2 [Hv' Hbr']]]]]]]].
    exists fs', v', i', bs', d'. split; [exact E2|]. split; [eapply reach_trans; eassumption|auto].
Qed.

Lemma ke_k1 r : la_in KE r -> la_in K1 r.
Proof. unfold la_in, KE, K1. intros H. apply in_or_app. right. exact H. Qed.
Lemma ke_m3 r : la_in KE r -> la_in M3 r.
Proof. intros H. apply k3_m3, k2_k3, k1_k2, ke_k1, H. Qed.

(* a whole query, up to `)` or the end *)
Lemma qry_of_feed p : FEED0 p -> LRrun XCJ gotoE KE (flq p) (valp p).
Proof.
  intros F0 b ss vals rest d Hb Hla.
  destruct (F0 b ss vals rest d Hb (ke_m3 _ Hla)) as [fs [v [i [bs [d1 [E1 [Hrun1 [Hv Hbr]]]]]]]].
  destruct (collapse_run b ss vals rest JJ false Hb (ke_k1 _ Hla) fs v i bs d1 Hv Hbr) as [i' [bs' [d' [Hrun2 [[Ei' _] Hb']]]]].
  rewrite collapse_all in Hrun2, Hb'. inversion Hb'; subst bs'.
  exists i', d'. split; [eapply reach_trans; [exact Hrun1|exact Hrun2]|].
  rewrite valp_finish, E1. exact Ei'.
Qed.

Lemma allp_up3 p : wfs p = true -> 3 <= lvq p -> (lvq p = 4 -> OP4 p) -> OP3 p -> ALLP p.
Proof.
  intros W Hl H4 H3. destruct (leaf_feed p W Hl H3) as [F0 F1]. split; [exact H4|]. split; [intros _; exact H3|]. split; assumption.
Qed.
Lemma allp_up4 p : wfs p = true -> lvq p = 4 -> OP4 p -> ALLP p.
Proof.
  intros W Hl H4. apply allp_up3; [exact W|lia|intros _; exact H4|].
  exact (LRw _ _ _ _ _ _ _ (incl_refl _) m3_m3b H4).
Qed.

Lemma la_m3_hd p rest : wfs p = true -> la_in M3 (flq p ++ rest).
Proof.
  intros W. pose proof (flq_hd_any p W) as H. apply (la_hd ANYSTART M3); [exact H|].
  intros x Hx. change (In x (T_AND_OP :: T_OR_OP :: M1)). right. right. exact (anystart_m1 x Hx).
Qed.

Theorem lrp_sound p : wfs p = true -> ALLP p.
Proof.
  induction p; intros W; pose proof W as Wq; wq_split W.
  - apply allp_up4; [exact Wq|reflexivity|]. apply q_atom. exact W.
  - apply allp_up4; [exact Wq|reflexivity|]. unfold OP4. simpl flq. change (valp (QApprox t a)) with (approx_item t a).
    destruct (tk_type t) eqn:Et; try discriminate; [apply q_fuzzy|apply q_prox]; assumption.
  - apply allp_up4; [exact Wq|reflexivity|]. destruct (IHp ltac:(assumption)) as [H4 _].
    unfold OP4. change (clg UC (QBoost p b)) with (clg UC p).
    change (valp (QBoost p b)) with (boost_item (valp p) b). simpl flq.
    apply q_boostg; [apply clg_s|apply H4; assumption|assumption|assumption].
  - apply allp_up3; [exact Wq|simpl; lia|intros; discriminate|]. destruct (IHp ltac:(assumption)) as [_ [H3 _]].
    unfold OP3. change (valp (QNot n p)) with (Unary KNot meta0 (valp p)). simpl flq.
    apply q_not; auto. exact (LRw _ _ _ _ _ _ _ (clg_base UC p) (fun r H => H) (H3 ltac:(assumption))).
  - apply allp_up3; [exact Wq|simpl; lia|intros; discriminate|]. destruct (IHp ltac:(assumption)) as [_ [H3 _]].
    unfold OP3. change (valp (QField name col p)) with (SearchField meta0 (tk_lexeme name) (fieldgroup (valp p))). simpl flq.
    apply q_field; auto. exact (LRw _ _ _ _ _ _ _ (clg_base UC p) (fun r H => H) (H3 ltac:(assumption))).
  - apply allp_up4; [exact Wq|reflexivity|]. destruct (IHp ltac:(assumption)) as [_ [_ [F0 _]]].
    unfold OP4. change (valp (QGroup l p r)) with (Grp KGroup meta0 (valp p)). simpl flq.
    apply q_groupg; auto. apply qry_of_feed. exact F0.
  - destruct (IHp1 ltac:(assumption)) as [_ [_ [F0a F1a]]]. destruct (IHp2 ltac:(assumption)) as [_ [_ [_ F1b]]].
    destruct (chain_feed (QAnd p1 o p2) p1 JAnd p2 [o]) as [F0 F1]; auto;
      [constructor; assumption|intros rest; apply la_tok; rewrite W; simpl; auto|].
    split; [simpl; intros; discriminate|]. split; [simpl; intros; lia|]. split; assumption.
  - destruct (IHp1 ltac:(assumption)) as [_ [_ [F0a F1a]]]. destruct (IHp2 ltac:(assumption)) as [_ [_ [_ F1b]]].
    destruct (chain_feed (QOr p1 o p2) p1 JOr p2 [o]) as [F0 F1]; auto;
      [constructor; assumption|intros rest; apply la_tok; rewrite W; simpl; auto|].
    split; [simpl; intros; discriminate|]. split; [simpl; intros; lia|]. split; assumption.
  - destruct (IHp1 ltac:(assumption)) as [_ [_ [F0a F1a]]]. destruct (IHp2 ltac:(assumption)) as [_ [_ [_ F1b]]].
    destruct (chain_feed (QJuxt p1 p2) p1 JJ p2 []) as [F0 F1]; auto;
      [constructor|intros rest; simpl app; apply la_m3_hd; assumption|].
    split; [simpl; intros; discriminate|]. split; [simpl; intros; lia|]. split; assumption.
  - apply allp_up3; [exact Wq|simpl; lia|intros; discriminate|]. destruct (IHp ltac:(assumption)) as [_ [H3 _]].
    unfold OP3. change (clg UC (QSign sg p)) with UCg.
    change (valp (QSign sg p)) with (Unary (sign_kind sg) meta0 (valp p)). simpl flq. apply q_signg; auto.
    exact (LRw _ _ _ _ _ _ _ (clg_base UC p) (fun r H => H) (H3 ltac:(assumption))).
  - apply allp_up4; [exact Wq|reflexivity|]. unfold OP4. change (clg UC (QTo t)) with UCg. apply q_tog. exact W.
  - apply allp_up4; [exact Wq|reflexivity|]. apply q_open; assumption.
  - apply allp_up4; [exact Wq|reflexivity|]. apply q_range; assumption.
Qed.

(* the whole input: accepted, with the machine's tree up to layout — NO guard *)
Theorem lrp_query p ev0 : wfs p = true ->
  exists n t evs, (forall fuel, run gen_tables None (S n + fuel) (init_config (flq p) ev0) = Done (Ok t) evs) /\
                  erase t = valp p.
Proof.
  intros W. destruct (lrp_sound p W) as [_ [_ [F0 _]]]. pose proof (qry_of_feed p F0) as H0.
  destruct (H0 S0 [] [] [] ev0 in_S0_XCJ) as [t [d' [[n Hn] Ht]]]; [unfold la_in, KE; simpl; tauto|].
  rewrite app_nil_r in Hn. change (mkCfg [S0] [] (flq p) ev0) with (init_config (flq p) ev0) in Hn.
  destruct (step_accept (gotoE S0) [S0] t [] d' T_accept) as [evs Hst].
  exists n, t, (d' ++ evs). split; [|exact Ht].
  intros fuel. replace (S n + fuel) with (n + S fuel) by lia. rewrite Hn. simpl. rewrite Hst. reflexivity.
Qed.

Theorem machine_core p ev0 : wfs p = true ->
  exists t evs, run gen_tables None (parse_fuel (flq p)) (init_config (flq p) ev0) = Done (Ok t) evs /\
                erase t = valp p.
Proof.
  intros W. destruct (lrp_query p ev0 W) as [n [t [evs [Hrun Ht]]]].
  exists t, evs. split; [|exact Ht].
  pose proof (run_terminates None (parse_fuel (flq p)) (init_config (flq p) ev0)) as Hterm.
  destruct (run gen_tables None (parse_fuel (flq p)) (init_config (flq p) ev0)) as [r e|] eqn:Hr.
  - pose proof (run_mono _ _ _ _ _ _ Hr (S n + parse_fuel (flq p)) ltac:(lia)) as H1.
    rewrite Hrun in H1. symmetry. exact H1.
  - exfalso. apply Hterm; [reflexivity| |reflexivity].
    unfold phi, parse_fuel, init_config, rank_of, K. simpl. lia.
Qed.

(* any token list with the same (type, lexeme) sequence, whatever its layout *)
Theorem machine_core_keys toks ev0 p : wfs p = true -> map tok_key toks = map tok_key (flq p) ->
  exists t evs, run gen_tables None (parse_fuel toks) (init_config toks ev0) = Done (Ok t) evs /\
                erase t = valp p.
Proof.
  intros W Hk. destruct (machine_core p ev0 W) as [t0 [evs0 [Hr0 Hv0]]].
  assert (Hf : parse_fuel toks = parse_fuel (flq p)).
  { unfold parse_fuel. rewrite <- (map_length tok_key toks), Hk, map_length. reflexivity. }
  assert (Hsim : outcome_sim (run gen_tables None (parse_fuel toks) (init_config toks ev0))
                             (run gen_tables None (parse_fuel toks) (init_config (flq p) ev0))).
  { apply run_simulation; [tauto|]. unfold cfg_sim, init_config. simpl.
    split; [reflexivity|]. split; [constructor|exact Hk]. }
  rewrite Hf in Hsim at 2. rewrite Hr0 in Hsim.
  destruct (run gen_tables None (parse_fuel toks) (init_config toks ev0)) as [r e|]; [|contradiction].
  simpl in Hsim. destruct r as [t|[m|m|k]]; simpl in Hsim; try discriminate.
  exists t, e. split; [reflexivity|]. inversion Hsim as [E]. rewrite E. exact Hv0.
Qed.

(* under the guard of C03d the machine's tree IS the dictated one (both describe the same run) *)
Theorem valp_f4free p : wfs p = true -> f4free p = true -> valp p = valq p.
Proof.
  intros W F. destruct (machine_core p [] W) as [t [evs [Hr Hv]]].
  destruct (more_core p [] W F) as [t' [evs' [Hr' [_ Hv']]]]. rewrite Hr in Hr'. inversion Hr'; subst.
  rewrite <- Hv, <- Hv'. reflexivity.
Qed.

(* ---- on strings: every query of the documented grammar is ACCEPTED, inside F4's class too, and the
   tree is the machine's *)
Theorem query_accepted s u : snd (lex s) = None -> spec_parse (map tok_key (fst (lex s))) = Some u ->
  exists p t, wfs p = true /\ map tok_key (flq p) = map tok_key (fst (lex s)) /\ valq p = u /\
              parse s = Some (Ok t) /\ erase t = valp p.
Proof.
  intros He Hs. destruct (spec_is_tree _ _ Hs) as [p [W [Ek Ev]]].
  unfold parse, parse_full, parse_with. destruct (lex s) as [toks le]. simpl in *. subst le.
  destruct (machine_core_keys toks (match toks with [] => [GDrop s] | _ => [] end) p W (eq_sym Ek)) as [t [evs [Hr Ht]]].
  exists p, t. rewrite Hr. auto.
Qed.

(* accepted <=> a query of the documented grammar: the two parsers have the same language *)
Theorem accepted_iff_query s : snd (lex s) = None ->
  ((exists t, parse s = Some (Ok t)) <-> (exists u, spec_parse (map tok_key (fst (lex s))) = Some u)).
Proof.
  intros He. split.
  - intros [t Hp]. destruct (spec_parse (map tok_key (fst (lex s)))) as [u|] eqn:Es; [eauto|].
    destruct (non_query_rejected s He Es) as [e [Hp' _]]. rewrite Hp in Hp'. discriminate.
  - intros [u Hs]. destruct (query_accepted s u He Hs) as [p [t [_ [_ [_ [Hp _]]]]]]. eauto.
Qed.

(* the returned tree is the dictated one EXACTLY outside F4's class *)
Theorem agrees_iff_outside_f4 s u : snd (lex s) = None -> spec_parse (map tok_key (fst (lex s))) = Some u ->
  exists t, parse s = Some (Ok t) /\ (erase t = u <-> f4_input (map tok_key (fst (lex s))) = false).
Proof.
  intros He Hs. destruct (query_accepted s u He Hs) as [p [t [_ [_ [_ [Hp _]]]]]]. exists t. split; [exact Hp|].
  split.
  - intros E. destruct (f4_input (map tok_key (fst (lex s)))) eqn:Hf; [|reflexivity].
    exfalso. exact (f4_always_differs s t u He Hf Hp Hs E).
  - intros Hf. pose proof (grammar_outside_f4_parse s He Hf) as H. rewrite Hp, Hs in H. inversion H. reflexivity.
Qed.

(* ---- the same with the boolean comparison the harness uses (`TreeEq.item_beq`): trees that it
   identifies agree on F4's pattern *)
Definition lbeq : list item -> list item -> bool :=
  fix go (l l' : list item) : bool :=
    match l, l' with
    | [], [] => true
    | c :: r, c' :: r' => item_beq c c' && go r r'
    | _, _ => false
    end.
Lemma item_beq_op k m ops k' m' ops' :
  item_beq (Op k m ops) (Op k' m' ops') = opk_beq k k' && meta_beq m m' && lbeq ops ops'.
Proof. reflexivity. Qed.

Definition beq_inv (a : item) : Prop := forall b, item_beq a b = true ->
  has_f4 a = has_f4 b /\ starts_signed a = starts_signed b /\ is_andor a = is_andor b.

Lemma adj_cons x r : adjacent_f4 (x :: r) = (is_andor x && hdv r) || adjacent_f4 r.
Proof. destruct r; simpl; [rewrite Bool.andb_false_r|]; reflexivity. Qed.

Lemma lbeq_inv ops : Forall beq_inv ops -> forall ops', lbeq ops ops' = true ->
  adjacent_f4 ops = adjacent_f4 ops' /\ EF ops = EF ops' /\ hdv ops = hdv ops'.
Proof.
  induction 1 as [|x r Hx _ IH]; intros [|x' r'] H; try discriminate; [auto|].
  simpl in H. apply andb_prop in H. destruct H as [H1 H2].
  destruct (Hx _ H1) as [E1 [E2 E3]]. destruct (IH _ H2) as [F1 [F2 F3]].
  rewrite !adj_cons, E3, F3, F1. unfold EF in *. simpl. rewrite E1, F2, E2. auto.
Qed.

Ltac beq_split H :=
  repeat match type of H with
  | (_ && _)%bool = true => let H' := fresh "B" in apply andb_prop in H; destruct H as [H H']
  end.

Ltac use_ih :=
  repeat match goal with
  | IH : forall b, item_beq ?a b = true -> _, B : item_beq ?a ?b = true |- _ =>
      destruct (IH _ B) as [? [? ?]]; clear IH
  end.

Lemma item_beq_f4 : forall a, beq_inv a.
Proof.
  apply item_ind'; unfold beq_inv.
  - intros k m v [] H; try discriminate. simpl in H. beq_split H.
    apply str_eqb_eq in B. subst. destruct k, k0; try discriminate; auto.
  - intros m n e IH [] H; try discriminate. simpl in H. beq_split H. use_ih. simpl. repeat split; congruence.
  - intros k m e IH [] H; try discriminate. simpl in H. beq_split H. use_ih. simpl. repeat split; congruence.
  - intros m lo hi il ih IH1 IH2 [] H; try discriminate. simpl in H. beq_split H. use_ih. simpl. repeat split; congruence.
  - intros m t d i IH [] H; try discriminate. simpl in H. beq_split H. use_ih. simpl. repeat split; congruence.
  - intros m t d i IH [] H; try discriminate. simpl in H. beq_split H. use_ih. simpl. repeat split; congruence.
  - intros m e f i IH [] H; try discriminate. simpl in H. beq_split H. use_ih. simpl. repeat split; congruence.
  - intros k m ops IH [] H; try discriminate. rewrite item_beq_op in H. beq_split H.
    match goal with B : lbeq _ _ = true |- _ => destruct (lbeq_inv _ IH _ B) as [F1 [F2 F3]] end.
    rewrite !has_f4_op, !ss_op, F1, F2, F3.
    destruct k, k0; try discriminate; auto.
  - intros k m a IH [] H; try discriminate. simpl in H. beq_split H. use_ih. simpl.
    destruct k, k0; try discriminate; repeat split; congruence.
  - intros k m a i IH [] H; try discriminate. simpl in H. beq_split H. use_ih. simpl. repeat split; congruence.
  - intros m [] H; try discriminate. auto.
Qed.

Theorem f4_never_agrees s t t0 : snd (lex s) = None -> f4_input (map tok_key (fst (lex s))) = true ->
  parse s = Some (Ok t) -> spec_parse (map tok_key (fst (lex s))) = Some t0 -> item_beq (erase t) t0 = false.
Proof.
  intros He Hf Hp Hs. destruct (item_beq (erase t) t0) eqn:Eb; [|reflexivity]. exfalso.
  destruct (item_beq_f4 _ _ Eb) as [E _]. rewrite (parse_no_f4 s t He Hp) in E.
  destruct (f4_input_spec _ Hf) as [t1 [Hs1 H1]]. rewrite Hs in Hs1. inversion Hs1; subst. congruence.
Qed.
