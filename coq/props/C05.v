(* C05 — Elasticsearch translation is reject-or-equivalent in boolean and nested meaning.
   Statements, theorems, witnesses, non-vacuity examples, Print Assumptions only.
   Builder model: model/{EsSpecs,EsCheck,EsBuild}.v (validated by correspondence on every run).
   REFERENCE SEMANTICS (the trusted specification of this property): model/EsSem.v —
     es_matches cfg j d : the document d matches the bool / nested / leaf query j (Elasticsearch);
     den cfg t d        : the document d satisfies the luqum tree t (AND all, OR any, implicit the
                          configured default, BoolOperation the Lucene boolean query, NOT / - the
                          complement, a field path crossing nested boundaries = SOME object of the
                          innermost boundary crossed satisfies the whole sub-query).
   Lemmas: proofs/EsSemProofs.v.

   Clauses of the property text:
   (a) "the builder either raises one of its documented inconsistency exceptions ..."
                                                                -> C05_reject (proved in full)
   (b) "... or returns a bool/nested query that matches exactly the documents the tree denotes"
                                                                -> C05_statement (with (a))
       REFUTED on the unchanged code, three independent findings:
         F6  a BoolOperation operand whose translation is an EMust / EMustNot item (an AND, an
             implicit AND under default_operator=must, +x / NOT x under parentheses, a field or a boost)
             or a BoolOperation is spliced into must / must_not;          C05_refuted (witness F6)
         F8  a nested container without a leaf child is unknown to the builder: no nested clause
             on it, so "the same object" is lost;                         C05_refuted_F8
         F17 a term on the default field gets no nested clause when the default field lies under
             a nested path;                                               C05_refuted_F17
         F18 with no nested field declared, a field named ".x" gets a nested clause on the empty
             path (an empty nested_fields specification flattens to [""]).  C05_refuted_F18
       PROVED for configurations without nested fields and trees without the F6 shape:
                                                                -> C05_boolean_partial
   The nested clause of (b) beyond that (C05_nested_partial) is not proved here; it is exercised on
   the implementation by harness/c05.py on every run. *)
Require Import Base Decimal Tree GenTree GenVisitors Visitor Json EsSpecs EsCheck EsBuild EsSpec EsSem
               TreeInd EsProofs EsSemProofs.

(* ---- statements (full strength) *)
Definition C05_statement : Prop :=
  forall cfg t, supported t = true -> wf_config cfg = true -> sem_config cfg = true ->
    match build cfg t with
    | RExc e => documented_inconsistency e
    | ROk j => forall d, es_matches cfg j d = den cfg t d
    end.

(* (a) alone: on supported trees nothing but the three documented exceptions escapes *)
Definition C05_reject_statement : Prop :=
  forall cfg t e, supported t = true -> wf_config cfg = true ->
    build cfg t = RExc e -> documented_inconsistency e.

(* ---- the partial statement: the boolean skeleton in full
   no_nested cfg            : no nested field is declared (not F8, not F17)
   plain_tree cfg t         : every operand of a BoolOperation is +x / -x / NOT x, or is translated
                              into something that is neither an EMust nor an EMustNot item and is
                              not a BoolOperation (not F6); and no field is named "" or ".x"
                              (not F18: the code takes those for fields under the nested path ""
                              that an empty nested_fields specification flattens to) *)
Definition C05_boolean_partial_statement : Prop :=
  forall cfg t, supported t = true -> wf_config cfg = true -> sem_config cfg = true ->
    no_nested cfg = true -> plain_tree cfg t = true ->
    match build cfg t with
    | RExc e => documented_inconsistency e
    | ROk j => forall d, es_matches cfg j d = den cfg t d
    end.

(* ---- proofs *)
Theorem C05_reject : C05_reject_statement.
Proof. intros cfg t e Hs Hwf Hb. exact (build_exc_documented cfg t e Hs Hwf Hb). Qed.

Theorem C05_boolean_partial : C05_boolean_partial_statement.
Proof.
  intros cfg t Hs Hwf Hsem Hnn Hb.
  assert (Hnp : nested_paths cfg = []) by (unfold no_nested in Hnn; destruct (nested_paths cfg); [reflexivity|discriminate]).
  destruct (build cfg t) as [j|e] eqn:Hbuild.
  - exact (build_sem cfg t j Hs Hwf Hsem Hnp Hb Hbuild).
  - exact (build_exc_documented cfg t e Hs Hwf Hbuild).
Qed.

(* ---- refutations of the full statement on the unchanged code *)
Definition w (s : str) : item := Term KWord meta0 s.
Definition fld (n : str) (e : item) : item := SearchField meta0 n e.
Definition clause_match (f v : str) : json := JObj [(k_match, JObj [(f, JObj [(k_query, JStr v)])])].
Definition s_text : str := [116;101;120;116]%N.

Ltac refute cfg t d :=
  let H := fresh "H" in
  intros H; specialize (H cfg t eq_refl eq_refl eq_refl);
  let j := fresh "j" in let Hb := fresh "Hb" in
  destruct (build cfg t) as [j|?] eqn:Hb; [|vm_compute in Hb; discriminate Hb];
  specialize (H d); vm_compute in Hb; inversion Hb; subst j; vm_compute in H; discriminate H.

(* F6: BoolOperation(a, AndOperation(x, y)) -> {bool: {must: [x, y], should: [a]}};
   the document where only a holds satisfies the tree, not the query *)
Definition t_F6 : item := Op KBool meta0 [w [97]%N; Op KAnd meta0 [w [120]%N; w [121]%N]].
Definition d_F6 : doc := doc_of (FDoc [clause_match s_text [97]%N] []).

Theorem C05_refuted : ~ C05_statement.
Proof. refute default_config t_F6 d_F6. Qed.

(* F8: nested_fields = {'a': {'b': {'c': {}}}},  a:(b.c:x AND b.c:y)
   -> must[nested(a.b, x), nested(a.b, y)]; two a objects, x in one, y in the other *)
Definition cfg_F8 : es_config :=
  mkEsConfig DShould s_text []
             (SDict [([97]%N, SDict [([98]%N, SDict [([99]%N, SDict [])])])]) SNone SNone [] false.
Definition t_F8 : item :=
  fld [97]%N (Grp KFieldGroup meta0
                  (Op KAnd meta0 [fld [98;46;99]%N (w [120]%N); fld [98;46;99]%N (w [121]%N)])).
Definition s_abc : str := [97;46;98;46;99]%N.
Definition d_F8 : doc :=
  doc_of (FDoc [] [([97]%N, [FDoc [] [([97;46;98]%N, [FDoc [clause_match s_abc [120]%N] []])];
                            FDoc [] [([97;46;98]%N, [FDoc [clause_match s_abc [121]%N] []])]])]).

Theorem C05_refuted_F8 : ~ C05_statement.
Proof. refute cfg_F8 t_F8 d_F8. Qed.

(* F17: nested_fields = {'a': ['b']}, default_field = 'a.b', query  x  -> {match: {a.b: x}} at the root *)
Definition cfg_F17 : es_config :=
  mkEsConfig DShould [97;46;98]%N [] (SDict [([97]%N, SList [[98]%N])]) SNone SNone [] false.
Definition d_F17 : doc := doc_of (FDoc [] [([97]%N, [FDoc [clause_match [97;46;98]%N [120]%N] []])]).

Theorem C05_refuted_F17 : ~ C05_statement.
Proof. refute cfg_F17 (w [120]%N) d_F17. Qed.

(* F18: no nested field declared, query  .a:foo  -> {nested: {path: "", query: {match: {".a": foo}}}} *)
Definition t_F18 : item := fld [46;97]%N (w [102;111;111]%N).
Definition d_F18 : doc := doc_of (FDoc [clause_match [46;97]%N [102;111;111]%N] []).

Theorem C05_refuted_F18 : ~ C05_statement.
Proof. refute default_config t_F18 d_F18. Qed.

Example F18_shape : plain_tree default_config t_F18 = false /\ no_nested default_config = true.
Proof. vm_compute. split; reflexivity. Qed.

(* the three witnesses are independent: each one has only its own shape *)
Example witnesses_independent :
  (no_nested default_config = true /\ plain_tree default_config t_F6 = false) /\
  (no_nested cfg_F8 = false /\ plain_tree cfg_F8 t_F8 = true /\
   level_of (nested_paths cfg_F8) (split_on c_dot (c_default_field cfg_F8)) = [] /\
   nested_paths cfg_F8 <> nested_paths_code cfg_F8) /\
  (no_nested cfg_F17 = false /\ plain_tree cfg_F17 (w [120]%N) = true /\
   level_of (nested_paths cfg_F17) (split_on c_dot (c_default_field cfg_F17)) = [[97]%N]).
Proof. vm_compute. repeat split; discriminate. Qed.

(* ---- non-vacuity *)
(* default operator must, a not-analysed field and field options; the query
     (a:x~2 OR "p q"~3^2) AND NOT b:[1 TO 5] +c -d  as a tree: AND / OR / NOT / group / boost / ~,
     a BoolOperation with +, - and an optional operand *)
Definition cfg_ex : es_config :=
  mkEsConfig DMust s_text [[98]%N] SNone (SList [[120;46;121]%N]) SNone
             [([97]%N, [([97;110;97;108;121;122;101;114]%N, JStr [115;116;100]%N)])] false.
Definition t_ex : item :=
  Op KAnd meta0
     [Grp KGroup meta0
          (Op KOr meta0 [fld [97]%N (Fuzzy meta0 (w [120]%N) (mkDec false 2 0) false);
                         Boost meta0 (Proximity meta0 (Term KPhrase meta0 [34;112;32;113;34]%N) 3 false)
                               (mkDec false 2 0) false]);
      Unary KNot meta0 (fld [98]%N (Range meta0 (w [49]%N) (w [53]%N) true true));
      Grp KGroup meta0
          (Op KBool meta0 [Unary KPlus meta0 (w [99]%N); Unary KProhibit meta0 (w [100]%N); w [101]%N;
                           Grp KGroup meta0 (Op KOr meta0 [w [102]%N; w [103]%N])])].

Example C05_guards_nonvacuous :
  supported t_ex = true /\ wf_config cfg_ex = true /\ sem_config cfg_ex = true /\
  no_nested cfg_ex = true /\ plain_tree cfg_ex t_ex = true /\
  (exists j, build cfg_ex t_ex = ROk j).
Proof. vm_compute. repeat split. eexists. reflexivity. Qed.

(* the denotation is not trivial on it: a document satisfying it and one that does not *)
Definition d_ex_yes : doc :=
  doc_of (FDoc [JObj [(k_fuzzy, JObj [([97]%N, JObj [([97;110;97;108;121;122;101;114]%N, JStr [115;116;100]%N);
                                                     (k_fuzziness, JNum (mkDec false 2 0));
                                                     (k_value, JStr [120]%N)])])];
                clause_match s_text [99]%N] []).
Definition d_ex_no : doc := doc_of (FDoc [clause_match s_text [99]%N] []).

Example C05_den_nontrivial :
  den cfg_ex t_ex d_ex_yes = true /\ den cfg_ex t_ex d_ex_no = false /\
  (forall j, build cfg_ex t_ex = ROk j ->
             es_matches cfg_ex j d_ex_yes = true /\ es_matches cfg_ex j d_ex_no = false).
Proof.
  split; [vm_compute; reflexivity|]. split; [vm_compute; reflexivity|].
  intros j Hj. vm_compute in Hj. inversion Hj; subst j. vm_compute. split; reflexivity.
Qed.

(* the three outcomes of (a) occur: a mix, a term on a nested container, an undeclared dotted field *)
Definition cfg_rej : es_config :=
  mkEsConfig DMust s_text [] (SDict [([97]%N, SList [[98]%N])]) (SList [[120;46;121]%N])
             (SList [[120;46;121;46;114]%N]) [] false.
Example C05_rejections :
  build default_config (Op KAnd meta0 [w [97]%N; Op KOr meta0 [w [98]%N; w [99]%N]]) = RExc XMix /\
  build cfg_rej (fld [97]%N (w [120]%N)) = RExc XNested /\
  build cfg_rej (fld [120;46;122]%N (w [49]%N)) = RExc XObject.
Proof. vm_compute. repeat split. Qed.

(* nested meaning, evaluated in the model (not a theorem about all inputs):
   a:(b:x AND c:y) with a nested -> one nested clause; it needs x and y in the SAME a object *)
Definition cfg_n : es_config :=
  mkEsConfig DShould s_text [] (SDict [([97]%N, SList [[98]%N; [99]%N])]) SNone SNone [] false.
Definition t_n : item :=
  fld [97]%N (Grp KFieldGroup meta0 (Op KAnd meta0 [fld [98]%N (w [120]%N); fld [99]%N (w [121]%N)])).
Definition d_n_split : doc :=
  doc_of (FDoc [] [([97]%N, [FDoc [clause_match [97;46;98]%N [120]%N] [];
                            FDoc [clause_match [97;46;99]%N [121]%N] []])]).
Definition d_n_same : doc :=
  doc_of (FDoc [] [([97]%N, [FDoc [clause_match [97;46;98]%N [120]%N; clause_match [97;46;99]%N [121]%N] [];
                            FDoc [] []])]).
Example C05_nested_same_object :
  exists j, build cfg_n t_n = ROk j /\
    es_matches cfg_n j d_n_split = false /\ den cfg_n t_n d_n_split = false /\
    es_matches cfg_n j d_n_same = true /\ den cfg_n t_n d_n_same = true.
Proof. eexists. split; [vm_compute; reflexivity|]. vm_compute. repeat split. Qed.

Print Assumptions C05_reject.
Print Assumptions C05_boolean_partial.
Print Assumptions C05_refuted.
Print Assumptions C05_refuted_F8.
Print Assumptions C05_refuted_F17.
Print Assumptions C05_refuted_F18.
