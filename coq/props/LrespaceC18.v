(* LrespaceC18 — L-respace applied to the pretty-printer (C18): the lexing hypothesis of
   `C18_modulo_lexing` reduced to a fact about the PARSER alone.

   `C18_respacing_plain` says what the pretty text is: leading blanks, then the chunks of the tree glued by
   separators.  With the chunked form of L-respace the round trip follows as soon as the chunks are token
   groups of the query:

     chunks_are_token_groups s t :=  the token list of s can be cut into non-empty consecutive groups such
                                     that chunk i is the text group i covers in s, without its last tail

   This is false exactly where the printed tree loses a separator inside a chunk (F1: the blank before a
   colon, `xT12 :30`), and needs no reasoning about the lexer.  It is NOT proved here for every parsed tree
   (a token-granular version of the lossless theorem C01 is the missing piece); it is decidable on each
   instance, and the examples below compute it. *)
Require Import Base Decimal Tree GenTree GenParser Visitor Print Eq Lexer Actions LR Parser Erase Pretty Respace.
Require Import TreeInd LexerProofs LayoutProofs PrettyProofs RespaceProofs RespaceParse.
Require Import Lrespace.

Lemma all_space_sp k : all_space (sp k) = true.
Proof. induction k as [|k IH]; [reflexivity|]. unfold sp in *. simpl. rewrite IH. reflexivity. Qed.

Lemma ws_sep_blank x : ws_sep x -> x <> [] /\ all_space x = true.
Proof.
  intros [k [E|E]]; subst x.
  - split; [discriminate|apply all_space_sp].
  - split; [discriminate|]. change (all_space (c_nl :: sp k)) with (is_space c_nl && all_space (sp k)).
    rewrite all_space_sp. reflexivity.
Qed.

Lemma glued_wglued cs p : glued cs p -> wglued cs p.
Proof.
  induction 1 as [c|c sep cs s Hs Hg IH]; [apply wg_one|].
  destruct (ws_sep_blank _ Hs) as [H1 H2]. apply wg_cons; assumption.
Qed.

Definition chunks_are_token_groups (s : str) (t : item) : Prop :=
  exists groups, fst (lex s) = concat groups /\ Forall (fun g => g <> []) groups /\
                 chunk_texts t = map group_text groups.

(* C18's conclusion, for every setting, from a parser-only hypothesis *)
Definition C18_from_token_groups_statement : Prop :=
  forall s t cfg p, parse s = Some (Ok t) -> no_newline_in_chunks t = true ->
    chunks_are_token_groups s t -> pretty cfg t = Some p ->
    exists t', parse p = Some (Ok t') /\ item_eqb t' t = true.
Theorem C18_from_token_groups : C18_from_token_groups_statement.
Proof.
  intros s t cfg p Hp Hn [groups [Hcat [Hg Hc]]] Hpr.
  destruct (pretty_glued cfg t p Hn Hpr) as [k [p' [E Hgl]]]. subst p.
  rewrite Hc in Hgl.
  destruct (L_respace_glued_accept s t groups (sp k) p' Hp Hcat Hg (all_space_sp k) (glued_wglued _ _ Hgl))
    as [t' [H1 H2]].
  exists t'. split; [exact H1|]. apply layout_erase_eqb. symmetry. exact H2.
Qed.

(* ---- non-vacuity: C18's example query  f:(a OR b) AND NOT PHRASE(c d)~2 ; its 8 chunks are the token
   groups of sizes 2,1,1,1,1,1,1,3 *)
Definition ex_query : str :=
  [102;58;40;97;32;79;82;32;98;41;32;65;78;68;32;78;79;84;32;34;99;32;100;34;126;50]%N.
Definition ex_tree : item :=
  Eval vm_compute in match parse ex_query with Some (Ok t) => t | _ => NoneItem meta0 end.
Example ex_in_class :
  parse ex_query = Some (Ok ex_tree) /\ no_newline_in_chunks ex_tree = true /\
  chunks_are_token_groups ex_query ex_tree.
Proof.
  split; [vm_compute; reflexivity|]. split; [vm_compute; reflexivity|].
  exists (cut [2;1;1;1;1;1;1;3] (fst (lex ex_query))).
  split; [vm_compute; reflexivity|]. split; [vm_compute; repeat constructor; discriminate|].
  vm_compute. reflexivity.
Qed.
Example ex_round_trip : forall cfg p, pretty cfg ex_tree = Some p ->
  exists t', parse p = Some (Ok t') /\ item_eqb t' ex_tree = true.
Proof.
  intros cfg p Hp. destruct ex_in_class as [H1 [H2 H3]].
  exact (C18_from_token_groups ex_query ex_tree cfg p H1 H2 H3 Hp).
Qed.
(* the F1 witness of C18 (`-xT12 :30`) is outside: its field chunk `xT12:` is not the text of a token group *)
Definition f1_query : str := [45;120;84;49;50;32;58;51;48]%N.
Definition f1_tree : item :=
  Eval vm_compute in match parse f1_query with Some (Ok t) => t | _ => NoneItem meta0 end.
Example f1_outside :
  parse f1_query = Some (Ok f1_tree) /\
  chunk_texts f1_tree = [[45;120;84;49;50;58;51;48]]%N /\
  map (fun t => (tk_lexeme t, tk_tail t)) (fst (lex f1_query)) =
    [([45], []); ([120;84;49;50], [32]); ([58], []); ([51;48], [])]%N.
Proof. vm_compute. auto. Qed.

Print Assumptions C18_from_token_groups.
Print Assumptions ex_round_trip.
