(* PrettyProofs.v — lemmas about the prettifier model (model/Pretty.v).
     A. _get_chains never raises; closed form `chains`
     B. the chunk sequence does not depend on the settings
     C. chunks concatenated = the printed tree without the layout of its spine
     D. the output is the chunk sequence glued by blank/newline separators (any widths)
     E. totality on trees whose spine operations have an operand *)
Require Import Base Decimal Tree GenTree Visitor Print Pretty TreeInd ActionProofs.
From Coq Require Import Lia.

(* ================================================================ A. get_chains *)

(* table facts on the generated MROs / op strings *)
Lemma kind_of_item t :
  kind_of (cls_of t) =
  match t with Op _ _ _ => EOp | Grp _ _ _ => EGroup | SearchField _ _ _ => EField | _ => ESimple end.
Proof. destruct t as [[]| | []| | | | |[]|[]|[]|]; vm_compute; reflexivity. Qed.

Definition opk_op (k : opk) : str := op_str (cls_of_opk k).

Definition wf_parent (parent : option cls) : Prop :=
  parent = None \/ exists p : item, parent = Some (cls_of p).

(* `element.op == parent.op` never raises for a parent that is a tree node *)
Definition parent_same (parent : option cls) (op : str) : bool :=
  match same_level parent op with Some b => b | None => true end.

Lemma same_level_wf parent op : wf_parent parent -> same_level parent op = Some (parent_same parent op).
Proof.
  intros [H|[p H]]; subst; [reflexivity|]. unfold parent_same.
  destruct p as [[]| | []| | | | |[]|[]|[]|]; reflexivity.
Qed.

Definition ops_chains (f : item -> list chain) (inl : bool) (op : str) :=
  fix go (l : list item) : list chain :=
    match l with
    | [] => []
    | c :: l' => f c ++ (match l' with [] => [] | _ => between inl op end) ++ go l'
    end.

(* closed form of _get_chains with the present class tables *)
Fixpoint chains (inl : bool) (parent : option cls) (t : item) : list chain :=
  match t with
  | Op k _ ops =>
      let body := ops_chains (chains inl (Some (cls_of_opk k))) inl (opk_op k) ops in
      if parent_same parent (opk_op k) then body else [CSub body]
  | Grp k _ e =>
      [CStr s_lparen; CSub (chains inl (Some (cls_of_groupk k)) e)]
        ++ (if inl then [CStick] else []) ++ [CStr s_rparen]
  | SearchField _ n e => CStr (n ++ [c_colon]) :: CStick :: chains inl (Some CSearchField) e
  | _ => [CStr (print false t)]
  end.

Lemma get_chains_op inl parent k m ops :
  get_chains inl parent (Op k m ops) =
  match same_level parent (opk_op k),
        ops_walk (get_chains inl (Some (cls_of_opk k))) inl (opk_op k) ops with
  | Some true, Some b => Some b
  | Some false, Some b => Some [CSub b]
  | _, _ => None
  end.
Proof. destruct k; reflexivity. Qed.

Lemma get_chains_grp inl parent k m e :
  get_chains inl parent (Grp k m e) =
  match get_chains inl (Some (cls_of_groupk k)) e with
  | Some b => Some ([CStr s_lparen; CSub b] ++ (if inl then [CStick] else []) ++ [CStr s_rparen])
  | None => None
  end.
Proof. destruct k; reflexivity. Qed.

Lemma get_chains_field inl parent m n e :
  get_chains inl parent (SearchField m n e) =
  match get_chains inl (Some CSearchField) e with
  | Some b => Some (CStr (n ++ [c_colon]) :: CStick :: b)
  | None => None
  end.
Proof. reflexivity. Qed.

Lemma wf_parent_cls t : wf_parent (Some (cls_of t)).
Proof. right. exists t. reflexivity. Qed.

Theorem get_chains_spec : forall t inl parent,
  wf_parent parent -> get_chains inl parent t = Some (chains inl parent t).
Proof.
  induction t using item_ind'; intros inl parent Hp.
  - destruct k; reflexivity.
  - rewrite get_chains_field, (IHt inl (Some CSearchField) (wf_parent_cls (SearchField m n t))). reflexivity.
  - rewrite get_chains_grp, (IHt inl (Some (cls_of_groupk k)) (wf_parent_cls (Grp k m t))). reflexivity.
  - reflexivity.
  - reflexivity.
  - reflexivity.
  - reflexivity.
  - rewrite get_chains_op, (same_level_wf _ _ Hp).
    assert (E : ops_walk (get_chains inl (Some (cls_of_opk k))) inl (opk_op k) ops =
                Some (ops_chains (chains inl (Some (cls_of_opk k))) inl (opk_op k) ops)).
    { induction ops as [|c ops IHops]; [reflexivity|].
      inversion H as [|? ? Hc Hops]; subst. simpl.
      rewrite (Hc inl (Some (cls_of_opk k)) (wf_parent_cls (Op k m []))), (IHops Hops). reflexivity. }
    rewrite E. simpl. destruct (parent_same parent (opk_op k)); reflexivity.
  - destruct k; reflexivity.
  - destruct k; reflexivity.
  - reflexivity.
Qed.

(* ================================================================ B. chunks *)

Fixpoint chunks_of_chain (c : chain) : list str :=
  match c with
  | CStr s => [s]
  | CStick => []
  | CSub l => flat_map chunks_of_chain l
  end.
Definition chunks_of (l : list chain) : list str := flat_map chunks_of_chain l.

Definition op_chunk (op : str) : list str := match op with [] => [] | _ => [op] end.

Definition ops_texts (f : item -> list str) (op : str) :=
  fix go (l : list item) : list str :=
    match l with
    | [] => []
    | c :: l' => f c ++ (match l' with [] => [] | _ => op_chunk op end) ++ go l'
    end.

(* the chunk sequence of a tree: no setting, no parent *)
Fixpoint chunk_texts (t : item) : list str :=
  match t with
  | Op k _ ops => ops_texts chunk_texts (opk_op k) ops
  | Grp _ _ e => [s_lparen] ++ chunk_texts e ++ [s_rparen]
  | SearchField _ n e => (n ++ [c_colon]) :: chunk_texts e
  | _ => [print false t]
  end.

Lemma chunks_of_app a b : chunks_of (a ++ b) = chunks_of a ++ chunks_of b.
Proof. unfold chunks_of. apply flat_map_app. Qed.

Lemma chunks_of_between inl op : chunks_of (between inl op) = op_chunk op.
Proof. unfold between. destruct inl, op; reflexivity. Qed.

Theorem chunks_of_chains : forall t inl parent, chunks_of (chains inl parent t) = chunk_texts t.
Proof.
  induction t using item_ind'; intros inl parent; try reflexivity.
  - simpl. f_equal. apply IHt.
  - simpl. rewrite chunks_of_app. simpl. f_equal.
    change (flat_map chunks_of_chain (chains inl (Some (cls_of_groupk k)) t))
      with (chunks_of (chains inl (Some (cls_of_groupk k)) t)).
    rewrite IHt. f_equal. destruct inl; reflexivity.
  - assert (E : chunks_of (ops_chains (chains inl (Some (cls_of_opk k))) inl (opk_op k) ops) =
                ops_texts chunk_texts (opk_op k) ops).
    { induction ops as [|c ops IHops]; [reflexivity|].
      inversion H as [|? ? Hc Hops]; subst. simpl.
      rewrite !chunks_of_app, Hc, (IHops Hops). f_equal. f_equal.
      destruct ops; [reflexivity|apply chunks_of_between]. }
    simpl. destruct (parent_same parent (opk_op k)); [exact E|].
    unfold chunks_of at 1. simpl. rewrite app_nil_r. exact E.
Qed.

(* ================================================================ C. chunks vs. printed text *)

Definition no_layout (m : meta) : meta := mkMeta (m_pos m) (m_size m) [] [] (m_name m).

(* the tree with the head/tail layout removed on its spine: operations, groups, fields, and the
   root of every simple element (whose inside is kept verbatim) *)
Fixpoint spine_strip (t : item) : item :=
  match t with
  | Op k m ops => Op k (no_layout m) (map spine_strip ops)
  | Grp k m e => Grp k (no_layout m) (spine_strip e)
  | SearchField m n e => SearchField (no_layout m) n (spine_strip e)
  | _ => set_meta t (no_layout (meta_of t))
  end.

Lemma print_true_spine_strip t : print true (spine_strip t) = print false (spine_strip t).
Proof. destruct t; simpl; unfold wrap; simpl; rewrite ?app_nil_r; reflexivity. Qed.

Lemma concat_op_chunk op : concat (op_chunk op) = op.
Proof. destruct op; [reflexivity|]. simpl. rewrite app_nil_r. reflexivity. Qed.

Theorem chunk_texts_print : forall t, concat (chunk_texts t) = print false (spine_strip t).
Proof.
  induction t using item_ind'; try (simpl; rewrite ?app_nil_r; reflexivity).
  - simpl. rewrite IHt, print_true_spine_strip, <- app_assoc. reflexivity.
  - simpl. rewrite concat_app, IHt, print_true_spine_strip. simpl. reflexivity.
  - simpl. unfold wrap. fold (opk_op k).
    induction ops as [|c ops IHops]; [reflexivity|].
    inversion H as [|? ? Hc Hops]; subst. specialize (IHops Hops).
    simpl. rewrite !concat_app, Hc, IHops, print_true_spine_strip.
    destruct ops as [|c2 ops]; [simpl; rewrite app_nil_r; reflexivity|].
    rewrite concat_op_chunk. reflexivity.
  - destruct k; simpl; rewrite app_nil_r; reflexivity.
  - destruct k; simpl; rewrite app_nil_r; reflexivity.
Qed.
