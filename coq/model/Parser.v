(* Parser.v — luqum.parser.parse as a function of the input string: lexer, then the LR driver on
   the generated tables.  Executable definitions only. *)
Require Import Base Decimal Tree GenParser Lexer Actions LR.

Definition gen_tables : tables := mkTables gen_action gen_goto gen_prods.

(* enough for every input: see proofs/LRTermination.v *)
Definition parse_fuel (toks : list token) : nat := 40 * length toks + 40.

Definition parse_with (tb : tables) (s : str) : outcome :=
  let '(toks, e) := lex s in
  (* ghost: an input with no token at all (blank or empty) is text the lexer swallows *)
  let ev0 := match toks with [] => [GDrop s] | _ => [] end in
  run tb e (parse_fuel toks) (init_config toks ev0).

Definition parse_full (s : str) : outcome := parse_with gen_tables s.

(* what the caller observes *)
Definition parse (s : str) : option (res item) :=
  match parse_full s with Done r _ => Some r | OutOfFuel => None end.

(* ghost: non-empty texts the semantic actions dropped while parsing s, and the numerals they re-spelled *)
Definition nontrivial_event (e : gev) : bool :=
  match e with
  | GDrop x => negb (str_eqb x [])
  | GRespell a b => negb (str_eqb a b)
  end.
Definition parse_events (s : str) : list gev :=
  match parse_full s with Done _ d => filter nontrivial_event d | OutOfFuel => [] end.
Definition dropped_texts (s : str) : list str :=
  flat_map (fun e => match e with GDrop x => [x] | _ => [] end) (parse_events s).
