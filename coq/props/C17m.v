(* C17m — C17 on the OUTPUT STRING read as markup.

   props/C17.v proves the clauses of C17 on the marker's own segment list ("there is a segmentation whose
   flattening is the output").  The property is about the output string: "removing the inserted elements
   from the output gives back the original query text exactly, the inserted elements are properly nested,
   and each character of the query is rendered with the class of the innermost marked sub-expression".
   A consumer has the string only, so here the string is READ BACK by an independent tokenizer
   (model/Markup.v: scan_markup / read_markup) that knows the three tags the marker can emit for its
   parameters and nothing about the tree.  HTMLMarker does not escape the query text, so the two readings
   differ exactly when the text itself contains one of the marker's tags:

     F23  HTMLMarker()(parse('a AND "</span>"'), {(0,)}, {(1,)})
            = <span class="ok">a </span>AND<span class="ko"> "</span>"</span>
          read as markup: the closing tag inside the phrase closes the "ko" element, the real closing tag
          is then unmatched (mis-nested), and removing the tags gives  a AND ""  instead of the query.

   Property text -> statements (all on read_markup of the REAL output string `html ...`)
     whole statement, any tree, any parameters          C17_markup_statement           REFUTED (F23)
     ... under the two guards below                     C17_markup_partial             proved
            text and classes are those of the default copy of the tree (any tree)
     ... under the narrowest guard (clean_output)       C17_markup_exact_partial,      proved
            = the tokenizer finds the marker's segments   C17_markup_exact_tokens (iff), C17_guard_implies_clean
     ... in terms of the input tree (Boost-force guard)  C17_markup_text_partial        proved
     parsimony, on the strings                          C17_markup_parsimony           proved
     "any parsed query": force_stable for free, the     C17_parsed                     proved
        text is the query (re-spelled numerals: C01)    C17_markup_parsed(_respelled)  proved
     outside "no text dropped": F1's consequence        C17_F1_consequence             proved (witness)
     the guard on the parameters is needed too          C17_markup_params_needed       proved (witness)

   The guards (executable, model/Markup.v)
     no_tag_in_text elem okc koc t   none of the three tags   <elem class="okc">  <elem class="koc">  </elem>
                                     occurs as a substring of the text the marker copies (the printed default
                                     copy of t = the query, for a parsed query).  A '<' that does not start a
                                     complete tag is harmless and inside the guard (`a:<5`, `"<b>"`, `"</spam>"`).
                                     Tags formed ACROSS adjacent pieces of text (a word's tail and the next
                                     word's head, ...) are covered: the guard looks at the whole text.  It is
                                     conservative in one case only: a tag of the TEXT that an inserted element
                                     happens to cut in two (C17m_guard_conservative) — then the output reads
                                     correctly although the guard is false.  The path-dependent guard
                                     clean_output (no tag starts at a text character of this output) is exact.
     params_ok elem okc koc          element and classes contain no '<' and no tag is a proper prefix of
                                     another (true of every sane choice: params_simple -> params_ok).  Without
                                     it even tag-free text is mis-read (ko_class = x, double quote, >, y: C17_markup_params_needed).

   Lemmas: proofs/MarkupProofs.v (scan_flatten: under the guards the tokenizer inverts Marker.flatten). *)
Require Import Base Decimal Tree GenTree GenVisitors Visitor Print Eq TreeInd Marker MarkerProofs.
Require Import Markup MarkupProofs.
Require Import GenParser Lexer Actions LR Parser TraverseProofs C01 C01r C11 C17.

(* ---- statements *)

(* what reading the output must give for the tree t' whose text the marker copies: properly nested
   (read_markup is None otherwise), text = print true t', class of every character = class of the innermost
   marked node whose widened text contains it (char_owners / innermost_marked: C17.v's specification) *)
Definition reads_as (elem okc koc : str) (ok ko : list path) (out : str) (t' : item) : Prop :=
  read_markup elem okc koc out =
  Some (print true t', map (innermost_marked okc koc ok ko) (char_owners t')).

(* the property on the output string, for every tree and all parameters that give distinguishable tags *)
Definition C17_markup_statement : Prop :=
  forall elem okc koc parci t ok ko,
    params_ok elem okc koc = true ->
    exists out t', html okc koc elem parci t ok ko = Some out /\ tcopy t = Some t' /\
                   reads_as elem okc koc ok ko out t'.

Definition C17_markup_partial_statement : Prop :=
  forall elem okc koc parci t ok ko,
    params_ok elem okc koc = true ->
    no_tag_in_text elem okc koc t = true ->
    exists out t', html okc koc elem parci t ok ko = Some out /\ tcopy t = Some t' /\
                   reads_as elem okc koc ok ko out t'.

(* in terms of the input tree itself, under C17.v's guard *)
Definition C17_markup_text_partial_statement : Prop :=
  forall elem okc koc parci t ok ko,
    params_ok elem okc koc = true ->
    force_stable t = true ->
    no_tag_in elem okc koc (print true t) = true ->
    exists out, html okc koc elem parci t ok ko = Some out /\ reads_as elem okc koc ok ko out t.

(* both modes read alike *)
Definition C17_markup_parsimony_statement : Prop :=
  forall elem okc koc t ok ko,
    params_ok elem okc koc = true ->
    no_tag_in_text elem okc koc t = true ->
    exists o1 o2, html okc koc elem true t ok ko = Some o1 /\ html okc koc elem false t ok ko = Some o2 /\
                  read_markup elem okc koc o1 = read_markup elem okc koc o2.

(* the property's own quantifier: parsed queries.  force_stable needs no hypothesis; the text of the tree is
   the query up to re-spelled numerals when no text was dropped (C01r), the query itself when there is no
   ghost event at all (C01) *)
Definition C17_parsed_statement : Prop :=
  forall s t, parse s = Some (Ok t) ->
    force_stable t = true /\
    (dropped_texts s = [] -> respelled s (print true t)) /\
    (no_event s -> print true t = s).

(* end to end: query string in, output string read as markup out *)
Definition C17_markup_parsed_statement : Prop :=
  forall s t elem okc koc parci ok ko,
    parse s = Some (Ok t) -> no_event s ->
    params_ok elem okc koc = true ->
    no_tag_in elem okc koc s = true ->
    exists out, html okc koc elem parci t ok ko = Some out /\
      read_markup elem okc koc out = Some (s, map (innermost_marked okc koc ok ko) (char_owners t)).

Definition C17_markup_parsed_respelled_statement : Prop :=
  forall s t elem okc koc parci ok ko,
    parse s = Some (Ok t) -> dropped_texts s = [] ->
    params_ok elem okc koc = true ->
    no_tag_in elem okc koc (print true t) = true ->
    exists out x, html okc koc elem parci t ok ko = Some out /\ respelled s x /\
      read_markup elem okc koc out = Some (x, map (innermost_marked okc koc ok ko) (char_owners t)).

(* the narrowest guard: no tag starts at a TEXT character of this very output (Markup.clean_output; it depends
   on the paths and the mode).  It is exactly the condition under which the tokenizer recovers the marker's
   own segments, and it follows from no_tag_in_text *)
Definition C17_markup_exact_partial_statement : Prop :=
  forall elem okc koc parci t ok ko,
    params_ok elem okc koc = true ->
    clean_output elem okc koc parci t ok ko = true ->
    exists out t', html okc koc elem parci t ok ko = Some out /\ tcopy t = Some t' /\
                   reads_as elem okc koc ok ko out t'.

Definition C17_markup_exact_tokens_statement : Prop :=
  forall elem okc koc parci t ok ko sg out,
    params_ok elem okc koc = true ->
    mark_segs okc koc parci t ok ko = Some sg -> html okc koc elem parci t ok ko = Some out ->
    (scan_markup elem okc koc out = explode sg <-> clean_output elem okc koc parci t ok ko = true).

Definition C17_guard_implies_clean_statement : Prop :=
  forall elem okc koc parci t ok ko,
    params_ok elem okc koc = true -> no_tag_in_text elem okc koc t = true ->
    clean_output elem okc koc parci t ok ko = true.

(* params_ok cannot be dropped: the partial statement without it *)
Definition C17_markup_any_params_statement : Prop :=
  forall elem okc koc parci t ok ko,
    no_tag_in_text elem okc koc t = true ->
    exists out t', html okc koc elem parci t ok ko = Some out /\ tcopy t = Some t' /\
                   reads_as elem okc koc ok ko out t'.

(* the simple condition on the parameters *)
Definition C17_params_simple_statement : Prop :=
  forall elem okc koc, params_simple elem okc koc = true -> params_ok elem okc koc = true.

(* ---- proofs *)

Theorem C17_markup_partial : C17_markup_partial_statement.
Proof.
  intros elem okc koc parci t ok ko Hp Hn. unfold no_tag_in_text in Hn.
  destruct (tcopy t) as [t'|] eqn:Ht'; [|discriminate].
  destruct (read_html okc koc elem parci t ok ko t' Hp Ht' Hn) as [out [Ho Hr]].
  exists out, t'. split; [exact Ho|]. split; [reflexivity|].
  unfold reads_as. rewrite Hr, C17_owner_class_is_innermost_marked. reflexivity.
Qed.

Theorem C17_markup_exact_partial : C17_markup_exact_partial_statement.
Proof.
  intros elem okc koc parci t ok ko Hp Hn. unfold clean_output in Hn.
  destruct (tcopy t) as [t'|] eqn:Ht'; [|discriminate].
  destruct (read_html_clean okc koc elem parci t ok ko t' Hp Ht' Hn) as [out [Ho Hr]].
  exists out, t'. split; [exact Ho|]. split; [reflexivity|].
  unfold reads_as. rewrite Hr, C17_owner_class_is_innermost_marked. reflexivity.
Qed.

Theorem C17_markup_exact_tokens : C17_markup_exact_tokens_statement.
Proof.
  intros elem okc koc parci t ok ko sg out Hp Hsg Ho.
  destruct (mark_segs_inv _ _ _ _ _ _ _ Hsg) as [t' [Ht' ->]].
  rewrite (html_is_flatten _ _ _ _ _ _ _ _ Ht') in Ho. inversion Ho; subst out.
  unfold clean_output, scan_markup. rewrite Ht'. apply (scan_exact elem okc koc Hp). apply msegs_opens.
Qed.

Theorem C17_guard_implies_clean : C17_guard_implies_clean_statement.
Proof.
  intros elem okc koc parci t ok ko Hp Hn. unfold no_tag_in_text in Hn. unfold clean_output.
  destruct (tcopy t) as [t'|]; [|discriminate].
  apply (clean_of_no_tag elem okc koc Hp); [apply msegs_opens|]. rewrite texts_msegs. exact Hn.
Qed.

Theorem C17_markup_text_partial : C17_markup_text_partial_statement.
Proof.
  intros elem okc koc parci t ok ko Hp Hfs Hn.
  destruct (tcopy_total t) as [t' Ht'].
  assert (Hpr : print true t' = print true t) by exact (copy_print t t' Hfs Ht').
  destruct (read_html okc koc elem parci t ok ko t' Hp Ht') as [out [Ho Hr]]; [rewrite Hpr; exact Hn|].
  exists out. split; [exact Ho|]. unfold reads_as. rewrite Hr, Hpr. f_equal. f_equal.
  rewrite <- C17_owner_class_is_innermost_marked.
  unfold owner_class. exact (copy_owner okc koc ok ko t t' [] None Hfs Ht').
Qed.

Theorem C17_markup_parsimony : C17_markup_parsimony_statement.
Proof.
  intros elem okc koc t ok ko Hp Hn.
  destruct (C17_markup_partial elem okc koc true t ok ko Hp Hn) as [o1 [t1 [H1 [Ht1 R1]]]].
  destruct (C17_markup_partial elem okc koc false t ok ko Hp Hn) as [o2 [t2 [H2 [Ht2 R2]]]].
  exists o1, o2. split; [exact H1|]. split; [exact H2|].
  unfold reads_as in R1, R2. rewrite R1, R2. rewrite Ht1 in Ht2. inversion Ht2. reflexivity.
Qed.

Theorem C17_parsed : C17_parsed_statement.
Proof.
  intros s t Hp. split; [|split].
  - pose proof Hp as Hp0. unfold parse, parse_full in Hp0.
    destruct (parse_with gen_tables s) as [r evs|] eqn:E; [|discriminate].
    inversion Hp0; subst r. apply wf_force_stable. exact (C11_parsed_wellformed gen_tables s t evs E).
  - intros Hd. exact (C01_respelled_partial s t Hp Hd).
  - intros Hne. exact (C01_partial s t Hp Hne).
Qed.

Theorem C17_markup_parsed : C17_markup_parsed_statement.
Proof.
  intros s t elem okc koc parci ok ko Hparse Hne Hp Hn.
  destruct (C17_parsed s t Hparse) as [Hfs [_ Hs]]. specialize (Hs Hne).
  destruct (C17_markup_text_partial elem okc koc parci t ok ko Hp Hfs) as [out [Ho Hr]];
    [rewrite Hs; exact Hn|].
  exists out. split; [exact Ho|]. unfold reads_as in Hr. rewrite Hr, Hs. reflexivity.
Qed.

Theorem C17_markup_parsed_respelled : C17_markup_parsed_respelled_statement.
Proof.
  intros s t elem okc koc parci ok ko Hparse Hd Hp Hn.
  destruct (C17_parsed s t Hparse) as [Hfs [Hs _]]. specialize (Hs Hd).
  destruct (C17_markup_text_partial elem okc koc parci t ok ko Hp Hfs Hn) as [out [Ho Hr]].
  exists out, (print true t). split; [exact Ho|]. split; [exact Hs|exact Hr].
Qed.

Theorem C17_params_simple : C17_params_simple_statement.
Proof. exact params_simple_ok. Qed.

(* ---- F23: the unguarded statement is false.  Witness: the tree of   a AND "</span>"   with the first
   operand ok and the phrase ko, default parameters.  Replayed on the real code:
     HTMLMarker()(parser.parse('a AND "</span>"'), {(0,)}, {(1,)})
       == '<span class="ok">a </span>AND<span class="ko"> "</span>"</span>' *)
Definition s_span : str := [115;112;97;110]%N.
Definition s_ok : str := [111;107]%N.
Definition s_ko : str := [107;111]%N.

(*  a AND "</span>"  *)
Definition f23_query : str := [97;32;65;78;68;32;34;60;47;115;112;97;110;62;34]%N.
Definition f23_tree : item :=
  Op KAnd (mkMeta (Some 0%Z) (Some 15%Z) [] [] None)
    [Term KWord (mkMeta (Some 0%Z) (Some 1%Z) [] [32]%N None) [97]%N;
     Term KPhrase (mkMeta (Some 6%Z) (Some 9%Z) [32]%N [] None) [34;60;47;115;112;97;110;62;34]%N].

Example f23_tree_is_parsed : parse f23_query = Some (Ok f23_tree) /\ no_event f23_query.
Proof. split; vm_compute; reflexivity. Qed.

(* the output, its tokens as a reader of the markup sees them, and the verdict: mis-nested.
   Open ok | a | ' ' | Close | A N D | Open ko | ' ' | '"' | Close (the one of the PHRASE) | '"' | Close *)
Example f23_output :
  html s_ok s_ko s_span true f23_tree [[0]] [[1]] =
  Some [60;115;112;97;110;32;99;108;97;115;115;61;34;111;107;34;62;97;32;60;47;115;112;97;110;62;65;78;68;60;115;112;97;110;32;99;108;97;115;115;61;34;107;111;34;62;32;34;60;47;115;112;97;110;62;34;60;47;115;112;97;110;62]%N.
Proof. vm_compute. reflexivity. Qed.

Example f23_read :
  exists out, html s_ok s_ko s_span true f23_tree [[0]] [[1]] = Some out /\
    scan_markup s_span s_ok s_ko out =
      [Open s_ok; Text [97]%N; Text [32]%N; Close; Text [65]%N; Text [78]%N; Text [68]%N; Open s_ko;
       Text [32]%N; Text [34]%N; Close; Text [34]%N; Close] /\
    read_markup s_span s_ok s_ko out = None /\
    texts (scan_markup s_span s_ok s_ko out) = [97;32;65;78;68;32;34;34]%N.
Proof. eexists. split; [vm_compute; reflexivity|]. vm_compute. repeat split; reflexivity. Qed.

(* the guard sees it; the parameters are fine *)
Example f23_guard :
  no_tag_in_text s_span s_ok s_ko f23_tree = false /\ params_ok s_span s_ok s_ko = true /\
  params_simple s_span s_ok s_ko = true.
Proof. vm_compute. repeat split; reflexivity. Qed.

Theorem C17_markup_refuted : ~ C17_markup_statement.
Proof.
  intros H. destruct (H s_span s_ok s_ko true f23_tree [[0]] [[1]] eq_refl) as [out [t' [Ho [Ht' Hr]]]].
  vm_compute in Ho. inversion Ho; subst out. vm_compute in Ht'. inversion Ht'; subst t'.
  unfold reads_as in Hr. vm_compute in Hr. discriminate Hr.
Qed.

(* properly nested but wrong: unmarked   "<span class="ok">" OR "</span>"   reads as an ok element around
    OR  — and the two phrases lose their content *)
Definition f23b_tree : item :=
  Op KOr meta0
    [Term KPhrase (mkMeta None None [] [32]%N None)
       [34;60;115;112;97;110;32;99;108;97;115;115;61;34;111;107;34;62;34]%N;
     Term KPhrase (mkMeta None None [32]%N [] None) [34;60;47;115;112;97;110;62;34]%N].

Example f23b_read :
  exists out, html s_ok s_ko s_span true f23b_tree [] [] = Some out /\ out = print true f23b_tree /\
    read_markup s_span s_ok s_ko out =
      Some ([34;34;32;79;82;32;34;34]%N,
            [None; Some s_ok; Some s_ok; Some s_ok; Some s_ok; Some s_ok; Some s_ok; None]).
Proof. eexists. split; [vm_compute; reflexivity|]. vm_compute. split; reflexivity. Qed.

(* ---- the guard on the parameters is needed: ok_class = x and ko_class = the four characters x, double
   quote, >, y.  The word a marked ko gives   <span class="x">y">a</span>"   (without the last quote, added to
   keep this comment lexable): the text contains no tag, and the output reads as class x around   y, double
   quote, >, a *)
Definition bad_ko : str := [120;34;62;121]%N.

Example params_witness :
  params_ok s_span [120]%N bad_ko = false /\
  no_tag_in_text s_span [120]%N bad_ko (Term KWord meta0 [97]%N) = true /\
  html [120]%N bad_ko s_span true (Term KWord meta0 [97]%N) [] [[]] =
    Some [60;115;112;97;110;32;99;108;97;115;115;61;34;120;34;62;121;34;62;97;60;47;115;112;97;110;62]%N /\
  read_markup s_span [120]%N bad_ko
    [60;115;112;97;110;32;99;108;97;115;115;61;34;120;34;62;121;34;62;97;60;47;115;112;97;110;62]%N =
    Some ([121;34;62;97]%N, [Some [120]%N; Some [120]%N; Some [120]%N; Some [120]%N]).
Proof. vm_compute. repeat split; reflexivity. Qed.

Theorem C17_markup_params_needed : ~ C17_markup_any_params_statement.
Proof.
  intros H.
  destruct (H s_span [120]%N bad_ko true (Term KWord meta0 [97]%N) [] [[]] eq_refl) as [out [t' [Ho [Ht' Hr]]]].
  vm_compute in Ho. inversion Ho; subst out. vm_compute in Ht'. inversion Ht'; subst t'.
  unfold reads_as in Hr. vm_compute in Hr. discriminate Hr.
Qed.

(* ---- outside "no text dropped" the stripped text is not the query: F1's consequence, not the marker's.
   f :a AND b   parses to a tree that prints   f:a AND b   (the blank before the colon is lost by the
   parser's field action, F1); the marker's output strips to that. *)
Definition f1_query : str := [102;32;58;97;32;65;78;68;32;98]%N.

Definition C17_F1_consequence_statement : Prop :=
  exists t out x cl,
    parse f1_query = Some (Ok t) /\ dropped_texts f1_query = [[32]%N] /\
    no_tag_in_text s_span s_ok s_ko t = true /\
    html s_ok s_ko s_span true t [[0]] [] = Some out /\
    read_markup s_span s_ok s_ko out = Some (x, cl) /\
    x = print true t /\ x = [102;58;97;32;65;78;68;32;98]%N /\ x <> f1_query.

Theorem C17_F1_consequence : C17_F1_consequence_statement.
Proof.
  do 4 eexists. split; [vm_compute; reflexivity|]. split; [vm_compute; reflexivity|].
  split; [vm_compute; reflexivity|]. split; [vm_compute; reflexivity|].
  split; [vm_compute; reflexivity|]. split; [vm_compute; reflexivity|].
  split; [reflexivity|]. discriminate.
Qed.

(* re-spelled numerals: inside "no text dropped", outside "no event".   a^1.0 AND b   prints   a^1 AND b *)
Example respelled_numeral :
  exists t, parse [97;94;49;46;48;32;65;78;68;32;98]%N = Some (Ok t) /\
    dropped_texts [97;94;49;46;48;32;65;78;68;32;98]%N = [] /\
    print true t = [97;94;49;32;65;78;68;32;98]%N.
Proof. eexists. split; [vm_compute; reflexivity|]. split; vm_compute; reflexivity. Qed.

(* ---- non-vacuity *)

(*  a:<5 AND "x>y"   both operands marked.  '<' and '>' occur in the text, no tag does: INSIDE the guard.
    <span class="ok">a:<5 </span>AND<span class="ko"> "x>y"</span>  (the real output, both modes)  *)
Definition lt_query : str := [97;58;60;53;32;65;78;68;32;34;120;62;121;34]%N.

Example lt_inside_guard :
  exists t, parse lt_query = Some (Ok t) /\ no_event lt_query /\
    no_tag_in s_span s_ok s_ko lt_query = true /\ no_tag_in_text s_span s_ok s_ko t = true /\
    has_lt lt_query = true /\
    html s_ok s_ko s_span true t [[0]] [[1]] =
      Some [60;115;112;97;110;32;99;108;97;115;115;61;34;111;107;34;62;97;58;60;53;32;60;47;115;112;97;110;62;65;78;68;60;115;112;97;110;32;99;108;97;115;115;61;34;107;111;34;62;32;34;120;62;121;34;60;47;115;112;97;110;62]%N /\
    read_markup s_span s_ok s_ko
      [60;115;112;97;110;32;99;108;97;115;115;61;34;111;107;34;62;97;58;60;53;32;60;47;115;112;97;110;62;65;78;68;60;115;112;97;110;32;99;108;97;115;115;61;34;107;111;34;62;32;34;120;62;121;34;60;47;115;112;97;110;62]%N =
      Some (lt_query,
            [Some s_ok; Some s_ok; Some s_ok; Some s_ok; Some s_ok; None; None; None;
             Some s_ko; Some s_ko; Some s_ko; Some s_ko; Some s_ko; Some s_ko]) /\
    char_owners t = [[0]; [0]; [0; 0]; [0; 0; 0]; [0; 0; 0]; []; []; []; [1]; [1]; [1]; [1]; [1]; [1]].
Proof.
  eexists. split; [vm_compute; reflexivity|]. vm_compute. repeat split; reflexivity.
Qed.

(* the theorem applied to it (nothing computed: C17_markup_parsed) *)
Example lt_by_theorem :
  exists t out, parse lt_query = Some (Ok t) /\
    html s_ok s_ko s_span true t [[0]] [[1]] = Some out /\
    read_markup s_span s_ok s_ko out =
      Some (lt_query, map (innermost_marked s_ok s_ko [[0]] [[1]]) (char_owners t)).
Proof.
  assert (Hp : exists t, parse lt_query = Some (Ok t)) by (eexists; vm_compute; reflexivity).
  destruct Hp as [t Hp].
  destruct (C17_markup_parsed lt_query t s_span s_ok s_ko true [[0]] [[1]] Hp) as [out [Ho Hr]];
    try (vm_compute; reflexivity).
  exists t, out. auto.
Qed.

(* text with a near-tag:  "</spam>" AND "<span>" AND "<span class=ok>"  is inside the guard *)
Example near_tags_inside_guard :
  no_tag_in s_span s_ok s_ko
    [34;60;47;115;112;97;109;62;34;32;65;78;68;32;34;60;115;112;97;110;62;34;32;65;78;68;32;34;60;115;112;97;110;32;99;108;97;115;115;61;111;107;62;34]%N = true.
Proof. vm_compute. reflexivity. Qed.

(* a tag formed ACROSS two adjacent texts is seen by the guard:  UnknownOperation(Word("</sp"), Word("an>"))
   printed with nothing marked is  </span>  — mis-read, and outside the guard.  With the first word marked
   the inserted element cuts that tag in two, the output reads correctly, and the guard (which does not look
   at the paths) is still false: it is conservative there, and only there. *)
Definition across_tree : item :=
  Op KUnknown meta0 [Term KWord meta0 [60;47;115;112]%N; Term KWord meta0 [97;110;62]%N].

Example C17m_guard_sees_across :
  no_tag_in_text s_span s_ok s_ko across_tree = false /\
  exists out, html s_ok s_ko s_span true across_tree [] [] = Some out /\
              read_markup s_span s_ok s_ko out = None.
Proof. split; [vm_compute; reflexivity|]. eexists. split; vm_compute; reflexivity. Qed.

Example C17m_guard_conservative :
  no_tag_in_text s_span s_ok s_ko across_tree = false /\
  clean_output s_span s_ok s_ko true across_tree [[0]] [] = true /\
  clean_output s_span s_ok s_ko true across_tree [] [] = false /\
  exists out, html s_ok s_ko s_span true across_tree [[0]] [] = Some out /\
              reads_as s_span s_ok s_ko [[0]] [] out across_tree.
Proof. do 3 (split; [vm_compute; reflexivity|]). eexists. split; vm_compute; reflexivity. Qed.

(* other parameters: element em, classes "x y" and the empty string, exhaustive mode *)
Example other_params :
  params_ok [101;109]%N [120;32;121]%N [] = true /\
  exists t out, parse lt_query = Some (Ok t) /\
    html [120;32;121]%N [] [101;109]%N false t [[]; [0]] [[1]] = Some out /\
    reads_as [101;109]%N [120;32;121]%N [] [[]; [0]] [[1]] out t.
Proof.
  split; [vm_compute; reflexivity|]. do 2 eexists. split; [vm_compute; reflexivity|].
  split; vm_compute; reflexivity.
Qed.

Print Assumptions C17_markup_partial.
Print Assumptions C17_markup_exact_partial.
Print Assumptions C17_markup_exact_tokens.
Print Assumptions C17_guard_implies_clean.
Print Assumptions C17_markup_text_partial.
Print Assumptions C17_markup_parsimony.
Print Assumptions C17_parsed.
Print Assumptions C17_markup_parsed.
Print Assumptions C17_markup_parsed_respelled.
Print Assumptions C17_params_simple.
Print Assumptions C17_markup_refuted.
Print Assumptions C17_markup_params_needed.
Print Assumptions C17_F1_consequence.
