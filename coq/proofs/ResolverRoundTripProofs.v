(* ResolverRoundTripProofs.v — the re-parse theorem behind props/C11r.v: a tree WITH layout that is an image of
   the documented grammar up to flattening (`Regen.gshape`) and whose printed form is, lexeme by lexeme, the
   expected lexeme sequence with no lexeme fusing with its successor (`Regen.scan_top`, a local criterion) prints
   to a text the parser accepts, and the parsed tree has the same boolean meaning.  It is applied in C11r.v to the
   outputs of UnknownOperationResolver and OpenRangeTransformer (and of every other shipped transformer).

   Route:   x  --print-->  text  --lexer-->  tokens  --LR driver-->  tree
     A  lexer: a lexeme that is one token when it stands alone is the same token in front of any text accepted
        by `follow_ok` (TERM rule: lex_term_ctx / name_glue of AhtRoundTripProofs; the other rules by cases);
        `scan` builds the token chain of the text from the right (CHN, on the tchain / lift machinery of
        RespaceProofs.v); a chain after a leading blank is what `lex` returns;
     B  `qsyn x`: the syntax tree (GrammarMoreProofs.qtree) of the printed form; AND under AND and OR under OR are
        re-associated to the left (`aand` / `aor`), as the parser will read them;
     C  `QF_all`: under `gsh`, `qsyn x` is well-formed (`wfs`), satisfies C03d's guard `f4free`, its yield is
        `lexemes x` with the types of the lexemes standing alone, and its value has the meaning of x;
     D  `regen_parse`: the summary used by props/C11r.v, which concludes with C03d_grammar_trees_parse. *)
Require Import Base Decimal Tree GenTree GenVisitors GenChars GenParser Visitor Eq EqSpec Traverse Print Lexer Actions LR Parser Erase Grammar Respace.
Require Import AutoHeadTail AhtRoundTrip Meaning Regen.
Require Import TreeInd EqProofs LexerProofs RespaceProofs AutoHeadTailProofs PrecedenceProofs PrecedenceGeneral.
Require Import GrammarMoreProofs MeaningProofs.
Require Import AhtRoundTripProofs.
From Coq Require Import Lia.

Local Arguments is_space : simpl never.
Local Arguments is_udigit : simpl never.
Local Arguments is_numchar : simpl never.
Local Arguments term_follow_char : simpl never.
Local Arguments term_first_char : simpl never.
Local Arguments term_step : simpl never.
Local Arguments lex_term : simpl never.
Local Arguments lex_one : simpl never.
Local Arguments lex_delimited : simpl never.
Local Arguments dec_to_fstr : simpl never.
Local Arguments Z_to_str : simpl never.
Local Arguments dec_of_lexeme : simpl never.
Local Arguments int_of_lexeme : simpl never.
Local Arguments dec_normalize : simpl never.

(* ================================================================ A. one lexeme in front of any accepted text *)

Ltac simple_tok' := let H := fresh "H" in intros H; inversion H; subst; reflexivity.

(* a token that is not read by the TERM rule, in front of c :: rest *)
Lemma lex_one_nonterm_follow rp rp' l r c rest k :
  lex_one rp (l ++ r) = Some (RTok k, l, r) -> lex_term rp (l ++ r) = None ->
  nonterm_follow l c = true -> lex_one rp' (l ++ c :: rest) = Some (RTok k, l, c :: rest).
Proof.
  intros H Hnt Hf. destruct (lex_one_spec _ _ _ _ _ H) as [_ [Hne _]].
  destruct l as [|a l1]; [congruence|]. cbn [app] in *.
  assert (Hbs : N.eqb a c_bslash = false).
  { destruct (N.eqb_spec a c_bslash); [|reflexivity]. subst a.
    rewrite (lex_one_bslash_none _ _ Hnt) in H. discriminate. }
  pose proof (lex_term_none_indep rp rp' a (l1 ++ r) (l1 ++ c :: rest) Hnt Hbs) as Hnt'.
  unfold lex_one in *. rewrite Hnt'. rewrite Hnt in H. revert H.
  destruct (is_space a).
  { destruct (span_while is_space (a :: l1 ++ r) []). discriminate. }
  destruct (N.eqb a c_plus); [simple_tok'|].
  destruct (N.eqb a c_minus); [simple_tok'|].
  destruct (N.eqb a c_colon); [simple_tok'|].
  destruct (N.eqb a c_lparen); [simple_tok'|].
  destruct (N.eqb a c_rparen); [simple_tok'|].
  destruct (N.eqb a c_lbrack || N.eqb a c_lbrace); [simple_tok'|].
  destruct (N.eqb a c_rbrack || N.eqb a c_rbrace); [simple_tok'|].
  assert (Hgt : forall T, (N.eqb a c_lt || N.eqb a c_gt = true) ->
    match l1 ++ r with
    | e :: s'' => if N.eqb e c_eq then Some (RTok T, [a; e], s'') else Some (RTok T, [a], l1 ++ r)
    | [] => Some (RTok T, [a], l1 ++ r)
    end = Some (RTok k, a :: l1, r) ->
    match l1 ++ c :: rest with
    | e :: s'' => if N.eqb e c_eq then Some (RTok T, [a; e], s'') else Some (RTok T, [a], l1 ++ c :: rest)
    | [] => Some (RTok T, [a], l1 ++ c :: rest)
    end = Some (RTok k, a :: l1, c :: rest)).
  { intros T Ha. unfold nonterm_follow in Hf. rewrite Ha in Hf. destruct l1 as [|e l2]; cbn [app].
    - simpl in Hf. apply negb_true_iff in Hf. rewrite Hf. intros H.
      assert (Hk : k = T). { destruct r as [|e s'']; [|destruct (N.eqb e c_eq)]; inversion H; reflexivity. }
      subst k. reflexivity.
    - destruct (N.eqb e c_eq); intros H; inversion H; subst. reflexivity. }
  destruct (N.eqb a c_gt) eqn:Egt; [apply Hgt; rewrite orb_true_r; reflexivity|].
  destruct (N.eqb a c_lt) eqn:Elt; [apply Hgt; reflexivity|].
  clear Hgt.
  destruct (N.eqb a c_quote).
  { intros H. destruct (lex_delimited c_quote (a :: l1 ++ r)) as [[l0 r0]|] eqn:Hd; [|discriminate].
    inversion H; subst. change (a :: l1 ++ r) with ((a :: l1) ++ r) in Hd.
    apply lex_delimited_respace with (r' := c :: rest) in Hd. cbn [app] in Hd. rewrite Hd. reflexivity. }
  destruct (N.eqb a c_slash).
  { intros H. destruct (lex_delimited c_slash (a :: l1 ++ r)) as [[l0 r0]|] eqn:Hd; [|discriminate].
    inversion H; subst. change (a :: l1 ++ r) with ((a :: l1) ++ r) in Hd.
    apply lex_delimited_respace with (r' := c :: rest) in Hd. cbn [app] in Hd. rewrite Hd. reflexivity. }
  assert (Hspan : forall T, N.eqb a c_tilde || N.eqb a c_caret = true ->
    (let '(l, r0) := span_while is_numchar (l1 ++ r) [] in Some (RTok T, a :: l, r0)) = Some (RTok k, a :: l1, r) ->
    (let '(l, r0) := span_while is_numchar (l1 ++ c :: rest) [] in Some (RTok T, a :: l, r0)) =
      Some (RTok k, a :: l1, c :: rest)).
  { intros T Ha H. unfold nonterm_follow in Hf. simpl in Hf. rewrite Elt, Egt in Hf. simpl in Hf. rewrite Ha in Hf.
    apply negb_true_iff in Hf.
    destruct (span_while is_numchar (l1 ++ r) []) as [l0 r0] eqn:Hsw.
    inversion H; subst. apply span_while_spec in Hsw. destruct Hsw as [l' [H1 [H2 [H3 H4]]]].
    simpl in H1. subst l'. rewrite span_while_app; [reflexivity|exact H4|exact Hf]. }
  destruct (N.eqb a c_tilde) eqn:Eti; [apply Hspan; reflexivity|].
  destruct (N.eqb a c_caret) eqn:Eca; [apply Hspan; reflexivity|].
  discriminate.
Qed.

(* a digit is a character the TERM rule goes on with *)
Lemma digit_follow c : is_udigit c = true -> term_follow_char c = true.
Proof.
  intros H. unfold term_follow_char. rewrite (digit_not_space _ H).
  destruct (mem_N c [c_colon; c_caret; c_bslash; c_tilde; c_lparen; c_rparen; c_lbrace; c_rbrace; c_lbrack; c_rbrack]) eqn:E;
    [|reflexivity].
  exfalso. simpl in E.
  repeat (apply orb_true_iff in E; destruct E as [E|E]); try discriminate;
    apply N.eqb_eq in E; subst c; vm_compute in H; discriminate.
Qed.

(* what a lexeme read by the TERM rule is when it stands alone *)
Lemma alone_term l k l0 r0 : lex_one [] l = Some (RTok k, l, []) -> lex_term [] l = Some (l0, r0) ->
  lex_term [] l = Some (l, []) /\ k = rtype l.
Proof.
  intros H Ht. destruct l as [|c l1]; [unfold lex_one in H; discriminate|].
  pose proof (lex_term_nonspace _ _ _ _ Ht) as Hsp.
  unfold lex_one in H. rewrite Hsp, Ht in H. cbv zeta in H. inversion H; subst. split; [exact Ht|reflexivity].
Qed.

(* the same token in front of any text that `follow_ok` accepts *)
Lemma follow_lex rp l x k :
  lex_one [] l = Some (RTok k, l, []) -> follow_ok l x = true ->
  (forall y, lex_term rp (l ++ x) = Some y -> safe rp) ->
  lex_one rp (l ++ x) = Some (RTok k, l, x).
Proof.
  intros H Hf Hs.
  assert (H0 : lex_one [] (l ++ []) = Some (RTok k, l, [])) by (rewrite app_nil_r; exact H).
  destruct (lex_term [] l) as [[l0 r0]|] eqn:Ht.
  - destruct (alone_term _ _ _ _ H Ht) as [Hl Hk].
    assert (Hsafe : safe rp).
    { destruct (lex_term_starts l x rp Hl) as [y Hy]. exact (Hs y Hy). }
    destruct x as [|c rest].
    + rewrite app_nil_r. rewrite <- (app_nil_r l) at 1.
      apply lex_one_respace with (rp := []) (r := []); auto. intros _. split; [exact safe_nil|exact Hsafe].
    + unfold follow_ok in Hf. rewrite Ht in Hf. apply orb_true_iff in Hf. destruct Hf as [Hf|Hf].
      * apply lex_one_respace with (rp := []) (r := []); auto.
        -- intros _. split; [exact safe_nil|exact Hsafe].
        -- simpl. rewrite Hf. reflexivity.
      * apply andb_true_iff in Hf. destruct Hf as [Hf Hg]. apply andb_true_iff in Hf. destruct Hf as [Hfo Hbs].
        apply negb_true_iff in Hfo. apply negb_true_iff in Hbs. subst k.
        destruct (N.eqb c c_colon) eqn:Ec.
        -- apply N.eqb_eq in Ec. subst c. simpl in Hg. apply lex_one_name_ctx; assumption.
        -- apply lex_one_of_term; [intros E; subst l; discriminate Hl|].
           apply lex_term_ctx; [exact Hl|exact Hsafe| |].
           ++ right. apply tm2_app_stop. simpl. split; [left; exact Ec|].
              destruct (is_udigit c) eqn:Ed; [|reflexivity]. rewrite (digit_follow _ Ed) in Hfo. discriminate.
           ++ unfold term_step. rewrite Hfo, Hbs, Ec. reflexivity.
  - destruct x as [|c rest].
    { apply lex_one_respace_nonterm with (rp := []) (r := []); [exact H0|rewrite app_nil_r; exact Ht|reflexivity]. }
    unfold follow_ok in Hf. rewrite Ht in Hf.
    apply lex_one_nonterm_follow with (rp := []) (r := []); [exact H0|rewrite app_nil_r; exact Ht|exact Hf].
Qed.

(* ---- the scanner *)
Lemma strip_spec : forall l s x, strip l s = Some x -> s = l ++ x.
Proof.
  induction l as [|a l IH]; intros s x H; simpl in H.
  - inversion H. reflexivity.
  - destruct s as [|b s']; [discriminate|]. destruct (N.eqb a b) eqn:E; [|discriminate].
    apply N.eqb_eq in E. subst b. rewrite (IH _ _ H). reflexivity.
Qed.

Lemma drop_space_spec : forall s, exists w, s = w ++ drop_space s /\ all_space w = true /\
  starts_with_space (drop_space s) = false.
Proof.
  induction s as [|c s IH]; [exists []; auto|]. simpl. destruct (is_space c) eqn:E.
  - destruct IH as [w [H1 [H2 H3]]]. exists (c :: w). simpl. rewrite E, H2. repeat split; [f_equal; exact H1|exact H3].
  - exists []. simpl. rewrite E. auto.
Qed.

Definition toks_of (ls : list str) (ws : list str) : list token :=
  map (fun p => AhtRoundTripProofs.tk (ltype (fst p)) (fst p) (snd p)) (combine ls ws).

Lemma alone_inv l : lex_alone l = true -> lex_one [] l = Some (RTok (ltype l), l, []).
Proof.
  unfold lex_alone, ltype. destruct (lex_one [] l) as [[[[|k] l'] r]|] eqn:E; try discriminate.
  destruct r; [|discriminate]. intros _. destruct (lex_one_spec _ _ _ _ _ E) as [Hs _]. rewrite app_nil_r in Hs.
  subst l'. reflexivity.
Qed.

(* the scanned text is a chain whose (type, lexeme) sequence is the expected one *)
Theorem scan_chain : forall ls s, scan ls s = true ->
  exists ts, CHN s ts /\ map tok_key ts = map (fun l => (ltype l, l)) ls.
Proof.
  induction ls as [|l ls IH]; intros s H; simpl in H.
  - destruct s; [|discriminate]. exists []. split; [apply CHN_nil|reflexivity].
  - destruct (strip l s) as [x|] eqn:Hst; [|discriminate].
    apply andb_true_iff in H. destruct H as [H H3]. apply andb_true_iff in H. destruct H as [H1 H2].
    apply strip_spec in Hst. subst s.
    destruct (drop_space_spec x) as [w [Hx [Hw _]]].
    destruct (IH _ H3) as [ts [Hch Hk]].
    exists (AhtRoundTripProofs.tk (ltype l) l w :: ts). split.
    + rewrite Hx. apply CHN_cons; [|exact Hw|exact Hch].
      intros rp Hs. rewrite <- Hx. apply follow_lex; [apply alone_inv; exact H1|exact H2|].
      rewrite Hx. exact Hs.
    + simpl. rewrite Hk. reflexivity.
Qed.

(* a chain after a leading blank is what `lex` returns *)
Theorem CHN_lex_head h s ts : all_space h = true -> CHN s ts -> ts <> [] ->
  map tok_key (fst (lex (h ++ s))) = map tok_key ts /\ snd (lex (h ++ s)) = None.
Proof.
  intros Hh H Hne. destruct h as [|c hh]; [exact (CHN_lex s ts H Hne)|].
  assert (Hch : tchain (rev (c :: hh) ++ []) s ts).
  { apply H. intros y _. apply safe_rev_space; [discriminate|exact Hh]. }
  pose proof (tchain_text _ _ _ Hch) as Es.
  pose proof (resp_body_refl _ (tchain_tails _ _ _ Hch)) as Hr.
  assert (Hns : starts_with_space s = false).
  { rewrite Es. eapply body_nostart; eassumption. }
  unfold lex.
  replace (S (length ((c :: hh) ++ s))) with (S (length ((c :: hh) ++ s))) by reflexivity.
  rewrite (lex_raw_step _ _ _ _ RSep (c :: hh) s).
  2:{ apply lex_one_sep; [discriminate|exact Hh|exact Hns]. }
  destruct (lift _ _ _ Hch ts (rev (c :: hh) ++ []) (length ((c :: hh) ++ s)) (0 + length (c :: hh)) Hr)
    as [raws [Hraw Hk]].
  - intros x _. split; apply safe_rev_space; (discriminate || exact Hh).
  - rewrite <- Es, app_length. simpl. lia.
  - rewrite <- Es in Hraw. rewrite Hraw. simpl. rewrite fold_keys. simpl. split; [exact Hk|reflexivity].
Qed.

(* the scanner's verdict: the text lexes, without error, to the expected (type, lexeme) sequence *)
Theorem scan_top_lex ls s : scan_top ls s = true ->
  map tok_key (fst (lex s)) = map (fun l => (ltype l, l)) ls /\ snd (lex s) = None.
Proof.
  unfold scan_top. intros H. apply andb_true_iff in H. destruct H as [Hne H].
  destruct (drop_space_spec s) as [w [Hs [Hw _]]].
  destruct (scan_chain _ _ H) as [ts [Hch Hk]].
  assert (Hts : ts <> []).
  { intros E. subst ts. destruct ls; [discriminate Hne|discriminate Hk]. }
  rewrite Hs. rewrite <- Hk. apply CHN_lex_head; assumption.
Qed.

(* ================================================================ B. the syntax tree of a tree with layout *)

Definition mk (l : str) : token := mkTok (ltype l) l 0 [] [].
Definition kf (l : str) : tok * str := (ltype l, l).

(* the value of a Term (the lexeme it prints) *)
Definition tmv (x : item) : str := match x with Term _ _ v => v | _ => [] end.

Definition bq (t : item) : bnd :=
  match t with
  | Unary KProhibit _ a => BNeg (mk (op_str CProhibit)) (mk (tmv a))
  | _ => BVal (mk (tmv t))
  end.

(* acc AND q, re-associated to the left when q is itself an AND chain: that is how `acc AND qa AND qb` is read *)
Fixpoint aand (acc : qtree) (o : token) (q : qtree) : qtree :=
  match q with QAnd qa o2 qb => QAnd (aand acc o qa) o2 qb | _ => QAnd acc o q end.
Fixpoint aor (acc : qtree) (o : token) (q : qtree) : qtree :=
  match q with QOr qa o2 qb => QOr (aor acc o qa) o2 qb | _ => QOr acc o q end.

Definition qapp (k : opk) (acc q : qtree) : qtree :=
  match k with
  | KAnd => aand acc (mk (op_str CAndOperation)) q
  | KOr => aor acc (mk (op_str COrOperation)) q
  | _ => QJuxt acc q
  end.

Definition qfold (f : item -> qtree) (k : opk) := fix go (acc : qtree) (l : list item) : qtree :=
  match l with [] => acc | c :: r => go (qapp k acc (f c)) r end.

Fixpoint qsyn (t : item) : qtree :=
  match t with
  | Term KWord _ v => if str_eqb v s_TO then QTo (mk v) else QAtom (mk v)
  | Term _ _ v => QAtom (mk v)
  | Fuzzy _ x d impl => QApprox (mk (tmv x)) (mk ([c_tilde] ++ (if impl then [] else dec_to_fstr d)))
  | Proximity _ x z impl => QApprox (mk (tmv x)) (mk ([c_tilde] ++ (if impl then [] else Z_to_str z)))
  | Boost _ e f impl => QBoost (qsyn e) (mk ([c_caret] ++ (if impl then [] else dec_to_fstr f)))
  | Unary KNot _ a => QNot (mk (op_str CNot)) (qsyn a)
  | Unary k _ a => QSign (mk (op_str (cls_of_unk k))) (qsyn a)
  | Grp _ _ e => QGroup (mk [c_lparen]) (qsyn e) (mk [c_rparen])
  | SearchField _ n e => QField (mk n) (mk [c_colon]) (qsyn e)
  | Range _ lo hi il ih => QRange (mk (gen_low_char il)) (bq lo) (mk s_TO) (bq hi) (mk (gen_high_char ih))
  | ORange k _ a incl => QOpen (mk (op_str (cls_of_ork k) ++ gen_openrange_char incl)) (mk (tmv a))
  | Op k _ ops => match ops with [] => QAtom (mk []) | c :: cs => qfold qsyn k (qsyn c) cs end
  | NoneItem _ => QAtom (mk [])
  end.

Lemma key_mk l : tok_key (mk l) = kf l.
Proof. reflexivity. Qed.

(* ---- re-association *)
Lemma lvq_ge2_notand q : (forall a o b, q <> QAnd a o b) -> 2 <= lvq q -> 3 <= lvq q.
Proof. destruct q; simpl; intros H L; try lia. exfalso. eapply H. reflexivity. Qed.
Lemma lvq_ge1_notor q : (forall a o b, q <> QOr a o b) -> 1 <= lvq q -> 2 <= lvq q.
Proof. destruct q; simpl; intros H L; try lia. exfalso. eapply H. reflexivity. Qed.

Lemma flq_aand acc o : forall q, flq (aand acc o q) = flq acc ++ o :: flq q.
Proof.
  induction q; try reflexivity. simpl. rewrite IHq1. rewrite <- app_assoc. reflexivity.
Qed.
Lemma flq_aor acc o : forall q, flq (aor acc o q) = flq acc ++ o :: flq q.
Proof.
  induction q; try reflexivity. simpl. rewrite IHq1. rewrite <- app_assoc. reflexivity.
Qed.

Lemma aand_facts acc o : tk_type o = T_AND_OP -> wfs acc = true -> 2 <= lvq acc ->
  forall q, wfs q = true -> 2 <= lvq q ->
    wfs (aand acc o q) = true /\ lvq (aand acc o q) = 2 /\ sgq (aand acc o q) = sgq acc /\
    f4free (aand acc o q) = (f4free acc && f4free q)%bool /\
    qops_and (aand acc o q) = qops_and acc ++ qops_and q.
Proof.
  intros Ho Wa La.
  assert (Hbase : forall q, (forall a o2 b, q <> QAnd a o2 b) -> wfs q = true -> 2 <= lvq q ->
            wfs (QAnd acc o q) = true /\ lvq (QAnd acc o q) = 2 /\ sgq (QAnd acc o q) = sgq acc /\
            f4free (QAnd acc o q) = (f4free acc && f4free q)%bool /\
            qops_and (QAnd acc o q) = qops_and acc ++ qops_and q).
  { intros q Hn W L. pose proof (lvq_ge2_notand q Hn L) as L3.
    split; [|split; [reflexivity|split; [reflexivity|split; [reflexivity|]]]].
    - cbn [wfs]. apply Nat.leb_le in La. apply Nat.leb_le in L3. rewrite Ho, Wa, W, La, L3. reflexivity.
    - rewrite (qsingle_and q Hn). reflexivity. }
  induction q; intros W L; try (apply Hbase; [intros; discriminate|exact W|exact L]).
  wq_split W. simpl aand.
  destruct (IHq1 W1 W3) as [F1 [F2 [F3 [F4 F5]]]].
  split; [|split; [reflexivity|split; [exact F3|split]]].
  - cbn [wfs]. apply Nat.leb_le in W2. rewrite W, F1, W0, F2, W2. reflexivity.
  - simpl. rewrite F4. rewrite andb_assoc. reflexivity.
  - unfold qops_and in *. simpl. rewrite F5. rewrite <- app_assoc. reflexivity.
Qed.

Lemma aor_facts acc o : tk_type o = T_OR_OP -> wfs acc = true -> 1 <= lvq acc ->
  forall q, wfs q = true -> 1 <= lvq q ->
    wfs (aor acc o q) = true /\ lvq (aor acc o q) = 1 /\ sgq (aor acc o q) = sgq acc /\
    f4free (aor acc o q) = (f4free acc && f4free q)%bool /\
    qops_or (aor acc o q) = qops_or acc ++ qops_or q.
Proof.
  intros Ho Wa La.
  assert (Hbase : forall q, (forall a o2 b, q <> QOr a o2 b) -> wfs q = true -> 1 <= lvq q ->
            wfs (QOr acc o q) = true /\ lvq (QOr acc o q) = 1 /\ sgq (QOr acc o q) = sgq acc /\
            f4free (QOr acc o q) = (f4free acc && f4free q)%bool /\
            qops_or (QOr acc o q) = qops_or acc ++ qops_or q).
  { intros q Hn W L. pose proof (lvq_ge1_notor q Hn L) as L2.
    split; [|split; [reflexivity|split; [reflexivity|split; [reflexivity|]]]].
    - cbn [wfs]. apply Nat.leb_le in La. apply Nat.leb_le in L2. rewrite Ho, Wa, W, La, L2. reflexivity.
    - rewrite (qsingle_or q Hn). reflexivity. }
  induction q; intros W L; try (apply Hbase; [intros; discriminate|exact W|exact L]).
  wq_split W. simpl aor.
  destruct (IHq1 W1 W3) as [F1 [F2 [F3 [F4 F5]]]].
  split; [|split; [reflexivity|split; [exact F3|split]]].
  - cbn [wfs]. apply Nat.leb_le in W2. rewrite W, F1, W0, F2, W2. reflexivity.
  - simpl. rewrite F4. rewrite andb_assoc. reflexivity.
  - unfold qops_or in *. simpl. rewrite F5. rewrite <- app_assoc. reflexivity.
Qed.

(* ---- meaning of n-ary nodes *)
Definition fs (d : bool) (v : atom -> bool) (cx : list ctxel) (y : item) : bool := fsem d v cx (fingerprint y).

Lemma forallb_map' {A B} (f : B -> bool) (g : A -> B) l : forallb f (map g l) = forallb (fun x => f (g x)) l.
Proof. induction l as [|x l IH]; simpl; [reflexivity|]. rewrite IH. reflexivity. Qed.
Lemma existsb_map' {A B} (f : B -> bool) (g : A -> B) l : existsb f (map g l) = existsb (fun x => f (g x)) l.
Proof. induction l as [|x l IH]; simpl; [reflexivity|]. rewrite IH. reflexivity. Qed.
Lemma forallb_concat {A B} (f : B -> bool) (g : A -> list B) l :
  forallb f (concat (map g l)) = forallb (fun c => forallb f (g c)) l.
Proof. induction l as [|x l IH]; simpl; [reflexivity|]. rewrite forallb_app, IH. reflexivity. Qed.
Lemma existsb_concat {A B} (f : B -> bool) (g : A -> list B) l :
  existsb f (concat (map g l)) = existsb (fun c => existsb f (g c)) l.
Proof. induction l as [|x l IH]; simpl; [reflexivity|]. rewrite existsb_app, IH. reflexivity. Qed.

Lemma fs_and d v cx m l : fs d v cx (Op KAnd m l) = forallb (fs d v cx) l.
Proof. unfold fs. simpl. apply forallb_map'. Qed.
Lemma fs_or d v cx m l : fs d v cx (Op KOr m l) = existsb (fs d v cx) l.
Proof. unfold fs. simpl. apply existsb_map'. Qed.
Lemma fs_j d v cx m l :
  fs d v cx (Op KUnknown m l) = if d then forallb (fs d v cx) l else existsb (fs d v cx) l.
Proof. unfold fs. simpl. rewrite forallb_map', existsb_map'. reflexivity. Qed.

Lemma fs_nary_and d v cx l : l <> [] -> fs d v cx (nary KAnd l) = forallb (fs d v cx) l.
Proof.
  destruct l as [|x [|y r]]; intros H; [congruence| |apply fs_and]. simpl. rewrite andb_true_r. reflexivity.
Qed.
Lemma fs_nary_or d v cx l : l <> [] -> fs d v cx (nary KOr l) = existsb (fs d v cx) l.
Proof.
  destruct l as [|x [|y r]]; intros H; [congruence| |apply fs_or]. simpl. rewrite orb_false_r. reflexivity.
Qed.
Lemma fs_nary_j d v cx l : l <> [] ->
  fs d v cx (nary KUnknown l) = if d then forallb (fs d v cx) l else existsb (fs d v cx) l.
Proof.
  destruct l as [|x [|y r]]; intros H; [congruence| |apply fs_j]. simpl.
  rewrite andb_true_r, orb_false_r. destruct d; reflexivity.
Qed.

Lemma qsingle_j p : (forall a b, p <> QJuxt a b) -> qops_j p = [valq p].
Proof. destruct p; intros H; try reflexivity. exfalso. eapply H. reflexivity. Qed.
Lemma lvq_ge1_notj p : 1 <= lvq p -> forall a b, p <> QJuxt a b.
Proof. intros H a b E. subst p. simpl in H. lia. Qed.

(* ================================================================ C. the syntax tree is well formed and means the same *)

Definition QF (x : item) : Prop :=
  wfs (qsyn x) = true /\ lvq (qsyn x) = lvi x /\ sgq (qsyn x) = sgi x /\ f4free (qsyn x) = true /\
  map tok_key (flq (qsyn x)) = map kf (lexemes x) /\
  (forall d v cx, fs d v cx (valq (qsyn x)) = fs d v cx x).

Definition s_AND : str := op_str CAndOperation.
Definition s_OR : str := op_str COrOperation.

Lemma fold_and_facts : forall cs acc,
  Forall (fun c => QF c /\ 2 <= lvi c) cs -> wfs acc = true -> 2 <= lvq acc -> f4free acc = true ->
  let r := qfold qsyn KAnd acc cs in
  wfs r = true /\ (cs <> [] -> lvq r = 2) /\ sgq r = sgq acc /\ f4free r = true /\
  map tok_key (flq r) = map tok_key (flq acc) ++ concat (map (fun c => kf s_AND :: map kf (lexemes c)) cs) /\
  qops_and r = qops_and acc ++ concat (map (fun c => qops_and (qsyn c)) cs).
Proof.
  induction cs as [|c cs IH]; intros acc HF Wa La Fa; simpl.
  - rewrite !app_nil_r. repeat split; auto. congruence.
  - inversion HF as [|? ? [[Q1 [Q2 [Q3 [Q4 [Q5 Q6]]]]] Lc] HF']; subst.
    assert (Ho : tk_type (mk s_AND) = T_AND_OP) by (vm_compute; reflexivity).
    destruct (aand_facts acc (mk s_AND) Ho Wa La (qsyn c) Q1 ltac:(lia)) as [A1 [A2 [A3 [A4 A5]]]].
    destruct (IH (aand acc (mk s_AND) (qsyn c)) HF' A1 ltac:(lia) ltac:(rewrite A4, Fa, Q4; reflexivity))
      as [R1 [R2 [R3 [R4 [R5 R6]]]]].
    fold s_AND. split; [exact R1|]. split.
    { intros _. destruct cs as [|c2 cs2]; [exact A2|apply R2; discriminate]. }
    split; [rewrite R3; exact A3|]. split; [exact R4|]. split.
    + rewrite R5, flq_aand, map_app. simpl. rewrite key_mk, Q5, <- app_assoc. reflexivity.
    + rewrite R6, A5, <- app_assoc. reflexivity.
Qed.

Lemma fold_or_facts : forall cs acc,
  Forall (fun c => QF c /\ 1 <= lvi c) cs -> wfs acc = true -> 1 <= lvq acc -> f4free acc = true ->
  let r := qfold qsyn KOr acc cs in
  wfs r = true /\ (cs <> [] -> lvq r = 1) /\ sgq r = sgq acc /\ f4free r = true /\
  map tok_key (flq r) = map tok_key (flq acc) ++ concat (map (fun c => kf s_OR :: map kf (lexemes c)) cs) /\
  qops_or r = qops_or acc ++ concat (map (fun c => qops_or (qsyn c)) cs).
Proof.
  induction cs as [|c cs IH]; intros acc HF Wa La Fa; simpl.
  - rewrite !app_nil_r. repeat split; auto. congruence.
  - inversion HF as [|? ? [[Q1 [Q2 [Q3 [Q4 [Q5 Q6]]]]] Lc] HF']; subst.
    assert (Ho : tk_type (mk s_OR) = T_OR_OP) by (vm_compute; reflexivity).
    destruct (aor_facts acc (mk s_OR) Ho Wa La (qsyn c) Q1 ltac:(lia)) as [A1 [A2 [A3 [A4 A5]]]].
    destruct (IH (aor acc (mk s_OR) (qsyn c)) HF' A1 ltac:(lia) ltac:(rewrite A4, Fa, Q4; reflexivity))
      as [R1 [R2 [R3 [R4 [R5 R6]]]]].
    fold s_OR. split; [exact R1|]. split.
    { intros _. destruct cs as [|c2 cs2]; [exact A2|apply R2; discriminate]. }
    split; [rewrite R3; exact A3|]. split; [exact R4|]. split.
    + rewrite R5, flq_aor, map_app. simpl. rewrite key_mk, Q5, <- app_assoc. reflexivity.
    + rewrite R6, A5, <- app_assoc. reflexivity.
Qed.

Lemma fold_j_facts : forall cs prev acc,
  Forall (fun c => QF c /\ 1 <= lvi c) cs -> wfs acc = true -> f4free acc = true ->
  lvq (lastj acc) = lvi prev -> jx_ok (prev :: cs) = true ->
  let r := qfold qsyn KUnknown acc cs in
  wfs r = true /\ (cs <> [] -> lvq r = 0) /\ sgq r = sgq acc /\ f4free r = true /\
  map tok_key (flq r) = map tok_key (flq acc) ++ concat (map (fun c => map kf (lexemes c)) cs) /\
  qops_j r = qops_j acc ++ map (fun c => valq (qsyn c)) cs.
Proof.
  induction cs as [|c cs IH]; intros prev acc HF Wa Fa Hl Hj; simpl.
  - rewrite !app_nil_r. repeat split; auto. congruence.
  - inversion HF as [|? ? [[Q1 [Q2 [Q3 [Q4 [Q5 Q6]]]]] Lc] HF']; subst.
    simpl in Hj. apply andb_true_iff in Hj. destruct Hj as [Hj1 Hj2].
    assert (W' : wfs (QJuxt acc (qsyn c)) = true).
    { cbn [wfs]. rewrite Wa, Q1, Q2. apply Nat.leb_le in Lc. rewrite Lc. reflexivity. }
    assert (F' : f4free (QJuxt acc (qsyn c)) = true).
    { cbn [f4free]. rewrite Fa, Q4, Q3, Hl. exact Hj1. }
    destruct (IH c (QJuxt acc (qsyn c)) HF' W' F' Q2 Hj2) as [R1 [R2 [R3 [R4 [R5 R6]]]]].
    split; [exact R1|]. split.
    { intros _. destruct cs as [|c2 cs2]; [reflexivity|apply R2; discriminate]. }
    split; [rewrite R3; reflexivity|]. split; [exact R4|]. split.
    + rewrite R5. simpl. rewrite map_app, Q5, <- app_assoc. reflexivity.
    + rewrite R6. unfold qops_j at 1. simpl. rewrite <- app_assoc. reflexivity.
Qed.

(* ---- small facts *)
Lemma gsh_unfold lv t : gsh lv t = true -> lv <= lvi t.
Proof.
  destruct t; cbn [gsh]; intros H; apply andb_true_iff in H; destruct H as [H _]; apply Nat.leb_le in H; exact H.
Qed.
Lemma lvi_le4 : forall t, lvi t <= 4.
Proof.
  induction t using item_ind'; simpl; try lia.
  destruct ops as [|c [|c1 r]]; [destruct k; lia| |destruct k; lia].
  inversion H; subst. assumption.
Qed.

Lemma ltype_tilde ds : ltype (c_tilde :: ds) = T_APPROX.
Proof.
  unfold ltype.
  assert (E : lex_one [] (c_tilde :: ds) =
              let '(l, r) := span_while is_numchar ds [] in Some (RTok T_APPROX, c_tilde :: l, r)) by reflexivity.
  rewrite E. destruct (span_while is_numchar ds []). reflexivity.
Qed.
Lemma ltype_caret ds : ltype (c_caret :: ds) = T_BOOST.
Proof.
  unfold ltype.
  assert (E : lex_one [] (c_caret :: ds) =
              let '(l, r) := span_while is_numchar ds [] in Some (RTok T_BOOST, c_caret :: l, r)) by reflexivity.
  rewrite E. destruct (span_while is_numchar ds []). reflexivity.
Qed.

Lemma fs_fieldgroup d v cx y : fs d v cx (fieldgroup y) = fs d v cx y.
Proof. destruct y; try reflexivity. destruct k; reflexivity. Qed.

(* a tree accepted by gsh, or a field group over one (only met directly under a field) *)
Definition gsg (lv : nat) (x : item) : bool :=
  gsh lv x || match x with Grp KFieldGroup _ e => gsh 0 e | _ => false end.

Lemma field_expr_ok e :
  match e with Grp KFieldGroup _ x => gsh 0 x | Grp KGroup _ _ => false | _ => gsh 3 e end = true ->
  gsg 3 e = true /\ 3 <= lvi e.
Proof.
  unfold gsg. destruct e as [| |[]| | | | | | | |]; intros H; try discriminate;
    try (split; [rewrite H; reflexivity|apply (gsh_unfold _ _ H)]).
  split; [rewrite H; apply orb_true_r|simpl; lia].
Qed.

(* the atoms: a word / phrase value standing where the grammar wants a TERM / PHRASE *)
Lemma val_term_facts a : val_term a = true ->
  exists k m v, a = Term k m v /\ is_value_tok (ltype v) = true /\ lexemes a = [v] /\
                fingerprint (atom_item (mk v)) = fingerprint a.
Proof.
  destruct a as [k m v| | | | | | | | | |]; try discriminate. destruct k; try discriminate;
    simpl; intros H; apply tok_eqb_eq in H; eexists; exists m, v;
    (split; [reflexivity|]); (split; [rewrite H; reflexivity|]); (split; [reflexivity|]);
    unfold atom_item; simpl tk_type; rewrite H; reflexivity.
Qed.

Lemma bq_facts b : bound_sh b = true ->
  wfbnd (bq b) = true /\ map tok_key (flb (bq b)) = map kf (lexemes b) /\
  fingerprint (bval (bq b)) = fingerprint b.
Proof.
  destruct b as [k m v| | | | | | | |[] m a| |]; try discriminate; intros H.
  - change (val_term (Term k m v) = true) in H. destruct (val_term_facts _ H) as [k' [m' [v' [E [Hv [Hl Hf]]]]]]. inversion E; subst.
    simpl. rewrite Hv. split; [reflexivity|]. split; [reflexivity|exact Hf].
  - change (val_term a = true) in H. destruct (val_term_facts _ H) as [k' [m' [v' [E [Hv [Hl Hf]]]]]]. subst a.
    simpl. rewrite Hv. split; [reflexivity|]. split; [reflexivity|]. simpl in Hf. rewrite Hf. reflexivity.
Qed.

Ltac qf_split := unfold QF; split; [|split; [|split; [|split; [|split]]]].

Lemma ops_QF lvk ops : Forall (fun x => forall lv, gsg lv x = true -> QF x) ops ->
  forallb (gsh lvk) ops = true -> Forall (fun c => QF c /\ lvk <= lvi c) ops.
Proof.
  induction 1 as [|c l Hc _ IH]; simpl; intros H; [constructor|].
  apply andb_true_iff in H. destruct H as [H1 H2]. constructor; [|apply IH; exact H2].
  split; [apply (Hc lvk); unfold gsg; rewrite H1; reflexivity|apply (gsh_unfold _ _ H1)].
Qed.

Lemma and_ops_sem d v cx c : QF c -> forallb (fs d v cx) (qops_and (qsyn c)) = fs d v cx c.
Proof. intros [_ [_ [_ [_ [_ Q6]]]]]. rewrite <- (fs_nary_and d v cx _ (qops_and_ne _)), qval_and. apply Q6. Qed.
Lemma or_ops_sem d v cx c : QF c -> existsb (fs d v cx) (qops_or (qsyn c)) = fs d v cx c.
Proof. intros [_ [_ [_ [_ [_ Q6]]]]]. rewrite <- (fs_nary_or d v cx _ (qops_or_ne _)), qval_or. apply Q6. Qed.

Lemma forallb_ext_F {A} (f g : A -> bool) l : Forall (fun x => f x = g x) l -> forallb f l = forallb g l.
Proof. induction 1 as [|x l Hx _ IH]; simpl; [reflexivity|]. rewrite Hx, IH. reflexivity. Qed.
Lemma existsb_ext_F {A} (f g : A -> bool) l : Forall (fun x => f x = g x) l -> existsb f l = existsb g l.
Proof. induction 1 as [|x l Hx _ IH]; simpl; [reflexivity|]. rewrite Hx, IH. reflexivity. Qed.

Lemma joinl_keys o : forall ls l0,
  map kf (joinl [o] (l0 :: ls)) = map kf l0 ++ concat (map (fun l => kf o :: map kf l) ls).
Proof.
  induction ls as [|l1 ls IH]; intros l0; [simpl; rewrite app_nil_r; reflexivity|].
  change (joinl [o] (l0 :: l1 :: ls)) with (l0 ++ [o] ++ joinl [o] (l1 :: ls)).
  rewrite !map_app, IH. reflexivity.
Qed.
Lemma joinl_nil {A} : forall l : list (list A), joinl [] l = concat l.
Proof.
  induction l as [|x l IH]; [reflexivity|]. destruct l as [|y l]; [simpl; rewrite app_nil_r; reflexivity|].
  change (joinl [] (x :: y :: l)) with (x ++ [] ++ joinl [] (y :: l)). rewrite IH. reflexivity.
Qed.
Lemma lastj_id p : 1 <= lvq p -> lastj p = p.
Proof. destruct p; simpl; intros H; try reflexivity. lia. Qed.

Theorem QF_all : forall x lv, gsg lv x = true -> QF x.
Proof.
  induction x using item_ind'; intros lv G; unfold gsg in G.
  - (* Term *)
    rewrite orb_false_r in G. cbn [gsh] in G. apply andb_true_iff in G. destruct G as [_ G].
    destruct k; unfold QF; cbn [qsyn].
    + destruct (str_eqb v s_TO) eqn:Eto.
      * apply str_eqb_eq in Eto. subst v. qf_split; reflexivity.
      * simpl in G. apply tok_eqb_eq in G. qf_split; try reflexivity.
        -- cbn [wfs]. simpl tk_type. rewrite G. reflexivity.
        -- simpl. rewrite Eto. reflexivity.
        -- intros d v0 cx. unfold valq. simpl. unfold atom_item. simpl tk_type. rewrite G. reflexivity.
    + apply tok_eqb_eq in G. qf_split; try reflexivity.
      * cbn [wfs]. simpl tk_type. rewrite G. reflexivity.
      * intros d v0 cx. unfold valq. simpl. unfold atom_item. simpl tk_type. rewrite G. reflexivity.
    + apply tok_eqb_eq in G. qf_split; try reflexivity.
      * cbn [wfs]. simpl tk_type. rewrite G. reflexivity.
      * intros d v0 cx. unfold valq. simpl. unfold atom_item. simpl tk_type. rewrite G. reflexivity.
  - (* SearchField *)
    rewrite orb_false_r in G. cbn [gsh] in G. apply andb_true_iff in G. destruct G as [_ G].
    apply andb_true_iff in G. destruct G as [Gn Ge]. apply tok_eqb_eq in Gn.
    destruct (field_expr_ok _ Ge) as [Gg Le].
    destruct (IHx 3 Gg) as [Q1 [Q2 [Q3 [Q4 [Q5 Q6]]]]]. unfold QF; cbn [qsyn]. qf_split; try reflexivity.
    + cbn [wfs]. simpl tk_type. rewrite Gn, Q1, Q2. apply Nat.leb_le in Le. rewrite Le. reflexivity.
    + exact Q4.
    + simpl. rewrite Q5. reflexivity.
    + intros d v cx. unfold valq. simpl. fold (valq (qsyn x)).
      change (fs d v cx (SearchField meta0 n (fieldgroup (valq (qsyn x))))) with
        (fs d v (cx ++ [CxField n]) (fieldgroup (valq (qsyn x)))).
      rewrite fs_fieldgroup, Q6. reflexivity.
  - (* Grp *)
    assert (Ge : gsh 0 x = true).
    { destruct k; cbn [gsh] in G.
      - rewrite orb_false_r in G. apply andb_true_iff in G. apply G.
      - rewrite andb_false_r in G. exact G. }
    assert (Gg : gsg 0 x = true) by (unfold gsg; rewrite Ge; reflexivity).
    destruct (IHx 0 Gg) as [Q1 [Q2 [Q3 [Q4 [Q5 Q6]]]]]. unfold QF; cbn [qsyn]. qf_split; try reflexivity.
    + cbn [wfs]. rewrite Q1. reflexivity.
    + exact Q4.
    + simpl. rewrite !map_app, Q5. reflexivity.
    + intros d v cx. unfold valq. simpl. fold (valq (qsyn x)).
      change (fs d v cx (Grp KGroup meta0 (valq (qsyn x)))) with (fs d v cx (valq (qsyn x))).
      rewrite Q6. reflexivity.
  - (* Range *)
    rewrite orb_false_r in G. cbn [gsh] in G. apply andb_true_iff in G. destruct G as [_ G].
    apply andb_true_iff in G. destruct G as [G1 G2].
    destruct (bq_facts _ G1) as [A1 [A2 A3]]. destruct (bq_facts _ G2) as [B1 [B2 B3]].
    unfold QF; cbn [qsyn]. qf_split; try reflexivity.
    + cbn [wfs]. rewrite A1, B1. destruct il, ih; reflexivity.
    + simpl. rewrite !map_app. simpl. rewrite !map_app, A2, B2. reflexivity.
    + intros d v cx. unfold valq. simpl. unfold range_item, fs. simpl. rewrite A3, B3.
      destruct il, ih; reflexivity.
  - (* Fuzzy *)
    rewrite orb_false_r in G. cbn [gsh] in G. apply andb_true_iff in G. destruct G as [_ G].
    apply andb_true_iff in G. destruct G as [Gx Gd].
    destruct x as [[] mx vx| | | | | | | | | |]; try discriminate. apply tok_eqb_eq in Gx.
    unfold QF; cbn [qsyn tmv]. qf_split; try reflexivity.
    + cbn [wfs]. simpl tk_type. rewrite ltype_tilde, Gx. unfold dec_ok. simpl tk_lexeme. unfold degree_of. simpl tl.
      destruct i; [reflexivity|]. destruct (deg_ok_inv _ Gd) as [_ [Hne [y [Hy _]]]].
      destruct (dec_to_fstr d); [congruence|]. rewrite Hy. reflexivity.
    + intros dd v cx. unfold valq. simpl. unfold approx_item. simpl tk_type. rewrite Gx. simpl tk_lexeme.
      unfold degree_of. simpl tl. destruct i.
      * apply dec_struct_eqb_iff in Gd. subst d. reflexivity.
      * destruct (deg_ok_inv _ Gd) as [_ [Hne [y [Hy Hn]]]].
        destruct (dec_to_fstr d) eqn:Ed; [congruence|]. rewrite Hy, Hn. reflexivity.
  - (* Proximity *)
    rewrite orb_false_r in G. cbn [gsh] in G. apply andb_true_iff in G. destruct G as [_ G].
    apply andb_true_iff in G. destruct G as [Gx Gd].
    destruct x as [[] mx vx| | | | | | | | | |]; try discriminate. apply tok_eqb_eq in Gx.
    unfold QF; cbn [qsyn tmv]. qf_split; try reflexivity.
    + cbn [wfs]. simpl tk_type. rewrite ltype_tilde, Gx. unfold int_ok. simpl tk_lexeme. unfold degree_of. simpl tl.
      destruct i; [reflexivity|]. destruct (prox_ok_inv _ Gd) as [_ [Hne Hy]].
      destruct (Z_to_str d); [congruence|]. rewrite Hy. reflexivity.
    + intros dd v cx. unfold valq. simpl. unfold approx_item. simpl tk_type. rewrite Gx. simpl tk_lexeme.
      unfold degree_of. simpl tl. destruct i.
      * apply Z.eqb_eq in Gd. subst d. reflexivity.
      * destruct (prox_ok_inv _ Gd) as [_ [Hne Hy]].
        destruct (Z_to_str d) eqn:Ed; [congruence|]. rewrite Hy. reflexivity.
  - (* Boost *)
    rewrite orb_false_r in G. cbn [gsh] in G. apply andb_true_iff in G. destruct G as [_ G].
    apply andb_true_iff in G. destruct G as [Ge Gd].
    assert (Gg : gsg 4 x = true) by (unfold gsg; rewrite Ge; reflexivity).
    destruct (IHx 4 Gg) as [Q1 [Q2 [Q3 [Q4 [Q5 Q6]]]]].
    pose proof (gsh_unfold _ _ Ge) as L4. pose proof (lvi_le4 x) as L4'.
    unfold QF; cbn [qsyn]. qf_split; try reflexivity.
    + cbn [wfs]. simpl tk_type. rewrite ltype_caret, Q1, Q2. replace (lvi x) with 4 by lia.
      unfold dec_ok. simpl tk_lexeme. unfold degree_of. simpl tl.
      destruct i; [reflexivity|]. destruct (deg_ok_inv _ Gd) as [_ [Hne [y [Hy _]]]].
      destruct (dec_to_fstr f); [congruence|]. rewrite Hy. reflexivity.
    + exact Q3.
    + exact Q4.
    + simpl. rewrite !map_app, Q5. reflexivity.
    + intros dd v cx. unfold valq. simpl. fold (valq (qsyn x)). unfold boost_item. simpl tk_lexeme.
      unfold degree_of. simpl tl. destruct i.
      * apply dec_struct_eqb_iff in Gd. subst f.
        change (fs dd v cx (Boost meta0 (valq (qsyn x)) dec_one true)) with
          (fs dd v (cx ++ [CxBoost (dec_canon dec_one)]) (valq (qsyn x))).
        rewrite Q6. reflexivity.
      * destruct (deg_ok_inv _ Gd) as [_ [Hne [y [Hy Hn]]]].
        destruct (dec_to_fstr f) eqn:Ed; [congruence|]. rewrite Hy, Hn.
        change (fs dd v cx (Boost meta0 (valq (qsyn x)) f false)) with
          (fs dd v (cx ++ [CxBoost (dec_canon f)]) (valq (qsyn x))).
        rewrite Q6. reflexivity.
  - (* Op *)
    rewrite orb_false_r in G.
    assert (Hone : forall c, ops = [c] -> gsh lv c = true -> k <> KBool -> QF (Op k m [c])).
    { intros c -> Gc Hk. inversion H as [|? ? Hc _]; subst.
      assert (Gg : gsg lv c = true) by (unfold gsg; rewrite Gc; reflexivity).
      destruct (Hc lv Gg) as [Q1 [Q2 [Q3 [Q4 [Q5 Q6]]]]].
      unfold QF. cbn [qsyn qfold]. qf_split; try assumption.
      intros d v cx. rewrite Q6. destruct k; [rewrite fs_and|rewrite fs_or|rewrite fs_j|congruence]; simpl;
          rewrite ?andb_true_r, ?orb_false_r; [reflexivity|reflexivity|destruct d; reflexivity]. }
    destruct ops as [|c0 [|c1 r]].
    { cbn [gsh] in G. apply andb_true_iff in G. destruct G as [_ G]. destruct k; discriminate G. }
    { cbn [gsh] in G. apply andb_true_iff in G. destruct G as [_ G].
      destruct k; try discriminate G; apply (Hone c0 eq_refl G); discriminate. }
    clear Hone. cbn [gsh] in G. apply andb_true_iff in G. destruct G as [_ G].
    destruct k; [| | |discriminate G]; apply andb_true_iff in G; destruct G as [_ G].
    + (* AND *)
      rename G into Gc.
      pose proof (ops_QF 2 _ H Gc) as HF. inversion HF as [|? ? [Q0 L0] HF']; subst.
      pose proof Q0 as Q0'. destruct Q0 as [Q1 [Q2 [Q3 [Q4 [Q5 Q6]]]]].
      destruct (fold_and_facts (c1 :: r) (qsyn c0) HF' Q1 ltac:(lia) Q4) as [R1 [R2 [R3 [R4 [R5 R6]]]]].
      unfold QF. cbn [qsyn]. qf_split.
      * exact R1.
      * apply R2. discriminate.
      * rewrite R3. exact Q3.
      * exact R4.
      * rewrite R5, Q5. cbn [lexemes]. change (opsep KAnd) with [s_AND]. change (map lexemes (c0 :: c1 :: r)) with (lexemes c0 :: map lexemes (c1 :: r)). rewrite joinl_keys, map_map. reflexivity.
      * intros d v cx. rewrite <- qval_and, (fs_nary_and d v cx _ (qops_and_ne _)), R6, forallb_app, forallb_concat.
        rewrite fs_and. change (forallb (fs d v cx) (c0 :: c1 :: r)) with (fs d v cx c0 && forallb (fs d v cx) (c1 :: r)).
        rewrite (and_ops_sem d v cx c0 Q0'). f_equal.
        apply (forallb_ext_F _ _ (c1 :: r)). eapply Forall_impl; [|exact HF'].
        intros c [Qc _]. apply and_ops_sem. exact Qc.
    + (* OR *)
      rename G into Gc.
      pose proof (ops_QF 1 _ H Gc) as HF. inversion HF as [|? ? [Q0 L0] HF']; subst.
      pose proof Q0 as Q0'. destruct Q0 as [Q1 [Q2 [Q3 [Q4 [Q5 Q6]]]]].
      destruct (fold_or_facts (c1 :: r) (qsyn c0) HF' Q1 ltac:(lia) Q4) as [R1 [R2 [R3 [R4 [R5 R6]]]]].
      unfold QF. cbn [qsyn]. qf_split.
      * exact R1.
      * apply R2. discriminate.
      * rewrite R3. exact Q3.
      * exact R4.
      * rewrite R5, Q5. cbn [lexemes]. change (opsep KOr) with [s_OR]. change (map lexemes (c0 :: c1 :: r)) with (lexemes c0 :: map lexemes (c1 :: r)). rewrite joinl_keys, map_map. reflexivity.
      * intros d v cx. rewrite <- qval_or, (fs_nary_or d v cx _ (qops_or_ne _)), R6, existsb_app, existsb_concat.
        rewrite fs_or. change (existsb (fs d v cx) (c0 :: c1 :: r)) with (fs d v cx c0 || existsb (fs d v cx) (c1 :: r)).
        rewrite (or_ops_sem d v cx c0 Q0'). f_equal.
        apply (existsb_ext_F _ _ (c1 :: r)). eapply Forall_impl; [|exact HF'].
        intros c [Qc _]. apply or_ops_sem. exact Qc.
    + (* implicit *)
      apply andb_true_iff in G. destruct G as [Gc Gj].
      pose proof (ops_QF 1 _ H Gc) as HF. inversion HF as [|? ? [Q0 L0] HF']; subst.
      pose proof Q0 as Q0'. destruct Q0 as [Q1 [Q2 [Q3 [Q4 [Q5 Q6]]]]].
      assert (Hl : lvq (lastj (qsyn c0)) = lvi c0) by (rewrite lastj_id by lia; exact Q2).
      destruct (fold_j_facts (c1 :: r) c0 (qsyn c0) HF' Q1 Q4 Hl Gj) as [R1 [R2 [R3 [R4 [R5 R6]]]]].
      unfold QF. cbn [qsyn]. qf_split.
      * exact R1.
      * apply R2. discriminate.
      * rewrite R3. exact Q3.
      * exact R4.
      * rewrite R5, Q5. cbn [lexemes]. change (opsep KUnknown) with (@nil str). rewrite joinl_nil. change (map lexemes (c0 :: c1 :: r)) with (lexemes c0 :: map lexemes (c1 :: r)). cbn [concat].
        rewrite map_app, concat_map, map_map. reflexivity.
      * intros d v cx. rewrite <- qval_j, (fs_nary_j d v cx _ (qops_j_ne _)), R6.
        rewrite (qsingle_j (qsyn c0)) by (apply lvq_ge1_notj; lia). rewrite fs_j.
        change (forallb (fs d v cx) (c0 :: c1 :: r)) with (fs d v cx c0 && forallb (fs d v cx) (c1 :: r)).
        change (existsb (fs d v cx) (c0 :: c1 :: r)) with (fs d v cx c0 || existsb (fs d v cx) (c1 :: r)).
        change ([valq (qsyn c0)] ++ map (fun c => valq (qsyn c)) (c1 :: r)) with (valq (qsyn c0) :: map (fun c => valq (qsyn c)) (c1 :: r)).
        change (forallb (fs d v cx) (valq (qsyn c0) :: map (fun c => valq (qsyn c)) (c1 :: r))) with
          (fs d v cx (valq (qsyn c0)) && forallb (fs d v cx) (map (fun c => valq (qsyn c)) (c1 :: r))).
        change (existsb (fs d v cx) (valq (qsyn c0) :: map (fun c => valq (qsyn c)) (c1 :: r))) with
          (fs d v cx (valq (qsyn c0)) || existsb (fs d v cx) (map (fun c => valq (qsyn c)) (c1 :: r))).
        rewrite forallb_map', existsb_map', Q6.
        assert (E : Forall (fun c => fs d v cx (valq (qsyn c)) = fs d v cx c) (c1 :: r)).
        { eapply Forall_impl; [|exact HF']. intros c [[_ [_ [_ [_ [_ Qc]]]]] _]. apply Qc. }
        rewrite (forallb_ext_F _ _ _ E), (existsb_ext_F _ _ _ E). reflexivity.
  - (* Unary *)
    rewrite orb_false_r in G. cbn [gsh] in G. apply andb_true_iff in G. destruct G as [_ Ga].
    assert (Gg : gsg 3 x = true) by (unfold gsg; rewrite Ga; reflexivity).
    destruct (IHx 3 Gg) as [Q1 [Q2 [Q3 [Q4 [Q5 Q6]]]]].
    pose proof (gsh_unfold _ _ Ga) as L3. apply Nat.leb_le in L3.
    destruct k; unfold QF; cbn [qsyn]; qf_split; try reflexivity; try exact Q4;
      try (cbn [wfs]; rewrite Q1, Q2, L3; reflexivity);
      try (simpl; rewrite Q5; reflexivity).
    * intros d v cx. unfold valq. simpl. fold (valq (qsyn x)).
      change (fs d v cx (valq (qsyn x)) = fs d v cx x). apply Q6.
    * intros d v cx. unfold valq. simpl. fold (valq (qsyn x)).
      change (negb (fs d v cx (valq (qsyn x))) = negb (fs d v cx x)). rewrite Q6. reflexivity.
    * intros d v cx. unfold valq. simpl. fold (valq (qsyn x)).
      change (negb (fs d v cx (valq (qsyn x))) = negb (fs d v cx x)). rewrite Q6. reflexivity.
  - (* ORange *)
    rewrite orb_false_r in G. cbn [gsh] in G. apply andb_true_iff in G. destruct G as [_ Ga].
    destruct (val_term_facts _ Ga) as [k' [m' [v' [E [Hv [Hl Hf]]]]]]. subst x.
    unfold QF; cbn [qsyn tmv]. qf_split; try reflexivity.
    + cbn [wfs]. simpl tk_type. rewrite Hv. destruct k, i; reflexivity.
    + intros d v cx. unfold valq, fs. simpl. rewrite Hf. destruct k, i; reflexivity.
  - (* NoneItem *) rewrite orb_false_r in G. cbn [gsh] in G. rewrite andb_false_r in G. discriminate G.
Qed.

Corollary QF_gsh x lv : gsh lv x = true -> QF x.
Proof. intros H. apply (QF_all x lv). unfold gsg. rewrite H. reflexivity. Qed.

(* ================================================================ D. summary for props/C11r.v *)

(* the printed form of a tree inside the guard lexes to the yield of its syntax tree, is accepted by the parser
   (LR driver on the generated tables: GrammarMoreProofs.more_core_keys), and the tree returned is, up to layout,
   the value of the syntax tree, whose meaning is the tree's *)
Theorem regen_parse x : regen_ok x = true ->
  snd (lex (print true x)) = None /\
  map tok_key (fst (lex (print true x))) = map tok_key (flq (qsyn x)) /\
  wfs (qsyn x) = true /\ f4free (qsyn x) = true /\
  exists t2, parse (print true x) = Some (Ok t2) /\ Erase.erase t2 = valq (qsyn x) /\
             spec_parse (map tok_key (fst (lex (print true x)))) = Some (Erase.erase t2) /\
             forall d v, Meaning.sem d v t2 = Meaning.sem d v x.
Proof.
  unfold regen_ok, gshape. intros H. apply andb_true_iff in H. destruct H as [Hg Hs].
  destruct (QF_gsh _ _ Hg) as [Q1 [Q2 [Q3 [Q4 [Q5 Q6]]]]].
  destruct (scan_top_lex _ _ Hs) as [Hk He]. fold kf in Hk. rewrite <- Q5 in Hk.
  split; [exact He|]. split; [exact Hk|]. split; [exact Q1|]. split; [exact Q4|].
  unfold parse, parse_full, parse_with.
  destruct (lex (print true x)) as [toks e]. simpl in He, Hk. subst e.
  destruct (more_core_keys toks (match toks with [] => [GDrop (print true x)] | _ => [] end) (qsyn x) Q1 Q4 Hk)
    as [t [evs [Hr [Hsp Hv]]]].
  rewrite Hr. exists t. split; [reflexivity|]. split; [exact Hv|]. split; [exact Hsp|].
  intros d v. rewrite <- (sem_erase d v t), Hv. apply (Q6 d v []).
Qed.
