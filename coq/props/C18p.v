(* C18p — pretty-printing never changes the query: THE END-TO-END THEOREM under C01's guard.
   This file holds only statements, `exact`-closed theorems (short glue), non-vacuity examples and
   Print Assumptions.  Lemmas: proofs/BridgeProofs.v (the bridge parser -> token groups), on top of
   proofs/PrettyProofs.v (what the pretty text is), proofs/RespaceProofs.v (L-respace) and
   proofs/LayoutProofs.v (layout independence of the LR driver).

   Clauses of the property text                         statements here
     "pretty text is accepted and parses to an equal    C18_partial_statement      PROVED: for every parsed query
      tree, for every parsed query and setting"           without ghost event (C01's guard `parse_events s = []`,
                                                          which excludes F1) and without a newline in a chunk
                                                          (excludes F11), for EVERY setting.  Both guards are needed:
                                                          C18.C18_refuted (F11), C18.C18_plain_guard_refuted (F1).
                                                        C18_partial_lexemes_statement   PROVED, the same with the second guard
                                                          weakened to `no token of the query contains a newline`
                                                          (newlines in the LAYOUT, which the prettifier rewrites into
                                                          separators, are harmless): exactly the complement of the
                                                          known-finding predicate of F11 (a newline inside a phrase or
                                                          a regex - the only tokens that can contain one)
   The bridge itself
     C18_bridge_statement            PROVED (generated tables): the chunk sequence of a parsed tree without ghost event
                                     is, chunk by chunk, blanks ++ group_text g ++ blanks for consecutive non-empty
                                     groups g of the query's tokens
     C18_bridge_any_tables_statement PROVED for ANY LR tables (the per-action invariant never looks at the tables)
     C18_exact_groups_statement      REFUTED: the hypothesis of LrespaceC18.C18_from_token_groups
                                     (`chunk = group_text g` exactly) is FALSE for parsed queries without event:
                                     `NOT a  AND b` has the chunk `NOT a  ` (a simple element keeps the layout of its
                                     inner nodes, here the tail of `a`; ` a~` keeps the head of `a`).  This is not a
                                     defect of luqum — the pretty text is still a re-spacing — and it is why the bridge
                                     is stated with blanks around the group text and L-respace is re-proved with a
                                     blank trailer (L_respace_glued_trail_statement). *)
Require Import Base Decimal Tree GenTree GenParser Visitor Print Eq Lexer Actions LR Parser Erase Pretty Respace.
Require Import TreeInd LexerProofs ActionProofs LayoutProofs PrettyProofs RespaceProofs RespaceParse BridgeProofs.
Require Import C01 C18 Lrespace LrespaceC18.

(* ---- the end-to-end statement: C18.C18_statement with the two guards *)
Definition C18_partial_statement : Prop :=
  forall s t cfg, parse s = Some (Ok t) -> parse_events s = [] -> no_newline_in_chunks t = true ->
    exists p t', pretty cfg t = Some p /\ parse p = Some (Ok t') /\ item_eqb t' t = true.
Theorem C18_partial : C18_partial_statement.
Proof.
  intros s t cfg Hp Hne Hnl. destruct (pretty_total_parsed cfg s t Hp) as [p Hpr].
  destruct (pretty_round_trip s t cfg p Hp Hne Hnl Hpr) as [t' [H1 H2]]. exists p, t'. auto.
Qed.

(* ---- the second guard weakened: newlines may occur anywhere in the layout, only not inside a token *)
Definition C18_partial_lexemes_statement : Prop :=
  forall s t cfg, parse s = Some (Ok t) -> parse_events s = [] -> no_newline_in_lexemes s = true ->
    exists p t', pretty cfg t = Some p /\ parse p = Some (Ok t') /\ item_eqb t' t = true.
Theorem C18_partial_lexemes : C18_partial_lexemes_statement.
Proof.
  intros s t cfg Hp Hne Hnl. destruct (pretty_total_parsed cfg s t Hp) as [p Hpr].
  destruct (pretty_round_trip_lexemes s t cfg p Hp Hne Hnl Hpr) as [t' [H1 H2]]. exists p, t'. auto.
Qed.

(* ---- the bridge: chunks of a parsed tree = texts of token groups, between blanks *)
Definition C18_bridge_statement : Prop :=
  forall s t, parse s = Some (Ok t) -> parse_events s = [] ->
    exists groups, fst (lex s) = concat groups /\ Forall (fun g => g <> []) groups /\
      Forall2 (fun c g => exists h w, c = h ++ group_text g ++ w /\ all_space h = true /\ all_space w = true)
              (chunk_texts t) groups.
Theorem C18_bridge : C18_bridge_statement.
Proof. exact parsed_chunks_token_groups. Qed.

(* ... for any tables, with the exact pieces: h is the end of the group's first head, w the start of its
   last tail *)
Definition C18_bridge_any_tables_statement : Prop :=
  forall tb s t evs, parse_with tb s = Done (Ok t) evs -> all_trivial evs -> snd (lex s) = None ->
    exists groups, concat groups = fst (lex s) /\ Forall (fun g => g <> []) groups /\
      Forall2 (fun c g => exists h h' w w', c = h ++ group_text g ++ w /\ h' ++ h = fhead g /\ w ++ w' = ltail g)
              (chunk_texts t) groups.
Theorem C18_bridge_any_tables : C18_bridge_any_tables_statement.
Proof. exact parse_with_groups. Qed.

(* ---- L-respace, chunked form, with a blank trailer (Lrespace.L_respace_glued has none) *)
Definition L_respace_glued_trail_statement : Prop :=
  forall s toks groups h p' w, lex s = (toks, None) -> toks <> [] ->
    toks = concat groups -> Forall (fun g => g <> []) groups ->
    all_space h = true -> all_space w = true -> wglued (map group_text groups) p' ->
    map tok_key (fst (lex (h ++ p' ++ w))) = map tok_key toks /\ snd (lex (h ++ p' ++ w)) = None.
Theorem L_respace_glued_trail_thm : L_respace_glued_trail_statement.
Proof. exact L_respace_glued_trail. Qed.

(* ---- the exact form (no blanks around the group text) is false for parsed queries *)
Definition C18_exact_groups_statement : Prop :=
  forall s t, parse s = Some (Ok t) -> parse_events s = [] -> chunks_are_token_groups s t.

Definition q_trail : str := [78;79;84;32;97;32;32;65;78;68;32;98]%N.          (* NOT a  AND b *)
Definition q_trail_tree : item :=
  Eval vm_compute in match parse q_trail with Some (Ok t) => t | _ => NoneItem meta0 end.
Example q_trail_facts :
  parse q_trail = Some (Ok q_trail_tree) /\ parse_events q_trail = [] /\
  chunk_texts q_trail_tree = [[78;79;84;32;97;32;32]; [65;78;68]; [98]]%N /\       (* `NOT a  `, `AND`, `b` *)
  map (fun t => (tk_lexeme t, tk_tail t)) (fst (lex q_trail)) =
    [([78;79;84], [32]); ([97], [32;32]); ([65;78;68], [32]); ([98], [])]%N.
Proof. vm_compute. auto. Qed.

Definition q_trail_toks : list token := Eval vm_compute in fst (lex q_trail).
Lemma q_trail_lex : fst (lex q_trail) = q_trail_toks.
Proof. vm_compute. reflexivity. Qed.

Theorem C18_exact_groups_refuted : ~ C18_exact_groups_statement.
Proof.
  destruct q_trail_facts as [H1 [H2 [H3 _]]]. intros H.
  destruct (H q_trail q_trail_tree H1 H2) as [groups [Hcat [_ Hc]]]. rewrite H3 in Hc. rewrite q_trail_lex in Hcat.
  unfold q_trail_toks in Hcat. clear H H1 H2 H3.
  destruct groups as [|g1 [|g2 [|g3 [|g4 gs]]]]; try discriminate Hc. simpl in Hc. injection Hc as Hc1 _ _.
  destruct g1 as [|a [|b [|c [|d [|e g1]]]]]; simpl in Hcat; inversion Hcat; subst; simpl in Hc1; discriminate Hc1.
Qed.

(* ---- non-vacuity *)
(* ` a~  AND (NOT b  OR f:c) `: a leading blank inside the first chunk, trailing blanks inside the NOT chunk, a
   group, a field, two operators, blanks at both ends.  It satisfies both guards; with max_len = 5 the output
   has 7 lines; the theorem gives the round trip, which also computes. *)
Definition ex_query : str :=
  [32;97;126;32;32;65;78;68;32;40;78;79;84;32;98;32;32;79;82;32;102;58;99;41;32]%N.
Definition ex_tree : item :=
  Eval vm_compute in match parse ex_query with Some (Ok t) => t | _ => NoneItem meta0 end.
Definition ex_cfg : pcfg := mkPcfg 2 5 false.
Definition ex_multi : str :=
  Eval vm_compute in match pretty ex_cfg ex_tree with Some p => p | None => [] end.
Example C18p_ex_in_class :
  parse ex_query = Some (Ok ex_tree) /\ parse_events ex_query = [] /\ no_newline_in_chunks ex_tree = true /\
  chunk_texts ex_tree = [[32;97;126]; [65;78;68]; [40]; [78;79;84;32;98;32;32]; [79;82]; [102;58]; [99]; [41]]%N.
Proof. vm_compute. auto. Qed.
Example C18p_ex_multi_line :
  pretty ex_cfg ex_tree = Some ex_multi /\
  ex_multi = [32;97;126;10; 65;78;68;10; 40;10; 32;32;78;79;84;32;98;32;32;10; 32;32;79;82;10; 32;32;102;58;32;99;10; 41]%N /\
  length (split_nl ex_multi) = 7.
Proof. vm_compute. auto. Qed.
Example C18p_ex_round_trip : forall cfg,
  exists p t', pretty cfg ex_tree = Some p /\ parse p = Some (Ok t') /\ item_eqb t' ex_tree = true.
Proof.
  intros cfg. destruct C18p_ex_in_class as [H1 [H2 [H3 _]]]. exact (C18_partial ex_query ex_tree cfg H1 H2 H3).
Qed.
Example C18p_ex_round_trip_computes :
  match parse ex_multi with Some (Ok t') => item_eqb t' ex_tree | _ => false end = true.
Proof. vm_compute. reflexivity. Qed.
(* the groups the bridge finds for it have sizes 2,1,1,2,1,2,1,1; the exact form fails on it too *)
Example C18p_ex_groups :
  let groups := cut [2;1;1;2;1;2;1;1] (fst (lex ex_query)) in
  fst (lex ex_query) = concat groups /\
  map group_text groups = [[97;126]; [65;78;68]; [40]; [78;79;84;32;98]; [79;82]; [102;58]; [99]; [41]]%N.
Proof. vm_compute. auto. Qed.

(* newlines in the layout only: `NOT<NL>a AND [b<NL>TO c]` has the chunks `NOT<NL>a ` and `[b<NL>TO c]` (outside the
   guard of C18_partial) but no newline inside a token: C18_partial_lexemes applies; the prettifier rewrites the two
   newlines *)
Definition ex_nl_query : str := [78;79;84;10;97;32;65;78;68;32;91;98;10;84;79;32;99;93]%N.
Definition ex_nl_tree : item :=
  Eval vm_compute in match parse ex_nl_query with Some (Ok t) => t | _ => NoneItem meta0 end.
Example C18p_ex_layout_newlines :
  parse ex_nl_query = Some (Ok ex_nl_tree) /\ parse_events ex_nl_query = [] /\
  no_newline_in_lexemes ex_nl_query = true /\ no_newline_in_chunks ex_nl_tree = false /\
  pretty (mkPcfg 4 80 false) ex_nl_tree = Some [78;79;84;32;97;32;32;65;78;68;32;91;98;32;84;79;32;99;93]%N.
Proof. vm_compute. auto. Qed.
Example C18p_ex_layout_newlines_round_trip : forall cfg,
  exists p t', pretty cfg ex_nl_tree = Some p /\ parse p = Some (Ok t') /\ item_eqb t' ex_nl_tree = true.
Proof.
  intros cfg. destruct C18p_ex_layout_newlines as [H1 [H2 [H3 _]]].
  exact (C18_partial_lexemes ex_nl_query ex_nl_tree cfg H1 H2 H3).
Qed.

(* the guards exclude exactly the two witnesses of C18.v: F1 (`-xT12 :30`) has a ghost event, F11 (a newline in
   a phrase) has a newline in a chunk *)
Example C18p_guards_exclude_witnesses :
  parse_events wit2 = [GDrop [32]%N] /\ no_newline_in_chunks wit_tree = false /\ parse_events wit = [] /\
  no_newline_in_lexemes wit = false.
Proof. vm_compute. auto. Qed.

(* the per-action lemma and the driver invariant behind the bridge: BridgeProofs.run_action_blink,
   BridgeProofs.parse_with_linked *)

Print Assumptions C18_partial.
Print Assumptions C18_partial_lexemes.
Print Assumptions C18_bridge.
Print Assumptions C18_bridge_any_tables.
Print Assumptions L_respace_glued_trail_thm.
Print Assumptions C18_exact_groups_refuted.
Print Assumptions C18p_ex_round_trip.
