(* EsSemProofs.v — lemmas relating the Elasticsearch query builder model (EsBuild.v) to the reference
   semantics (EsSem.v).  Used by props/C05.v. *)
Require Import Base Decimal Tree GenTree GenVisitors GenChars GenEs Visitor Json EsSpecs EsCheck EsBuild EsSpec
               EsSem TreeInd EsProofs.
From Coq Require Import Lia.

(* ---------------------------------------------------------------- outcomes *)
Definition documented_inconsistency (e : es_exc) : Prop := e = XNested \/ e = XObject \/ e = XMix.

(* on supported trees the builder raises nothing but the three documented exceptions *)
Lemma build_exc_documented cfg t e :
  supported t = true -> wf_config cfg = true -> build cfg t = RExc e -> documented_inconsistency e.
Proof.
  intros Hs Hwf Hb. pose proof (build_spec cfg t Hs Hwf) as H.
  destruct (check_nested (ev_chk (mk_env cfg)) t) as [e'|] eqn:Hc.
  - rewrite H in Hb. inversion Hb; subst. apply chk_go_kind in Hc. destruct Hc; subst; red; auto.
  - destruct (mixb cfg t).
    + rewrite H in Hb. inversion Hb; subst. red; auto.
    + destruct H as [j Hj]. rewrite Hj in Hb. discriminate.
Qed.

(* ================================================================ A. leaves that differ in boost / name / ztq *)
Section Strip.
  Variable K : str -> bool.
  Definition stripK (o : jobj) : jobj := filter (fun kv => negb (K (fst kv))) o.

  Lemma stripK_set_sem k v o : K k = true -> stripK (obj_set k v o) = stripK o.
  Proof.
    intros Hk. induction o as [|[k' v'] o IH]; simpl.
    - rewrite Hk. reflexivity.
    - destruct (str_eqb k k') eqn:He; simpl.
      + apply str_eqb_eq in He. subst k'. rewrite Hk. reflexivity.
      + rewrite IH. reflexivity.
  Qed.

  Lemma stripK_set_other k v o o' :
    K k = false -> stripK o = stripK o' -> stripK (obj_set k v o) = stripK (obj_set k v o').
  Proof.
    intros Hk. revert o'. induction o as [|[k1 v1] o IH]; intros o' H.
    - induction o' as [|[k2 v2] o' IH']; [reflexivity|].
      simpl in H. destruct (K k2) eqn:H2; simpl in H; [|discriminate].
      simpl. destruct (str_eqb k k2) eqn:He.
      + apply str_eqb_eq in He. subst. congruence.
      + simpl. rewrite H2. simpl. apply IH'. exact H.
    - simpl in H. destruct (K k1) eqn:H1; simpl in H.
      + simpl. destruct (str_eqb k k1) eqn:He.
        * apply str_eqb_eq in He. subst. congruence.
        * simpl. rewrite H1. simpl. apply IH. exact H.
      + induction o' as [|[k2 v2] o' IH']; [discriminate|].
        simpl in H. destruct (K k2) eqn:H2; simpl in H.
        * simpl (obj_set k v ((k2, v2) :: o')). destruct (str_eqb k k2) eqn:He.
          { apply str_eqb_eq in He. subst. congruence. }
          simpl. rewrite H2. simpl. apply IH'. exact H.
        * inversion H; subst k2 v2. simpl. destruct (str_eqb k k1) eqn:He; simpl; rewrite H1; simpl.
          { f_equal. assumption. }
          { f_equal. apply IH. assumption. }
  Qed.

  Lemma obj_get_stripK k (o : jobj) : K k = false -> obj_get k (stripK o) = obj_get k o.
  Proof.
    intros Hk. induction o as [|[k' v'] o IH]; simpl; [reflexivity|].
    destruct (K k') eqn:H1; simpl.
    - destruct (str_eqb k k') eqn:He; [|exact IH].
      apply str_eqb_eq in He. subst. congruence.
    - destruct (str_eqb k k'); [reflexivity|exact IH].
  Qed.

  Lemma obj_get_stripK_eq k (o o' : jobj) :
    K k = false -> stripK o = stripK o' -> obj_get k o = obj_get k o'.
  Proof. intros Hk H. rewrite <- (obj_get_stripK k o Hk), <- (obj_get_stripK k o' Hk), H. reflexivity. Qed.
End Strip.

Definition sem_key (k : str) : bool := mem_str k not_semantics.
Lemma strip_opts_K o : strip_opts o = stripK sem_key o.
Proof. reflexivity. Qed.
Definition leaf_sim (l l' : leaf) : Prop :=
  l_kind l = l_kind l' /\ l_method l = l_method l' /\ l_fields l = l_fields l' /\ l_q l = l_q l' /\
  l_bounds l = l_bounds l' /\ l_fuzzy l = l_fuzzy l' /\ l_slop l = l_slop l' /\
  l_addkeys l = l_addkeys l'.

Lemma leaf_sim_refl l : leaf_sim l l.
Proof. repeat split. Qed.

Lemma leaf_sim_trans a b c : leaf_sim a b -> leaf_sim b c -> leaf_sim a c.
Proof. unfold leaf_sim. intuition congruence. Qed.

Lemma leaf_sim_sym a b : leaf_sim a b -> leaf_sim b a.
Proof. unfold leaf_sim. intuition congruence. Qed.

Lemma add_key_sim l l' m a b key :
  leaf_sim l l' -> stripK sem_key a = stripK sem_key b ->
  stripK sem_key (add_key l m a key) = stripK sem_key (add_key l' m b key).
Proof.
  intros (Hk & Hm & Hf & Hq & Hb & Hfz & Hs & Ha) H.
  destruct (str_eqb key k_boost) eqn:E1.
  { apply str_eqb_eq in E1. subst key. unfold add_key.
    change (leaf_attr l k_boost) with (option_map JNum (l_boost l)).
    change (leaf_attr l' k_boost) with (option_map JNum (l_boost l')).
    change (str_eqb k_boost k_q) with false. cbv iota.
    destruct (l_boost l) as [x|], (l_boost l') as [y|]; simpl option_map; cbv iota;
      try rewrite (stripK_set_sem sem_key k_boost (JNum x) a eq_refl);
      try rewrite (stripK_set_sem sem_key k_boost (JNum y) b eq_refl); exact H. }
  destruct (str_eqb key k_name) eqn:E2.
  { apply str_eqb_eq in E2. subst key. unfold add_key.
    change (leaf_attr l k_name) with (option_map JStr (l_name l)).
    change (leaf_attr l' k_name) with (option_map JStr (l_name l')).
    change (str_eqb k_name k_q) with false. cbv iota.
    destruct (l_name l) as [x|], (l_name l') as [y|]; simpl option_map; cbv iota;
      try rewrite (stripK_set_sem sem_key k_name (JStr x) a eq_refl);
      try rewrite (stripK_set_sem sem_key k_name (JStr y) b eq_refl); exact H. }
  assert (Hattr : leaf_attr l key = leaf_attr l' key).
  { unfold leaf_attr. rewrite E1, E2, Hfz, Hq, Hs, Hb. reflexivity. }
  unfold add_key. rewrite <- Hattr. destruct (leaf_attr l key) as [v|]; [|exact H].
  assert (Hlf : leaf_field l = leaf_field l') by (unfold leaf_field; rewrite Hf; reflexivity).
  destruct (str_eqb key k_q).
  - destruct (contains k_match m).
    + destruct (str_eqb m k_match).
      * rewrite (stripK_set_sem sem_key k_zero_terms_query (JStr (l_ztq l)) _ eq_refl),
                (stripK_set_sem sem_key k_zero_terms_query (JStr (l_ztq l')) _ eq_refl).
        apply stripK_set_other; [reflexivity|exact H].
      * apply stripK_set_other; [reflexivity|exact H].
    + destruct (str_eqb m k_query_string).
      * rewrite <- Hlf.
        set (a2 := obj_set k_default_field (JStr (leaf_field l)) (obj_set k_query v a)).
        set (b2 := obj_set k_default_field (JStr (leaf_field l)) (obj_set k_query v b)).
        assert (H2 : stripK sem_key a2 = stripK sem_key b2).
        { apply stripK_set_other; [reflexivity|]. apply stripK_set_other; [reflexivity|exact H]. }
        assert (G1 : obj_get_default k_analyze_wildcard (JBool true) a2 =
                     obj_get_default k_analyze_wildcard (JBool true) b2).
        { unfold obj_get_default. rewrite (obj_get_stripK_eq sem_key k_analyze_wildcard a2 b2 eq_refl H2). reflexivity. }
        rewrite G1.
        set (a3 := obj_set k_analyze_wildcard _ a2). set (b3 := obj_set k_analyze_wildcard _ b2).
        assert (H3 : stripK sem_key a3 = stripK sem_key b3).
        { apply stripK_set_other; [reflexivity|exact H2]. }
        assert (G2 : obj_get_default k_allow_leading_wildcard (JBool true) a3 =
                     obj_get_default k_allow_leading_wildcard (JBool true) b3).
        { unfold obj_get_default. rewrite (obj_get_stripK_eq sem_key k_allow_leading_wildcard a3 b3 eq_refl H3). reflexivity. }
        rewrite G2. apply stripK_set_other; [reflexivity|exact H3].
      * apply stripK_set_other; [reflexivity|exact H].
  - destruct (sem_key key) eqn:Ek.
    + rewrite (stripK_set_sem sem_key key v a Ek), (stripK_set_sem sem_key key v b Ek). exact H.
    + apply stripK_set_other; [exact Ek|exact H].
Qed.

Lemma fold_add_key_sim l l' m keys : forall a b,
  leaf_sim l l' -> stripK sem_key a = stripK sem_key b ->
  stripK sem_key (fold_left (add_key l m) keys a) = stripK sem_key (fold_left (add_key l' m) keys b).
Proof.
  induction keys as [|k keys IH]; intros a b Hs H; simpl; [exact H|].
  apply IH; [exact Hs|]. apply add_key_sim; assumption.
Qed.

Definition onorm (r : eres json) : option json :=
  match r with ROk j => Some (norm_clause j) | RExc _ => None end.

Lemma leaf_method_sim cfg l l' : leaf_sim l l' -> leaf_method cfg l = leaf_method cfg l'.
Proof.
  intros (Hk & Hm & Hf & Hq & _). unfold leaf_method, leaf_has_wildcard, leaf_field.
  rewrite Hk, Hm, Hf, Hq. reflexivity.
Qed.

Lemma leaf_json_sim cfg l l' : leaf_sim l l' -> onorm (leaf_json cfg l) = onorm (leaf_json cfg l').
Proof.
  intros Hs. pose proof Hs as (Hk & Hm & Hf & Hq & Hb & Hfz & Hsl & Ha).
  unfold leaf_json. rewrite <- (leaf_method_sim cfg l l' Hs).
  assert (Hlf : leaf_field l = leaf_field l') by (unfold leaf_field; rewrite Hf; reflexivity).
  rewrite <- Hlf, <- Hk, <- Hq.
  destruct (match l_kind l, l_q l with LWord, Some q => str_eqb q k_star | _, _ => false end).
  - destruct (l_name l), (l_name l'); reflexivity.
  - destruct (leaf_method cfg l) as [| | |m| |]; try reflexivity.
    pose proof (fold_add_key_sim l l' m (class_keys (l_kind l) ++ l_addkeys l)
                  (base_options cfg (leaf_field l)) (base_options cfg (leaf_field l)) Hs eq_refl) as Hin.
    rewrite <- Ha.
    set (ia := fold_left (add_key l m) _ _) in *. set (ib := fold_left (add_key l' m) _ _) in *.
    destruct (str_eqb m k_query_string || str_eqb m k_multi_match); unfold onorm, norm_clause.
    + rewrite !strip_opts_K, Hin. reflexivity.
    + rewrite (strip_opts_K [(leaf_field l, JObj ia)]), (strip_opts_K [(leaf_field l, JObj ib)]).
      unfold stripK at 1 2. cbn [filter fst].
      destruct (sem_key (leaf_field l)); cbn [negb map fst snd]; [reflexivity|].
      rewrite !strip_opts_K, Hin. reflexivity.
Qed.

(* ================================================================ B. reading the builder's JSON *)
Definition is_leaf_clause (j : json) : bool :=
  match j with
  | JObj [(m, JObj _)] => negb (str_eqb m k_bool) && negb (str_eqb m k_nested)
  | _ => false
  end.

Lemma es_eval_leaf np j lvl d :
  is_leaf_clause j = true -> es_eval np j lvl d = clause_holds np j lvl d.
Proof.
  destruct j as [| | | | |o]; try (intros H; discriminate H).
  destruct o as [|[m v] [|? ?]]; try (intros H; discriminate H);
    destruct v; try (intros H; discriminate H).
  simpl is_leaf_clause. intros H. apply andb_prop in H as [H1 H2].
  apply negb_true_iff in H1. apply negb_true_iff in H2.
  cbn [es_eval]. rewrite H1, H2. reflexivity.
Qed.

(* the clauses of a bool query under one key, evaluated *)
Definition part (np : list str) (lvl : level) (d : doc) :=
  fix part (key : str) (o : list (str * json)) : list bool :=
    match o with
    | [] => []
    | (k', v) :: o' =>
        if str_eqb key k'
        then match v with
             | JList l => (fix evs (l : list json) : list bool :=
                             match l with [] => [] | q :: l' => es_eval np q lvl d :: evs l' end) l
             | _ => [es_eval np v lvl d]
             end
        else part key o'
    end.

Lemma es_eval_bool np body lvl d :
  es_eval np (JObj [(k_bool, JObj body)]) lvl d =
  bool_matches (part np lvl d k_must body ++ part np lvl d k_filter body) (part np lvl d k_should body)
               (part np lvl d k_must_not body).
Proof. reflexivity. Qed.

Lemma evs_map np lvl d l :
  (fix evs (l : list json) : list bool :=
     match l with [] => [] | q :: l' => es_eval np q lvl d :: evs l' end) l
  = map (fun q => es_eval np q lvl d) l.
Proof. induction l as [|q l IH]; simpl; [reflexivity|]. rewrite IH. reflexivity. Qed.

Lemma part_hit np lvl d key l o :
  part np lvl d key ((key, JList l) :: o) = map (fun q => es_eval np q lvl d) l.
Proof. simpl. rewrite str_eqb_refl. apply evs_map. Qed.

Lemma part_miss np lvl d key k' v o :
  str_eqb key k' = false -> part np lvl d key ((k', v) :: o) = part np lvl d key o.
Proof. intros H. simpl. rewrite H. reflexivity. Qed.

Lemma es_eval_nested np p jq rest lvl d :
  es_eval np (JObj [(k_nested, JObj ((k_path, JStr p) :: (k_query, jq) :: rest))]) lvl d =
  existsb (fun ob => es_eval np jq (split_on c_dot p) ob) (objects_at np lvl (split_on c_dot p) d).
Proof. reflexivity. Qed.

(* ---- the same reading on E-items *)
Definition eparts (ev : eitem -> bool) :=
  fix go (items : list eitem) : list bool * list bool * list bool :=
    match items with
    | [] => ([], [], [])
    | it :: l' =>
        let '(m2, s2, n2) := go l' in
        match it with
        | EOp EKMust sub => (map ev sub ++ m2, s2, n2)
        | EOp EKMustNot sub => (m2, s2, map ev sub ++ n2)
        | _ => (m2, ev it :: s2, n2)
        end
    end.

Fixpoint eeval (cfg : es_config) (np : list str) (e : eitem) (lvl : level) (d : doc) {struct e} : bool :=
  match e with
  | ELeaf l => match leaf_json cfg l with ROk j => clause_holds np j lvl d | RExc _ => false end
  | ENested p _ it =>
      existsb (fun ob => eeval cfg np it (split_on c_dot p) ob) (objects_at np lvl (split_on c_dot p) d)
  | EOp k items =>
      let ev := fun x => eeval cfg np x lvl d in
      match k with
      | EKMust => bool_matches (map ev items) [] []
      | EKShould => bool_matches [] (map ev items) []
      | EKMustNot => bool_matches [] [] (map ev items)
      | EKBool => let '(m, s, n) := eparts ev items in bool_matches m s n
      end
  end.

Definition good_leaf (l : leaf) : bool :=
  mem_str (l_method l) [k_term; k_match; k_match_phrase; k_range; k_fuzzy].
Fixpoint egood (e : eitem) : bool :=
  match e with
  | ELeaf l => good_leaf l
  | ENested _ _ it => egood it
  | EOp _ items => forallb egood items
  end.

Lemma field_opts_sem cfg field :
  sem_config cfg = true ->
  not_structural (obj_get k_match_type (field_opts cfg field)) = true /\
  not_structural (obj_get k_type (field_opts cfg field)) = true.
Proof.
  intros Hs. unfold field_opts. destruct (obj_get field (c_field_options cfg)) as [o|] eqn:Ho.
  - apply obj_get_in in Ho as [k' Hin]. unfold sem_config in Hs. rewrite forallb_forall in Hs.
    specialize (Hs _ Hin). simpl in Hs. apply andb_prop in Hs. exact Hs.
  - split; reflexivity.
Qed.

Lemma leaf_method_not_structural cfg l m :
  sem_config cfg = true -> good_leaf l = true -> leaf_method cfg l = JStr m ->
  mem_str m k_structural = false.
Proof.
  intros Hs Hg. unfold leaf_method.
  destruct (field_opts_sem cfg (leaf_field l) Hs) as [H1 H2].
  assert (Hgm : mem_str (l_method l) k_structural = false).
  { unfold good_leaf in Hg. simpl in Hg.
    repeat (apply orb_prop in Hg as [Hg|Hg]; [apply str_eqb_eq in Hg; rewrite Hg; reflexivity|]).
    discriminate. }
  destruct (negb (negb (mem_str (leaf_field l) (c_not_analyzed cfg))) && leaf_has_wildcard l);
    [intros H; inversion H; reflexivity|].
  destruct (negb (mem_str (leaf_field l) (c_not_analyzed cfg)) && leaf_has_wildcard l);
    [intros H; inversion H; reflexivity|].
  destruct (negb (mem_str (leaf_field l) (c_not_analyzed cfg)) && starts_with k_match (l_method l));
    [|intros H; inversion H; subst; exact Hgm].
  destruct (obj_get k_match_type (field_opts cfg (leaf_field l))) as [v|].
  - intros H. subst v. simpl in H1. apply negb_true_iff in H1. exact H1.
  - destruct (obj_get k_type (field_opts cfg (leaf_field l))) as [v|].
    + intros H. subst v. simpl in H2. apply negb_true_iff in H2. exact H2.
    + intros H; inversion H; subst; exact Hgm.
Qed.

Lemma leaf_json_clause cfg l j :
  sem_config cfg = true -> good_leaf l = true -> leaf_json cfg l = ROk j -> is_leaf_clause j = true.
Proof.
  intros Hs Hg. unfold leaf_json.
  destruct (match l_kind l, l_q l with LWord, Some q => str_eqb q k_star | _, _ => false end).
  - intros H. inversion H. reflexivity.
  - destruct (leaf_method cfg l) as [| | |m| |] eqn:Hm; try discriminate.
    pose proof (leaf_method_not_structural cfg l m Hs Hg Hm) as Hn.
    simpl in Hn. apply orb_false_elim in Hn as [Hn1 Hn2]. apply orb_false_elim in Hn2 as [Hn2 _].
    destruct (str_eqb m k_query_string || str_eqb m k_multi_match);
      intros H; inversion H; simpl; rewrite Hn1, Hn2; reflexivity.
Qed.

Lemma jmap_inv (f : eitem -> eres json) items : forall js,
  jmap f items = ROk js -> Forall2 (fun it j => f it = ROk j) items js.
Proof.
  induction items as [|it items IH]; simpl; intros js H.
  - inversion H. constructor.
  - destruct (f it) as [j|] eqn:Hj; [|discriminate].
    destruct (jmap f items) as [js'|]; [|discriminate]. inversion H; subst.
    constructor; [exact Hj|apply IH; reflexivity].
Qed.

(* the items EBoolOperation.json puts under must / should / must_not *)
Fixpoint epart_items (items : list eitem) : list eitem * list eitem * list eitem :=
  match items with
  | [] => ([], [], [])
  | it :: l' =>
      let '(m2, s2, n2) := epart_items l' in
      match it with
      | EOp EKMust sub => (sub ++ m2, s2, n2)
      | EOp EKMustNot sub => (m2, s2, sub ++ n2)
      | _ => (m2, it :: s2, n2)
      end
  end.

Lemma eparts_items ev items :
  eparts ev items = let '(Mx, Sx, Nx) := epart_items items in (map ev Mx, map ev Sx, map ev Nx).
Proof.
  induction items as [|it items IH]; [reflexivity|].
  simpl. rewrite IH. destruct (epart_items items) as [[Mx Sx] Nx].
  destruct it as [l|p n it'|[] sub]; simpl; rewrite ?map_app; reflexivity.
Qed.

Lemma Forall2_app_R {A B} (R : A -> B -> Prop) a1 a2 b1 b2 :
  Forall2 R a1 b1 -> Forall2 R a2 b2 -> Forall2 R (a1 ++ a2) (b1 ++ b2).
Proof. induction 1; simpl; intros H2; [exact H2|constructor; auto]. Qed.

Lemma bool_parts_inv (f : eitem -> eres json) items : forall m s n,
  bool_parts f items = ROk (m, s, n) ->
  let '(Mx, Sx, Nx) := epart_items items in
  Forall2 (fun it j => f it = ROk j) Mx m /\ Forall2 (fun it j => f it = ROk j) Sx s /\
  Forall2 (fun it j => f it = ROk j) Nx n.
Proof.
  induction items as [|it items IH]; intros m s n H.
  - simpl in H. inversion H. simpl. repeat split; constructor.
  - simpl in H. simpl epart_items. destruct (epart_items items) as [[Mx Sx] Nx].
    destruct it as [l|p nm it'|k sub].
    + destruct (f (ELeaf l)) as [j|] eqn:Hj; [|discriminate].
      destruct (bool_parts f items) as [[[m2 s2] n2]|]; [|discriminate]. inversion H; subst.
      destruct (IH _ _ _ eq_refl) as (H1 & H2 & H3). repeat split; auto.
    + destruct (f (ENested p nm it')) as [j|] eqn:Hj; [|discriminate].
      destruct (bool_parts f items) as [[[m2 s2] n2]|]; [|discriminate]. inversion H; subst.
      destruct (IH _ _ _ eq_refl) as (H1 & H2 & H3). repeat split; auto.
    + destruct k.
      * destruct (jmap f sub) as [js|] eqn:Hj; [|discriminate].
        destruct (bool_parts f items) as [[[m2 s2] n2]|]; [|discriminate]. inversion H; subst.
        destruct (IH _ _ _ eq_refl) as (H1 & H2 & H3). repeat split; auto.
        apply Forall2_app_R; [apply jmap_inv; exact Hj|exact H1].
      * destruct (f (EOp EKShould sub)) as [j|] eqn:Hj; [|discriminate].
        destruct (bool_parts f items) as [[[m2 s2] n2]|]; [|discriminate]. inversion H; subst.
        destruct (IH _ _ _ eq_refl) as (H1 & H2 & H3). repeat split; auto.
      * destruct (jmap f sub) as [js|] eqn:Hj; [|discriminate].
        destruct (bool_parts f items) as [[[m2 s2] n2]|]; [|discriminate]. inversion H; subst.
        destruct (IH _ _ _ eq_refl) as (H1 & H2 & H3). repeat split; auto.
        apply Forall2_app_R; [apply jmap_inv; exact Hj|exact H3].
      * destruct (f (EOp EKBool sub)) as [j|] eqn:Hj; [|discriminate].
        destruct (bool_parts f items) as [[[m2 s2] n2]|]; [|discriminate]. inversion H; subst.
        destruct (IH _ _ _ eq_refl) as (H1 & H2 & H3). repeat split; auto.
Qed.

Section ReadJson.
  Variable cfg : es_config.
  Variable np : list str.

  Definition PJ (e : eitem) : Prop :=
    forall j lvl d, egood e = true -> ejson cfg e = ROk j -> es_eval np j lvl d = eeval cfg np e lvl d.
  Definition QJ (e : eitem) : Prop :=
    PJ e /\ match e with EOp _ sub => Forall PJ sub /\ (egood e = true -> forallb egood sub = true)
                    | _ => True end.

  Lemma map_eval items : forall js lvl d,
    Forall PJ items -> forallb egood items = true ->
    Forall2 (fun it j => ejson cfg it = ROk j) items js ->
    map (fun q => es_eval np q lvl d) js = map (fun x => eeval cfg np x lvl d) items.
  Proof.
    induction items as [|it items IH]; intros js lvl d HP Hg H2;
      inversion H2 as [|? j ? js' Hj Hjs]; subst; [reflexivity|].
    inversion HP as [|? ? HPit HPits]; subst. simpl in Hg. apply andb_prop in Hg as [Hg1 Hg2]. simpl.
    rewrite (HPit _ lvl d Hg1 Hj). f_equal. apply IH; assumption.
  Qed.

  Lemma epart_items_P items :
    Forall QJ items -> forallb egood items = true ->
    let '(Mx, Sx, Nx) := epart_items items in
    (Forall PJ Mx /\ forallb egood Mx = true) /\ (Forall PJ Sx /\ forallb egood Sx = true) /\
    (Forall PJ Nx /\ forallb egood Nx = true).
  Proof.
    induction items as [|it items IH]; intros HQ Hg.
    - simpl. repeat split; constructor.
    - inversion HQ as [|? ? [HP Hsub] HQ']; subst. simpl in Hg. apply andb_prop in Hg as [Hg1 Hg2].
      specialize (IH HQ' Hg2). simpl epart_items. destruct (epart_items items) as [[Mx Sx] Nx].
      destruct IH as ((M1 & M2) & (S1 & S2) & (N1 & N2)).
      destruct it as [l|p nm it'|k sub].
      + repeat split; auto. cbn [forallb]. rewrite Hg1, S2. reflexivity.
      + repeat split; auto. cbn [forallb]. rewrite Hg1, S2. reflexivity.
      + destruct Hsub as [Hsub Hgs]. specialize (Hgs Hg1). destruct k.
        * repeat split; auto; [apply Forall_app; auto|rewrite forallb_app, Hgs, M2; reflexivity].
        * repeat split; auto. cbn [forallb]. rewrite Hg1, S2. reflexivity.
        * repeat split; auto; [apply Forall_app; auto|rewrite forallb_app, Hgs, N2; reflexivity].
        * repeat split; auto. cbn [forallb]. rewrite Hg1, S2. reflexivity.
  Qed.

  Lemma parts_of_bool lvl d m s n :
    let body := opt_entry k_must m ++ opt_entry k_should s ++ opt_entry k_must_not n in
    let es := map (fun q => es_eval np q lvl d) in
    part np lvl d k_must body = es m /\ part np lvl d k_filter body = [] /\
    part np lvl d k_should body = es s /\ part np lvl d k_must_not body = es n.
  Proof.
    destruct m, s, n; repeat split; cbn -[es_eval]; rewrite ?evs_map; reflexivity.
  Qed.

  Hypothesis Hsem : sem_config cfg = true.

  Lemma read_json : forall e, QJ e.
  Proof.
    intros e. induction e as [l|p nm it [IH _]|k items IH] using eitem_ind'.
    - split; [|exact I]. intros j lvl d Hg Hj. simpl in Hg, Hj. simpl. rewrite Hj.
      apply es_eval_leaf. eapply leaf_json_clause; eauto.
    - split; [|exact I]. intros j lvl d Hg Hj. simpl in Hg, Hj.
      destruct (ejson cfg it) as [j'|] eqn:Hj'; [|discriminate]. inversion Hj; subst j.
      simpl app. rewrite es_eval_nested. simpl eeval. apply existsb_ext_in. intros ob _.
      apply IH; [exact Hg|exact Hj'].
    - assert (HP : Forall PJ items).
      { rewrite Forall_forall in *. intros x Hx. exact (proj1 (IH x Hx)). }
      split; [|split; [exact HP|intros Hg; exact Hg]].
      intros j lvl d Hg Hj. simpl in Hg.
      destruct k.
      + simpl in Hj. destruct (jmap (ejson cfg) items) as [js|] eqn:Hjs; [|discriminate].
        inversion Hj; subst j. rewrite es_eval_bool.
        change (op_key EKMust) with k_must. rewrite part_hit.
        rewrite !part_miss by reflexivity. simpl part. rewrite app_nil_r. simpl eeval.
        rewrite (map_eval items js lvl d HP Hg (jmap_inv _ _ _ Hjs)). reflexivity.
      + simpl in Hj. destruct (jmap (ejson cfg) items) as [js|] eqn:Hjs; [|discriminate].
        inversion Hj; subst j. rewrite es_eval_bool.
        change (op_key EKShould) with k_should. rewrite part_hit.
        rewrite !part_miss by reflexivity. simpl part. simpl eeval.
        rewrite (map_eval items js lvl d HP Hg (jmap_inv _ _ _ Hjs)). reflexivity.
      + simpl in Hj. destruct (jmap (ejson cfg) items) as [js|] eqn:Hjs; [|discriminate].
        inversion Hj; subst j. rewrite es_eval_bool.
        change (op_key EKMustNot) with k_must_not. rewrite part_hit.
        rewrite !part_miss by reflexivity. simpl part. simpl eeval.
        rewrite (map_eval items js lvl d HP Hg (jmap_inv _ _ _ Hjs)). reflexivity.
      + simpl in Hj. destruct (bool_parts (ejson cfg) items) as [[[m s] n]|] eqn:Hbp; [|discriminate].
        inversion Hj; subst j. rewrite es_eval_bool.
        destruct (parts_of_bool lvl d m s n) as (E1 & E2 & E3 & E4). rewrite E1, E2, E3, E4, app_nil_r.
        simpl eeval. rewrite eparts_items.
        pose proof (bool_parts_inv _ _ _ _ _ Hbp) as Hinv.
        pose proof (epart_items_P items IH Hg) as HPs.
        destruct (epart_items items) as [[Mx Sx] Nx].
        destruct Hinv as (I1 & I2 & I3). destruct HPs as ((M1 & M2) & (S1 & S2) & (N1 & N2)).
        rewrite (map_eval Mx m lvl d M1 M2 I1), (map_eval Sx s lvl d S1 S2 I2),
                (map_eval Nx n lvl d N1 N2 I3). reflexivity.
  Qed.

  Lemma es_eval_ejson e j lvl d :
    egood e = true -> ejson cfg e = ROk j -> es_eval np j lvl d = eeval cfg np e lvl d.
  Proof. intros Hg Hj. exact (proj1 (read_json e) j lvl d Hg Hj). Qed.
End ReadJson.

(* ================================================================ C. configurations without nested fields *)
Lemma longest_nested_nil f k : longest_nested [] f k = [].
Proof. induction k as [|k IH]; simpl; [reflexivity|exact IH]. Qed.

Lemma level_of_nil f : level_of [] f = [].
Proof. apply longest_nested_nil. Qed.

Lemma clause_holds_nil j d : clause_holds [] j [] d = truth d (norm_clause j).
Proof. unfold clause_holds. destruct (clause_field j); [rewrite level_of_nil|]; reflexivity. Qed.

Lemma try_prefixes_nil pre names k : try_prefixes [] pre names k = None.
Proof. induction k as [|k IH]; simpl; [reflexivity|exact IH]. Qed.

Lemma split_on_nonempty c s : split_on c s <> [].
Proof.
  induction s as [|x s IH]; simpl; [discriminate|].
  destruct (split_on c s); [discriminate|]. destruct (N.eqb x c); discriminate.
Qed.

Lemma dotted_nonempty l x : In x l -> x <> [] -> dotted l <> [].
Proof.
  unfold dotted. destruct l as [|y l']; [intros []|]. intros Hin Hx. simpl.
  destruct l' as [|z l''].
  - destruct Hin as [->|[]]. exact Hx.
  - destruct y; discriminate.
Qed.

Lemma mem_all_nil np s : (forall p, In p np -> p = []) -> s <> [] -> mem_str s np = false.
Proof.
  intros Hall Hs. induction np as [|p np IH]; [reflexivity|]. simpl.
  rewrite (Hall p (or_introl eq_refl)). destruct s; [congruence|]. simpl.
  apply IH. intros q Hq. apply Hall. right. exact Hq.
Qed.

Lemma try_prefixes_first np pre c names k :
  (forall p, In p np -> p = []) -> c <> [] -> try_prefixes np pre (c :: names) k = None.
Proof.
  intros Hall Hc. induction k as [|k IH]; simpl; [reflexivity|].
  rewrite mem_all_nil; [exact IH|exact Hall|].
  apply (dotted_nonempty _ c); [|exact Hc]. apply in_or_app. right. left. reflexivity.
Qed.

Lemma cls_eqb_eq a b : cls_eqb a b = true -> a = b.
Proof. destruct a, b; simpl; intros H; try discriminate; reflexivity. Qed.

(* simplify_if_same splices only an un-named operand of the operation's own class (repair of F16); a
   named one is kept as a nested bool clause of the same kind, which the semantics evaluates like any
   other operand *)
Lemma flattened_cls t p : flattened t p = true -> cls_eqb (cls_of t) p = true.
Proof. unfold flattened. intros H. apply andb_prop in H as [H _]. exact H. Qed.
Lemma not_cls_not_flattened t p : cls_eqb (cls_of t) p = false -> flattened t p = false.
Proof. unfold flattened. intros ->. reflexivity. Qed.

Lemma bool_matches_must m : bool_matches m [] [] = forallb id m.
Proof. unfold bool_matches. simpl. rewrite !andb_true_r. reflexivity. Qed.
Lemma bool_matches_must_not n : bool_matches [] [] n = negb (existsb id n).
Proof. unfold bool_matches. simpl. rewrite andb_true_r. reflexivity. Qed.
Lemma bool_matches_should s : s <> [] -> bool_matches [] s [] = existsb id s.
Proof. unfold bool_matches. destruct s; [congruence|]. reflexivity. Qed.

Lemma forallb_id_map {A} (f : A -> bool) l : forallb id (map f l) = forallb f l.
Proof. induction l as [|x l IH]; simpl; [reflexivity|]. rewrite IH. reflexivity. Qed.
Lemma existsb_id_map {A} (f : A -> bool) l : existsb id (map f l) = existsb f l.
Proof. induction l as [|x l IH]; simpl; [reflexivity|]. rewrite IH. reflexivity. Qed.

Definition noname (cx : ectx) : ectx := mkECtx (x_prefix cx) (x_analyzed cx) None.
Lemma noname_propagate t cx : noname (propagate_name t cx) = noname cx.
Proof. unfold propagate_name. destruct (name_of t) as [n|]; [destruct (nonempty n)|]; reflexivity. Qed.

Definition fsim (F G : leaf -> leaf) : Prop := forall l l', leaf_sim l l' -> leaf_sim (F l) (G l').

Definition ekind (e : eitem) : ikind :=
  match e with EOp EKMust _ => IMust | EOp EKMustNot _ => IMustNot | _ => IOther end.
Definition enonempty (e : eitem) : bool := match e with EOp _ [] => false | _ => true end.

Lemma ekind_on_leaf g e : ekind (on_leaf g e) = ekind e.
Proof. destruct e; reflexivity. Qed.
Lemma enonempty_on_leaf g e : enonempty (on_leaf g e) = enonempty e.
Proof. destruct e; reflexivity. Qed.
Lemma on_leaf_comp f g e : on_leaf f (on_leaf g e) = on_leaf (fun l => f (g l)) e.
Proof. destruct e; reflexivity. Qed.

Lemma sim_boost d l : leaf_sim (leaf_set_boost d l) l.
Proof. repeat split. Qed.
Lemma sim_ztq z l : leaf_sim (leaf_set_ztq z l) l.
Proof. repeat split. Qed.
Lemma sim_fuzz d l l' : leaf_sim l l' -> leaf_sim (leaf_set_fuzziness d l) (leaf_set_fuzziness d l').
Proof. intros (H1&H2&H3&H4&H5&H6&H7&H8). repeat split; simpl; assumption. Qed.
Lemma sim_slop d l l' : leaf_sim l l' -> leaf_sim (leaf_set_slop d l) (leaf_set_slop d l').
Proof. intros (H1&H2&H3&H4&H5&H6&H7&H8). repeat split; simpl; try assumption. rewrite H1, H8. reflexivity. Qed.
Lemma sim_mod m l l' : leaf_sim l l' -> leaf_sim (apply_mod m l) (apply_mod m l').
Proof. destruct m; [apply sim_fuzz|apply sim_slop]. Qed.
Lemma sim_mods ms l l' : leaf_sim l l' -> leaf_sim (apply_mods ms l) (apply_mods ms l').
Proof. intros H. induction ms as [|m ms IH]; simpl; [exact H|apply sim_mod; exact IH]. Qed.
Lemma apply_mods_snoc ms m l : apply_mods (ms ++ [m]) l = apply_mods ms (apply_mod m l).
Proof. unfold apply_mods. rewrite fold_right_app. reflexivity. Qed.

Lemma good_boost d l : good_leaf (leaf_set_boost d l) = good_leaf l. Proof. reflexivity. Qed.
Lemma good_slop d l : good_leaf (leaf_set_slop d l) = good_leaf l. Proof. reflexivity. Qed.
Lemma good_ztq z l : good_leaf (leaf_set_ztq z l) = good_leaf l. Proof. reflexivity. Qed.
Lemma good_fuzz d l : good_leaf (leaf_set_fuzziness d l) = true. Proof. reflexivity. Qed.

Lemma egood_on_leaf g e : (forall l, good_leaf l = true -> good_leaf (g l) = true) ->
  egood e = true -> egood (on_leaf g e) = true.
Proof. intros Hg. destruct e; simpl; auto. Qed.

Definition conj_like (cfg : es_config) (t : item) : bool :=
  match t with
  | Op KAnd _ _ | Unary KPlus _ _ => true
  | Op KUnknown _ _ => match c_default_operator cfg with DShould => false | _ => true end
  | _ => false
  end.
Definition disj_like (cfg : es_config) (t : item) : bool :=
  match t with
  | Op KOr _ _ => true
  | Op KUnknown _ _ => match c_default_operator cfg with DShould => true | _ => false end
  | _ => false
  end.

Section Main.
  Variable cfg : es_config.
  Variable d : doc.
  Hypothesis Hnp : forall p, In p (ev_nested_prefixes (mk_env cfg)) -> p = [].
  Hypothesis Hwf : wf_config cfg = true.
  Let env := mk_env cfg.

  Lemma split_nested_none n cx : plain_field_name n = true -> split_nested env n cx = None.
  Proof.
    intros Hn. unfold split_nested. destruct n as [|c n']; [discriminate Hn|]. simpl in Hn.
    apply negb_true_iff in Hn. simpl split_on. pose proof (split_on_nonempty c_dot n') as Hne.
    destruct (split_on c_dot n') as [|w ws]; [congruence|]. rewrite Hn.
    apply try_prefixes_first; [exact Hnp|discriminate].
  Qed.

  Definition ev (e : eitem) : bool := eeval cfg [] e [] d.
  Definition EV (F : leaf -> leaf) (e : eitem) : bool := ev (on_leaf F e).
  Definition D (t : item) (cx : ectx) (ms : list lmod) : bool := den_at cfg [] t (noname cx) ms [] d.

  Lemma ev_leaf l :
    ev (ELeaf l) = match onorm (leaf_json cfg l) with Some a => truth d a | None => false end.
  Proof. unfold ev. simpl. destruct (leaf_json cfg l); [apply clause_holds_nil|reflexivity]. Qed.

  Lemma ev_leaf_sim l l' : leaf_sim l l' -> ev (ELeaf l) = ev (ELeaf l').
  Proof. intros H. rewrite !ev_leaf, (leaf_json_sim cfg l l' H). reflexivity. Qed.

  Lemma term_holds_nil cx ms t :
    term_holds cfg [] cx ms t [] d =
    match term_atom cfg cx ms t with Some a => truth d a | None => false end.
  Proof.
    unfold term_holds. destruct (term_atom cfg cx ms t); [|reflexivity].
    rewrite level_of_nil. simpl. apply orb_false_r.
  Qed.

  (* a term: the leaf the visitor builds against the leaf the reference names *)
  Lemma leaf_case t cx ms F l0 l0' :
    term_leaf cfg (noname cx) t = Some l0' -> leaf_sim l0 l0' -> fsim F (apply_mods ms) ->
    EV F (ELeaf l0) = term_holds cfg [] (noname cx) ms t [] d.
  Proof.
    intros Ht Hs HF. unfold EV. simpl on_leaf. rewrite term_holds_nil. unfold term_atom. rewrite Ht.
    rewrite (ev_leaf_sim _ _ (HF _ _ Hs)), ev_leaf. unfold onorm.
    destruct (leaf_json cfg (apply_mods ms l0')); reflexivity.
  Qed.

  (* the conclusions *)
  Definition NF (t : item) (cx : ectx) (items : list eitem) : Prop :=
    exists e, items = [e] /\ egood e = true /\ enonempty e = true /\ ekind e = item_kind cfg t /\
              forall ms F, fsim F (apply_mods ms) -> EV F e = D t cx ms.
  Definition FL (t : item) (cx : ectx) (items : list eitem) : Prop :=
    forallb egood items = true /\ items <> [] /\
    forall F, fsim F (fun l => l) ->
      (conj_like cfg t = true -> forallb (EV F) items = D t cx []) /\
      (disj_like cfg t = true -> existsb (EV F) items = D t cx []).
  Definition SV (t : item) : Prop :=
    supported t = true -> plain_tree cfg t = true ->
    (forall cx items, visit cfg env t None cx = ROk items -> NF t cx items) /\
    (forall cx items, conj_like cfg t || disj_like cfg t = true ->
       walk (visit cfg env) (Some (cls_of t)) cx (children t) = ROk items -> FL t cx items).

  Lemma visit_par t par cx :
    visit cfg env t par cx =
    match par with
    | None => visit cfg env t None cx
    | Some p =>
        if flattened t p then walk (visit cfg env) (Some p) cx (children t)
        else if mixes cfg p (cls_of t)
             then (if Nat.ltb (length (children t)) 2 then RExc (XOther KIndexError) else RExc XMix)
             else visit cfg env t None cx
    end.
  Proof. rewrite !visit_unfold. unfold visit_via. destruct par; reflexivity. Qed.

  Lemma walk_cons f par cx c l :
    walk f par cx (c :: l) =
    match f c par cx with
    | RExc e => RExc e
    | ROk its => match walk f par cx l with RExc e => RExc e | ROk its' => ROk (its ++ its') end
    end.
  Proof. reflexivity. Qed.

  Lemma on_leaf_id e : on_leaf (fun l => l) e = e.
  Proof. destruct e; reflexivity. Qed.

  Definition SVH (c : item) : Prop := SV c /\ supported c = true /\ plain_tree cfg c = true.

  (* the operands of an operation of class p, visited one after the other *)
  Lemma walk_ops p cx l : forall items,
    Forall SVH l ->
    (forall c, In c l -> cls_eqb (cls_of c) p = true -> conj_like cfg c || disj_like cfg c = true) ->
    walk (visit cfg env) (Some p) cx l = ROk items ->
    exists parts, items = concat parts /\
      Forall2 (fun c its => if flattened c p then FL c cx its else NF c cx its) l parts.
  Proof.
    induction l as [|c l IH]; intros items HS Hcl Hw.
    - simpl in Hw. inversion Hw. exists []. split; constructor.
    - rewrite walk_cons in Hw. destruct (visit cfg env c (Some p) cx) as [its|] eqn:Hc; [|discriminate].
      destruct (walk (visit cfg env) (Some p) cx l) as [its'|] eqn:Hw'; [|discriminate].
      inversion Hw; subst items. inversion HS as [|? ? (HSc & Hsc & Hbc) HS']; subst.
      destruct (IH its' HS' (fun c' Hin => Hcl c' (or_intror Hin)) eq_refl) as [parts [Hp HF]].
      exists (its :: parts). split; [simpl; rewrite Hp; reflexivity|]. constructor; [|exact HF].
      rewrite visit_par in Hc. destruct (flattened c p) eqn:Hf.
      + apply flattened_cls in Hf as He. apply cls_eqb_eq in He as He'. subst p.
        apply (proj2 (HSc Hsc Hbc)); [apply Hcl; [left; reflexivity|exact He]|exact Hc].
      + destruct (mixes cfg p (cls_of c)); [destruct (Nat.ltb (length (children c)) 2); discriminate|].
        apply (proj1 (HSc Hsc Hbc)). exact Hc.
  Qed.

  Lemma parts_good p cx l parts :
    Forall2 (fun c its => if flattened c p then FL c cx its else NF c cx its) l parts ->
    forallb egood (concat parts) = true /\ (l <> [] -> concat parts <> []).
  Proof.
    induction 1 as [|c its l parts Hc _ [IH1 IH2]]; [split; [reflexivity|congruence]|].
    simpl. rewrite forallb_app, IH1, andb_true_r.
    destruct (flattened c p).
    - destruct Hc as (Hg & Hn & _). split; [exact Hg|]. intros _ Habs. apply app_eq_nil in Habs. tauto.
    - destruct Hc as (e & -> & Hg & _). split; [simpl; rewrite Hg; reflexivity|discriminate].
  Qed.

  Lemma parts_conj p cx l parts F :
    fsim F (fun l => l) ->
    Forall2 (fun c its => if flattened c p then FL c cx its else NF c cx its) l parts ->
    (forall c, In c l -> cls_eqb (cls_of c) p = true -> conj_like cfg c = true) ->
    forallb (EV F) (concat parts) = forallb (fun c => D c cx []) l.
  Proof.
    intros HF H. induction H as [|c its l parts Hc _ IH]; intros Hcl; [reflexivity|].
    simpl. rewrite forallb_app, IH by (intros c' Hin; apply Hcl; right; exact Hin). f_equal.
    destruct (flattened c p) eqn:Hf; [apply flattened_cls in Hf as He|].
    - destruct Hc as (_ & _ & Hc). apply (proj1 (Hc F HF)). apply Hcl; [left; reflexivity|exact He].
    - destruct Hc as (e & -> & _ & _ & _ & Hc). simpl. rewrite andb_true_r. apply (Hc [] F HF).
  Qed.

  Lemma parts_disj p cx l parts F :
    fsim F (fun l => l) ->
    Forall2 (fun c its => if flattened c p then FL c cx its else NF c cx its) l parts ->
    (forall c, In c l -> cls_eqb (cls_of c) p = true -> disj_like cfg c = true) ->
    existsb (EV F) (concat parts) = existsb (fun c => D c cx []) l.
  Proof.
    intros HF H. induction H as [|c its l parts Hc _ IH]; intros Hcl; [reflexivity|].
    simpl. rewrite existsb_app, IH by (intros c' Hin; apply Hcl; right; exact Hin). f_equal.
    destruct (flattened c p) eqn:Hf; [apply flattened_cls in Hf as He|].
    - destruct Hc as (_ & _ & Hc). apply (proj2 (Hc F HF)). apply Hcl; [left; reflexivity|exact He].
    - destruct Hc as (e & -> & _ & _ & _ & Hc). simpl. rewrite orb_false_r. apply (Hc [] F HF).
  Qed.

  Lemma same_class_like t c :
    cls_eqb (cls_of c) (cls_of t) = true ->
    conj_like cfg c = conj_like cfg t /\ disj_like cfg c = disj_like cfg t.
  Proof.
    destruct t as [[]| |[]| | | | |[]|[]|[]|], c as [[]| |[]| | | | |[]|[]|[]|]; simpl; intros H;
      try discriminate; split; reflexivity.
  Qed.

  Lemma bop_children t :
    plain_tree cfg t = true ->
    Forall (fun c => plain_tree cfg c = true) (children t).
  Proof.
    destruct t; simpl; intros H; repeat constructor; try exact H;
      try (apply andb_prop in H as [H1 H2]; assumption).
    apply andb_prop in H as [H _]. apply Forall_forall. intros c Hc.
    rewrite forallb_forall in H. apply H. exact Hc.
  Qed.

  Lemma fsim_id_ztq z : fsim (leaf_set_ztq z) (fun l => l).
  Proof. intros l l' H. eapply leaf_sim_trans; [apply sim_ztq|exact H]. Qed.
  Lemma fsim_id_id : fsim (fun l => l) (fun l => l).
  Proof. intros l l' H. exact H. Qed.

  Lemma egood_map_ztq z its :
    forallb egood its = true -> forallb egood (map (on_leaf (leaf_set_ztq z)) its) = true.
  Proof.
    induction its as [|e its IH]; simpl; [reflexivity|]. intros H. apply andb_prop in H as [H1 H2].
    rewrite IH by exact H2. rewrite egood_on_leaf; [reflexivity| |exact H1].
    intros l Hl. rewrite good_ztq. exact Hl.
  Qed.

  (* ---- the Lucene boolean query *)
  Definition opt (c : item) : bool := negb (is_unary c).

  Lemma operand_other c :
    is_unary c = false -> bool_operand_ok cfg c = true -> item_kind cfg c = IOther.
  Proof.
    destruct c as [| | | | | | |k ? ?| | |]; simpl; intros Hu Hok; try discriminate; try reflexivity;
      try (destruct (item_kind cfg _); try discriminate; reflexivity).
    destruct k; try discriminate; try reflexivity.
    simpl in Hok. destruct (c_default_operator cfg); try discriminate; reflexivity.
  Qed.

  Lemma eparts_cons (e : eitem) l :
    eparts ev (e :: l) =
    let '(m2, s2, n2) := eparts ev l in
    match e with
    | EOp EKMust sub => (map ev sub ++ m2, s2, n2)
    | EOp EKMustNot sub => (m2, s2, map ev sub ++ n2)
    | _ => (m2, ev e :: s2, n2)
    end.
  Proof. reflexivity. Qed.

  Lemma bool_sem cx ops parts :
    Forall2 (fun c its => NF c cx its) ops parts ->
    forallb (bool_operand_ok cfg) ops = true ->
    let sub := fun c => D c cx [] in
    let '(m, s, n) := eparts ev (concat parts) in
    forallb id m && negb (existsb id n) = forallb (fun c => negb (is_unary c) || sub c) ops /\
    match m with [] => false | _ => true end = existsb is_plus ops /\
    match s with [] => false | _ => true end = existsb opt ops /\
    existsb id s = existsb (fun c => opt c && sub c) ops.
  Proof.
    induction 1 as [|c its ops parts Hc _ IH]; intros Hok; [simpl; auto|].
    simpl in Hok. apply andb_prop in Hok as [Hokc Hok]. specialize (IH Hok).
    destruct Hc as (e & -> & _ & Hne & Hk & Hev). simpl concat. rewrite eparts_cons.
    destruct (eparts ev (concat parts)) as [[m2 s2] n2]. destruct IH as (I1 & I2 & I3 & I4).
    pose proof (Hev [] (fun l => l) fsim_id_id) as Hv. unfold EV in Hv. rewrite on_leaf_id in Hv.
    cbn [forallb existsb]. unfold opt at 1 3.
    destruct (is_unary c) eqn:Hu.
    - destruct c as [| | | | | | | |uk um ua| |]; try discriminate Hu. destruct uk.
      + (* +a *) simpl in Hk. destruct e as [l|p nm it|[] sub']; try discriminate Hk.
        unfold ev in Hv. simpl in Hv. rewrite bool_matches_must in Hv. fold ev in Hv.
        cbn [is_plus negb orb andb]. rewrite forallb_app, <- Hv, <- andb_assoc, I1.
        repeat split; try assumption. destruct sub'; [discriminate Hne|reflexivity].
      + (* NOT a *) simpl in Hk. destruct e as [l|p nm it|[] sub']; try discriminate Hk.
        unfold ev in Hv. simpl in Hv. rewrite bool_matches_must_not in Hv. fold ev in Hv.
        cbn [is_plus negb orb andb]. rewrite existsb_app, negb_orb, <- Hv.
        repeat split; try assumption. rewrite <- I1.
        destruct (forallb id m2), (negb (existsb id (map ev sub'))), (negb (existsb id n2)); reflexivity.
      + (* -a *) simpl in Hk. destruct e as [l|p nm it|[] sub']; try discriminate Hk.
        unfold ev in Hv. simpl in Hv. rewrite bool_matches_must_not in Hv. fold ev in Hv.
        cbn [is_plus negb orb andb]. rewrite existsb_app, negb_orb, <- Hv.
        repeat split; try assumption. rewrite <- I1.
        destruct (forallb id m2), (negb (existsb id (map ev sub'))), (negb (existsb id n2)); reflexivity.
    - rewrite (operand_other c Hu Hokc) in Hk.
      assert (Hpl : is_plus c = false) by (destruct c as [| | | | | | | |[] ? ?| |]; try reflexivity; discriminate Hu).
      rewrite Hpl. cbn [negb orb andb].
      destruct e as [l|p nm it|[] sub']; try discriminate Hk; cbn [existsb id]; rewrite <- Hv, I4;
        repeat split; assumption.
  Qed.

  Lemma walk_single c cx items :
    walk (visit cfg env) None cx [c] = ROk items -> visit cfg env c None cx = ROk items.
  Proof.
    rewrite walk_cons. destruct (visit cfg env c None cx) as [its|]; [|discriminate].
    simpl. rewrite app_nil_r. auto.
  Qed.

  Lemma D_propagate t c cx ms : D c (propagate_name t cx) ms = D c cx ms.
  Proof. unfold D. rewrite noname_propagate. reflexivity. Qed.

  (* a transparent element: the item of its only child, possibly modified on a leaf *)
  Lemma transparent_case t c cx cx' g ms' items :
    visit cfg env c None cx' = ROk items -> NF c cx' items ->
    item_kind cfg t = item_kind cfg c ->
    (forall l, good_leaf l = true -> good_leaf (g l) = true) ->
    (forall ms F, fsim F (apply_mods ms) -> fsim (fun l => F (g l)) (apply_mods (ms ++ ms'))) ->
    (forall ms, D t cx ms = D c cx' (ms ++ ms')) ->
    exists e, items = [e] /\ NF t cx [on_leaf g e].
  Proof.
    intros _ (e & -> & Hg & Hne & Hk & Hev) Hik Hgood Hsim HD. exists e. split; [reflexivity|].
    exists (on_leaf g e). split; [reflexivity|]. split; [apply egood_on_leaf; assumption|].
    split; [rewrite enonempty_on_leaf; exact Hne|]. split; [rewrite ekind_on_leaf, Hik; exact Hk|].
    intros ms F HF. unfold EV. rewrite on_leaf_comp. rewrite HD.
    apply (Hev (ms ++ ms') (fun l => F (g l))). apply Hsim. exact HF.
  Qed.

  Lemma conj_item t cx its :
    FL t (propagate_name t cx) its -> conj_like cfg t = true -> item_kind cfg t = IMust ->
    (forall ms, D t cx ms = D t cx []) ->
    NF t cx [mk_op EKMust its].
  Proof.
    intros (Hg & Hne & HFL) Hl Hk HD. exists (mk_op EKMust its). split; [reflexivity|].
    split; [simpl; apply egood_map_ztq; exact Hg|].
    split; [destruct its; [congruence|reflexivity]|]. split; [rewrite Hk; reflexivity|].
    intros ms F _. unfold EV. change (on_leaf F (mk_op EKMust its)) with (mk_op EKMust its).
    unfold ev, mk_op. simpl eeval. rewrite bool_matches_must, map_map, forallb_id_map.
    change (forallb (EV (leaf_set_ztq gen_EMust_zero_terms_query)) its = D t cx ms).
    rewrite (proj1 (HFL _ (fsim_id_ztq _)) Hl), HD. unfold D. rewrite noname_propagate. reflexivity.
  Qed.

  Lemma disj_item t cx its :
    FL t (propagate_name t cx) its -> disj_like cfg t = true -> item_kind cfg t = IOther ->
    (forall ms, D t cx ms = D t cx []) ->
    NF t cx [mk_op EKShould its].
  Proof.
    intros (Hg & Hne & HFL) Hl Hk HD. exists (mk_op EKShould its). split; [reflexivity|].
    split; [exact Hg|]. split; [destruct its; [congruence|reflexivity]|]. split; [rewrite Hk; reflexivity|].
    intros ms F _. unfold EV. change (on_leaf F (mk_op EKShould its)) with (EOp EKShould its).
    unfold ev. simpl eeval. rewrite bool_matches_should by (destruct its; [congruence|discriminate]).
    rewrite existsb_id_map.
    transitivity (existsb (EV (fun l => l)) its).
    { apply existsb_ext_in. intros e _. unfold EV, ev. rewrite on_leaf_id. reflexivity. }
    rewrite (proj2 (HFL _ fsim_id_id) Hl), HD. unfold D. rewrite noname_propagate. reflexivity.
  Qed.

  Lemma neg_item t a cx e :
    egood e = true -> item_kind cfg t = IMustNot ->
    (forall ms F, fsim F (apply_mods ms) -> EV F e = D a (propagate_name t cx) ms) ->
    (forall ms, D t cx ms = negb (D a cx [])) ->
    NF t cx [mk_op EKMustNot [e]].
  Proof.
    intros Hg Hk Hev HD. exists (mk_op EKMustNot [e]). split; [reflexivity|].
    split; [simpl; rewrite andb_true_r; apply egood_on_leaf; [intros l Hl; rewrite good_ztq; exact Hl|exact Hg]|].
    split; [reflexivity|]. split; [rewrite Hk; reflexivity|].
    intros ms F _. unfold EV. change (on_leaf F (mk_op EKMustNot [e])) with (mk_op EKMustNot [e]).
    unfold ev, mk_op. simpl eeval. rewrite bool_matches_must_not. simpl. rewrite orb_false_r.
    change (negb (EV (leaf_set_ztq gen_EMustNot_zero_terms_query) e) = D t cx ms).
    rewrite (Hev [] _ (fsim_id_ztq _)), HD, D_propagate. reflexivity.
  Qed.

  Lemma forall2_nf p cx l parts :
    (forall c, In c l -> flattened c p = false) ->
    Forall2 (fun c its => if flattened c p then FL c cx its else NF c cx its) l parts ->
    Forall2 (fun c its => NF c cx its) l parts.
  Proof.
    intros Hnb HF. induction HF as [|c its l parts Hc _ IH]; constructor.
    - rewrite (Hnb c (or_introl eq_refl)) in Hc. exact Hc.
    - apply IH. intros c' Hin. apply Hnb. right. exact Hin.
  Qed.

  Ltac ops_visit Hv Hw its :=
    match type of Hv with
    | context [walk ?f (Some ?p) ?cx ?l] =>
        destruct (walk f (Some p) cx l) as [its|] eqn:Hw; [|simpl in Hv; discriminate Hv]
    end.

  Ltac child_visit Hv Hw its :=
    match type of Hv with
    | context [visit ?c ?e ?t None ?cx] =>
        destruct (visit c e t None cx) as [its|] eqn:Hw;
        [rewrite app_nil_r in Hv|simpl in Hv; discriminate Hv]
    end.

  Lemma visit_sem : forall t, SV t.
  Proof.
    intros t. induction t as [t IH] using item_children_ind. intros Hs Hb.
    assert (HS : Forall SVH (children t)).
    { pose proof (supported_children t Hs) as H1. pose proof (bop_children t Hb) as H2.
      rewrite Forall_forall in *. intros c Hc.
      split; [apply IH; exact Hc|split; [apply H1; exact Hc|apply H2; exact Hc]]. }
    clear IH.
    (* operands walked by the element's own _binary_operation *)
    assert (Hflat : forall cx items, conj_like cfg t || disj_like cfg t = true ->
                      walk (visit cfg env) (Some (cls_of t)) cx (children t) = ROk items -> FL t cx items).
    { intros cx items Hlike Hw.
      assert (Hcl : forall c, In c (children t) -> cls_eqb (cls_of c) (cls_of t) = true ->
                              conj_like cfg c || disj_like cfg c = true).
      { intros c _ He. destruct (same_class_like t c He) as [-> ->]. exact Hlike. }
      destruct (walk_ops _ _ _ _ HS Hcl Hw) as [parts [-> HF]].
      destruct (parts_good _ _ _ _ HF) as [Hg Hne].
      split; [exact Hg|]. split.
      { apply Hne. destruct t as [| | | | | | |k m ops|[] m a| |]; try discriminate Hlike; try discriminate.
        apply supported_op_length in Hs. destruct ops; [simpl in Hs; lia|discriminate]. }
      intros F HF'. split; intros Hl.
      - rewrite (parts_conj _ _ _ _ F HF' HF).
        + destruct t as [| | | | | | |[] m ops|[] m a| |]; try discriminate Hl; unfold D; simpl;
            try reflexivity.
          * simpl in Hl. destruct (c_default_operator cfg); try discriminate Hl; reflexivity.
          * apply andb_true_r.
        + intros c _ He. destruct (same_class_like t c He) as [-> _]. exact Hl.
      - rewrite (parts_disj _ _ _ _ F HF' HF).
        + destruct t as [| | | | | | |[] m ops|[] m a| |]; try discriminate Hl; unfold D; simpl;
            try reflexivity.
          simpl in Hl. destruct (c_default_operator cfg); try discriminate Hl; reflexivity.
        + intros c _ He. destruct (same_class_like t c He) as [_ ->]. exact Hl. }
    split; [|exact Hflat].
    intros cx items Hv. rewrite visit_unfold in Hv. unfold visit_via in Hv. rewrite bhandler_cls in Hv.
    destruct t as [[]| |[]| | | | |[]|[]|[]|]; try discriminate Hs; simpl children in *.
    - (* Word *)
      simpl in Hv. inversion Hv; subst items. eexists. split; [reflexivity|].
      split; [simpl; unfold good_leaf; simpl;
              destruct (ctx_is_analyzed cfg cx); [destruct (c_match_word_as_phrase cfg)|]; reflexivity|].
      split; [reflexivity|]. split; [reflexivity|]. intros ms F HF. unfold D. simpl den_at.
      eapply leaf_case; [reflexivity| |exact HF]. repeat split.
    - (* Phrase *)
      simpl in Hv.
      destruct (ctx_is_analyzed cfg cx) eqn:Ha; inversion Hv; subst items;
        (eexists; split; [reflexivity|]; split; [reflexivity|]; split; [reflexivity|];
         split; [reflexivity|]; intros ms F HF; unfold D; simpl den_at;
         eapply leaf_case; [simpl; change (ctx_is_analyzed cfg (noname cx)) with (ctx_is_analyzed cfg cx);
                            rewrite Ha; reflexivity| |exact HF]; repeat split).
    - (* SearchField *)
      simpl in Hv.
      set (cctx := propagate_name (SearchField m fname t) _) in Hv.
      child_visit Hv Hw its. inversion HS as [|? ? (HSc & Hsc & Hbc) _]; subst.
      destruct (proj1 (HSc Hsc Hbc) _ _ Hw) as (e & -> & Hg & Hne & Hk & Hev).
      simpl in Hb. apply andb_prop in Hb as [Hfn Hb].
      simpl in Hv. rewrite (split_nested_none _ _ Hfn) in Hv. inversion Hv; subst items.
      exists e. repeat split; auto. intros ms F HF. rewrite (Hev ms F HF).
      unfold D. simpl den_at. rewrite level_of_nil. simpl. rewrite orb_false_r.
      unfold cctx. rewrite noname_propagate. reflexivity.
    - (* Group *)
      simpl in Hv. child_visit Hv Hw its. inversion Hv; subst items.
      inversion HS as [|? ? (HSc & Hsc & Hbc) _]; subst.
      destruct (proj1 (HSc Hsc Hbc) _ _ Hw) as (e & -> & Hg & Hne & Hk & Hev).
      exists e. repeat split; auto. intros ms F HF. rewrite (Hev ms F HF), D_propagate. reflexivity.
    - (* FieldGroup *)
      simpl in Hv. child_visit Hv Hw its. inversion Hv; subst items.
      inversion HS as [|? ? (HSc & Hsc & Hbc) _]; subst.
      destruct (proj1 (HSc Hsc Hbc) _ _ Hw) as (e & -> & Hg & Hne & Hk & Hev).
      exists e. repeat split; auto. intros ms F HF. rewrite (Hev ms F HF), D_propagate. reflexivity.
    - (* Range *)
      simpl in Hs. apply andb_prop in Hs as [Hlo Hhi].
      destruct (range_bound_has_value _ Hlo) as [vlo Hvlo].
      destruct (range_bound_has_value _ Hhi) as [vhi Hvhi]. simpl in Hv. rewrite Hvlo, Hvhi in Hv.
      inversion Hv; subst items. eexists. split; [reflexivity|]. split; [reflexivity|].
      split; [reflexivity|]. split; [reflexivity|]. intros ms F HF. unfold D. simpl den_at.
      eapply leaf_case; [simpl; rewrite Hvlo, Hvhi; reflexivity| |exact HF]. repeat split.
    - (* Fuzzy *)
      simpl in Hv. child_visit Hv Hw its. inversion HS as [|? ? (HSc & Hsc & Hbc) _]; subst.
      pose proof (proj1 (HSc Hsc Hbc) _ _ Hw) as Hnf.
      assert (Hres : exists e, its = [e] /\ NF (Fuzzy m t deg impl) cx [on_leaf (leaf_set_fuzziness deg) e]).
      { apply (transparent_case (Fuzzy m t deg impl) t cx _ (leaf_set_fuzziness deg) [MFuzzy deg] its Hw Hnf); [reflexivity| | |].
      + intros l _. apply good_fuzz.
      + intros ms F HF l l' Hl. rewrite apply_mods_snoc. apply HF. apply sim_fuzz. exact Hl.
      + intros ms. unfold D. rewrite noname_propagate. reflexivity.
        }
      destruct Hres as (e & -> & Hres). simpl in Hv. inversion Hv; subst items. exact Hres.
    - (* Proximity *)
      simpl in Hv. child_visit Hv Hw its. inversion HS as [|? ? (HSc & Hsc & Hbc) _]; subst.
      pose proof (proj1 (HSc Hsc Hbc) _ _ Hw) as Hnf.
      destruct (ctx_is_analyzed cfg cx) eqn:Ha.
      + assert (Hres : exists e, its = [e] /\
                    NF (Proximity m t deg impl) cx [on_leaf (leaf_set_slop (dec_of_Z deg)) e]).
        { apply (transparent_case (Proximity m t deg impl) t cx _ (leaf_set_slop (dec_of_Z deg))
                    [MSlop (dec_of_Z deg)] its Hw Hnf); [reflexivity| | |].
        * intros l Hl. rewrite good_slop. exact Hl.
        * intros ms F HF l l' Hl. rewrite apply_mods_snoc. apply HF. apply sim_slop. exact Hl.
        * intros ms. unfold D. rewrite noname_propagate. simpl den_at.
          change (ctx_is_analyzed cfg (noname cx)) with (ctx_is_analyzed cfg cx). rewrite Ha. reflexivity.
          }
        destruct Hres as (e & -> & Hres). simpl in Hv. inversion Hv; subst items. exact Hres.
      + assert (Hres : exists e, its = [e] /\
                    NF (Proximity m t deg impl) cx [on_leaf (leaf_set_fuzziness (dec_of_Z deg)) e]).
        { apply (transparent_case (Proximity m t deg impl) t cx _ (leaf_set_fuzziness (dec_of_Z deg))
                    [MFuzzy (dec_of_Z deg)] its Hw Hnf); [reflexivity| | |].
        * intros l _. apply good_fuzz.
        * intros ms F HF l l' Hl. rewrite apply_mods_snoc. apply HF. apply sim_fuzz. exact Hl.
        * intros ms. unfold D. rewrite noname_propagate. simpl den_at.
          change (ctx_is_analyzed cfg (noname cx)) with (ctx_is_analyzed cfg cx). rewrite Ha. reflexivity.
          }
        destruct Hres as (e & -> & Hres). simpl in Hv. inversion Hv; subst items. exact Hres.
    - (* Boost *)
      simpl in Hv. child_visit Hv Hw its. inversion HS as [|? ? (HSc & Hsc & Hbc) _]; subst.
      pose proof (proj1 (HSc Hsc Hbc) _ _ Hw) as Hnf.
      assert (Hres : exists e, its = [e] /\ NF (Boost m t force impl) cx [on_leaf (leaf_set_boost force) e]).
      { apply (transparent_case (Boost m t force impl) t cx _ (leaf_set_boost force) [] its Hw Hnf); [reflexivity| | |].
      + intros l Hl. rewrite good_boost. exact Hl.
      + intros ms F HF l l' Hl. rewrite app_nil_r. apply HF.
        eapply leaf_sim_trans; [apply sim_boost|exact Hl].
      + intros ms. rewrite app_nil_r. unfold D. rewrite noname_propagate. reflexivity.
        }
      destruct Hres as (e & -> & Hres). simpl in Hv. inversion Hv; subst items. exact Hres.
    - (* And *)
      ops_visit Hv Hw its. simpl in Hv. inversion Hv; subst items.
      apply (conj_item (Op KAnd m ops) cx its); try reflexivity. apply Hflat; [reflexivity|exact Hw].
    - (* Or *)
      ops_visit Hv Hw its. simpl in Hv. inversion Hv; subst items.
      apply (disj_item (Op KOr m ops) cx its); try reflexivity. apply Hflat; [reflexivity|exact Hw].
    - (* Unknown *)
      ops_visit Hv Hw its. destruct (c_default_operator cfg) eqn:Hop; simpl in Hv; inversion Hv; subst items.
      + apply (disj_item (Op KUnknown m ops) cx its); try (simpl; rewrite Hop; reflexivity); try (intros ms; unfold D; simpl; rewrite Hop; reflexivity).
        apply Hflat; [simpl; rewrite Hop; reflexivity|exact Hw].
      + apply (conj_item (Op KUnknown m ops) cx its); try (simpl; rewrite Hop; reflexivity); try (intros ms; unfold D; simpl; rewrite Hop; reflexivity).
        apply Hflat; [simpl; rewrite Hop; reflexivity|exact Hw].
      + apply (conj_item (Op KUnknown m ops) cx its); try (simpl; rewrite Hop; reflexivity); try (intros ms; unfold D; simpl; rewrite Hop; reflexivity).
        apply Hflat; [simpl; rewrite Hop; reflexivity|exact Hw].
    - (* Bool *)
      ops_visit Hv Hw its. simpl in Hv. inversion Hv; subst items.
      simpl in Hb. apply andb_prop in Hb as [_ Hok].
      assert (Hnb : forall c, In c ops -> cls_eqb (cls_of c) CBoolOperation = false).
      { intros c Hin. rewrite forallb_forall in Hok. specialize (Hok c Hin).
        destruct c as [[]| |[]| | | | |[]|[]|[]|]; try reflexivity. discriminate Hok. }
      destruct (walk_ops _ _ _ _ HS (fun c Hin He => ltac:(rewrite (Hnb c Hin) in He; discriminate He)) Hw)
        as [parts [-> HF]].
      pose proof (forall2_nf _ _ _ _ (fun c Hin => not_cls_not_flattened c _ (Hnb c Hin)) HF) as HF'.
      destruct (parts_good _ _ _ _ HF) as [Hg Hne].
      exists (EOp EKBool (concat parts)). split; [reflexivity|]. split; [exact Hg|].
      split; [apply supported_op_length in Hs; destruct (concat parts);
              [exfalso; apply Hne; [destruct ops; [simpl in Hs; lia|discriminate]|reflexivity]|reflexivity]|].
      split; [reflexivity|]. intros ms F _. unfold EV. simpl on_leaf. unfold ev. simpl eeval. fold ev.
      pose proof (bool_sem _ _ _ HF' Hok) as Hbs. cbv zeta in Hbs.
      destruct (eparts ev (concat parts)) as [[mm ss] nn]. destruct Hbs as (J1 & J2 & J3 & J4).
      unfold D in *. rewrite noname_propagate in *. simpl den_at. unfold opt in *.
      rewrite <- J1, <- J2, <- J3, <- J4. unfold bool_matches.
      destruct mm, ss; simpl; rewrite ?andb_true_r, ?orb_true_r; reflexivity.
    - (* Plus *)
      ops_visit Hv Hw its. simpl in Hv. inversion Hv; subst items.
      apply (conj_item (Unary KPlus m t) cx its); try reflexivity. apply Hflat; [reflexivity|exact Hw].
    - (* Not *)
      simpl in Hv. child_visit Hv Hw its. inversion HS as [|? ? (HSc & Hsc & Hbc) _]; subst.
      destruct (proj1 (HSc Hsc Hbc) _ _ Hw) as (e & -> & Hg & Hne & Hk & Hev).
      simpl in Hv. inversion Hv; subst items. apply (neg_item (Unary KNot m t) t cx e); auto.
    - (* Prohibit *)
      simpl in Hv. child_visit Hv Hw its. inversion HS as [|? ? (HSc & Hsc & Hbc) _]; subst.
      destruct (proj1 (HSc Hsc Hbc) _ _ Hw) as (e & -> & Hg & Hne & Hk & Hev).
      simpl in Hv. inversion Hv; subst items. apply (neg_item (Unary KProhibit m t) t cx e); auto.
  Qed.
End Main.

Lemma no_nested_code cfg :
  nested_paths cfg = [] -> forall p, In p (ev_nested_prefixes (mk_env cfg)) -> p = [].
Proof.
  unfold nested_paths. intros H p Hin. simpl in Hin. unfold prefixes_of in Hin.
  apply mem_str_In in Hin. rewrite mem_dedup in Hin. apply mem_str_In in Hin.
  apply in_map_iff in Hin as [q [Hq Hin]]. fold (declared_nested cfg) in Hin.
  destruct p as [|c p']; [reflexivity|]. exfalso.
  assert (Hf : In (c :: p') (filter nonempty_path (flat_map ancestors (declared_nested cfg)))).
  { apply filter_In. split; [|reflexivity]. apply in_flat_map. exists q. split; [exact Hin|].
    rewrite <- Hq. apply parent_in_ancestors. }
  rewrite H in Hf. exact Hf.
Qed.

(* the boolean skeleton: without nested fields and without F6, the query the builder returns matches
   exactly the documents the tree denotes *)
Lemma build_sem cfg t j :
  supported t = true -> wf_config cfg = true -> sem_config cfg = true ->
  nested_paths cfg = [] -> plain_tree cfg t = true ->
  build cfg t = ROk j -> forall d, es_matches cfg j d = den cfg t d.
Proof.
  intros Hs Hwf Hsem Hnn Hb Hbuild d. pose proof (no_nested_code cfg Hnn) as Hnp.
  unfold build, build_etree, build_etree_env in Hbuild.
  destruct (check_nested (ev_chk (mk_env cfg)) t); [discriminate Hbuild|].
  destruct (visit cfg (mk_env cfg) t None ctx0) as [items|] eqn:Hv; [|discriminate Hbuild].
  destruct (proj1 (visit_sem cfg d Hnp t Hs Hb) ctx0 items Hv) as (e & -> & Hg & _ & _ & Hev).
  unfold es_matches, den. rewrite Hnn.
  rewrite (es_eval_ejson cfg [] Hsem e j [] d Hg Hbuild).
  specialize (Hev [] (fun l => l) (fsim_id_id)). unfold EV, ev in Hev. rewrite on_leaf_id in Hev.
  exact Hev.
Qed.
