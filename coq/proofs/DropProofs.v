(* DropProofs.v — C01 WITHOUT GUARD: what the printed form of every accepted query is.

   1. `exp_render` (Drops.v): compositional lemmas (context independence, concatenation), and its equality
      with the two-stage definition `render (respell_toks (f1_cut toks))`.
   2. The lexer gives a head to the first token only, whatever the lexical outcome (lex_heads_any).
   3. Cell invariant `cellf`: a stack value under a TERMINAL is the untouched value of its token; a value
      under a NONTERMINAL is an item that prints exactly `exp_render` of the tokens it was built from, whose
      first token is neither a colon nor a `~`, and which is an operation only under `expression`, with
      empty head and tail.  `all_cells_ok`: every production of the generated grammar keeps it
      (25 cases, one per `p_*` function and alternative).
   4. Driver on the generated tables (stack typing as in LRTyping / RespellProofs, with the token segments
      alongside): parse_characterised.
   5. Corollaries: staged form, F1-free inputs, the exact loss.
   6. ANY tables, no guard: every semantic action turns the text of its parts into the text of its result by
      exactly its ghost events (run_action_edited), hence the printed tree is the input edited by the events of
      the run (parse_with_edited); lengths; C01_any_tables as a corollary. *)
Require Import Base Decimal Tree GenTree GenParser Lexer Print Actions LR Parser Drops TreeInd Respace Spans.
Require Import LexerProofs ActionProofs LRProofs SpanProofs LRTermination LRTyping C01 RespellProofs RespaceProofs BridgeProofs.
From Coq Require Import Lia Permutation.

(* ================================================================ 1. exp_render *)

Definition oapp (a b : option str) : option str :=
  match a, b with Some x, Some y => Some (x ++ y) | _, _ => None end.

(* the first token is neither a colon (whose head F1 may drop) nor a `~` (whose printed numeral depends on
   the token before) *)
Definition head_safe (seg : list token) : Prop :=
  match seg with t :: _ => tk_type t <> T_COLUMN /\ tk_type t <> T_APPROX | [] => False end.

Lemma printed_lexeme_ctx p q t : tk_type t <> T_APPROX -> printed_lexeme p t = printed_lexeme q t.
Proof. unfold printed_lexeme. destruct (tk_type t); congruence. Qed.

Lemma kept_head_ctx p q t : tk_type t <> T_COLUMN -> kept_head p t = kept_head q t.
Proof.
  unfold kept_head. intros H. destruct (tk_type t); try congruence;
    destruct p as [[]|]; destruct q as [[]|]; reflexivity.
Qed.

Lemma kept_tail_ctx t nx : nx <> Some T_COLUMN -> kept_tail t nx = tk_tail t.
Proof.
  unfold kept_tail. intros H. destruct (tk_type t); try reflexivity. destruct nx as [[]|]; congruence.
Qed.

Lemma exp_render_ctx p q seg : head_safe seg -> exp_render p seg = exp_render q seg.
Proof.
  destruct seg as [|t r]; [intros []|]. intros [H1 H2]. simpl.
  rewrite (printed_lexeme_ctx p q t H2), (kept_head_ctx p q t H1). reflexivity.
Qed.

Lemma next_type_safe b : head_safe b -> next_type b <> Some T_COLUMN.
Proof. destruct b as [|t r]; [intros []|]. intros [H _] E. simpl in E. congruence. Qed.

Lemma exp_render_app : forall a p b, head_safe b ->
  exp_render p (a ++ b) = oapp (exp_render p a) (exp_render None b).
Proof.
  induction a as [|t a IH]; intros p b Hb.
  - simpl. rewrite (exp_render_ctx p None b Hb). destruct (exp_render None b); reflexivity.
  - simpl. rewrite IH by exact Hb.
    assert (E : kept_tail t (next_type (a ++ b)) = kept_tail t (next_type a)).
    { destruct a as [|t2 a2]; [|reflexivity]. simpl.
      rewrite !kept_tail_ctx; [reflexivity|discriminate|apply next_type_safe; exact Hb]. }
    rewrite E. destruct (printed_lexeme p t); [|reflexivity].
    destruct (exp_render (Some (tk_type t)) a); [|reflexivity].
    destruct (exp_render None b); simpl; [|reflexivity]. rewrite <- !app_assoc. reflexivity.
Qed.

Lemma head_safe_app a b : head_safe a -> head_safe (a ++ b).
Proof. destruct a; [intros []|exact (fun H => H)]. Qed.

(* one token *)
Definition exp_tok (p : option tok) (t : token) (nx : option tok) : option str :=
  match printed_lexeme p t with Some l => Some (kept_head p t ++ l ++ kept_tail t nx) | None => None end.

Lemma exp_render_cons p t r :
  exp_render p (t :: r) = oapp (exp_tok p t (next_type r)) (exp_render (Some (tk_type t)) r).
Proof.
  simpl. unfold exp_tok. destruct (printed_lexeme p t); [|reflexivity].
  destruct (exp_render (Some (tk_type t)) r); simpl; [|reflexivity]. rewrite <- !app_assoc. reflexivity.
Qed.

(* a token that is neither TERM, COLUMN, APPROX nor BOOST stands as it is in the input *)
Definition plain_type (ty : tok) : bool :=
  match ty with T_TERM | T_COLUMN | T_APPROX | T_BOOST => false | _ => true end.

Lemma exp_tok_plain p t nx : plain_type (tk_type t) = true -> exp_tok p t nx = Some (tok_text t).
Proof.
  unfold exp_tok, printed_lexeme, kept_head, kept_tail, tok_text.
  destruct (tk_type t); try discriminate; intros _; destruct p as [[]|]; reflexivity.
Qed.

Lemma exp_tok_term p t nx : tk_type t = T_TERM -> nx <> Some T_COLUMN -> exp_tok p t nx = Some (tok_text t).
Proof.
  intros Hty Hnx. unfold exp_tok, printed_lexeme, kept_head, tok_text. rewrite Hty, kept_tail_ctx by exact Hnx.
  destruct p as [[]|]; reflexivity.
Qed.

(* the fused form is the two-stage definition *)
Lemma printed_lexeme_cut p t h w :
  printed_lexeme p (mkTok (tk_type t) (tk_lexeme t) (tk_pos t) h w) = printed_lexeme p t.
Proof. reflexivity. Qed.

Lemma exp_render_staged : forall ts p,
  exp_render p ts = match respell_toks p (f1_cut p ts) with Some r => Some (render r) | None => None end.
Proof.
  induction ts as [|t r IH]; intros p; [reflexivity|].
  simpl exp_render. simpl f1_cut. simpl respell_toks. rewrite printed_lexeme_cut.
  destruct (printed_lexeme p t) as [l|]; [|reflexivity].
  rewrite IH. destruct (respell_toks (Some (tk_type t)) (f1_cut (Some (tk_type t)) r)); [|reflexivity].
  unfold render. simpl. f_equal. unfold tok_text. simpl. rewrite <- !app_assoc. reflexivity.
Qed.

(* ================================================================ 2. the lexer's heads, any lexical outcome *)

Theorem lex_heads_any s toks e : lex s = (toks, e) -> heads_ok toks.
Proof.
  unfold lex. destruct (lex_raw (S (length s)) [] 0 s) as [raws e0] eqn:Hraw.
  intros H; inversion H; subst; clear H.
  destruct (lex_raw_spec _ _ _ _ _ _ false Hraw) as [_ [Hok _]]; [lia|discriminate|].
  destruct raws as [|r1 raws]; [constructor|].
  simpl in Hok. destruct Hok as [Hp1 [Hl1 [_ Hrest]]].
  assert (Hpos1 : 0 < 0 + length (rk_lexeme r1)) by (destruct (rk_lexeme r1); [congruence|simpl; lia]).
  simpl. destruct (rk_kind r1) as [|k1] eqn:Hk1.
  - rewrite Hp1. simpl.
    destruct raws as [|r2 raws]; [constructor|].
    simpl in Hrest. destruct Hrest as [Hp2 [Hl2 [Hns2 Hrest2]]].
    simpl. destruct (rk_kind r2) eqn:Hk2; [exfalso; apply Hns2; reflexivity|].
    destruct (fold_heads raws [mkTok t (rk_lexeme r2) (rk_pos r2) (rk_lexeme r1) []] _ _ Hrest2) as [H1 _];
      [lia|discriminate|constructor|exact H1].
  - destruct (fold_heads raws [mkTok k1 (rk_lexeme r1) (rk_pos r1) [] []] _ _ Hrest) as [H1 _];
      [lia|discriminate|constructor|exact H1].
Qed.

(* ================================================================ 3. the cell invariant, production by production *)

Definition op_bare (i : item) : Prop :=
  match i with Op _ m _ => m_head m = [] /\ m_tail m = [] | _ => True end.
Definition not_op (i : item) : Prop := match i with Op _ _ _ => False | _ => True end.
Definition nt_shape (n : nonterm) (i : item) : Prop :=
  match n with N_expression => op_bare i | _ => not_op i end.

Lemma not_op_shape n i : not_op i -> nt_shape n i.
Proof. destruct n; simpl; auto. destruct i; simpl; auto. intros []. Qed.

Lemma nt_ok_not_none i : item_nt_ok i = true -> not_none i.
Proof. destruct i; simpl; auto. discriminate. Qed.

Local Opaque htm_pos.

Lemma binary_cell k a opv b v evs :
  binary k a opv b = Ok (v, evs) ->
  item_nt_ok a = true -> item_nt_ok b = true -> op_bare a -> op_bare b ->
  Forall not_none (children a) -> Forall not_none (children b) ->
  match opv with
  | Some (VTok l _ m) => l = op_text k /\ m_head m = []
  | Some (VItem _) => False
  | None => op_text k = [] end ->
  exists i, v = VItem i /\ item_nt_ok i = true /\ Forall not_none (children i) /\ op_bare i /\
            print true i = print true a ++ opt_text opv ++ print true b /\ all_trivial evs.
Proof.
  intros H Ha Hb Hba Hbb Hca Hcb Ho.
  assert (Htriv : all_trivial evs).
  { revert H. unfold binary.
    destruct (if match b with Op k' _ _ => opk_eqb k k' | _ => false end then children b else [b])
      as [|b0 brest] eqn:HB; [discriminate|].
    destruct (htm_pos _ false false) as [pos size]. intros H. inversion H; subst; clear H.
    apply all_trivial_app. split.
    - apply all_trivial_drops. rewrite !Forall_app. split; [|split; [|split]].
      + destruct a; try constructor. destruct (opk_eqb k k0); [|constructor].
        simpl in Hba. destruct Hba as [E1 E2]. unfold head_of, tail_of. simpl. rewrite E1, E2. repeat constructor.
      + destruct b; try constructor. destruct (opk_eqb k k0); [|constructor].
        simpl in Hbb. destruct Hbb as [E1 E2]. unfold head_of, tail_of. simpl. rewrite E1, E2. repeat constructor.
      + destruct opv as [[i0|l0 x0 m0]|]; [destruct Ho| |constructor]. destruct Ho as [_ E]. rewrite E. repeat constructor.
      + destruct a; try constructor. destruct (opk_eqb k k0); [|constructor].
        simpl. simpl in Ha. destruct ops; [discriminate|constructor].
    - destruct opv as [[i0|l0 x0 m0]|]; [constructor| |].
      + destruct Ho as [E _]. constructor; [exact E|constructor].
      + constructor; [simpl; symmetry; exact Ho|constructor]. }
  pose proof (nt_ok_not_none _ Ha) as Hna. pose proof (nt_ok_not_none _ Hb) as Hnb.
  destruct (binary_text _ _ _ _ _ _ H Htriv Hna Hnb Hcb) as [Htxt _].
  pose proof (binary_children _ _ _ _ _ _ H Hna Hnb Hca Hcb) as Hch.
  revert H Htxt Hch. unfold binary.
  destruct (if match b with Op k' _ _ => opk_eqb k k' | _ => false end then children b else [b])
    as [|b0 brest] eqn:HB; [discriminate|].
  destruct (htm_pos _ false false) as [pos size]. intros H Htxt Hch. inversion H; subst; clear H.
  eexists. split; [reflexivity|]. split; [|split; [exact Hch|split; [simpl; auto|split; [exact Htxt|exact Htriv]]]].
  simpl. destruct (if match a with Op k' _ _ => opk_eqb k k' | _ => false end then children a else [a]); reflexivity.
Qed.

Definition cellf (X : sym) (v : symval) (seg : list token) : Prop :=
  match X with
  | ST ty => exists t, seg = [t] /\ v = token_value t /\ tk_type t = ty /\ tok_wf t
  | SN n => exists i, v = VItem i /\ item_nt_ok i = true /\ Forall not_none (children i) /\
                      exp_render None seg = Some (print true i) /\ head_safe seg /\ nt_shape n i
  end.
Definition cellp (X : sym) (p : symval * list token) : Prop := cellf X (fst p) (snd p).

Definition prod_cell_ok (pr : nonterm * list sym * action_name) : Prop :=
  forall ps v evs, Forall2 cellp (snd (fst pr)) ps -> heads_ok (concat (map snd ps)) ->
    run_action (snd pr) (map fst ps) = Ok (v, evs) -> cellf (SN (fst (fst pr))) v (concat (map snd ps)).

Ltac cells :=
  repeat match goal with
  | H : cellp _ ?p |- _ => destruct p as [? ?]; unfold cellp in H; cbn [fst snd cellf] in H
  end;
  repeat match goal with
  | H : exists _, _ |- _ => destruct H
  | H : _ /\ _ |- _ => destruct H
  end; subst.

Ltac wf_facts :=
  repeat match goal with
  | Hty : tk_type ?t = _, Hwf : tok_wf ?t |- _ => unfold tok_wf in Hwf; rewrite Hty in Hwf; simpl in Hwf
  end;
  repeat match goal with
  | H : _ \/ _ |- _ => destruct H as [H|H]
  | H : (_, _) = (_, _) |- _ => inversion H; clear H
  | H : False |- _ => destruct H
  end.

Ltac start HF Hh Hrun :=
  simpl in HF; inv_f2; cells; cbn [map fst snd concat app] in *; rewrite ?app_nil_r in *;
  unfold token_value in Hrun;
  repeat match goal with H : tk_type _ = _ |- _ => rewrite H in Hrun end.

Lemma hn_after a t b : head_safe a -> heads_ok (a ++ t :: b) -> tk_head t = [].
Proof.
  intros Ha Hh. apply heads_ok_hn in Hh; [|destruct a; [destruct Ha|discriminate]].
  inversion Hh; assumption.
Qed.

Lemma unit_cell n n' i seg : 
  cellf (SN n) (VItem i) seg -> (nt_shape n i -> nt_shape n' i) -> cellf (SN n') (VItem i) seg.
Proof.
  intros [i0 [E [H1 [H2 [H3 [H4 H5]]]]]] Hs. inversion E; subst i0.
  exists i. auto 10.
Qed.

Lemma term_cell k n t :
  plain_type (tk_type t) = true \/ tk_type t = T_TERM -> tk_type t <> T_COLUMN -> tk_type t <> T_APPROX ->
  cellf (SN n) (VItem (Term k (mkMeta (Some (Z.of_nat (tk_pos t))) (Some (zlen (tk_lexeme t))) (tk_head t) (tk_tail t) None)
                             (tk_lexeme t))) [t].
Proof.
  intros Hp H1 H2. eexists. split; [reflexivity|]. split; [reflexivity|]. split; [constructor|].
  split; [|split; [split; assumption|apply not_op_shape; exact I]].
  rewrite exp_render_cons. simpl exp_render.
  assert (E : exp_tok None t (next_type []) = Some (tok_text t)).
  { destruct Hp as [Hp|Hp]; [apply exp_tok_plain; exact Hp|apply exp_tok_term; [exact Hp|discriminate]]. }
  rewrite E. simpl. rewrite app_nil_r. reflexivity.
Qed.


Ltac hs := first [assumption | apply head_safe_app; assumption
                 | (simpl; match goal with H : tk_type ?t = _ |- tk_type ?t <> _ /\ _ => rewrite H; split; discriminate end)].
Ltac plain := match goal with H : tk_type ?t = _ |- plain_type (tk_type ?t) = true => rewrite H; reflexivity end.
Ltac exp_norm :=
  repeat first
    [ rewrite exp_render_app by hs
    | rewrite exp_render_cons
    | rewrite exp_tok_plain by plain
    | match goal with H : exp_render None ?l = Some _, Hs : head_safe ?l |- context [exp_render (Some ?p) ?l] =>
        rewrite (exp_render_ctx (Some p) None l Hs) end
    | match goal with H : exp_render None ?l = Some _ |- context [exp_render None ?l] => rewrite H end ];
  cbn [exp_render oapp].
Ltac nn := first [assumption | exact I | apply nt_ok_not_none; assumption
                 | apply not_none_add_head; nn | apply not_none_add_tail; nn].

Ltac lex_facts :=
  wf_facts;
  repeat match goal with H : ?c = tk_lexeme ?t |- _ => symmetry in H end.
Ltac unary_tac Hrun :=
  lex_facts;
  repeat match goal with H : tk_lexeme _ = _ |- _ => rewrite H in Hrun end;
  simpl in Hrun; unfold unary_ht in Hrun; inversion Hrun; subst; clear Hrun;
  eexists; split; [reflexivity|]; split; [reflexivity|]; split; [constructor; [nn|constructor]|];
  split; [|split; [hs|apply not_op_shape; exact I]];
  exp_norm; simpl print; unfold wrap; cbn [m_head m_tail mk_meta]; rewrite print_add_head by nn;
  unfold tok_text, sv_head, sv_tail; simpl;
  repeat match goal with H : tk_lexeme _ = _ |- _ => rewrite H end;
  simpl; rewrite <- ?app_assoc; rewrite ?app_nil_r; reflexivity.

Ltac node_body Hrun :=
  repeat match goal with H : tk_lexeme _ = _ |- _ => rewrite H in Hrun end;
  simpl in Hrun; unfold unary_ht, post_unary_ht in Hrun; inversion Hrun; subst; clear Hrun;
  eexists; split; [reflexivity|]; split; [reflexivity|]; split; [repeat (apply Forall_cons; [nn|]); apply Forall_nil|];
  split; [|split; [hs|apply not_op_shape; exact I]];
  exp_norm; simpl print; unfold wrap; cbn [m_head m_tail mk_meta];
  rewrite ?print_add_tail by nn; rewrite ?print_add_head by nn;
  unfold tok_text, sv_head, sv_tail; simpl;
  repeat match goal with H : tk_lexeme _ = _ |- _ => rewrite H end;
  simpl; norm_app; reflexivity.
Ltac node_tac Hrun := lex_facts; node_body Hrun.

Lemma printed_bare p t c : (tk_type t = T_APPROX \/ tk_type t = T_BOOST) -> tk_lexeme t = [c] ->
  printed_lexeme p t = Some [c].
Proof. intros [H|H] Hl; unfold printed_lexeme; rewrite H, Hl; reflexivity. Qed.

Lemma printed_approx p t d : tk_type t = T_APPROX -> tk_lexeme t = c_tilde :: d -> d <> [] ->
  printed_lexeme p t =
    match p with
    | Some T_PHRASE => match int_of_lexeme d with Some z => Some (c_tilde :: Z_to_str z) | None => None end
    | Some T_TERM =>
        match dec_of_lexeme d with Some f => Some (c_tilde :: dec_to_fstr (dec_normalize f)) | None => None end
    | _ => None
    end.
Proof. intros H Hl Hd. unfold printed_lexeme. rewrite H, Hl. simpl tl. destruct d; [congruence|reflexivity]. Qed.

Lemma printed_boost p t d : tk_type t = T_BOOST -> tk_lexeme t = c_caret :: d -> d <> [] ->
  printed_lexeme p t =
    match dec_of_lexeme d with Some f => Some (c_caret :: dec_to_fstr (dec_normalize f)) | None => None end.
Proof. intros H Hl Hd. unfold printed_lexeme. rewrite H, Hl. simpl tl. destruct d; [congruence|reflexivity]. Qed.

(* expr OP with a numeral: the result is built, the obligations but the text are closed, the text goal is
   unfolded up to the printed lexeme of the last token *)
Ltac post_tac Hrun :=
  simpl in Hrun; unfold post_unary_ht in Hrun; inversion Hrun; subst; clear Hrun;
  eexists; split; [reflexivity|]; split; [reflexivity|];
  split; [apply Forall_cons; [nn|apply Forall_nil]|];
  split; [|split; [hs|apply not_op_shape; exact I]].
Ltac fin_post :=
  simpl print; unfold wrap; cbn [m_head m_tail mk_meta]; rewrite ?print_add_tail by nn;
  unfold tok_text, sv_head, sv_tail; simpl; norm_app; reflexivity.

Lemma all_cells_ok : Forall prod_cell_ok gen_prods.
Proof.
  unfold gen_prods.
  repeat (apply Forall_cons; [|]); [..|apply Forall_nil]; intros ps v evs HF Hh Hrun; start HF Hh Hrun.
  - (* or *)
    wf_facts. simpl in Hrun.
    match goal with Ha : head_safe ?a, Hh : heads_ok (?a ++ ?t :: _) |- _ => pose proof (hn_after _ _ _ Ha Hh) as Hhd end.
    destruct (binary_cell _ _ _ _ _ _ Hrun) as [i [Ev [Hi1 [Hi2 [Hi3 [Hi4 _]]]]]]; auto.
    subst v. exists i. split; [reflexivity|]. split; [exact Hi1|]. split; [exact Hi2|].
    split; [|split; [hs|exact Hi3]].
    exp_norm. rewrite Hi4. unfold tok_text. simpl. rewrite <- !app_assoc. reflexivity.
  - (* and *)
    wf_facts. simpl in Hrun.
    match goal with Ha : head_safe ?a, Hh : heads_ok (?a ++ ?t :: _) |- _ => pose proof (hn_after _ _ _ Ha Hh) as Hhd end.
    destruct (binary_cell _ _ _ _ _ _ Hrun) as [i [Ev [Hi1 [Hi2 [Hi3 [Hi4 _]]]]]]; auto.
    subst v. exists i. split; [reflexivity|]. split; [exact Hi1|]. split; [exact Hi2|].
    split; [|split; [hs|exact Hi3]].
    exp_norm. rewrite Hi4. unfold tok_text. simpl. rewrite <- !app_assoc. reflexivity.
  - (* implicit *)
    simpl in Hrun.
    destruct (binary_cell _ _ _ _ _ _ Hrun) as [i [Ev [Hi1 [Hi2 [Hi3 [Hi4 _]]]]]]; auto.
    subst v. exists i. split; [reflexivity|]. split; [exact Hi1|]. split; [exact Hi2|].
    split; [|split; [hs|exact Hi3]].
    exp_norm. rewrite Hi4. reflexivity.
  - (* plus *) unary_tac Hrun.
  - (* minus *) unary_tac Hrun.
  - (* not *) unary_tac Hrun.
  - (* expression : unary_expression *)
    simpl in Hrun. inversion Hrun; subst. eapply unit_cell; [eexists; eauto 10|]. simpl. destruct x; simpl; tauto.
  - (* grouping *) node_tac Hrun.
  - (* range *) node_tac Hrun.
  - (* possibly_negative_term : MINUS phrase_or_term *) node_tac Hrun.
  - (* possibly_negative_term : phrase_or_term *)
    simpl in Hrun. inversion Hrun; subst. eapply unit_cell; [eexists; eauto 10|]. auto.
  - (* phrase_or_possibly_negative_term : possibly_negative_term *)
    simpl in Hrun. inversion Hrun; subst. eapply unit_cell; [eexists; eauto 10|]. auto.
  - (* phrase_or_possibly_negative_term : PHRASE *)
    simpl in Hrun. inversion Hrun; subst. apply term_cell; [left; plain|congruence|congruence].
  - (* lessthan *) node_tac Hrun.
  - (* greaterthan *) node_tac Hrun.
  - (* field_search: F1 *)
    lex_facts. simpl in Hrun. inversion Hrun; subst; clear Hrun.
    set (e1 := match x with Grp KGroup m0 x2 => Grp KFieldGroup (clone_meta_nameless m0) x2 | _ => x end).
    assert (Hfg : not_none e1 /\ print true e1 = print true x).
    { subst e1. pose proof (nt_ok_not_none _ H2). destruct x; auto. destruct k; auto. }
    destruct Hfg as [Hn1 Hp1].
    eexists. split; [reflexivity|]. split; [reflexivity|].
    split; [constructor; [apply not_none_add_head; exact Hn1|constructor]|].
    split; [|split; [hs|apply not_op_shape; exact I]].
    cbn [exp_render next_type]. unfold printed_lexeme, kept_head, kept_tail. rewrite H11, H8.
    rewrite (exp_render_ctx (Some T_COLUMN) None l H5), H4.
    simpl print. unfold wrap. cbn [m_head m_tail mk_meta]. rewrite print_add_head by exact Hn1. rewrite Hp1.
    unfold head_of, sv_tail. simpl. rewrite H9. simpl. norm_app. reflexivity.
  - (* quoting *)
    simpl in Hrun. inversion Hrun; subst. apply term_cell; [left; plain|congruence|congruence].
  - (* proximity *)
    unfold tok_wf in H3. rewrite H2 in H3. simpl in H3. destruct H3 as [d [Hl Hd]].
    rewrite Hl in Hrun. simpl tl in Hrun. destruct d as [|c0 d0].
    + post_tac Hrun. rewrite !exp_render_cons. rewrite exp_tok_plain by plain. unfold exp_tok.
      rewrite (printed_bare _ _ _ (or_introl H2) Hl). unfold kept_head, kept_tail. rewrite H2, H5. fin_post.
    + remember (c0 :: d0) as ds eqn:Eds.
      assert (Hne : ds <> []) by (subst ds; discriminate). clear Eds.
      simpl in Hrun. destruct (int_of_lexeme ds) as [z|] eqn:Ez; [|discriminate].
      post_tac Hrun. rewrite !exp_render_cons. rewrite exp_tok_plain by plain. unfold exp_tok.
      rewrite (printed_approx _ _ _ H2 Hl Hne), H5, Ez. unfold kept_head, kept_tail. rewrite H2. fin_post.
  - (* boosting *)
    unfold tok_wf in H3. rewrite H2 in H3. simpl in H3. destruct H3 as [d [Hl Hd]].
    rewrite Hl in Hrun. simpl tl in Hrun. destruct d as [|c0 d0].
    + post_tac Hrun. rewrite exp_render_app by hs. rewrite H6. rewrite !exp_render_cons. unfold exp_tok.
      rewrite (printed_bare _ _ _ (or_intror H2) Hl). unfold kept_head, kept_tail. rewrite H2. fin_post.
    + remember (c0 :: d0) as ds eqn:Eds.
      assert (Hne : ds <> []) by (subst ds; discriminate). clear Eds.
      simpl in Hrun. destruct (dec_of_lexeme ds) as [f|] eqn:Ez; [|discriminate].
      post_tac Hrun. rewrite exp_render_app by hs. rewrite H6. rewrite !exp_render_cons. unfold exp_tok.
      rewrite (printed_boost _ _ _ H2 Hl Hne), Ez. unfold kept_head, kept_tail. rewrite H2. fin_post.
  - (* terms *)
    simpl in Hrun. inversion Hrun; subst. apply term_cell; [right; assumption|congruence|congruence].
  - (* fuzzy *)
    unfold tok_wf in H3. rewrite H2 in H3. simpl in H3. destruct H3 as [d [Hl Hd]].
    rewrite Hl in Hrun. simpl tl in Hrun. destruct d as [|c0 d0].
    + post_tac Hrun. rewrite !exp_render_cons. rewrite exp_tok_term by (try assumption; simpl; congruence). unfold exp_tok.
      rewrite (printed_bare _ _ _ (or_introl H2) Hl). unfold kept_head, kept_tail. rewrite H2, H5. fin_post.
    + remember (c0 :: d0) as ds eqn:Eds.
      assert (Hne : ds <> []) by (subst ds; discriminate). clear Eds.
      simpl in Hrun. destruct (dec_of_lexeme ds) as [f|] eqn:Ez; [|discriminate].
      post_tac Hrun. rewrite !exp_render_cons. rewrite exp_tok_term by (try assumption; simpl; congruence). unfold exp_tok.
      rewrite (printed_approx _ _ _ H2 Hl Hne), H5, Ez. unfold kept_head, kept_tail. rewrite H2. fin_post.
  - (* regex *)
    simpl in Hrun. inversion Hrun; subst. apply term_cell; [left; plain|congruence|congruence].
  - (* TO as a term *)
    node_tac Hrun.
  - (* phrase_or_term : TERM *)
    simpl in Hrun. inversion Hrun; subst. apply term_cell; [right; assumption|congruence|congruence].
  - (* phrase_or_term : PHRASE *)
    simpl in Hrun. inversion Hrun; subst. apply term_cell; [left; plain|congruence|congruence].
Qed.

(* ================================================================ 4. the driver on the generated tables *)

Lemma prod_cell_ok_of p lhs rhs a :
  prod_of p = Some (lhs, rhs, a) ->
  forall ps v evs, Forall2 cellp rhs ps -> heads_ok (concat (map snd ps)) ->
    run_action a (map fst ps) = Ok (v, evs) -> cellf (SN lhs) v (concat (map snd ps)).
Proof.
  intros H. destruct p as [|p']; [discriminate|]. simpl in H. apply nth_error_In in H.
  pose proof all_cells_ok as F. rewrite Forall_forall in F. exact (F _ H).
Qed.

Inductive stack_okf : list nat -> list (symval * list token) -> Prop :=
| sf_nil : stack_okf [0] []
| sf_cons s t X p ss ps :
    stack_okf (t :: ss) ps -> trans t X = Some s -> cellp X p -> stack_okf (s :: t :: ss) (p :: ps).

(* one more validation fact: an accepting state is entered from the initial state only, by `expression` *)
Definition accept_entry_ok (s : nat) : bool :=
  if existsb (fun la => match gen_action s la with Accept => true | _ => false end) LRTermination.all_toks
  then forallb (fun e => Nat.eqb (fst e) 0 && sym_eqb (snd e) (SN N_expression)) (incoming s)
  else true.
Lemma accept_entries_ok : forallb accept_entry_ok all_states = true.
Proof. vm_compute. reflexivity. Qed.

Lemma accept_entry s la t X :
  gen_action s la = Accept -> trans t X = Some s -> t = 0 /\ X = SN N_expression.
Proof.
  intros Ha Ht.
  assert (Hs : s < gen_nstates).
  { destruct (le_lt_dec gen_nstates s) as [Hs|Hs]; [|exact Hs]. rewrite gen_action_oob in Ha by exact Hs. discriminate. }
  pose proof accept_entries_ok as F. rewrite forallb_forall in F. specialize (F s (all_states_complete s Hs)).
  unfold accept_entry_ok in F.
  assert (E : existsb (fun la => match gen_action s la with Accept => true | _ => false end) LRTermination.all_toks = true).
  { apply existsb_exists. exists la. split; [apply LRTermination.all_toks_complete|rewrite Ha; reflexivity]. }
  rewrite E in F. rewrite forallb_forall in F. specialize (F _ (in_incoming _ _ _ Ht)). simpl in F.
  apply andb_true_iff in F. destruct F as [F1 F2]. apply Nat.eqb_eq in F1. apply sym_eqb_eq in F2. auto.
Qed.

Local Opaque incoming.

Lemma path_soundf lhs : forall rrhs s ss ps,
  stack_okf (s :: ss) ps -> path_check lhs rrhs s = true ->
  length rrhs <= length ps /\
  Forall2 cellp rrhs (firstn (length rrhs) ps) /\
  exists t ss' g, skipn (length rrhs) (s :: ss) = t :: ss' /\
                  stack_okf (t :: ss') (skipn (length rrhs) ps) /\ gen_goto t lhs = Some g.
Proof.
  induction rrhs as [|X rest IH]; intros s ss ps Hst Hpc.
  - simpl in *. split; [lia|]. split; [constructor|].
    destruct (gen_goto s lhs) as [g|] eqn:Hg; [|discriminate]. exists s, ss, g. auto.
  - rewrite path_check_cons in Hpc. inversion Hst as [|s0 t X' v ss0 vs0 Hst' Htr Hk]; subst.
    + rewrite incoming_0 in Hpc. discriminate.
    + destruct (incoming s) as [|e inc] eqn:Hinc; [discriminate|]. rewrite <- Hinc in Hpc.
      rewrite forallb_forall in Hpc. specialize (Hpc _ (in_incoming _ _ _ Htr)). simpl in Hpc.
      apply andb_true_iff in Hpc. destruct Hpc as [Hx Hrest]. apply sym_eqb_eq in Hx. subst X'.
      destruct (IH _ _ _ Hst' Hrest) as [Hlen [Hf2 [t' [ss' [g [Hsk [Hst'' Hg]]]]]]].
      split; [simpl; lia|]. split; [simpl; constructor; assumption|].
      exists t', ss', g. simpl. auto.
Qed.

Lemma stack_okf_bottom ss ps : stack_okf (0 :: ss) ps -> ss = [] /\ ps = [].
Proof.
  intros H. inversion H as [|s t X p ss0 ps0 _ Htr _]; subst; [auto|].
  apply in_incoming in Htr. rewrite incoming_0 in Htr. destruct Htr.
Qed.

Section Driver.
  Variable toks0 : list token.
  Hypothesis Hheads : heads_ok toks0.

  Definition FInv (c : config) : Prop :=
    exists ps, c_vals c = map fst ps /\ stack_okf (c_states c) ps /\
               concat (rev (map snd ps)) ++ c_toks c = toks0 /\ Forall tok_wf (c_toks c).

  Definition stepres_okf (lexerr : option (nat * str)) (r : stepres) : Prop :=
    match r with
    | Next c' => FInv c'
    | Final (Ok i) _ => lexerr = None /\ exp_render None toks0 = Some (print true i)
    | Final (Err _) _ => True
    end.

  Definition inner_okf (c : config) (r : stepres) : Prop :=
    match r with
    | Next c' => FInv c'
    | Final (Ok i) _ => c_toks c = [] /\ exp_render None toks0 = Some (print true i)
    | Final (Err _) _ => True
    end.

  Lemma step_finv lexerr c : FInv c -> stepres_okf lexerr (step gen_tables lexerr c).
  Proof.
    intros [ps [Hv [Hst [Hcat Hwf]]]]. rewrite step_eq. simpl tb_action.
    assert (Hmain : inner_okf c
              match gen_action (hd 0 (c_states c)) (la_of (c_toks c)) with
              | Shift n => do_shift c n
              | Reduce p => do_reduce gen_tables c p
              | Accept => do_accept lexerr c
              | ActErr => Final (Err (syntax_error (hd_error (c_toks c)))) []
              end).
    { assert (Htop : exists s ss, c_states c = s :: ss) by (inversion Hst; eauto).
      destruct Htop as [s [ss Hs]]. rewrite Hs. simpl hd.
      destruct (gen_action s (la_of (c_toks c))) as [n|p| |] eqn:Ha.
      - (* shift *)
        unfold do_shift. destruct (c_toks c) as [|t rest] eqn:Htoks; [exact I|].
        simpl. inversion Hwf as [|? ? Hwt Hwr]; subst.
        exists ((token_value t, [t]) :: ps). simpl. split; [rewrite Hv; reflexivity|]. split; [|split].
        + rewrite Hs in *. simpl in Ha.
          eapply sf_cons with (X := ST (tk_type t)); [exact Hst| |].
          * simpl. rewrite Ha. reflexivity.
          * unfold cellp. simpl. exists t. auto.
        + rewrite concat_app. simpl. rewrite <- !app_assoc. exact Hcat.
        + exact Hwr.
      - (* reduce *)
        pose proof (cells_ok s (la_of (c_toks c))) as Hc. unfold cell_ok in Hc. rewrite Ha in Hc.
        destruct (prod_of p) as [[[lhs rhs] a]|] eqn:Hp; [|discriminate].
        rewrite Hs in Hst.
        destruct (path_soundf lhs _ _ _ _ Hst Hc) as [Hlen [Hf2 [t [ss' [g [Hsk [Hst' Hg]]]]]]].
        rewrite rev_length in *.
        unfold do_reduce. destruct p as [|p']; [discriminate|]. simpl pred. simpl tb_prods. simpl tb_goto.
        simpl in Hp. rewrite Hp. cbv zeta.
        assert (Hl : Nat.ltb (length (c_vals c)) (length rhs) = false).
        { apply Nat.ltb_ge. rewrite Hv, map_length. exact Hlen. }
        rewrite Hl.
        apply F2_rev in Hf2. rewrite rev_involutive in Hf2.
        set (n := length rhs) in *.
        assert (Hargs : rev (firstn n (c_vals c)) = map fst (rev (firstn n ps))).
        { rewrite Hv, firstn_map, map_rev. reflexivity. }
        rewrite Hargs.
        assert (Hsegs : concat (rev (map snd ps)) =
                        concat (rev (map snd (skipn n ps))) ++ concat (map snd (rev (firstn n ps)))).
        { rewrite <- (firstn_skipn n ps) at 1. rewrite map_app, rev_app_distr, concat_app, map_rev. reflexivity. }
        assert (Hhm : heads_ok (concat (map snd (rev (firstn n ps))))).
        { pose proof Hheads as Hx. rewrite <- Hcat, Hsegs, <- app_assoc in Hx.
          apply heads_ok_app_r in Hx. apply heads_ok_app_l in Hx. exact Hx. }
        destruct (run_action a (map fst (rev (firstn n ps)))) as [[v d]|e] eqn:Hrun; [|exact I].
        pose proof (prod_cell_ok_of (S p') lhs rhs a Hp _ _ _ Hf2 Hhm Hrun) as Hcell.
        rewrite Hs, Hsk. simpl hd. rewrite Hg. simpl.
        exists ((v, concat (map snd (rev (firstn n ps)))) :: skipn n ps). simpl.
        split; [rewrite Hv, skipn_map; reflexivity|]. split; [|split].
        + eapply sf_cons with (X := SN lhs); [exact Hst'|exact Hg|exact Hcell].
        + rewrite concat_app. simpl. rewrite app_nil_r. rewrite <- Hsegs. exact Hcat.
        + exact Hwf.
      - (* accept *)
        assert (Hnil : c_toks c = []).
        { apply accept_only_at_end in Ha. destruct (c_toks c) as [|t rest]; [reflexivity|].
          inversion Hwf as [|? ? Hwt _]; subst. unfold tok_wf in Hwt. simpl in Ha. rewrite Ha in Hwt. destruct Hwt. }
        unfold do_accept. rewrite Hs in Hst.
        inversion Hst as [|s0 t X p ss0 ps0 Hst' Htr Hk]; subst.
        + rewrite Hv. exact I.
        + destruct (accept_entry _ _ _ _ Ha Htr) as [Et EX]. subst t X.
          destruct (stack_okf_bottom _ _ Hst') as [_ Eps]. subst ps0.
          destruct p as [pv pseg]. unfold cellp in Hk. simpl in Hk.
          destruct Hk as [i [Ei [_ [_ [Hexp _]]]]]. subst pv.
          rewrite Hv. simpl. split; [exact Hnil|].
          rewrite <- Hcat, Hnil. simpl. rewrite !app_nil_r. exact Hexp.
      - exact I. }
    destruct (c_toks c) as [|t rest] eqn:Htoks.
    - destruct lexerr as [e|]; [exact I|].
      destruct (match gen_action (hd 0 (c_states c)) (la_of []) with
                | Shift n => do_shift c n | Reduce p => do_reduce gen_tables c p
                | Accept => do_accept None c | ActErr => Final (Err (syntax_error (hd_error []))) [] end)
        as [c'|[i|e] evs]; simpl in *; [exact Hmain| |exact I]. destruct Hmain as [_ H]. auto.
    - destruct (match gen_action (hd 0 (c_states c)) (la_of (t :: rest)) with
                | Shift n => do_shift c n | Reduce p => do_reduce gen_tables c p
                | Accept => do_accept lexerr c | ActErr => Final (Err (syntax_error (hd_error (t :: rest)))) [] end)
        as [c'|[i|e] evs]; simpl in *; [exact Hmain| |exact I]. destruct Hmain as [E _]. congruence.
  Qed.

  Lemma run_finv lexerr : forall fuel c i evs, FInv c ->
    run gen_tables lexerr fuel c = Done (Ok i) evs ->
    lexerr = None /\ exp_render None toks0 = Some (print true i).
  Proof.
    induction fuel as [|f IH]; intros c i evs HI H; simpl in H; [discriminate|].
    pose proof (step_finv lexerr c HI) as Hs.
    destruct (step gen_tables lexerr c) as [c'|r' e'].
    - eapply IH; [exact Hs|exact H].
    - inversion H; subst. exact Hs.
  Qed.
End Driver.

(* C01 without guard, generated tables: the printed form of EVERY accepted query is the lexer-side
   `expected_print` *)
Theorem parse_characterised s t : parse s = Some (Ok t) -> expected_print s = Some (print true t).
Proof.
  unfold parse, parse_full, parse_with. destruct (lex s) as [toks e] eqn:Hlex.
  destruct (run gen_tables e (parse_fuel toks) _) as [r evs|] eqn:Hrun; [|discriminate].
  intros E. inversion E; subst r; clear E.
  assert (HI : FInv toks (init_config toks match toks with [] => [GDrop s] | _ :: _ => [] end)).
  { exists []. simpl. split; [reflexivity|]. split; [exact sf_nil|]. split; [reflexivity|].
    exact (lex_tokens_wf _ _ _ Hlex). }
  destruct (run_finv toks (lex_heads_any _ _ _ Hlex) e _ _ _ _ HI Hrun) as [He Hexp].
  subst e. unfold expected_print, expected_tokens, expected_tokens_of. rewrite Hlex.
  rewrite <- exp_render_staged. exact Hexp.
Qed.

(* ================================================================ 5. corollaries *)

Definition is_nil (x : str) : bool := match x with [] => true | _ => false end.

Lemma tok_eta t : mkTok (tk_type t) (tk_lexeme t) (tk_pos t) (tk_head t) (tk_tail t) = t.
Proof. destruct t; reflexivity. Qed.

(* without a blank before any colon, F1 removes nothing *)
Lemma f1_cut_id : forall ts p,
  (p = Some T_TERM -> next_type ts = Some T_COLUMN -> fhead ts = []) ->
  forallb is_nil (f1_blanks ts) = true -> f1_cut p ts = ts.
Proof.
  induction ts as [|t r IH]; intros p Hp Hb; [reflexivity|].
  simpl in Hb. rewrite forallb_app in Hb. apply andb_prop in Hb. destruct Hb as [Hb1 Hb2].
  simpl f1_cut.
  assert (Eh : kept_head p t = tk_head t).
  { unfold kept_head. destruct p as [[]|]; try reflexivity. destruct (tk_type t) eqn:Ety; try reflexivity.
    symmetry. apply Hp; [reflexivity|simpl; rewrite Ety; reflexivity]. }
  assert (Et : kept_tail t (next_type r) = tk_tail t /\
               (tk_type t = T_TERM -> next_type r = Some T_COLUMN -> fhead r = [])).
  { unfold kept_tail. destruct (tk_type t) eqn:Ety; try (split; [reflexivity|discriminate]).
    destruct r as [|t2 r2]; [split; [reflexivity|discriminate]|]. simpl in *.
    destruct (tk_type t2); try (split; [reflexivity|discriminate]).
    simpl in Hb1. destruct (tk_tail t ++ tk_head t2) eqn:E; [|discriminate].
    apply app_eq_nil in E. destruct E as [E1 E2]. split; [symmetry; exact E1|intros _ _; exact E2]. }
  destruct Et as [Et Hnext]. rewrite Eh, Et, tok_eta. f_equal.
  apply IH; [|exact Hb2]. intros Hq. inversion Hq as [Hq']. apply Hnext. exact Hq'.
Qed.

Lemma f1_cut_wf : forall ts p, Forall tok_wf ts -> Forall tok_wf (f1_cut p ts).
Proof.
  induction ts as [|t r IH]; intros p H; [constructor|]. inversion H; subst.
  simpl. constructor; [assumption|apply IH; assumption].
Qed.

Lemma numeral_ev_equiv c d d' : numeral_ev (c :: d) (c :: d') -> numeral_equiv d d'.
Proof. intros [c0 [d0 [d0' [_ [E1 [E2 H]]]]]]. inversion E1; inversion E2; subst. exact H. Qed.

(* re-spelling gives, token by token, C01.same_but_numeral *)
Lemma respell_toks_sbn : forall ts p r, Forall tok_wf ts -> respell_toks p ts = Some r ->
  Forall2 same_but_numeral ts r.
Proof.
  induction ts as [|t ts IH]; intros p r Hwf H; simpl in H.
  - inversion H; constructor.
  - inversion Hwf as [|? ? Hwt Hwr]; subst.
    destruct (printed_lexeme p t) as [l|] eqn:Hl; [|discriminate].
    destruct (respell_toks (Some (tk_type t)) ts) as [r'|] eqn:Hr; [|discriminate].
    inversion H; subst; clear H. constructor; [|eapply IH; eassumption].
    unfold same_but_numeral. simpl. split; [reflexivity|]. split; [reflexivity|]. split; [reflexivity|].
    unfold printed_lexeme in Hl. unfold tok_wf in Hwt.
    destruct (tk_type t) eqn:Ety; try (left; congruence); simpl in Hwt; destruct Hwt as [d [El Hd]];
      rewrite El in Hl |- *; simpl tl in Hl; (destruct d as [|c0 d0]; [left; congruence|]); right;
      (split; [auto|]).
    + destruct p as [[]|]; try discriminate.
      * destruct (dec_of_lexeme (c0 :: d0)) as [f|] eqn:E; [|discriminate]. inversion Hl; subst.
        eexists _, _, _. split; [reflexivity|]. split; [reflexivity|].
        eapply numeral_ev_equiv. apply numeral_ev_dec with (c := c_tilde); [auto|exact E].
      * destruct (int_of_lexeme (c0 :: d0)) as [z|] eqn:E; [|discriminate]. inversion Hl; subst.
        eexists _, _, _. split; [reflexivity|]. split; [reflexivity|].
        eapply numeral_ev_equiv. apply numeral_ev_int with (c := c_tilde); [auto|exact E].
    + destruct (dec_of_lexeme (c0 :: d0)) as [f|] eqn:E; [|discriminate]. inversion Hl; subst.
      eexists _, _, _. split; [reflexivity|]. split; [reflexivity|].
      eapply numeral_ev_equiv. apply numeral_ev_dec with (c := c_caret); [auto|exact E].
Qed.

(* an accepted query has at least one token, and the lexer read all of it *)
Lemma parse_ok_lex s t : parse s = Some (Ok t) ->
  exists toks, lex s = (toks, None) /\ toks <> [] /\ exp_render None toks = Some (print true t).
Proof.
  intros Hp. pose proof (parse_characterised _ _ Hp) as He.
  unfold expected_print, expected_tokens, expected_tokens_of in He.
  destruct (lex s) as [toks [e|]] eqn:Hlex; [discriminate|].
  exists toks. split; [reflexivity|]. rewrite <- exp_render_staged in He. split; [|exact He].
  intros ->. unfold parse, parse_full, parse_with in Hp. rewrite Hlex in Hp. vm_compute in Hp. discriminate.
Qed.

(* the printed form, token by token: the input's tokens with exactly the F1 blanks removed and numerals
   re-spelled as numerically equal plain decimals *)
Theorem parse_f1_exact s t : parse s = Some (Ok t) ->
  exists toks ts, lex s = (toks, None) /\ Forall2 same_but_numeral (f1_cut None toks) ts /\
                  print true t = render ts.
Proof.
  intros Hp. destruct (parse_ok_lex _ _ Hp) as [toks [Hlex [_ He]]].
  rewrite exp_render_staged in He.
  destruct (respell_toks None (f1_cut None toks)) as [ts|] eqn:Hr; [|discriminate].
  inversion He as [He']. exists toks, ts. split; [exact Hlex|]. split; [|reflexivity].
  eapply respell_toks_sbn; [|exact Hr]. apply f1_cut_wf. exact (lex_tokens_wf _ _ _ Hlex).
Qed.

(* C01's own statement for every query without a blank before a colon *)
Theorem parse_f1_only s t : parse s = Some (Ok t) -> no_f1_blank s = true -> respelled s (print true t).
Proof.
  intros Hp Hn. destruct (parse_f1_exact _ _ Hp) as [toks [ts [Hlex [Hf Hr]]]].
  unfold no_f1_blank in Hn. rewrite Hlex in Hn. simpl in Hn.
  rewrite f1_cut_id in Hf; [|discriminate|exact Hn].
  exists toks, ts. auto.
Qed.

(* what F1 costs, in characters *)
Definition is_T (ty : tok) : bool := match ty with T_TERM => true | _ => false end.
Definition is_C (ty : tok) : bool := match ty with T_COLUMN => true | _ => false end.
Definition o_is (f : tok -> bool) (o : option tok) : bool := match o with Some ty => f ty | None => false end.

Lemma kept_head_if p t : kept_head p t = if o_is is_T p && is_C (tk_type t) then [] else tk_head t.
Proof. unfold kept_head. destruct p as [[]|]; simpl; try reflexivity. destruct (tk_type t); reflexivity. Qed.
Lemma kept_tail_if t nx : kept_tail t nx = if is_T (tk_type t) && o_is is_C nx then [] else tk_tail t.
Proof. unfold kept_tail. destruct (tk_type t); simpl; try reflexivity. destruct nx as [[]|]; reflexivity. Qed.
Lemma f1_blanks_if t r :
  f1_blanks (t :: r) =
  (if is_T (tk_type t) && o_is is_C (next_type r) then [tk_tail t ++ fhead r] else []) ++ f1_blanks r.
Proof.
  simpl. f_equal. destruct (tk_type t); simpl; try reflexivity; try (destruct r; reflexivity).
  destruct r as [|t2 r2]; [reflexivity|]. simpl. destruct (tk_type t2); reflexivity.
Qed.
Lemma f1_cut_length : forall ts p,
  length (render ts) =
  length (render (f1_cut p ts)) + total_length (f1_blanks ts) +
  (if o_is is_T p && o_is is_C (next_type ts) then length (fhead ts) else 0).
Proof.
  induction ts as [|t r IH]; intros p; [simpl; rewrite Bool.andb_false_r; reflexivity|].
  simpl f1_cut. rewrite !render_cons, !app_length. rewrite (IH (Some (tk_type t))).
  unfold tok_text. simpl tk_head. simpl tk_lexeme. simpl tk_tail. rewrite !app_length.
  rewrite f1_blanks_if. unfold total_length. rewrite fold_right_app. fold (total_length (f1_blanks r)).
  rewrite kept_head_if, kept_tail_if. simpl next_type. simpl fhead. simpl o_is.
  destruct (o_is is_T p), (is_C (tk_type t)), (is_T (tk_type t)), (o_is is_C (next_type r));
    simpl; rewrite ?app_length; lia.
Qed.

Lemma no_respelling_id : forall ts p, no_respelling_in p ts = true ->
  respell_toks p (f1_cut p ts) = Some (f1_cut p ts).
Proof.
  induction ts as [|t r IH]; intros p H; [reflexivity|].
  simpl in H. apply andb_prop in H. destruct H as [H1 H2].
  simpl f1_cut. simpl respell_toks. rewrite printed_lexeme_cut.
  destruct (printed_lexeme p t) as [l|]; [|discriminate]. apply str_eqb_eq in H1. subst l.
  rewrite (IH _ H2). reflexivity.
Qed.

Lemma f1_blanks_blank : forall ts, Forall blank_ht ts -> Forall (fun b => all_space b = true) (f1_blanks ts).
Proof.
  induction ts as [|t r IH]; intros H; [constructor|]. inversion H as [|? ? [_ Ht] Hr]; subst.
  simpl. apply Forall_app. split; [|apply IH; exact Hr].
  destruct (tk_type t); try constructor. destruct r as [|t2 r2]; [constructor|].
  destruct (tk_type t2); try constructor; [|constructor].
  inversion Hr as [|? ? [Hh2 _] _]; subst. unfold all_space in *. rewrite forallb_app, Ht, Hh2. reflexivity.
Qed.

(* when no numeral is re-spelled: the printed form is the input minus the blank runs before colons *)
Theorem parse_f1_exact_loss s t : parse s = Some (Ok t) -> no_respelling s = true ->
  exists toks, lex s = (toks, None) /\ s = render toks /\
    print true t = render (f1_cut None toks) /\
    Forall (fun b => all_space b = true) (f1_blanks toks) /\
    length s = length (print true t) + total_length (f1_blanks toks).
Proof.
  intros Hp Hn. destruct (parse_ok_lex _ _ Hp) as [toks [Hlex [Hne He]]].
  unfold no_respelling in Hn. rewrite Hlex in Hn. simpl in Hn.
  rewrite exp_render_staged, (no_respelling_id _ _ Hn) in He. inversion He as [He'].
  pose proof (lex_lossless _ _ _ Hlex Hne) as Hl. simpl in Hl. rewrite app_nil_r in Hl.
  exists toks. split; [exact Hlex|]. split; [symmetry; exact Hl|]. split; [reflexivity|].
  split; [apply f1_blanks_blank; eapply lex_blank; eassumption|].
  rewrite <- Hl at 1. rewrite (f1_cut_length toks None). simpl. lia.
Qed.

Lemma total_length_0 : forall l, total_length l = 0 -> forallb is_nil l = true.
Proof.
  induction l as [|x l IH]; [reflexivity|]. unfold total_length. simpl. fold (total_length l). intros H.
  destruct x; [|simpl in H; lia]. simpl. apply IH. simpl in H. exact H.
Qed.

(* F1 is the ONLY deviation: with no numeral re-spelled, the printed form is the input iff no blank stands
   before a field's colon *)
Theorem parse_exact_iff_no_f1 s t : parse s = Some (Ok t) -> no_respelling s = true ->
  (print true t = s <-> no_f1_blank s = true).
Proof.
  intros Hp Hn. destruct (parse_f1_exact_loss _ _ Hp Hn) as [toks [Hlex [Hs [Hpr [_ Hlen]]]]].
  unfold no_f1_blank. rewrite Hlex. simpl. split.
  - intros E. rewrite E in Hlen. apply total_length_0. lia.
  - intros Hb. rewrite Hpr, Hs. rewrite f1_cut_id; [reflexivity|discriminate|exact Hb].
Qed.

(* ================================================================ 6. ANY tables: the printed form is the input edited by the ghost events *)

(* `edited evs a b`: b is a with the events applied — a dropped text removed where it stood, a token text
   replaced by what was printed for it; edits of disjoint parts side by side (ed_app), later edits on the
   result of earlier ones (ed_seq: an operator text printed anew and then lost, a blank moved to a
   neighbour and dropped there) *)
Inductive edited : list gev -> str -> str -> Prop :=
| ed_refl s : edited [] s s
| ed_drop x : edited [GDrop x] x []
| ed_resp a b : edited [GRespell a b] a b
| ed_app e1 e2 a a' b b' : edited e1 a a' -> edited e2 b b' -> edited (e1 ++ e2) (a ++ b) (a' ++ b')
| ed_seq e1 e2 a b c : edited e1 a b -> edited e2 b c -> edited (e1 ++ e2) a c.

Lemma edited_cast e e' a a' b b' : edited e a b -> e = e' -> a = a' -> b = b' -> edited e' a' b'.
Proof. intros H -> -> ->. exact H. Qed.

Lemma ed_pre p e a b : edited e a b -> edited e (p ++ a) (p ++ b).
Proof. intros H. exact (ed_app [] e p p a b (ed_refl p) H). Qed.
Lemma ed_post p e a b : edited e a b -> edited e (a ++ p) (b ++ p).
Proof. intros H. eapply edited_cast; [exact (ed_app e [] a b p p H (ed_refl p))|apply app_nil_r|reflexivity|reflexivity]. Qed.
Lemma ed_mid p q e a b : edited e a b -> edited e (p ++ a ++ q) (p ++ b ++ q).
Proof. intros H. apply ed_pre, ed_post, H. Qed.

(* no non-trivial event: nothing changes *)
Lemma edited_trivial e a b : edited e a b -> all_trivial e -> a = b.
Proof.
  induction 1 as [s|x|x y|e1 e2 a a' b b' _ IH1 _ IH2|e1 e2 a b c _ IH1 _ IH2]; intros Ht.
  - reflexivity.
  - inversion Ht as [|? ? Hx _]; subst. simpl in Hx. subst. reflexivity.
  - inversion Ht as [|? ? Hx _]; subst. exact Hx.
  - apply all_trivial_app in Ht. destruct Ht as [H1 H2]. rewrite (IH1 H1), (IH2 H2). reflexivity.
  - apply all_trivial_app in Ht. destruct Ht as [H1 H2]. rewrite (IH1 H1). apply IH2. exact H2.
Qed.

(* the lengths: every event accounts for its own difference *)
Definition ev_delta (e : gev) : Z :=
  match e with GDrop x => (- zlen x)%Z | GRespell a b => (zlen b - zlen a)%Z end.
Definition evs_delta (l : list gev) : Z := fold_right (fun e z => (ev_delta e + z)%Z) 0%Z l.

Lemma evs_delta_app a b : evs_delta (a ++ b) = (evs_delta a + evs_delta b)%Z.
Proof. induction a as [|e a IH]; simpl; [reflexivity|]. unfold evs_delta in *. simpl. rewrite IH. lia. Qed.

Lemma zlen_app' (a b : str) : zlen (a ++ b) = (zlen a + zlen b)%Z.
Proof. unfold zlen. rewrite app_length. lia. Qed.

Lemma edited_length e a b : edited e a b -> zlen b = (zlen a + evs_delta e)%Z.
Proof.
  induction 1 as [s|x|x y|e1 e2 a a' b b' _ IH1 _ IH2|e1 e2 a b c _ IH1 _ IH2].
  - simpl. lia.
  - unfold evs_delta. simpl. unfold zlen. simpl. lia.
  - unfold evs_delta. simpl. lia.
  - rewrite !zlen_app', evs_delta_app. lia.
  - rewrite evs_delta_app. lia.
Qed.

Lemma evs_delta_perm a b : Permutation a b -> evs_delta a = evs_delta b.
Proof.
  induction 1 as [|x l l' _ IH|x y l|l l' l'' _ IH1 _ IH2]; unfold evs_delta in *; simpl; lia.
Qed.

Lemma perm5 (A B O E R : list gev) : Permutation (A ++ B ++ O ++ E ++ R) ((A ++ (O ++ R) ++ B) ++ E).
Proof.
  rewrite <- !app_assoc. apply Permutation_app_head.
  transitivity ((O ++ E ++ R) ++ B); [apply Permutation_app_comm|].
  rewrite <- !app_assoc. apply Permutation_app_head.
  transitivity (E ++ R ++ B); [rewrite !app_assoc; apply Permutation_app_tail; reflexivity|].
  transitivity ((R ++ B) ++ E); [apply Permutation_app_comm|]. rewrite <- app_assoc. reflexivity.
Qed.

Local Opaque htm_pos.

Lemma drops_app a b : drops (a ++ b) = drops a ++ drops b.
Proof. unfold drops. apply map_app. Qed.

(* create_operation *)
Lemma binary_edited k a opv b v evs :
  binary k a opv b = Ok (v, evs) -> not_none a -> not_none b -> Forall not_none (children b) ->
  match opv with Some (VItem _) => False | _ => True end ->
  exists evs', Permutation evs evs' /\
               edited evs' (print true a ++ opt_text opv ++ print true b) (full_text v) /\ val_ok v.
Proof.
  unfold binary. intros H Ha Hb Hcb Ho.
  set (a_same := match a with Op k' _ _ => opk_eqb k k' | _ => false end) in *.
  set (b_same := match b with Op k' _ _ => opk_eqb k k' | _ => false end) in *.
  set (opsA := if a_same then children a else [a]) in *.
  destruct (if b_same then children b else [b]) as [|b0 brest] eqn:HopsB; [discriminate|].
  destruct (htm_pos _ false false) as [pos size].
  set (op_tail := match opv with Some o => sv_tail o | None => [] end) in *.
  set (dropA := if a_same then [head_of a; tail_of a] else []) in *.
  set (dropB := if b_same then [head_of b; tail_of b] else []) in *.
  set (dropOp := match opv with Some (VTok _ _ m) => [m_head m] | Some (VItem _) => [[0%N]] | None => [] end) in *.
  set (dropE := match opsA with [] => [op_text k] | _ => [] end) in *.
  set (respell := match opv with Some (VTok l _ _) => [GRespell l (op_text k)] | Some (VItem _) => []
                                 | None => [GRespell [] (op_text k)] end) in *.
  inversion H; subst v evs; clear H.
  exists ((drops dropA ++ (drops dropOp ++ respell) ++ drops dropB) ++ drops dropE).
  split.
  { replace (drops (dropA ++ dropB ++ dropOp ++ dropE) ++ respell)
      with (drops dropA ++ drops dropB ++ drops dropOp ++ drops dropE ++ respell)
      by (rewrite !drops_app, <- !app_assoc; reflexivity).
    apply perm5. }
  split; [|exact I].
  assert (Hb0 : not_none b0).
  { destruct b_same; [|inversion HopsB; subst; exact Hb]. rewrite HopsB in Hcb. inversion Hcb; assumption. }
  (* the three parts side by side *)
  assert (EA : edited (drops dropA) (print true a) (join (op_text k) (map (print true) opsA))).
  { subst dropA opsA. destruct a_same eqn:Has.
    - subst a_same. destruct a; try discriminate. apply opk_eqb_eq in Has. subst k0.
      unfold head_of, tail_of. simpl. unfold wrap.
      change (op_str (cls_of_opk k)) with (op_text k).
      eapply edited_cast; [exact (ed_app _ _ _ _ _ _ (ed_drop (m_head m))
                                   (ed_app _ _ _ _ _ _ (ed_refl (join (op_text k) (map (print true) ops))) (ed_drop (m_tail m))))
                          |reflexivity|reflexivity|simpl; apply app_nil_r].
    - simpl. apply ed_refl. }
  assert (EB : edited (drops dropB) (print true b) (join (op_text k) (map (print true) (b0 :: brest)))).
  { subst dropB. destruct b_same eqn:Hbs.
    - subst b_same. destruct b; try discriminate. apply opk_eqb_eq in Hbs. subst k0.
      simpl in HopsB. subst ops. unfold head_of, tail_of. simpl print at 1. unfold wrap.
      change (op_str (cls_of_opk k)) with (op_text k). cbn [meta_of m_head m_tail].
      eapply edited_cast; [exact (ed_app _ _ _ _ _ _ (ed_drop (m_head m))
                                   (ed_app _ _ _ _ _ _ (ed_refl (join (op_text k) (map (print true) (b0 :: brest)))) (ed_drop (m_tail m))))
                          |reflexivity|reflexivity|simpl; apply app_nil_r].
    - inversion HopsB; subst. simpl. apply ed_refl. }
  assert (EO : edited (drops dropOp ++ respell) (opt_text opv) (op_text k ++ op_tail)).
  { subst dropOp respell op_tail. destruct opv as [[i|l vv m]|]; [destruct Ho| |].
    - simpl. exact (ed_app _ _ _ _ _ _ (ed_drop (m_head m)) (ed_app _ _ _ _ _ _ (ed_resp l (op_text k)) (ed_refl (m_tail m)))).
    - simpl. rewrite app_nil_r. apply ed_resp. }
  assert (E1 : edited (drops dropA ++ (drops dropOp ++ respell) ++ drops dropB)
                      (print true a ++ opt_text opv ++ print true b)
                      (join (op_text k) (map (print true) opsA) ++ (op_text k ++ op_tail) ++
                       join (op_text k) (map (print true) (b0 :: brest)))).
  { apply ed_app; [exact EA|]. apply ed_app; [exact EO|exact EB]. }
  eapply ed_seq; [exact E1|].
  match goal with |- edited _ _ (full_text (VItem (Op _ (mk_meta ?ps [] []) ?ops))) =>
    assert (Hv : full_text (VItem (Op k (mk_meta ps [] []) ops)) = join (op_text k) (map (print true) ops))
      by (simpl; unfold wrap; simpl; rewrite app_nil_r; reflexivity);
    rewrite Hv; clear Hv end.
  assert (HR : join (op_text k) (map (print true) (add_head b0 op_tail :: brest))
               = op_tail ++ join (op_text k) (map (print true) (b0 :: brest))).
  { simpl map. rewrite print_add_head by exact Hb0. apply join_cons_head. }
  rewrite map_app. subst dropE. destruct opsA as [|o1 opsA'].
  - change (map (print true) []) with (@nil str). cbn [app]. rewrite HR.
    change (join (op_text k) []) with (@nil N). cbn [app]. rewrite <- app_assoc.
    exact (ed_app _ _ _ _ _ _ (ed_drop (op_text k)) (ed_refl _)).
  - rewrite join_app by discriminate. rewrite HR.
    eapply edited_cast; [apply ed_refl|reflexivity|reflexivity|]. rewrite <- !app_assoc. reflexivity.
Qed.

Lemma concat2 (a b : str) : concat [a; b] = a ++ b.
Proof. simpl. rewrite app_nil_r. reflexivity. Qed.

Lemma unary_edited mk l vv m x printed v evs :
  unary_ht mk (VTok l vv m) x printed = (v, evs) -> not_none x ->
  (forall m' y, print true (mk m' y) = m_head m' ++ printed ++ print true y ++ m_tail m') ->
  (forall m' y, not_none (mk m' y)) -> (forall m' y, children (mk m' y) = [y]) ->
  edited evs (concat (map full_text [VTok l vv m; VItem x])) (full_text v) /\ val_ok v /\ children_ok v.
Proof.
  intros H Hx Hp Hn Hc. destruct (unary_ht_text_ev _ _ _ _ _ _ _ _ H Hx Hp Hn Hc) as [Ht [H1 [H2 [He _]]]].
  split; [|auto]. subst evs. rewrite Ht. simpl map. rewrite concat2. cbn [full_text].
  apply ed_post. apply ed_mid. apply ed_resp.
Qed.

Lemma post_unary_edited mk l vv m x printed v evs :
  post_unary_ht mk x (VTok l vv m) [GRespell l printed] = (v, evs) -> not_none x ->
  (forall m' y, print true (mk m' y) = m_head m' ++ print true y ++ printed ++ m_tail m') ->
  (forall m' y, not_none (mk m' y)) -> (forall m' y, children (mk m' y) = [y]) ->
  edited evs (concat (map full_text [VItem x; VTok l vv m])) (full_text v) /\ val_ok v /\ children_ok v.
Proof.
  intros H Hx Hp Hn Hc. destruct (post_unary_ht_text_ev _ _ _ _ _ _ _ _ H Hx Hp Hn Hc) as [Ht [H1 [H2 [He _]]]].
  split; [|auto]. subst evs. rewrite Ht. simpl map. rewrite concat2. cbn [full_text].
  apply ed_pre. apply ed_mid. apply ed_resp.
Qed.

Ltac un_case H v evs :=
  match type of H with Ok ?e = Ok _ =>
    let Hu := fresh "Hu" in
    assert (Hu : e = (v, evs)) by congruence;
    destruct (unary_edited _ _ _ _ _ _ _ _ Hu) as [Hu1 [Hu2 Hu3]]; auto;
      try (intros; simpl; unfold wrap; rewrite <- ?app_assoc; reflexivity); try (intros; exact I);
    exists evs; split; [apply Permutation_refl|split; [exact Hu1|auto]]
  end.
Ltac po_case H v evs :=
  match type of H with Ok ?e = Ok _ =>
    let Hu := fresh "Hu" in
    assert (Hu : e = (v, evs)) by congruence;
    destruct (post_unary_edited _ _ _ _ _ _ _ _ Hu) as [Hu1 [Hu2 Hu3]]; auto;
      try (intros; simpl; unfold wrap; norm_app; reflexivity); try (intros; exact I);
    exists evs; split; [apply Permutation_refl|split; [exact Hu1|auto]]
  end.

(* every semantic action, WITHOUT any hypothesis on its events: the text of the result is the text of the parts
   edited by the events *)
Theorem run_action_edited a args v evs :
  run_action a args = Ok (v, evs) -> Forall val_ok args -> Forall children_ok args ->
  exists evs', Permutation evs evs' /\ edited evs' (concat (map full_text args)) (full_text v) /\
               val_ok v /\ children_ok v.
Proof.
  intros H Hok Hch.
  assert (Hunit : forall x, args = [x] -> v = x -> evs = [] ->
            exists evs', Permutation evs evs' /\ edited evs' (concat (map full_text args)) (full_text v) /\
                         val_ok v /\ children_ok v).
  { intros x E1 E2 E3. subst. exists []. split; [constructor|]. simpl. rewrite app_nil_r.
    split; [apply ed_refl|]. inversion Hok; inversion Hch; subst. auto. }
  destruct a; simpl in H;
    repeat match type of H with
    | match ?l with [] => _ | _ :: _ => _ end = _ => destruct l as [|? ?]; try discriminate
    | match ?x with VItem _ => _ | VTok _ _ _ => _ end = _ => destruct x; try discriminate
    | match ?o with Some _ => _ | None => _ end = _ => destruct o eqn:?; try discriminate
    | match ?i with Term _ _ _ => _ | _ => _ end = _ => destruct i; try discriminate
    end;
    try (inv_ok H; eapply Hunit; reflexivity).
  all: repeat match goal with
       | Hx : Forall val_ok (_ :: _) |- _ => apply Forall_cons_iff in Hx; destruct Hx as [? Hx]
       | Hx : Forall children_ok (_ :: _) |- _ => apply Forall_cons_iff in Hx; destruct Hx as [? Hx]
       end.
  all: simpl val_ok in *; simpl children_ok in *.
  - (* or *)
    destruct (binary_edited _ _ _ _ _ _ H) as [evs' [Hp [He Hvo]]]; auto.
    exists evs'. split; [exact Hp|]. split; [|split; [exact Hvo|eapply binary_children; eauto]].
    eapply edited_cast; [exact He|reflexivity|simpl; rewrite app_nil_r, <- ?app_assoc; reflexivity|reflexivity].
  - (* and *)
    destruct (binary_edited _ _ _ _ _ _ H) as [evs' [Hp [He Hvo]]]; auto.
    exists evs'. split; [exact Hp|]. split; [|split; [exact Hvo|eapply binary_children; eauto]].
    eapply edited_cast; [exact He|reflexivity|simpl; rewrite app_nil_r, <- ?app_assoc; reflexivity|reflexivity].
  - (* implicit *)
    destruct (binary_edited _ _ _ _ _ _ H) as [evs' [Hp [He Hvo]]]; auto.
    exists evs'. split; [exact Hp|]. split; [|split; [exact Hvo|eapply binary_children; eauto]].
    eapply edited_cast; [exact He|reflexivity|simpl; rewrite app_nil_r; reflexivity|reflexivity].
  - un_case H v evs.
  - un_case H v evs.
  - un_case H v evs.
  - (* grouping *)
    inv_ok H. eexists. split; [apply Permutation_refl|]. split; [|split; [exact I|]].
    + eapply edited_cast;
        [exact (ed_app _ _ _ _ _ _ (ed_mid (m_head m) (m_tail m) _ _ _ (ed_resp lexeme [c_lparen]))
                 (ed_app _ _ _ _ _ _ (ed_refl (print true i))
                    (ed_mid (m_head m0) (m_tail m0) _ _ _ (ed_resp lexeme0 [c_rparen]))))
        |reflexivity| |].
      * simpl. norm_app. reflexivity.
      * simpl. unfold wrap. simpl. rewrite print_add_tail by (apply not_none_add_head; assumption).
        rewrite print_add_head by assumption. norm_app. reflexivity.
    + simpl. constructor; [apply not_none_add_tail, not_none_add_head; assumption|constructor].
  - (* range *)
    inv_ok H. eexists. split; [apply Permutation_refl|]. split; [|split; [exact I|]].
    + eapply edited_cast;
        [exact (ed_app _ _ _ _ _ _ (ed_mid (m_head m) (m_tail m) _ _ _ (ed_resp lexeme (gen_low_char (ostr_eqb value (Some [c_lbrack])))))
                 (ed_app _ _ _ _ _ _ (ed_refl (print true i))
                    (ed_app _ _ _ _ _ _ (ed_mid (m_head m0) (m_tail m0) _ _ _ (ed_resp lexeme0 s_TO))
                       (ed_app _ _ _ _ _ _ (ed_refl (print true i0))
                          (ed_mid (m_head m1) (m_tail m1) _ _ _ (ed_resp lexeme1 (gen_high_char (ostr_eqb value1 (Some [c_rbrack])))))))))
        |reflexivity| |].
      * simpl. norm_app. reflexivity.
      * simpl. unfold wrap. simpl. rewrite !print_add_tail by (apply not_none_add_head; assumption).
        rewrite !print_add_head by assumption. simpl. norm_app. reflexivity.
    + simpl. constructor; [apply not_none_add_tail, not_none_add_head; assumption|].
      constructor; [apply not_none_add_tail, not_none_add_head; assumption|constructor].
  - (* possibly negative: MINUS phrase_or_term *) un_case H v evs.
  - (* lessthan *) un_case H v evs.
  - (* greaterthan *) un_case H v evs.
  - (* field search: the tail of the name and the head of the colon are dropped where they stood *)
    inv_ok H.
    assert (Hfg : forall e, not_none e ->
              not_none (match e with Grp KGroup m1 x => Grp KFieldGroup (clone_meta_nameless m1) x | _ => e end)
              /\ print true (match e with Grp KGroup m1 x => Grp KFieldGroup (clone_meta_nameless m1) x | _ => e end)
                 = print true e).
    { intros e He. destruct e; auto. destruct k0; auto. }
    destruct (Hfg i) as [Hn Hp]; [assumption|].
    eexists. split; [apply Permutation_refl|]. split; [|split; [exact I|]].
    + eapply edited_cast;
        [exact (ed_app _ _ _ _ _ _ (ed_pre (m_head m) _ _ _ (ed_pre v0 _ _ _ (ed_drop (m_tail m))))
                 (ed_app _ _ _ _ _ _
                    (ed_app _ _ _ _ _ _ (ed_drop (m_head m0)) (ed_post (m_tail m0) _ _ _ (ed_resp lexeme [c_colon])))
                    (ed_refl (print true i))))
        |reflexivity| |].
      * simpl. unfold wrap. norm_app. reflexivity.
      * simpl. unfold wrap. simpl. rewrite print_add_head by exact Hn. rewrite Hp.
        unfold head_of, sv_tail. simpl. norm_app. reflexivity.
    + simpl. constructor; [apply not_none_add_head; exact Hn|constructor].
  - (* proximity, explicit *) destruct (int_of_lexeme s); [|discriminate]. po_case H v evs.
  - (* proximity, implicit *) po_case H v evs.
  - (* boost, explicit *) destruct (dec_of_lexeme s); [|discriminate]. po_case H v evs.
  - (* boost, implicit *) po_case H v evs.
  - (* fuzzy, explicit *) destruct (dec_of_lexeme s); [|discriminate]. po_case H v evs.
  - (* fuzzy, implicit *) po_case H v evs.
  - (* TO as a term *)
    inv_ok H. eexists. split; [apply Permutation_refl|]. split; [|split; [exact I|constructor]].
    eapply edited_cast; [exact (ed_mid (m_head m) (m_tail m) _ _ _ (ed_resp lexeme s))|reflexivity| |].
    + simpl. norm_app. reflexivity.
    + simpl. unfold wrap. simpl. norm_app. reflexivity.
Qed.

Section AnyTablesEdited.
  Variable tb : tables.
  Variable s : str.

  Definition EInv (lexerr : option (nat * str)) (c : config) : Prop :=
    (exists E, Permutation (c_dropped c) E /\
               edited E s (stack_text (c_vals c) ++ render (c_toks c) ++ err_rest lexerr)) /\
    Forall val_ok (c_vals c) /\ Forall children_ok (c_vals c).

  Lemma estep_next lexerr c c' : step tb lexerr c = Next c' -> EInv lexerr c -> EInv lexerr c'.
  Proof.
    intros Hs [[E [HP HE]] [Hok Hch]].
    destruct (step_cases _ _ _ _ Hs) as [[t [rest [n [Htoks [Hact Hc']]]]]|
                                         [p [lhs [rhs [a [v [evs [g [Hact [Hnth [Hlen [Hnr [Hrun [Hg Hc']]]]]]]]]]]]]].
    - subst c'. unfold EInv. cbn [c_vals c_toks c_dropped c_states]. split; [|split].
      + exists E. split; [exact HP|]. rewrite Htoks in HE.
        eapply edited_cast; [exact HE|reflexivity|reflexivity|].
        rewrite stack_text_cons, token_value_text. unfold render. simpl. rewrite <- !app_assoc. reflexivity.
      + constructor; [apply token_value_ok|exact Hok].
      + constructor; [apply token_value_ok|exact Hch].
    - subst c'. unfold EInv. cbn [c_vals c_toks c_dropped c_states]. set (n := length rhs) in *.
      destruct (run_action_edited _ _ _ _ Hrun) as [evs' [Hp' [He' [Hv1 Hv2]]]].
      { apply Forall_rev, Forall_firstn, Hok. } { apply Forall_rev, Forall_firstn, Hch. }
      split; [|split].
      + exists (E ++ evs'). split; [apply Permutation_app; assumption|].
        eapply ed_seq; [exact HE|].
        rewrite stack_text_cons, (stack_text_split n (c_vals c)), <- !app_assoc.
        apply ed_pre. apply ed_post. exact He'.
      + constructor; [exact Hv1|apply Forall_skipn, Hok].
      + constructor; [exact Hv2|apply Forall_skipn, Hch].
  Qed.

  Lemma erun lexerr : forall fuel c t evs,
    run tb lexerr fuel c = Done (Ok t) evs -> EInv lexerr c ->
    exists E, Permutation evs E /\ edited E s (print true t).
  Proof.
    induction fuel as [|f IH]; intros c t evs H HI; simpl in H; [discriminate|].
    destruct (step tb lexerr c) as [c'|r evs1] eqn:Hs.
    - eapply IH; [exact H|]. eapply estep_next; eauto.
    - inversion H; subst; clear H. destruct (step_final _ _ _ _ _ Hs) as [below [Hv He]].
      destruct HI as [[E [HP HE]] _]. rewrite Hv in HE. subst evs1.
      exists (E ++ drops [stack_text below; render (c_toks c); match lexerr with Some e => snd e | None => [] end]).
      split; [apply Permutation_app; [exact HP|apply Permutation_refl]|].
      eapply ed_seq; [exact HE|]. rewrite stack_text_cons. simpl full_text.
      assert (Er : err_rest lexerr = match lexerr with Some e => snd e | None => [] end)
        by (destruct lexerr as [[? ?]|]; reflexivity).
      rewrite Er.
      eapply edited_cast;
        [exact (ed_app _ _ _ _ _ _ (ed_drop (stack_text below))
                 (ed_app _ _ _ _ _ _ (ed_refl (print true t))
                    (ed_app _ _ _ _ _ _ (ed_drop (render (c_toks c)))
                       (ed_drop (match lexerr with Some e => snd e | None => [] end)))))
        |reflexivity| |].
      + rewrite <- !app_assoc. reflexivity.
      + simpl. rewrite app_nil_r. reflexivity.
  Qed.

  (* without any token nothing can be accepted, whatever the tables *)
  Lemma run_no_tokens lexerr fuel ev0 t evs : run tb lexerr fuel (init_config [] ev0) = Done (Ok t) evs -> False.
  Proof.
    destruct fuel as [|f]; simpl; [discriminate|].
    assert (Hs : forall r e, step tb lexerr (init_config [] ev0) = Final (Ok r) e -> False).
    { intros r e H. apply step_final in H. destruct H as [below [Hv _]]. discriminate Hv. }
    destruct (step tb lexerr (init_config [] ev0)) as [c'|r e] eqn:Hst.
    - exfalso. destruct (step_cases _ _ _ _ Hst) as [[t0 [rest [n [Htoks _]]]]|
                          [p [lhs [rhs [a [v [ev [g [_ [_ [Hlen [_ [Hrun _]]]]]]]]]]]]]; [discriminate|].
      simpl in Hlen. destruct rhs; [|simpl in Hlen; lia]. simpl in Hrun. destruct a; discriminate.
    - intros H. inversion H; subst. eapply Hs. reflexivity.
  Qed.
End AnyTablesEdited.

(* C01 for ANY tables, WITHOUT guard: the printed tree is the input edited by the ghost events of the run
   (each dropped text removed, each token text replaced by what was printed for it), up to their order *)
Theorem parse_with_edited tb s t evs :
  parse_with tb s = Done (Ok t) evs -> exists E, Permutation evs E /\ edited E s (print true t).
Proof.
  unfold parse_with. destruct (lex s) as [toks e] eqn:Hlex. intros H.
  destruct toks as [|t0 toks']; [exfalso; eapply run_no_tokens; exact H|].
  eapply erun; [exact H|]. unfold EInv, init_config. simpl. split; [|split; constructor].
  exists []. split; [constructor|].
  eapply edited_cast; [apply ed_refl|reflexivity|reflexivity|].
  symmetry. apply (lex_lossless s (t0 :: toks') e Hlex). discriminate.
Qed.

Corollary parse_with_edited_length tb s t evs :
  parse_with tb s = Done (Ok t) evs -> zlen (print true t) = (zlen s + evs_delta evs)%Z.
Proof.
  intros H. destruct (parse_with_edited _ _ _ _ H) as [E [HP HE]].
  rewrite (edited_length _ _ _ HE), (evs_delta_perm _ _ HP). reflexivity.
Qed.

(* C01_any_tables again, as a corollary *)
Corollary parse_with_lossless_again tb s t evs :
  parse_with tb s = Done (Ok t) evs -> all_trivial evs -> print true t = s.
Proof.
  intros H Ht. destruct (parse_with_edited _ _ _ _ H) as [E [HP HE]]. symmetry.
  eapply edited_trivial; [exact HE|]. unfold all_trivial in *. eapply Permutation_Forall; eassumption.
Qed.
